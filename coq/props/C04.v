(* C04 -- property theorems only.  Each is closed by `exact` of a lemma from
   proofs/ControllerProofs.v and followed by Print Assumptions.
   Model: coq/model/Controller.v (ExecutionController.update_plan / __call__,
   ExecutionPhase.depends_on, NumpyInterpreter.run_single_step). *)
From Coq Require Import List Relations Permutation.
Import ListNotations.
From Dagrt Require Import Controller ControllerProofs.

(* A step that is not cut short visits every statement of the phase exactly once, each after all
   of its dependencies -- for every iteration order of the dependency sets (the sdeps lists in ph),
   every iteration order ro of the root set, every guard valuation / stateful target, every
   sequence of dynamic requests, and whatever state the controller was left in. *)
Theorem C04_visits : forall ph ro target st,
  phase_wf ph -> same_members ro (roots ph) -> never_stops ph target ->
  let o := run_single_step st ph ro target in
  o_status o = Finished /\ Permutation (visited (o_log o)) (ids ph) /\ NoDup (visited (o_log o)) /\
  respects_deps ph (visited (o_log o)).
Proof. exact step_visits. Qed.
Print Assumptions C04_visits.

(* Any step (cut short or not): what was visited, followed by what is still planned, is a
   duplicate-free dependency-respecting enumeration of the whole phase; the step ends Finished
   (then nothing is left), CutShort (target raised / consumer closed the generator) or with the
   KeyError of a request outside the phase -- never AssertionError, RecursionError or out of fuel;
   every dynamic request is a no-op. *)
Theorem C04_prefix : forall ph ro target st,
  phase_wf ph -> same_members ro (roots ph) ->
  let o := run_single_step st ph ro target in
  exists rest,
    Permutation (visited (o_log o) ++ rest) (ids ph) /\ NoDup (visited (o_log o) ++ rest) /\
    respects_deps ph (visited (o_log o) ++ rest) /\
    plan (o_state o) = rest /\ (o_status o = Finished -> rest = []) /\
    (o_status o = Finished \/ o_status o = CutShort \/ o_status o = Failed KeyError) /\
    (never_stops ph target -> o_status o = Finished) /\
    (forall i e, In (LSplice i e) (o_log o) -> e = []).
Proof. exact step_prefix. Qed.
Print Assumptions C04_prefix.

(* ... in particular the visited list itself is a duplicate-free, dependency-closed list of
   statements of the phase *)
Theorem C04_cut_short : forall ph ro target st,
  phase_wf ph -> same_members ro (roots ph) ->
  let o := run_single_step st ph ro target in
  NoDup (visited (o_log o)) /\ respects_deps ph (visited (o_log o)) /\ incl (visited (o_log o)) (ids ph) /\
  (o_status o = Finished \/ o_status o = CutShort \/ o_status o = Failed KeyError).
Proof. exact step_cut_short. Qed.
Print Assumptions C04_cut_short.

(* exec_* is called exactly for the visited statements whose guard held, in visit order: a
   statement with a false guard is visited (it is in the list C04_visits talks about, so its
   dependents run) and causes no exec callback.  Holds for every phase and target. *)
Theorem C04_guard_false_counts : forall ph ro target st,
  let o := run_single_step st ph ro target in
  execd (o_log o) = guarded target [] (visited (o_log o)).
Proof. exact step_guard_false_counts. Qed.
Print Assumptions C04_guard_false_counts.

(* within a step of a well-formed phase every update_plan(phase, new_deps) leaves the plan unchanged *)
Theorem C04_dynamic_noop : forall ph ro target st,
  phase_wf ph -> same_members ro (roots ph) ->
  forall i early, In (LSplice i early) (o_log (run_single_step st ph ro target)) -> early = [].
Proof. exact step_dynamic_noop. Qed.
Print Assumptions C04_dynamic_noop.

(* update_plan from an arbitrary state: it succeeds; the spliced list `early` goes in front of the
   old plan, is duplicate-free, disjoint from executed and planned ids, contains every requested
   id that is neither executed nor planned, contains only statements reachable from a requested id,
   and each of its elements comes after all of its dependencies that are not executed or planned. *)
Theorem C04_dynamic_general : forall ph st req,
  phase_wf ph -> incl req (ids ph) ->
  exists early st', update_plan ph st req = Ok (early, st') /\
    plan st' = early ++ plan st /\ executed st' = executed st /\
    (forall x, In x (planned st') <-> In x early \/ In x (planned st)) /\
    NoDup early /\
    (forall x, In x early -> ~ In x (executed st) /\ ~ In x (planned st) /\ In x (ids ph)) /\
    (forall x, In x req -> In x (executed st) \/ In x (planned st) \/ In x early) /\
    (forall l1 x l2, early = l1 ++ x :: l2 ->
       forall d, In d (deps_of ph x) -> In d (executed st) \/ In d (planned st) \/ In d l1) /\
    (forall z, In z early -> exists r, In r req /\ reach ph r z).
Proof. exact update_plan_general. Qed.
Print Assumptions C04_dynamic_general.

(* nothing is executed twice, from any consistent controller state, any target, any requests, any fuel *)
Theorem C04_nothing_twice : forall ph target, acyclic ph -> forall f st hist, state_ok st ->
  let o := run ph target f st hist in
  NoDup (visited (o_log o)) /\ (forall x, In x (visited (o_log o)) -> ~ In x (executed st)).
Proof. exact run_nothing_twice. Qed.
Print Assumptions C04_nothing_twice.

(* the fuel of the model is adequate: a step of a well-formed phase never runs out of it
   (and the assert in update_plan never fires) *)
Theorem C04_fuel_adequate : forall ph ro target st,
  phase_wf ph -> same_members ro (roots ph) ->
  let s := o_status (run_single_step st ph ro target) in
  s <> LoopOutOfFuel /\ s <> DfsOutOfFuel /\ s <> Failed AssertionError.
Proof. exact step_fuel_adequate. Qed.
Print Assumptions C04_fuel_adequate.

(* reset() makes a step independent of whatever the controller held before (used by C11) *)
Theorem C04_stale_state : forall ph ro target st st',
  run_single_step st ph ro target = run_single_step st' ph ro target.
Proof. exact step_stale_state. Qed.
Print Assumptions C04_stale_state.
