(* C18 -- property theorems only.  Each is closed by `exact` of a lemma from
   proofs/ and followed by Print Assumptions.  `collapse finder_unary_combines` is the
   model of dagrt.expression.collapse_constants for the source shape found in the working
   tree (coq/gen/GenC18.v); the premise `finder_unary_combines = true` is discharged by
   eq_refl, so this file stops compiling if the unclassified-pass-through-node defect
   (fixes/C18_unary_combine.patch) is present. *)
From Coq Require Import List ZArith String.
From Dagrt Require Import GenC18 Collapse CollapseProofs.

(* Full statement: for every well-formed expression (no Sum/Product without children), every
   set of free variables and every supplier of names, collapse_constants returns normally; no
   hoisted term mentions a free variable; and if the supplied names are pairwise distinct and
   do not occur in the expression, every new variable is assigned exactly once and the
   rewritten expression, with the hoisted terms substituted back or bound in order, has the
   value of the original under every valuation and every interpretation of quotient, power,
   logical not and the function symbols (calls with keyword arguments included). *)
Definition C18_full_statement : Prop :=
  forall (fresh : nat -> string) (free : list string) (e : expr),
    wfb e = true ->
    exists e' asg n,
      collapse finder_unary_combines fresh free e = Ok (e', asg, n) /\
      Forall (fun xc => forall v, In v free -> ~ In v (names (snd xc))) asg /\
      (NoDup (map fresh (seq 0 n)) ->
       (forall i, i < n -> ~ In (fresh i) (names e)) ->
       NoDup (map fst asg) /\ map fst asg = map fresh (seq 0 n) /\
       forall qop pop nop F Fk rho,
         eval qop pop nop F Fk rho (subst asg e') = eval qop pop nop F Fk rho e /\
         eval qop pop nop F Fk (bind_all qop pop nop F Fk rho asg) e' = eval qop pop nop F Fk rho e).

Theorem C18_full : C18_full_statement.
Proof. exact (full_flag finder_unary_combines eq_refl). Qed.
Print Assumptions C18_full.

Theorem C18_value : forall fresh free e e' asg n,
  collapse finder_unary_combines fresh free e = Ok (e', asg, n) ->
  NoDup (map fresh (seq 0 n)) ->
  (forall i, i < n -> ~ In (fresh i) (names e)) ->
  forall qop pop nop F Fk rho,
    eval qop pop nop F Fk (bind_all qop pop nop F Fk rho asg) e' = eval qop pop nop F Fk rho e /\
    eval qop pop nop F Fk rho (subst asg e') = eval qop pop nop F Fk rho e.
Proof. exact (collapse_value_flag finder_unary_combines eq_refl). Qed.
Print Assumptions C18_value.

Theorem C18_constant : forall fresh free e e' asg n,
  collapse finder_unary_combines fresh free e = Ok (e', asg, n) ->
  Forall (fun xc => (forall v, In v free -> ~ In v (names (snd xc))) /\
                    is_atomic (snd xc) = false /\ incl (names (snd xc)) (names e)) asg.
Proof. exact (collapse_constant_flag finder_unary_combines eq_refl). Qed.
Print Assumptions C18_constant.

Theorem C18_once : forall fresh free e e' asg n,
  collapse finder_unary_combines fresh free e = Ok (e', asg, n) ->
  NoDup (map fresh (seq 0 n)) ->
  NoDup (map fst asg) /\ map fst asg = map fresh (seq 0 n) /\ List.length asg = n.
Proof. exact (collapse_once_flag finder_unary_combines eq_refl). Qed.
Print Assumptions C18_once.

Theorem C18_total : forall fresh free e,
  wfb e = true -> exists e' asg n, collapse finder_unary_combines fresh free e = Ok (e', asg, n).
Proof. exact (collapse_total_flag finder_unary_combines eq_refl). Qed.
Print Assumptions C18_total.

Theorem C18_empty_sum_typeerror : forall fresh free e,
  wfb e = false -> collapse finder_unary_combines fresh free e = TypeError.
Proof. exact (collapse_error_flag finder_unary_combines eq_refl). Qed.
Print Assumptions C18_empty_sum_typeerror.
