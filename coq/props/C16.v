(* C16 -- property theorems only.  Each is closed by `exact` of a lemma from proofs/FuseProofs.v or
   proofs/FuseSemProofs.v and followed by Print Assumptions.
   The flags come from the source tree: coq/gen/GenLang.v (what get_read_variables covers, the
   is_state_variable lists) and coq/gen/GenC16.v (the four shape switches of dagrt/transform.py:
   fuse_sw_thread, fuse_sw_pred, fuse_sw_guard, fuse_sw_loopv).  The theorems on naming and on run
   equivalence type-check only against the repaired shape (all four switches true); for the other shapes
   proofs/FuseWitnessProofs.v has policy_refuted, disjoint_refuted, run_equiv_refuted. *)
From Coq Require Import List String.
Import ListNotations.
From Dagrt Require Import GenLang GenC16 Lang Sched Builder Fuse FuseProofs FuseSemProofs.
Local Open Scope list_scope.

Definition is_state : var -> bool := is_state_of state_exact state_prefixes.
Notation fuse_stmts' := (fuse_stmts lang_lhs_sub_reads lang_loop_bound_reads fuse_sw_guard fuse_sw_loopv).
Notation idents' := (idents lang_lhs_sub_reads lang_loop_bound_reads).

(* Full statement of the property for the code as it is now. *)
Definition C16_full_statement : Prop :=
  (* unique ids *)
  (forall pred clash a b l, fuse_stmts' pred clash a b = FOk l -> NoDup (map fid a) -> NoDup (map fid l)) /\
  (* dependencies intact, inside their own method *)
  (forall pred clash a b l, fuse_stmts' pred clash a b = FOk l -> NoDup (map fid b) ->
     exists (f : string -> string) b',
       l = a ++ b' /\
       Forall2 (fun st st' => fid st' = f (fid st) /\ fdeps st' = map f (fdeps st)) b b' /\
       (forall x y, In x (map fid b) -> In y (map fid b) -> f x = f y -> x = y) /\
       (forall st', In st' b' -> incl (fdeps st') (map fid b'))) /\
  (* temporaries disjoint, persistent policy, run equivalence *)
  stmt_disjoint is_state fuse_sw_pred fuse_sw_guard /\
  stmt_policy is_state fuse_sw_pred /\
  stmt_run_equiv is_state fuse_sw_pred fuse_sw_guard fuse_sw_loopv.

(* the statements below speak about `idents true true`: get_all_used_identifiers as the code computes it
   now (both get_read_variables repairs of C08 present).  Fails to type-check if that changes. *)
Theorem C16_identifier_sets : lang_lhs_sub_reads = true /\ lang_loop_bound_reads = true.
Proof. exact (conj eq_refl eq_refl). Qed.
Print Assumptions C16_identifier_sets.

(* ids are unique in the fused phase whenever they were in the first method (any shape of the code) *)
Theorem C16_ids_unique : forall pred clash a b l,
  fuse_stmts' pred clash a b = FOk l -> NoDup (map fid a) -> NoDup (map fid l).
Proof. exact (fuse_stmts_ids_unique _ _ _ _). Qed.
Print Assumptions C16_ids_unique.

(* the first method's statements are untouched; ids and dependencies of the second method are mapped by
   one function that is injective on its ids, and the mapped dependencies stay inside the second method
   (any shape of the code) *)
Theorem C16_deps_intact : forall pred clash a b l,
  fuse_stmts' pred clash a b = FOk l -> NoDup (map fid b) ->
  exists (f : string -> string) b',
    l = a ++ b' /\
    Forall2 (fun st st' => fid st' = f (fid st) /\ fdeps st' = map f (fdeps st)) b b' /\
    (forall x y, In x (map fid b) -> In y (map fid b) -> f x = f y -> x = y) /\
    (forall st', In st' b' -> incl (fdeps st') (map fid b')).
Proof. exact (fuse_stmts_deps _ _ _ _). Qed.
Print Assumptions C16_deps_intact.

(* contains both: the first method as it is, then the second statement by statement under the
   substitution (any shape: guards / loop variables are renamed exactly when the switches say so) *)
Theorem C16_contains_both : forall pred clash a b l,
  fuse_stmts' pred clash a b = FOk l ->
  exists m b',
    subst_of lang_lhs_sub_reads lang_loop_bound_reads pred clash a b = Some m /\ l = a ++ b' /\
    Forall2 (fun st st' => fcond st' = (if fuse_sw_guard then ren (sub m) (fcond st) else fcond st) /\
                           fkd st' = ren_kind fuse_sw_loopv (sub m) (fkd st)) b b'.
Proof. exact (fuse_stmts_contains _ _ _ _). Qed.
Print Assumptions C16_contains_both.

(* a name used by both parts of the fused phase was used by both methods and is one the predicate
   (the caller's, default `not is_state_variable`) keeps *)
Theorem C16_temporaries_disjoint : stmt_disjoint is_state fuse_sw_pred fuse_sw_guard.
Proof. exact (disjoint_holds is_state). Qed.
Print Assumptions C16_temporaries_disjoint.

(* a name is renamed iff both methods use it and the predicate asks; by default persistent variables,
   <t> and <dt> are never renamed *)
Theorem C16_persistent_policy : stmt_policy is_state fuse_sw_pred.
Proof. exact (policy_holds is_state). Qed.
Print Assumptions C16_persistent_policy.

(* run equivalence (program order of the fused phase) *)
Theorem C16_run_equiv : stmt_run_equiv is_state fuse_sw_pred fuse_sw_guard fuse_sw_loopv.
Proof. exact (run_equiv_holds is_state). Qed.
Print Assumptions C16_run_equiv.

(* run equivalence for every schedule Lf of the fused phase (any list of its statements, in particular
   every order the interpreter can choose): Lf is an interleaving of a schedule la of the first method
   and a schedule lb of the second; if those two complete when run alone, the fused schedule completes
   with the same values for everything either method uses (the second method's up to the renaming, its
   kept names literally) and the events of both *)
Theorem C16_run_equiv_all_schedules :
  forall F g p clash a b l m sg,
    clash_enum (idents' a) (idents' b) clash ->
    fuse_stmts' (eff_pred is_state fuse_sw_pred p) clash a b = FOk l ->
    subst_of lang_lhs_sub_reads lang_loop_bound_reads (eff_pred is_state fuse_sw_pred p) clash a b = Some m ->
    run_hyps is_state p a b m sg ->
    forall Lf, incl Lf l ->
    exists la lb,
      incl la a /\ incl lb b /\ la = filter (fun st => mem (fid st) (map fid a)) Lf /\
      forall sA eA sB eB,
        run_list F g (map lower la) (RRun sg []) = RRun sA eA ->
        run_list F g (map lower lb) (RRun sg []) = RRun sB eB ->
        exists sF eF,
          run_list F g (map lower Lf) (RRun sg []) = RRun sF eF /\
          (forall x, In x (idents' a) -> sF x = sA x) /\
          (forall x, In x (idents' b) -> sF (sub m x) = sB x) /\
          (forall x, In x (idents' b) -> want is_state p x = false -> sF x = sB x) /\
          merge eA eB eF.
Proof. exact (run_equiv_all is_state). Qed.
Print Assumptions C16_run_equiv_all_schedules.

(* DAG level: the initial phases must agree and are kept; every phase name carries the fusion of the
   two phases of that name; both present: default transitions agree, name / transition of the first
   method, statements = fuse_stmts under the effective predicate.  `phase_correspondences` is not a
   parameter of the model: the code never looks at it. *)
Theorem C16_fused_dag : forall p order clashes d1 d2 d,
  fuse_two_dags lang_lhs_sub_reads lang_loop_bound_reads is_state fuse_sw_thread fuse_sw_pred fuse_sw_guard
                fuse_sw_loopv p order clashes d1 d2 = FOk d -> NoDup order ->
  d_init d1 = d_init d2 /\ d_init d = d_init d1 /\
  (forall n, In n order ->
     exists ph,
       fuse_two_phases lang_lhs_sub_reads lang_loop_bound_reads is_state fuse_sw_pred fuse_sw_guard fuse_sw_loopv
                       n (if fuse_sw_thread then p else None) (oget n clashes)
                       (pget n (d_phases d1)) (pget n (d_phases d2)) = FOk ph
       /\ pget n (d_phases d) = Some ph) /\
  (forall n, ~ In n order -> pget n (d_phases d) = None).
Proof. exact (fuse_two_dags_spec _ _ _ _ _ _ _). Qed.
Print Assumptions C16_fused_dag.

Theorem C16_fused_phase : forall n p clash pa pb ph,
  fuse_two_phases lang_lhs_sub_reads lang_loop_bound_reads is_state fuse_sw_pred fuse_sw_guard fuse_sw_loopv
                  n p clash (Some pa) (Some pb) = FOk ph ->
  ph_next pa = ph_next pb /\ ph_name ph = ph_name pa /\ ph_next ph = ph_next pa /\
  fuse_stmts' (eff_pred is_state fuse_sw_pred p) clash (ph_stmts pa) (ph_stmts pb) = FOk (ph_stmts ph).
Proof. exact (fuse_two_phases_both _ _ _ _ _ _). Qed.
Print Assumptions C16_fused_phase.

(* the name generators never run out of fuel: OutOfFuel is not a possible result *)
Theorem C16_no_out_of_fuel : forall p order clashes d1 d2,
  fuse_two_dags lang_lhs_sub_reads lang_loop_bound_reads is_state fuse_sw_thread fuse_sw_pred fuse_sw_guard
                fuse_sw_loopv p order clashes d1 d2 <> FOutOfFuel.
Proof. exact (fuse_two_dags_no_fuel _ _ _ _ _ _ _). Qed.
Print Assumptions C16_no_out_of_fuel.

Theorem C16_full : C16_full_statement.
Proof.
  exact (conj C16_ids_unique (conj C16_deps_intact (conj C16_temporaries_disjoint
        (conj C16_persistent_policy C16_run_equiv)))).
Qed.
Print Assumptions C16_full.
