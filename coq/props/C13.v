(* C13 -- property theorems only.  Each is closed by `exact` of a lemma from proofs/NamesProofs.v and followed
   by Print Assumptions.  The model (model/Names.v) is parameterised by the shape switch
   GenC13.fortran_casefold; the last theorem needs it to be `true` (dagrt/codegen/fortran.py uses the
   case-insensitive unique-name generator of fixes/C13_fortran_casefold.patch). *)
From Coq Require Import List String Bool.
From Dagrt Require Import GenC13 Names NamesProofs.
Import ListNotations.
Open Scope string_scope.

(* Full statement of the property for the code as it is now (constants and switch from GenC13.v):
   for every history of manager calls, every later lookup repeats the first answer; bindings of different
   (name space, key) pairs are different under the target's comparison; every identifier is legal in the
   target and not one the generator keeps for itself; persistent names are instance/state storage.
   The parts that do not hold are refuted below (C13_*_refuted) and proved with their explicit exclusions
   (C13_*_partial). *)
Definition C13_full_statement : Prop :=
  (* stability *)
  (forall s k v s1 ops outs s2, py_step s (PGetItem k) = Ok (Some v, s1) -> py_run s1 ops = Ok (outs, s2) ->
     (is_state_variable k = false -> ~ In PClear ops) -> py_step s2 (PGetItem k) = Ok (Some v, s2)) /\
  (forall s op o s1 ops outs s2, (forall p, op <> FUnique p) ->
     f_step fortran_casefold s op = Ok (o, s1) -> f_run fortran_casefold s1 ops = Ok (outs, s2) ->
     f_step fortran_casefold s2 op = Ok (o, s2)) /\
  (* Python *)
  (forall s sp1 k1 v1 sp2 k2 v2, py_reach s -> py_lookup s sp1 k1 = Some v1 -> py_lookup s sp2 k2 = Some v2 ->
     (sp1 <> sp2 \/ k1 <> k2) -> v1 <> v2) /\
  (forall s sp k v, py_reach s -> py_lookup s sp k = Some v ->
     match sp with
     | Local => py_identifier v = true
     | Global => exists a, v = py_self ++ a /\ py_identifier a = true
     | Function => exists a, v = py_function_prefix ++ a /\ py_identifier a = true
     end) /\
  (* Fortran *)
  (forall s sp1 k1 v1 sp2 k2 v2, f_reach fortran_casefold s ->
     f_lookup s sp1 k1 = Some v1 -> f_lookup s sp2 k2 = Some v2 -> (sp1 <> sp2 \/ k1 <> k2) ->
     lower v1 <> lower v2) /\
  (forall s sp k v, f_reach_wf fortran_casefold s -> f_lookup s sp k = Some v ->
     f_identifier v = true /\ (assoc k f_global_start = None -> f_reserved v = false)).

(* ---------------------------------------------------------------- generator *)

(* the candidate search ends within |existing|+1 tries: never OutOfFuel (Python: never loops for ever) *)
Theorem C13_gen_terminates : forall cf g based_on, exists v g', gen_call cf g based_on = Ok (v, g').
Proof. exact gen_call_total. Qed.
Print Assumptions C13_gen_terminates.

(* a generated name is new under the generator's comparison and is remembered *)
Theorem C13_gen_fresh : forall cf g based_on v g',
  gen_call cf g based_on = Ok (v, g') ->
  out_shape (g_fp g) based_on v /\ conflicting cf (g_existing g) v = false /\
  g_existing g' = v :: g_existing g /\ g_fp g' = g_fp g.
Proof. exact gen_call_spec. Qed.
Print Assumptions C13_gen_fresh.

(* the managers' constructors succeed, and no sequence of calls fails *)
Theorem C13_managers_total :
  py_init = Ok py0 /\ (forall cf, f_init cf = Ok f0) /\
  (forall ops s, exists outs s', py_run s ops = Ok (outs, s')) /\
  (forall cf ops s, exists outs s', f_run cf s ops = Ok (outs, s')).
Proof. exact (conj py_init_ok (conj f_init_ok (conj py_run_total f_run_total))). Qed.
Print Assumptions C13_managers_total.

(* ---------------------------------------------------------------- stability *)

Theorem C13_stable_py : forall s sp k v s1 ops outs s2,
  py_step s (py_op_of sp k) = Ok (Some v, s1) -> py_run s1 ops = Ok (outs, s2) ->
  (sp = Local -> ~ In PClear ops) ->
  py_step s2 (py_op_of sp k) = Ok (Some v, s2).
Proof. exact py_stable. Qed.
Print Assumptions C13_stable_py.

Theorem C13_stable_py_getitem : forall s k v s1 ops outs s2,
  py_step s (PGetItem k) = Ok (Some v, s1) -> py_run s1 ops = Ok (outs, s2) ->
  (is_state_variable k = false -> ~ In PClear ops) ->
  py_step s2 (PGetItem k) = Ok (Some v, s2).
Proof. exact py_stable_getitem. Qed.
Print Assumptions C13_stable_py_getitem.

Theorem C13_stable_f : forall s op o s1 ops outs s2,
  (forall p, op <> FUnique p) ->
  f_step fortran_casefold s op = Ok (o, s1) -> f_run fortran_casefold s1 ops = Ok (outs, s2) ->
  f_step fortran_casefold s2 op = Ok (o, s2).
Proof. exact (f_stable fortran_casefold). Qed.
Print Assumptions C13_stable_f.

(* ---------------------------------------------------------------- injectivity *)

Theorem C13_injective_py : forall s sp1 k1 v1 sp2 k2 v2,
  py_reach s -> py_lookup s sp1 k1 = Some v1 -> py_lookup s sp2 k2 = Some v2 ->
  (sp1 <> sp2 \/ k1 <> k2) -> v1 <> v2.
Proof. exact (fun s sp1 k1 v1 sp2 k2 v2 R => py_injective s sp1 k1 v1 sp2 k2 v2 (py_reach_inv s R)). Qed.
Print Assumptions C13_injective_py.

(* Fortran, as strings (holds with either generator): missing = the comparison that ignores case *)
Theorem C13_injective_f_partial : forall s sp1 k1 v1 sp2 k2 v2,
  f_reach fortran_casefold s -> f_lookup s sp1 k1 = Some v1 -> f_lookup s sp2 k2 = Some v2 ->
  (sp1 <> sp2 \/ k1 <> k2) -> v1 <> v2.
Proof.
  exact (fun s sp1 k1 v1 sp2 k2 v2 R =>
           f_injective_case_sensitive fortran_casefold s sp1 k1 v1 sp2 k2 v2 (f_reach_inv _ s R)).
Qed.
Print Assumptions C13_injective_f_partial.

(* the plain pytools generator (the unchanged tree): names that differ only in case collide *)
Theorem C13_injective_f_refuted_plain :
  exists k1 k2 v1 v2, k1 <> k2 /\ f_outputs false [FGetItem k1; FGetItem k2] = Some [v1; v2] /\ lower v1 = lower v2.
Proof. exact f_injective_lower_refuted_plain. Qed.
Print Assumptions C13_injective_f_refuted_plain.

(* temporaries from make_unique_fortran_name are new and stay different from later ones *)
Theorem C13_unique_fresh_f : forall s p o s',
  f_reach fortran_casefold s -> f_step fortran_casefold s (FUnique p) = Ok (o, s') ->
  ~ In (nrm fortran_casefold o) (map (nrm fortran_casefold) (g_existing (f_gen s))) /\
  (forall sp k v, f_lookup s sp k = Some v -> nrm fortran_casefold v <> nrm fortran_casefold o) /\
  g_existing (f_gen s') = o :: g_existing (f_gen s).
Proof. exact (fun s p o s' R => f_unique_fresh fortran_casefold s p o s' (f_reach_inv _ s R)). Qed.
Print Assumptions C13_unique_fresh_f.

(* ---------------------------------------------------------------- storage class *)

Theorem C13_storage_py : forall s k v s',
  py_reach s -> py_step s (PGetItem k) = Ok (Some v, s') ->
  (is_state_variable k = true -> prefix py_self v = true /\ prefix py_local_prefix v = false) /\
  (is_state_variable k = false -> prefix py_local_prefix v = true /\ prefix py_self v = false).
Proof. exact (fun s k v s' R => py_storage s k v s' (py_reach_inv s R)). Qed.
Print Assumptions C13_storage_py.

Theorem C13_storage_f : forall s k v s',
  f_reach fortran_casefold s -> f_step fortran_casefold s (FGetItem k) = Ok (v, s') ->
  (is_state_variable k = true -> prefix f_state_qualifier v = true) /\
  (is_state_variable k = false -> sall is_word v = true /\ prefix f_state_qualifier v = false).
Proof. exact (fun s k v s' R => f_storage fortran_casefold s k v s' (f_reach_inv _ s R)). Qed.
Print Assumptions C13_storage_f.

(* ---------------------------------------------------------------- legality *)

(* Python: missing = function identifiers without the <func> tag *)
Theorem C13_legal_py_partial : forall s sp k v,
  py_reach s -> py_lookup s sp k = Some v ->
  match sp with
  | Local => py_identifier v = true
  | Global => exists a, v = py_self ++ a /\ py_identifier a = true
  | Function => prefix py_func_tag k = true -> exists a, v = py_function_prefix ++ a /\ py_identifier a = true
  end.
Proof. exact (fun s sp k v R => py_legal s sp k v (py_reach_inv s R)). Qed.
Print Assumptions C13_legal_py_partial.

Theorem C13_legal_py_refuted :
  exists k v a, py_outputs [PFunction k] = Some [Some v] /\ v = py_function_prefix ++ a /\ py_identifier a = false.
Proof. exact py_legal_function_refuted. Qed.
Print Assumptions C13_legal_py_refuted.

(* Fortran: missing = the 63-character bound, and a letter in front of function names *)
Theorem C13_legal_f_partial : forall s sp k v,
  f_reach_wf fortran_casefold s -> f_lookup s sp k = Some v ->
  match sp with
  | Local | Global => f_name_chars v = true
  | Function => sall is_word v = true
  end.
Proof. exact (fun s sp k v R => f_legal_chars s sp k v (proj2 (f_reach_wf_inv _ s R))). Qed.
Print Assumptions C13_legal_f_partial.

Theorem C13_legal_f_unique : forall s p o s',
  f_reach fortran_casefold s -> f_step fortran_casefold s (FUnique p) = Ok (o, s') ->
  f_name_chars o = true /\ f_reserved o = false.
Proof. exact (fun s p o s' R => f_unique_legal fortran_casefold s p o s' (f_reach_inv _ s R)). Qed.
Print Assumptions C13_legal_f_unique.

Theorem C13_legal_f_refuted_length :
  exists k v, f_outputs fortran_casefold [FGetItem k] = Some [v] /\ f_name_chars v = true /\ f_identifier v = false.
Proof. exact (f_legal_length_refuted fortran_casefold). Qed.
Print Assumptions C13_legal_f_refuted_length.

Theorem C13_legal_f_refuted_function :
  exists k v, f_outputs fortran_casefold [FFunction k] = Some [v] /\ f_name_chars v = false.
Proof. exact (f_legal_function_refuted fortran_casefold). Qed.
Print Assumptions C13_legal_f_refuted_function.

(* ---------------------------------------------------------------- reserved identifiers *)

Theorem C13_reserved_py : forall s sp k v,
  py_reach s -> py_lookup s sp k = Some v ->
  match sp with
  | Local => existsb (String.eqb v) py_reserved_words = false
  | Global => assoc k py_global_start = None ->
              exists a, v = py_self ++ a /\ existsb (String.eqb a) py_reserved_words = false
  | Function => exists a, v = py_function_prefix ++ a /\ first_is is_us a = false
  end.
Proof. exact (fun s sp k v R => py_reserved s sp k v (py_reach_inv s R)). Qed.
Print Assumptions C13_reserved_py.

(* Fortran: missing = user variables whose own name starts with "dagrt_" *)
Theorem C13_reserved_f_partial : forall s sp k v,
  f_reach_wf fortran_casefold s -> f_lookup s sp k = Some v ->
  match sp with
  | Local => prefix f_internal_prefix k = false -> f_reserved v = false
  | Global => assoc k f_global_start = None -> f_reserved v = false
  | Function => True
  end.
Proof. exact (fun s sp k v R => f_reserved_ok s sp k v (proj2 (f_reach_wf_inv _ s R))). Qed.
Print Assumptions C13_reserved_f_partial.

Theorem C13_reserved_f_refuted :
  exists k v, f_outputs fortran_casefold [FGetItem k] = Some [v] /\ f_reserved v = true /\ In v f_own_tokens.
Proof. exact (f_reserved_refuted fortran_casefold). Qed.
Print Assumptions C13_reserved_f_refuted.

(* ---------------------------------------------------------------- Fortran's own comparison (needs the fix) *)

(* LAST: type-checks only when GenC13.fortran_casefold = true *)
Theorem C13_injective_f : forall s sp1 k1 v1 sp2 k2 v2,
  f_reach fortran_casefold s -> f_lookup s sp1 k1 = Some v1 -> f_lookup s sp2 k2 = Some v2 ->
  (sp1 <> sp2 \/ k1 <> k2) -> lower v1 <> lower v2.
Proof.
  exact (fun s sp1 k1 v1 sp2 k2 v2 (R : f_reach true s) =>
           f_injective_lower s sp1 k1 v1 sp2 k2 v2 (f_reach_inv true s R)).
Qed.
Print Assumptions C13_injective_f.
