(* C20 -- property theorems only.  Each is closed by `exact` of a lemma from
   proofs/WrapProofs.v and followed by Print Assumptions.

   k ranges over the tokenizers (shlex.split(posix=False) and the repaired
   split_outside_quotes), m over continuation markers, ind over indentation
   strings; python_lex, fortran_lex, the markers and indentation strings of
   the two generators come from gen/GenC20.v (regenerated from /repo). *)
From Coq Require Import List String Ascii ZArith Bool.
Import ListNotations.
From Dagrt Require Import GenC20 Wrap WrapProofs.
Open Scope list_scope.
Open Scope Z_scope.

(* The part of the property that is not token-level: what the target language reads
   (string literals whole, other characters in order, whitespace outside literals
   ignored) is the same before and after wrapping -- for every line, level and width. *)
Definition C20_full_statement : Prop :=
  target_ok python_lex python_marker (Str default_indentation) true false /\
  target_ok fortran_lex fortran_marker (Str fortran_indentation) false true.

(* re-reading the wrapped lines (markers removed, joined) gives the input's tokens *)
Theorem C20_tokens : forall k m line level width ind lines,
  ws_indent ind = true ->
  wrap_line_base (lex_of k) (pad_with m) line level width ind = WrapOk lines ->
  lex_of k (joined lines) = lex_of k line.
Proof. exact wrap_line_tokens. Qed.
Print Assumptions C20_tokens.

Theorem C20_tokens_per_line : forall k m line level width ind lines,
  forallb is_ws ind = true ->
  wrap_line_base (lex_of k) (pad_with m) line level width ind = WrapOk lines ->
  lex_all (lex_of k) (unmark lines) = lex_of k line.
Proof. exact wrap_line_tokens_lines. Qed.
Print Assumptions C20_tokens_per_line.

Theorem C20_only_ValueError : forall lexf pad line level width ind,
  wrap_line_base lexf pad line level width ind = WrapValueError <-> lexf line = LexValueError.
Proof. exact wrap_line_error. Qed.
Print Assumptions C20_only_ValueError.

(* every token is whole in exactly one line: line i is prefix_i ++ SPACE.join(group_i)
   (+ padding and marker), the groups partition the tokens in order *)
Theorem C20_atomic : forall lexf m line level width ind ts lines,
  lexf line = LexOk ts ->
  wrap_line_base lexf (pad_with m) line level width ind = WrapOk lines ->
  let lay := layout_of ind level width ts in
  lines = render m (slen (times level ind)) width lay /\
  List.concat (map snd lay) = ts /\
  (ts <> [] -> Forall (fun pg => snd pg <> []) lay) /\
  exists g rest, lay = ([], g) :: rest /\ Forall (fun pg => fst pg = ind) rest.
Proof. exact wrap_line_atomic. Qed.
Print Assumptions C20_atomic.

(* a shlex token that starts with a quote is a complete quoted string *)
Theorem C20_quoted_token_whole : forall line ts t q r,
  shlex_split line = LexOk ts -> In t ts -> t = q :: r -> is_quote q = true ->
  exists body, t = q :: body ++ [q] /\ ~ In q body.
Proof. exact shlex_quoted_whole. Qed.
Print Assumptions C20_quoted_token_whole.

Theorem C20_width : forall lexf m line level width ind ts lines,
  lexf line = LexOk ts ->
  wrap_line_base lexf (pad_with m) line level width ind = WrapOk lines ->
  Forall2 (fun pg l => (2 <= List.length (snd pg))%nat -> slen (times level ind) + slen l <= width)
          (layout_of ind level width ts) lines.
Proof. exact wrap_line_width. Qed.
Print Assumptions C20_width.

Theorem C20_continuation : forall lexf m line level width ind lines,
  wrap_line_base lexf (pad_with m) line level width ind = WrapOk lines ->
  let pw := width - slen (times level ind) in
  Forall (fun l => exists t, l = t ++ spaces (pw - 1 - slen t) ++ [m] /\
                             (slen t <= pw - 1 -> slen l = pw))
         (removelast lines) /\
  Forall (fun l => exists rest, l = ind ++ rest) (tl lines).
Proof. exact wrap_line_continuation. Qed.
Print Assumptions C20_continuation.

Theorem C20_relex : forall k line ts,
  lex_of k line = LexOk ts -> lex_of k (join_sp ts) = LexOk ts.
Proof. exact lex_relex. Qed.
Print Assumptions C20_relex.

(* layout only, under the explicit hypothesis that the tokenizer in use reads the line
   like the quote-aware one (for shlex: every string literal starts a token, no escaped
   or doubled quote) *)
Theorem C20_layout_partial : forall k m esc dbl line level width ind lines,
  ws_indent ind = true ->
  quoted_split esc line = lex_of k line ->
  wrap_line_base (lex_of k) (pad_with m) line level width ind = WrapOk lines ->
  tscan esc dbl (joined lines) = tscan esc dbl line.
Proof. exact layout_partial. Qed.
Print Assumptions C20_layout_partial.

(* the two generators as they are now: layout_claim is the negation of the statement
   while the generator uses shlex, and the statement itself once it uses the repaired
   tokenizer *)
Theorem C20_layout_python :
  layout_claim python_lex python_marker (Str default_indentation) true false.
Proof. exact (layout_claim_holds python_lex python_marker (Str default_indentation) true false eq_refl). Qed.
Print Assumptions C20_layout_python.

Theorem C20_layout_fortran :
  layout_claim fortran_lex fortran_marker (Str fortran_indentation) false true.
Proof. exact (layout_claim_holds fortran_lex fortran_marker (Str fortran_indentation) false true eq_refl). Qed.
Print Assumptions C20_layout_fortran.

Theorem C20_layout_refuted_shlex : forall m ind esc dbl, ~ target_ok LexShlex m ind esc dbl.
Proof. exact layout_refuted_shlex. Qed.
Print Assumptions C20_layout_refuted_shlex.

Theorem C20_doubled_quote_refuted : forall m ind,
  exists lines, wrap_line_base shlex_split (pad_with m) wit_doubled 0 80 ind = WrapOk lines /\
                joined lines = Str "x = 'it' 's'" /\
                tscan false true (joined lines) <> tscan false true wit_doubled.
Proof. exact layout_refuted_doubled. Qed.
Print Assumptions C20_doubled_quote_refuted.

Theorem C20_layout_repaired : forall m esc dbl ind,
  ws_indent ind = true -> target_ok (LexQuoted esc) m ind esc dbl.
Proof. exact layout_repaired. Qed.
Print Assumptions C20_layout_repaired.
