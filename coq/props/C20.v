(* C20 -- property theorems only.  Each is closed by `exact` of a lemma from
   proofs/WrapProofs.v and followed by Print Assumptions.

   k ranges over the tokenizers (shlex.split(posix=False) and the repaired
   split_outside_quotes), m over continuation markers, ind over indentation
   strings; python_lex, fortran_lex, the markers and indentation strings of
   the two generators come from gen/GenC20.v (regenerated from /repo). *)
From Coq Require Import List String Ascii ZArith Bool.
Import ListNotations.
From Dagrt Require Import GenC20 Wrap WrapProofs WrapEmit WrapEmitProofs.
Open Scope list_scope.
Open Scope Z_scope.

(* The part of the property that is not token-level: what the target language reads
   (string literals whole, other characters in order, whitespace outside literals
   ignored) is the same before and after wrapping -- for every line, level and width. *)
Definition C20_full_statement : Prop :=
  target_ok python_lex python_marker (Str default_indentation) true false /\
  target_ok fortran_lex fortran_marker (Str fortran_indentation) false true.

(* re-reading the wrapped lines (markers removed, joined) gives the input's tokens *)
Theorem C20_tokens : forall k m line level width ind lines,
  ws_indent ind = true ->
  wrap_line_base (lex_of k) (pad_with m) line level width ind = WrapOk lines ->
  lex_of k (joined lines) = lex_of k line.
Proof. exact wrap_line_tokens. Qed.
Print Assumptions C20_tokens.

Theorem C20_tokens_per_line : forall k m line level width ind lines,
  forallb is_ws ind = true ->
  wrap_line_base (lex_of k) (pad_with m) line level width ind = WrapOk lines ->
  lex_all (lex_of k) (unmark lines) = lex_of k line.
Proof. exact wrap_line_tokens_lines. Qed.
Print Assumptions C20_tokens_per_line.

Theorem C20_only_ValueError : forall lexf pad line level width ind,
  wrap_line_base lexf pad line level width ind = WrapValueError <-> lexf line = LexValueError.
Proof. exact wrap_line_error. Qed.
Print Assumptions C20_only_ValueError.

(* every token is whole in exactly one line: line i is prefix_i ++ SPACE.join(group_i)
   (+ padding and marker), the groups partition the tokens in order *)
Theorem C20_atomic : forall lexf m line level width ind ts lines,
  lexf line = LexOk ts ->
  wrap_line_base lexf (pad_with m) line level width ind = WrapOk lines ->
  let lay := layout_of ind level width ts in
  lines = render m (slen (times level ind)) width lay /\
  List.concat (map snd lay) = ts /\
  (ts <> [] -> Forall (fun pg => snd pg <> []) lay) /\
  exists g rest, lay = ([], g) :: rest /\ Forall (fun pg => fst pg = ind) rest.
Proof. exact wrap_line_atomic. Qed.
Print Assumptions C20_atomic.

(* a shlex token that starts with a quote is a complete quoted string *)
Theorem C20_quoted_token_whole : forall line ts t q r,
  shlex_split line = LexOk ts -> In t ts -> t = q :: r -> is_quote q = true ->
  exists body, t = q :: body ++ [q] /\ ~ In q body.
Proof. exact shlex_quoted_whole. Qed.
Print Assumptions C20_quoted_token_whole.

Theorem C20_width : forall lexf m line level width ind ts lines,
  lexf line = LexOk ts ->
  wrap_line_base lexf (pad_with m) line level width ind = WrapOk lines ->
  Forall2 (fun pg l => (2 <= List.length (snd pg))%nat -> slen (times level ind) + slen l <= width)
          (layout_of ind level width ts) lines.
Proof. exact wrap_line_width. Qed.
Print Assumptions C20_width.

Theorem C20_continuation : forall lexf m line level width ind lines,
  wrap_line_base lexf (pad_with m) line level width ind = WrapOk lines ->
  let pw := width - slen (times level ind) in
  Forall (fun l => exists t, l = t ++ spaces (pw - 1 - slen t) ++ [m] /\
                             (slen t <= pw - 1 -> slen l = pw))
         (removelast lines) /\
  Forall (fun l => exists rest, l = ind ++ rest) (tl lines).
Proof. exact wrap_line_continuation. Qed.
Print Assumptions C20_continuation.

Theorem C20_relex : forall k line ts,
  lex_of k line = LexOk ts -> lex_of k (join_sp ts) = LexOk ts.
Proof. exact lex_relex. Qed.
Print Assumptions C20_relex.

(* layout only, under the explicit hypothesis that the tokenizer in use reads the line
   like the quote-aware one (for shlex: every string literal starts a token, no escaped
   or doubled quote) *)
Theorem C20_layout_partial : forall k m esc dbl line level width ind lines,
  ws_indent ind = true ->
  quoted_split esc line = lex_of k line ->
  wrap_line_base (lex_of k) (pad_with m) line level width ind = WrapOk lines ->
  tscan esc dbl (joined lines) = tscan esc dbl line.
Proof. exact layout_partial. Qed.
Print Assumptions C20_layout_partial.

(* the two generators as they are now: layout_claim is the negation of the statement
   while the generator uses shlex, and the statement itself once it uses the repaired
   tokenizer *)
Theorem C20_layout_python :
  layout_claim python_lex python_marker (Str default_indentation) true false.
Proof. exact (layout_claim_holds python_lex python_marker (Str default_indentation) true false eq_refl). Qed.
Print Assumptions C20_layout_python.

Theorem C20_layout_fortran :
  layout_claim fortran_lex fortran_marker (Str fortran_indentation) false true.
Proof. exact (layout_claim_holds fortran_lex fortran_marker (Str fortran_indentation) false true eq_refl). Qed.
Print Assumptions C20_layout_fortran.

Theorem C20_layout_refuted_shlex : forall m ind esc dbl, ~ target_ok LexShlex m ind esc dbl.
Proof. exact layout_refuted_shlex. Qed.
Print Assumptions C20_layout_refuted_shlex.

Theorem C20_doubled_quote_refuted : forall m ind,
  exists lines, wrap_line_base shlex_split (pad_with m) wit_doubled 0 80 ind = WrapOk lines /\
                joined lines = Str "x = 'it' 's'" /\
                tscan false true (joined lines) <> tscan false true wit_doubled.
Proof. exact layout_refuted_doubled. Qed.
Print Assumptions C20_doubled_quote_refuted.

Theorem C20_layout_repaired : forall m esc dbl ind,
  ws_indent ind = true -> target_ok (LexQuoted esc) m ind esc dbl.
Proof. exact layout_repaired. Qed.
Print Assumptions C20_layout_repaired.

(* ---- emission sites: the per-line use of wrap_line by the two generators (model/WrapEmit.v).
   fits_width k width u l: if the tokenizer finds two or more tokens on u (the physical line with
   its continuation marker removed) then the physical line l is at most width characters long. ---- *)

(* Fortran get_code: comment lines (first non-blank character is the comment character) are
   passed through unchanged ... *)
Theorem C20_emit_fortran_comment : forall k m cmt n width line,
  n <> O -> comment_line cmt line = true ->
  fortran_emit_line k m cmt n width line = EmitOk [line].
Proof. exact fortran_emit_comment. Qed.
Print Assumptions C20_emit_fortran_comment.

(* ... and no other line is: every physical line it is emitted as fits the width when it holds
   more than one token (the length counts the leading blanks put back by get_code) *)
Theorem C20_emit_fortran_width : forall k m cmt n width line outs,
  fortran_emit_line k m cmt n width line = EmitOk outs -> comment_line cmt line = false ->
  Forall2 (fits_width k width) (unmark outs) outs.
Proof. exact fortran_emit_width. Qed.
Print Assumptions C20_emit_fortran_width.

Theorem C20_emit_fortran_tokens : forall k m cmt n width line outs,
  fortran_emit_line k m cmt n width line = EmitOk outs -> comment_line cmt line = false ->
  lex_of k (joined outs) = lex_of k line.
Proof. exact fortran_emit_tokens. Qed.
Print Assumptions C20_emit_fortran_tokens.

Theorem C20_emit_fortran_only_ValueError : forall k m cmt n width line,
  n <> O ->
  (fortran_emit_line k m cmt n width line = EmitValueError <->
   comment_line cmt line = false /\ lex_of k line = LexValueError) /\
  fortran_emit_line k m cmt n width line <> EmitZeroDivisionError /\
  fortran_emit_line k m cmt n width line <> EmitNewline.
Proof. exact fortran_emit_error. Qed.
Print Assumptions C20_emit_fortran_only_ValueError.

(* finding trailing-comment: a statement followed by a trailing comment (no comment line) is wrapped
   as one statement; a physical line that has to be continued then holds the comment, so its
   marker is comment text (free form) -- for every tokenizer, with the generator's constants *)
Theorem C20_emit_fortran_trailing_comment_refuted : forall k,
  comment_line "!" wit_trailing = false /\
  exists outs, fortran_emit_line k "&" "!" 1 80 wit_trailing = EmitOk outs /\
               (2 <= List.length outs)%nat /\ continuation_lost "!" outs = true.
Proof. exact fortran_trailing_comment_refuted. Qed.
Print Assumptions C20_emit_fortran_trailing_comment_refuted.

(* the module text returned by the Fortran generator as it is now (tokenizer, marker, comment
   character, indent_spaces and width from gen/GenC20.v): the physical lines are the
   concatenation of one group per source line; a comment line is its own group, every other
   line's group re-reads to the line's tokens and its lines fit the width *)
Theorem C20_emit_fortran_module : forall code text,
  fortran_get_code fortran_lex fortran_marker fortran_comment fortran_indent_spaces default_width code
    = EmitOk text ->
  exists groups, text = List.concat groups /\
                 Forall2 (fortran_line_ok fortran_lex fortran_comment default_width) code groups.
Proof. exact (fortran_get_code_ok fortran_lex fortran_marker fortran_comment fortran_indent_spaces default_width). Qed.
Print Assumptions C20_emit_fortran_module.

(* Python _emit + emitters as they are now: the emitter's indent_amount equals the length of
   wrap_line's indentation string (eq_refl on the generated constants), so the blanks both emitters
   put in front of a wrapped line are exactly the indentation_len wrap_line_base allowed for *)
Theorem C20_emit_python : forall clevel elevel line outs ts,
  python_emit python_lex python_marker emitter_indent_amount (Str default_indentation) default_width
              clevel elevel line = EmitOk outs ->
  lex_of python_lex line = LexOk ts -> no_blank_token ts ->
  Forall2 (fits_width python_lex default_width) (unmark outs) outs /\
  lex_of python_lex (joined outs) = LexOk ts.
Proof.
  exact (python_emit_ok python_lex python_marker emitter_indent_amount (Str default_indentation)
                        default_width eq_refl eq_refl).
Qed.
Print Assumptions C20_emit_python.

Theorem C20_emit_python_only_ValueError : forall k m amount ind width clevel elevel line,
  (python_emit k m amount ind width clevel elevel line = EmitValueError <-> lex_of k line = LexValueError) /\
  python_emit k m amount ind width clevel elevel line <> EmitZeroDivisionError.
Proof. exact python_emit_error. Qed.
Print Assumptions C20_emit_python_only_ValueError.

(* why C20_emit_python carries no_blank_token: a token made of characters that str.strip()
   removes but the tokenizer does not split at (here a vertical tab) is emitted as the empty line *)
Theorem C20_emit_python_blank_token_witness : forall k m amount ind width clevel elevel,
  lex_of k wit_vt = LexOk [wit_vt] /\
  python_emit k m amount ind width clevel elevel wit_vt = EmitOk [[]].
Proof. exact python_emit_blank_token_lost. Qed.
Print Assumptions C20_emit_python_blank_token_witness.
