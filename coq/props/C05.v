(* C05 -- property theorems only.  Each is closed by `exact` of a lemma from
   proofs/DagAstProofs.v and followed by Print Assumptions.
   The flags come from the source tree: coq/gen/GenC06.v (simplify_ast's two shapes) and
   coq/gen/GenC05.v (lower_skip_false_guard, the main loop of create_ast_from_phase; and
   lower_guard_outside, the shape of loop_to_ast_node, which DagAst.wrap - hence lower - reads
   directly: every proof below is generic in it (lemmas about DagAst.wrap_g go, all go), so this
   file checks unchanged against either shape of the wrapping). *)
From Coq Require Import List Permutation.
Import ListNotations.
From Dagrt Require Import GenC06 GenC05 Simplify DagAst DagAstProofs.

(* Full statement of the property for the code as it is now. *)
Definition C05_full_statement : Prop :=
  (* order, guards, loops: for every well-formed phase the lowered tree runs, under every guard
     valuation and all trip counts, exactly the non-Nop statements whose guard holds, each once,
     inside exactly its declared loop nest, in one order that is a permutation of the stored
     statements and puts every statement after everything it depends on *)
  (forall stmts, phase_wf stmts ->
     exists order sts t,
       topo_order stmts = LOk order /\ map sid sts = order /\
       Permutation sts stmts /\ respects_deps sts /\
       lower simplify_rev_expand simplify_guard_empty lower_skip_false_guard stmts = LOk t /\
       forall v trips, ltrace v trips [] t = flat_map (stmt_trace trips) (filter (runs v) sts)) /\
  (* the result does not depend on the order in which the statements are stored *)
  (forall s1 s2, Permutation s1 s2 -> NoDup (map sid s1) ->
     lower simplify_rev_expand simplify_guard_empty lower_skip_false_guard s1 =
     lower simplify_rev_expand simplify_guard_empty lower_skip_false_guard s2) /\
  (* no KeyError / IndexError / OutOfFuel, and the generic walker accepts the tree *)
  (forall stmts, closed stmts ->
     exists t evs,
       lower simplify_rev_expand simplify_guard_empty lower_skip_false_guard stmts = LOk t /\
       walk t = WOk evs).

Theorem C05_lowering : forall stmts, phase_wf stmts ->
  exists order sts t,
    topo_order stmts = LOk order /\ map sid sts = order /\
    Permutation sts stmts /\ respects_deps sts /\
    lower simplify_rev_expand simplify_guard_empty lower_skip_false_guard stmts = LOk t /\
    forall v trips, ltrace v trips [] t = flat_map (stmt_trace trips) (filter (runs v) sts).
Proof. exact (lower_spec lower_skip_false_guard). Qed.
Print Assumptions C05_lowering.

Theorem C05_storage_independent : forall s1 s2,
  Permutation s1 s2 -> NoDup (map sid s1) ->
  lower simplify_rev_expand simplify_guard_empty lower_skip_false_guard s1 =
  lower simplify_rev_expand simplify_guard_empty lower_skip_false_guard s2.
Proof.
  exact (fun s1 s2 P ND =>
           proj2 (lower_perm simplify_rev_expand simplify_guard_empty lower_skip_false_guard s1 s2 P ND)).
Qed.
Print Assumptions C05_storage_independent.

(* needs neither unique ids nor acyclicity: only that dependencies stay inside the phase *)
Theorem C05_total : forall stmts, closed stmts ->
  exists t, lower simplify_rev_expand simplify_guard_empty lower_skip_false_guard stmts = LOk t.
Proof. exact (lower_total simplify_rev_expand lower_skip_false_guard). Qed.
Print Assumptions C05_total.

(* holds for both shapes of the main loop *)
Theorem C05_walker_total_partial : forall stmts, closed stmts ->
  (forall st, In st stmts -> no_false_loop st) ->
  exists t evs,
    lower simplify_rev_expand simplify_guard_empty lower_skip_false_guard stmts = LOk t /\
    walk t = WOk evs.
Proof.
  exact (fun stmts Hc Hn =>
           lower_walk_total simplify_rev_expand lower_skip_false_guard stmts Hc (or_intror (or_intror Hn))).
Qed.
Print Assumptions C05_walker_total_partial.

(* Full strength; checks only against the repaired main loop (lower_skip_false_guard = true).
   For the other shape proofs/DagAstProofs.v has lower_walk_refuted (witness wit_false_loop). *)
Theorem C05_walker_total : forall stmts, closed stmts ->
  exists t evs,
    lower simplify_rev_expand simplify_guard_empty lower_skip_false_guard stmts = LOk t /\
    walk t = WOk evs.
Proof.
  exact (fun stmts Hc =>
           lower_walk_total simplify_rev_expand lower_skip_false_guard stmts Hc (or_introl eq_refl)).
Qed.
Print Assumptions C05_walker_total.
