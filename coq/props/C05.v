From Coq Require Import List.
From Dagrt Require Import GenC06 GenC05 Simplify DagAst.
Theorem C05_stub : True. Proof. exact I. Qed.
Print Assumptions C05_stub.
