(* C12 -- property theorems only.  Each is closed by `exact` of a lemma from
   proofs/RefcountProofs.v and followed by Print Assumptions.
   The two shape switches come from the source tree (coq/gen/GenC12.v):
     exit_deinit_all   -- label 999 of a phase function deinitialises every local
     loop_skip_deinit  -- no last-use deinit inside a ForLoop body
     stmt_cond_wrapped -- lower_inst puts a statement that carries its own condition (made from
                          `a if c else b`) inside `if (condition)`; the theorems hold for both values
   For the unrepaired shapes proofs/RefcountProofs.v has no_leak_refuted, free_once_refuted
   (exit_deinit_all = false) and invariant_refuted (loop_skip_deinit = false). *)
From Coq Require Import List Arith.
Import ListNotations.
From Dagrt Require Import GenC12 Refcount RefcountProofs.

(* Full statement of the property for the code as it is now: for every well-formed program (one or
   more phases, guards, loops, early exits, moves, statements that carry a condition of their
   own), every set of initialised state variables and every sequence of guard valuations (one per
   call of run; a valuation gives every flag a value at every tuple of loop trip indices), followed
   by shutdown *)
Definition C12_full_statement : Prop :=
  (* the generated code never reads or writes through an unassociated or released pointer, never
     sees a non-positive counter (the only fault left is the source program reading a variable it
     never assigned), and at the end -- done, stopped or faulted -- every live counter equals the
     number of variables pointing to its block and is positive *)
  (forall p present h, prog_wf p = true ->
     let r := run_mem (emit_mem exit_deinit_all loop_skip_deinit stmt_cond_wrapped p) present h in
     (forall f st, r = HFault f st -> exists x, f = SrcUndefined x) /\
     refcount_inv (universe p) (final_state r)) /\
  (* after shutdown no block is live and shutdown reports no leaked reference *)
  (forall p present h st reps, prog_wf p = true ->
     run_mem (emit_mem exit_deinit_all loop_skip_deinit stmt_cond_wrapped p) present h = HDone st reps ->
     live_blocks st = [] /\ reps = []) /\
  (* every block that was allocated has been released exactly once, nothing else was released *)
  (forall p present h st reps, prog_wf p = true ->
     run_mem (emit_mem exit_deinit_all loop_skip_deinit stmt_cond_wrapped p) present h = HDone st reps ->
     forall b, count_occ Nat.eq_dec (frees st) b = if Nat.ltb b (nxt st) then 1 else 0).

Theorem C12_invariant : forall p present h, prog_wf p = true ->
  let r := run_mem (emit_mem exit_deinit_all loop_skip_deinit stmt_cond_wrapped p) present h in
  (forall f st, r = HFault f st -> exists x, f = SrcUndefined x) /\
  refcount_inv (universe p) (final_state r).
Proof. exact (invariant_holds exit_deinit_all loop_skip_deinit stmt_cond_wrapped eq_refl eq_refl). Qed.
Print Assumptions C12_invariant.

Theorem C12_no_leak : forall p present h st reps, prog_wf p = true ->
  run_mem (emit_mem exit_deinit_all loop_skip_deinit stmt_cond_wrapped p) present h = HDone st reps ->
  live_blocks st = [] /\ reps = [].
Proof. exact (no_leak_holds exit_deinit_all loop_skip_deinit stmt_cond_wrapped eq_refl eq_refl). Qed.
Print Assumptions C12_no_leak.

Theorem C12_free_once : forall p present h st reps, prog_wf p = true ->
  run_mem (emit_mem exit_deinit_all loop_skip_deinit stmt_cond_wrapped p) present h = HDone st reps ->
  forall b, count_occ Nat.eq_dec (frees st) b = if Nat.ltb b (nxt st) then 1 else 0.
Proof. exact (free_once_holds exit_deinit_all loop_skip_deinit stmt_cond_wrapped eq_refl eq_refl). Qed.
Print Assumptions C12_free_once.
