(* C19 -- property theorems only.  Each is closed by `exact` of a lemma from proofs/ and
   followed by Print Assumptions. *)
From Coq Require Import List ZArith String Ascii.
Import ListNotations.
From Dagrt Require Import GenC19 Print Parse PrintParseRefute PrintParseProofs LexProofs RoundTripString.

(* The property at full strength (on the text, for every structurally sane expression with
   lexable names).  It is FALSE of the unchanged code: C19_roundtrip_refuted and the three
   further refutations below; the proved theorem C19_roundtrip_partial is this statement with
   the additional hypothesis `no_defect e = true` (none of the four refuted shapes). *)
Definition C19_full_statement : Prop :=
  forall e, wf_expr e = true -> wf_names e = true ->
  exists e', parse_string (print_string e) = Ok e'
             /\ print_string e' = print_string e
             /\ vars e' = vars e
             /\ forall rho Ffun Fsub Fquot Fnegpow,
                  eval rho Ffun Fsub Fquot Fnegpow e' = eval rho Ffun Fsub Fquot Fnegpow e.

(* (a**2)**3 prints a**2**3 = a**(2**3): 64 vs 256 *)
Theorem C19_roundtrip_refuted : ~ C19_full_statement.
Proof. exact refuted_pow. Qed.
Print Assumptions C19_roundtrip_refuted.

(* a < (bb == bb) prints a < bb == bb = (a < bb) == bb *)
Theorem C19_refuted_comparison_right : ~ C19_full_statement.
Proof. exact refuted_cmp. Qed.
Print Assumptions C19_refuted_comparison_right.

(* f(x if c else y, z): the else-branch swallows ", z" *)
Theorem C19_refuted_if_before_comma : ~ C19_full_statement.
Proof. exact refuted_if. Qed.
Print Assumptions C19_refuted_if_before_comma.

(* a + True: the parser asserts *)
Theorem C19_refuted_bool_operand : ~ C19_full_statement.
Proof. exact refuted_bool. Qed.
Print Assumptions C19_refuted_bool_operand.

(* On the text.  For every structurally sane expression with lexable names and none of the
   four shapes above: the lexer cuts str(e) into the printed tokens, the parser -- with the
   fuel the model gives it, so in particular without running out of fuel -- reads them back as
   an expression that prints identically, lists the same variables in the same order and has
   the same value under every valuation and every interpretation of user functions,
   subscripting, true division and negative powers. *)
Theorem C19_roundtrip_partial :
  forall e, wf_expr e = true -> wf_names e = true -> no_defect e = true ->
  exists e', parse_string (print_string e) = Ok e'
             /\ print_string e' = print_string e
             /\ vars e' = vars e
             /\ forall rho Ffun Fsub Fquot Fnegpow,
                  eval rho Ffun Fsub Fquot Fnegpow e' = eval rho Ffun Fsub Fquot Fnegpow e.
Proof. exact roundtrip_string_partial. Qed.
Print Assumptions C19_roundtrip_partial.

(* the expression returned is the parser's normal form of e (binary nodes, + and or nested to the
   left, * to the right) *)
Theorem C19_roundtrip_normal_form :
  forall e, printable e = true -> wf_names e = true -> parse_string (print_string e) = Ok (norm e).
Proof. exact roundtrip_string. Qed.
Print Assumptions C19_roundtrip_normal_form.

(* the same on the token list (any names): printing is invariant at every precedence, with or
   without blanks *)
Theorem C19_roundtrip_tokens :
  forall e, printable e = true ->
  exists e', parse_tokens (print [TSp] PR_NONE e) = Ok e'
             /\ (forall sp q, print sp q e' = print sp q e)
             /\ vars e' = vars e
             /\ forall rho Ffun Fsub Fquot Fnegpow,
                  eval rho Ffun Fsub Fquot Fnegpow e' = eval rho Ffun Fsub Fquot Fnegpow e.
Proof. exact roundtrip_partial. Qed.
Print Assumptions C19_roundtrip_tokens.

(* "`n`" denotes the variable n, for every n over the alphabet of the back-tick regexp
   (on the text: lexer, parser and remove_backticks) *)
Theorem C19_backticks :
  forall n, string_forallb is_bt_char n = true ->
            parse_string (String "`"%char (n ++ "`")%string) = Ok (EVar n).
Proof. exact backticks. Qed.
Print Assumptions C19_backticks.

(* ... also inside an expression: un-quoting undoes quoting of every name, subscripts included.
   This needs remove_backticks to let pymbolic's SubstitutionMapper descend into subscripts
   (GenC19.unbt_descends_subscript, read off dagrt/expression.py); on the tree without
   fixes/C19_backticks_in_subscript.patch this theorem does not check (witness "`a`[`i`]"). *)
Theorem C19_backticks_in_context :
  forall e, unbt unbt_descends_subscript (quote e) = e.
Proof. exact (backticks_in_context eq_refl). Qed.
Print Assumptions C19_backticks_in_context.
