(* C19 -- property theorems only.  Each is closed by `exact` of a lemma from proofs/ and
   followed by Print Assumptions. *)
From Coq Require Import List ZArith String.
From Dagrt Require Import GenC19 Print Parse PrintParseRefute.

(* The property at full strength (on the text, for every structurally sane expression with
   lexable names).  It is FALSE of the unchanged code: C19_roundtrip_refuted. *)
Definition C19_full_statement : Prop :=
  forall e, wf_expr e = true -> wf_names e = true ->
  exists e', parse_string (print_string e) = Ok e'
             /\ print_string e' = print_string e
             /\ vars e' = vars e
             /\ forall rho Ffun Fsub Fquot Fnegpow,
                  eval rho Ffun Fsub Fquot Fnegpow e' = eval rho Ffun Fsub Fquot Fnegpow e.

Theorem C19_roundtrip_refuted : ~ C19_full_statement.
Proof. exact refuted_pow. Qed.
Print Assumptions C19_roundtrip_refuted.
