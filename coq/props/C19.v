(* C19 -- property theorems only.  Each is closed by `exact` of a lemma from proofs/ and
   followed by Print Assumptions. *)
From Coq Require Import List ZArith String Ascii.
Import ListNotations.
From Dagrt Require Import GenC19 Print Parse PrintParseRefute PrintParseProofs LexProofs.

(* The property at full strength (on the text, for every structurally sane expression with
   lexable names).  It is FALSE of the unchanged code: C19_roundtrip_refuted and the three
   further refutations below; the proved theorem is C19_roundtrip_partial. *)
Definition C19_full_statement : Prop :=
  forall e, wf_expr e = true -> wf_names e = true ->
  exists e', parse_string (print_string e) = Ok e'
             /\ print_string e' = print_string e
             /\ vars e' = vars e
             /\ forall rho Ffun Fsub Fquot Fnegpow,
                  eval rho Ffun Fsub Fquot Fnegpow e' = eval rho Ffun Fsub Fquot Fnegpow e.

(* (a**2)**3 prints a**2**3 = a**(2**3): 64 vs 256 *)
Theorem C19_roundtrip_refuted : ~ C19_full_statement.
Proof. exact refuted_pow. Qed.
Print Assumptions C19_roundtrip_refuted.

(* a < (b == b) prints a < b == b = (a < b) == b *)
Theorem C19_refuted_comparison_right : ~ C19_full_statement.
Proof. exact refuted_cmp. Qed.
Print Assumptions C19_refuted_comparison_right.

(* f(x if c else y, z): the else-branch swallows ", z" *)
Theorem C19_refuted_if_before_comma : ~ C19_full_statement.
Proof. exact refuted_if. Qed.
Print Assumptions C19_refuted_if_before_comma.

(* a + True: the parser asserts *)
Theorem C19_refuted_bool_operand : ~ C19_full_statement.
Proof. exact refuted_bool. Qed.
Print Assumptions C19_refuted_bool_operand.

(* For every printable expression (structurally sane and none of the four shapes above), the
   parser -- with the fuel dagrt.expression.parse's model gives it, so in particular without
   running out of fuel -- reads the printed tokens (blanks included) back as an expression that
   prints identically at every precedence and with or without blanks, lists the same variables
   in the same order and has the same value under every valuation and every interpretation of
   user functions, subscripting, true division and negative powers.
   Missing w.r.t. the full statement: it is about the TOKEN list `print [TSp] PR_NONE e`, whose
   text is print_string e; that the lexer returns exactly these tokens for that text
   (for expressions with wf_names) is checked by computation on every case of every run and
   proved only for back-tick quoted names (C19_backticks). *)
Theorem C19_roundtrip_partial :
  forall e, printable e = true ->
  exists e', parse_tokens (print [TSp] PR_NONE e) = Ok e'
             /\ (forall sp q, print sp q e' = print sp q e)
             /\ vars e' = vars e
             /\ forall rho Ffun Fsub Fquot Fnegpow,
                  eval rho Ffun Fsub Fquot Fnegpow e' = eval rho Ffun Fsub Fquot Fnegpow e.
Proof. exact roundtrip_partial. Qed.
Print Assumptions C19_roundtrip_partial.

(* the expression returned is the parser's normal form of e, and it is in normal form *)
Theorem C19_roundtrip_normal_form :
  forall e, printable e = true -> parse_tokens (print [TSp] PR_NONE e) = Ok (norm e).
Proof. exact roundtrip_tokens. Qed.
Print Assumptions C19_roundtrip_normal_form.

(* "`n`" denotes the variable n, for every n over the alphabet of the back-tick regexp
   (on the text: lexer, parser and remove_backticks) *)
Theorem C19_backticks :
  forall n, string_forallb is_bt_char n = true -> parse_string (String "`"%char (n ++ "`")%string) = Ok (EVar n).
Proof. exact backticks. Qed.
Print Assumptions C19_backticks.

(* ... also inside an expression: un-quoting undoes quoting of every name, subscripts included.
   This needs remove_backticks to let pymbolic's SubstitutionMapper descend into subscripts
   (GenC19.unbt_descends_subscript, read off dagrt/expression.py); on the tree without
   fixes/C19_backticks_in_subscript.patch this theorem does not check (witness "`a`[`i`]"). *)
Theorem C19_backticks_in_context :
  forall e, unbt unbt_descends_subscript (quote e) = e.
Proof. exact (backticks_in_context eq_refl). Qed.
Print Assumptions C19_backticks_in_context.
