(* C17 -- property theorems only.  Each is closed by `exact` of a lemma from
   proofs/ and followed by Print Assumptions. *)
From Coq Require Import ZArith String List.
From Dagrt Require Import GenC17 Match MatchACProofs MatchProofs MatchFlattenProofs.

(* Full statement of the property for the code as it is now: the identity elements
   handed to map_modulo_identity come from the source (GenC17.v). *)
Definition C17_full_statement : Prop :=
  forall swap free_opt bound pre tpl tgt,
    call_fn_is_symbol tpl = true ->
    NoDup (map fst (pre_list pre)) ->
    match match_model swap (idel_of c17_sum_id c17_prod_id) free_opt bound pre tpl tgt with
    | MOk sigma _ =>
        (forall x e, In (x, e) sigma -> In x (free_names free_opt bound tpl)) /\
        (forall x e, In (x, e) (pre_list pre) -> exists e', lookup sigma x = Some e' /\ canon e' = canon e) /\
        (forall rho F Q P, eval rho F Q P (subst (sigma_of sigma) (flatten tpl)) = eval rho F Q P (flatten tgt))
    | MErr k =>
        (k = ValueError_cannot_unify /\
         match_records swap (idel_of c17_sum_id c17_prod_id) (free_names free_opt bound tpl) pre tpl tgt = nil)
        \/ (exists x, k = ValueError_pre_match_not_candidate x /\ In x (map fst (pre_list pre)) /\
                      mem x (free_names free_opt bound tpl) = false)
    end.

(* In each proof below the premise "the identity elements in the source are the neutral
   elements of + and *" is discharged by computation against GenC17.v:
   fun op => match op with OSum => eq_refl | OProd => eq_refl end. *)

Theorem C17_sound : forall swap free_opt bound pre tpl tgt sigma amb,
  call_fn_is_symbol tpl = true ->
  NoDup (map fst (pre_list pre)) ->
  match_model swap (idel_of c17_sum_id c17_prod_id) free_opt bound pre tpl tgt = MOk sigma amb ->
  (forall x e, In (x, e) sigma -> In x (free_names free_opt bound tpl)) /\
  (forall x e, In (x, e) (pre_list pre) -> exists e', lookup sigma x = Some e' /\ canon e' = canon e) /\
  AC1_equiv (subst (sigma_of sigma) (flatten tpl)) (flatten tgt).
Proof.
  exact (fun swap free_opt bound pre tpl tgt sigma amb =>
           match_sound swap _ free_opt bound pre tpl tgt sigma amb
                       (fun op => match op with OSum => eq_refl | OProd => eq_refl end)).
Qed.
Print Assumptions C17_sound.

Theorem C17_AC1_sem : forall a b, AC1_equiv a b ->
  forall (rho : string -> Z) (F : expr -> list Z -> list (string * Z) -> Z) (Q P : Z -> Z -> Z),
    eval rho F Q P a = eval rho F Q P b.
Proof. exact (fun a b H rho F Q P => AC1_sem rho F Q P a b H). Qed.
Print Assumptions C17_AC1_sem.

Theorem C17_no_match_error : forall swap free_opt bound pre tpl tgt k,
  match_model swap (idel_of c17_sum_id c17_prod_id) free_opt bound pre tpl tgt = MErr k ->
  (k = ValueError_cannot_unify /\
   pre_check (free_names free_opt bound tpl) (pre_list pre) = None /\
   match_records swap (idel_of c17_sum_id c17_prod_id) (free_names free_opt bound tpl) pre tpl tgt = nil)
  \/ (exists x, k = ValueError_pre_match_not_candidate x /\ In x (map fst (pre_list pre)) /\
                mem x (free_names free_opt bound tpl) = false).
Proof. exact (fun swap => match_error swap _). Qed.
Print Assumptions C17_no_match_error.

(* The same for the template and target as given (before pymbolic's flatten), for every
   interpretation of quotient and power satisfying the three laws flatten relies on. *)
Theorem C17_genuine : forall (Q P : Z -> Z -> Z),
  (forall b, Q 0%Z b = 0%Z) -> (forall a, Q a 1%Z = a) -> (forall a, P a 1%Z = a) ->
  forall swap free_opt bound pre tpl tgt sigma amb,
  call_fn_is_symbol tpl = true -> call_fn_is_symbol tgt = true ->
  NoDup (map fst (pre_list pre)) ->
  match_model swap (idel_of c17_sum_id c17_prod_id) free_opt bound pre tpl tgt = MOk sigma amb ->
  forall rho F, eval rho F Q P (subst (sigma_of sigma) tpl) = eval rho F Q P tgt.
Proof.
  exact (fun Q P H0 H1 H2 swap free_opt bound pre tpl tgt sigma amb =>
           match_genuine_unflattened Q P H0 H1 H2 swap _ free_opt bound pre tpl tgt sigma amb
             (fun op => match op with OSum => eq_refl | OProd => eq_refl end)).
Qed.
Print Assumptions C17_genuine.

Theorem C17_full : C17_full_statement.
Proof. exact (match_full _ (fun op => match op with OSum => eq_refl | OProd => eq_refl end)). Qed.
Print Assumptions C17_full.
