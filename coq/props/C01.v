From Dagrt Require Import GenLang Lang Stepper.
