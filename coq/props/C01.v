(* C01 -- property theorems only.  Model: Stepper.run (the stepping loop both backends
   implement) over phase bodies produced by the builder model, with statement semantics
   Lang.exec_stmt.  Shape switches from gen/GenLang.v. *)
From Coq Require Import List String ZArith.
From Dagrt Require Import GenLang Lang Builder Sched SchedProofs Stepper StepperProofs.

Definition is_state_var : var -> bool := is_state_of state_exact state_prefixes.
Notation built_phase := (built is_state_var exec_state_token).

(* one phase body: every admissible order (a permutation in which each statement follows the
   statements it depends on -- C04 proves this of the interpreter's plan, C05 of the tree the
   generator walks) gives the same events, the same variable values and the same way of ending
   as carrying out the builder calls one after another *)
Theorem C01_body : forall F del_guarded keep l l' s,
  built_phase l -> lv_ok keep l -> admissible l l' -> Pre keep s ->
  req (to_rstate (exec_seq F del_guarded l' s nil)) (to_rstate (exec_seq F del_guarded l s nil)).
Proof. exact (fun F g keep => body_order_independent F g is_state_var exec_state_token keep). Qed.
Print Assumptions C01_body.

(* whole runs, bounded by a step count or an end time: two steppers that execute the bodies of the
   phases in any admissible orders (possibly different at every step) produce the same sequence of
   events (yields; step completed / failed with t, dt, current and next phase and the persistent
   state after the step), the same next phase and the same way of ending; and the same persistent
   state unless an exception escapes (C11 covers that state) *)
Theorem C01_run : forall F del_guarded keep obs ord1 ord2 d,
  (forall p, In p d -> built_phase (ph_stmts p) /\ lv_ok keep (ph_stmts p)) ->
  (forall p i, In p d -> admissible (ph_stmts p) (ord1 (ph_name p) i (ph_stmts p))) ->
  (forall p i, In p d -> admissible (ph_stmts p) (ord2 (ph_name p) i (ph_stmts p))) ->
  forall fuel s next t_end max_steps,
  Pre keep s ->
  run_rel (run F del_guarded keep obs ord1 fuel d s next t_end max_steps 0 0)
          (run F del_guarded keep obs ord2 fuel d s next t_end max_steps 0 0).
Proof.
  exact (fun F g keep obs ord1 ord2 d Hd H1 H2 fuel s next te mx Hp =>
    run_order_independent F g keep obs ord1 ord2 d
      (fun p i s0 Hin Hp0 =>
         req_trans _ _ _
           (body_order_independent F g is_state_var exec_state_token keep _ _ s0
              (proj1 (Hd p Hin)) (proj2 (Hd p Hin)) (H1 p i Hin) Hp0)
           (req_sym _ _ (body_order_independent F g is_state_var exec_state_token keep _ _ s0
              (proj1 (Hd p Hin)) (proj2 (Hd p Hin)) (H2 p i Hin) Hp0)))
      fuel s s next te mx 0 0 Hp (fun _ => eq_refl)).
Qed.
Print Assumptions C01_run.

(* program order itself is admissible: "both equal the result of carrying out the builder calls
   one after another" is the instance ord2 = fun _ _ l => l of C01_run *)
Theorem C01_program_order_admissible : forall l, built_phase l -> admissible l l.
Proof. exact (admissible_refl is_state_var exec_state_token). Qed.
Print Assumptions C01_program_order_admissible.

(* The orders the two backends really use are admissible -- by the models of the execution controller
   (C04) and of the lowering (C05), applied to a builder-made phase body: *)
From Dagrt Require Bridge Controller DagAst Simplify GenC05.

(* the interpreter: for every iteration order of the dependency sets and of the root set, every
   guard valuation / target and whatever state the controller was left in, the statements visited in a
   step are a prefix of an admissible order -- the whole order when the step is not cut short *)
Theorem C01_interpreter_order_admissible : forall l ro target st0,
  built_phase l ->
  Controller.same_members ro (Controller.roots (Bridge.cph l)) ->
  let o := Controller.run_single_step st0 (Bridge.cph l) ro target in
  exists rest,
    admissible l (pick l (Controller.visited (Controller.o_log o) ++ rest)) /\
    (Controller.never_stops (Bridge.cph l) target -> rest = nil).
Proof.
  exact (fun l ro target st0 Hb =>
           Bridge.controller_order_admissible l (Bridge.built_wf_body is_state_var exec_state_token l Hb)
                                              ro target st0).
Qed.
Print Assumptions C01_interpreter_order_admissible.

(* the generators: the leaves of the tree create_ast_from_phase hands to them (whatever the guards,
   loop nests and Nop-ness of the statements) are in an admissible order *)
Theorem C01_generator_order_admissible : forall l gd lp np,
  built_phase l ->
  exists order,
    DagAst.topo_order (Bridge.dph l gd lp np) = DagAst.LOk order /\
    (exists t, DagAst.lower false true GenC05.lower_skip_false_guard (Bridge.dph l gd lp np) = DagAst.LOk t) /\
    admissible l (pick l order).
Proof.
  exact (fun l gd lp np Hb =>
           Bridge.lowering_order_admissible l (Bridge.built_wf_body is_state_var exec_state_token l Hb)
                                            gd lp np GenC05.lower_skip_false_guard).
Qed.
Print Assumptions C01_generator_order_admissible.

(* ------------------------------------------------------------------ call argument binding.
   The interpreter runs a call as the Python call  callee( *positional, **keywords )  -- Python's own binding,
   specified by CallBind.py_bind -- while generated code resolves a call of a built-in when it is generated, with
   dagrt.utils.resolve_args (CallBind.resolve_args mirrors it statement by statement; harness/tr/bind.py pins
   the text), against the arg_names / default_dict of the function registry entry. *)
From Coq Require Permutation.
From Dagrt Require CallBind CallBindProofs GenBind.

(* (a) resolve_args implements Python's binding rule: for ALL parameter lists without repetition, defaults,
   positional values and keyword arguments without repetition, it returns a list iff binding succeeds, and
   then it is the list of the values in parameter order *)
Theorem C01_bind_resolve_is_python : forall (V : Type) (defaults : list (string * V)) arg_names positional keywords,
  NoDup arg_names -> NoDup (map fst keywords) ->
  forall l, CallBind.resolve_args arg_names defaults positional keywords = CallBind.Ok l <->
            CallBind.py_bind arg_names defaults positional keywords = CallBind.Ok l.
Proof. exact (@CallBindProofs.resolve_args_is_py_bind). Qed.
Print Assumptions C01_bind_resolve_is_python.

(* (b) both raise (a TypeError, whatever its message) in exactly the same situations, namely when the call
   is not well formed: more positional values than parameters, a keyword that is not a parameter or names a
   parameter already given positionally, or a parameter with neither value nor default *)
Theorem C01_bind_fail_alike : forall (V : Type) (defaults : list (string * V)) arg_names positional keywords,
  NoDup arg_names -> NoDup (map fst keywords) ->
  ((exists e, CallBind.resolve_args arg_names defaults positional keywords = CallBind.Err e) <->
   ~ CallBind.call_ok arg_names defaults positional keywords) /\
  ((exists e, CallBind.py_bind arg_names defaults positional keywords = CallBind.Err e) <->
   ~ CallBind.call_ok arg_names defaults positional keywords).
Proof. exact (@CallBindProofs.bind_fail_iff). Qed.
Print Assumptions C01_bind_fail_alike.

(* (c) the legal call forms: giving every parameter exactly once, the first k positionally and the others by
   keyword in any order, hands the values over in parameter order -- by both rules, for every split k *)
Theorem C01_bind_legal_call_forms :
  forall (V : Type) (defaults : list (string * V)) arg_names (vs : list V) k keywords,
  NoDup arg_names -> List.length vs = List.length arg_names -> k <= List.length arg_names ->
  Permutation.Permutation keywords (combine (skipn k arg_names) (skipn k vs)) ->
  CallBind.resolve_args arg_names defaults (firstn k vs) keywords = CallBind.Ok vs /\
  CallBind.py_bind arg_names defaults (firstn k vs) keywords = CallBind.Ok vs.
Proof. exact (@CallBindProofs.resolve_args_legal_split). Qed.
Print Assumptions C01_bind_legal_call_forms.

(* what the callee receives: the generated call  callee( *resolve_args(...) )  binds the callee's parameters to
   the same values as the interpreter's call  callee( *positional, **keywords ), provided the registry entry
   declares the callee's parameter names and defaults; and one fails iff the other does *)
Theorem C01_bind_backends_alike : forall (V : Type) (defaults : list (string * V)) arg_names positional keywords,
  NoDup arg_names -> NoDup (map fst keywords) ->
  match CallBind.resolve_args arg_names defaults positional keywords with
  | CallBind.Ok l => CallBind.py_bind arg_names defaults positional keywords = CallBind.Ok l /\
                     CallBind.py_bind arg_names defaults l nil = CallBind.Ok l
  | CallBind.Err _ => exists e, CallBind.py_bind arg_names defaults positional keywords = CallBind.Err e
  end.
Proof. exact (@CallBindProofs.backends_bind_alike). Qed.
Print Assumptions C01_bind_backends_alike.

(* that proviso, for the built-ins of the working tree (GenBind.builtin_table: one row per entry of the list in
   function_registry._make_bfr, a finite table regenerated on every run -- 13 rows today, and never fewer than
   the 13 documented built-ins): the declared arg_names are duplicate-free and equal, in order, the parameter
   names of the function the interpreter calls (builtins_python.builtins[identifier]), the defaults agree, and
   a pattern "self._builtin_X({args})" calls the copy of that same function *)
Theorem C01_bind_builtin_names :
  (forall id, In id CallBind.documented_builtins ->
     exists r, In r GenBind.builtin_table /\ CallBind.b_id r = id) /\
  forall r, In r GenBind.builtin_table ->
    NoDup (CallBind.b_arg_names r) /\
    CallBind.b_arg_names r = CallBind.b_impl_params r /\
    CallBind.b_defaults r = CallBind.b_impl_defaults r /\
    (forall impl, CallBind.b_pattern r = CallBind.PSelfBuiltin impl -> impl = CallBind.b_interp_impl r).
Proof. exact CallBindProofs.builtin_names_agree. Qed.
Print Assumptions C01_bind_builtin_names.

(* hence, for every built-in of that table and EVERY call of it: resolving against the registry entry and
   binding by Python's rule against the interpreter's callee give the same argument list, or both raise *)
Theorem C01_bind_builtins : forall (V : Type) (ev : string -> V) r,
  In r GenBind.builtin_table ->
  forall positional keywords, NoDup (map fst keywords) ->
    CallBind.forget (CallBind.resolve_args (CallBind.b_arg_names r)
                       (CallBind.eval_defaults ev (CallBind.b_defaults r)) positional keywords) =
    CallBind.forget (CallBind.py_bind (CallBind.b_impl_params r)
                       (CallBind.eval_defaults ev (CallBind.b_impl_defaults r)) positional keywords).
Proof. exact CallBindProofs.builtins_bind_alike. Qed.
Print Assumptions C01_bind_builtins.
