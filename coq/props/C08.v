(* C08 -- property theorems only (statements about model/Lang.v with the shape
   switches read off /repo in gen/GenLang.v). *)
From Coq Require Import List String.
From Dagrt Require Import GenLang Lang LangProofs.

(* every variable the interpreter model reads while executing a statement (guard,
   right-hand side, subscripts on either side, loop bounds, call arguments, yielded
   value and time) is in the declared read set or the declared write set *)
Theorem C08_reads_covered : forall F del_guarded s st x,
  In (Rd x) (fst (exec_stmt F del_guarded s st)) ->
  In x (reads lang_lhs_sub_reads lang_loop_bound_reads st ++ writes st).
Proof. exact reads_covered. Qed.
Print Assumptions C08_reads_covered.

(* every store write or deletion concerns a declared written variable or a loop counter *)
Theorem C08_writes_covered : forall F del_guarded s st x,
  In (Wr x) (fst (exec_stmt F del_guarded s st)) \/ In (Dl x) (fst (exec_stmt F del_guarded s st)) ->
  In x (writes st ++ loopvars (skd st)).
Proof. exact writes_covered. Qed.
Print Assumptions C08_writes_covered.

(* semantically: nothing outside the declared write set and the loop counters changes *)
Theorem C08_untouched : forall F del_guarded s st a s' ev x,
  exec_stmt F del_guarded s st = (a, ONext s' ev) ->
  ~ In x (writes st ++ loopvars (skd st)) -> s' x = s x.
Proof. exact untouched. Qed.
Print Assumptions C08_untouched.

(* frame: accesses, outcome and resulting values depend only on the declared sets *)
Theorem C08_frame : forall F del_guarded s s' st,
  (forall x, In x (reads lang_lhs_sub_reads lang_loop_bound_reads st ++ writes st ++ loopvars (skd st)) ->
             s x = s' x) ->
  fst (exec_stmt F del_guarded s st) = fst (exec_stmt F del_guarded s' st) /\
  out_agree (fun x => In x (reads lang_lhs_sub_reads lang_loop_bound_reads st ++ writes st ++ loopvars (skd st)))
            (snd (exec_stmt F del_guarded s st)) (snd (exec_stmt F del_guarded s' st)).
Proof. exact frame. Qed.
Print Assumptions C08_frame.

(* mapping the expressions with the identity keeps both sets *)
Theorem C08_identity_map : forall st,
  reads lang_lhs_sub_reads lang_loop_bound_reads (map_stmt (fun e => e) st)
    = reads lang_lhs_sub_reads lang_loop_bound_reads st /\
  writes (map_stmt (fun e => e) st) = writes st.
Proof. exact (fun st => identity_map st _ _). Qed.
Print Assumptions C08_identity_map.
