(* C03 -- property theorems only.  Model: coq/model/FortranTarget.v; the shape switches come from
   coq/gen/GenC03.v (fortran.py, expressions.py, transform.py) and coq/gen/GenLang.v.
   The theorems type-check only for the repaired shapes (c03_ne_fortran, c03_cond_honoured,
   c03_ubound_m1, c03_switch_exits, c03_next_first = true) and for BOTH positions of
   c03_ite_flag_first and c03_guard_outside (guard of a looped assignment lowered inside / outside
   its loops, fixes/C01_guard_outside_loops.patch -- see C03_guard_shapes); for every other shape
   proofs/FortranTargetProofs.v has a refutation with a concrete witness (C03_shapes_matter).
   PARTIAL: what is related is the structured program handed to the Fortran emitter (lowered in
   program order, before simplify_ast and the four rewriting passes -- C05/C06/C07) and the
   interpreter running the statements in program order (C02/C04); the emitted text, gfortran and
   floating point are outside the proof and are covered by the differential run only. *)
From Coq Require Import List String Bool.
Import ListNotations.
From Dagrt Require Import GenLang GenC03 Lang Builder Sched FortranTarget FortranTargetProofs.
From Dagrt Require Import FortranPrinter FortranPrinterProofs.

Definition is_state_var : var -> bool := is_state_of state_exact state_prefixes.
Definition persistent_var : var -> bool := is_state_of interp_keep_exact interp_keep_prefixes.
Notation build_model := (build_prog lang_lhs_sub_reads lang_loop_bound_reads is_state_var exec_state_token).
Notation fortran_calls F g tids :=
  (fcalls F g c03_cond_honoured c03_ite_flag_first c03_ubound_m1 c03_switch_exits c03_next_first c03_guard_outside
          tids is_state_var).

(* For every method description built with CodeBuilder (one builder per phase) inside the supported
   subset, every behaviour of the user functions, every initial state holding persistent variables
   only, and every number n of calls: the module compiles (as far as the model knows a reason why
   it would not), and unless an operation without defined Fortran behaviour was executed or the
   interpreter raised a Python exception, after the n-th call of run every field of
   dagrt_state_type -- persistent variables, the <ret_time_id>/<ret_time>/<ret_state> slots as
   the yields of all steps so far leave them -- and the next phase are what the interpreter holds
   after its n-th step; a Raise stops both with the same condition after the same call. *)
Definition C03_full_statement : Prop :=
  (forall P, compiles c03_ne_fortran P = true) /\
  (forall F g tids bl P,
     build_model bl = Some P -> supported is_state_var P = true ->
     forall n s first, init_ok persistent_var s ->
       orel is_state_var persistent_var
            (fortran_calls F g tids P n s first) (isteps F g tids persistent_var P n s empty first)).

Theorem C03_pipeline_partial : forall F g tids bl P,
  build_model bl = Some P -> supported is_state_var P = true ->
  forall n s first, init_ok persistent_var s ->
    orel is_state_var persistent_var
         (fortran_calls F g tids P n s first) (isteps F g tids persistent_var P n s empty first).
Proof.
  exact (fun F g tids bl P Hb HS =>
           pipeline_holds c03_ite_flag_first c03_guard_outside F g tids is_state_var persistent_var
                          lang_lhs_sub_reads lang_loop_bound_reads exec_state_token bl P st_split Hb HS).
Qed.
Print Assumptions C03_pipeline_partial.

(* the same from any pair of related states (not only the initial one), for any program *)
Theorem C03_pipeline_from_any_state_partial : forall F g tids P,
  supported is_state_var P = true ->
  forall n s_t s_i r nx, CRel is_state_var persistent_var s_t s_i r ->
    orel is_state_var persistent_var
         (fortran_calls F g tids P n s_t nx) (isteps F g tids persistent_var P n s_i r nx).
Proof. exact (fun F g tids => pipeline F g c03_ite_flag_first c03_guard_outside tids is_state_var persistent_var st_split). Qed.
Print Assumptions C03_pipeline_from_any_state_partial.

Theorem C03_compiles_partial : forall P, compiles c03_ne_fortran P = true.
Proof. exact compiles_holds. Qed.
Print Assumptions C03_compiles_partial.

Theorem C03_full_partial : C03_full_statement.
Proof. exact (conj C03_compiles_partial C03_pipeline_partial). Qed.
Print Assumptions C03_full_partial.

(* use of C02: `isteps` runs a phase in program order; for the phases of a supported builder program
   every order that respects the recorded dependencies (the order the interpreter's controller
   picks, C04) gives the same events, variables and stop reason, from any state a step can start in *)
Theorem C03_step_any_schedule : forall F g bl P ph s sched,
  build_model bl = Some P -> supported is_state_var P = true -> In ph P ->
  (forall y, persistent_var y = false -> s y = None) ->
  Permutation.Permutation (seq 0 (List.length (fp_stmts ph))) sched ->
  BuilderProofs.respects (fp_stmts ph) sched ->
  req (run_ids F g (fp_stmts ph) sched (RRun s nil)) (run_list F g (fp_stmts ph) (RRun s nil)).
Proof.
  exact (fun F g bl P ph s sched =>
           step_any_schedule F g is_state_var persistent_var exec_state_token bl P ph s sched st_split).
Qed.
Print Assumptions C03_step_any_schedule.

(* the two lowerings of a guarded looped assignment.  The pipeline theorems above hold for both,
   because they say nothing when the target is undefined.  They differ exactly there: with the guard
   INSIDE the loops the emitted code evaluates the loop bounds although the guard is false -- on
   wit_guard (the bound is a local assigned under the same guard) the target model is undefined in
   the first call, the interpreter is not; with the guard OUTSIDE the target is defined on it and
   agrees with the interpreter after every call. *)
Theorem C03_guard_shapes :
  supported st_of wit_guard_P = true /\
  fcalls F03 true true true true true true false [] st_of wit_guard_P 1 (mk_store wit_guard_init) "pa"
    = FOUndef /\
  forall n, (n <= 4)%nat ->
    let t := fcalls F03 true true true true true true true [] st_of wit_guard_P n (mk_store wit_guard_init) "pa" in
    let i := isteps F03 true [] ps_of wit_guard_P n (mk_store wit_guard_init) empty "pa" in
    defined_pair t i && agree_on ["<p>x"; "<p>z"] t i = true.
Proof. exact guard_inside_undefined. Qed.
Print Assumptions C03_guard_shapes.

(* the three slots written by emit_inst_YieldState are the model's *)
Theorem C03_ret_slots : c03_ret_prefixes = ret_prefixes.
Proof. exact eq_refl. Qed.
Print Assumptions C03_ret_slots.

(* every shape switch is load-bearing: with any one of them in its other position the statement is
   false, by a concrete program (also stored in corpus/C03/) *)
Theorem C03_shapes_matter :
  (forall ff um sw nf go, ~ pipeline_statement false ff um sw nf go) /\
  (forall ff sw nf go, ~ pipeline_statement true ff false sw nf go) /\
  (forall ff nf go, ~ pipeline_statement true ff true false nf go) /\
  (forall ff go, ~ pipeline_statement true ff true true false go) /\
  ~ compiles_statement false.
Proof. exact (conj cond_refuted (conj ubound_refuted (conj switch_refuted (conj next_refuted ne_refuted)))). Qed.
Print Assumptions C03_shapes_matter.

(* the logical operators as FortranExpressionMapper prints them (precedences read off map_logical_or /
   map_logical_and / map_logical_not and pymbolic's table, coq/gen/GenC03.v): for every tree of
   and / or / not over atoms (operand lists of at least two, no negation directly under a negation)
   and every valuation of the atoms, reading the printed token string with Fortran's grammar of
   logical expressions gives the value of the tree.  Type-checks only while the six numbers satisfy
   prec_ok (an .or. under .and. or .not., and an .and. under .not., get parentheses). *)
Theorem C03_logical_printing : forall v e, wf e = true ->
  fortran_value v (bprint c03_prec_or_child c03_prec_or_own c03_prec_and_child c03_prec_and_own
                          c03_prec_not_child c03_prec_not_own 0 e) = Some (beval v e).
Proof.
  exact (printer_holds c03_prec_or_child c03_prec_or_own c03_prec_and_child c03_prec_and_own
                       c03_prec_not_child c03_prec_not_own eq_refl).
Qed.
Print Assumptions C03_logical_printing.

(* a printer that hands the operands of .and. the precedence of .or. (so that `a and (b or c)` is
   printed `a .and. b .or. c`) falsifies the statement: witness a = false, c = true *)
Theorem C03_logical_precedence_matters : forall oc oo ao nc no, ~ printer_statement oc oo oo ao nc no.
Proof. exact printer_refuted. Qed.
Print Assumptions C03_logical_precedence_matters.

(* helper subroutines of called functions: the generator keys them by (function identifier, kinds of
   the arguments) -- read off emit_inst_AssignFunctionCall / finish_emit, fail-closed -- and the
   model evaluates a call with the helper instantiated for the call's own argument kinds; a helper
   made for other kinds (another user type / extent) has no behaviour on these arguments *)
Theorem C03_helper_per_kinds :
  c03_helper_key = ["inst.function_id"; "arg_kinds"] /\
  (forall F f pos kw, helper F (helper_key f pos) pos kw = F f pos kw) /\
  (forall F f ks pos kw, ks <> map kind_of_val pos -> helper F (f, ks) pos kw = None).
Proof. exact (conj eq_refl (conj helper_own_key helper_foreign_key)). Qed.
Print Assumptions C03_helper_per_kinds.

(* powers: `base**exponent` with the base printed at a precedence above the power's own (so that a base
   which is itself a power gets parentheses) reads back, with Fortran's right-associative `**`, as the
   tree that was printed -- for every tree, every precedence of the exponent, every following text that
   does not start with `**` *)
Theorem C03_power_printing : forall bp xp own, Nat.ltb own bp = true -> power_statement bp xp own.
Proof. exact power_holds. Qed.
Print Assumptions C03_power_printing.

(* a printer that hands the base the power's own precedence (pymbolic's StringifyMapper.map_power, which
   FortranExpressionMapper inherits unless it has a map_power of its own) falsifies the statement:
   (a0**a1)**a2 is printed a0**a1**a2; with 2, 2, 3 the tree is worth 64 and the text 256 *)
Theorem C03_power_parentheses_matter : forall bp xp own, Nat.ltb own bp = false ->
  ~ power_statement bp xp own /\
  pval wit_pow_values wit_pow_base = 64 /\
  option_map (fun p => pval wit_pow_values (fst p))
             (pread (S (psize wit_pow_base)) (pprint bp xp own 0 wit_pow_base)) = Some 256.
Proof. exact (fun bp xp own H => conj (power_refuted bp xp own H) (wit_pow_base_values bp xp own H)). Qed.
Print Assumptions C03_power_parentheses_matter.

(* the tree under test (three precedences and the switch read off expressions.py / pymbolic): the
   statement when a base that is a power is parenthesised (fixes/C03_fortran_power_parentheses.patch),
   its negation otherwise (open finding power_base_not_parenthesised).  Type-checks for both shapes, and
   only while the switch agrees with the three numbers. *)
Theorem C03_power_printing_this_tree :
  if c03_power_paren then power_statement c03_prec_pow_base c03_prec_pow_exp c03_prec_pow_own
  else ~ power_statement c03_prec_pow_base c03_prec_pow_exp c03_prec_pow_own.
Proof. exact (power_either c03_prec_pow_base c03_prec_pow_exp c03_prec_pow_own). Qed.
Print Assumptions C03_power_printing_this_tree.

(* Hand-written guards (C03's open finding merged_guard_reevaluated, design/C03.md item 13): merging adjacent
   conditionals with one guard agrees with the interpreter's reading (each guard evaluated when its statement is
   reached) when every statement that is followed by another one of its group keeps a true guard true -- the side
   condition fixes/C03-merged-guard.patch establishes -- and differs without it.  Abstract model
   (proofs/GuardMerge.v), generic in the state; tied to the code by the witness only: the two values of
   wit_interpreter / wit_generated are compared with the real interpreter and the real compiled stepper on
   corpus/C03/raw_guard_rewritten.json by harness/c03.py on every run. *)
From Dagrt Require GuardMerge.

Theorem C03_merged_guard_sound_if_stable : forall (state : Type) (gs : list (GuardMerge.group state)),
  Forall (GuardMerge.stable state) gs ->
  forall s, GuardMerge.run_each state (flat_map (GuardMerge.expand state) gs) s = GuardMerge.run_merged state gs s.
Proof. exact GuardMerge.merge_sound. Qed.
Print Assumptions C03_merged_guard_sound_if_stable.

(* the same with the side condition in the syntactic form the repaired test checks: stores map variables to values,
   the guard of a group depends only on the variables vs it mentions, every statement of the group changes only the
   variables ws it assigns, and vs, ws are disjoint *)
Theorem C03_merged_guard_sound_syntactic : forall (var val : Type) (gs : list (GuardMerge.group (GuardMerge.store var val))),
  Forall (fun g => exists vs, GuardMerge.depends_only_on var val (GuardMerge.gc _ g) vs /\
                   forall f, In f (GuardMerge.body _ g) ->
                     exists ws, GuardMerge.writes_only var val f ws /\ forall x, In x vs -> ~ In x ws) gs ->
  forall s, GuardMerge.run_each _ (flat_map (GuardMerge.expand _) gs) s = GuardMerge.run_merged _ gs s.
Proof. exact GuardMerge.merge_sound_syntactic. Qed.
Print Assumptions C03_merged_guard_sound_syntactic.

Theorem C03_merged_guard_refuted :
  exists (gs : list (GuardMerge.group GuardMerge.wst)) (s : GuardMerge.wst),
    GuardMerge.run_each _ (flat_map (GuardMerge.expand _) gs) s <> GuardMerge.run_merged _ gs s.
Proof. exact GuardMerge.merge_refuted. Qed.
Print Assumptions C03_merged_guard_refuted.

(* The shape of the merge test in ASTSimplifyMapper.map_Block, read from the tree by harness/tr/c06.py: it checks
   only on the repaired tree (fix 5e02bf5: the first conditional assigns no variable of the condition, which makes
   every merged group `stable` in the sense of C03_merged_guard_sound_if_stable when a statement's effect on the
   guard is through the variables it assigns).  On the unrepaired shape this does not type-check and the check
   reports the corpus witness of C03_merged_guard_refuted as the failing input. *)
From Dagrt Require GenC06.
Theorem C03_merge_tests_guard_stability : GenC06.simplify_merge_guard_stable = true.
Proof. exact eq_refl. Qed.
Print Assumptions C03_merge_tests_guard_stability.
