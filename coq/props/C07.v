(* C07 -- property theorems only (statements about model/Transform.v and model/TransformSem.v
   with the shape switches read off /repo in gen/GenC07.v and gen/GenLang.v). *)
From Coq Require Import List String.
From Dagrt Require Import GenLang GenC07 Lang Transform TransformSem TransformProofs.

(* the traced semantics used by C07 computes the values of the core model (Lang.eval) *)
Theorem C07_traced_values : forall F s e, snd (evalt F s e) = snd (eval F s e).
Proof. exact evalt_snd. Qed.
Print Assumptions C07_traced_values.
