(* C07 -- property theorems only (statements about model/Transform.v and model/TransformSem.v
   with the shape switches read off /repo in gen/GenC07.v and gen/GenLang.v).

   pass_ok F dg st0 t t' st' (proofs/TransformProofs.v) says, for the run of one pass that turned
   tree t into t' and generator state st0 into st':
     exists N I,  ext st0 st' N I                          (N / I = the names / ids generated: new, distinct)
       /\ (forall x, In x N -> ~ In x (tvars t))            (no generated name occurs anywhere in t)
       /\ (forall x, In x I -> ~ In x (tids t))             (no generated id is an id of t)
       /\ (NoDup (tids t) -> NoDup (tids t'))               (ids stay unique)
       /\ forall a, srel N (run F dg t a) (run F dg t' a)   (from every store a: if t runs without a Python
                                                             exception, t' ends the same way, with the same
                                                             events, equal values of every variable outside N,
                                                             and a permutation of the same calls)
   The side conditions (sd_leaf, fai_leaf, fci_leaf, ite_leaf : tstmt -> bool, proofs/TransformTree.v)
   are decidable. *)
From Coq Require Import List String Permutation.
From Dagrt Require Import GenLang GenC07 Lang Sched Transform TransformSem TransformSide TransformBasics TransformHoist
     TransformSpec TransformMappers TransformLeaf TransformStmt TransformSd TransformTree TransformProj
     TransformProofs TransformSyn TransformSynPasses TransformFuel.

(* Full statement for the call isolator: every structured phase (leaves without loops, call-free
   guards, function symbols that are not written variables), no restriction on where calls occur.
   False of the code as it is (and of every combination of the three repairs): C07_refuted. *)
Definition C07_full_statement : Prop :=
  full_statement_for
    (isolate_function_calls lang_lhs_sub_reads lang_loop_bound_reads c07_seed_node_vars c07_fci_passes_cond)
    (seeded lang_lhs_sub_reads lang_loop_bound_reads c07_seed_node_vars).

(* y <- (f(x) if c > 0 else x), c = 0: f is called by the output and not by the input *)
Theorem C07_refuted : ~ C07_full_statement.
Proof. exact (hoist_refuted _ _ _ _). Qed.
Print Assumptions C07_refuted.

(* the traced semantics computes the values of the core model (Lang.eval) *)
Theorem C07_traced_values : forall F s e, snd (evalt F s e) = snd (eval F s e).
Proof. exact evalt_snd. Qed.
Print Assumptions C07_traced_values.

(* eliminate_self_dependencies: semantics, call log, fresh names and ids -- every structured phase *)
Theorem C07_self_dependencies : forall F dg lbr ords t t' st',
  eliminate_self_dependencies lang_lhs_sub_reads lbr c07_seed_node_vars c07_sd_sorted ords t = TOk (t', st') ->
  forallb sd_leaf (tstmts t) = true ->
  pass_ok F dg (seeded lang_lhs_sub_reads lbr c07_seed_node_vars t) t t' st'.
Proof. exact (fun F dg lbr => sd_thm F dg lang_lhs_sub_reads c07_seed_node_vars eq_refl eq_refl lbr c07_sd_sorted). Qed.
Print Assumptions C07_self_dependencies.

(* isolate_function_arguments; excluded: calls with non-variable arguments in a conditionally evaluated
   position, keyword arguments not in sorted order *)
Theorem C07_isolate_arguments_partial : forall F dg lbr t t' st',
  isolate_function_arguments lang_lhs_sub_reads lbr c07_seed_node_vars t = TOk (t', st') ->
  forallb fai_leaf (tstmts t) = true ->
  pass_ok F dg (seeded lang_lhs_sub_reads lbr c07_seed_node_vars t) t t' st'.
Proof. exact (fun F dg => fai_thm F dg lang_lhs_sub_reads c07_seed_node_vars eq_refl eq_refl). Qed.
Print Assumptions C07_isolate_arguments_partial.

(* isolate_function_calls (either shape of isolate_call, whenever it does not raise); excluded: calls in
   a conditionally evaluated position *)
Theorem C07_isolate_calls_partial : forall F dg lbr fixed t t' st',
  isolate_function_calls lang_lhs_sub_reads lbr c07_seed_node_vars fixed t = TOk (t', st') ->
  forallb fci_leaf (tstmts t) = true ->
  pass_ok F dg (seeded lang_lhs_sub_reads lbr c07_seed_node_vars t) t t' st'.
Proof. exact (fun F dg => fci_thm F dg lang_lhs_sub_reads c07_seed_node_vars eq_refl eq_refl). Qed.
Print Assumptions C07_isolate_calls_partial.

(* expand_IfThenElse; excluded: conditional expressions below a later operand of and/or *)
Theorem C07_expand_conditionals_partial : forall F dg lbr t t' st',
  expand_IfThenElse lang_lhs_sub_reads lbr c07_seed_node_vars c07_ite_flag_first t = TOk (t', st') ->
  forallb ite_leaf (tstmts t) = true ->
  pass_ok F dg (seeded lang_lhs_sub_reads lbr c07_seed_node_vars t) t t' st'.
Proof.
  exact (fun F dg => ite_thm F dg lang_lhs_sub_reads c07_seed_node_vars c07_ite_flag_first eq_refl eq_refl eq_refl).
Qed.
Print Assumptions C07_expand_conditionals_partial.

(* the four passes in the order of fortran.py's process_ast; the side conditions on the three
   intermediate trees are decidable and evaluated by the check on every case *)
Theorem C07_pipeline_partial : forall F dg lbr fixed ords t t4,
  run_passes lang_lhs_sub_reads lbr c07_seed_node_vars c07_sd_sorted fixed c07_ite_flag_first ords fortran_pass_order t = TOk t4 ->
  exists t1 t2 t3 g1 g2 g3 g4,
    eliminate_self_dependencies lang_lhs_sub_reads lbr c07_seed_node_vars c07_sd_sorted ords t = TOk (t1, g1) /\
    isolate_function_arguments lang_lhs_sub_reads lbr c07_seed_node_vars t1 = TOk (t2, g2) /\
    isolate_function_calls lang_lhs_sub_reads lbr c07_seed_node_vars fixed t2 = TOk (t3, g3) /\
    expand_IfThenElse lang_lhs_sub_reads lbr c07_seed_node_vars c07_ite_flag_first t3 = TOk (t4, g4) /\
    (forallb sd_leaf (tstmts t) = true -> forallb fai_leaf (tstmts t1) = true ->
     forallb fci_leaf (tstmts t2) = true -> forallb ite_leaf (tstmts t3) = true ->
     exists N1 N2 N3 N4,
       (forall x, In x N1 -> ~ In x (tvars t)) /\ (forall x, In x N2 -> ~ In x (tvars t1)) /\
       (forall x, In x N3 -> ~ In x (tvars t2)) /\ (forall x, In x N4 -> ~ In x (tvars t3)) /\
       (NoDup (tids t) -> NoDup (tids t4)) /\
       (forall a, srel (N1 ++ N2 ++ N3 ++ N4) (run F dg t a) (run F dg t4 a))).
Proof.
  exact (fun F dg lbr => pipeline_thm F dg lang_lhs_sub_reads c07_seed_node_vars c07_ite_flag_first fortran_pass_order
                                      eq_refl eq_refl eq_refl eq_refl lbr c07_sd_sorted).
Qed.
Print Assumptions C07_pipeline_partial.

(* the repaired isolate_call handles the nested call on which the other shape raises TypeError *)
Theorem C07_nested_call_total : exists r,
  isolate_function_calls lang_lhs_sub_reads lang_loop_bound_reads c07_seed_node_vars c07_fci_passes_cond
                         wit_nested = TOk r.
Proof. exact (arity_repaired _ _ _). Qed.
Print Assumptions C07_nested_call_total.

(* guards: in the output of every pass each input statement s is replaced by statements of which
   the last is s with rewritten expressions (same id, guard, assignees) and the others carry the
   guard of s, possibly extended by further conjuncts (gext); an extended guard that holds implies
   the original one *)
Theorem C07_guards : forall lbr fixed ords t t' st',
  (eliminate_self_dependencies lang_lhs_sub_reads lbr c07_seed_node_vars c07_sd_sorted ords t = TOk (t', st')
   /\ forallb sd_leaf (tstmts t) = true) \/
  (isolate_function_arguments lang_lhs_sub_reads lbr c07_seed_node_vars t = TOk (t', st')
   /\ forallb fai_leaf (tstmts t) = true) \/
  (isolate_function_calls lang_lhs_sub_reads lbr c07_seed_node_vars fixed t = TOk (t', st')
   /\ forallb fci_leaf (tstmts t) = true) \/
  (expand_IfThenElse lang_lhs_sub_reads lbr c07_seed_node_vars c07_ite_flag_first t = TOk (t', st')
   /\ forallb ite_leaf (tstmts t) = true) ->
  derives carries_guard t t'.
Proof.
  exact (fun lbr fixed ords =>
           guards_thm lang_lhs_sub_reads lbr c07_seed_node_vars c07_sd_sorted fixed c07_ite_flag_first ords eq_refl).
Qed.
Print Assumptions C07_guards.

Theorem C07_guard_implied : forall F c g s r,
  gext c g -> cond_t F s g = (r, Ok true) -> exists r', cond_t F s c = (r', Ok true).
Proof. exact guard_implied. Qed.
Print Assumptions C07_guard_implied.

(* definition before use: in the statements derived from one input statement s, a name of ANY set G
   is read only if the reads of s already allow it (D) or an earlier statement of the same block
   wrote it.  With G = the generated names (C07 freshness: none occurs in s, so D = [] qualifies,
   lemma def_before_use_fresh) no generated variable is read before the statement that sets it.
   No restriction on where calls / conditional expressions occur. *)
Theorem C07_def_before_use : forall lbr fixed ords t t' st',
  forallb lf (tstmts t) = true ->
  eliminate_self_dependencies lang_lhs_sub_reads lbr c07_seed_node_vars c07_sd_sorted ords t = TOk (t', st') \/
  isolate_function_arguments lang_lhs_sub_reads lbr c07_seed_node_vars t = TOk (t', st') \/
  isolate_function_calls lang_lhs_sub_reads lbr c07_seed_node_vars fixed t = TOk (t', st') \/
  expand_IfThenElse lang_lhs_sub_reads lbr c07_seed_node_vars c07_ite_flag_first t = TOk (t', st') ->
  derives def_before_use t t'.
Proof.
  exact (fun lbr fixed ords =>
           def_before_use_thm lang_lhs_sub_reads lbr c07_seed_node_vars c07_sd_sorted fixed c07_ite_flag_first
                              ords eq_refl).
Qed.
Print Assumptions C07_def_before_use.

(* pytools' name search always finds a name (the model's fuel never runs out) *)
Theorem C07_name_search_total : forall g b, exists n g', gen g b = Some (n, g').
Proof. exact gen_total. Qed.
Print Assumptions C07_name_search_total.
