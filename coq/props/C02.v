(* C02 -- property theorems only.  The builder model takes the two read-set shape
   switches from gen/GenLang.v; the theorems type-check only for the repaired shapes
   (both true), for the defective shape proofs/BuilderExamples.lhs_shape_refuted holds. *)
From Coq Require Import List String Permutation.
From Dagrt Require Import GenLang Lang BuilderCore BuilderInv Builder Sched SchedProofs BuilderProofs.

Definition is_state_var : var -> bool := is_state_of state_exact state_prefixes.
Notation build_model := (build lang_lhs_sub_reads lang_loop_bound_reads is_state_var exec_state_token).

(* every order of the statements that respects the recorded dependency edges gives the same
   events, the same final values of all variables and the same stop reason as program order *)
Theorem C02_all_schedules : forall F del_guarded p b s0 sched,
  build_model p = BOk b ->
  loopvars_ok (b_stmts b) s0 ->
  Permutation (seq 0 (List.length (b_stmts b))) sched ->
  respects (b_stmts b) sched ->
  req (run_ids F del_guarded (b_stmts b) sched (RRun s0 nil))
      (run_list F del_guarded (b_stmts b) (RRun s0 nil)).
Proof.
  exact (fun F g p b s0 sched Hb Hl Hp Hr =>
           eq_ind _ (fun X => req (run_ids F g (b_stmts b) sched (RRun s0 nil)) X)
                  (all_schedules F g is_state_var exec_state_token p b s0 sched Hb Hl Hp Hr) _
                  (run_ids_seq F g (b_stmts b) (RRun s0 nil))).
Qed.
Print Assumptions C02_all_schedules.

(* every recorded edge points to an earlier statement: program order is admissible, the graph acyclic *)
Theorem C02_edges_backward : forall p b i st d,
  build_model p = BOk b -> nth_error (b_stmts b) i = Some st -> In d (sdeps st) -> d < i.
Proof. exact (edges_backward is_state_var exec_state_token). Qed.
Print Assumptions C02_edges_backward.

(* two statements that conflict on their read/write sets (guards, subscripts, loop bounds,
   call arguments, yielded values included) are ordered by the transitive closure of the edges *)
Theorem C02_conflicts_ordered : forall p b i j a c,
  build_model p = BOk b -> i < j ->
  nth_error (b_stmts b) i = Some a -> nth_error (b_stmts b) j = Some c ->
  ~ indep exec_state_token a c -> prec (out (b_core b)) i j.
Proof. exact (conflicts_ordered is_state_var exec_state_token). Qed.
Print Assumptions C02_conflicts_ordered.

(* externally visible statements keep their order relative to every other statement *)
Theorem C02_barrier_ordered : forall p b i j a c,
  build_model p = BOk b -> i < j ->
  nth_error (b_stmts b) i = Some a -> nth_error (b_stmts b) j = Some c ->
  barrier a = true \/ barrier c = true -> prec (out (b_core b)) i j.
Proof. exact (barrier_ordered is_state_var exec_state_token). Qed.
Print Assumptions C02_barrier_ordered.

(* names handed out by the builder were never seen before and are remembered *)
Theorem C02_fresh_not_seen : forall b prefix nm b',
  fresh b prefix = Some (nm, b') ->
  ~ In nm (b_seen b) /\ In nm (b_seen b') /\ incl (b_seen b) (b_seen b').
Proof. exact fresh_not_seen. Qed.
Print Assumptions C02_fresh_not_seen.

Theorem C02_seen_monotone : forall b c b',
  bstep lang_lhs_sub_reads lang_loop_bound_reads is_state_var exec_state_token b c = BOk b' ->
  incl (b_seen b) (b_seen b').
Proof. exact (seen_monotone is_state_var exec_state_token). Qed.
Print Assumptions C02_seen_monotone.
