(* C10 -- property theorems only.  Each is closed by `exact` of a lemma from
   proofs/ and followed by Print Assumptions.  The model is instantiated with the
   facts read off the working tree (GenC10.v): where `ids` is built and the literal
   of the writer test.  C10_error_kind type-checks only for the shape with `ids`
   rebuilt per phase; for the other shape proofs/VerifyProofs.v holds
   verify_error_kind_refuted (witness wit_cross) and verify_error_kind_partial. *)
From Coq Require Import List.
From Dagrt Require Import GenC10 Verify VerifyProofs.

Definition C10_verify : dag -> outcome := verify verify_ids_per_phase verify_cond_writer_limit.

Definition C10_full_statement : Prop :=
  forall D, uniq_ids D ->
    (C10_verify D = Accept <-> dag_wf D) /\
    (~ dag_wf D -> exists n, n >= 1 /\ C10_verify D = CodeGenError n) /\
    C10_verify D <> OutOfFuel /\
    (forall e, C10_verify D <> Crash e) /\
    (C10_verify D = Accept -> forall p, In p D ->
       (forall s d, In s (pstmts p) -> In d (sdeps s) -> lookup (pstmts p) d <> None) /\
       (forall depth roots, incl roots (phase_ids p) -> length (pstmts p) <= depth ->
          exists plan, update_plan (pstmts p) depth roots = PlanOk plan)).

Theorem C10_iff : forall D, uniq_ids D -> (C10_verify D = Accept <-> dag_wf D).
Proof. exact (verify_iff verify_ids_per_phase). Qed.
Print Assumptions C10_iff.

Theorem C10_error_kind : forall D, uniq_ids D -> ~ dag_wf D ->
  exists n, n >= 1 /\ C10_verify D = CodeGenError n.
Proof. exact verify_error_kind_fixed. Qed.
Print Assumptions C10_error_kind.

Theorem C10_terminates : forall D, C10_verify D <> OutOfFuel.
Proof. exact (verify_terminates verify_ids_per_phase verify_cond_writer_limit). Qed.
Print Assumptions C10_terminates.

Theorem C10_only_documented_error : forall D e, C10_verify D <> Crash e.
Proof. exact (verify_no_crash_fixed verify_cond_writer_limit). Qed.
Print Assumptions C10_only_documented_error.

Theorem C10_consumers_total : forall D, uniq_ids D -> C10_verify D = Accept ->
  forall p, In p D ->
    (forall s d, In s (pstmts p) -> In d (sdeps s) -> lookup (pstmts p) d <> None) /\
    (forall depth roots, incl roots (phase_ids p) -> length (pstmts p) <= depth ->
       exists plan, update_plan (pstmts p) depth roots = PlanOk plan).
Proof. exact (verify_consumers_total verify_ids_per_phase). Qed.
Print Assumptions C10_consumers_total.
