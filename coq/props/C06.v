(* C06 -- property theorems only.  Each is closed by `exact` of a lemma from
   proofs/ and followed by Print Assumptions. *)
From Coq Require Import List.
From Dagrt Require Import GenC06 Simplify SimplifyProofs.

(* Full statement of the property for the code as it is now (flags from Generated.v). *)
Definition C06_full_statement : Prop :=
  (forall t v trips t', simplify simplify_rev_expand simplify_guard_empty t = Ok t' ->
                        trace v trips t' = trace v trips t) /\
  (forall t, exists t', simplify simplify_rev_expand simplify_guard_empty t = Ok t').

Theorem C06_simplify_trace : forall t v trips t',
  simplify simplify_rev_expand simplify_guard_empty t = Ok t' ->
  trace v trips t' = trace v trips t.
Proof. exact (fun t v trips t' => simplify_trace v trips simplify_guard_empty t t'). Qed.
Print Assumptions C06_simplify_trace.

Theorem C06_simplify_total : forall t,
  exists t', simplify simplify_rev_expand simplify_guard_empty t = Ok t'.
Proof. exact (simplify_total simplify_rev_expand). Qed.
Print Assumptions C06_simplify_total.
