(* C14 -- property theorems only.  Each is closed by `exact` of a lemma from
   proofs/ and followed by Print Assumptions.  The shape switches come from
   coq/gen/GenC14.v (regenerated from the working tree on every run).

   The premises `switch = true` of the lemmas for the five repairs that are in /repo are
   discharged by eq_refl, so
   - C14_comm / C14_assoc only type-check when dagrt.data.unify accepts Integer in both asserts
     (fixes/C14_unify_symmetric.patch),
   - C14_order_independent_partial additionally needs SymbolKindTable.set to flag an insertion
     as a change (fixes/C14_set_insert_changed.patch),
   - C14_order_independent / C14_infer_kinds_phase_order additionally need set to re-raise a
     failing unification (fixes/C14_set_reraises.patch), the finder to register loop variables
     up front (fixes/C14_loop_variables_prepass.patch) and infer_kinds to have its pinned text.
   Two repairs are pending (fixes/C14_worklist_restart.patch, C14_matrix_builtins_need_arrays.patch);
   their switches stay PREMISES here, so that this file type-checks before and after they are
   applied: on a tree where a premise is false the theorem says nothing about that tree and the
   matching refutation below is the live statement (harness/c14.py reports which of the two it is
   and raises the alarm when a premise is false without an open known finding).
   For the defective shapes of the five older switches proofs/ holds the refutations
   (UnifyProofs.unify_comm_refuted_*, unify_assoc_refuted_*, KindFinderExamples.
   insert_unflagged_refuted, first_kind_wins_refuted, full_statement_refuted,
   KindCfgProofs.gen_full_statement_refuted). *)
From Coq Require Import List String Bool Permutation.
From Dagrt Require Import GenC14 Unify KindOrder KindInfer KindInferCfg UnifyProofs KindRegistryProofs
  KindInferProofs KindFinderProofs KindFinderFull KindFinderExamples KindCfgProofs.

(* Order independence at full strength, for the code as it is now (the model configured by
   GenC14.v, the base function registry extended by any registered user functions): the same
   (phase, statement) pairs presented in another order give the same outcome -- both runs fail,
   or both return equal tables -- fuel exhaustion aside.  Inputs: no empty product in a
   flattened right-hand side, forced kinds are not None. *)
Definition C14_full_statement : Prop := forall extra, full_statement (gen_cfg_with extra).

(* ... and infer_kinds(dag) does not depend on the order in which dag.phases lists the phases *)
Definition C14_glue_statement : Prop := forall extra, glue_statement (gen_cfg_with extra).

Theorem C14_idem : forall k r, gen_unify k k = Ok r -> r = k.
Proof. exact (unify_idem unify_usertype_accepts_int unify_array_accepts_int). Qed.
Print Assumptions C14_idem.

Theorem C14_idem_defined : forall k, k <> Some KBool -> gen_unify k k = Ok k.
Proof. exact (unify_idem_defined unify_usertype_accepts_int unify_array_accepts_int). Qed.
Print Assumptions C14_idem_defined.

Theorem C14_comm : forall a b, res_sim (gen_unify a b) (gen_unify b a).
Proof. exact (gen_unify_comm eq_refl eq_refl). Qed.
Print Assumptions C14_comm.

Theorem C14_assoc : forall a b c,
  res_sim (bind (gen_unify a b) (fun x => gen_unify x c))
          (bind (gen_unify b c) (fun y => gen_unify a y)).
Proof. exact (gen_unify_assoc eq_refl eq_refl). Qed.
Print Assumptions C14_assoc.

(* The result kinds of every registered function are monotone in the argument kinds (an unknown
   argument is below everything; failing = unable to infer): the lemma about the registry that
   order independence rests on. *)
Theorem C14_registry_monotone :
  builtins_require_arrays = true ->
  forall sg vals vals' kwn, Forall2 wle vals vals' ->
    krel (call_kinds builtins_require_arrays sg vals kwn) (call_kinds builtins_require_arrays sg vals' kwn).
Proof. exact gen_registry_monotone. Qed.
Print Assumptions C14_registry_monotone.

Theorem C14_order_independent :
  finder_restarts_after_change = true -> builtins_require_arrays = true -> C14_full_statement.
Proof. exact (gen_order_independent eq_refl eq_refl eq_refl eq_refl eq_refl). Qed.
Print Assumptions C14_order_independent.

Theorem C14_infer_kinds_phase_order :
  finder_restarts_after_change = true -> builtins_require_arrays = true -> C14_glue_statement.
Proof.
  exact (fun Hr Ha => gen_infer_kinds_phase_order eq_refl eq_refl eq_refl eq_refl eq_refl Hr Ha eq_refl).
Qed.
Print Assumptions C14_infer_kinds_phase_order.

(* Weaker, but needs neither the re-raise, nor the loop-variable pre-pass, nor the restart: two runs
   on permuted statement lists that both return a table, and in which no failed unification was
   printed-and-ignored, return equal tables. *)
Theorem C14_order_independent_partial :
  builtins_require_arrays = true ->
  forall extra fuel fuel' forced all all' T T',
  Permutation all all' ->
  (forall it, In it all -> wf_item it) ->
  (forall p x k, In (p, x, k) forced -> k <> None) ->
  run_queue (gen_cfg_with extra) fuel forced all = OTable T false ->
  run_queue (gen_cfg_with extra) fuel' forced all' = OTable T' false ->
  table_equiv T T'.
Proof. exact (gen_order_independent_partial eq_refl eq_refl eq_refl). Qed.
Print Assumptions C14_order_independent_partial.

(* The code as it is before the two pending repairs (witnesses: KindFinderExamples wW/wXi/wAbs and
   wA1/wA2/wMM, replayed on the real code by harness/c14.py, corpus/C14). *)
Theorem C14_refuted_gives_up_early : finder_restarts_after_change = false -> ~ C14_full_statement.
Proof. exact (gen_gives_up_early_refuted eq_refl eq_refl eq_refl eq_refl eq_refl). Qed.
Print Assumptions C14_refuted_gives_up_early.

Theorem C14_refuted_scalar_matrix : builtins_require_arrays = false -> ~ C14_full_statement.
Proof. exact (gen_scalar_matrix_refuted eq_refl eq_refl eq_refl eq_refl). Qed.
Print Assumptions C14_refuted_scalar_matrix.

Theorem C14_registry_monotone_refuted :
  builtins_require_arrays = false ->
  ~ (forall sg vals vals' kwn, Forall2 wle vals vals' ->
       krel (call_kinds builtins_require_arrays sg vals kwn) (call_kinds builtins_require_arrays sg vals' kwn)).
Proof. exact gen_registry_monotone_refuted. Qed.
Print Assumptions C14_registry_monotone_refuted.
