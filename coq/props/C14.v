(* C14 -- property theorems only.  Each is closed by `exact` of a lemma from
   proofs/ and followed by Print Assumptions.  The shape switches come from
   coq/gen/GenC14.v (regenerated from the working tree on every run): the theorems
   below only type-check when dagrt.data.unify accepts Integer in both asserts
   (fixes/C14_unify_symmetric.patch). *)
From Coq Require Import List String Bool.
From Dagrt Require Import GenC14 Unify KindInfer KindInferCfg UnifyProofs.

Theorem C14_idem : forall k r, gen_unify k k = Ok r -> r = k.
Proof. exact (unify_idem unify_usertype_accepts_int unify_array_accepts_int). Qed.
Print Assumptions C14_idem.

Theorem C14_idem_defined : forall k, k <> Some KBool -> gen_unify k k = Ok k.
Proof. exact (unify_idem_defined unify_usertype_accepts_int unify_array_accepts_int). Qed.
Print Assumptions C14_idem_defined.

Theorem C14_comm : forall a b, res_sim (gen_unify a b) (gen_unify b a).
Proof. exact unify_comm. Qed.
Print Assumptions C14_comm.

Theorem C14_assoc : forall a b c,
  res_sim (bind (gen_unify a b) (fun x => gen_unify x c))
          (bind (gen_unify b c) (fun y => gen_unify a y)).
Proof. exact unify_assoc. Qed.
Print Assumptions C14_assoc.
