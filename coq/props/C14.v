(* C14 -- property theorems only.  Each is closed by `exact` of a lemma from
   proofs/ and followed by Print Assumptions.  The shape switches come from
   coq/gen/GenC14.v (regenerated from the working tree on every run): the theorems
   below only type-check when dagrt.data.unify accepts Integer in both asserts
   (fixes/C14_unify_symmetric.patch) and SymbolKindTable.set flags an insertion as a
   change (fixes/C14_set_insert_changed.patch). *)
From Coq Require Import List String Bool Permutation.
From Dagrt Require Import GenC14 Unify KindInfer KindInferCfg UnifyProofs KindInferProofs
  KindFinderProofs KindFinderExamples.

(* Order independence at full strength, for the code as it is now (gen_cfg): the same
   statements presented in another order give the same outcome (both runs fail, or both
   return equal tables). *)
Definition C14_full_statement : Prop := full_statement gen_cfg.

Theorem C14_idem : forall k r, gen_unify k k = Ok r -> r = k.
Proof. exact (unify_idem unify_usertype_accepts_int unify_array_accepts_int). Qed.
Print Assumptions C14_idem.

Theorem C14_idem_defined : forall k, k <> Some KBool -> gen_unify k k = Ok k.
Proof. exact (unify_idem_defined unify_usertype_accepts_int unify_array_accepts_int). Qed.
Print Assumptions C14_idem_defined.

Theorem C14_comm : forall a b, res_sim (gen_unify a b) (gen_unify b a).
Proof. exact unify_comm. Qed.
Print Assumptions C14_comm.

Theorem C14_assoc : forall a b c,
  res_sim (bind (gen_unify a b) (fun x => gen_unify x c))
          (bind (gen_unify b c) (fun y => gen_unify a y)).
Proof. exact unify_assoc. Qed.
Print Assumptions C14_assoc.

(* Two runs on permuted statement lists that both return a table, and in which no failed
   unification was printed-and-ignored, return equal tables.  (wf_item: no empty product in
   the flattened right-hand side; forced kinds are not None.) *)
Theorem C14_order_independent_partial : forall fuel fuel' forced all all' T T',
  Permutation all all' ->
  (forall it, In it all -> wf_item it) ->
  (forall p x k, In (p, x, k) forced -> k <> None) ->
  run_queue gen_cfg fuel forced all = OTable T false ->
  run_queue gen_cfg fuel' forced all' = OTable T' false ->
  table_equiv T T'.
Proof. exact (order_independent_partial_cfg set_reraises). Qed.
Print Assumptions C14_order_independent_partial.

(* The full statement is false of the code: a loop variable registered by a statement that does
   not count as progress makes one order end in AssertionError and the other in a table. *)
Theorem C14_order_independent_refuted : ~ C14_full_statement.
Proof.
  exact (full_statement_refuted unify_usertype_accepts_int unify_array_accepts_int
           set_insert_marks_changed set_reraises).
Qed.
Print Assumptions C14_order_independent_refuted.
