(* C14 -- property theorems only.  Each is closed by `exact` of a lemma from
   proofs/ and followed by Print Assumptions.  The shape switches come from
   coq/gen/GenC14.v (regenerated from the working tree on every run); the premises
   `switch = true` of the lemmas are discharged by eq_refl, so
   - C14_comm / C14_assoc only type-check when dagrt.data.unify accepts Integer in both asserts
     (fixes/C14_unify_symmetric.patch),
   - C14_order_independent_partial additionally needs SymbolKindTable.set to flag an insertion
     as a change (fixes/C14_set_insert_changed.patch),
   - C14_order_independent additionally needs set to re-raise a failing unification
     (fixes/C14_set_reraises.patch) and the finder to register loop variables up front
     (fixes/C14_loop_variables_prepass.patch).
   For the defective shapes proofs/ holds the refutations (UnifyProofs.unify_comm_refuted_*,
   unify_assoc_refuted_*, KindFinderExamples.insert_unflagged_refuted, first_kind_wins_refuted,
   full_statement_refuted, KindCfgProofs.gen_full_statement_refuted). *)
From Coq Require Import List String Bool Permutation.
From Dagrt Require Import GenC14 Unify KindInfer KindInferCfg UnifyProofs KindInferProofs
  KindFinderProofs KindFinderFull KindFinderExamples KindCfgProofs.

(* Order independence at full strength, for the code as it is now (gen_cfg): the same
   (phase, statement) pairs presented in another order give the same outcome -- both runs fail,
   or both return equal tables -- fuel exhaustion aside.  Inputs: no empty product in a
   flattened right-hand side, forced kinds are not None. *)
Definition C14_full_statement : Prop := full_statement gen_cfg.

Theorem C14_idem : forall k r, gen_unify k k = Ok r -> r = k.
Proof. exact (unify_idem unify_usertype_accepts_int unify_array_accepts_int). Qed.
Print Assumptions C14_idem.

Theorem C14_idem_defined : forall k, k <> Some KBool -> gen_unify k k = Ok k.
Proof. exact (unify_idem_defined unify_usertype_accepts_int unify_array_accepts_int). Qed.
Print Assumptions C14_idem_defined.

Theorem C14_comm : forall a b, res_sim (gen_unify a b) (gen_unify b a).
Proof. exact (gen_unify_comm eq_refl eq_refl). Qed.
Print Assumptions C14_comm.

Theorem C14_assoc : forall a b c,
  res_sim (bind (gen_unify a b) (fun x => gen_unify x c))
          (bind (gen_unify b c) (fun y => gen_unify a y)).
Proof. exact (gen_unify_assoc eq_refl eq_refl). Qed.
Print Assumptions C14_assoc.

Theorem C14_order_independent : C14_full_statement.
Proof. exact (gen_order_independent eq_refl eq_refl eq_refl eq_refl eq_refl). Qed.
Print Assumptions C14_order_independent.

(* Weaker, but needs only the first two repairs: two runs on permuted statement lists that both
   return a table, and in which no failed unification was printed-and-ignored, return equal tables. *)
Theorem C14_order_independent_partial : forall fuel fuel' forced all all' T T',
  Permutation all all' ->
  (forall it, In it all -> wf_item it) ->
  (forall p x k, In (p, x, k) forced -> k <> None) ->
  run_queue gen_cfg fuel forced all = OTable T false ->
  run_queue gen_cfg fuel' forced all' = OTable T' false ->
  table_equiv T T'.
Proof. exact (gen_order_independent_partial eq_refl eq_refl eq_refl). Qed.
Print Assumptions C14_order_independent_partial.
