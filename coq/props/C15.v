(* C15 -- property theorems only.  Each is closed by `exact` of a lemma from
   proofs/DetermProofs.v (or DagAstProofs.v) and followed by Print Assumptions.
   The five shape switches come from coq/gen/GenC15.v (regenerated from the working tree on every
   run); the premises `switch = ...` of the lemmas are discharged by eq_refl, so
   - C15_model_deterministic and C15_selfdep_site only type-check when transform.py iterates over
     sorted(read_and_written)                           (fixes/C15_selfdep_sorted.patch),
   - C15_model_deterministic and C15_deinit_site only when fortran.py's
     emit_deinit_for_last_usage_of_vars does            (fixes/C15_deinit_sorted.patch),
   - C15_model_deterministic and C15_python_phases only when python.py iterates over the sorted
     phases in __call__ and _emit_constructor           (fixes/C15_python_phases_sorted.patch),
   - C15_model_deterministic and C15_index_vars only when ArrayType no longer numbers its default
     index variables from a class-level counter         (fixes/C15_index_var_counter.patch).
   For each defective shape proofs/DetermProofs.v holds the refutation
   (full_statement_refuted_selfdep / _deinit / _py_phases / _py_table / _counter and the per-site
   selfdep_unsorted_refuted, deinit_unsorted_refuted, index_vars_counter_refuted). *)
From Coq Require Import List String Permutation.
Import ListNotations.
From Dagrt Require Import GenC05 GenC06 GenC15 Simplify DagAst DagAstProofs Unify KindInfer
  Determ DetermProofs.

(* The property for the model, for the code as it is now (see Determ.full_statement): everything
   the two generators compute before they write text is the same for two stored forms of one
   method description, for all iteration orders of all sets involved; default index variable
   names do not depend on earlier constructions in the process. *)
Definition C15_full_statement : Prop :=
  full_statement selfdep_sorted deinit_sorted py_phases_sorted py_table_sorted
                 index_vars_from_counter.

Theorem C15_model_deterministic : C15_full_statement.
Proof. exact (full_statement_of_flags _ _ _ _ _ eq_refl eq_refl eq_refl eq_refl eq_refl). Qed.
Print Assumptions C15_model_deterministic.

(* S1: the temporaries of a self-dependent statement do not depend on the iteration order of
   the frozenset read_and_written, for every name generator *)
Theorem C15_selfdep_site : forall (G : Type) (gen : G -> string -> string * G) it it' st gv gi,
  Permutation it it' ->
  selfdep_stmt G gen selfdep_sorted it st gv gi = selfdep_stmt G gen selfdep_sorted it' st gv gi.
Proof. exact (selfdep_site_of_flag _ eq_refl). Qed.
Print Assumptions C15_selfdep_site.

(* S2 (no switch): the last-use table is one finite map for all iteration orders *)
Theorem C15_last_use_table : forall ord ord' fs, reorders ord -> reorders ord' ->
  forall k, lget (last_use_all ord fs []) k = lget (last_use_all ord' fs []) k.
Proof. exact last_use_table_order_independent. Qed.
Print Assumptions C15_last_use_table.

(* S3: the release calls after a statement *)
Theorem C15_deinit_site : forall is_state T T' p tbl tbl' sid it it',
  table_equiv T T' -> lequiv tbl tbl' -> Permutation it it' ->
  deinit_calls is_state deinit_sorted T p tbl sid it =
  deinit_calls is_state deinit_sorted T' p tbl' sid it'.
Proof. exact (deinit_site_of_flag _ eq_refl). Qed.
Print Assumptions C15_deinit_site.

(* S3' (no switch): the release calls at the end of a phase function *)
Theorem C15_final_deinit : forall T T' p tbl tbl',
  NoDup (map fst T) -> NoDup (map fst T') -> table_equiv T T' -> lequiv tbl tbl' ->
  final_deinit exit_deinit_all T p tbl = final_deinit exit_deinit_all T' p tbl'.
Proof. exact (final_deinit_ext exit_deinit_all). Qed.
Print Assumptions C15_final_deinit.

(* S4: the Python generator's phase functions and transition table *)
Theorem C15_python_phases : forall D D', wf_description D -> same_description D D' ->
  pipeline_py simplify_rev_expand simplify_guard_empty lower_skip_false_guard
              py_phases_sorted py_table_sorted D =
  pipeline_py simplify_rev_expand simplify_guard_empty lower_skip_false_guard
              py_phases_sorted py_table_sorted D'.
Proof. exact (py_site_of_flags _ _ eq_refl eq_refl _ _ _). Qed.
Print Assumptions C15_python_phases.

(* S5: default index variables of an ArrayType *)
Theorem C15_index_vars : forall h h' n e,
  fst (index_vars index_vars_from_counter h n e) = fst (index_vars index_vars_from_counter h' n e).
Proof. exact (index_site_of_flag _ eq_refl). Qed.
Print Assumptions C15_index_vars.

(* no switch: sorted() of any permutation of a list of names is the same list *)
Theorem C15_sorted_of_permutation : forall l l', Permutation l l' -> ssort l = ssort l'.
Proof. exact ssort_perm_eq. Qed.
Print Assumptions C15_sorted_of_permutation.

(* no switch: create_ast_from_phase (C05's model) does not see the iteration order of the
   depends_on sets either (C05_storage_independent covers the statement container) *)
Theorem C15_lowering_ignores_dependency_order : forall s1 s2, Forall2 dep_equiv s1 s2 ->
  lower simplify_rev_expand simplify_guard_empty lower_skip_false_guard s1 =
  lower simplify_rev_expand simplify_guard_empty lower_skip_false_guard s2.
Proof. exact (lower_dep_equiv _ _ _). Qed.
Print Assumptions C15_lowering_ignores_dependency_order.
