(* C11 -- property theorems only.  Model: Stepper.v (stepping loop, `finally` cleanup) over
   Lang.exec_stmt with the user functions as a universally quantified oracle F (None = raises). *)
From Coq Require Import List String ZArith.
From Dagrt Require Import GenLang Lang LangProofs Builder Sched SchedProofs Stepper StepperProofs.

(* the step in which a user function raises (or any other exception escapes): the statements
   before the failing one ran, nothing after it did; afterwards no per-step name is visible, and a
   persistent variable that none of the executed statements (the failing one included) writes holds
   its value from before the step -- in particular every variable whose writers all depend on the
   failed statement.  (The model keeps the store from before the failing statement; the effects of
   loop iterations it completed before raising are not modelled, hence the failing statement is
   counted among the writers.) *)
Theorem C11_state_after_exception : forall F del_guarded keep l1 st l2 s s1 evs1 (user : bool),
  exec_seq F del_guarded l1 s nil = (s1, evs1, BDone) ->
  snd (exec_stmt F del_guarded s1 st) = (if user then OUserExn else OCrash) ->
  let final := cleanup keep (fst (fst (exec_seq F del_guarded (l1 ++ st :: l2) s nil))) in
  Pre keep final /\
  (forall x, keep x = true -> (forall a, In a (l1 ++ st :: nil) -> ~ WL a x) -> final x = s x) /\
  snd (exec_seq F del_guarded (l1 ++ st :: l2) s nil) = BExn user.
Proof. exact exn_state. Qed.
Print Assumptions C11_state_after_exception.

(* any variable, however the body ends: unchanged unless an executed statement writes it
   ("its value from before the step or a value the written program assigns to it in that step") *)
Theorem C11_old_or_assigned : forall F del_guarded l s evs s1 evs1 e x,
  exec_seq F del_guarded l s evs = (s1, evs1, e) ->
  (forall st, In st l -> ~ WL st x) -> s1 x = s x.
Proof. exact exec_seq_unch. Qed.
Print Assumptions C11_old_or_assigned.

(* stepping on from the state an exception left behind is stepping a fresh stepper started in that
   state and phase: the loop depends on nothing but the persistent store and next_phase, whatever
   admissible order (stale plan or not) each stepper uses *)
Theorem C11_resume : forall F del_guarded keep obs ord1 ord2 d,
  (forall p, In p d -> built (is_state_of state_exact state_prefixes) exec_state_token (ph_stmts p)
                       /\ lv_ok keep (ph_stmts p)) ->
  (forall p i, In p d -> admissible (ph_stmts p) (ord1 (ph_name p) i (ph_stmts p))) ->
  (forall p i, In p d -> admissible (ph_stmts p) (ord2 (ph_name p) i (ph_stmts p))) ->
  forall fuel s s' next t_end max_steps,
  Pre keep s -> (forall x, s x = s' x) ->
  run_rel (run F del_guarded keep obs ord1 fuel d s next t_end max_steps 0 0)
          (run F del_guarded keep obs ord2 fuel d s' next t_end max_steps 0 0).
Proof.
  exact (fun F g keep obs ord1 ord2 d Hd H1 H2 fuel s s' next te mx Hp Hs =>
    run_order_independent F g keep obs ord1 ord2 d
      (fun p i s0 Hin Hp0 =>
         req_trans _ _ _
           (body_order_independent F g _ exec_state_token keep _ _ s0
              (proj1 (Hd p Hin)) (proj2 (Hd p Hin)) (H1 p i Hin) Hp0)
           (req_sym _ _ (body_order_independent F g _ exec_state_token keep _ _ s0
              (proj1 (Hd p Hin)) (proj2 (Hd p Hin)) (H2 p i Hin) Hp0)))
      fuel s s' next te mx 0 0 Hp Hs).
Qed.
Print Assumptions C11_resume.
