(* C09 -- property theorems only.  Each is closed by `exact` of a lemma from proofs/KindsMainProofs.v
   and followed by Print Assumptions.  cfg0 / keep0 (coq/model/KindsCfg.v) carry the shape switches and
   name tables read off the working tree (coq/gen/GenC09.v):
     pow_fix         = c09_power_returns_kind   (KindInferenceMapper.map_power returns a kind)
     new_marks       = c09_new_entry_marks      (SymbolKindTable.set marks the table changed for a new entry)
     isnan_any       = c09_isnan_any            (builtin_isnan reduces with .any())
     conflict_raises = c09_conflict_raises      (SymbolKindTable.set re-raises a failing unify)
     finder_restarts = c09_finder_restarts      (SymbolKindFinder starts another pass before giving up when kinds changed)
     need_arrays     = c09_matrix_need_arrays   (matmul/transpose/linear_solve/svd infer a kind only from Array arguments)
   The last two do not appear as premises: every theorem below holds for both of their values.
   The theorems that cite `eq_refl` for a switch check only against the repaired shape; for the other shape
   proofs/KindsMainProofs.v has the refutations every_assigned_refuted (witness wit_pow),
   soundness_refuted_stale (witness wit_stale) and builtins_refuted_isnan. *)
From Coq Require Import List String.
Import ListNotations.
Open Scope string_scope.
From Dagrt Require Import GenC09 Kinds KindsCfg KindsClassProofs KindsProofs KindsMainProofs.

(* Full statement of the property for the code as it is now. *)
Definition C09_full_statement : Prop :=
  (* whenever inference succeeds, every assigned variable has a kind *)
  (forall reg fo fi D forced T,
     wf_program D = true -> infer cfg0 reg fo fi D forced = Ok T ->
     forall ph stmts s x, In (ph, stmts) D -> In s stmts -> assigns s x ->
     exists k, lookup T ph x = Some (Some k)) /\
  (* ... and in every execution every stored value is of the kind the table gives its variable *)
  full_soundness cfg0 keep0 /\
  (* the result kinds declared for the built-ins match the classes of what they return *)
  (forall f s a cs ks r,
     rlookup builtin_reg f = Some s -> Forall2 arg_rel cs a -> result_kinds true s a = Some ks ->
     In r (cresult cfg0 s cs) -> hks r ks).

Theorem C09_every_assigned_has_kind : forall reg fo fi D forced T,
  wf_program D = true -> infer cfg0 reg fo fi D forced = Ok T ->
  forall ph stmts s x, In (ph, stmts) D -> In s stmts -> assigns s x ->
  exists k, lookup T ph x = Some (Some k).
Proof.
  exact (fun reg fo fi D forced T Hw =>
           every_assigned cfg0 reg fo fi D forced T eq_refl (conj eq_refl eq_refl) Hw).
Qed.
Print Assumptions C09_every_assigned_has_kind.

(* Soundness over the class semantics.  Hypothesis beyond "inference succeeds": the program passes the
   side conditions `sides` (operands of comparisons / min / max / subscripts are scalars, exponents are
   integer literals, no int/int quotient, no flag literal, call arguments pass the functions' own
   check=True test, no scalar is assigned to a variable that also holds an array or user-type value). *)
Theorem C09_soundness_partial : forall reg fo fi D forced T,
  infer cfg0 reg fo fi D forced = Ok T -> sides cfg0 reg D T = true ->
  forall ph0 st0 ph st,
    store_ok T ph0 st0 -> creach cfg0 reg D keep0 ph0 st0 ph st -> store_ok T ph st.
Proof.
  exact (fun reg fo fi D forced T =>
           soundness_raises cfg0 reg fo fi D forced T keep0 eq_refl eq_refl (conj eq_refl eq_refl)
                            (keep_of_state cfg0 c09_keep_exact c09_keep_prefixes eq_refl eq_refl)).
Qed.
Print Assumptions C09_soundness_partial.

(* holds for every shape of the code: the final table passes the decidable re-check `strict` *)
Theorem C09_soundness_checked_partial : forall reg fo fi D forced T,
  infer cfg0 reg fo fi D forced = Ok T -> strict cfg0 reg D T = true ->
  forall ph0 st0 ph st,
    store_ok T ph0 st0 -> creach cfg0 reg D keep0 ph0 st0 ph st -> store_ok T ph st.
Proof.
  exact (fun reg fo fi D forced T =>
           soundness_of_strict cfg0 reg fo fi D forced T keep0 (conj eq_refl eq_refl)
                               (keep_of_state cfg0 c09_keep_exact c09_keep_prefixes eq_refl eq_refl)).
Qed.
Print Assumptions C09_soundness_checked_partial.

(* the soundness part without side conditions is false for every shape (witness KindsMainProofs.wit_mixed:
   a <- array(n); x <- a; x <- <t> -- the Array kind absorbs the Scalar, no message is printed) *)
Theorem C09_soundness_refuted : ~ full_soundness cfg0 keep0.
Proof.
  exact (full_soundness_false c09_power_returns_kind c09_new_entry_marks c09_isnan_any c09_conflict_raises
                              c09_finder_restarts c09_matrix_need_arrays).
Qed.
Print Assumptions C09_soundness_refuted.

Theorem C09_builtins : forall f s a cs ks r,
  rlookup builtin_reg f = Some s -> Forall2 arg_rel cs a -> result_kinds true s a = Some ks ->
  In r (cresult cfg0 s cs) -> hks r ks.
Proof. exact (fun f s a cs ks r => builtins_sound cfg0 f s a cs ks r eq_refl). Qed.
Print Assumptions C09_builtins.
