(* Proofs about model/Fuse.v, semantic part (C16):
   A. the renaming lemma: executing a statement commutes with an injective renaming of the variables
      (stores related by s' (r x) = s x), for expressions, assignments, loops, calls, yields;
   B. interleaving: if two statement lists touch disjoint variables (nothing one of them writes is in
      the footprint of the other), every interleaving runs each of them as if it were alone;
   C. run equivalence of the fused phase (repaired shape) and the refutations for the shape of the
      unchanged tree. *)
From Coq Require Import List ZArith String Bool Arith Lia.
Import ListNotations.
From Dagrt Require Import Lang Sched LangProofs Fuse FuseProofs.
Local Open Scope list_scope.

(* ------------------------------------------------------------------ the inner loops of eval, named *)
Section Loops.
  Variable F : string -> list val -> list (string * val) -> option (list val).

  Fixpoint andor (stop : bool) (s : store) (l : list expr) : list var * rs val :=
    match l with
    | [] => ([], Ok (VBool (negb stop)))
    | a :: l' =>
        let (rd, v) := eval F s a in
        match rbind v (fun v => lift (truth v)) with
        | Err u => (rd, Err u)
        | Ok b => if Bool.eqb b stop then (rd, Ok (VBool stop))
                  else let (r2, v2) := andor stop s l' in (rd ++ r2, v2)
        end
    end.

  Lemma eval_and s l : eval F s (ENary NAnd l) = andor false s l.
  Proof.
    cbn [eval]. induction l as [|a l IH]; [reflexivity|]. cbn [andor].
    destruct (eval F s a) as [rd v]. destruct (rbind v _) as [[|]|u]; cbn [Bool.eqb]; try reflexivity.
    rewrite IH. reflexivity.
  Qed.
  Lemma eval_or s l : eval F s (ENary NOr l) = andor true s l.
  Proof.
    cbn [eval]. induction l as [|a l IH]; [reflexivity|]. cbn [andor].
    destruct (eval F s a) as [rd v]. destruct (rbind v _) as [[|]|u]; cbn [Bool.eqb]; try reflexivity.
    rewrite IH. reflexivity.
  Qed.
  (* the strict n-ary fold of eval, named *)
  Fixpoint nfold (o : nop) (s : store) (acc : nacc) (l : list expr) : list var * rs nacc :=
    match l with
    | [] => ([], Ok acc)
    | e :: l' =>
        let (rd, v) := eval F s e in
        match v with
        | Err u => (rd, Err u)
        | Ok x =>
            match nstep o acc x with
            | None => (rd, Err false)
            | Some acc' => let (r2, res) := nfold o s acc' l' in (rd ++ r2, res)
            end
        end
    end.

  Lemma eval_nary s o l : o <> NAnd -> o <> NOr ->
    eval F s (ENary o l) = (fst (nfold o s (ninit o) l), rbind (snd (nfold o s (ninit o) l)) (nfinish F o)).
  Proof.
    intros NA NO.
    assert (E : forall acc, (fix go (acc : nacc) (l : list expr) : list var * rs nacc :=
                   match l with
                   | [] => ([], Ok acc)
                   | e :: l' =>
                       let (r, v) := eval F s e in
                       match v with
                       | Err u => (r, Err u)
                       | Ok x =>
                           match nstep o acc x with
                           | None => (r, Err false)
                           | Some acc' => let (r2, res) := go acc' l' in (r ++ r2, res)
                           end
                       end
                   end) acc l = nfold o s acc l).
    { induction l as [|a l IH]; intros acc; [reflexivity|]. cbn [nfold].
      destruct (eval F s a) as [rd [v|u]]; [|reflexivity].
      destruct (nstep o acc v); [|reflexivity]. rewrite IH. reflexivity. }
    destruct o; try contradiction; cbn [eval]; rewrite E; destruct (nfold _ s _ l); reflexivity.
  Qed.
End Loops.

(* ------------------------------------------------------------------ A. renaming *)
Definition amap (r : var -> var) (a : access) : access :=
  match a with Rd x => Rd (r x) | Wr x => Wr (r x) | Dl x => Dl (r x) end.

Section Ren.
  Variable F : string -> list val -> list (string * val) -> option (list val).
  Variable r : var -> var.
  Hypothesis r_inj : forall x y, r x = r y -> x = y.

  Definition R (s s' : store) : Prop := forall x, s' (r x) = s x.

  Lemma R_upd s s' x v : R s s' -> R (upd s x v) (upd s' (r x) v).
  Proof.
    intros H y. unfold upd. destruct (String.eqb_spec y x) as [->|N].
    - now rewrite String.eqb_refl.
    - destruct (String.eqb_spec (r y) (r x)) as [E|_]; [apply r_inj in E; contradiction|apply H].
  Qed.
  Lemma R_del s s' x : R s s' -> R (del s x) (del s' (r x)).
  Proof.
    intros H y. unfold del. destruct (String.eqb_spec y x) as [->|N].
    - now rewrite String.eqb_refl.
    - destruct (String.eqb_spec (r y) (r x)) as [E|_]; [apply r_inj in E; contradiction|apply H].
  Qed.

  (* no function symbol is renamed *)
  Definition fsafe (fs : list string) : Prop := forall f, In f fs -> r f = f.

  Definition EvalR (e : expr) : Prop :=
    fsafe (funsyms e) -> forall s s', R s s' ->
    eval F s' (ren r e) = (map r (fst (eval F s e)), snd (eval F s e)).

  Lemma fsafe_app a b : fsafe (a ++ b) <-> fsafe a /\ fsafe b.
  Proof.
    unfold fsafe. split.
    - intros H. split; intros f Hf; apply H; rewrite in_app_iff; auto.
    - intros [A B] f Hf. rewrite in_app_iff in Hf. destruct Hf; auto.
  Qed.

  Lemma eval_list_ren l : Forall EvalR l -> fsafe (flat_map funsyms l) -> forall s s', R s s' ->
    eval_list F s' (map (ren r) l) = (map r (fst (eval_list F s l)), snd (eval_list F s l)).
  Proof.
    induction 1 as [|a l Ha _ IH]; intros Hf s s' HR; [reflexivity|].
    cbn [flat_map] in Hf. apply fsafe_app in Hf. destruct Hf as [Hfa Hfl].
    cbn [map eval_list]. rewrite (Ha Hfa s s' HR). destruct (eval F s a) as [rd [v|u]]; cbn [fst snd]; [|reflexivity].
    rewrite (IH Hfl s s' HR). destruct (eval_list F s l) as [r2 vs]. cbn [fst snd]. now rewrite map_app.
  Qed.

  Lemma nstep_ren o acc v : nstep (ren_nop r o) acc v = nstep o acc v.
  Proof. destruct o; reflexivity. Qed.
  Lemma ninit_ren o : ninit (ren_nop r o) = ninit o.
  Proof. destruct o; reflexivity. Qed.

  Lemma nfold_ren o l : Forall EvalR l -> fsafe (flat_map funsyms l) -> forall acc s s', R s s' ->
    nfold F (ren_nop r o) s' acc (map (ren r) l) = (map r (fst (nfold F o s acc l)), snd (nfold F o s acc l)).
  Proof.
    induction 1 as [|a l Ha _ IH]; intros Hf acc s s' HR; [reflexivity|].
    cbn [flat_map] in Hf. apply fsafe_app in Hf. destruct Hf as [Hfa Hfl].
    cbn [map nfold]. rewrite (Ha Hfa s s' HR). destruct (eval F s a) as [rd [v|u]]; cbn [fst snd]; [|reflexivity].
    rewrite nstep_ren. destruct (nstep o acc v) as [acc'|]; [|reflexivity].
    rewrite (IH Hfl acc' s s' HR). destruct (nfold F o s acc' l) as [r2 vs]. cbn [fst snd]. now rewrite map_app.
  Qed.

  Lemma andor_ren stop l : Forall EvalR l -> fsafe (flat_map funsyms l) -> forall s s', R s s' ->
    andor F stop s' (map (ren r) l) = (map r (fst (andor F stop s l)), snd (andor F stop s l)).
  Proof.
    induction 1 as [|a l Ha _ IH]; intros Hf s s' HR; [reflexivity|].
    cbn [flat_map] in Hf. apply fsafe_app in Hf. destruct Hf as [Hfa Hfl].
    cbn [map andor]. rewrite (Ha Hfa s s' HR). destruct (eval F s a) as [rd v]; cbn [fst snd].
    destruct (rbind v _) as [bb|u]; [|reflexivity].
    destruct (Bool.eqb bb stop); [reflexivity|].
    rewrite (IH Hfl s s' HR). destruct (andor F stop s l) as [r2 v2]. cbn [fst snd]. now rewrite map_app.
  Qed.

  Lemma eval_ren_all : forall e, EvalR e.
  Proof.
    induction e as [z|b| |x|a IH|c t e C T E|o a b A B|o l IH] using expr_ind'; unfold EvalR;
      intros Hf s s' HR; cbn [ren]; try reflexivity.
    - cbn [eval map fst snd]. now rewrite (HR x).
    - cbn [funsyms] in Hf. cbn [eval]. rewrite (IH Hf s s' HR). destruct (eval F s a) as [rd v]. reflexivity.
    - cbn [funsyms] in Hf. apply fsafe_app in Hf. destruct Hf as [Hc Hf]. apply fsafe_app in Hf. destruct Hf as [Ht He].
      cbn [eval]. rewrite (C Hc s s' HR). destruct (eval F s c) as [rd v]; cbn [fst snd].
      destruct (rbind v _) as [[|]|u]; [| |reflexivity].
      + rewrite (T Ht s s' HR). destruct (eval F s t). cbn [fst snd]. now rewrite map_app.
      + rewrite (E He s s' HR). destruct (eval F s e). cbn [fst snd]. now rewrite map_app.
    - cbn [funsyms] in Hf. apply fsafe_app in Hf. destruct Hf as [Ha Hb].
      cbn [eval]. rewrite (A Ha s s' HR). destruct (eval F s a) as [r1 [v1|u]]; cbn [fst snd]; [|reflexivity].
      rewrite (B Hb s s' HR). destruct (eval F s b). cbn [fst snd]. now rewrite map_app.
    - cbn [funsyms] in Hf. apply fsafe_app in Hf. destruct Hf as [Ho Hl].
      destruct o as [| | | | | |f kw]; cbn [ren_nop].
      1-4: rewrite !eval_nary by discriminate;
           match goal with |- context [nfold F ?o0 _ (ninit ?o0) (map _ _)] =>
             pose proof (nfold_ren o0 l IH Hl (ninit o0) _ _ HR) as Hn end;
           cbn [ren_nop] in Hn; rewrite Hn; reflexivity.
      + rewrite !eval_and. apply andor_ren; assumption.
      + rewrite !eval_or. apply andor_ren; assumption.
      + rewrite !eval_nary by discriminate.
        pose proof (nfold_ren (NCall f kw) l IH Hl (ninit (NCall f kw)) s s' HR) as Hn.
        cbn [ren_nop ninit] in Hn |- *. rewrite Hn. cbn [fst snd].
        rewrite (Ho f) by (now left). reflexivity.
  Qed.

  Lemma eval_ren e s s' : fsafe (funsyms e) -> R s s' ->
    eval F s' (ren r e) = (map r (fst (eval F s e)), snd (eval F s e)).
  Proof. intros Hf HR. exact (eval_ren_all e Hf s s' HR). Qed.
End Ren.

Section RenStmt.
  Variable F : string -> list val -> list (string * val) -> option (list val).
  Variable r : var -> var.
  Hypothesis r_inj : forall x y, r x = r y -> x = y.
  Notation R := (R r).
  Notation fsafe := (fsafe r).

  Definition rs_rel (a b : rs store) : Prop :=
    match a, b with
    | Ok s, Ok s' => R s s'
    | Err u, Err u' => u = u'
    | _, _ => False
    end.
  Definition out_rel (o o' : outcome) : Prop :=
    match o, o' with
    | ONext s ev, ONext s' ev' => R s s' /\ ev = ev'
    | OFail, OFail | OUserExn, OUserExn | OCrash, OCrash => True
    | OSwitch p, OSwitch q => p = q
    | ORaise k, ORaise j => k = j
    | _, _ => False
    end.
  (* the pair (accesses, result) of the renamed computation is the image of the original one *)
  Definition rel_rs (p : list access * rs store) (p' : list access * rs store) : Prop :=
    fst p' = map (amap r) (fst p) /\ rs_rel (snd p) (snd p').
  Definition rel_out (p : list access * outcome) (p' : list access * outcome) : Prop :=
    fst p' = map (amap r) (fst p) /\ out_rel (snd p) (snd p').

  Lemma rds_map l : rds (map r l) = map (amap r) (rds l).
  Proof. unfold rds. rewrite !map_map. reflexivity. Qed.

  Lemma of_rs_rel a b : rs_rel a b -> out_rel (of_rs a) (of_rs b).
  Proof. destruct a as [s|[|]], b as [s'|[|]]; cbn; intros H; try contradiction; try discriminate; auto. Qed.

  Lemma eval_list_ren' l s s' : fsafe (flat_map funsyms l) -> R s s' ->
    eval_list F s' (map (ren r) l) = (map r (fst (eval_list F s l)), snd (eval_list F s l)).
  Proof.
    intros Hf HR. apply (eval_list_ren F r); auto. apply Forall_forall. intros e _. apply eval_ren_all.
  Qed.

  Ltac fin := split; [cbn [fst]; rewrite ?map_app, ?rds_map; reflexivity|cbn; auto using R_upd].

  Lemma assign_once_ren s s' x sb rhs :
    R s s' -> fsafe (funsyms rhs) -> fsafe (match sb with Some ie => funsyms ie | None => [] end) ->
    rel_rs (assign_once F s x sb rhs) (assign_once F s' (r x) (option_map (ren r) sb) (ren r rhs)).
  Proof.
    intros HR Hf Hs. unfold assign_once, rel_rs. rewrite (eval_ren F r rhs s s' Hf HR).
    destruct (eval F s rhs) as [rd [v|u]]; cbn [fst snd]; [|fin].
    destruct sb as [ie|]; cbn [option_map]; [|fin; now apply R_upd].
    rewrite (HR x). destruct (s x) as [agg|]; [|fin].
    rewrite (eval_ren F r ie s s' Hs HR). destruct (eval F s ie) as [r2 [iv|u]]; cbn [fst snd]; [|fin].
    destruct agg; try fin. destruct iv; try fin. destruct (as_int v); try fin.
    destruct (norm_index _ _); fin.
  Qed.

  Section Iter.
    Variables inner inner' : store -> list access * rs store.
    Hypothesis Hin : forall s s', R s s' -> rel_rs (inner s) (inner' s').

    Lemma iter_range_ren ident : forall n i s s', R s s' ->
      rel_rs (iter_range n i ident inner s) (iter_range n i (r ident) inner' s').
    Proof.
      induction n as [|n IH]; intros i s s' HR; cbn [iter_range]; [split; [reflexivity|exact HR]|].
      destruct (Hin _ _ (R_upd r r_inj s s' ident (VInt i) HR)) as [E1 E2].
      destruct (inner (upd s ident (VInt i))) as [a1 r1], (inner' (upd s' (r ident) (VInt i))) as [a1' r1'].
      cbn [fst snd] in E1, E2. subst a1'.
      destruct r1 as [s1|u], r1' as [s1'|u']; cbn in E2; try contradiction.
      - destruct (IH (i + 1)%Z s1 s1' E2) as [E3 E4].
        destruct (iter_range n (i + 1) ident inner s1) as [a2 r2],
                 (iter_range n (i + 1) (r ident) inner' s1') as [a2' r2'].
        cbn [fst snd] in *. subst a2'. split; [cbn [fst snd]; now rewrite map_cons, map_app|exact E4].
      - subst u'. split; [reflexivity|reflexivity].
    Qed.
  End Iter.

  Definition ren_loops (loops : list (var * expr * expr)) : list (var * expr * expr) :=
    map (fun l => (r (fst (fst l)), ren r (snd (fst l)), ren r (snd l))) loops.
  Definition loops_funsyms (loops : list (var * expr * expr)) : list string :=
    flat_map (fun l => funsyms (snd (fst l)) ++ funsyms (snd l)) loops.

  Lemma run_loops_ren (body body' : store -> list access * rs store) :
    (forall s s', R s s' -> rel_rs (body s) (body' s')) ->
    forall loops, fsafe (loops_funsyms loops) -> forall s s', R s s' ->
    rel_rs (run_loops F loops body s) (run_loops F (ren_loops loops) body' s').
  Proof.
    intros Hb. induction loops as [|[[ident lo] hi] ls IH]; intros Hf s s' HR; cbn [ren_loops map run_loops fst snd].
    - now apply Hb.
    - cbn [loops_funsyms flat_map fst snd] in Hf. apply fsafe_app in Hf. destruct Hf as [Hf Hfl].
      apply fsafe_app in Hf. destruct Hf as [Hlo Hhi].
      rewrite (eval_ren F r lo s s' Hlo HR). destruct (eval F s lo) as [r1 [vl|u]]; cbn [fst snd]; [|fin].
      rewrite (eval_ren F r hi s s' Hhi HR). destruct (eval F s hi) as [r2 [vh|u]]; cbn [fst snd]; [|fin].
      destruct (bound_int vl) as [a|u1]; [|fin].
      destruct (bound_int vh) as [b|u2]; [|fin].
      pose proof (iter_range_ren (run_loops F ls body) (run_loops F (ren_loops ls) body')
                                 (fun s0 s0' H0 => IH Hfl s0 s0' H0) ident (Z.to_nat (b - a)) a s s' HR) as [E1 E2].
      fold (ren_loops ls).
      destruct (iter_range _ a ident _ s) as [acc res], (iter_range _ a (r ident) _ s') as [acc' res'].
      cbn [fst snd] in *. subst acc'. split; [cbn [fst snd]; now rewrite !map_app, !rds_map|exact E2].
  Qed.

  Lemma del_loopvars_ren g : forall loops s s', R s s' ->
    rel_rs (del_loopvars g loops s) (del_loopvars g (ren_loops loops) s').
  Proof.
    induction loops as [|[[ident lo] hi] ls IH]; intros s s' HR; cbn [ren_loops map del_loopvars fst snd].
    - split; [reflexivity|exact HR].
    - fold (ren_loops ls). rewrite (HR ident). destruct (s ident) as [v|].
      + destruct (IH _ _ (R_del r r_inj s s' ident HR)) as [E1 E2].
        destruct (del_loopvars g ls (del s ident)), (del_loopvars g (ren_loops ls) (del s' (r ident))).
        cbn [fst snd] in *. subst. split; [reflexivity|exact E2].
      + destruct g; [|split; reflexivity].
        destruct (IH _ _ HR) as [E1 E2].
        destruct (del_loopvars true ls s), (del_loopvars true (ren_loops ls) s').
        cbn [fst snd] in *. subst. split; [reflexivity|exact E2].
  Qed.

  Lemma assign_all_ren : forall xs vs s s', R s s' ->
    fst (assign_all s' (map r xs) vs) = map (amap r) (fst (assign_all s xs vs)) /\
    R (snd (assign_all s xs vs)) (snd (assign_all s' (map r xs) vs)).
  Proof.
    induction xs as [|x xs IH]; intros vs s s' HR; cbn [map assign_all]; [split; [reflexivity|exact HR]|].
    destruct vs as [|v vs]; [split; [reflexivity|exact HR]|].
    destruct (IH vs _ _ (R_upd r r_inj s s' x v HR)) as [E1 E2].
    destruct (assign_all (upd s x v) xs vs), (assign_all (upd s' (r x) v) (map r xs) vs).
    cbn [fst snd] in *. subst. split; [reflexivity|exact E2].
  Qed.

  Variable g : bool.

  Lemma exec_kind_loops x sb rhs loops s : loops <> [] ->
    exec_kind F g s (KAssign x sb rhs loops) =
    let (a, res) := run_loops F loops (fun s0 => assign_once F s0 x sb rhs) s in
    match res with
    | Err u => (a, of_rs (Err u))
    | Ok s1 => let (a2, r2) := del_loopvars g loops s1 in (a ++ a2, of_rs r2)
    end.
  Proof. destruct loops; [contradiction|reflexivity]. Qed.

  Lemma exec_kind_ren k s s' : fsafe (kind_funsyms k) -> R s s' ->
    rel_out (exec_kind F g s k) (exec_kind F g s' (ren_kind true r k)).
  Proof.
    intros Hf HR. unfold rel_out.
    destruct k as [x sb rhs loops|xs f args kw|comp tid time e| | | | ]; cbn [ren_kind kind_funsyms] in *;
      try (cbn; auto; fail).
    - apply fsafe_app in Hf. destruct Hf as [Hs Hf]. apply fsafe_app in Hf. destruct Hf as [Hr Hl].
      assert (Hb : forall s0 s0', R s0 s0' ->
                rel_rs (assign_once F s0 x sb rhs) (assign_once F s0' (r x) (option_map (ren r) sb) (ren r rhs))).
      { intros. now apply assign_once_ren. }
      destruct loops as [|l0 ls].
      + cbn [map exec_kind]. destruct (Hb s s' HR) as [E1 E2].
        destruct (assign_once F s x sb rhs), (assign_once F s' _ _ _). cbn [fst snd] in *.
        split; [exact E1|now apply of_rs_rel].
      + remember (l0 :: ls) as loops eqn:El. fold (ren_loops loops).
        assert (Hne : loops <> []) by (subst; discriminate).
        assert (Hne' : ren_loops loops <> []) by (subst; discriminate).
        rewrite (exec_kind_loops _ _ _ _ _ Hne), (exec_kind_loops _ _ _ _ _ Hne').
        destruct (run_loops_ren _ _ Hb loops Hl s s' HR) as [E1 E2].
        destruct (run_loops F loops _ s) as [a res], (run_loops F (ren_loops loops) _ s') as [a' res'].
        cbn [fst snd] in *. subst a'.
        destruct res as [s1|u], res' as [s1'|u']; cbn in E2; try contradiction.
        * destruct (del_loopvars_ren g loops s1 s1' E2) as [E3 E4].
          destruct (del_loopvars g loops s1), (del_loopvars g (ren_loops loops) s1'). cbn [fst snd] in *. subst.
          split; [cbn [fst snd]; now rewrite map_app|now apply of_rs_rel].
        * subst u'. split; [reflexivity|destruct u; cbn; auto].
    - assert (Ef : r f = f) by (apply Hf; now left).
      assert (Hf' : fsafe (flat_map funsyms args ++ flat_map (fun p => funsyms (snd p)) kw)).
      { intros h Hh. apply Hf. now right. }
      apply fsafe_app in Hf'. destruct Hf' as [Ha Hk].
      cbn [exec_kind]. rewrite Ef.
      rewrite (eval_list_ren' args s s' Ha HR).
      destruct (eval_list F s args) as [r1 [pos|u]]; cbn [fst snd]; [|split; [cbn [fst snd]; now rewrite rds_map|destruct u; cbn; auto]].
      assert (Ekw : map snd (map (fun p : string * expr => (fst p, ren r (snd p))) kw) = map (ren r) (map snd kw)).
      { rewrite !map_map. reflexivity. }
      assert (Ekn : map fst (map (fun p : string * expr => (fst p, ren r (snd p))) kw) = map fst kw).
      { rewrite !map_map. reflexivity. }
      rewrite Ekw, Ekn. rewrite (eval_list_ren' (map snd kw) s s').
      2:{ intros h Hh. apply Hk. rewrite flat_map_map in Hh. exact Hh. }
      2:{ exact HR. }
      destruct (eval_list F s (map snd kw)) as [r2 [kws|u]]; cbn [fst snd];
        [|split; [cbn [fst snd]; now rewrite map_app, !rds_map|destruct u; cbn; auto]].
      destruct (F f pos _) as [res|]; [|split; [cbn [fst snd]; now rewrite map_app, !rds_map|cbn; auto]].
      destruct xs as [|x0 xs0]; cbn [map].
      + split; [cbn [fst snd]; now rewrite map_app, !rds_map|cbn; auto].
      + change (r x0 :: map r xs0) with (map r (x0 :: xs0)). rewrite map_length.
        destruct (Nat.eqb _ _); [|split; [cbn [fst snd]; now rewrite map_app, !rds_map|cbn; auto]].
        destruct (assign_all_ren (x0 :: xs0) res s s' HR) as [E1 E2].
        destruct (assign_all s (x0 :: xs0) res), (assign_all s' (map r (x0 :: xs0)) res). cbn [fst snd] in *.
        subst. split; [cbn [fst snd]; now rewrite !map_app, !rds_map|cbn; auto].
    - apply fsafe_app in Hf. destruct Hf as [Ht He]. cbn [exec_kind].
      rewrite (eval_ren F r time s s' Ht HR).
      destruct (eval F s time) as [r1 [t|u]]; cbn [fst snd]; [|split; [cbn [fst snd]; now rewrite rds_map|destruct u; cbn; auto]].
      rewrite (eval_ren F r e s s' He HR).
      destruct (eval F s e) as [r2 [v|u]]; cbn [fst snd];
        [|split; [cbn [fst snd]; now rewrite map_app, !rds_map|destruct u; cbn; auto]].
      split; [cbn [fst snd]; now rewrite map_app, !rds_map|cbn; auto].
  Qed.

  Definition ren_stmt (st : stmt) : stmt :=
    {| sid := sid st; sdeps := sdeps st; scond := ren r (scond st); skd := ren_kind true r (skd st) |}.

  (* the renaming lemma *)
  Theorem exec_stmt_ren st s s' :
    fsafe (funsyms (scond st) ++ kind_funsyms (skd st)) -> R s s' ->
    rel_out (exec_stmt F g s st) (exec_stmt F g s' (ren_stmt st)).
  Proof.
    intros Hf HR. apply fsafe_app in Hf. destruct Hf as [Hc Hk].
    unfold exec_stmt, rel_out, ren_stmt. cbn [scond skd].
    rewrite (eval_ren F r (scond st) s s' Hc HR). destruct (eval F s (scond st)) as [rd v]. cbn [fst snd].
    destruct (rbind v _) as [[|]|u]; cbn [fst snd].
    - destruct (exec_kind_ren (skd st) s s' Hk HR) as [E1 E2].
      destruct (exec_kind F g s (skd st)), (exec_kind F g s' _). cbn [fst snd] in *. subst.
      split; [cbn [fst snd]; now rewrite map_app, rds_map|exact E2].
    - split; [cbn [fst snd]; now rewrite rds_map|cbn; auto].
    - split; [cbn [fst snd]; now rewrite rds_map|destruct u; cbn; auto].
  Qed.
End RenStmt.

(* ------------------------------------------------------------------ runs of renamed statement lists *)
Section RenRun.
  Variable F : string -> list val -> list (string * val) -> option (list val).
  Variable g : bool.
  Variable r : var -> var.
  Hypothesis r_inj : forall x y, r x = r y -> x = y.

  Definition st_rel (S S' : rstate) : Prop :=
    match S, S' with
    | RRun s e, RRun s' e' => R r s s' /\ e = e'
    | RStop s e w, RStop s' e' w' => R r s s' /\ e = e' /\ w = w'
    | RCrash u e, RCrash u' e' => u = u' /\ e = e'
    | _, _ => False
    end.

  Definition stmt_fsafe (st : stmt) : Prop := fsafe r (funsyms (scond st) ++ kind_funsyms (skd st)).

  Lemma step_ren st S S' : stmt_fsafe st -> st_rel S S' ->
    st_rel (step F g st S) (step F g (ren_stmt r st) S').
  Proof.
    intros Hf H. destruct S as [s e|s e w|u], S' as [s' e'|s' e' w'|u']; cbn in H; try contradiction;
      cbn [step]; try exact H.
    destruct H as [HR <-].
    destruct (exec_stmt_ren F r r_inj g st s s' Hf HR) as [_ E].
    destruct (snd (exec_stmt F g s st)) as [s1 ev| | p| k| | ],
             (snd (exec_stmt F g s' (ren_stmt r st))) as [s1' ev'| | p'| k'| | ]; cbn in E; try contradiction; cbn; auto.
    - destruct E as [E1 <-]. auto.
    - subst. auto.
    - subst. auto.
  Qed.

  Lemma run_list_ren : forall l S S', Forall stmt_fsafe l -> st_rel S S' ->
    st_rel (run_list F g l S) (run_list F g (map (ren_stmt r) l) S').
  Proof.
    induction l as [|st l IH]; intros S S' Hf H; [exact H|].
    inversion Hf as [|? ? Hst Hl]; subst. cbn [map run_list fold_left].
    apply IH; [exact Hl|]. now apply step_ren.
  Qed.
End RenRun.

(* ------------------------------------------------------------------ B. interleavings *)
Lemma merge_nil_r {A} (l : list A) : merge l [] l.
Proof. induction l; constructor; auto. Qed.
Lemma merge_nil_l {A} (l : list A) : merge [] l l.
Proof. induction l; constructor; auto. Qed.
Lemma merge_app_l {A} (a b c d : list A) : merge a b c -> merge (a ++ d) b (c ++ d).
Proof. induction 1; cbn [app]; try (constructor; assumption). apply merge_nil_r. Qed.
Lemma merge_app_r {A} (a b c d : list A) : merge a b c -> merge a (b ++ d) (c ++ d).
Proof. induction 1; cbn [app]; try (constructor; assumption). apply merge_nil_l. Qed.

Section Merge.
  Variable F : string -> list val -> list (string * val) -> option (list val).
  Variable g : bool.
  Notation run_list := (run_list F g).

  Definition evl (ev : option event) : list event := match ev with Some e => [e] | None => [] end.

  Lemma run_list_stop l s e w : run_list l (RStop s e w) = RStop s e w.
  Proof. induction l as [|st l IH]; [reflexivity|exact IH]. Qed.
  Lemma run_list_crash l u e : run_list l (RCrash u e) = RCrash u e.
  Proof. induction l as [|st l IH]; [reflexivity|exact IH]. Qed.

  Lemma run_cons_inv st l s e s' e' :
    run_list (st :: l) (RRun s e) = RRun s' e' ->
    exists acc s1 ev, exec_stmt F g s st = (acc, ONext s1 ev) /\ run_list l (RRun s1 (e ++ evl ev)) = RRun s' e'.
  Proof.
    cbn [Sched.run_list fold_left step]. destruct (exec_stmt F g s st) as [acc o]. cbn [snd].
    destruct o as [s1 ev| | p| k| | ]; intros H.
    - exists acc, s1, ev. split; [reflexivity|exact H].
    - change (run_list l (RStop s e StFail) = RRun s' e') in H. rewrite run_list_stop in H. discriminate.
    - change (run_list l (RStop s e (StSwitch p)) = RRun s' e') in H. rewrite run_list_stop in H. discriminate.
    - change (run_list l (RStop s e (StRaise k)) = RRun s' e') in H. rewrite run_list_stop in H. discriminate.
    - change (run_list l (RCrash true e) = RRun s' e') in H. rewrite run_list_crash in H. discriminate.
    - change (run_list l (RCrash false e) = RRun s' e') in H. rewrite run_list_crash in H. discriminate.
  Qed.

  (* footprints of the two lists: nothing one writes is touched by the other *)
  Variables FA WA FB WB : var -> Prop.
  Hypothesis HAB : forall x, FA x -> ~ WB x.
  Hypothesis HBA : forall x, FB x -> ~ WA x.
  Definition covers (Fp Wp : var -> Prop) (l : list stmt) : Prop :=
    forall st, In st l -> (forall x, FP st x -> Fp x) /\ (forall x, WL st x -> Wp x).

  (* one step of a statement of the list with footprint (Fp, Wp) inside the combined store *)
  Lemma step_sim (Fp Wp Wo : var -> Prop) st sX sF acc sX1 ev eF :
    (forall x, Fp x -> ~ Wo x) ->
    (forall x, FP st x -> Fp x) -> (forall x, WL st x -> Wp x) ->
    (forall x, ~ Wo x -> sF x = sX x) ->
    exec_stmt F g sX st = (acc, ONext sX1 ev) ->
    exists sF1, run_list [st] (RRun sF eF) = RRun sF1 (eF ++ evl ev) /\
                (forall x, ~ Wo x -> sF1 x = sX1 x) /\ (forall x, ~ Wp x -> sF1 x = sF x).
  Proof.
    intros Hsep Hfp Hwl Hag E.
    destruct (exec_stmt_frame F g (fun y => ~ Wo y) sX sF st) as [_ Ho].
    { intros y Hy. apply Hsep. now apply Hfp. }
    { intros y Hy. symmetry. now apply Hag. }
    rewrite E in Ho. cbn [snd] in Ho.
    destruct (exec_stmt F g sF st) as [acc' o'] eqn:E'. cbn [snd] in Ho.
    destruct o' as [sF1 ev'| | | | | ]; cbn in Ho; try contradiction. destruct Ho as [Hagree <-].
    exists sF1. repeat split.
    - cbn [Sched.run_list fold_left step]. rewrite E'. reflexivity.
    - intros x Hx. symmetry. now apply Hagree.
    - intros x Hx. eapply exec_stmt_unch; [exact E'|]. intros Hw. apply Hx. now apply Hwl.
  Qed.

  Lemma run_list_app l1 l2 S : run_list (l1 ++ l2) S = run_list l2 (run_list l1 S).
  Proof. unfold Sched.run_list. apply fold_left_app. Qed.

  Theorem merge_sim : forall la lb l, merge la lb l -> covers FA WA la -> covers FB WB lb ->
    forall sA sB sF eA eB eF sA' eA' sB' eB',
      (forall x, ~ WB x -> sF x = sA x) -> (forall x, ~ WA x -> sF x = sB x) -> merge eA eB eF ->
      run_list la (RRun sA eA) = RRun sA' eA' -> run_list lb (RRun sB eB) = RRun sB' eB' ->
      exists sF' eF', run_list l (RRun sF eF) = RRun sF' eF' /\
                      (forall x, ~ WB x -> sF' x = sA' x) /\ (forall x, ~ WA x -> sF' x = sB' x) /\
                      merge eA' eB' eF'.
  Proof.
    induction 1 as [|st la lb l M IH|st la lb l M IH]; intros CA CB sA sB sF eA eB eF sA' eA' sB' eB' I1 I2 ME RA RB.
    - cbn in RA, RB. injection RA as <- <-. injection RB as <- <-. exists sF, eF. cbn. auto.
    - destruct (run_cons_inv _ _ _ _ _ _ RA) as (acc & sA1 & ev & E & RA').
      destruct (CA st (or_introl eq_refl)) as [Hfp Hwl].
      destruct (step_sim FA WA WB st sA sF acc sA1 ev eF HAB Hfp Hwl I1 E) as (sF1 & RF & J1 & J2).
      destruct (IH (fun s H => CA s (or_intror H)) CB sA1 sB sF1 (eA ++ evl ev) eB (eF ++ evl ev) sA' eA' sB' eB')
        as (sF' & eF' & RF' & K1 & K2 & K3); auto.
      + intros x Hx. rewrite J2 by exact Hx. now apply I2.
      + now apply merge_app_l.
      + exists sF', eF'. split; [|auto].
        change (st :: l) with ([st] ++ l). rewrite run_list_app, RF. exact RF'.
    - destruct (run_cons_inv _ _ _ _ _ _ RB) as (acc & sB1 & ev & E & RB').
      destruct (CB st (or_introl eq_refl)) as [Hfp Hwl].
      destruct (step_sim FB WB WA st sB sF acc sB1 ev eF HBA Hfp Hwl I2 E) as (sF1 & RF & J1 & J2).
      destruct (IH CA (fun s H => CB s (or_intror H)) sA sB1 sF1 eA (eB ++ evl ev) (eF ++ evl ev) sA' eA' sB' eB')
        as (sF' & eF' & RF' & K1 & K2 & K3); auto.
      + intros x Hx. rewrite J2 by exact Hx. now apply I1.
      + now apply merge_app_r.
      + exists sF', eF'. split; [|auto].
        change (st :: l) with ([st] ++ l). rewrite run_list_app, RF. exact RF'.
  Qed.
End Merge.

(* ------------------------------------------------------------------ the substitution as a bijection *)
Definition tr (c n x : var) : var :=
  if String.eqb x c then n else if String.eqb x n then c else x.

Lemma tr_invol c n x : tr c n (tr c n x) = x.
Proof.
  unfold tr. destruct (String.eqb_spec x c) as [->|N1].
  - destruct (String.eqb_spec n c) as [->|N2]; [reflexivity|]. now rewrite String.eqb_refl.
  - destruct (String.eqb_spec x n) as [->|N2].
    + now rewrite String.eqb_refl.
    + destruct (String.eqb_spec x c); [contradiction|]. destruct (String.eqb_spec x n); [contradiction|reflexivity].
Qed.

Fixpoint swp (m : smap) (x : var) : var :=
  match m with
  | [] => x
  | (c, n) :: m' => tr c n (swp m' x)
  end.

Lemma swp_inj m : forall x y, swp m x = swp m y -> x = y.
Proof.
  induction m as [|[c n] m IH]; intros x y H; [exact H|]. cbn [swp] in H.
  apply IH. rewrite <- (tr_invol c n (swp m x)), H. apply tr_invol.
Qed.

Lemma sub_cons c n m x : sub ((c, n) :: m) x = if String.eqb x c then n else sub m x.
Proof. unfold sub. cbn [slookup]. destruct (String.eqb x c); reflexivity. Qed.

Lemma swp_sub : forall m, NoDup (map fst m ++ map snd m) ->
  forall x, ~ In x (map snd m) -> swp m x = sub m x.
Proof.
  induction m as [|[c n] m IH]; intros ND x Hx; [reflexivity|].
  cbn [map fst snd app] in ND. inversion ND as [|? ? Hc ND1]; subst.
  pose proof (NoDup_remove_1 _ _ _ ND1) as ND2. pose proof (NoDup_remove_2 _ _ _ ND1) as Hn.
  rewrite in_app_iff in Hc, Hn. cbn [In] in Hc.
  cbn [map snd In] in Hx.
  assert (Hxn : x <> n) by (intros ->; apply Hx; now left).
  assert (Hxs : ~ In x (map snd m)) by (intros H; apply Hx; now right).
  cbn [swp]. rewrite sub_cons, (IH ND2 x Hxs).
  destruct (String.eqb_spec x c) as [->|Nc].
  - rewrite sub_notin by tauto. unfold tr. now rewrite String.eqb_refl.
  - assert (Y : sub m x <> c /\ sub m x <> n).
    { destruct (in_dec string_dec x (map fst m)) as [I|I].
      - apply sub_in_snd in I. split; intros E; rewrite E in I; tauto.
      - rewrite (sub_notin _ _ I). tauto. }
    unfold tr. destruct (String.eqb_spec (sub m x) c); [tauto|]. destruct (String.eqb_spec (sub m x) n); [tauto|reflexivity].
Qed.

Lemma swp_store m (sg : store) :
  (forall c n, In (c, n) m -> sg c = None /\ sg n = None) -> forall x, sg (swp m x) = sg x.
Proof.
  induction m as [|[c n] m IH]; intros H x; [reflexivity|]. cbn [swp].
  destruct (H c n (or_introl eq_refl)) as [Hc Hn].
  rewrite <- (IH (fun c0 n0 H0 => H c0 n0 (or_intror H0)) x).
  unfold tr. destruct (String.eqb_spec (swp m x) c) as [->|N1]; [congruence|].
  destruct (String.eqb_spec (swp m x) n) as [->|N2]; [congruence|reflexivity].
Qed.

(* ------------------------------------------------------------------ renaming depends on the names only *)
Lemma ren_ext r1 r2 e :
  (forall x, In x (vars e ++ funsyms e) -> r1 x = r2 x) -> ren r1 e = ren r2 e.
Proof.
  induction e as [z|b| |x|a IH|c t e C T E|o a b A B|o l IH] using expr_ind'; intros H; cbn [ren]; try reflexivity.
  - rewrite H; [reflexivity|]. cbn. now left.
  - rewrite IH; [reflexivity|]. exact H.
  - cbn [vars funsyms] in H. rewrite C, T, E; [reflexivity| | |]; intros x Hx; apply H;
      rewrite !in_app_iff in *; tauto.
  - cbn [vars funsyms] in H. rewrite A, B; [reflexivity| |]; intros x Hx; apply H; rewrite !in_app_iff in *; tauto.
  - cbn [vars funsyms] in H. f_equal.
    + destruct o; try reflexivity. cbn [ren_nop]. rewrite H; [reflexivity|]. rewrite !in_app_iff. right. left. now left.
    + apply map_ext_in. intros e He. rewrite Forall_forall in IH. apply IH; [exact He|].
      intros x Hx. apply H. rewrite !in_app_iff in *. rewrite !in_flat_map. destruct Hx; [left|right; right]; eauto.
Qed.

Lemma ren_kind_ext r1 r2 k :
  (forall x, In x (kind_reads true true k ++ kind_writes k ++ loopvars k ++ kind_funsyms k) -> r1 x = r2 x) ->
  ren_kind true r1 k = ren_kind true r2 k.
Proof.
  intros H.
  destruct k as [x sb rhs loops|xs f args kw|comp tid time e| | | | ]; cbn [ren_kind]; try reflexivity;
    cbn [kind_reads kind_writes loopvars kind_funsyms] in H.
  - f_equal.
    + apply H. rewrite !in_app_iff. right. left. now left.
    + destruct sb as [ie|]; [|reflexivity]. cbn [option_map]. f_equal. apply ren_ext.
      intros y Hy. apply H. rewrite !in_app_iff in *. tauto.
    + apply ren_ext. intros y Hy. apply H. rewrite !in_app_iff in *. tauto.
    + apply map_ext_in. intros [[i lo] hi] Hl. cbn [fst snd]. f_equal; [f_equal|].
      * apply H. rewrite !in_app_iff. right. right. left. apply in_map_iff. exists (i, lo, hi). auto.
      * apply ren_ext. intros y Hy. apply H. rewrite !in_app_iff in *. rewrite !in_flat_map.
        destruct Hy as [Hy|Hy].
        -- left. right. right. exists (i, lo, hi). cbn [fst snd]. rewrite in_app_iff. auto.
        -- right. right. right. right. right. exists (i, lo, hi). cbn [fst snd]. rewrite in_app_iff. auto.
      * apply ren_ext. intros y Hy. apply H. rewrite !in_app_iff in *. rewrite !in_flat_map.
        destruct Hy as [Hy|Hy].
        -- left. right. right. exists (i, lo, hi). cbn [fst snd]. rewrite in_app_iff. auto.
        -- right. right. right. right. right. exists (i, lo, hi). cbn [fst snd]. rewrite in_app_iff. auto.
  - f_equal.
    + apply map_ext_in. intros y Hy. apply H. rewrite !in_app_iff. right. left. exact Hy.
    + apply H. rewrite !in_app_iff. right. right. right. now left.
    + apply map_ext_in. intros e He. apply ren_ext. intros y Hy. apply H. rewrite !in_app_iff in *.
      cbn [In]. rewrite !in_app_iff, !in_flat_map. destruct Hy; [left; left|right; right; right; right; left]; eauto.
    + apply map_ext_in. intros [n e] He. cbn [fst snd]. f_equal. apply ren_ext. intros y Hy. apply H.
      rewrite !in_app_iff in *. cbn [In]. rewrite !in_app_iff, !in_flat_map.
      destruct Hy; [left; right|right; right; right; right; right]; exists (n, e); auto.
  - f_equal; apply ren_ext; intros y Hy; apply H; rewrite !in_app_iff in *; tauto.
Qed.

(* footprint of a renamed statement *)
Lemma FP_ren r st x : FP (ren_stmt r st) x -> exists y, FP st y /\ x = r y.
Proof.
  unfold FP, ren_stmt, reads, writes. cbn [skd scond].
  rewrite kind_reads_ren, vars_ren, kind_writes_ren, loopvars_ren, <- !map_app.
  intros H. apply in_map_iff in H. destruct H as (y & <- & Hy). eauto.
Qed.
Lemma WL_ren r st x : WL (ren_stmt r st) x -> exists y, WL st y /\ x = r y.
Proof.
  unfold WL, ren_stmt, writes. cbn [skd].
  rewrite kind_writes_ren, loopvars_ren, <- !map_app.
  intros H. apply in_map_iff in H. destruct H as (y & <- & Hy). eauto.
Qed.

(* ------------------------------------------------------------------ C. run equivalence, repaired shape *)
(* every loop variable of a statement is used by the statement (body, subscript or bounds) *)
Definition loops_used (l : list fstmt) : Prop :=
  forall st, In st l -> incl (loopvars (fkd st)) (freads true true st ++ fwrites st).
(* x is written (assigned, or used as a loop variable) by a statement of l *)
Definition wl (l : list fstmt) (x : var) : Prop := exists st, In st l /\ WL (lower st) x.

Lemma in_idents l st x : In st l -> In x (freads true true st ++ fwrites st) -> In x (idents true true l).
Proof. intros Hs Hx. unfold idents. apply in_flat_map. eauto. Qed.

Lemma FP_idents l st x : loops_used l -> In st l -> FP (lower st) x -> In x (idents true true l).
Proof.
  intros Lu Hs H. unfold FP in H. rewrite app_assoc, in_app_iff in H. destruct H as [H|H].
  - eapply in_idents; [exact Hs|exact H].
  - eapply in_idents; [exact Hs|]. apply (Lu st Hs). exact H.
Qed.
Lemma WL_idents l st x : loops_used l -> In st l -> WL (lower st) x -> In x (idents true true l).
Proof.
  intros Lu Hs H. eapply FP_idents; eauto. unfold FP, WL in *. rewrite !in_app_iff in *. tauto.
Qed.

Section RunEquiv.
  Variable F : string -> list val -> list (string * val) -> option (list val).
  Variable g : bool.
  Variable pred : var -> bool.
  Variables (clash : list var) (a b : list fstmt) (m : smap).
  Hypothesis Hm : subst_of true true pred clash a b = Some m.
  Hypothesis Hc : clash_enum (idents true true a) (idents true true b) clash.
  Hypothesis La : loops_used a.
  Hypothesis Lb : loops_used b.
  (* no function symbol of the second method is renamed or equal to a generated name *)
  Hypothesis Hfun : forall st f, In st b -> In f (stmt_funsyms st) -> ~ In f (map fst m) /\ ~ In f (map snd m).
  (* a name both methods use and that is kept is written by neither *)
  Hypothesis Hnsw : forall x, In x (idents true true a) -> In x (idents true true b) -> pred x = false ->
                              ~ wl a x /\ ~ wl b x.
  Variable sg : store.
  (* the step starts from a store that holds no renamed name and no generated name *)
  Hypothesis Hsg : forall c n, In (c, n) m -> sg c = None /\ sg n = None.

  Notation ida := (idents true true a).
  Notation idb := (idents true true b).
  Notation fused st := (lower (rename_stmt true true (sub m) st)).

  Lemma m_nodup : NoDup (map fst m ++ map snd m).
  Proof.
    apply nodup_app.
    - exact (subst_fst_nodup _ _ _ _ _ _ _ Hm Hc).
    - exact (subst_snd_nodup _ _ _ _ _ _ _ Hm).
    - intros x Hf Hs. apply (subst_dom _ _ _ _ _ _ _ Hm Hc) in Hf. apply (subst_fresh _ _ _ _ _ _ _ Hm) in Hs. tauto.
  Qed.

  Lemma idb_not_fresh x : In x idb -> ~ In x (map snd m).
  Proof. intros Hx Hs. apply (subst_fresh _ _ _ _ _ _ _ Hm) in Hs. tauto. Qed.

  Lemma swp_idb x : In x idb -> swp m x = sub m x.
  Proof. intros Hx. apply swp_sub; [exact m_nodup|now apply idb_not_fresh]. Qed.

  Lemma swp_fun st f : In st b -> In f (stmt_funsyms st) -> swp m f = f.
  Proof.
    intros Hs Hf. destruct (Hfun st f Hs Hf) as [H1 H2].
    rewrite swp_sub; [now apply sub_notin|exact m_nodup|exact H2].
  Qed.

  Lemma fused_swp st : In st b -> fused st = ren_stmt (swp m) (lower st).
  Proof.
    intros Hs. unfold rename_stmt, lower, ren_stmt. cbn [fcond fkd sid sdeps scond skd]. f_equal.
    - apply ren_ext. intros x Hx. rewrite in_app_iff in Hx. destruct Hx as [Hx|Hx].
      + symmetry. apply swp_idb. eapply in_idents; [exact Hs|]. unfold freads, reads, lower. cbn [scond skd].
        rewrite !in_app_iff. auto.
      + rewrite (swp_fun st x Hs) by (unfold stmt_funsyms; rewrite in_app_iff; auto).
        apply sub_notin. apply (Hfun st x Hs). unfold stmt_funsyms. rewrite in_app_iff. auto.
    - apply ren_kind_ext. intros x Hx. rewrite !in_app_iff in Hx.
      destruct Hx as [Hx|[Hx|[Hx|Hx]]].
      + symmetry. apply swp_idb. eapply in_idents; [exact Hs|]. unfold freads, reads, lower. cbn [scond skd].
        rewrite !in_app_iff. auto.
      + symmetry. apply swp_idb. eapply in_idents; [exact Hs|]. unfold fwrites, writes, lower. cbn [skd].
        rewrite !in_app_iff. auto.
      + symmetry. apply swp_idb. eapply in_idents; [exact Hs|]. apply (Lb st Hs). exact Hx.
      + rewrite (swp_fun st x Hs) by (unfold stmt_funsyms; rewrite in_app_iff; auto).
        apply sub_notin. apply (Hfun st x Hs). unfold stmt_funsyms. rewrite in_app_iff. auto.
  Qed.

  (* the two footprints *)
  Definition FB (x : var) : Prop := exists y, In y idb /\ x = sub m y.
  Definition WB (x : var) : Prop := exists y, wl b y /\ x = sub m y.

  Lemma wl_idents l x : loops_used l -> wl l x -> In x (idents true true l).
  Proof. intros Lu (st & Hs & H). eapply WL_idents; eauto. Qed.

  (* a name of the first method that is also the image of a name y of the second one: y is kept and shared *)
  Lemma shared_kept x y : In x ida -> In y idb -> x = sub m y -> x = y /\ pred y = false.
  Proof.
    intros Hx Hy E. destruct (string_dec (sub m y) y) as [E'|N].
    - rewrite E' in E. subst x. split; [reflexivity|].
      destruct (pred y) eqn:P; [|reflexivity]. exfalso.
      assert (Rn : sub m y <> y) by (apply (sub_renamed _ _ _ _ _ _ _ Hm Hc); tauto). now apply Rn.
    - exfalso. destruct (sub_fresh _ _ _ _ _ _ _ Hm Hc y N) as [Fa _]. apply Fa. now rewrite <- E.
  Qed.

  Lemma HAB x : In x ida -> ~ WB x.
  Proof.
    intros Hx (y & Hw & E). pose proof (wl_idents b y Lb Hw) as Hy.
    destruct (shared_kept x y Hx Hy E) as [-> P]. destruct (Hnsw y Hx Hy P) as [_ Nb]. now apply Nb.
  Qed.
  Lemma HBA x : FB x -> ~ wl a x.
  Proof.
    intros (y & Hy & E) Hw. pose proof (wl_idents a x La Hw) as Hx.
    destruct (shared_kept x y Hx Hy E) as [-> P]. destruct (Hnsw y Hx Hy P) as [Na _]. now apply Na.
  Qed.

  Theorem run_equiv :
    forall (la lb : list fstmt) (L : list stmt) sA eA sB eB,
      incl la a -> incl lb b ->
      merge (map lower la) (map (fun st => fused st) lb) L ->
      run_list F g (map lower la) (RRun sg []) = RRun sA eA ->
      run_list F g (map lower lb) (RRun sg []) = RRun sB eB ->
      exists sF eF,
        run_list F g L (RRun sg []) = RRun sF eF /\
        (forall x, In x ida -> sF x = sA x) /\
        (forall x, In x idb -> sF (sub m x) = sB x) /\
        merge eA eB eF.
  Proof.
    intros la lb L sA eA sB eB Ia Ib M RA RB.
    assert (Efused : map (fun st => fused st) lb = map (ren_stmt (swp m)) (map lower lb)).
    { rewrite map_map. apply map_ext_in. intros st Hs. apply fused_swp. now apply Ib. }
    rewrite Efused in M.
    (* the second method alone, renamed *)
    assert (Rsg : R (swp m) sg sg) by (intros x; now apply swp_store).
    assert (Hsafe : Forall (stmt_fsafe (swp m)) (map lower lb)).
    { apply Forall_forall. intros st0 H0. apply in_map_iff in H0. destruct H0 as (st & <- & Hs).
      intros f Hf. apply (swp_fun st f (Ib st Hs)). exact Hf. }
    pose proof (run_list_ren F g (swp m) (swp_inj m) (map lower lb) (RRun sg []) (RRun sg []) Hsafe (conj Rsg eq_refl)) as Hr.
    rewrite RB in Hr. destruct (run_list F g (map (ren_stmt (swp m)) (map lower lb)) (RRun sg [])) as [sB' eB'| |] eqn:RB';
      cbn in Hr; try contradiction. destruct Hr as [HR <-].
    (* interleaving *)
    destruct (merge_sim F g (fun x => In x ida) (wl a) FB WB HAB HBA _ _ _ M) with
      (sA := sg) (sB := sg) (sF := sg) (eA := @nil event) (eB := @nil event) (eF := @nil event)
      (sA' := sA) (eA' := eA) (sB' := sB') (eB' := eB) as (sF & eF & RF & K1 & K2 & K3); auto.
    - intros st0 H0. apply in_map_iff in H0. destruct H0 as (st & <- & Hs). split.
      + intros x Hx. eapply FP_idents; [exact La|exact (Ia st Hs)|exact Hx].
      + intros x Hx. exists st. split; [exact (Ia st Hs)|exact Hx].
    - intros st0 H0. apply in_map_iff in H0. destruct H0 as (st1 & <- & H1).
      apply in_map_iff in H1. destruct H1 as (st & <- & Hs). split.
      + intros x Hx. apply FP_ren in Hx. destruct Hx as (y & Hy & ->).
        pose proof (FP_idents b st y Lb (Ib st Hs) Hy) as Hyb. exists y. split; [exact Hyb|now apply swp_idb].
      + intros x Hx. apply WL_ren in Hx. destruct Hx as (y & Hy & ->).
        assert (Hw : wl b y) by (exists st; split; [exact (Ib st Hs)|exact Hy]).
        exists y. split; [exact Hw|]. apply swp_idb. now apply (wl_idents b y Lb).
    - constructor.
    - exists sF, eF. repeat split; auto.
      + intros x Hx. apply K1. now apply HAB.
      + intros x Hx. rewrite K2.
        * rewrite <- (swp_idb x Hx). apply HR.
        * apply HBA. exists x. auto.
  Qed.

  (* in particular the persistent variables (those the predicate keeps) of the second method *)
  Corollary run_equiv_kept :
    forall (la lb : list fstmt) (L : list stmt) sA eA sB eB,
      incl la a -> incl lb b ->
      merge (map lower la) (map (fun st => fused st) lb) L ->
      run_list F g (map lower la) (RRun sg []) = RRun sA eA ->
      run_list F g (map lower lb) (RRun sg []) = RRun sB eB ->
      exists sF eF,
        run_list F g L (RRun sg []) = RRun sF eF /\
        (forall x, In x ida -> sF x = sA x) /\
        (forall x, In x idb -> pred x = false -> sF x = sB x) /\
        merge eA eB eF.
  Proof.
    intros la lb L sA eA sB eB Ia Ib M RA RB.
    destruct (run_equiv la lb L sA eA sB eB Ia Ib M RA RB) as (sF & eF & RF & K1 & K2 & K3).
    exists sF, eF. repeat split; auto. intros x Hx P.
    rewrite <- (sub_kept _ _ _ _ _ _ _ Hm Hc x P) at 1. now apply K2.
  Qed.
End RunEquiv.

(* ------------------------------------------------------------------ schedules of the fused phase *)
Lemma merge_app {A} (l1 l2 : list A) : merge l1 l2 (l1 ++ l2).
Proof. induction l1 as [|x l1 IH]; cbn [app]; [apply merge_nil_l|constructor; exact IH]. Qed.
Lemma merge_map {A B} (f : A -> B) a b c : merge a b c -> merge (map f a) (map f b) (map f c).
Proof. induction 1; cbn [map]; constructor; assumption. Qed.
Lemma filter_merge {A} (p : A -> bool) l : merge (filter p l) (filter (fun x => negb (p x)) l) l.
Proof.
  induction l as [|x l IH]; cbn [filter]; [constructor|].
  destruct (p x); cbn [negb]; constructor; exact IH.
Qed.

Lemma Forall2_in_r {A B} (P : A -> B -> Prop) l l' y :
  Forall2 P l l' -> In y l' -> exists x, In x l /\ P x y.
Proof.
  induction 1 as [|x0 y0 l l' H0 _ IH]; intros Hy; [destruct Hy|].
  destruct Hy as [<-|Hy]; [exists x0; split; [now left|exact H0]|].
  destruct (IH Hy) as (x & Hx & Hp). exists x. split; [now right|exact Hp].
Qed.

(* the fused phase, repaired shape: first method, then the renamed second method *)
Lemma fuse_stmts_lower pred clash a b l :
  fuse_stmts true true true true pred clash a b = FOk l ->
  exists m b', subst_of true true pred clash a b = Some m /\ l = a ++ b' /\
               Forall2 (fun st st' => lower st' = lower (rename_stmt true true (sub m) st)) b b' /\
               (forall x, In x (map fid b') -> ~ In x (map fid a)).
Proof.
  intros H. destruct (fuse_stmts_spec _ _ _ _ _ _ _ _ _ H) as (m & idm & b' & Hm & -> & F2 & _ & _ & _ & D).
  exists m, b'. repeat split; auto. clear -F2.
  induction F2 as [|st st' b b' (_ & _ & _ & Hc & Hk) _ IH]; constructor; [|exact IH].
  unfold lower. now rewrite Hc, Hk.
Qed.

(* any list of statements of the fused phase (a schedule) is an interleaving of a schedule of the
   first method and of (the renamed statements of) a schedule of the second method *)
Lemma sched_split (m : smap) a b b' Lf :
  Forall2 (fun st st' => lower st' = lower (rename_stmt true true (sub m) st)) b b' ->
  (forall x, In x (map fid b') -> ~ In x (map fid a)) ->
  incl Lf (a ++ b') ->
  exists la lb, incl la a /\ incl lb b /\
                la = filter (fun st => mem (fid st) (map fid a)) Lf /\
                merge (map lower la) (map (fun st => lower (rename_stmt true true (sub m) st)) lb) (map lower Lf).
Proof.
  intros F2 D I. set (p := fun st => mem (fid st) (map fid a)).
  assert (Ia : incl (filter p Lf) a).
  { intros st Hs. apply filter_In in Hs. destruct Hs as [Hl Hp]. unfold p in Hp. apply mem_In in Hp.
    specialize (I st Hl). rewrite in_app_iff in I. destruct I as [I|I]; [exact I|].
    exfalso. apply (D (fid st)); [now apply in_map|exact Hp]. }
  assert (Ib : incl (filter (fun x => negb (p x)) Lf) b').
  { intros st Hs. apply filter_In in Hs. destruct Hs as [Hl Hp]. unfold p in Hp.
    destruct (mem (fid st) (map fid a)) eqn:E; [discriminate|]. apply mem_false in E.
    specialize (I st Hl). rewrite in_app_iff in I. destruct I as [I|I]; [|exact I].
    exfalso. apply E. now apply in_map. }
  assert (Hsrc : exists lb, incl lb b /\
            map (fun st => lower (rename_stmt true true (sub m) st)) lb = map lower (filter (fun x => negb (p x)) Lf)).
  { revert Ib. generalize (filter (fun x => negb (p x)) Lf) as lb'.
    induction lb' as [|st' lb' IH]; intros Ib; [exists []; split; [intros x []|reflexivity]|].
    destruct IH as (lb & Il & E); [intros x Hx; apply Ib; now right|].
    destruct (Forall2_in_r _ _ _ st' F2 (Ib st' (or_introl eq_refl))) as (st & Hs & Hp).
    exists (st :: lb). split; [intros x [<-|Hx]; auto|]. cbn [map]. now rewrite E, Hp. }
  destruct Hsrc as (lb & Il & E).
  exists (filter p Lf), lb. repeat split; auto. rewrite E. apply merge_map. apply filter_merge.
Qed.

(* ------------------------------------------------------------------ the property statements, by shape *)
(* the predicate the property demands: the caller's, by default persistent names are kept *)
Definition want (is_state : var -> bool) (p : option (var -> bool)) : var -> bool :=
  match p with Some f => f | None => fun x => negb (is_state x) end.

(* persistent variables, time and step size are not renamed; a name is renamed iff both methods
   use it and the (effective) predicate asks *)
Definition stmt_policy (is_state : var -> bool) (pr : bool) : Prop :=
  forall p clash a b m,
    clash_enum (idents true true a) (idents true true b) clash ->
    subst_of true true (eff_pred is_state pr p) clash a b = Some m ->
    forall x, sub m x <> x <-> (In x (idents true true a) /\ In x (idents true true b)) /\ want is_state p x = true.

(* names the two parts of the fused phase share are names the predicate keeps *)
Definition stmt_disjoint (is_state : var -> bool) (pr gd : bool) : Prop :=
  forall p lv clash a b l,
    clash_enum (idents true true a) (idents true true b) clash ->
    fuse_stmts true true gd lv (eff_pred is_state pr p) clash a b = FOk l ->
    exists b', l = a ++ b' /\
      forall y, In y (idents true true a) -> In y (idents true true b') ->
                In y (idents true true b) /\ want is_state p y = false.

(* the hypotheses of run equivalence *)
Record run_hyps (is_state : var -> bool) (p : option (var -> bool)) (a b : list fstmt) (m : smap) (sg : store)
  : Prop := {
  h_loops_a : loops_used a;
  h_loops_b : loops_used b;
  (* function symbols of the second method are neither variable names nor generated names *)
  h_fun : forall st f, In st b -> In f (stmt_funsyms st) ->
                       ~ In f (idents true true a ++ idents true true b) /\ ~ In f (map snd m);
  (* neither method writes a kept name the other one uses *)
  h_nsw : forall x, In x (idents true true a) -> In x (idents true true b) -> want is_state p x = false ->
                    ~ wl a x /\ ~ wl b x;
  (* the step starts from a store holding only kept names, and none of the generated names *)
  h_store : forall x, want is_state p x = true -> sg x = None;
  h_store_new : forall c n, In (c, n) m -> sg n = None }.

(* executing the fused phase (in program order) gives each method the results of running it alone *)
Definition stmt_run_equiv (is_state : var -> bool) (pr gd lv : bool) : Prop :=
  forall F g p clash a b l m sg sA eA sB eB,
    clash_enum (idents true true a) (idents true true b) clash ->
    fuse_stmts true true gd lv (eff_pred is_state pr p) clash a b = FOk l ->
    subst_of true true (eff_pred is_state pr p) clash a b = Some m ->
    run_hyps is_state p a b m sg ->
    run_list F g (map lower a) (RRun sg []) = RRun sA eA ->
    run_list F g (map lower b) (RRun sg []) = RRun sB eB ->
    exists sF eF,
      run_list F g (map lower l) (RRun sg []) = RRun sF eF /\
      (forall x, In x (idents true true a) -> sF x = sA x) /\
      (forall x, In x (idents true true b) -> want is_state p x = false -> sF x = sB x) /\
      merge eA eB eF.

Lemma eff_pred_true is_state p : eff_pred is_state true p = want is_state p.
Proof. destruct p; reflexivity. Qed.

Theorem policy_holds is_state : stmt_policy is_state true.
Proof.
  intros p clash a b m Hc Hm x. rewrite eff_pred_true in Hm.
  exact (sub_renamed _ _ _ _ _ _ _ Hm Hc x).
Qed.

Theorem disjoint_holds is_state : stmt_disjoint is_state true true.
Proof.
  intros p lv clash a b l Hc H. rewrite eff_pred_true in H.
  exact (temporaries_disjoint _ _ _ _ _ _ _ _ H Hc).
Qed.

(* all interleavings of all schedules, repaired shape *)
Theorem run_equiv_all is_state :
  forall F g p clash a b l m sg,
    clash_enum (idents true true a) (idents true true b) clash ->
    fuse_stmts true true true true (eff_pred is_state true p) clash a b = FOk l ->
    subst_of true true (eff_pred is_state true p) clash a b = Some m ->
    run_hyps is_state p a b m sg ->
    forall Lf, incl Lf l ->
    exists la lb,
      incl la a /\ incl lb b /\ la = filter (fun st => mem (fid st) (map fid a)) Lf /\
      forall sA eA sB eB,
        run_list F g (map lower la) (RRun sg []) = RRun sA eA ->
        run_list F g (map lower lb) (RRun sg []) = RRun sB eB ->
        exists sF eF,
          run_list F g (map lower Lf) (RRun sg []) = RRun sF eF /\
          (forall x, In x (idents true true a) -> sF x = sA x) /\
          (forall x, In x (idents true true b) -> sF (sub m x) = sB x) /\
          (forall x, In x (idents true true b) -> want is_state p x = false -> sF x = sB x) /\
          merge eA eB eF.
Proof.
  intros F g p clash a b l m sg Hc H Hm Hy Lf IL. rewrite eff_pred_true in H, Hm.
  destruct (fuse_stmts_lower _ _ _ _ _ H) as (m' & b' & Hm' & -> & F2 & D).
  rewrite Hm in Hm'. injection Hm' as <-.
  destruct (sched_split m a b b' Lf F2 D IL) as (la & lb & Ia & Ib & Ela & M).
  exists la, lb. repeat split; auto. intros sA eA sB eB RA RB.
  destruct Hy as [La Lb Hf Hn Hs Hsn].
  assert (Hfun : forall st f, In st b -> In f (stmt_funsyms st) -> ~ In f (map fst m) /\ ~ In f (map snd m)).
  { intros st f Hst Hf0. destruct (Hf st f Hst Hf0) as [H1 H2]. split; [|exact H2].
    intros Hin. apply (subst_dom _ _ _ _ _ _ _ Hm Hc) in Hin. apply H1. rewrite in_app_iff. tauto. }
  assert (Hsg : forall c n, In (c, n) m -> sg c = None /\ sg n = None).
  { intros c n Hin. split; [|eapply Hsn; exact Hin]. apply Hs.
    assert (Hd : In c (map fst m)) by (apply in_map_iff; exists (c, n); auto).
    apply (subst_dom _ _ _ _ _ _ _ Hm Hc) in Hd. tauto. }
  destruct (run_equiv F g _ clash a b m Hm Hc La Lb Hfun Hn sg Hsg la lb (map lower Lf) sA eA sB eB Ia Ib M RA RB)
    as (sF & eF & RF & K1 & K2 & K3).
  exists sF, eF. repeat split; auto. intros x Hx P.
  rewrite <- (sub_kept _ _ _ _ _ _ _ Hm Hc x P) at 1. now apply K2.
Qed.

Theorem run_equiv_holds is_state : stmt_run_equiv is_state true true true.
Proof.
  intros F g p clash a b l m sg sA eA sB eB Hc H Hm Hy RA RB.
  rewrite eff_pred_true in H, Hm.
  destruct (fuse_stmts_lower _ _ _ _ _ H) as (m' & b' & Hm' & El & F2 & D).
  rewrite Hm in Hm'. injection Hm' as <-.
  destruct Hy as [La Lb Hf Hn Hs Hsn].
  assert (Hfun : forall st f, In st b -> In f (stmt_funsyms st) -> ~ In f (map fst m) /\ ~ In f (map snd m)).
  { intros st f Hst Hf0. destruct (Hf st f Hst Hf0) as [H1 H2]. split; [|exact H2].
    intros Hin. apply (subst_dom _ _ _ _ _ _ _ Hm Hc) in Hin. apply H1. rewrite in_app_iff. tauto. }
  assert (Hsg : forall c n, In (c, n) m -> sg c = None /\ sg n = None).
  { intros c n Hin. split; [|eapply Hsn; exact Hin]. apply Hs.
    assert (Hd : In c (map fst m)) by (apply in_map_iff; exists (c, n); auto).
    apply (subst_dom _ _ _ _ _ _ _ Hm Hc) in Hd. tauto. }
  (* in program order the two schedules are the two methods themselves *)
  assert (M : merge (map lower a) (map (fun st => lower (rename_stmt true true (sub m) st)) b) (map lower l)).
  { subst l. rewrite map_app.
    assert (E : map lower b' = map (fun st => lower (rename_stmt true true (sub m) st)) b).
    { clear -F2. induction F2 as [|st st' b b' Hp _ IH]; [reflexivity|]. cbn [map]. now rewrite Hp, IH. }
    rewrite E. apply merge_app. }
  destruct (run_equiv F g _ clash a b m Hm Hc La Lb Hfun Hn sg Hsg a b (map lower l) sA eA sB eB
                      (incl_refl _) (incl_refl _) M RA RB) as (sF & eF & RF & K1 & K2 & K3).
  exists sF, eF. repeat split; auto. intros x Hx P.
  rewrite <- (sub_kept _ _ _ _ _ _ _ Hm Hc x P) at 1. now apply K2.
Qed.
