(* Proofs about model/Fuse.v, semantic part (C16):
   A. the renaming lemma: executing a statement commutes with an injective renaming of the variables
      (stores related by s' (r x) = s x), for expressions, assignments, loops, calls, yields;
   B. interleaving: if two statement lists touch disjoint variables (nothing one of them writes is in
      the footprint of the other), every interleaving runs each of them as if it were alone;
   C. run equivalence of the fused phase (repaired shape) and the refutations for the shape of the
      unchanged tree. *)
From Coq Require Import List ZArith String Bool Arith Lia.
Import ListNotations.
From Dagrt Require Import Lang Sched LangProofs Fuse FuseProofs.
Local Open Scope list_scope.

(* ------------------------------------------------------------------ the inner loops of eval, named *)
Section Loops.
  Variable F : string -> list val -> list (string * val) -> option (list val).

  Fixpoint andor (stop : bool) (s : store) (l : list expr) : list var * rs val :=
    match l with
    | [] => ([], Ok (VBool (negb stop)))
    | a :: l' =>
        let (rd, v) := eval F s a in
        match rbind v (fun v => lift (truth v)) with
        | Err u => (rd, Err u)
        | Ok b => if Bool.eqb b stop then (rd, Ok (VBool stop))
                  else let (r2, v2) := andor stop s l' in (rd ++ r2, v2)
        end
    end.

  Lemma eval_and s l : eval F s (ENary NAnd l) = andor false s l.
  Proof.
    cbn [eval]. induction l as [|a l IH]; [reflexivity|]. cbn [andor].
    destruct (eval F s a) as [rd v]. destruct (rbind v _) as [[|]|u]; cbn [Bool.eqb]; try reflexivity.
    rewrite IH. reflexivity.
  Qed.
  Lemma eval_or s l : eval F s (ENary NOr l) = andor true s l.
  Proof.
    cbn [eval]. induction l as [|a l IH]; [reflexivity|]. cbn [andor].
    destruct (eval F s a) as [rd v]. destruct (rbind v _) as [[|]|u]; cbn [Bool.eqb]; try reflexivity.
    rewrite IH. reflexivity.
  Qed.
  Lemma eval_nary s o l : o <> NAnd -> o <> NOr ->
    eval F s (ENary o l) = (fst (eval_list F s l), rbind (snd (eval_list F s l)) (nary F o)).
  Proof.
    intros NA NO.
    assert (E : (fix go (l : list expr) : list var * rs (list val) :=
                   match l with
                   | [] => ([], Ok [])
                   | a :: l' =>
                       let (r, v) := eval F s a in
                       match v with
                       | Err u => (r, Err u)
                       | Ok x => let (r2, vs) := go l' in (r ++ r2, rmap (cons x) vs)
                       end
                   end) l = eval_list F s l).
    { induction l as [|a l IH]; [reflexivity|]. cbn [eval_list]. rewrite IH. reflexivity. }
    destruct o; try contradiction; cbn [eval]; rewrite E; destruct (eval_list F s l); reflexivity.
  Qed.
End Loops.

(* ------------------------------------------------------------------ A. renaming *)
Definition amap (r : var -> var) (a : access) : access :=
  match a with Rd x => Rd (r x) | Wr x => Wr (r x) | Dl x => Dl (r x) end.

Section Ren.
  Variable F : string -> list val -> list (string * val) -> option (list val).
  Variable r : var -> var.
  Hypothesis r_inj : forall x y, r x = r y -> x = y.

  Definition R (s s' : store) : Prop := forall x, s' (r x) = s x.

  Lemma R_upd s s' x v : R s s' -> R (upd s x v) (upd s' (r x) v).
  Proof.
    intros H y. unfold upd. destruct (String.eqb_spec y x) as [->|N].
    - now rewrite String.eqb_refl.
    - destruct (String.eqb_spec (r y) (r x)) as [E|_]; [apply r_inj in E; contradiction|apply H].
  Qed.
  Lemma R_del s s' x : R s s' -> R (del s x) (del s' (r x)).
  Proof.
    intros H y. unfold del. destruct (String.eqb_spec y x) as [->|N].
    - now rewrite String.eqb_refl.
    - destruct (String.eqb_spec (r y) (r x)) as [E|_]; [apply r_inj in E; contradiction|apply H].
  Qed.

  (* no function symbol is renamed *)
  Definition fsafe (fs : list string) : Prop := forall f, In f fs -> r f = f.

  Definition EvalR (e : expr) : Prop :=
    fsafe (funsyms e) -> forall s s', R s s' ->
    eval F s' (ren r e) = (map r (fst (eval F s e)), snd (eval F s e)).

  Lemma fsafe_app a b : fsafe (a ++ b) <-> fsafe a /\ fsafe b.
  Proof.
    unfold fsafe. split.
    - intros H. split; intros f Hf; apply H; rewrite in_app_iff; auto.
    - intros [A B] f Hf. rewrite in_app_iff in Hf. destruct Hf; auto.
  Qed.

  Lemma eval_list_ren l : Forall EvalR l -> fsafe (flat_map funsyms l) -> forall s s', R s s' ->
    eval_list F s' (map (ren r) l) = (map r (fst (eval_list F s l)), snd (eval_list F s l)).
  Proof.
    induction 1 as [|a l Ha _ IH]; intros Hf s s' HR; [reflexivity|].
    cbn [flat_map] in Hf. apply fsafe_app in Hf. destruct Hf as [Hfa Hfl].
    cbn [map eval_list]. rewrite (Ha Hfa s s' HR). destruct (eval F s a) as [rd [v|u]]; cbn [fst snd]; [|reflexivity].
    rewrite (IH Hfl s s' HR). destruct (eval_list F s l) as [r2 vs]. cbn [fst snd]. now rewrite map_app.
  Qed.

  Lemma andor_ren stop l : Forall EvalR l -> fsafe (flat_map funsyms l) -> forall s s', R s s' ->
    andor F stop s' (map (ren r) l) = (map r (fst (andor F stop s l)), snd (andor F stop s l)).
  Proof.
    induction 1 as [|a l Ha _ IH]; intros Hf s s' HR; [reflexivity|].
    cbn [flat_map] in Hf. apply fsafe_app in Hf. destruct Hf as [Hfa Hfl].
    cbn [map andor]. rewrite (Ha Hfa s s' HR). destruct (eval F s a) as [rd v]; cbn [fst snd].
    destruct (rbind v _) as [bb|u]; [|reflexivity].
    destruct (Bool.eqb bb stop); [reflexivity|].
    rewrite (IH Hfl s s' HR). destruct (andor F stop s l) as [r2 v2]. cbn [fst snd]. now rewrite map_app.
  Qed.

  Lemma eval_ren_all : forall e, EvalR e.
  Proof.
    induction e as [z|b| |x|a IH|c t e C T E|o a b A B|o l IH] using expr_ind'; unfold EvalR;
      intros Hf s s' HR; cbn [ren]; try reflexivity.
    - cbn [eval map fst snd]. now rewrite (HR x).
    - cbn [funsyms] in Hf. cbn [eval]. rewrite (IH Hf s s' HR). destruct (eval F s a) as [rd v]. reflexivity.
    - cbn [funsyms] in Hf. apply fsafe_app in Hf. destruct Hf as [Hc Hf]. apply fsafe_app in Hf. destruct Hf as [Ht He].
      cbn [eval]. rewrite (C Hc s s' HR). destruct (eval F s c) as [rd v]; cbn [fst snd].
      destruct (rbind v _) as [[|]|u]; [| |reflexivity].
      + rewrite (T Ht s s' HR). destruct (eval F s t). cbn [fst snd]. now rewrite map_app.
      + rewrite (E He s s' HR). destruct (eval F s e). cbn [fst snd]. now rewrite map_app.
    - cbn [funsyms] in Hf. apply fsafe_app in Hf. destruct Hf as [Ha Hb].
      cbn [eval]. rewrite (A Ha s s' HR). destruct (eval F s a) as [r1 [v1|u]]; cbn [fst snd]; [|reflexivity].
      rewrite (B Hb s s' HR). destruct (eval F s b). cbn [fst snd]. now rewrite map_app.
    - cbn [funsyms] in Hf. apply fsafe_app in Hf. destruct Hf as [Ho Hl].
      destruct o as [| | | | | |f kw]; cbn [ren_nop].
      1-4: rewrite !eval_nary by discriminate; rewrite (eval_list_ren l IH Hl s s' HR); reflexivity.
      + rewrite !eval_and. apply andor_ren; assumption.
      + rewrite !eval_or. apply andor_ren; assumption.
      + rewrite (Ho f) by (now left). rewrite !eval_nary by discriminate.
        rewrite (eval_list_ren l IH Hl s s' HR). reflexivity.
  Qed.

  Lemma eval_ren e s s' : fsafe (funsyms e) -> R s s' ->
    eval F s' (ren r e) = (map r (fst (eval F s e)), snd (eval F s e)).
  Proof. intros Hf HR. exact (eval_ren_all e Hf s s' HR). Qed.
End Ren.

Section RenStmt.
  Variable F : string -> list val -> list (string * val) -> option (list val).
  Variable r : var -> var.
  Hypothesis r_inj : forall x y, r x = r y -> x = y.
  Notation R := (R r).
  Notation fsafe := (fsafe r).

  Definition rs_rel (a b : rs store) : Prop :=
    match a, b with
    | Ok s, Ok s' => R s s'
    | Err u, Err u' => u = u'
    | _, _ => False
    end.
  Definition out_rel (o o' : outcome) : Prop :=
    match o, o' with
    | ONext s ev, ONext s' ev' => R s s' /\ ev = ev'
    | OFail, OFail | OUserExn, OUserExn | OCrash, OCrash => True
    | OSwitch p, OSwitch q => p = q
    | ORaise k, ORaise j => k = j
    | _, _ => False
    end.
  (* the pair (accesses, result) of the renamed computation is the image of the original one *)
  Definition rel_rs (p : list access * rs store) (p' : list access * rs store) : Prop :=
    fst p' = map (amap r) (fst p) /\ rs_rel (snd p) (snd p').
  Definition rel_out (p : list access * outcome) (p' : list access * outcome) : Prop :=
    fst p' = map (amap r) (fst p) /\ out_rel (snd p) (snd p').

  Lemma rds_map l : rds (map r l) = map (amap r) (rds l).
  Proof. unfold rds. rewrite !map_map. reflexivity. Qed.

  Lemma of_rs_rel a b : rs_rel a b -> out_rel (of_rs a) (of_rs b).
  Proof. destruct a as [s|[|]], b as [s'|[|]]; cbn; intros H; try contradiction; try discriminate; auto. Qed.

  Lemma eval_list_ren' l s s' : fsafe (flat_map funsyms l) -> R s s' ->
    eval_list F s' (map (ren r) l) = (map r (fst (eval_list F s l)), snd (eval_list F s l)).
  Proof.
    intros Hf HR. apply (eval_list_ren F r); auto. apply Forall_forall. intros e _. apply eval_ren_all.
  Qed.

  Ltac fin := split; [cbn [fst]; rewrite ?map_app, ?rds_map; reflexivity|cbn; auto using R_upd].

  Lemma assign_once_ren s s' x sb rhs :
    R s s' -> fsafe (funsyms rhs) -> fsafe (match sb with Some ie => funsyms ie | None => [] end) ->
    rel_rs (assign_once F s x sb rhs) (assign_once F s' (r x) (option_map (ren r) sb) (ren r rhs)).
  Proof.
    intros HR Hf Hs. unfold assign_once, rel_rs. rewrite (eval_ren F r rhs s s' Hf HR).
    destruct (eval F s rhs) as [rd [v|u]]; cbn [fst snd]; [|fin].
    destruct sb as [ie|]; cbn [option_map]; [|fin; now apply R_upd].
    rewrite (HR x). destruct (s x) as [agg|]; [|fin].
    rewrite (eval_ren F r ie s s' Hs HR). destruct (eval F s ie) as [r2 [iv|u]]; cbn [fst snd]; [|fin].
    destruct agg; try fin. destruct iv; try fin. destruct (as_int v); try fin.
    destruct (norm_index _ _); fin.
  Qed.

  Section Iter.
    Variables inner inner' : store -> list access * rs store.
    Hypothesis Hin : forall s s', R s s' -> rel_rs (inner s) (inner' s').

    Lemma iter_range_ren ident : forall n i s s', R s s' ->
      rel_rs (iter_range n i ident inner s) (iter_range n i (r ident) inner' s').
    Proof.
      induction n as [|n IH]; intros i s s' HR; cbn [iter_range]; [split; [reflexivity|exact HR]|].
      destruct (Hin _ _ (R_upd r r_inj s s' ident (VInt i) HR)) as [E1 E2].
      destruct (inner (upd s ident (VInt i))) as [a1 r1], (inner' (upd s' (r ident) (VInt i))) as [a1' r1'].
      cbn [fst snd] in E1, E2. subst a1'.
      destruct r1 as [s1|u], r1' as [s1'|u']; cbn in E2; try contradiction.
      - destruct (IH (i + 1)%Z s1 s1' E2) as [E3 E4].
        destruct (iter_range n (i + 1) ident inner s1) as [a2 r2],
                 (iter_range n (i + 1) (r ident) inner' s1') as [a2' r2'].
        cbn [fst snd] in *. subst a2'. split; [cbn [fst snd]; now rewrite map_cons, map_app|exact E4].
      - subst u'. split; [reflexivity|reflexivity].
    Qed.
  End Iter.

  Lemma eval_bound_ren e s s' : fsafe (funsyms e) -> R s s' ->
    eval_bound F s' (ren r e) = (map r (fst (eval_bound F s e)), snd (eval_bound F s e)).
  Proof.
    intros Hf HR. unfold eval_bound. rewrite (eval_ren F r e s s' Hf HR). destruct (eval F s e). reflexivity.
  Qed.

  Definition ren_loops (loops : list (var * expr * expr)) : list (var * expr * expr) :=
    map (fun l => (r (fst (fst l)), ren r (snd (fst l)), ren r (snd l))) loops.
  Definition loops_funsyms (loops : list (var * expr * expr)) : list string :=
    flat_map (fun l => funsyms (snd (fst l)) ++ funsyms (snd l)) loops.

  Lemma run_loops_ren (body body' : store -> list access * rs store) :
    (forall s s', R s s' -> rel_rs (body s) (body' s')) ->
    forall loops, fsafe (loops_funsyms loops) -> forall s s', R s s' ->
    rel_rs (run_loops F loops body s) (run_loops F (ren_loops loops) body' s').
  Proof.
    intros Hb. induction loops as [|[[ident lo] hi] ls IH]; intros Hf s s' HR; cbn [ren_loops map run_loops fst snd].
    - now apply Hb.
    - cbn [loops_funsyms flat_map fst snd] in Hf. apply fsafe_app in Hf. destruct Hf as [Hf Hfl].
      apply fsafe_app in Hf. destruct Hf as [Hlo Hhi].
      rewrite (eval_bound_ren lo s s' Hlo HR). destruct (eval_bound F s lo) as [r1 [a|u]]; cbn [fst snd]; [|fin].
      rewrite (eval_bound_ren hi s s' Hhi HR). destruct (eval_bound F s hi) as [r2 [b|u]]; cbn [fst snd]; [|fin].
      pose proof (iter_range_ren (run_loops F ls body) (run_loops F (ren_loops ls) body')
                                 (fun s0 s0' H0 => IH Hfl s0 s0' H0) ident (Z.to_nat (b - a)) a s s' HR) as [E1 E2].
      fold (ren_loops ls).
      destruct (iter_range _ a ident _ s) as [acc res], (iter_range _ a (r ident) _ s') as [acc' res'].
      cbn [fst snd] in *. subst acc'. split; [cbn [fst snd]; now rewrite !map_app, !rds_map|exact E2].
  Qed.

  Lemma del_loopvars_ren g : forall loops s s', R s s' ->
    rel_rs (del_loopvars g loops s) (del_loopvars g (ren_loops loops) s').
  Proof.
    induction loops as [|[[ident lo] hi] ls IH]; intros s s' HR; cbn [ren_loops map del_loopvars fst snd].
    - split; [reflexivity|exact HR].
    - fold (ren_loops ls). rewrite (HR ident). destruct (s ident) as [v|].
      + destruct (IH _ _ (R_del r r_inj s s' ident HR)) as [E1 E2].
        destruct (del_loopvars g ls (del s ident)), (del_loopvars g (ren_loops ls) (del s' (r ident))).
        cbn [fst snd] in *. subst. split; [reflexivity|exact E2].
      + destruct g; [|split; reflexivity].
        destruct (IH _ _ HR) as [E1 E2].
        destruct (del_loopvars true ls s), (del_loopvars true (ren_loops ls) s').
        cbn [fst snd] in *. subst. split; [reflexivity|exact E2].
  Qed.

  Lemma assign_all_ren : forall xs vs s s', R s s' ->
    fst (assign_all s' (map r xs) vs) = map (amap r) (fst (assign_all s xs vs)) /\
    R (snd (assign_all s xs vs)) (snd (assign_all s' (map r xs) vs)).
  Proof.
    induction xs as [|x xs IH]; intros vs s s' HR; cbn [map assign_all]; [split; [reflexivity|exact HR]|].
    destruct vs as [|v vs]; [split; [reflexivity|exact HR]|].
    destruct (IH vs _ _ (R_upd r r_inj s s' x v HR)) as [E1 E2].
    destruct (assign_all (upd s x v) xs vs), (assign_all (upd s' (r x) v) (map r xs) vs).
    cbn [fst snd] in *. subst. split; [reflexivity|exact E2].
  Qed.

  Variable g : bool.

  Lemma exec_kind_loops x sb rhs loops s : loops <> [] ->
    exec_kind F g s (KAssign x sb rhs loops) =
    let (a, res) := run_loops F loops (fun s0 => assign_once F s0 x sb rhs) s in
    match res with
    | Err u => (a, of_rs (Err u))
    | Ok s1 => let (a2, r2) := del_loopvars g loops s1 in (a ++ a2, of_rs r2)
    end.
  Proof. destruct loops; [contradiction|reflexivity]. Qed.

  Lemma exec_kind_ren k s s' : fsafe (kind_funsyms k) -> R s s' ->
    rel_out (exec_kind F g s k) (exec_kind F g s' (ren_kind true r k)).
  Proof.
    intros Hf HR. unfold rel_out.
    destruct k as [x sb rhs loops|xs f args kw|comp tid time e| | | | ]; cbn [ren_kind kind_funsyms] in *;
      try (cbn; auto; fail).
    - apply fsafe_app in Hf. destruct Hf as [Hs Hf]. apply fsafe_app in Hf. destruct Hf as [Hr Hl].
      assert (Hb : forall s0 s0', R s0 s0' ->
                rel_rs (assign_once F s0 x sb rhs) (assign_once F s0' (r x) (option_map (ren r) sb) (ren r rhs))).
      { intros. now apply assign_once_ren. }
      destruct loops as [|l0 ls].
      + cbn [map exec_kind]. destruct (Hb s s' HR) as [E1 E2].
        destruct (assign_once F s x sb rhs), (assign_once F s' _ _ _). cbn [fst snd] in *.
        split; [exact E1|now apply of_rs_rel].
      + remember (l0 :: ls) as loops eqn:El. fold (ren_loops loops).
        assert (Hne : loops <> []) by (subst; discriminate).
        assert (Hne' : ren_loops loops <> []) by (subst; discriminate).
        rewrite (exec_kind_loops _ _ _ _ _ Hne), (exec_kind_loops _ _ _ _ _ Hne').
        destruct (run_loops_ren _ _ Hb loops Hl s s' HR) as [E1 E2].
        destruct (run_loops F loops _ s) as [a res], (run_loops F (ren_loops loops) _ s') as [a' res'].
        cbn [fst snd] in *. subst a'.
        destruct res as [s1|u], res' as [s1'|u']; cbn in E2; try contradiction.
        * destruct (del_loopvars_ren g loops s1 s1' E2) as [E3 E4].
          destruct (del_loopvars g loops s1), (del_loopvars g (ren_loops loops) s1'). cbn [fst snd] in *. subst.
          split; [cbn [fst snd]; now rewrite map_app|now apply of_rs_rel].
        * subst u'. split; [reflexivity|destruct u; cbn; auto].
    - assert (Ef : r f = f) by (apply Hf; now left).
      assert (Hf' : fsafe (flat_map funsyms args ++ flat_map (fun p => funsyms (snd p)) kw)).
      { intros h Hh. apply Hf. now right. }
      apply fsafe_app in Hf'. destruct Hf' as [Ha Hk].
      cbn [exec_kind]. rewrite Ef.
      rewrite (eval_list_ren' args s s' Ha HR).
      destruct (eval_list F s args) as [r1 [pos|u]]; cbn [fst snd]; [|split; [cbn [fst snd]; now rewrite rds_map|destruct u; cbn; auto]].
      assert (Ekw : map snd (map (fun p : string * expr => (fst p, ren r (snd p))) kw) = map (ren r) (map snd kw)).
      { rewrite !map_map. reflexivity. }
      assert (Ekn : map fst (map (fun p : string * expr => (fst p, ren r (snd p))) kw) = map fst kw).
      { rewrite !map_map. reflexivity. }
      rewrite Ekw, Ekn. rewrite (eval_list_ren' (map snd kw) s s').
      2:{ intros h Hh. apply Hk. rewrite flat_map_map in Hh. exact Hh. }
      2:{ exact HR. }
      destruct (eval_list F s (map snd kw)) as [r2 [kws|u]]; cbn [fst snd];
        [|split; [cbn [fst snd]; now rewrite map_app, !rds_map|destruct u; cbn; auto]].
      destruct (F f pos _) as [res|]; [|split; [cbn [fst snd]; now rewrite map_app, !rds_map|cbn; auto]].
      destruct xs as [|x0 xs0]; cbn [map].
      + split; [cbn [fst snd]; now rewrite map_app, !rds_map|cbn; auto].
      + change (r x0 :: map r xs0) with (map r (x0 :: xs0)). rewrite map_length.
        destruct (Nat.eqb _ _); [|split; [cbn [fst snd]; now rewrite map_app, !rds_map|cbn; auto]].
        destruct (assign_all_ren (x0 :: xs0) res s s' HR) as [E1 E2].
        destruct (assign_all s (x0 :: xs0) res), (assign_all s' (map r (x0 :: xs0)) res). cbn [fst snd] in *.
        subst. split; [cbn [fst snd]; now rewrite !map_app, !rds_map|cbn; auto].
    - apply fsafe_app in Hf. destruct Hf as [Ht He]. cbn [exec_kind].
      rewrite (eval_ren F r time s s' Ht HR).
      destruct (eval F s time) as [r1 [t|u]]; cbn [fst snd]; [|split; [cbn [fst snd]; now rewrite rds_map|destruct u; cbn; auto]].
      rewrite (eval_ren F r e s s' He HR).
      destruct (eval F s e) as [r2 [v|u]]; cbn [fst snd];
        [|split; [cbn [fst snd]; now rewrite map_app, !rds_map|destruct u; cbn; auto]].
      split; [cbn [fst snd]; now rewrite map_app, !rds_map|cbn; auto].
  Qed.

  Definition ren_stmt (st : stmt) : stmt :=
    {| sid := sid st; sdeps := sdeps st; scond := ren r (scond st); skd := ren_kind true r (skd st) |}.

  (* the renaming lemma *)
  Theorem exec_stmt_ren st s s' :
    fsafe (funsyms (scond st) ++ kind_funsyms (skd st)) -> R s s' ->
    rel_out (exec_stmt F g s st) (exec_stmt F g s' (ren_stmt st)).
  Proof.
    intros Hf HR. apply fsafe_app in Hf. destruct Hf as [Hc Hk].
    unfold exec_stmt, rel_out, ren_stmt. cbn [scond skd].
    rewrite (eval_ren F r (scond st) s s' Hc HR). destruct (eval F s (scond st)) as [rd v]. cbn [fst snd].
    destruct (rbind v _) as [[|]|u]; cbn [fst snd].
    - destruct (exec_kind_ren (skd st) s s' Hk HR) as [E1 E2].
      destruct (exec_kind F g s (skd st)), (exec_kind F g s' _). cbn [fst snd] in *. subst.
      split; [cbn [fst snd]; now rewrite map_app, rds_map|exact E2].
    - split; [cbn [fst snd]; now rewrite rds_map|cbn; auto].
    - split; [cbn [fst snd]; now rewrite rds_map|destruct u; cbn; auto].
  Qed.
End RenStmt.

(* ------------------------------------------------------------------ runs of renamed statement lists *)
Section RenRun.
  Variable F : string -> list val -> list (string * val) -> option (list val).
  Variable g : bool.
  Variable r : var -> var.
  Hypothesis r_inj : forall x y, r x = r y -> x = y.

  Definition st_rel (S S' : rstate) : Prop :=
    match S, S' with
    | RRun s e, RRun s' e' => R r s s' /\ e = e'
    | RStop s e w, RStop s' e' w' => R r s s' /\ e = e' /\ w = w'
    | RCrash u, RCrash u' => u = u'
    | _, _ => False
    end.

  Definition stmt_fsafe (st : stmt) : Prop := fsafe r (funsyms (scond st) ++ kind_funsyms (skd st)).

  Lemma step_ren st S S' : stmt_fsafe st -> st_rel S S' ->
    st_rel (step F g st S) (step F g (ren_stmt r st) S').
  Proof.
    intros Hf H. destruct S as [s e|s e w|u], S' as [s' e'|s' e' w'|u']; cbn in H; try contradiction;
      cbn [step]; try exact H.
    destruct H as [HR <-].
    destruct (exec_stmt_ren F r r_inj g st s s' Hf HR) as [_ E].
    destruct (snd (exec_stmt F g s st)) as [s1 ev| | p| k| | ],
             (snd (exec_stmt F g s' (ren_stmt r st))) as [s1' ev'| | p'| k'| | ]; cbn in E; try contradiction; cbn; auto.
    - destruct E as [E1 <-]. auto.
    - subst. auto.
    - subst. auto.
  Qed.

  Lemma run_list_ren : forall l S S', Forall stmt_fsafe l -> st_rel S S' ->
    st_rel (run_list F g l S) (run_list F g (map (ren_stmt r) l) S').
  Proof.
    induction l as [|st l IH]; intros S S' Hf H; [exact H|].
    inversion Hf as [|? ? Hst Hl]; subst. cbn [map run_list fold_left].
    apply IH; [exact Hl|]. now apply step_ren.
  Qed.
End RenRun.

(* ------------------------------------------------------------------ B. interleavings *)
Lemma merge_nil_r {A} (l : list A) : merge l [] l.
Proof. induction l; constructor; auto. Qed.
Lemma merge_nil_l {A} (l : list A) : merge [] l l.
Proof. induction l; constructor; auto. Qed.
Lemma merge_app_l {A} (a b c d : list A) : merge a b c -> merge (a ++ d) b (c ++ d).
Proof. induction 1; cbn [app]; try (constructor; assumption). apply merge_nil_r. Qed.
Lemma merge_app_r {A} (a b c d : list A) : merge a b c -> merge a (b ++ d) (c ++ d).
Proof. induction 1; cbn [app]; try (constructor; assumption). apply merge_nil_l. Qed.

Section Merge.
  Variable F : string -> list val -> list (string * val) -> option (list val).
  Variable g : bool.
  Notation run_list := (run_list F g).

  Definition evl (ev : option event) : list event := match ev with Some e => [e] | None => [] end.

  Lemma run_list_stop l s e w : run_list l (RStop s e w) = RStop s e w.
  Proof. induction l as [|st l IH]; [reflexivity|exact IH]. Qed.
  Lemma run_list_crash l u : run_list l (RCrash u) = RCrash u.
  Proof. induction l as [|st l IH]; [reflexivity|exact IH]. Qed.

  Lemma run_cons_inv st l s e s' e' :
    run_list (st :: l) (RRun s e) = RRun s' e' ->
    exists acc s1 ev, exec_stmt F g s st = (acc, ONext s1 ev) /\ run_list l (RRun s1 (e ++ evl ev)) = RRun s' e'.
  Proof.
    cbn [Sched.run_list fold_left step]. destruct (exec_stmt F g s st) as [acc o]. cbn [snd].
    destruct o as [s1 ev| | p| k| | ]; intros H.
    - exists acc, s1, ev. split; [reflexivity|exact H].
    - change (run_list l (RStop s e StFail) = RRun s' e') in H. rewrite run_list_stop in H. discriminate.
    - change (run_list l (RStop s e (StSwitch p)) = RRun s' e') in H. rewrite run_list_stop in H. discriminate.
    - change (run_list l (RStop s e (StRaise k)) = RRun s' e') in H. rewrite run_list_stop in H. discriminate.
    - change (run_list l (RCrash true) = RRun s' e') in H. rewrite run_list_crash in H. discriminate.
    - change (run_list l (RCrash false) = RRun s' e') in H. rewrite run_list_crash in H. discriminate.
  Qed.

  (* footprints of the two lists: nothing one writes is touched by the other *)
  Variables FA WA FB WB : var -> Prop.
  Hypothesis HAB : forall x, FA x -> ~ WB x.
  Hypothesis HBA : forall x, FB x -> ~ WA x.
  Definition covers (Fp Wp : var -> Prop) (l : list stmt) : Prop :=
    forall st, In st l -> (forall x, FP st x -> Fp x) /\ (forall x, WL st x -> Wp x).

  (* one step of a statement of the list with footprint (Fp, Wp) inside the combined store *)
  Lemma step_sim (Fp Wp Wo : var -> Prop) st sX sF acc sX1 ev eF :
    (forall x, Fp x -> ~ Wo x) ->
    (forall x, FP st x -> Fp x) -> (forall x, WL st x -> Wp x) ->
    (forall x, ~ Wo x -> sF x = sX x) ->
    exec_stmt F g sX st = (acc, ONext sX1 ev) ->
    exists sF1, run_list [st] (RRun sF eF) = RRun sF1 (eF ++ evl ev) /\
                (forall x, ~ Wo x -> sF1 x = sX1 x) /\ (forall x, ~ Wp x -> sF1 x = sF x).
  Proof.
    intros Hsep Hfp Hwl Hag E.
    destruct (exec_stmt_frame F g (fun y => ~ Wo y) sX sF st) as [_ Ho].
    { intros y Hy. apply Hsep. now apply Hfp. }
    { intros y Hy. symmetry. now apply Hag. }
    rewrite E in Ho. cbn [snd] in Ho.
    destruct (exec_stmt F g sF st) as [acc' o'] eqn:E'. cbn [snd] in Ho.
    destruct o' as [sF1 ev'| | | | | ]; cbn in Ho; try contradiction. destruct Ho as [Hagree <-].
    exists sF1. repeat split.
    - cbn [Sched.run_list fold_left step]. rewrite E'. reflexivity.
    - intros x Hx. symmetry. now apply Hagree.
    - intros x Hx. eapply exec_stmt_unch; [exact E'|]. intros Hw. apply Hx. now apply Hwl.
  Qed.

  Lemma run_list_app l1 l2 S : run_list (l1 ++ l2) S = run_list l2 (run_list l1 S).
  Proof. unfold Sched.run_list. apply fold_left_app. Qed.

  Theorem merge_sim : forall la lb l, merge la lb l -> covers FA WA la -> covers FB WB lb ->
    forall sA sB sF eA eB eF sA' eA' sB' eB',
      (forall x, ~ WB x -> sF x = sA x) -> (forall x, ~ WA x -> sF x = sB x) -> merge eA eB eF ->
      run_list la (RRun sA eA) = RRun sA' eA' -> run_list lb (RRun sB eB) = RRun sB' eB' ->
      exists sF' eF', run_list l (RRun sF eF) = RRun sF' eF' /\
                      (forall x, ~ WB x -> sF' x = sA' x) /\ (forall x, ~ WA x -> sF' x = sB' x) /\
                      merge eA' eB' eF'.
  Proof.
    induction 1 as [|st la lb l M IH|st la lb l M IH]; intros CA CB sA sB sF eA eB eF sA' eA' sB' eB' I1 I2 ME RA RB.
    - cbn in RA, RB. injection RA as <- <-. injection RB as <- <-. exists sF, eF. cbn. auto.
    - destruct (run_cons_inv _ _ _ _ _ _ RA) as (acc & sA1 & ev & E & RA').
      destruct (CA st (or_introl eq_refl)) as [Hfp Hwl].
      destruct (step_sim FA WA WB st sA sF acc sA1 ev eF HAB Hfp Hwl I1 E) as (sF1 & RF & J1 & J2).
      destruct (IH (fun s H => CA s (or_intror H)) CB sA1 sB sF1 (eA ++ evl ev) eB (eF ++ evl ev) sA' eA' sB' eB')
        as (sF' & eF' & RF' & K1 & K2 & K3); auto.
      + intros x Hx. rewrite J2 by exact Hx. now apply I2.
      + now apply merge_app_l.
      + exists sF', eF'. split; [|auto].
        change (st :: l) with ([st] ++ l). rewrite run_list_app, RF. exact RF'.
    - destruct (run_cons_inv _ _ _ _ _ _ RB) as (acc & sB1 & ev & E & RB').
      destruct (CB st (or_introl eq_refl)) as [Hfp Hwl].
      destruct (step_sim FB WB WA st sB sF acc sB1 ev eF HBA Hfp Hwl I2 E) as (sF1 & RF & J1 & J2).
      destruct (IH CA (fun s H => CB s (or_intror H)) sA sB1 sF1 eA (eB ++ evl ev) (eF ++ evl ev) sA' eA' sB' eB')
        as (sF' & eF' & RF' & K1 & K2 & K3); auto.
      + intros x Hx. rewrite J2 by exact Hx. now apply I1.
      + now apply merge_app_r.
      + exists sF', eF'. split; [|auto].
        change (st :: l) with ([st] ++ l). rewrite run_list_app, RF. exact RF'.
  Qed.
End Merge.
