(* Bridges between the models: the order in which the execution controller (C04) visits
   the statements of a builder-made phase body, and the order in which the lowering (C05)
   emits them, are admissible orders in the sense of C01/C02.  This turns the chain
   C04/C05 -> C02 -> C01 into Coq terms. *)
From Coq Require Import List Arith Lia Relations Permutation.
Import ListNotations.
From Dagrt Require Lang Builder BuilderProofs Stepper StepperProofs.
From Dagrt Require Controller ControllerProofs DagAst DagAstProofs Simplify.

Module L := Lang.
Module C := Controller.
Module D := DagAst.

(* a phase body whose statement ids are their positions and whose edges point backwards:
   what the builder produces (build_inv, edges_backward) *)
Definition wf_body (l : list L.stmt) : Prop :=
  forall i st, nth_error l i = Some st ->
    L.sid st = i /\ forall d, In d (L.sdeps st) -> d < i.

Lemma built_wf_body is_state tok l : StepperProofs.built is_state tok l -> wf_body l.
Proof.
  intros (p & b & Hb & <-) i st Hi. split.
  - destruct (BuilderProofs.build_inv is_state tok p b Hb) as (_ & _ & Hst).
    destruct (Hst i st Hi) as (H & _). exact H.
  - intros d Hd. eapply BuilderProofs.edges_backward; eassumption.
Qed.

Lemma wf_body_ids l : wf_body l -> map L.sid l = seq 0 (length l).
Proof.
  intros H. apply nth_ext with (d := 0) (d' := 0); [now rewrite map_length, seq_length|].
  intros i Hi. rewrite map_length in Hi. rewrite seq_nth by exact Hi. cbn.
  destruct (nth_error l i) as [st|] eqn:E; [|apply nth_error_None in E; lia].
  destruct (H i st E) as [Hs _].
  rewrite <- Hs at 2. apply nth_error_nth. rewrite nth_error_map, E. reflexivity.
Qed.

Lemma wf_body_In l st : wf_body l -> In st l -> nth_error l (L.sid st) = Some st.
Proof.
  intros H Hin. apply In_nth_error in Hin. destruct Hin as [i Hi].
  destruct (H i st Hi) as [-> _]. exact Hi.
Qed.

(* a duplicate-free enumeration of all positions in which every statement follows its
   dependencies is an admissible order *)
Lemma admissible_of_order l order :
  wf_body l -> Permutation order (seq 0 (length l)) ->
  (forall l1 x l2 st, order = l1 ++ x :: l2 -> nth_error l x = Some st -> incl (L.sdeps st) l1) ->
  StepperProofs.admissible l (StepperProofs.pick l order).
Proof.
  intros Hw Hp Hr. exists order. split; [apply Permutation_sym, Hp|]. split; [|reflexivity].
  intros l1 i l2 st E Hi d Hd. exact (Hr l1 i l2 st E Hi d Hd).
Qed.

(* ------------------------------------------------------------------ C04 *)
Section Ctl.
  Variable l : list L.stmt.
  Hypothesis Hw : wf_body l.

  Definition cph : C.phase := map (fun st => C.mkStmt (L.sid st) (L.sdeps st)) l.

  Lemma cph_ids : C.ids cph = seq 0 (length l).
  Proof. unfold C.ids, cph. rewrite map_map. cbn. apply wf_body_ids, Hw. Qed.

  Lemma cph_lookup i st : nth_error l i = Some st ->
    C.lookup cph i = Some (C.mkStmt (L.sid st) (L.sdeps st)).
  Proof.
    intros Hi. destruct (Hw i st Hi) as [Hs _].
    assert (ND : NoDup (C.ids cph)) by (rewrite cph_ids; apply seq_NoDup).
    assert (Hin : In (C.mkStmt (L.sid st) (L.sdeps st)) cph).
    { unfold cph. apply in_map_iff. exists st. split; [reflexivity|]. eapply nth_error_In, Hi. }
    pose proof (ControllerProofs.lookup_NoDup cph _ ND Hin) as H. cbn in H. rewrite <- Hs. exact H.
  Qed.

  Lemma cph_deps_of i st : nth_error l i = Some st -> C.deps_of cph i = L.sdeps st.
  Proof. intros Hi. unfold C.deps_of. now rewrite (cph_lookup i st Hi). Qed.

  Lemma cph_edge_lt a b : C.edge cph a b -> b < a.
  Proof.
    unfold C.edge, C.deps_of. destruct (C.lookup cph a) as [s|] eqn:E; [|intros []].
    destruct (ControllerProofs.lookup_Some _ _ _ E) as [Hin Hs].
    unfold cph in Hin. apply in_map_iff in Hin. destruct Hin as (st & <- & Hst). cbn in *.
    pose proof (wf_body_In l st Hw Hst) as Hn. rewrite Hs in Hn.
    intros Hb. exact (proj2 (Hw a st Hn) b Hb).
  Qed.

  Lemma cph_wf : C.phase_wf cph.
  Proof.
    split; [rewrite cph_ids; apply seq_NoDup|]. split.
    - intros s d Hs Hd. rewrite cph_ids. unfold cph in Hs. apply in_map_iff in Hs.
      destruct Hs as (st & <- & Hst). cbn in Hd.
      pose proof (wf_body_In l st Hw Hst) as Hn.
      pose proof (proj2 (Hw _ st Hn) d Hd) as Hlt.
      apply in_seq. assert (L.sid st < length l) by (apply nth_error_Some; congruence). lia.
    - intros x Hx.
      assert (G : forall a b, clos_trans nat (C.edge cph) a b -> b < a).
      { induction 1 as [a b H|a b c _ H1 _ H2]; [apply cph_edge_lt, H|lia]. }
      specialize (G x x Hx). lia.
  Qed.

  (* the interpreter's step executes a prefix of an admissible order; the whole order when the
     step is not cut short *)
  Theorem controller_order_admissible ro target st0 :
    C.same_members ro (C.roots cph) ->
    let o := C.run_single_step st0 cph ro target in
    exists rest,
      StepperProofs.admissible l (StepperProofs.pick l (C.visited (C.o_log o) ++ rest)) /\
      (C.never_stops cph target -> rest = []).
  Proof.
    intros Hro o.
    destruct (ControllerProofs.step_prefix cph ro target st0 cph_wf Hro)
      as (rest & Hperm & _ & Hresp & _ & Hfin & _ & Hns & _).
    exists rest. split.
    - apply admissible_of_order; [exact Hw|rewrite <- cph_ids; exact Hperm|].
      intros l1 x l2 st E Hx d Hd.
      apply (Hresp l1 x l2 E). rewrite (cph_deps_of x st Hx). exact Hd.
    - intros H. apply Hfin, Hns, H.
  Qed.
End Ctl.

(* ------------------------------------------------------------------ C05 *)
Section Low.
  Variable l : list L.stmt.
  Hypothesis Hw : wf_body l.
  (* what the lowering looks at besides ids and dependencies: guard, loop nest, Nop-ness *)
  Variable gd : L.stmt -> Simplify.cond.
  Variable lp : L.stmt -> list nat.
  Variable np : L.stmt -> bool.

  Definition dph : list D.stmt :=
    map (fun st => D.mkStmt (L.sid st) (L.sdeps st) (gd st) (lp st) (np st)) l.

  Lemma dph_ids : map D.sid dph = seq 0 (length l).
  Proof. unfold dph. rewrite map_map. cbn. apply wf_body_ids, Hw. Qed.

  Lemma dph_edge_lt a b : D.edge dph a b -> b < a.
  Proof.
    intros (s & E & Hb). destruct (DagAstProofs.lookup_some _ _ _ E) as [Hin Hs].
    unfold dph in Hin. apply in_map_iff in Hin. destruct Hin as (st & <- & Hst). cbn in *.
    pose proof (wf_body_In l st Hw Hst) as Hn. rewrite Hs in Hn.
    exact (proj2 (Hw a st Hn) b Hb).
  Qed.

  Lemma dph_wf : D.phase_wf dph.
  Proof.
    constructor.
    - rewrite dph_ids. apply seq_NoDup.
    - intros s d Hs Hd. rewrite dph_ids. unfold dph in Hs. apply in_map_iff in Hs.
      destruct Hs as (st & <- & Hst). cbn in Hd.
      pose proof (wf_body_In l st Hw Hst) as Hn.
      pose proof (proj2 (Hw _ st Hn) d Hd) as Hlt.
      apply in_seq. assert (L.sid st < length l) by (apply nth_error_Some; congruence). lia.
    - intros x Hx.
      assert (G : forall a b, clos_trans nat (D.edge dph) a b -> b < a).
      { induction 1 as [a b H|a b c _ H1 _ H2]; [apply dph_edge_lt, H|lia]. }
      specialize (G x x Hx). lia.
  Qed.

  (* the leaf order of the lowered tree is an admissible order *)
  Theorem lowering_order_admissible sf :
    exists order,
      D.topo_order dph = D.LOk order /\
      (exists t, D.lower false true sf dph = D.LOk t) /\
      StepperProofs.admissible l (StepperProofs.pick l order).
  Proof.
    destruct (DagAstProofs.lower_spec sf dph dph_wf) as (order & sts & t & Ht & Hm & Hp & Hr & Hl & _).
    exists order. split; [exact Ht|]. split; [eauto|].
    apply admissible_of_order; [exact Hw| |].
    - rewrite <- Hm, <- dph_ids. apply Permutation_map, Hp.
    - intros l1 x l2 st E Hx d Hd.
      (* split sts at the position of x *)
      rewrite <- Hm in E. apply map_eq_app in E. destruct E as (s1 & s2' & -> & <- & E2).
      destruct s2' as [|sx s2]; [discriminate|]. cbn in E2. injection E2 as Ex _.
      assert (Hsx : In sx dph).
      { eapply Permutation_in; [exact Hp|]. rewrite in_app_iff. right. now left. }
      unfold dph in Hsx. apply in_map_iff in Hsx. destruct Hsx as (st' & Est & Hst').
      assert (st' = st).
      { pose proof (wf_body_In l st' Hw Hst') as Hn. rewrite <- Est in Ex. cbn in Ex.
        rewrite Ex in Hn. congruence. }
      subst st'. specialize (Hr s1 sx s2 eq_refl). rewrite <- Est in Hr. cbn in Hr. apply Hr, Hd.
  Qed.
End Low.
