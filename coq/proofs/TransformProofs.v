(* C07 proofs, top level: per-pass theorems (semantics and call log, freshness of names and
   ids), the pipeline, refutations for the unrepaired shapes, examples. *)
From Coq Require Import List ZArith NArith String Ascii Bool Arith Lia Permutation.
Import ListNotations.
From Dagrt Require Import Lang LangProofs Sched Transform TransformSem TransformSide TransformBasics TransformHoist
     TransformSpec TransformMappers TransformLeaf TransformStmt TransformSd TransformTree TransformProj.

(* ------------------------------------------------------------------------------------ *)
(* seeds                                                                                  *)

Lemma leaves_tstmts t ss : leaves t = Some ss -> ss = tstmts t.
Proof.
  revert ss. induction t as [s| |l IH|c t IHt|c t e IHt IHe|x lo hi b IHb] using tree_ind'; intros ss H;
    cbn [leaves tstmts] in *.
  - now inversion H.
  - discriminate.
  - revert ss H. induction IH as [|t l Ht _ IHl]; intros ss H.
    + now inversion H.
    + destruct (leaves t) as [a|]; [|discriminate].
      destruct ((fix go (l : list tree) : option (list tstmt) :=
                   match l with
                   | [] => Some []
                   | x :: r => match leaves x, go r with
                               | Some a, Some b => Some (a ++ b)
                               | _, _ => None
                               end
                   end) l) as [b|] eqn:Eb; [|discriminate].
      inversion H; subst. cbn [flat_map]. now rewrite (Ht a eq_refl), (IHl b eq_refl).
  - auto.
  - destruct (leaves t) as [a|]; [|discriminate]. destruct (leaves e) as [b|]; [|discriminate].
    inversion H; subst. now rewrite (IHt a eq_refl), (IHe b eq_refl).
  - auto.
Qed.

Lemma flat_map_map {A B C} (f : A -> B) (g : B -> list C) l : flat_map g (map f l) = flat_map (fun x => g (f x)) l.
Proof. induction l as [|x l IH]; cbn; [reflexivity|now rewrite IH]. Qed.

(* with the repaired get_read_variables (C08) the declared sets of a loop-free statement cover
   every variable it mentions *)
Lemma svars_declared lbr s :
  loopfree (tkd s) = true -> incl (svars s) (swrites s ++ sreads true lbr s).
Proof.
  intros Hl. unfold svars, swrites, sreads, reads, writes. destruct s as [id deps cond k]. cbn [to_stmt scond skd tcond tkd].
  intros x Hx. rewrite !in_app_iff in *. destruct Hx as [Hx|Hx]; [tauto|].
  destruct k as [y sub rhs loops|xs fn args kw|comp tid time e| | | |]; cbn [kvars kind_reads kind_writes] in *;
    try contradiction.
  - destruct loops; [|discriminate]. destruct Hx as [<-|Hx]; [left; now left|].
    rewrite !in_app_iff in Hx. right. left. rewrite !in_app_iff. cbn [flat_map In] in Hx. tauto.
  - rewrite !in_app_iff in Hx. destruct Hx as [Hx|[Hx|Hx]]; [tauto| |].
    + right. left. apply in_app_iff. now left.
    + right. left. apply in_app_iff. right. rewrite flat_map_map in Hx. exact Hx.
  - right. left. exact Hx.
Qed.

Lemma tvars_split t : forall x, In x (tvars t) -> In x (flat_map svars (tstmts t)) \/ In x (node_vars t).
Proof.
  induction t as [s| |l IH|c t IHt|c t e IHt IHe|y lo hi b IHb] using tree_ind'; intros x Hx;
    cbn [tvars tstmts node_vars flat_map] in *.
  - left. now rewrite app_nil_r.
  - contradiction.
  - induction IH as [|t l Ht _ IHl]; cbn [flat_map] in *; [contradiction|].
    rewrite flat_map_app, !in_app_iff in *. destruct Hx as [Hx|Hx]; [apply Ht in Hx|apply IHl in Hx]; tauto.
  - rewrite !in_app_iff in *. destruct Hx as [Hx|Hx]; [tauto|]. apply IHt in Hx. tauto.
  - rewrite flat_map_app, !in_app_iff in *. destruct Hx as [Hx|[Hx|Hx]]; [tauto|apply IHt in Hx|apply IHe in Hx]; tauto.
  - destruct Hx as [<-|Hx]; [right; now left|]. rewrite !in_app_iff in Hx. cbn [In]. rewrite !in_app_iff.
    destruct Hx as [Hx|[Hx|Hx]]; [tauto|tauto|]. apply IHb in Hx. tauto.
Qed.

Lemma seed_complete lbr t :
  forallb (fun s => loopfree (tkd s)) (tstmts t) = true ->
  incl (tvars t) (ex (gvars (seed true lbr true t (tstmts t)))).
Proof.
  intros Hl x Hx. cbn [seed gvars ex]. apply in_app_iff. apply tvars_split in Hx. destruct Hx as [Hx|Hx]; [left|now right].
  apply in_flat_map in Hx. destruct Hx as (s & Hs & Hx). apply in_flat_map. exists s. split; [exact Hs|].
  rewrite forallb_forall in Hl. now apply (svars_declared lbr s (Hl s Hs)).
Qed.

(* ------------------------------------------------------------------------------------ *)
(* one pass                                                                               *)

Section Pass.
  Variable F : string -> list val -> list (string * val) -> option (list val).
  Variable dg : bool.
  Variable ms : tstmt -> M (list tstmt).
  Variable okl : tstmt -> bool.
  Hypothesis Hms : forall s st l st', okl s = true -> ms s st = TOk (l, st') -> sspec F dg s st l st'.
  Hypothesis Hlf : forall s, okl s = true -> loopfree (tkd s) = true.

  Definition tids (t : tree) : list string := map tid (tstmts t).

  (* everything a run of a pass guarantees, given that the name generator knows every variable of
     the tree *)
  Theorem pass_correct lsr lbr snv t t' st' :
    run_pass lsr lbr snv ms t = TOk (t', st') ->
    forallb okl (tstmts t) = true ->
    incl (tvars t) (ex (gvars (seed lsr lbr snv t (tstmts t)))) ->
    exists N I,
      ext (seed lsr lbr snv t (tstmts t)) st' N I /\
      (forall x, In x N -> ~ In x (tvars t)) /\
      (forall x, In x I -> ~ In x (tids t)) /\
      (NoDup (tids t) -> NoDup (tids t')) /\
      (forall a, srel N (run F dg t a) (run F dg t' a)).
  Proof.
    unfold run_pass, apply_rewriter. intros E Hok Hseed.
    destruct (modelled_tree t); [|discriminate].
    destruct (leaves t) as [ss|] eqn:El; [|discriminate].
    apply leaves_tstmts in El. subst ss.
    set (st0 := seed lsr lbr snv t (tstmts t)) in *.
    destruct (rewrite_sim F dg ms okl Hms Hlf (firstn (List.length (ex (gvars st')) - List.length (ex (gvars st0)))
                                                       (ex (gvars st'))) t Hok _ _ _ E)
      as (N & I & X & C & Hs).
    exists N, I. pose proof X as (Ev & Ei & Fv & Fi).
    assert (HG : firstn (List.length (ex (gvars st')) - List.length (ex (gvars st0))) (ex (gvars st')) = N).
    { rewrite Ev, app_length. replace (List.length N + List.length (ex (gvars st0)) - List.length (ex (gvars st0)))%nat
        with (List.length N + 0)%nat by lia. rewrite firstn_app_2. cbn. now rewrite app_nil_r. }
    rewrite HG in Hs.
    assert (Hfr : forall x, In x N -> ~ In x (tvars t)).
    { intros x Hx Hin. apply (in_fresh_not_old _ _ _ Fv Hx). now apply Hseed. }
    split; [exact X|split; [exact Hfr|split; [|split]]].
    - intros x Hx. apply (in_fresh_not_old _ _ _ Fi Hx).
    - intros Hnd. apply (NoDup_count_occ string_dec). intros x. unfold tids. rewrite C.
      assert (H1 : (count_occ string_dec (map tid (tstmts t)) x <= 1)%nat) by now apply (NoDup_count_occ string_dec).
      assert (H2 : (count_occ string_dec I x <= 1)%nat) by (destruct Fi as [Nd _]; now apply (NoDup_count_occ string_dec)).
      destruct (count_occ string_dec I x) eqn:E2; [lia|].
      assert (Hin : In x I) by (apply (count_occ_In string_dec); lia).
      assert (Hni : ~ In x (map tid (tstmts t))) by (apply (in_fresh_not_old _ _ _ Fi Hin)).
      apply (count_occ_not_In string_dec) in Hni. lia.
    - intros a. apply Hs; [exact Hseed|apply incl_refl|intros x Hx Hn; now apply (Hfr x Hn)|apply srel_refl].
  Qed.
End Pass.

(* ------------------------------------------------------------------------------------ *)
(* the four passes                                                                        *)

Definition loopfree_tree (t : tree) : bool := forallb (fun s => loopfree (tkd s)) (tstmts t).

Lemma okl_loopfree (okl : tstmt -> bool) t :
  (forall s, okl s = true -> loopfree (tkd s) = true) -> forallb okl (tstmts t) = true -> loopfree_tree t = true.
Proof.
  intros H Hok. unfold loopfree_tree. apply forallb_forall. intros s Hs. rewrite forallb_forall in Hok. auto.
Qed.

Lemma base_loopfree s : base_leaf s = true -> loopfree (tkd s) = true.
Proof. intros H. now apply base_leaf_inv in H. Qed.

Lemma sd_leaf_lf s : sd_leaf s = true -> loopfree (tkd s) = true.
Proof. unfold sd_leaf. intros H. apply andb_true_iff in H. destruct H as [H _]. now apply base_loopfree. Qed.
Lemma fai_leaf_lf s : fai_leaf s = true -> loopfree (tkd s) = true.
Proof.
  unfold fai_leaf. intros H. apply andb_true_iff in H. destruct H as [H _]. apply andb_true_iff in H.
  destruct H as [H _]. now apply base_loopfree.
Qed.
Lemma fci_leaf_lf s : fci_leaf s = true -> loopfree (tkd s) = true.
Proof. unfold fci_leaf. intros H. apply andb_true_iff in H. destruct H as [H _]. now apply base_loopfree. Qed.
Lemma ite_leaf_lf s : ite_leaf s = true -> loopfree (tkd s) = true.
Proof. unfold ite_leaf. intros H. apply andb_true_iff in H. destruct H as [H _]. now apply base_loopfree. Qed.

Section Four.
  Variable F : string -> list val -> list (string * val) -> option (list val).
  Variable dg : bool.

  (* the conclusion shared by the four per-pass theorems *)
  Definition pass_ok (st0 : gst) (t t' : tree) (st' : gst) : Prop :=
    exists N I,
      ext st0 st' N I /\
      (forall x, In x N -> ~ In x (tvars t)) /\
      (forall x, In x I -> ~ In x (tids t)) /\
      (NoDup (tids t) -> NoDup (tids t')) /\
      (forall a, srel N (run F dg t a) (run F dg t' a)).

  Theorem sd_correct lsr lbr snv sds ords t t' st' :
    eliminate_self_dependencies lsr lbr snv sds ords t = TOk (t', st') ->
    forallb sd_leaf (tstmts t) = true ->
    incl (tvars t) (ex (gvars (seed lsr lbr snv t (tstmts t)))) ->
    pass_ok (seed lsr lbr snv t (tstmts t)) t t' st'.
  Proof.
    intros E Hok Hs. apply (pass_correct F dg (ms_sd lsr lbr sds ords) sd_leaf); auto.
    - intros s st l st0. apply ms_sd_ok.
    - apply sd_leaf_lf.
  Qed.

  Theorem fai_correct lsr lbr snv t t' st' :
    isolate_function_arguments lsr lbr snv t = TOk (t', st') ->
    forallb fai_leaf (tstmts t) = true ->
    incl (tvars t) (ex (gvars (seed lsr lbr snv t (tstmts t)))) ->
    pass_ok (seed lsr lbr snv t (tstmts t)) t t' st'.
  Proof.
    intros E Hok Hs. apply (pass_correct F dg ms_fai fai_leaf); auto.
    - intros s st l st0. apply ms_fai_ok.
    - apply fai_leaf_lf.
  Qed.

  (* both shapes of isolate_call: the unrepaired one either raises TypeError or agrees *)
  Theorem fci_correct lsr lbr snv fixed t t' st' :
    isolate_function_calls lsr lbr snv fixed t = TOk (t', st') ->
    forallb fci_leaf (tstmts t) = true ->
    incl (tvars t) (ex (gvars (seed lsr lbr snv t (tstmts t)))) ->
    pass_ok (seed lsr lbr snv t (tstmts t)) t t' st'.
  Proof.
    intros E Hok Hs. apply (pass_correct F dg (ms_fci fixed) fci_leaf); auto.
    - intros s st l st0. apply ms_fci_ok.
    - apply fci_leaf_lf.
  Qed.

  Theorem ite_correct lsr lbr snv t t' st' :
    expand_IfThenElse lsr lbr snv true t = TOk (t', st') ->
    forallb ite_leaf (tstmts t) = true ->
    incl (tvars t) (ex (gvars (seed lsr lbr snv t (tstmts t)))) ->
    pass_ok (seed lsr lbr snv t (tstmts t)) t t' st'.
  Proof.
    intros E Hok Hs. apply (pass_correct F dg (ms_ite true) ite_leaf); auto.
    - intros s st l st0. apply ms_ite_ok.
    - apply ite_leaf_lf.
  Qed.
End Four.

(* ------------------------------------------------------------------------------------ *)
(* the pipeline in the order of fortran.py's process_ast                                  *)

Definition fortran_order : list string :=
  ["eliminate_self_dependencies"; "isolate_function_arguments"; "isolate_function_calls"; "expand_IfThenElse"]%string.

Section Pipeline.
  Variable F : string -> list val -> list (string * val) -> option (list val).
  Variable dg : bool.

  Lemma srel_chain N1 N2 S1 S2 S3 : srel N1 S1 S2 -> srel N2 S2 S3 -> srel (N1 ++ N2) S1 S3.
  Proof.
    intros H1 H2. eapply srel_trans.
    - eapply srel_incl; [|exact H1]. intros x Hx. apply in_app_iff. now left.
    - eapply srel_incl; [|exact H2]. intros x Hx. apply in_app_iff. now right.
  Qed.

  (* Each pass seeds its generators from the tree it is given; with the repaired
     get_var_name_generator / get_read_variables every variable of that tree is known to it.
     The side conditions on the three intermediate trees are decidable (and are evaluated on every
     case of the correspondence check); that the passes preserve them is not proved here. *)
  Theorem pipeline_correct lbr sds fixed ords t t1 t2 t3 t4 g1 g2 g3 g4 :
    eliminate_self_dependencies true lbr true sds ords t = TOk (t1, g1) ->
    isolate_function_arguments true lbr true t1 = TOk (t2, g2) ->
    isolate_function_calls true lbr true fixed t2 = TOk (t3, g3) ->
    expand_IfThenElse true lbr true true t3 = TOk (t4, g4) ->
    forallb sd_leaf (tstmts t) = true -> forallb fai_leaf (tstmts t1) = true ->
    forallb fci_leaf (tstmts t2) = true -> forallb ite_leaf (tstmts t3) = true ->
    exists N1 N2 N3 N4,
      (forall x, In x N1 -> ~ In x (tvars t)) /\ (forall x, In x N2 -> ~ In x (tvars t1)) /\
      (forall x, In x N3 -> ~ In x (tvars t2)) /\ (forall x, In x N4 -> ~ In x (tvars t3)) /\
      (NoDup (tids t) -> NoDup (tids t4)) /\
      (forall a, srel (N1 ++ N2 ++ N3 ++ N4) (run F dg t a) (run F dg t4 a)).
  Proof.
    intros E1 E2 E3 E4 H1 H2 H3 H4.
    destruct (sd_correct F dg true lbr true sds ords t t1 g1 E1 H1) as (N1 & I1 & _ & F1 & _ & D1 & S1).
    { apply seed_complete. apply (okl_loopfree sd_leaf); [apply sd_leaf_lf|exact H1]. }
    destruct (fai_correct F dg true lbr true t1 t2 g2 E2 H2) as (N2 & I2 & _ & F2 & _ & D2 & S2).
    { apply seed_complete. apply (okl_loopfree fai_leaf); [apply fai_leaf_lf|exact H2]. }
    destruct (fci_correct F dg true lbr true fixed t2 t3 g3 E3 H3) as (N3 & I3 & _ & F3 & _ & D3 & S3).
    { apply seed_complete. apply (okl_loopfree fci_leaf); [apply fci_leaf_lf|exact H3]. }
    destruct (ite_correct F dg true lbr true t3 t4 g4 E4 H4) as (N4 & I4 & _ & F4 & _ & D4 & S4).
    { apply seed_complete. apply (okl_loopfree ite_leaf); [apply ite_leaf_lf|exact H4]. }
    exists N1, N2, N3, N4. repeat (split; [assumption|]). split; [auto|].
    intros a. eapply srel_chain; [apply S1|]. eapply srel_chain; [apply S2|]. eapply srel_chain; [apply S3|apply S4].
  Qed.

  (* run_passes on the order read off fortran.py is that composition *)
  Lemma run_passes_fortran lsr lbr snv sds fixed ff ords t t4 :
    run_passes lsr lbr snv sds fixed ff ords fortran_order t = TOk t4 ->
    exists t1 t2 t3 g1 g2 g3 g4,
      eliminate_self_dependencies lsr lbr snv sds ords t = TOk (t1, g1) /\
      isolate_function_arguments lsr lbr snv t1 = TOk (t2, g2) /\
      isolate_function_calls lsr lbr snv fixed t2 = TOk (t3, g3) /\
      expand_IfThenElse lsr lbr snv ff t3 = TOk (t4, g4).
  Proof.
    unfold fortran_order. cbn [run_passes]. unfold pass_named. cbn.
    destruct (eliminate_self_dependencies lsr lbr snv sds ords t) as [[t1 g1]|e] eqn:E1; [|discriminate].
    destruct (isolate_function_arguments lsr lbr snv t1) as [[t2 g2]|e] eqn:E2; [|discriminate].
    destruct (isolate_function_calls lsr lbr snv fixed t2) as [[t3 g3]|e] eqn:E3; [|discriminate].
    destruct (expand_IfThenElse lsr lbr snv ff t3) as [[t4' g4]|e] eqn:E4; [|discriminate].
    intros H. inversion H; subst. exists t1, t2, t3, g1, g2, g3, g4. repeat split; assumption.
  Qed.
End Pipeline.

(* ------------------------------------------------------------------------------------ *)
(* statements against the shape switches (discharged in props/C07.v by reflexivity)       *)

Section Shapes.
  Variable F : string -> list val -> list (string * val) -> option (list val).
  Variable dg : bool.

  Definition seeded (lsr lbr snv : bool) (t : tree) : gst := seed lsr lbr snv t (tstmts t).

  Theorem sd_thm lsr snv : lsr = true -> snv = true ->
    forall lbr sds ords t t' st',
      eliminate_self_dependencies lsr lbr snv sds ords t = TOk (t', st') ->
      forallb sd_leaf (tstmts t) = true -> pass_ok F dg (seeded lsr lbr snv t) t t' st'.
  Proof.
    intros -> -> lbr sds ords t t' st' E H. apply (sd_correct F dg true lbr true sds ords); auto.
    apply seed_complete. apply (okl_loopfree sd_leaf); [apply sd_leaf_lf|exact H].
  Qed.

  Theorem fai_thm lsr snv : lsr = true -> snv = true ->
    forall lbr t t' st',
      isolate_function_arguments lsr lbr snv t = TOk (t', st') ->
      forallb fai_leaf (tstmts t) = true -> pass_ok F dg (seeded lsr lbr snv t) t t' st'.
  Proof.
    intros -> -> lbr t t' st' E H. apply (fai_correct F dg true lbr true); auto.
    apply seed_complete. apply (okl_loopfree fai_leaf); [apply fai_leaf_lf|exact H].
  Qed.

  Theorem fci_thm lsr snv : lsr = true -> snv = true ->
    forall lbr fixed t t' st',
      isolate_function_calls lsr lbr snv fixed t = TOk (t', st') ->
      forallb fci_leaf (tstmts t) = true -> pass_ok F dg (seeded lsr lbr snv t) t t' st'.
  Proof.
    intros -> -> lbr fixed t t' st' E H. apply (fci_correct F dg true lbr true fixed); auto.
    apply seed_complete. apply (okl_loopfree fci_leaf); [apply fci_leaf_lf|exact H].
  Qed.

  Theorem ite_thm lsr snv ff : lsr = true -> snv = true -> ff = true ->
    forall lbr t t' st',
      expand_IfThenElse lsr lbr snv ff t = TOk (t', st') ->
      forallb ite_leaf (tstmts t) = true -> pass_ok F dg (seeded lsr lbr snv t) t t' st'.
  Proof.
    intros -> -> -> lbr t t' st' E H. apply (ite_correct F dg true lbr true); auto.
    apply seed_complete. apply (okl_loopfree ite_leaf); [apply ite_leaf_lf|exact H].
  Qed.

  Theorem pipeline_thm lsr snv ff order :
    lsr = true -> snv = true -> ff = true -> order = fortran_order ->
    forall lbr sds fixed ords t t4,
      run_passes lsr lbr snv sds fixed ff ords order t = TOk t4 ->
      exists t1 t2 t3 g1 g2 g3 g4,
        eliminate_self_dependencies lsr lbr snv sds ords t = TOk (t1, g1) /\
        isolate_function_arguments lsr lbr snv t1 = TOk (t2, g2) /\
        isolate_function_calls lsr lbr snv fixed t2 = TOk (t3, g3) /\
        expand_IfThenElse lsr lbr snv ff t3 = TOk (t4, g4) /\
        (forallb sd_leaf (tstmts t) = true -> forallb fai_leaf (tstmts t1) = true ->
         forallb fci_leaf (tstmts t2) = true -> forallb ite_leaf (tstmts t3) = true ->
         exists N1 N2 N3 N4,
           (forall x, In x N1 -> ~ In x (tvars t)) /\ (forall x, In x N2 -> ~ In x (tvars t1)) /\
           (forall x, In x N3 -> ~ In x (tvars t2)) /\ (forall x, In x N4 -> ~ In x (tvars t3)) /\
           (NoDup (tids t) -> NoDup (tids t4)) /\
           (forall a, srel (N1 ++ N2 ++ N3 ++ N4) (run F dg t a) (run F dg t4 a))).
  Proof.
    intros -> -> -> -> lbr sds fixed ords t t4 E.
    destruct (run_passes_fortran _ _ _ _ _ _ _ _ _ E) as (t1 & t2 & t3 & g1 & g2 & g3 & g4 & E1 & E2 & E3 & E4).
    exists t1, t2, t3, g1, g2, g3, g4. repeat (split; [assumption|]).
    intros H1 H2 H3 H4. eapply pipeline_correct; eauto.
  Qed.
End Shapes.

(* ------------------------------------------------------------------------------------ *)
(* the full property, and why it fails                                                    *)

(* leaves of a structured phase: no loops on statements, call-free guards, function symbols that
   are not written variables -- and NOTHING about where calls / conditional expressions occur *)
Definition plain_leaf (s : tstmt) : bool := sd_leaf s && forallb arity_ok (kexprs (tkd s)).

Definition full_statement_for
           (pass : tree -> tres (tree * gst)) (seedf : tree -> gst) : Prop :=
  forall F dg t t' st',
    pass t = TOk (t', st') -> forallb plain_leaf (tstmts t) = true -> pass_ok F dg (seedf t) t t' st'.

(* a user function for the witnesses: f(x) = x + 10, everything else raises *)
Definition wF (f : string) (pos : list val) (kw : list (string * val)) : option (list val) :=
  match pos with
  | [VInt z] => Some [VInt (z + 10)]
  | _ => None
  end.

Open Scope string_scope.
Definition call_f (a : expr) : expr := ENary (NCall "<func>f" []) [a].
Definition gt0 (x : string) : expr := EBin (BCmp CGt) (EVar x) (EInt 0).

(* y <- (f(x) if c > 0 else x) *)
Definition wit_hoist : tree :=
  TLeaf (mkT "s0" [] (EBool true) (KAssign "y" None (EIf (gt0 "c") (call_f (EVar "x")) (EVar "x")) [])).
Definition wit_store : store := upd (upd (upd empty "x" (VInt 1)) "c" (VInt 0)) "d" (VInt 1).

Definition log_of (r : trun) : list call := match r with TRun _ _ l | TStop _ _ l _ => l | TCrash _ => [] end.

(* the call isolator calls f although the original statement does not (both shapes of every switch) *)
Lemma hoist_refuted lsr lbr snv fixed :
  ~ full_statement_for (isolate_function_calls lsr lbr snv fixed) (seeded lsr lbr snv).
Proof.
  intros H.
  destruct (isolate_function_calls lsr lbr snv fixed wit_hoist) as [[t' st']|e] eqn:E.
  2: { destruct lsr, lbr, snv, fixed; vm_compute in E; discriminate. }
  destruct (H wF false wit_hoist t' st' E eq_refl) as (N & I & _ & _ & _ & _ & S).
  specialize (S wit_store).
  destruct lsr, lbr, snv, fixed; vm_compute in E; inversion E; subst t'; vm_compute in S;
    destruct S as (_ & _ & P); apply Permutation_nil in P; discriminate.
Qed.

(* y <- f(f(x)) + 1: the unrepaired isolate_call raises TypeError *)
Definition wit_nested : tree :=
  TLeaf (mkT "s0" [] (EBool true) (KAssign "y" None (ENary NSum [call_f (call_f (EVar "x")); EInt 1]) [])).
Lemma arity_refuted lsr lbr snv :
  isolate_function_calls lsr lbr snv false wit_nested = TErr ETypeError /\
  forallb fci_leaf (tstmts wit_nested) = true.
Proof. destruct lsr, lbr, snv; vm_compute; auto. Qed.
Lemma arity_repaired lsr lbr snv :
  exists r, isolate_function_calls lsr lbr snv true wit_nested = TOk r.
Proof. destruct lsr, lbr, snv; eexists; vm_compute; reflexivity. Qed.

(* for tmp in [0, 2): y <- f(5): the temporary takes the name of the loop counter *)
Definition wit_capture : tree :=
  TFor "tmp" (EInt 0) (EInt 2) (TLeaf (mkT "s0" [] (EBool true) (KAssign "y" None (call_f (EInt 5)) []))).
Definition final_of (r : trun) (x : var) : option val :=
  match r with TRun s _ _ | TStop s _ _ _ => s x | TCrash _ => None end.
Lemma capture_refuted lsr lbr :
  exists t', (exists st', isolate_function_arguments lsr lbr false wit_capture = TOk (t', st')) /\
             forallb fai_leaf (tstmts wit_capture) = true /\
             In "tmp" (tvars wit_capture) /\
             final_of (run wF false wit_capture empty) "tmp" = Some (VInt 1) /\
             final_of (run wF false t' empty) "tmp" = Some (VInt 5).
Proof.
  destruct lsr, lbr; eexists; (split; [eexists; vm_compute; reflexivity|]);
    (split; [vm_compute; reflexivity|split; [vm_compute; tauto|split; vm_compute; reflexivity]]).
Qed.
Lemma capture_repaired lsr lbr :
  exists t' st', isolate_function_arguments lsr lbr true wit_capture = TOk (t', st') /\
                 final_of (run wF false t' empty) "tmp" = Some (VInt 1).
Proof. destruct lsr, lbr; eexists; eexists; (split; [vm_compute; reflexivity|]); vm_compute; reflexivity. Qed.

(* y <- ((1 if d > 0 else 2) if c > 0 else 3) with c = d = 1 *)
Definition wit_nested_if : tree :=
  TLeaf (mkT "s0" [] (EBool true)
             (KAssign "y" None (EIf (gt0 "c") (EIf (gt0 "d") (EInt 1) (EInt 2)) (EInt 3)) [])).
Definition wit_store2 : store := upd (upd empty "c" (VInt 1)) "d" (VInt 1).
Lemma flag_order_refuted lsr lbr snv :
  exists t', (exists st', expand_IfThenElse lsr lbr snv false wit_nested_if = TOk (t', st')) /\
             forallb ite_leaf (tstmts wit_nested_if) = true /\
             final_of (run wF false wit_nested_if wit_store2) "y" = Some (VInt 1) /\
             final_of (run wF false t' wit_store2) "y" = Some VNone.
Proof.
  destruct lsr, lbr, snv; eexists; (split; [eexists; vm_compute; reflexivity|]);
    (split; [vm_compute; reflexivity|split; vm_compute; reflexivity]).
Qed.
Lemma flag_order_repaired lsr lbr snv :
  exists t' st', expand_IfThenElse lsr lbr snv true wit_nested_if = TOk (t', st') /\
                 final_of (run wF false t' wit_store2) "y" = Some (VInt 1).
Proof. destruct lsr, lbr, snv; eexists; eexists; (split; [vm_compute; reflexivity|]); vm_compute; reflexivity. Qed.

(* ------------------------------------------------------------------------------------ *)
(* examples: non-trivial inputs meet the hypotheses of the theorems                       *)

(* if b: { x <- x + f(g(x + 1), k=y) ; y[i] <- (f(x) if c > 0 else 2) } inside a loop *)
Definition ex_tree : tree :=
  TFor "i" (EInt 0) (EVar "n")
    (TIf (EVar "<cond>b")
      (TBlock
        [TLeaf (mkT "s1" [] (EBool true)
                    (KAssign "x" None
                       (ENary NSum [EVar "x";
                                    ENary (NCall "<func>f" ["k"])
                                          [ENary (NCall "<func>g" []) [ENary NSum [EVar "x"; EInt 1]]; EVar "y"]]) []));
         TLeaf (mkT "s2" ["s1"] (EVar "<cond>c")
                    (KAssign "a" (Some (EVar "i"))
                       (EIf (gt0 "c") (ENary NSum [EVar "x"; EInt 2]) (EInt 2)) []))])).

Example ex_hyps :
  forallb sd_leaf (tstmts ex_tree) = true /\ forallb fai_leaf (tstmts ex_tree) = true /\
  forallb fci_leaf (tstmts ex_tree) = true /\ forallb ite_leaf (tstmts ex_tree) = true /\
  NoDup (tids ex_tree).
Proof.
  repeat split; try (vm_compute; reflexivity).
  vm_compute. repeat constructor; cbn; intuition discriminate.
Qed.

Example ex_pipeline :
  exists t1 t2 t3 t4 g1 g2 g3 g4,
    eliminate_self_dependencies true true true true [] ex_tree = TOk (t1, g1) /\
    isolate_function_arguments true true true t1 = TOk (t2, g2) /\
    isolate_function_calls true true true true t2 = TOk (t3, g3) /\
    expand_IfThenElse true true true true t3 = TOk (t4, g4) /\
    forallb fai_leaf (tstmts t1) = true /\ forallb fci_leaf (tstmts t2) = true /\
    forallb ite_leaf (tstmts t3) = true /\
    List.length (tstmts t4) = 10%nat.
Proof.
  do 8 eexists.
  split; [vm_compute; reflexivity|]. split; [vm_compute; reflexivity|]. split; [vm_compute; reflexivity|].
  split; [vm_compute; reflexivity|]. split; [vm_compute; reflexivity|]. split; [vm_compute; reflexivity|].
  split; vm_compute; reflexivity.
Qed.

Close Scope string_scope.

(* ------------------------------------------------------------------------------------ *)
(* guards: every statement derived from a leaf carries the leaf's guard                   *)

(* t' is t with every statement s replaced by a statement / a block of statements related to s by R *)
Inductive derives (R : tstmt -> list tstmt -> Prop) : tree -> tree -> Prop :=
| DLeaf1 s x : R s [x] -> derives R (TLeaf s) (TLeaf x)
| DLeafN s l : R s l -> derives R (TLeaf s) (TBlock (map TLeaf l))
| DNull : derives R TNull TNull
| DBlock l l' : Forall2 (derives R) l l' -> derives R (TBlock l) (TBlock l')
| DIf c t t' : derives R t t' -> derives R (TIf c t) (TIf c t')
| DIfElse c t t' e e' : derives R t t' -> derives R e e' -> derives R (TIfElse c t e) (TIfElse c t' e')
| DFor x lo hi b b' : derives R b b' -> derives R (TFor x lo hi b) (TFor x lo hi b').

(* the statements derived from s: the last one is s with rewritten expressions (same id, guard,
   assignees); the others write generated variables only and carry the guard of s, possibly
   extended by further conjuncts *)
Definition carries_guard (s : tstmt) (l : list tstmt) : Prop :=
  exists ns s',
    l = ns ++ [s'] /\ tid s' = tid s /\ tcond s' = tcond s /\ swr s' = swr s /\
    Forall (fun n => gext (tcond s) (tcond n)) ns.

Section Guards.
  Variable F : string -> list val -> list (string * val) -> option (list val).
  Variable dg : bool.
  Variable ms : tstmt -> M (list tstmt).
  Variable okl : tstmt -> bool.
  Hypothesis Hms : forall s st l st', okl s = true -> ms s st = TOk (l, st') -> sspec F dg s st l st'.

  Lemma rewrite_derives t :
    forallb okl (tstmts t) = true ->
    forall st t' st', rewrite_tree ms t st = TOk (t', st') -> derives carries_guard t t'.
  Proof.
    induction t as [s| |l IH|c t IHt|c t e IHt IHe|x lo hi b IHb] using tree_ind'; intros Hok st t' st' E.
    - cbn [rewrite_tree] in E. apply bind_inv in E. destruct E as (l & st1 & E1 & E2).
      cbn [tstmts forallb] in Hok. rewrite andb_true_r in Hok.
      destruct (Hms _ _ _ _ Hok E1) as (N & I & ns & s' & -> & X & Hid & Hc & Hw & M & D & V & Lf & Hsim).
      assert (Hcg : carries_guard s (ns ++ [s'])).
      { exists ns, s'. repeat (split; [assumption || reflexivity|]).
        eapply Forall_impl; [|exact M]. intros n [A _]. exact A. }
      destruct ns as [|n ns]; cbn [app] in E2.
      + unfold ret in E2. inversion E2; subst. now apply DLeaf1.
      + destruct (ns ++ [s']) as [|y r] eqn:En; [destruct ns; discriminate|].
        unfold ret in E2. inversion E2; subst. apply (DLeafN carries_guard s (n :: y :: r)).
        cbn [app] in Hcg. now rewrite En in Hcg.
    - unfold rewrite_tree, ret in E. inversion E; subst. constructor.
    - cbn [rewrite_tree] in E. apply bind_inv in E. destruct E as (l' & st1 & E1 & E2).
      unfold ret in E2. inversion E2; subst t' st1. clear E2. cbn [tstmts] in Hok. constructor.
      revert st l' st' E1 Hok. induction IH as [|t l Ht _ IHl]; intros st l' st' E1 Hok.
      + unfold ret in E1. inversion E1; subst. constructor.
      + apply bind_inv in E1. destruct E1 as (t1 & st1 & Et & E1). apply bind_inv in E1.
        destruct E1 as (r' & st2 & Er & E1). unfold ret in E1. inversion E1; subst l' st2. clear E1.
        cbn [flat_map] in Hok. rewrite forallb_app in Hok. apply andb_true_iff in Hok. destruct Hok as [Hok1 Hok2].
        constructor; [eapply Ht; eauto|eapply IHl; eauto].
    - cbn [rewrite_tree] in E. apply bind_inv in E. destruct E as (t1 & st1 & E1 & E2).
      unfold ret in E2. inversion E2; subst. constructor. eapply IHt; eauto.
    - cbn [rewrite_tree] in E. apply bind_inv in E. destruct E as (t1 & st1 & E1 & E2).
      apply bind_inv in E2. destruct E2 as (e1 & st2 & E2 & E3).
      unfold ret in E3. inversion E3; subst. cbn [tstmts] in Hok. rewrite forallb_app in Hok.
      apply andb_true_iff in Hok. destruct Hok as [Hok1 Hok2]. constructor; [eapply IHt; eauto|eapply IHe; eauto].
    - cbn [rewrite_tree] in E. apply bind_inv in E. destruct E as (b1 & st1 & E1 & E2).
      unfold ret in E2. inversion E2; subst. constructor. eapply IHb; eauto.
  Qed.

  (* an extended guard that holds implies the guard it extends *)
  Lemma gext_holds c g s r :
    gext c g -> cond_t F s g = (r, Ok true) -> exists r', cond_t F s c = (r', Ok true).
  Proof.
    intros [more Hm] Hg. rewrite <- (cond_kids F s g), Hm, cond_and_app, (cond_kids F s c) in Hg.
    destruct (cond_t F s c) as [r1 [[|]|u]]; [eauto| |]; inversion Hg.
  Qed.
End Guards.

Section GuardsFour.
  Variable F : string -> list val -> list (string * val) -> option (list val).
  Variable dg : bool.

  Theorem guards_sd lsr lbr snv sds ords t t' st' :
    eliminate_self_dependencies lsr lbr snv sds ords t = TOk (t', st') ->
    forallb sd_leaf (tstmts t) = true -> derives carries_guard t t'.
  Proof.
    unfold eliminate_self_dependencies, run_pass, apply_rewriter. intros E H.
    destruct (modelled_tree t); [|discriminate]. destruct (leaves t); [|discriminate].
    eapply (rewrite_derives F dg (ms_sd lsr lbr sds ords) sd_leaf); eauto.
    intros s0 st0 l0 st1. apply ms_sd_ok.
  Qed.

  Theorem guards_fai lsr lbr snv t t' st' :
    isolate_function_arguments lsr lbr snv t = TOk (t', st') ->
    forallb fai_leaf (tstmts t) = true -> derives carries_guard t t'.
  Proof.
    unfold isolate_function_arguments, run_pass, apply_rewriter. intros E H.
    destruct (modelled_tree t); [|discriminate]. destruct (leaves t); [|discriminate].
    eapply (rewrite_derives F dg ms_fai fai_leaf); eauto.
    intros s0 st0 l0 st1. apply ms_fai_ok.
  Qed.

  Theorem guards_fci lsr lbr snv fixed t t' st' :
    isolate_function_calls lsr lbr snv fixed t = TOk (t', st') ->
    forallb fci_leaf (tstmts t) = true -> derives carries_guard t t'.
  Proof.
    unfold isolate_function_calls, run_pass, apply_rewriter. intros E H.
    destruct (modelled_tree t); [|discriminate]. destruct (leaves t); [|discriminate].
    eapply (rewrite_derives F dg (ms_fci fixed) fci_leaf); eauto.
    intros s0 st0 l0 st1. apply ms_fci_ok.
  Qed.

  Theorem guards_ite lsr lbr snv t t' st' :
    expand_IfThenElse lsr lbr snv true t = TOk (t', st') ->
    forallb ite_leaf (tstmts t) = true -> derives carries_guard t t'.
  Proof.
    unfold expand_IfThenElse, run_pass, apply_rewriter. intros E H.
    destruct (modelled_tree t); [|discriminate]. destruct (leaves t); [|discriminate].
    eapply (rewrite_derives F dg (ms_ite true) ite_leaf); eauto.
    intros s0 st0 l0 st1. apply ms_ite_ok.
  Qed.
End GuardsFour.

(* any user function will do: the guards theorems do not mention it *)
Definition noF (f : string) (pos : list val) (kw : list (string * val)) : option (list val) := None.

Theorem guards_thm lsr lbr snv sds fixed ff ords :
  ff = true ->
  forall t t' st',
    (eliminate_self_dependencies lsr lbr snv sds ords t = TOk (t', st') /\ forallb sd_leaf (tstmts t) = true) \/
    (isolate_function_arguments lsr lbr snv t = TOk (t', st') /\ forallb fai_leaf (tstmts t) = true) \/
    (isolate_function_calls lsr lbr snv fixed t = TOk (t', st') /\ forallb fci_leaf (tstmts t) = true) \/
    (expand_IfThenElse lsr lbr snv ff t = TOk (t', st') /\ forallb ite_leaf (tstmts t) = true) ->
    derives carries_guard t t'.
Proof.
  intros -> t t' st' [[E H]|[[E H]|[[E H]|[E H]]]].
  - eapply (guards_sd noF false); eauto.
  - eapply (guards_fai noF false); eauto.
  - eapply (guards_fci noF false); eauto.
  - eapply (guards_ite noF false); eauto.
Qed.

(* a derived guard that holds implies the guard of the original statement *)
Theorem guard_implied F c g s r :
  gext c g -> cond_t F s g = (r, Ok true) -> exists r', cond_t F s c = (r', Ok true).
Proof. apply gext_holds. Qed.
