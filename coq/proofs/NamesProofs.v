(* C13 -- lemmas about coq/model/Names.v *)
From Coq Require Import List String Ascii Bool Arith NArith Lia DecimalString DecimalN DecimalFacts FinFun.
From Dagrt Require Import GenC13 Names.
Import ListNotations.
Open Scope string_scope.

(* ------------------------------------------------------------------ strings *)

Lemma app_nil_r s : s ++ "" = s.
Proof. induction s as [|c r IH]; cbn; [reflexivity | now rewrite IH]. Qed.

Lemma app_assoc a b c : (a ++ b) ++ c = a ++ (b ++ c).
Proof. induction a as [|x a IH]; cbn; [reflexivity | now rewrite IH]. Qed.

Lemma length_app a b : String.length (a ++ b) = String.length a + String.length b.
Proof. induction a as [|x a IH]; cbn; [reflexivity | now rewrite IH]. Qed.

Lemma app_inv_head a x y : a ++ x = a ++ y -> x = y.
Proof. induction a as [|c a IH]; cbn; intros H; [exact H | injection H as H; auto]. Qed.

Lemma app_neq_self a x : x <> "" -> a ++ x <> a.
Proof.
  intros Hx H. apply (f_equal String.length) in H. rewrite length_app in H.
  destruct x; [congruence | cbn in H; lia].
Qed.

Lemma prefix_app p s : prefix p (p ++ s) = true.
Proof.
  induction p as [|c p IH]; cbn.
  - destruct s; reflexivity.
  - destruct (ascii_dec c c); [exact IH | congruence].
Qed.

Lemma prefix_split p s : prefix p s = true -> exists r, s = p ++ r.
Proof.
  revert s; induction p as [|c p IH]; intros s H.
  - exists s; reflexivity.
  - destruct s as [|d s]; cbn in H; [discriminate|].
    destruct (ascii_dec c d) as [->|]; [|discriminate].
    destruct (IH _ H) as [r ->]. exists r; reflexivity.
Qed.

Lemma prefix_app_l p a b : prefix p a = true -> prefix p (a ++ b) = true.
Proof. intros H. apply prefix_split in H as [r ->]. rewrite app_assoc. apply prefix_app. Qed.

Lemma prefix_iff p s : prefix p s = true <-> exists r, s = p ++ r.
Proof. split; [apply prefix_split | intros [r ->]; apply prefix_app]. Qed.

(* two prefixes of one string are comparable *)
Lemma prefix_comparable p q s :
  prefix p s = true -> prefix q s = true -> prefix p q = true \/ prefix q p = true.
Proof.
  revert q s; induction p as [|c p IH]; intros q s Hp Hq.
  - left. destruct q; reflexivity.
  - destruct q as [|d q]; [right; reflexivity|].
    destruct s as [|e s]; cbn in Hp, Hq; [discriminate|].
    destruct (ascii_dec c e) as [->|]; [|discriminate].
    destruct (ascii_dec d e) as [->|]; [|discriminate].
    cbn. destruct (ascii_dec e e); [|congruence]. eauto.
Qed.

Lemma sall_app p a b : sall p (a ++ b) = sall p a && sall p b.
Proof. induction a as [|c a IH]; cbn; [reflexivity | now rewrite IH, andb_assoc]. Qed.

Lemma smap_app f a b : smap f (a ++ b) = smap f a ++ smap f b.
Proof. induction a as [|c a IH]; cbn; [reflexivity | now rewrite IH]. Qed.

Lemma sall_impl (p q : ascii -> bool) s :
  (forall c, p c = true -> q c = true) -> sall p s = true -> sall q s = true.
Proof.
  intros H; induction s as [|c s IH]; cbn; [reflexivity|].
  rewrite !andb_true_iff. intros [A B]; auto.
Qed.

Lemma sall_smap p f s : (forall c, p (f c) = true) -> sall p (smap f s) = true.
Proof. intros H; induction s as [|c s IH]; cbn; [reflexivity | now rewrite H, IH]. Qed.

Lemma first_is_app p a b : first_is p a = true -> first_is p (a ++ b) = true.
Proof. destruct a; cbn; [discriminate | auto]. Qed.

Lemma is_empty_true s : is_empty s = true <-> s = "".
Proof. destruct s; cbn; split; congruence. Qed.

Lemma is_empty_false s : is_empty s = false <-> s <> "".
Proof. destruct s; cbn; split; congruence. Qed.

Lemma lower_app a b : lower (a ++ b) = lower a ++ lower b.
Proof. apply smap_app. Qed.

(* ------------------------------------------------------------------ characters (256 cases each) *)

Ltac all_ascii c := destruct c as [[] [] [] [] [] [] [] []]; vm_compute; try reflexivity; try discriminate; auto.

Lemma digit_word c : is_digit c = true -> is_word c = true.
Proof. all_ascii c. Qed.
Lemma us_word c : is_us c = true -> is_word c = true.
Proof. all_ascii c. Qed.
Lemma is_us_eq c : is_us c = true <-> c = "_"%char.
Proof. unfold is_us. apply Ascii.eqb_eq. Qed.
Lemma digit_not_us c : is_digit c = true -> is_us c = false.
Proof. all_ascii c. Qed.
Lemma to_lower_digit c : is_digit c = true -> to_lower c = c.
Proof. all_ascii c. Qed.
Lemma to_lower_word c : is_word (to_lower c) = is_word c.
Proof. all_ascii c. Qed.
Lemma to_lower_letter c : is_letter (to_lower c) = is_letter c.
Proof. all_ascii c. Qed.
Lemma to_lower_us c : is_us (to_lower c) = is_us c.
Proof. all_ascii c. Qed.
Lemma to_lower_idem c : to_lower (to_lower c) = to_lower c.
Proof. all_ascii c. Qed.

Lemma lower_digits s : sall is_digit s = true -> lower s = s.
Proof. unfold lower.
  induction s as [|c s IH]; cbn; [reflexivity|]. rewrite andb_true_iff. intros [A B].
  now rewrite to_lower_digit, IH.
Qed.

Lemma lower_idem s : lower (lower s) = lower s.
Proof. unfold lower. induction s as [|c s IH]; cbn; [reflexivity | now rewrite to_lower_idem, IH]. Qed.

Lemma sall_word_lower s : sall is_word (lower s) = sall is_word s.
Proof. unfold lower. induction s as [|c s IH]; cbn; [reflexivity | now rewrite to_lower_word, IH]. Qed.

Lemma length_lower s : String.length (lower s) = String.length s.
Proof. unfold lower. induction s as [|c s IH]; cbn; [reflexivity | now rewrite IH]. Qed.

(* ------------------------------------------------------------------ decimal printing *)

Lemma string_of_uint_digits d : sall is_digit (NilEmpty.string_of_uint d) = true.
Proof. unfold lower. induction d; cbn; try reflexivity; exact IHd. Qed.

Lemma dec_digits n : sall is_digit (dec n) = true.
Proof. apply string_of_uint_digits. Qed.

Lemma dec_inj n m : dec n = dec m -> n = m.
Proof.
  unfold dec; intros H. apply DecimalN.Unsigned.to_uint_inj.
  apply (f_equal NilEmpty.uint_of_string) in H. rewrite !NilEmpty.usu in H. congruence.
Qed.

Lemma dec_word n : sall is_word (dec n) = true.
Proof. apply sall_impl with (p := is_digit); [apply digit_word | apply dec_digits]. Qed.

Lemma lower_dec n : lower (dec n) = dec n.
Proof. apply lower_digits, dec_digits. Qed.

(* ------------------------------------------------------------------ candidate names *)

Lemma nrm_numbered cf base n : nrm cf (numbered base n) = numbered (nrm cf base) n.
Proof.
  destruct cf; cbn; [|reflexivity]. unfold numbered.
  rewrite !lower_app, lower_dec. reflexivity.
Qed.

Lemma numbered_inj base n m : numbered base n = numbered base m -> n = m.
Proof. unfold numbered. intros H. apply app_inv_head in H. cbn in H. injection H as H. now apply dec_inj. Qed.

Lemma nrm_numbered_inj cf base n m : nrm cf (numbered base n) = nrm cf (numbered base m) -> n = m.
Proof. rewrite !nrm_numbered. apply numbered_inj. Qed.

Lemma numbered_neq_base cf base n : nrm cf (numbered base n) <> nrm cf base.
Proof. rewrite nrm_numbered. unfold numbered. apply app_neq_self. discriminate. Qed.

Lemma conflicting_true cf ex name :
  conflicting cf ex name = true <-> In (nrm cf name) (map (nrm cf) ex).
Proof.
  unfold conflicting. rewrite existsb_exists, in_map_iff. split.
  - intros [e [Hin He]]. apply String.eqb_eq in He. eauto.
  - intros [e [He Hin]]. exists e. split; [exact Hin | now apply String.eqb_eq].
Qed.

Lemma conflicting_false cf ex name :
  conflicting cf ex name = false <-> ~ In (nrm cf name) (map (nrm cf) ex).
Proof. rewrite <- conflicting_true. destruct (conflicting cf ex name); split; congruence. Qed.

(* ------------------------------------------------------------------ the candidate search *)

Lemma search_some cf ex base fuel n c name :
  search cf ex base fuel n = Some (c, name) ->
  exists m, name = numbered base m /\ c = N.succ m /\ conflicting cf ex name = false.
Proof.
  revert n; induction fuel as [|f IH]; intros n H; cbn in H; [discriminate|].
  destruct (conflicting cf ex (numbered base n)) eqn:E.
  - eauto.
  - injection H as <- <-. eauto.
Qed.

Lemma search_none cf ex base fuel n :
  search cf ex base fuel n = None ->
  forall i, i < fuel -> conflicting cf ex (numbered base (n + N.of_nat i)) = true.
Proof.
  revert n; induction fuel as [|f IH]; intros n H i Hi; [lia|]. cbn in H.
  destruct (conflicting cf ex (numbered base n)) eqn:E; [|discriminate].
  destruct i as [|i].
  - now rewrite N.add_0_r.
  - specialize (IH _ H i ltac:(lia)). replace (n + N.of_nat (S i))%N with (N.succ n + N.of_nat i)%N by lia.
    exact IH.
Qed.

(* pigeonhole: |existing|+1 pairwise different candidates cannot all be taken *)
Lemma candidates_nodup cf base n k :
  NoDup (map (fun i => nrm cf (numbered base (n + N.of_nat i))) (seq 0 k)).
Proof.
  apply FinFun.Injective_map_NoDup; [|apply seq_NoDup].
  intros i j H. apply nrm_numbered_inj in H. lia.
Qed.

Lemma search_adequate cf ex base n : search cf ex base (S (List.length ex)) n <> None.
Proof.
  intros H. pose proof (search_none _ _ _ _ _ H) as A.
  pose proof (candidates_nodup cf base n (S (List.length ex))) as ND.
  assert (I : incl (map (fun i => nrm cf (numbered base (n + N.of_nat i))) (seq 0 (S (List.length ex))))
                   (map (nrm cf) ex)).
  { intros x Hx. apply in_map_iff in Hx as [i [<- Hi]]. apply in_seq in Hi.
    apply conflicting_true, A. lia. }
  apply NoDup_incl_length in I; [|exact ND]. rewrite !map_length, seq_length in I. lia.
Qed.

(* the unnumbered candidate and |existing| numbered ones *)
Lemma search_adequate_bare cf ex base :
  conflicting cf ex base = true -> search cf ex base (List.length ex) 0%N <> None.
Proof.
  intros C H. pose proof (search_none _ _ _ _ _ H) as A.
  pose proof (candidates_nodup cf base 0%N (List.length ex)) as ND.
  set (l := map (fun i => nrm cf (numbered base (0 + N.of_nat i))) (seq 0 (List.length ex))) in *.
  assert (ND' : NoDup (nrm cf base :: l)).
  { constructor; [|exact ND]. intros Hin. apply in_map_iff in Hin as [i [Hi _]].
    now apply numbered_neq_base in Hi. }
  assert (I : incl (nrm cf base :: l) (map (nrm cf) ex)).
  { intros x [<-|Hx]; [now apply conflicting_true|].
    apply in_map_iff in Hx as [i [<- Hi]]. apply in_seq in Hi. apply conflicting_true, A. lia. }
  apply NoDup_incl_length in I; [|exact ND']. subst l. cbn in I. rewrite !map_length, seq_length in I. lia.
Qed.

(* ------------------------------------------------------------------ the counter pattern *)

Lemma rsplit_app s a b : rsplit s = Some (a, b) -> s = a ++ "_" ++ b.
Proof.
  revert a b; induction s as [|c s IH]; intros a b H; cbn in H; [discriminate|].
  destruct (rsplit s) as [[a' b']|] eqn:E.
  - injection H as <- <-. cbn. now rewrite (IH _ _ eq_refl).
  - destruct (is_us c) eqn:U; [|discriminate]. injection H as <- <-. apply is_us_eq in U. now subst.
Qed.

Lemma rsplit_no_us s : sall (fun c => negb (is_us c)) s = true -> rsplit s = None.
Proof.
  induction s as [|c s IH]; cbn; [reflexivity|]. rewrite andb_true_iff. intros [A B].
  rewrite (IH B). apply negb_true_iff in A. now rewrite A.
Qed.

(* an underscore-free head survives the split *)
Lemma rsplit_head h s a b :
  sall (fun c => negb (is_us c)) h = true -> rsplit (h ++ s) = Some (a, b) ->
  exists a0, a = h ++ a0 /\ rsplit s = Some (a0, b).
Proof.
  revert a; induction h as [|c h IH]; intros a Hh H.
  - exists a. auto.
  - cbn in Hh. apply andb_true_iff in Hh as [Hc Hh]. apply negb_true_iff in Hc.
    cbn in H. destruct (rsplit (h ++ s)) as [[a' b']|] eqn:E.
    + injection H as <- <-. destruct (IH _ Hh eq_refl) as [a0 [-> R]]. exists a0. auto.
    + rewrite Hc in H. discriminate.
Qed.

Lemma rsplit_us_cons s a b :
  rsplit (String "_" s) = Some (a, b) -> a = "" \/ exists a', a = String "_" a'.
Proof.
  cbn. destruct (rsplit s) as [[a' b']|]; intros H; injection H as <- <-; eauto.
Qed.

Lemma split_counter_some s a n :
  split_counter s = Some (a, n) ->
  exists d, s = a ++ "_" ++ d /\ a <> "" /\ sall is_word a = true /\ sall is_digit d = true.
Proof.
  unfold split_counter. destruct (rsplit s) as [[a' b']|] eqn:E; [|discriminate].
  destruct (negb (is_empty a') && sall is_word a' && negb (is_empty b') && sall is_digit b') eqn:C; [|discriminate].
  intros H; injection H as <- <-.
  rewrite !andb_true_iff in C. destruct C as [[[C1 C2] C3] C4].
  exists b'. repeat split; auto using rsplit_app.
  apply negb_true_iff, is_empty_false in C1. exact C1.
Qed.

Lemma split_counter_word s : sall is_word s = false -> split_counter s = None.
Proof.
  intros H. destruct (split_counter s) as [[a n]|] eqn:E; [|reflexivity].
  apply split_counter_some in E as [d [-> [_ [Wa Wd]]]].
  rewrite !sall_app, Wa in H. cbn in H.
  rewrite (sall_impl _ _ _ digit_word Wd) in H. discriminate.
Qed.

(* ------------------------------------------------------------------ UniqueNameGenerator.__call__ *)

(* the shape of a generated name for forced prefix fp and (translated) request b *)
Definition out_shape (fp b v : string) : Prop :=
  v = fp ++ b \/
  exists base n, v = numbered base n /\
                 (base = fp ++ b \/ exists m, split_counter (fp ++ b) = Some (base, m)).

Lemma base_and_counter_spec g b0 base c :
  base_and_counter g b0 = (base, c) ->
  (base = b0 \/ exists m, split_counter b0 = Some (base, m)) /\
  (c = None -> base = b0).
Proof.
  unfold base_and_counter. destruct (assoc b0 (g_counters g)) as [c'|].
  - intros H; injection H as <- <-. split; [auto | auto].
  - destruct (split_counter b0) as [[a n]|] eqn:E; intros H; injection H as <- <-.
    + split; [eauto | discriminate].
    + split; auto.
Qed.

Theorem gen_call_spec cf g b v g' :
  gen_call cf g b = Ok (v, g') ->
  out_shape (g_fp g) b v /\
  conflicting cf (g_existing g) v = false /\
  g_existing g' = v :: g_existing g /\ g_fp g' = g_fp g.
Proof.
  unfold gen_call. destruct (base_and_counter g (g_fp g ++ b)) as [base c] eqn:BC. cbn [fst snd].
  apply base_and_counter_spec in BC as [B1 B2].
  destruct c as [n|].
  - destruct (search cf (g_existing g) base (S (List.length (g_existing g))) n) as [[c name]|] eqn:S; [|discriminate].
    intros H; injection H as <- <-. apply search_some in S as [m [-> [_ C]]].
    repeat split; auto. right. exists base, m. auto.
  - specialize (B2 eq_refl). subst base.
    destruct (conflicting cf (g_existing g) (g_fp g ++ b)) eqn:C.
    + destruct (search cf (g_existing g) (g_fp g ++ b) (List.length (g_existing g)) 0%N) as [[c name]|] eqn:S;
        [|discriminate].
      intros H; injection H as <- <-. apply search_some in S as [m [-> [_ C']]].
      repeat split; auto. right. exists (g_fp g ++ b), m. auto.
    + intros H; injection H as <- <-. repeat split; auto. now left.
Qed.

(* termination: the fuel |existing|+1 is always enough *)
Theorem gen_call_total cf g b : exists v g', gen_call cf g b = Ok (v, g').
Proof.
  unfold gen_call. destruct (base_and_counter g (g_fp g ++ b)) as [base c]. cbn [fst snd].
  destruct c as [n|].
  - destruct (search cf (g_existing g) base (S (List.length (g_existing g))) n) as [[c name]|] eqn:S.
    + eauto.
    + now apply search_adequate in S.
  - destruct (conflicting cf (g_existing g) base) eqn:C.
    + destruct (search cf (g_existing g) base (List.length (g_existing g)) 0%N) as [[c name]|] eqn:S.
      * eauto.
      * now apply search_adequate_bare in S.
    + eauto.
Qed.

Lemma gen_call_not_error cf g b : gen_call cf g b <> OutOfFuel /\ gen_call cf g b <> ValueError.
Proof. destruct (gen_call_total cf g b) as [v [g' ->]]. split; discriminate. Qed.

(* ------------------------------------------------------------------ more on shapes *)

Lemma split_counter_rsplit s a n :
  split_counter s = Some (a, n) -> exists d, rsplit s = Some (a, d) /\ sall is_digit d = true.
Proof.
  unfold split_counter. destruct (rsplit s) as [[a' b']|] eqn:E; [|discriminate].
  destruct (negb (is_empty a') && sall is_word a' && negb (is_empty b') && sall is_digit b') eqn:C; [|discriminate].
  intros H; injection H as <- <-. rewrite !andb_true_iff in C. destruct C as [_ C4]. eauto.
Qed.

(* an underscore-free head of the request is a head of the generated name *)
Lemma out_shape_head h fp b v :
  sall (fun c => negb (is_us c)) h = true -> prefix h (fp ++ b) = true -> out_shape fp b v ->
  prefix h v = true.
Proof.
  intros Hh Hp [->|[base [n [-> [->|[m S]]]]]]; auto.
  - apply prefix_split in Hp as [r ->]. unfold numbered. rewrite app_assoc. apply prefix_app.
  - apply prefix_split in Hp as [r Hr]. rewrite Hr in S.
    apply split_counter_rsplit in S as [d [S _]].
    apply rsplit_head in S as [a0 [-> _]]; [|exact Hh]. unfold numbered. rewrite app_assoc. apply prefix_app.
Qed.

(* ... and if the head is followed by an underscore in the request, so it is in the generated name *)
Lemma out_shape_head_us h fp b v x :
  sall (fun c => negb (is_us c)) h = true -> fp ++ b = h ++ "_" ++ x -> out_shape fp b v ->
  prefix (h ++ "_") v = true.
Proof.
  intros Hh E [->|[base [n [-> [->|[m S]]]]]].
  - rewrite E, <- app_assoc. apply prefix_app.
  - rewrite E. unfold numbered. apply prefix_app_l. rewrite <- app_assoc. apply prefix_app.
  - rewrite E in S. apply split_counter_rsplit in S as [d [S _]].
    apply rsplit_head in S as [a0 [-> S]]; [|exact Hh]. cbn in S.
    unfold numbered. destruct (rsplit x) as [[a' b']|]; injection S as <- <-.
    + apply prefix_app_l. replace (h ++ String "_" a') with ((h ++ "_") ++ a') by (rewrite app_assoc; reflexivity).
      apply prefix_app.
    + rewrite app_nil_r. rewrite <- app_assoc. apply prefix_app.
Qed.

(* a forced prefix with a character outside \w disables the counter pattern *)
Lemma out_shape_nonword fp b v :
  sall is_word fp = false -> out_shape fp b v -> v = fp ++ b \/ exists n, v = numbered (fp ++ b) n.
Proof.
  intros W [->|[base [n [-> [->|[m S]]]]]]; eauto.
  rewrite split_counter_word in S; [discriminate|]. now rewrite sall_app, W.
Qed.

Lemma sall_numbered base n : sall is_word base = true -> sall is_word (numbered base n) = true.
Proof.
  intros W. unfold numbered. rewrite sall_app, W. change ("_" ++ dec n) with (String "_" (dec n)).
  cbn [sall]. rewrite dec_word. reflexivity.
Qed.

Lemma out_shape_word fp b v :
  sall is_word (fp ++ b) = true -> out_shape fp b v -> sall is_word v = true.
Proof.
  intros W [->|[base [n [-> [->|[m S]]]]]]; auto; apply sall_numbered; auto.
  apply split_counter_some in S as [d [E [_ [Wa _]]]]. exact Wa.
Qed.

Lemma out_shape_first p fp b v :
  first_is p (fp ++ b) = true -> out_shape fp b v -> first_is p v = true.
Proof.
  intros F [->|[base [n [-> [->|[m S]]]]]]; auto; unfold numbered.
  - now apply first_is_app.
  - apply split_counter_some in S as [d [E [Ne _]]]. rewrite E in F.
    destruct base; [congruence|]. exact F.
Qed.

(* ------------------------------------------------------------------ make_identifier_from_name *)

Lemma ident_chars_word : sall is_word ident_chars = true.
Proof. reflexivity. Qed.

Lemma smem_sall p c s : sall p s = true -> smem c s = true -> p c = true.
Proof.
  induction s as [|d s IH]; cbn; [discriminate|]. rewrite andb_true_iff, orb_true_iff.
  intros [A B] [E|E]; auto. apply Ascii.eqb_eq in E. now subst.
Qed.

Lemma sanitise_char_word c : is_word (sanitise_char c) = true.
Proof.
  unfold sanitise_char. destruct (smem c ident_chars) eqn:E; [|reflexivity].
  exact (smem_sall _ _ _ ident_chars_word E).
Qed.

Lemma lstrip_us_word s : sall is_word s = true -> sall is_word (lstrip_us s) = true.
Proof.
  induction s as [|c s IH]; cbn; [reflexivity|]. rewrite andb_true_iff. intros [A B].
  destruct (is_us c); [auto | cbn; now rewrite A, B].
Qed.

Lemma lstrip_us_first s : lstrip_us s = "" \/ first_is (fun c => negb (is_us c)) (lstrip_us s) = true.
Proof.
  induction s as [|c s IH]; cbn; [now left|]. destruct (is_us c) eqn:E; [exact IH|].
  right. cbn. now rewrite E.
Qed.

Lemma lstrip_us_app a b : lstrip_us a <> "" -> lstrip_us (a ++ b) = lstrip_us a ++ b.
Proof.
  induction a as [|c a IH]; cbn; [congruence|]. destruct (is_us c); [exact IH | reflexivity].
Qed.

Lemma make_identifier_word s : sall is_word (make_identifier s) = true.
Proof.
  unfold make_identifier. destruct (is_empty _); [reflexivity|].
  apply lstrip_us_word, sall_smap, sanitise_char_word.
Qed.

Lemma make_identifier_first s : first_is (fun c => negb (is_us c)) (make_identifier s) = true.
Proof.
  unfold make_identifier. destruct (is_empty _) eqn:E; [reflexivity|].
  destruct (lstrip_us_first (smap sanitise_char s)) as [H|H]; [|exact H].
  apply is_empty_false in E. contradiction.
Qed.

(* a tag (or prefix) whose sanitised form does not vanish stays in front *)
Lemma make_identifier_tag t r :
  lstrip_us (smap sanitise_char t) <> "" ->
  make_identifier (t ++ r) = lstrip_us (smap sanitise_char t) ++ smap sanitise_char r.
Proof.
  intros H. unfold make_identifier. rewrite smap_app, lstrip_us_app by exact H.
  destruct (lstrip_us (smap sanitise_char t)); [congruence | reflexivity].
Qed.

(* ------------------------------------------------------------------ KeyToUniqueNameMap *)

Lemma assoc_in {B} k (v : B) l : assoc k l = Some v -> In (k, v) l.
Proof.
  induction l as [|[k' v'] l IH]; cbn; [discriminate|].
  destruct (String.eqb k k') eqn:E.
  - apply String.eqb_eq in E. intros H; injection H as <-. subst. now left.
  - auto.
Qed.

Definition seed_of (key : string) (p : option string) : string :=
  match p with Some q => q ++ key | None => key end.

Lemma gom_spec cf d g key p v d' g' :
  get_or_make cf d g key p = Ok (v, d', g') ->
  (assoc key d = Some v /\ d' = d /\ g' = g) \/
  (assoc key d = None /\ d' = (key, v) :: d /\ gen_call cf g (make_identifier (seed_of key p)) = Ok (v, g')).
Proof.
  unfold get_or_make, gen_call_key, seed_of. destruct (assoc key d) as [w|].
  - intros H; injection H as <- <- <-. auto.
  - destruct (gen_call cf g _) as [[w g1]| |] eqn:E; try discriminate.
    intros H; injection H as <- <- <-. auto.
Qed.

Lemma gom_total cf d g key p : exists v d' g', get_or_make cf d g key p = Ok (v, d', g').
Proof.
  unfold get_or_make, gen_call_key. destruct (assoc key d) as [w|]; [eauto|].
  destruct (gen_call_total cf g (make_identifier (match p with Some p0 => p0 ++ key | None => key end)))
    as [v [g' ->]]. eauto.
Qed.

Lemma gom_hit cf d g key p v : assoc key d = Some v -> get_or_make cf d g key p = Ok (v, d, g).
Proof. unfold get_or_make. now intros ->. Qed.
