(* C13 -- lemmas about coq/model/Names.v *)
From Coq Require Import List String Ascii Bool Arith NArith Lia DecimalString DecimalN DecimalFacts FinFun.
From Dagrt Require Import GenC13 Names.
Import ListNotations.
Open Scope string_scope.

(* ------------------------------------------------------------------ strings *)

Lemma app_nil_r s : s ++ "" = s.
Proof. induction s as [|c r IH]; cbn; [reflexivity | now rewrite IH]. Qed.

Lemma app_assoc a b c : (a ++ b) ++ c = a ++ (b ++ c).
Proof. induction a as [|x a IH]; cbn; [reflexivity | now rewrite IH]. Qed.

Lemma length_app a b : String.length (a ++ b) = String.length a + String.length b.
Proof. induction a as [|x a IH]; cbn; [reflexivity | now rewrite IH]. Qed.

Lemma app_inv_head a x y : a ++ x = a ++ y -> x = y.
Proof. induction a as [|c a IH]; cbn; intros H; [exact H | injection H as H; auto]. Qed.

Lemma app_neq_self a x : x <> "" -> a ++ x <> a.
Proof.
  intros Hx H. apply (f_equal String.length) in H. rewrite length_app in H.
  destruct x; [congruence | cbn in H; lia].
Qed.

Lemma prefix_app p s : prefix p (p ++ s) = true.
Proof.
  induction p as [|c p IH]; cbn.
  - destruct s; reflexivity.
  - destruct (ascii_dec c c); [exact IH | congruence].
Qed.

Lemma prefix_split p s : prefix p s = true -> exists r, s = p ++ r.
Proof.
  revert s; induction p as [|c p IH]; intros s H.
  - exists s; reflexivity.
  - destruct s as [|d s]; cbn in H; [discriminate|].
    destruct (ascii_dec c d) as [->|]; [|discriminate].
    destruct (IH _ H) as [r ->]. exists r; reflexivity.
Qed.

Lemma prefix_app_l p a b : prefix p a = true -> prefix p (a ++ b) = true.
Proof. intros H. apply prefix_split in H as [r ->]. rewrite app_assoc. apply prefix_app. Qed.

Lemma prefix_iff p s : prefix p s = true <-> exists r, s = p ++ r.
Proof. split; [apply prefix_split | intros [r ->]; apply prefix_app]. Qed.

(* two prefixes of one string are comparable *)
Lemma prefix_comparable p q s :
  prefix p s = true -> prefix q s = true -> prefix p q = true \/ prefix q p = true.
Proof.
  revert q s; induction p as [|c p IH]; intros q s Hp Hq.
  - left. destruct q; reflexivity.
  - destruct q as [|d q]; [right; reflexivity|].
    destruct s as [|e s]; cbn in Hp, Hq; [discriminate|].
    destruct (ascii_dec c e) as [->|]; [|discriminate].
    destruct (ascii_dec d e) as [->|]; [|discriminate].
    cbn. destruct (ascii_dec e e); [|congruence]. exact (IH q s Hp Hq).
Qed.

Lemma sall_app p a b : sall p (a ++ b) = sall p a && sall p b.
Proof. induction a as [|c a IH]; cbn; [reflexivity | now rewrite IH, andb_assoc]. Qed.

Lemma smap_app f a b : smap f (a ++ b) = smap f a ++ smap f b.
Proof. induction a as [|c a IH]; cbn; [reflexivity | now rewrite IH]. Qed.

Lemma sall_impl (p q : ascii -> bool) s :
  (forall c, p c = true -> q c = true) -> sall p s = true -> sall q s = true.
Proof.
  intros H; induction s as [|c s IH]; cbn; [reflexivity|].
  rewrite !andb_true_iff. intros [A B]; auto.
Qed.

Lemma sall_smap p f s : (forall c, p (f c) = true) -> sall p (smap f s) = true.
Proof. intros H; induction s as [|c s IH]; cbn; [reflexivity | now rewrite H, IH]. Qed.

Lemma first_is_app p a b : first_is p a = true -> first_is p (a ++ b) = true.
Proof. destruct a; cbn; [discriminate | auto]. Qed.

Lemma is_empty_true s : is_empty s = true <-> s = "".
Proof. destruct s; cbn; split; congruence. Qed.

Lemma is_empty_false s : is_empty s = false <-> s <> "".
Proof. destruct s; cbn; split; congruence. Qed.

Lemma lower_app a b : lower (a ++ b) = lower a ++ lower b.
Proof. apply smap_app. Qed.

(* ------------------------------------------------------------------ characters (256 cases each) *)

Ltac all_ascii c := destruct c as [[] [] [] [] [] [] [] []]; vm_compute; try reflexivity; try discriminate; auto.

Lemma digit_word c : is_digit c = true -> is_word c = true.
Proof. all_ascii c. Qed.
Lemma us_word c : is_us c = true -> is_word c = true.
Proof. all_ascii c. Qed.
Lemma is_us_eq c : is_us c = true <-> c = "_"%char.
Proof. unfold is_us. apply Ascii.eqb_eq. Qed.
Lemma digit_not_us c : is_digit c = true -> is_us c = false.
Proof. all_ascii c. Qed.
Lemma to_lower_digit c : is_digit c = true -> to_lower c = c.
Proof. all_ascii c. Qed.
Lemma to_lower_word c : is_word (to_lower c) = is_word c.
Proof. all_ascii c. Qed.
Lemma to_lower_letter c : is_letter (to_lower c) = is_letter c.
Proof. all_ascii c. Qed.
Lemma to_lower_us c : is_us (to_lower c) = is_us c.
Proof. all_ascii c. Qed.
Lemma to_lower_idem c : to_lower (to_lower c) = to_lower c.
Proof. all_ascii c. Qed.

Lemma lower_digits s : sall is_digit s = true -> lower s = s.
Proof. unfold lower.
  induction s as [|c s IH]; cbn; [reflexivity|]. rewrite andb_true_iff. intros [A B].
  now rewrite to_lower_digit, IH.
Qed.

Lemma lower_idem s : lower (lower s) = lower s.
Proof. unfold lower. induction s as [|c s IH]; cbn; [reflexivity | now rewrite to_lower_idem, IH]. Qed.

Lemma sall_word_lower s : sall is_word (lower s) = sall is_word s.
Proof. unfold lower. induction s as [|c s IH]; cbn; [reflexivity | now rewrite to_lower_word, IH]. Qed.

Lemma length_lower s : String.length (lower s) = String.length s.
Proof. unfold lower. induction s as [|c s IH]; cbn; [reflexivity | now rewrite IH]. Qed.

(* ------------------------------------------------------------------ decimal printing *)

Lemma string_of_uint_digits d : sall is_digit (NilEmpty.string_of_uint d) = true.
Proof. unfold lower. induction d; cbn; try reflexivity; exact IHd. Qed.

Lemma dec_digits n : sall is_digit (dec n) = true.
Proof. apply string_of_uint_digits. Qed.

Lemma dec_inj n m : dec n = dec m -> n = m.
Proof.
  unfold dec; intros H. apply DecimalN.Unsigned.to_uint_inj.
  apply (f_equal NilEmpty.uint_of_string) in H. rewrite !NilEmpty.usu in H. congruence.
Qed.

Lemma dec_word n : sall is_word (dec n) = true.
Proof. apply sall_impl with (p := is_digit); [apply digit_word | apply dec_digits]. Qed.

Lemma lower_dec n : lower (dec n) = dec n.
Proof. apply lower_digits, dec_digits. Qed.

(* ------------------------------------------------------------------ candidate names *)

Lemma nrm_numbered cf base n : nrm cf (numbered base n) = numbered (nrm cf base) n.
Proof.
  destruct cf; cbn; [|reflexivity]. unfold numbered.
  rewrite !lower_app, lower_dec. reflexivity.
Qed.

Lemma numbered_inj base n m : numbered base n = numbered base m -> n = m.
Proof. unfold numbered. intros H. apply app_inv_head in H. cbn in H. injection H as H. now apply dec_inj. Qed.

Lemma nrm_numbered_inj cf base n m : nrm cf (numbered base n) = nrm cf (numbered base m) -> n = m.
Proof. rewrite !nrm_numbered. apply numbered_inj. Qed.

Lemma numbered_neq_base cf base n : nrm cf (numbered base n) <> nrm cf base.
Proof. rewrite nrm_numbered. unfold numbered. apply app_neq_self. discriminate. Qed.

Lemma conflicting_true cf ex name :
  conflicting cf ex name = true <-> In (nrm cf name) (map (nrm cf) ex).
Proof.
  unfold conflicting. rewrite existsb_exists, in_map_iff. split.
  - intros [e [Hin He]]. apply String.eqb_eq in He. eauto.
  - intros [e [He Hin]]. exists e. split; [exact Hin | now apply String.eqb_eq].
Qed.

Lemma conflicting_false cf ex name :
  conflicting cf ex name = false <-> ~ In (nrm cf name) (map (nrm cf) ex).
Proof. rewrite <- conflicting_true. destruct (conflicting cf ex name); split; congruence. Qed.

(* ------------------------------------------------------------------ the candidate search *)

Lemma search_some cf ex base fuel n c name :
  search cf ex base fuel n = Some (c, name) ->
  exists m, name = numbered base m /\ c = N.succ m /\ conflicting cf ex name = false.
Proof.
  revert n; induction fuel as [|f IH]; intros n H; cbn in H; [discriminate|].
  destruct (conflicting cf ex (numbered base n)) eqn:E.
  - eauto.
  - injection H as <- <-. eauto.
Qed.

Lemma search_none cf ex base fuel n :
  search cf ex base fuel n = None ->
  forall i, i < fuel -> conflicting cf ex (numbered base (n + N.of_nat i)) = true.
Proof.
  revert n; induction fuel as [|f IH]; intros n H i Hi; [lia|]. cbn in H.
  destruct (conflicting cf ex (numbered base n)) eqn:E; [|discriminate].
  destruct i as [|i].
  - now rewrite N.add_0_r.
  - specialize (IH _ H i ltac:(lia)). replace (n + N.of_nat (S i))%N with (N.succ n + N.of_nat i)%N by lia.
    exact IH.
Qed.

(* pigeonhole: |existing|+1 pairwise different candidates cannot all be taken *)
Lemma candidates_nodup cf base n k :
  NoDup (map (fun i => nrm cf (numbered base (n + N.of_nat i))) (seq 0 k)).
Proof.
  apply FinFun.Injective_map_NoDup; [|apply seq_NoDup].
  intros i j H. apply nrm_numbered_inj in H. lia.
Qed.

Lemma search_adequate cf ex base n : search cf ex base (S (List.length ex)) n <> None.
Proof.
  intros H. pose proof (search_none _ _ _ _ _ H) as A.
  pose proof (candidates_nodup cf base n (S (List.length ex))) as ND.
  assert (I : incl (map (fun i => nrm cf (numbered base (n + N.of_nat i))) (seq 0 (S (List.length ex))))
                   (map (nrm cf) ex)).
  { intros x Hx. apply in_map_iff in Hx as [i [<- Hi]]. apply in_seq in Hi.
    apply conflicting_true, A. lia. }
  apply NoDup_incl_length in I; [|exact ND]. rewrite !map_length, seq_length in I. lia.
Qed.

(* the unnumbered candidate and |existing| numbered ones *)
Lemma search_adequate_bare cf ex base :
  conflicting cf ex base = true -> search cf ex base (List.length ex) 0%N <> None.
Proof.
  intros C H. pose proof (search_none _ _ _ _ _ H) as A.
  pose proof (candidates_nodup cf base 0%N (List.length ex)) as ND.
  set (l := map (fun i => nrm cf (numbered base (0 + N.of_nat i))) (seq 0 (List.length ex))) in *.
  assert (ND' : NoDup (nrm cf base :: l)).
  { constructor; [|exact ND]. intros Hin. apply in_map_iff in Hin as [i [Hi _]].
    now apply numbered_neq_base in Hi. }
  assert (I : incl (nrm cf base :: l) (map (nrm cf) ex)).
  { intros x [<-|Hx]; [now apply conflicting_true|].
    apply in_map_iff in Hx as [i [<- Hi]]. apply in_seq in Hi. apply conflicting_true, A. lia. }
  apply NoDup_incl_length in I; [|exact ND']. subst l. cbn in I. rewrite !map_length, seq_length in I. lia.
Qed.

(* ------------------------------------------------------------------ the counter pattern *)

Lemma rsplit_app s a b : rsplit s = Some (a, b) -> s = a ++ "_" ++ b.
Proof.
  revert a b; induction s as [|c s IH]; intros a b H; cbn in H; [discriminate|].
  destruct (rsplit s) as [[a' b']|] eqn:E.
  - injection H as <- <-. cbn. now rewrite (IH _ _ eq_refl).
  - destruct (is_us c) eqn:U; [|discriminate]. injection H as <- <-. apply is_us_eq in U. now subst.
Qed.

Lemma rsplit_no_us s : sall (fun c => negb (is_us c)) s = true -> rsplit s = None.
Proof.
  induction s as [|c s IH]; cbn; [reflexivity|]. rewrite andb_true_iff. intros [A B].
  rewrite (IH B). apply negb_true_iff in A. now rewrite A.
Qed.

(* an underscore-free head survives the split *)
Lemma rsplit_head h s a b :
  sall (fun c => negb (is_us c)) h = true -> rsplit (h ++ s) = Some (a, b) ->
  exists a0, a = h ++ a0 /\ rsplit s = Some (a0, b).
Proof.
  revert a; induction h as [|c h IH]; intros a Hh H.
  - exists a. auto.
  - cbn in Hh. apply andb_true_iff in Hh as [Hc Hh]. apply negb_true_iff in Hc.
    cbn in H. destruct (rsplit (h ++ s)) as [[a' b']|] eqn:E.
    + injection H as <- <-. destruct (IH _ Hh eq_refl) as [a0 [-> R]]. exists a0. auto.
    + rewrite Hc in H. discriminate.
Qed.

Lemma rsplit_us_cons s a b :
  rsplit (String "_" s) = Some (a, b) -> a = "" \/ exists a', a = String "_" a'.
Proof.
  cbn. destruct (rsplit s) as [[a' b']|]; intros H; injection H as <- <-; eauto.
Qed.

Lemma split_counter_some s a n :
  split_counter s = Some (a, n) ->
  exists d, s = a ++ "_" ++ d /\ a <> "" /\ sall is_word a = true /\ sall is_digit d = true.
Proof.
  unfold split_counter. destruct (rsplit s) as [[a' b']|] eqn:E; [|discriminate].
  destruct (negb (is_empty a') && sall is_word a' && negb (is_empty b') && sall is_digit b') eqn:C; [|discriminate].
  intros H; injection H as <- <-.
  rewrite !andb_true_iff in C. destruct C as [[[C1 C2] C3] C4].
  exists b'. repeat split; auto using rsplit_app.
  apply negb_true_iff, is_empty_false in C1. exact C1.
Qed.

Lemma split_counter_word s : sall is_word s = false -> split_counter s = None.
Proof.
  intros H. destruct (split_counter s) as [[a n]|] eqn:E; [|reflexivity].
  apply split_counter_some in E as [d [-> [_ [Wa Wd]]]].
  rewrite !sall_app, Wa in H. cbn in H.
  rewrite (sall_impl _ _ _ digit_word Wd) in H. discriminate.
Qed.

(* ------------------------------------------------------------------ UniqueNameGenerator.__call__ *)

(* the shape of a generated name for forced prefix fp and (translated) request b *)
Definition out_shape (fp b v : string) : Prop :=
  v = fp ++ b \/
  exists base n, v = numbered base n /\
                 (base = fp ++ b \/ exists m, split_counter (fp ++ b) = Some (base, m)).

Lemma base_and_counter_spec g b0 base c :
  base_and_counter g b0 = (base, c) ->
  (base = b0 \/ exists m, split_counter b0 = Some (base, m)) /\
  (c = None -> base = b0).
Proof.
  unfold base_and_counter. destruct (assoc b0 (g_counters g)) as [c'|].
  - intros H; injection H as <- <-. split; [auto | auto].
  - destruct (split_counter b0) as [[a n]|] eqn:E; intros H; injection H as <- <-.
    + split; [eauto | discriminate].
    + split; auto.
Qed.

Theorem gen_call_spec cf g b v g' :
  gen_call cf g b = Ok (v, g') ->
  out_shape (g_fp g) b v /\
  conflicting cf (g_existing g) v = false /\
  g_existing g' = v :: g_existing g /\ g_fp g' = g_fp g.
Proof.
  unfold gen_call. destruct (base_and_counter g (g_fp g ++ b)) as [base c] eqn:BC. cbn [fst snd].
  apply base_and_counter_spec in BC as [B1 B2].
  destruct c as [n|].
  - destruct (search cf (g_existing g) base (S (List.length (g_existing g))) n) as [[c name]|] eqn:S; [|discriminate].
    intros H; injection H as <- <-. apply search_some in S as [m [-> [_ C]]].
    repeat split; auto. right. exists base, m. auto.
  - specialize (B2 eq_refl). subst base.
    destruct (conflicting cf (g_existing g) (g_fp g ++ b)) eqn:C.
    + destruct (search cf (g_existing g) (g_fp g ++ b) (List.length (g_existing g)) 0%N) as [[c name]|] eqn:S;
        [|discriminate].
      intros H; injection H as <- <-. apply search_some in S as [m [-> [_ C']]].
      repeat split; auto. right. exists (g_fp g ++ b), m. auto.
    + intros H; injection H as <- <-. repeat split; auto. now left.
Qed.

(* termination: the fuel |existing|+1 is always enough *)
Theorem gen_call_total cf g b : exists v g', gen_call cf g b = Ok (v, g').
Proof.
  unfold gen_call. destruct (base_and_counter g (g_fp g ++ b)) as [base c]. cbn [fst snd].
  destruct c as [n|].
  - destruct (search cf (g_existing g) base (S (List.length (g_existing g))) n) as [[c name]|] eqn:S.
    + eauto.
    + now apply search_adequate in S.
  - destruct (conflicting cf (g_existing g) base) eqn:C.
    + destruct (search cf (g_existing g) base (List.length (g_existing g)) 0%N) as [[c name]|] eqn:S.
      * eauto.
      * now apply search_adequate_bare in S.
    + eauto.
Qed.

Lemma gen_call_not_error cf g b : gen_call cf g b <> OutOfFuel /\ gen_call cf g b <> ValueError.
Proof. destruct (gen_call_total cf g b) as [v [g' ->]]. split; discriminate. Qed.

(* ------------------------------------------------------------------ more on shapes *)

Lemma split_counter_rsplit s a n :
  split_counter s = Some (a, n) -> exists d, rsplit s = Some (a, d) /\ sall is_digit d = true.
Proof.
  unfold split_counter. destruct (rsplit s) as [[a' b']|] eqn:E; [|discriminate].
  destruct (negb (is_empty a') && sall is_word a' && negb (is_empty b') && sall is_digit b') eqn:C; [|discriminate].
  intros H; injection H as <- <-. rewrite !andb_true_iff in C. destruct C as [_ C4]. eauto.
Qed.

(* an underscore-free head of the request is a head of the generated name *)
Lemma out_shape_head h fp b v :
  sall (fun c => negb (is_us c)) h = true -> prefix h (fp ++ b) = true -> out_shape fp b v ->
  prefix h v = true.
Proof.
  intros Hh Hp [->|[base [n [-> [->|[m S]]]]]]; auto.
  - apply prefix_split in Hp as [r ->]. unfold numbered. rewrite app_assoc. apply prefix_app.
  - apply prefix_split in Hp as [r Hr]. rewrite Hr in S.
    apply split_counter_rsplit in S as [d [S _]].
    apply rsplit_head in S as [a0 [-> _]]; [|exact Hh]. unfold numbered. rewrite app_assoc. apply prefix_app.
Qed.

(* ... and if the head is followed by an underscore in the request, so it is in the generated name *)
Lemma out_shape_head_us h fp b v x :
  sall (fun c => negb (is_us c)) h = true -> fp ++ b = h ++ "_" ++ x -> out_shape fp b v ->
  prefix (h ++ "_") v = true.
Proof.
  intros Hh E [->|[base [n [-> [->|[m S]]]]]].
  - rewrite E, <- app_assoc. apply prefix_app.
  - rewrite E. unfold numbered. apply prefix_app_l. rewrite <- app_assoc. apply prefix_app.
  - rewrite E in S. apply split_counter_rsplit in S as [d [S _]].
    apply rsplit_head in S as [a0 [-> S]]; [|exact Hh]. cbn in S.
    unfold numbered. destruct (rsplit x) as [[a' b']|]; injection S as <- <-.
    + apply prefix_app_l. replace (h ++ String "_" a') with ((h ++ "_") ++ a') by (rewrite app_assoc; reflexivity).
      apply prefix_app.
    + rewrite app_nil_r. rewrite <- app_assoc. apply prefix_app.
Qed.

(* a forced prefix with a character outside \w disables the counter pattern *)
Lemma out_shape_nonword fp b v :
  sall is_word fp = false -> out_shape fp b v -> v = fp ++ b \/ exists n, v = numbered (fp ++ b) n.
Proof.
  intros W [->|[base [n [-> [->|[m S]]]]]]; eauto.
  rewrite split_counter_word in S; [discriminate|]. now rewrite sall_app, W.
Qed.

Lemma sall_numbered base n : sall is_word base = true -> sall is_word (numbered base n) = true.
Proof.
  intros W. unfold numbered. rewrite sall_app, W. change ("_" ++ dec n) with (String "_" (dec n)).
  cbn [sall]. rewrite dec_word. reflexivity.
Qed.

Lemma out_shape_word fp b v :
  sall is_word (fp ++ b) = true -> out_shape fp b v -> sall is_word v = true.
Proof.
  intros W [->|[base [n [-> [->|[m S]]]]]]; auto; apply sall_numbered; auto.
  apply split_counter_some in S as [d [E [_ [Wa _]]]]. exact Wa.
Qed.

Lemma out_shape_first p fp b v :
  first_is p (fp ++ b) = true -> out_shape fp b v -> first_is p v = true.
Proof.
  intros F [->|[base [n [-> [->|[m S]]]]]]; auto; unfold numbered.
  - now apply first_is_app.
  - apply split_counter_some in S as [d [E [Ne _]]]. rewrite E in F.
    destruct base; [congruence|]. exact F.
Qed.

(* ------------------------------------------------------------------ make_identifier_from_name *)

Lemma ident_chars_word : sall is_word ident_chars = true.
Proof. reflexivity. Qed.

Lemma smem_sall p c s : sall p s = true -> smem c s = true -> p c = true.
Proof.
  induction s as [|d s IH]; cbn; [discriminate|]. rewrite andb_true_iff, orb_true_iff.
  intros [A B] [E|E]; auto. apply Ascii.eqb_eq in E. now subst.
Qed.

Lemma sanitise_char_word c : is_word (sanitise_char c) = true.
Proof.
  unfold sanitise_char. destruct (smem c ident_chars) eqn:E; [|reflexivity].
  exact (smem_sall _ _ _ ident_chars_word E).
Qed.

Lemma lstrip_us_word s : sall is_word s = true -> sall is_word (lstrip_us s) = true.
Proof.
  induction s as [|c s IH]; cbn; [reflexivity|]. rewrite andb_true_iff. intros [A B].
  destruct (is_us c); [auto | cbn; now rewrite A, B].
Qed.

Lemma lstrip_us_first s : lstrip_us s = "" \/ first_is (fun c => negb (is_us c)) (lstrip_us s) = true.
Proof.
  induction s as [|c s IH]; cbn; [now left|]. destruct (is_us c) eqn:E; [exact IH|].
  right. cbn. now rewrite E.
Qed.

Lemma lstrip_us_app a b : lstrip_us a <> "" -> lstrip_us (a ++ b) = lstrip_us a ++ b.
Proof.
  induction a as [|c a IH]; cbn; [congruence|]. destruct (is_us c); [exact IH | reflexivity].
Qed.

Lemma make_identifier_word s : sall is_word (make_identifier s) = true.
Proof.
  unfold make_identifier. destruct (is_empty _); [reflexivity|].
  apply lstrip_us_word, sall_smap, sanitise_char_word.
Qed.

Lemma make_identifier_first s : first_is (fun c => negb (is_us c)) (make_identifier s) = true.
Proof.
  unfold make_identifier. destruct (is_empty _) eqn:E; [reflexivity|].
  destruct (lstrip_us_first (smap sanitise_char s)) as [H|H]; [|exact H].
  apply is_empty_false in E. contradiction.
Qed.

(* a tag (or prefix) whose sanitised form does not vanish stays in front *)
Lemma make_identifier_tag t r :
  lstrip_us (smap sanitise_char t) <> "" ->
  make_identifier (t ++ r) = lstrip_us (smap sanitise_char t) ++ smap sanitise_char r.
Proof.
  intros H. unfold make_identifier. rewrite smap_app, lstrip_us_app by exact H.
  destruct (lstrip_us (smap sanitise_char t)); [congruence | reflexivity].
Qed.

(* ------------------------------------------------------------------ KeyToUniqueNameMap *)

Lemma assoc_in {B} k (v : B) l : assoc k l = Some v -> In (k, v) l.
Proof.
  induction l as [|[k' v'] l IH]; cbn; [discriminate|].
  destruct (String.eqb k k') eqn:E.
  - apply String.eqb_eq in E. intros H; injection H as <-. subst. now left.
  - auto.
Qed.

Definition seed_of (key : string) (p : option string) : string :=
  match p with Some q => q ++ key | None => key end.

Lemma gom_spec cf d g key p v d' g' :
  get_or_make cf d g key p = Ok (v, d', g') ->
  (assoc key d = Some v /\ d' = d /\ g' = g) \/
  (assoc key d = None /\ d' = (key, v) :: d /\ gen_call cf g (make_identifier (seed_of key p)) = Ok (v, g')).
Proof.
  unfold get_or_make, gen_call_key, seed_of. destruct (assoc key d) as [w|].
  - intros H; injection H as <- <- <-. auto.
  - destruct (gen_call cf g _) as [[w g1]| |] eqn:E; try discriminate.
    intros H; injection H as <- <- <-. auto.
Qed.

Lemma gom_total cf d g key p : exists v d' g', get_or_make cf d g key p = Ok (v, d', g').
Proof.
  unfold get_or_make, gen_call_key. destruct (assoc key d) as [w|]; [eauto|].
  destruct (gen_call_total cf g (make_identifier (match p with Some p0 => p0 ++ key | None => key end)))
    as [v [g' ->]]. eauto.
Qed.

Lemma gom_hit cf d g key p v : assoc key d = Some v -> get_or_make cf d g key p = Ok (v, d, g).
Proof. unfold get_or_make. now intros ->. Qed.

(* ------------------------------------------------------------------ small list utilities *)

Fixpoint nodupb (l : list string) : bool :=
  match l with
  | [] => true
  | x :: r => negb (existsb (String.eqb x) r) && nodupb r
  end.

Lemma existsb_eqb_in x l : existsb (String.eqb x) l = true <-> In x l.
Proof.
  rewrite existsb_exists. split.
  - intros [y [Hy E]]. apply String.eqb_eq in E. now subst.
  - intros H. exists x. split; [exact H | apply String.eqb_refl].
Qed.

Lemma nodupb_NoDup l : nodupb l = true -> NoDup l.
Proof.
  induction l as [|x r IH]; cbn; [constructor|]. rewrite andb_true_iff, negb_true_iff. intros [A B].
  constructor; [|auto]. intros H. apply existsb_eqb_in in H. congruence.
Qed.

Lemma assoc_nodup_inj (l : dict) k1 k2 v1 v2 :
  NoDup (map snd l) -> assoc k1 l = Some v1 -> assoc k2 l = Some v2 -> k1 <> k2 -> v1 <> v2.
Proof.
  induction l as [|[k v] l IH]; cbn; [discriminate|]. intros ND H1 H2 Hk. inversion ND as [|? ? Hn ND']; subst.
  destruct (String.eqb k1 k) eqn:E1, (String.eqb k2 k) eqn:E2.
  - apply String.eqb_eq in E1, E2. congruence.
  - injection H1 as ->. intros ->. apply Hn. apply in_map_iff. exists (k2, v2).
    split; [reflexivity | now apply assoc_in].
  - injection H2 as ->. intros <-. apply Hn. apply in_map_iff. exists (k1, v1).
    split; [reflexivity | now apply assoc_in].
  - eauto.
Qed.

Lemma prefix_trans p q v : prefix p q = true -> prefix q v = true -> prefix p v = true.
Proof.
  intros A B. apply prefix_split in A as [r ->]. apply prefix_split in B as [t ->].
  rewrite app_assoc. apply prefix_app.
Qed.

Lemma incomparable_neq p q v w :
  prefix p q = false -> prefix q p = false -> prefix p v = true -> prefix q w = true -> v <> w.
Proof.
  intros A B Hv Hw <-. destruct (prefix_comparable _ _ _ Hv Hw); congruence.
Qed.

Lemma first_is_prefix q p v : first_is q p = true -> prefix p v = true -> first_is q v = true.
Proof. intros A B. apply prefix_split in B as [r ->]. now apply first_is_app. Qed.

(* v has a prefix that no member of l has: v is not in l *)
Lemma not_in_by_prefix p v l :
  forallb (fun r => negb (prefix p r)) l = true -> prefix p v = true -> existsb (String.eqb v) l = false.
Proof.
  intros A B. destruct (existsb (String.eqb v) l) eqn:E; [|reflexivity].
  apply existsb_eqb_in in E. rewrite forallb_forall in A. specialize (A _ E). now rewrite B in A.
Qed.

Lemma conflicting_false_id ex v : conflicting false ex v = false <-> ~ In v ex.
Proof.
  rewrite conflicting_false. cbn. now rewrite map_id.
Qed.

(* ------------------------------------------------------------------ PythonNameManager: basic facts *)

Definition py_gen (s : py_state) (sp : space) : gen :=
  match sp with Local => py_lgen s | Global => py_ggen s | Function => py_fgen s end.
Definition py_fp (sp : space) : string :=
  match sp with Local => py_local_prefix | Global => py_global_prefix | Function => py_function_prefix end.
Definition py_op_of (sp : space) (k : string) : py_op :=
  match sp with Local => PLocal k | Global => PGlobal k | Function => PFunction k end.
Definition py0 : py_state :=
  mkPy [] (new_gen py_local_prefix) py_global_start (new_gen py_global_prefix) [] (new_gen py_function_prefix).

Lemma py_init_ok : py_init = Ok py0.
Proof. reflexivity. Qed.

Lemma space_eqb_eq a b : space_eqb a b = true <-> a = b.
Proof. destruct a, b; cbn; split; congruence. Qed.

Lemma space_eqb_refl a : space_eqb a a = true.
Proof. now destruct a. Qed.

Definition space_of_getitem (k : string) : space := if is_state_variable k then Global else Local.

Lemma py_getitem s k : py_step s (PGetItem k) = py_step s (py_op_of (space_of_getitem k) k).
Proof. unfold space_of_getitem. cbn. now destruct (is_state_variable k). Qed.

(* what a lookup does: a hit returns the binding and changes nothing; a miss asks that space's generator
   and records the answer *)
Lemma py_prim_spec s sp k o s' :
  py_step s (py_op_of sp k) = Ok (o, s') ->
  exists v, o = Some v /\
    ((py_lookup s sp k = Some v /\ s' = s) \/
     (py_lookup s sp k = None /\
      (forall sp' k', py_lookup s' sp' k' =
                      if space_eqb sp' sp && String.eqb k' k then Some v else py_lookup s sp' k') /\
      gen_call false (py_gen s sp) (make_identifier k) = Ok (v, py_gen s' sp) /\
      (forall sp', sp' <> sp -> py_gen s' sp' = py_gen s sp'))).
Proof.
  destruct sp; cbn [py_op_of py_step]; unfold py_name_local, py_name_global, py_name_function.
  - destruct (get_or_make false (py_local s) (py_lgen s) k None) as [[[v d] g]| |] eqn:E; try discriminate.
    intros H; injection H as <- <-. exists v. split; [reflexivity|].
    apply gom_spec in E as [[A [-> ->]]|[A [-> G]]].
    + left. split; [exact A|]. now destruct s.
    + right. cbn. repeat split; auto.
      * intros sp' k'. destruct sp'; cbn; auto.
      * intros sp' Hs. destruct sp'; cbn; congruence.
  - destruct (get_or_make false (py_global s) (py_ggen s) k None) as [[[v d] g]| |] eqn:E; try discriminate.
    intros H; injection H as <- <-. exists v. split; [reflexivity|].
    apply gom_spec in E as [[A [-> ->]]|[A [-> G]]].
    + left. split; [exact A|]. now destruct s.
    + right. cbn. repeat split; auto.
      * intros sp' k'. destruct sp'; cbn; auto.
      * intros sp' Hs. destruct sp'; cbn; congruence.
  - destruct (get_or_make false (py_func s) (py_fgen s) k None) as [[[v d] g]| |] eqn:E; try discriminate.
    intros H; injection H as <- <-. exists v. split; [reflexivity|].
    apply gom_spec in E as [[A [-> ->]]|[A [-> G]]].
    + left. split; [exact A|]. now destruct s.
    + right. cbn. repeat split; auto.
      * intros sp' k'. destruct sp'; cbn; auto.
      * intros sp' Hs. destruct sp'; cbn; congruence.
Qed.

Lemma py_prim_hit s sp k v : py_lookup s sp k = Some v -> py_step s (py_op_of sp k) = Ok (Some v, s).
Proof.
  destruct sp; cbn [py_op_of py_step py_lookup]; unfold py_name_local, py_name_global, py_name_function;
    intros H; rewrite (gom_hit _ _ _ _ _ _ H); now destruct s.
Qed.

Lemma py_prim_total s sp k : exists v s', py_step s (py_op_of sp k) = Ok (Some v, s').
Proof.
  destruct sp; cbn [py_op_of py_step]; unfold py_name_local, py_name_global, py_name_function.
  - destruct (gom_total false (py_local s) (py_lgen s) k None) as [v [d [g ->]]]. eauto.
  - destruct (gom_total false (py_global s) (py_ggen s) k None) as [v [d [g ->]]]. eauto.
  - destruct (gom_total false (py_func s) (py_fgen s) k None) as [v [d [g ->]]]. eauto.
Qed.

(* every operation is clear_locals or a lookup in one space *)
Lemma py_op_view op : op = PClear \/ exists sp k, forall s, py_step s op = py_step s (py_op_of sp k).
Proof.
  destruct op as [k|k|k|k|]; [right|right|right|right|now left].
  - exists Global, k. reflexivity.
  - exists Local, k. reflexivity.
  - exists Function, k. reflexivity.
  - exists (space_of_getitem k), k. intros s. apply py_getitem.
Qed.

Lemma py_prim_returns s sp k v s' :
  py_step s (py_op_of sp k) = Ok (Some v, s') -> py_lookup s' sp k = Some v.
Proof.
  intros H. apply py_prim_spec in H as [w [E [[A ->]|[_ [L _]]]]]; injection E as <-; [exact A|].
  rewrite L, space_eqb_refl, String.eqb_refl. reflexivity.
Qed.

Lemma py_prim_keeps s sp0 k0 o s' sp k v :
  py_step s (py_op_of sp0 k0) = Ok (o, s') -> py_lookup s sp k = Some v -> py_lookup s' sp k = Some v.
Proof.
  intros H A. apply py_prim_spec in H as [w [_ [[_ ->]|[N [L _]]]]]; [exact A|].
  rewrite L. destruct (space_eqb sp sp0 && String.eqb k k0) eqn:E; [|exact A].
  apply andb_true_iff in E as [E1 E2]. apply space_eqb_eq in E1. apply String.eqb_eq in E2. subst. congruence.
Qed.

(* ------------------------------------------------------------------ C13: termination (Python) *)

Theorem py_step_total s op : exists o s', py_step s op = Ok (o, s').
Proof.
  destruct (py_op_view op) as [->|[sp [k E]]].
  - cbn. eauto.
  - rewrite E. destruct (py_prim_total s sp k) as [v [s' ->]]. eauto.
Qed.

Theorem py_run_total ops : forall s, exists outs s', py_run s ops = Ok (outs, s').
Proof.
  induction ops as [|op ops IH]; intros s; cbn; [eauto|].
  destruct (py_step_total s op) as [o [s1 ->]]. destruct (IH s1) as [os [s2 ->]]. eauto.
Qed.

(* ------------------------------------------------------------------ C13: stability (Python) *)

Lemma py_step_keeps s op o s' sp k v :
  py_step s op = Ok (o, s') -> py_lookup s sp k = Some v ->
  (sp = Local /\ op = PClear) \/ py_lookup s' sp k = Some v.
Proof.
  intros H A. destruct (py_op_view op) as [->|[sp0 [k0 E]]].
  - cbn in H. injection H as <- <-. destruct sp; cbn in *; auto.
  - rewrite E in H. right. eapply py_prim_keeps; eauto.
Qed.

Lemma py_run_keeps ops : forall s outs s' sp k v,
  py_run s ops = Ok (outs, s') -> py_lookup s sp k = Some v ->
  (sp = Local -> ~ In PClear ops) -> py_lookup s' sp k = Some v.
Proof.
  induction ops as [|op ops IH]; intros s outs s' sp k v H A NC; cbn in H.
  - injection H as <- <-. exact A.
  - destruct (py_step s op) as [[o s1]| |] eqn:E; try discriminate.
    destruct (py_run s1 ops) as [[os s2]| |] eqn:R; try discriminate. injection H as <- <-.
    destruct (py_step_keeps _ _ _ _ _ _ _ E A) as [[-> ->]|A1].
    + exfalso. apply (NC eq_refl). now left.
    + eapply IH; eauto. intros Hs Hin. apply (NC Hs). now right.
Qed.

(* a name looked up again after any interleaving of other lookups is the first answer
   (locals: within one function body, i.e. without clear_locals in between) *)
Theorem py_stable s sp k v s1 ops outs s2 :
  py_step s (py_op_of sp k) = Ok (Some v, s1) -> py_run s1 ops = Ok (outs, s2) ->
  (sp = Local -> ~ In PClear ops) ->
  py_step s2 (py_op_of sp k) = Ok (Some v, s2).
Proof.
  intros H R NC. apply py_prim_hit. eapply py_run_keeps; eauto. eapply py_prim_returns; eauto.
Qed.

Theorem py_stable_getitem s k v s1 ops outs s2 :
  py_step s (PGetItem k) = Ok (Some v, s1) -> py_run s1 ops = Ok (outs, s2) ->
  (is_state_variable k = false -> ~ In PClear ops) ->
  py_step s2 (PGetItem k) = Ok (Some v, s2).
Proof.
  rewrite !py_getitem. intros H R NC. eapply py_stable; eauto.
  unfold space_of_getitem. destruct (is_state_variable k); [discriminate | auto].
Qed.

(* ------------------------------------------------------------------ C13: injectivity (Python) *)

Definition py_extra (sp : space) : dict := match sp with Global => py_global_start | _ => [] end.

Record PyInv (s : py_state) : Prop := {
  pi_fp : forall sp, g_fp (py_gen s sp) = py_fp sp;
  pi_cover : forall sp k v, py_lookup s sp k = Some v ->
                            In v (g_existing (py_gen s sp)) \/ In (k, v) (py_extra sp);
  pi_shape : forall sp k v, py_lookup s sp k = Some v ->
                            In (k, v) (py_extra sp) \/ out_shape (py_fp sp) (make_identifier k) v;
  pi_inj : forall sp k1 k2 v1 v2, py_lookup s sp k1 = Some v1 -> py_lookup s sp k2 = Some v2 ->
                                  k1 <> k2 -> v1 <> v2
}.

Lemma py_global_prefix_nonword : sall is_word py_global_prefix = false.
Proof. reflexivity. Qed.
Lemma py_function_prefix_nonword : sall is_word py_function_prefix = false.
Proof. reflexivity. Qed.
Lemma py_local_prefix_no_us : sall (fun c => negb (is_us c)) py_local_prefix = true.
Proof. reflexivity. Qed.

(* every generated name starts with its space's forced prefix *)
Lemma py_shape_prefix sp b v : out_shape (py_fp sp) b v -> prefix (py_fp sp) v = true.
Proof.
  destruct sp; cbn [py_fp]; intros H.
  - eapply out_shape_head; [apply py_local_prefix_no_us | apply prefix_app | exact H].
  - apply out_shape_nonword in H as [->|[n ->]]; [| |apply py_global_prefix_nonword].
    + apply prefix_app.
    + unfold numbered. rewrite app_assoc. apply prefix_app.
  - apply out_shape_nonword in H as [->|[n ->]]; [| |apply py_function_prefix_nonword].
    + apply prefix_app.
    + unfold numbered. rewrite app_assoc. apply prefix_app.
Qed.

Lemma py_start_not_generated :
  forallb (fun kv => negb (prefix py_global_prefix (snd kv))) py_global_start = true.
Proof. reflexivity. Qed.

Lemma py_new_not_extra sp b v k2 v2 : out_shape (py_fp sp) b v -> In (k2, v2) (py_extra sp) -> v <> v2.
Proof.
  intros H I. apply py_shape_prefix in H. destruct sp; cbn in I; try contradiction.
  pose proof py_start_not_generated as F. rewrite forallb_forall in F. specialize (F _ I). cbn in F.
  intros <-. cbn [py_fp] in H. now rewrite H in F.
Qed.

Lemma PyInv_py0 : PyInv py0.
Proof.
  constructor.
  - intros []; reflexivity.
  - intros [] k v H; cbn in H; try discriminate. right. now apply assoc_in.
  - intros [] k v H; cbn in H; try discriminate. left. now apply assoc_in.
  - intros sp k1 k2 v1 v2 H1 H2 Hk. destruct sp; [cbn in H1; discriminate | | cbn in H1; discriminate].
    apply (assoc_nodup_inj py_global_start k1 k2 v1 v2); auto. apply nodupb_NoDup. reflexivity.
Qed.

Lemma PyInv_step s op o s' : PyInv s -> py_step s op = Ok (o, s') -> PyInv s'.
Proof.
  intros I H. destruct (py_op_view op) as [->|[sp [k E]]].
  - cbn in H. injection H as <- <-. destruct I as [F C Sh J]. constructor.
    + intros []; cbn; auto; [apply (F Global) | apply (F Function)].
    + intros [] k v Hl; cbn in Hl; try discriminate; [apply (C Global) | apply (C Function)]; exact Hl.
    + intros [] k v Hl; cbn in Hl; try discriminate; [apply (Sh Global) | apply (Sh Function)]; exact Hl.
    + intros [] k1 k2 v1 v2 H1 H2; cbn in H1, H2; try discriminate;
        [apply (J Global) | apply (J Function)]; assumption.
  - rewrite E in H. apply py_prim_spec in H as [v [_ [[_ ->]|[N [L [G O]]]]]]; [exact I|].
    destruct I as [F C Sh J]. apply gen_call_spec in G as [S [NC [EX FP]]]. rewrite F in S.
    apply conflicting_false_id in NC.
    assert (Lk : forall sp' k' v', py_lookup s' sp' k' = Some v' ->
                   (sp' = sp /\ k' = k /\ v' = v) \/ ((sp' <> sp \/ k' <> k) /\ py_lookup s sp' k' = Some v')).
    { intros sp' k' v' Hl. rewrite L in Hl. destruct (space_eqb sp' sp) eqn:E1; cbn in Hl.
      - apply space_eqb_eq in E1. destruct (String.eqb k' k) eqn:E2.
        + apply String.eqb_eq in E2. injection Hl as <-. auto.
        + apply String.eqb_neq in E2. auto.
      - right. split; [|exact Hl]. left. intros ->. now rewrite space_eqb_refl in E1. }
    assert (Gn : forall sp', g_existing (py_gen s' sp') = if space_eqb sp' sp then v :: g_existing (py_gen s sp')
                                                           else g_existing (py_gen s sp')).
    { intros sp'. destruct (space_eqb sp' sp) eqn:E1.
      - apply space_eqb_eq in E1. subst. exact EX.
      - rewrite O; [reflexivity|]. intros ->. now rewrite space_eqb_refl in E1. }
    constructor.
    + intros sp'. destruct (space_eqb sp' sp) eqn:E1.
      * apply space_eqb_eq in E1. subst. now rewrite FP.
      * rewrite O; [apply F|]. intros ->. now rewrite space_eqb_refl in E1.
    + intros sp' k' v' Hl. rewrite Gn. apply Lk in Hl as [[-> [-> ->]]|[_ Hl]].
      * rewrite space_eqb_refl. left. now left.
      * destruct (C _ _ _ Hl) as [A|A]; [|now right]. left. destruct (space_eqb sp' sp); [now right | exact A].
    + intros sp' k' v' Hl. apply Lk in Hl as [[-> [-> ->]]|[_ Hl]]; [now right | now apply Sh].
    + intros sp' k1 k2 v1 v2 H1 H2 Hk. apply Lk in H1 as [[-> [-> ->]]|[D1 H1]], H2 as [[E2 [-> ->]]|[D2 H2]].
      * congruence.
      * destruct D2 as [D2|D2]; [congruence|]. destruct (C _ _ _ H2) as [A|A].
        -- intros <-. contradiction.
        -- eapply py_new_not_extra; eauto.
      * subst sp'. destruct (C _ _ _ H1) as [A|A].
        -- intros ->. contradiction.
        -- apply not_eq_sym. eapply py_new_not_extra; eauto.
      * eapply J; eauto.
Qed.

Lemma PyInv_run ops : forall s outs s', PyInv s -> py_run s ops = Ok (outs, s') -> PyInv s'.
Proof.
  induction ops as [|op ops IH]; intros s outs s' I H; cbn in H.
  - now injection H as <- <-.
  - destruct (py_step s op) as [[o s1]| |] eqn:E; try discriminate.
    destruct (py_run s1 ops) as [[os s2]| |] eqn:R; try discriminate. injection H as <- <-.
    eapply IH; [|exact R]. eapply PyInv_step; eauto.
Qed.

(* the three name spaces of the Python target cannot meet *)
Lemma py_spaces_apart :
  prefix py_local_prefix py_global_prefix = false /\ prefix py_global_prefix py_local_prefix = false /\
  prefix py_local_prefix py_function_prefix = false /\ prefix py_function_prefix py_local_prefix = false /\
  prefix py_global_prefix py_function_prefix = false /\ prefix py_function_prefix py_global_prefix = false /\
  forallb (fun kv => negb (prefix py_local_prefix (snd kv)) && negb (prefix py_function_prefix (snd kv)))
          py_global_start = true.
Proof. repeat split; reflexivity. Qed.

Lemma py_value_class s sp k v :
  PyInv s -> py_lookup s sp k = Some v -> In (k, v) (py_extra sp) \/ prefix (py_fp sp) v = true.
Proof.
  intros I H. destruct (pi_shape _ I _ _ _ H) as [A|A]; [now left | right; now apply py_shape_prefix in A].
Qed.

Theorem py_injective s sp1 k1 v1 sp2 k2 v2 :
  PyInv s -> py_lookup s sp1 k1 = Some v1 -> py_lookup s sp2 k2 = Some v2 ->
  (sp1 <> sp2 \/ k1 <> k2) -> v1 <> v2.
Proof.
  intros I H1 H2 D.
  assert (Same : sp1 = sp2 -> v1 <> v2).
  { intros ->. destruct D as [D|D]; [congruence|]. eapply (pi_inj _ I); eauto. }
  destruct py_spaces_apart as [A1 [A2 [A3 [A4 [A5 [A6 A7]]]]]]. rewrite forallb_forall in A7.
  pose proof (py_value_class _ _ _ _ I H1) as C1. pose proof (py_value_class _ _ _ _ I H2) as C2.
  destruct sp1, sp2; auto; cbn [py_extra py_fp In] in C1, C2;
    repeat match goal with H : False \/ _ |- _ => destruct H as [[]|H] end.
  - destruct C2 as [C2|C2].
    + specialize (A7 _ C2). cbn in A7. apply andb_true_iff in A7 as [A7 _]. intros <-. now rewrite C1 in A7.
    + eapply incomparable_neq; [exact A1 | exact A2 | exact C1 | exact C2].
  - eapply incomparable_neq; [exact A3 | exact A4 | exact C1 | exact C2].
  - destruct C1 as [C1|C1].
    + specialize (A7 _ C1). cbn in A7. apply andb_true_iff in A7 as [A7 _]. intros ->. now rewrite C2 in A7.
    + eapply incomparable_neq; [exact A2 | exact A1 | exact C1 | exact C2].
  - destruct C1 as [C1|C1].
    + specialize (A7 _ C1). cbn in A7. apply andb_true_iff in A7 as [_ A7]. intros ->. now rewrite C2 in A7.
    + eapply incomparable_neq; [exact A5 | exact A6 | exact C1 | exact C2].
  - eapply incomparable_neq; [exact A4 | exact A3 | exact C1 | exact C2].
  - destruct C2 as [C2|C2].
    + specialize (A7 _ C2). cbn in A7. apply andb_true_iff in A7 as [_ A7]. intros <-. now rewrite C1 in A7.
    + eapply incomparable_neq; [exact A6 | exact A5 | exact C1 | exact C2].
Qed.

(* reachable states of the Python manager *)
Definition py_reach (s : py_state) : Prop := exists ops outs, py_run py0 ops = Ok (outs, s).

Lemma py_reach_inv s : py_reach s -> PyInv s.
Proof. intros [ops [outs R]]. eapply PyInv_run; [apply PyInv_py0 | exact R]. Qed.

(* ------------------------------------------------------------------ C13: storage class (Python) *)

Definition py_self : string := "self.".
Definition py_global_attr : string := "global_".

Lemma py_global_prefix_eq : py_global_prefix = py_self ++ py_global_attr.
Proof. reflexivity. Qed.

Lemma py_self_facts :
  prefix py_self py_global_prefix = true /\
  forallb (fun kv => prefix py_self (snd kv)) py_global_start = true /\
  prefix py_self py_local_prefix = false /\ prefix py_local_prefix py_self = false.
Proof. repeat split; reflexivity. Qed.

Lemma incomparable_prefix_false p q v :
  prefix p q = false -> prefix q p = false -> prefix p v = true -> prefix q v = false.
Proof.
  intros A B C. destruct (prefix q v) eqn:E; [|reflexivity].
  destruct (prefix_comparable _ _ _ C E); congruence.
Qed.

Lemma py_state_value_self s k v :
  PyInv s -> py_lookup s Global k = Some v -> prefix py_self v = true.
Proof.
  intros I H. destruct py_self_facts as [A [B _]].
  destruct (py_value_class _ _ _ _ I H) as [C|C].
  - rewrite forallb_forall in B. exact (B _ C).
  - eapply prefix_trans; [exact A | exact C].
Qed.

(* persistent names live on the instance, all others are locals of the generated method *)
Theorem py_storage s k v s' :
  PyInv s -> py_step s (PGetItem k) = Ok (Some v, s') ->
  (is_state_variable k = true -> prefix py_self v = true /\ prefix py_local_prefix v = false) /\
  (is_state_variable k = false -> prefix py_local_prefix v = true /\ prefix py_self v = false).
Proof.
  intros I H. pose proof (PyInv_step _ _ _ _ I H) as I'. rewrite py_getitem in H.
  apply py_prim_returns in H. destruct py_self_facts as [_ [_ [A B]]]. unfold space_of_getitem in H.
  split; intros E; rewrite E in H.
  - pose proof (py_state_value_self _ _ _ I' H) as P. split; [exact P|].
    eapply incomparable_prefix_false; [exact A | exact B | exact P].
  - destruct (py_value_class _ _ _ _ I' H) as [[]|P]. cbn [py_fp] in P. split; [exact P|].
    eapply incomparable_prefix_false; [exact B | exact A | exact P].
Qed.

(* ------------------------------------------------------------------ C13: legality (Python) *)

Fixpoint strip_prefix (p s : string) : option string :=
  match p with
  | EmptyString => Some s
  | String c p' => match s with
                   | String d s' => if Ascii.eqb c d then strip_prefix p' s' else None
                   | EmptyString => None
                   end
  end.

Lemma strip_prefix_some p s a : strip_prefix p s = Some a -> s = p ++ a.
Proof.
  revert s; induction p as [|c p IH]; intros s H; cbn in H.
  - now injection H as ->.
  - destruct s as [|d s]; [discriminate|]. destruct (Ascii.eqb c d) eqn:E; [|discriminate].
    apply Ascii.eqb_eq in E. subst. cbn. now rewrite (IH _ H).
Qed.

Lemma py_identifier_by_prefix p v :
  first_is (fun c => is_letter c || is_us c) p = true ->
  forallb (fun r => negb (prefix p r)) py_keywords = true ->
  prefix p v = true -> sall is_word v = true -> py_identifier v = true.
Proof.
  intros F K P W. unfold py_identifier. rewrite W, (first_is_prefix _ _ _ F P), (not_in_by_prefix _ _ _ K P).
  reflexivity.
Qed.

Definition py_func_tag : string := "<func>".
Definition py_func_head : string := "func_".

Lemma py_func_tag_sanitised : lstrip_us (smap sanitise_char py_func_tag) = py_func_head.
Proof. reflexivity. Qed.

Lemma py_legal_facts :
  first_is (fun c => is_letter c || is_us c) py_local_prefix = true /\
  forallb (fun r => negb (prefix py_local_prefix r)) py_keywords = true /\
  sall is_word py_local_prefix = true /\
  first_is (fun c => is_letter c || is_us c) py_global_attr = true /\
  forallb (fun r => negb (prefix py_global_attr r)) py_keywords = true /\
  sall is_word py_global_attr = true /\
  first_is (fun c => is_letter c || is_us c) py_func_head = true /\
  forallb (fun r => negb (prefix py_func_head r)) py_keywords = true /\
  forallb (fun kv => match strip_prefix py_self (snd kv) with Some a => py_identifier a | None => false end)
          py_global_start = true.
Proof. repeat split; reflexivity. Qed.

Theorem py_legal s sp k v :
  PyInv s -> py_lookup s sp k = Some v ->
  match sp with
  | Local => py_identifier v = true
  | Global => exists a, v = py_self ++ a /\ py_identifier a = true
  | Function => prefix py_func_tag k = true ->
                exists a, v = py_function_prefix ++ a /\ py_identifier a = true
  end.
Proof.
  intros I H. destruct py_legal_facts as [L1 [L2 [L3 [G1 [G2 [G3 [F1 [F2 St]]]]]]]].
  pose proof (pi_shape _ I _ _ _ H) as Sh. destruct sp; cbn [py_extra py_fp] in Sh.
  - destruct Sh as [[]|Sh]. apply py_identifier_by_prefix with (p := py_local_prefix); auto.
    + now apply (py_shape_prefix Local) in Sh.
    + eapply out_shape_word; [|exact Sh]. now rewrite sall_app, L3, make_identifier_word.
  - destruct Sh as [Sh|Sh].
    + rewrite forallb_forall in St. specialize (St _ Sh). cbn [snd] in St.
      destruct (strip_prefix py_self v) as [a|] eqn:E; [|discriminate]. apply strip_prefix_some in E. eauto.
    + assert (W : sall is_word (py_global_attr ++ make_identifier k) = true)
        by now rewrite sall_app, G3, make_identifier_word.
      apply out_shape_nonword in Sh as [->|[n ->]]; [| |apply py_global_prefix_nonword];
        rewrite py_global_prefix_eq.
      * exists (py_global_attr ++ make_identifier k). split; [now rewrite app_assoc|].
        apply py_identifier_by_prefix with (p := py_global_attr); auto using prefix_app.
      * exists (numbered (py_global_attr ++ make_identifier k) n). split.
        { unfold numbered. now rewrite !app_assoc. }
        apply py_identifier_by_prefix with (p := py_global_attr); auto using sall_numbered.
        unfold numbered. rewrite app_assoc. apply prefix_app.
  - intros T. destruct Sh as [[]|Sh]. apply prefix_split in T as [r ->].
    assert (B : make_identifier (py_func_tag ++ r) = py_func_head ++ smap sanitise_char r).
    { rewrite make_identifier_tag; rewrite py_func_tag_sanitised; [reflexivity | discriminate]. }
    pose proof (make_identifier_word (py_func_tag ++ r)) as W. rewrite B in Sh, W.
    apply out_shape_nonword in Sh as [->|[n ->]]; [| |apply py_function_prefix_nonword].
    + eexists. split; [reflexivity|]. apply py_identifier_by_prefix with (p := py_func_head); auto using prefix_app.
    + exists (numbered (py_func_head ++ smap sanitise_char r) n). split.
      { unfold numbered. now rewrite !app_assoc. }
      apply py_identifier_by_prefix with (p := py_func_head); auto using sall_numbered.
      unfold numbered. rewrite app_assoc. apply prefix_app.
Qed.

(* function identifiers without the <func> tag: not an identifier / a keyword *)
Lemma py_legal_function_refuted :
  exists k v a, py_outputs [PFunction k] = Some [Some v] /\ v = py_function_prefix ++ a /\ py_identifier a = false.
Proof. exists "1f", "self._functions.1f", "1f". repeat split; reflexivity. Qed.

Lemma py_legal_function_keyword_refuted :
  exists k v a, py_outputs [PFunction k] = Some [Some v] /\ v = py_function_prefix ++ a /\ py_identifier a = false.
Proof. exists "if", "self._functions.if", "if". repeat split; reflexivity. Qed.

(* ------------------------------------------------------------------ C13: reserved identifiers (Python) *)

Definition py_reserved_words : list string := py_keywords ++ py_own_tokens.

Lemma py_reserved_facts :
  forallb (fun r => negb (prefix py_local_prefix r)) py_reserved_words = true /\
  forallb (fun r => negb (prefix py_global_attr r)) py_reserved_words = true /\
  existsb (String.eqb "self") py_reserved_words = true.
Proof. repeat split; reflexivity. Qed.

Lemma in_assoc_some {B} k (v : B) l : In (k, v) l -> assoc k l <> None.
Proof.
  induction l as [|[k' v'] l IH]; cbn; [contradiction|]. intros [E|E].
  - injection E as -> ->. now rewrite String.eqb_refl.
  - destruct (String.eqb k k'); [discriminate | auto].
Qed.

Lemma first_is_us_numbered b n : first_is (fun c => negb (is_us c)) b = true -> first_is is_us (numbered b n) = false.
Proof. destruct b as [|c b]; cbn; [discriminate|]. now intros ->%negb_true_iff. Qed.

(* generated names are never a keyword nor one of the names the generator writes on its own:
   locals (incl. `self`), attributes of the instance (except the two start bindings, which ARE self.t/self.dt),
   and no function attribute is private to the container object *)
Theorem py_reserved s sp k v :
  PyInv s -> py_lookup s sp k = Some v ->
  match sp with
  | Local => existsb (String.eqb v) py_reserved_words = false
  | Global => assoc k py_global_start = None ->
              exists a, v = py_self ++ a /\ existsb (String.eqb a) py_reserved_words = false
  | Function => exists a, v = py_function_prefix ++ a /\ first_is is_us a = false
  end.
Proof.
  intros I H. destruct py_reserved_facts as [R1 [R2 _]].
  pose proof (pi_shape _ I _ _ _ H) as Sh. destruct sp; cbn [py_extra py_fp] in Sh.
  - destruct Sh as [[]|Sh]. apply (py_shape_prefix Local) in Sh. cbn [py_fp] in Sh. exact (not_in_by_prefix _ _ _ R1 Sh).
  - intros N. destruct Sh as [Sh|Sh]; [now apply in_assoc_some in Sh|].
    apply out_shape_nonword in Sh as [->|[n ->]]; [| |apply py_global_prefix_nonword]; rewrite py_global_prefix_eq.
    + exists (py_global_attr ++ make_identifier k). split; [now rewrite app_assoc|].
      eapply not_in_by_prefix; [exact R2 | apply prefix_app].
    + exists (numbered (py_global_attr ++ make_identifier k) n). split.
      { unfold numbered. now rewrite !app_assoc. }
      eapply not_in_by_prefix; [exact R2|]. unfold numbered. rewrite app_assoc. apply prefix_app.
  - destruct Sh as [[]|Sh]. pose proof (make_identifier_first k) as F.
    apply out_shape_nonword in Sh as [->|[n ->]]; [| |apply py_function_prefix_nonword].
    + eexists. split; [reflexivity|]. destruct (make_identifier k); cbn in *; [discriminate|].
      now apply negb_true_iff in F.
    + exists (numbered (make_identifier k) n). split; [unfold numbered; now rewrite !app_assoc|].
      now apply first_is_us_numbered.
Qed.

(* ------------------------------------------------------------------ examples (Python) *)

Example ex_py_run :
  py_outputs [PGetItem "y^"; PGetItem "y*"; PGetItem "<p>y^"; PGetItem "<p>y*"; PGetItem "y_1"; PGetItem "y";
              PFunction "<func>f"; PGetItem "y^"; PClear; PGetItem "y*"]
  = Some [Some "localy_"; Some "localy__0"; Some "self.global_p_y_"; Some "self.global_p_y__0";
          Some "localy_1"; Some "localy_2"; Some "self._functions.func_f"; Some "localy_"; None; Some "localy_"].
Proof. reflexivity. Qed.

Example ex_py_reach : exists s, py_reach s /\ py_lookup s Local "y*" = Some "localy__0"
                                /\ py_lookup s Global "<p>y^" = Some "self.global_p_y_".
Proof.
  destruct (py_run py0 [PGetItem "y^"; PGetItem "y*"; PGetItem "<p>y^"]) as [[o s]| |] eqn:E;
    try (vm_compute in E; discriminate).
  exists s. split; [now exists [PGetItem "y^"; PGetItem "y*"; PGetItem "<p>y^"], o|].
  vm_compute in E. injection E as _ <-. split; reflexivity.
Qed.

(* ------------------------------------------------------------------ FortranNameManager: basic facts *)

Definition f0 : f_state := mkF [] f_global_start [] (mkGen "" (rev (map snd f_global_start)) []).

Lemma f_init_ok cf : f_init cf = Ok f0.
Proof. destruct cf; reflexivity. Qed.

(* the three keyed entry points; [p] is name_local's optional explicit prefix *)
Definition f_op_of (sp : space) (k : string) (p : option string) : f_op :=
  match sp with Local => FLocal k p | Global => FGlobal k | Function => FFunction k end.
Definition f_pfx (sp : space) (k : string) (p : option string) : option string :=
  match sp with Local => f_local_prefix_for k p | _ => None end.

Lemma f_prim_spec cf s sp k p o s' :
  f_step cf s (f_op_of sp k p) = Ok (o, s') ->
  (f_lookup s sp k = Some o /\ s' = s) \/
  (f_lookup s sp k = None /\
   (forall sp' k', f_lookup s' sp' k' =
                   if space_eqb sp' sp && String.eqb k' k then Some o else f_lookup s sp' k') /\
   gen_call cf (f_gen s) (make_identifier (seed_of k (f_pfx sp k p))) = Ok (o, f_gen s')).
Proof.
  destruct sp; cbn [f_op_of f_step f_pfx]; unfold f_name_local, f_name_global, f_name_function.
  - destruct (get_or_make cf (f_local s) (f_gen s) k (f_local_prefix_for k p)) as [[[v d] g]| |] eqn:E;
      try discriminate.
    intros H; injection H as <- <-. apply gom_spec in E as [[A [-> ->]]|[A [-> G]]].
    + left. split; [exact A | now destruct s].
    + right. cbn. repeat split; auto. intros sp' k'. destruct sp'; cbn; auto.
  - destruct (get_or_make cf (f_global s) (f_gen s) k None) as [[[v d] g]| |] eqn:E; try discriminate.
    intros H; injection H as <- <-. apply gom_spec in E as [[A [-> ->]]|[A [-> G]]].
    + left. split; [exact A | now destruct s].
    + right. cbn. repeat split; auto. intros sp' k'. destruct sp'; cbn; auto.
  - destruct (get_or_make cf (f_func s) (f_gen s) k None) as [[[v d] g]| |] eqn:E; try discriminate.
    intros H; injection H as <- <-. apply gom_spec in E as [[A [-> ->]]|[A [-> G]]].
    + left. split; [exact A | now destruct s].
    + right. cbn. repeat split; auto. intros sp' k'. destruct sp'; cbn; auto.
Qed.

Lemma f_prim_hit cf s sp k p v : f_lookup s sp k = Some v -> f_step cf s (f_op_of sp k p) = Ok (v, s).
Proof.
  destruct sp; cbn [f_op_of f_step f_lookup]; unfold f_name_local, f_name_global, f_name_function;
    intros H; rewrite (gom_hit _ _ _ _ _ _ H); now destruct s.
Qed.

Lemma f_prim_total cf s sp k p : exists v s', f_step cf s (f_op_of sp k p) = Ok (v, s').
Proof.
  destruct sp; cbn [f_op_of f_step]; unfold f_name_local, f_name_global, f_name_function.
  - destruct (gom_total cf (f_local s) (f_gen s) k (f_local_prefix_for k p)) as [v [d [g ->]]]. eauto.
  - destruct (gom_total cf (f_global s) (f_gen s) k None) as [v [d [g ->]]]. eauto.
  - destruct (gom_total cf (f_func s) (f_gen s) k None) as [v [d [g ->]]]. eauto.
Qed.

Lemma f_unique_spec cf s p o s' :
  f_step cf s (FUnique p) = Ok (o, s') ->
  (forall sp k, f_lookup s' sp k = f_lookup s sp k) /\
  gen_call cf (f_gen s) (make_identifier (f_unique_prefix ++ p)) = Ok (o, f_gen s').
Proof.
  cbn [f_step]. unfold f_unique, gen_call_key.
  destruct (gen_call cf (f_gen s) (make_identifier (f_unique_prefix ++ p))) as [[v g]| |]; try discriminate.
  intros H; injection H as <- <-. split; [|reflexivity]. intros []; reflexivity.
Qed.

Lemma with_prefix_ok q r v s : with_prefix q r = Ok (v, s) <-> exists w, r = Ok (w, s) /\ v = q ++ w.
Proof.
  destruct r as [[w s1]| |]; cbn; split.
  - intros H; injection H as <- <-. eauto.
  - intros [w' [E ->]]. now injection E as -> ->.
  - discriminate.
  - intros [w [E _]]; discriminate.
  - discriminate.
  - intros [w [E _]]; discriminate.
Qed.

(* well-formed use: no explicit prefix for locals, name_global only for persistent names
   (this is how the Fortran generator calls the manager) *)
Definition f_op_wf (op : f_op) : Prop :=
  match op with
  | FLocal _ (Some _) => False
  | FGlobal k => is_state_variable k = true
  | _ => True
  end.
Definition f_prim_wf (sp : space) (k : string) (p : option string) : Prop :=
  match sp with Local => p = None | Global => is_state_variable k = true | Function => True end.

(* every operation is make_unique_fortran_name or a keyed lookup whose answer gets a fixed qualifier *)
Lemma f_op_view cf op :
  (exists p, op = FUnique p) \/
  exists sp k p q, (forall s, f_step cf s op = with_prefix q (f_step cf s (f_op_of sp k p))) /\
                   (f_op_wf op -> f_prim_wf sp k p).
Proof.
  assert (N : forall r : res (string * f_state), r = with_prefix "" r).
  { intros [[v s]| |]; reflexivity. }
  destruct op as [k|k p|k|p|k|k q].
  - right. exists Global, k, None, "". split; [intros s; apply N | auto].
  - right. exists Local, k, p, "". split; [intros s; apply N|]. destruct p; cbn; tauto.
  - right. exists Function, k, None, "". split; [intros s; apply N | auto].
  - left. eauto.
  - right. destruct (is_state_variable k) eqn:E.
    + exists Global, k, None, f_state_qualifier. split; [|auto]. intros s. cbn. now rewrite E.
    + exists Local, k, None, "". split; [|reflexivity]. intros s. cbn. rewrite E. apply N.
  - right. destruct (is_state_variable k) eqn:E.
    + exists Global, k, None, (if q then f_state_qualifier ++ f_refcnt_prefix else f_refcnt_prefix).
      split; [|auto]. intros s. cbn. now rewrite E.
    + exists Local, (f_refcnt_prefix ++ k), None, "". split; [|reflexivity]. intros s. cbn. rewrite E. apply N.
Qed.

(* ------------------------------------------------------------------ C13: termination (Fortran) *)

Theorem f_step_total cf s op : exists o s', f_step cf s op = Ok (o, s').
Proof.
  destruct (f_op_view cf op) as [[p ->]|[sp [k [p [q [E _]]]]]].
  - cbn [f_step]. unfold f_unique, gen_call_key.
    destruct (gen_call_total cf (f_gen s) (make_identifier (f_unique_prefix ++ p))) as [v [g ->]]. eauto.
  - rewrite E. destruct (f_prim_total cf s sp k p) as [v [s' ->]]. cbn. eauto.
Qed.

Theorem f_run_total cf ops : forall s, exists outs s', f_run cf s ops = Ok (outs, s').
Proof.
  induction ops as [|op ops IH]; intros s; cbn; [eauto|].
  destruct (f_step_total cf s op) as [o [s1 ->]]. destruct (IH s1) as [os [s2 ->]]. eauto.
Qed.

(* ------------------------------------------------------------------ C13: stability (Fortran) *)

Lemma f_prim_returns cf s sp k p v s' : f_step cf s (f_op_of sp k p) = Ok (v, s') -> f_lookup s' sp k = Some v.
Proof.
  intros H. apply f_prim_spec in H as [[A ->]|[_ [L _]]]; [exact A|].
  rewrite L, space_eqb_refl, String.eqb_refl. reflexivity.
Qed.

Lemma f_prim_keeps cf s sp0 k0 p0 o s' sp k v :
  f_step cf s (f_op_of sp0 k0 p0) = Ok (o, s') -> f_lookup s sp k = Some v -> f_lookup s' sp k = Some v.
Proof.
  intros H A. apply f_prim_spec in H as [[_ ->]|[N [L _]]]; [exact A|].
  rewrite L. destruct (space_eqb sp sp0 && String.eqb k k0) eqn:E; [|exact A].
  apply andb_true_iff in E as [E1 E2]. apply space_eqb_eq in E1. apply String.eqb_eq in E2. subst. congruence.
Qed.

Lemma f_step_keeps cf s op o s' sp k v :
  f_step cf s op = Ok (o, s') -> f_lookup s sp k = Some v -> f_lookup s' sp k = Some v.
Proof.
  intros H A. destruct (f_op_view cf op) as [[p ->]|[sp0 [k0 [p0 [q [E _]]]]]].
  - apply f_unique_spec in H as [L _]. now rewrite L.
  - rewrite E in H. apply with_prefix_ok in H as [w [H _]]. eapply f_prim_keeps; eauto.
Qed.

Lemma f_run_keeps cf ops : forall s outs s' sp k v,
  f_run cf s ops = Ok (outs, s') -> f_lookup s sp k = Some v -> f_lookup s' sp k = Some v.
Proof.
  induction ops as [|op ops IH]; intros s outs s' sp k v H A; cbn in H.
  - now injection H as <- <-.
  - destruct (f_step cf s op) as [[o s1]| |] eqn:E; try discriminate.
    destruct (f_run cf s1 ops) as [[os s2]| |] eqn:R; try discriminate. injection H as <- <-.
    eapply IH; eauto. eapply f_step_keeps; eauto.
Qed.

(* any keyed operation repeated after any interleaving of other operations gives the first answer
   and leaves the state alone *)
Theorem f_stable cf s op o s1 ops outs s2 :
  (forall p, op <> FUnique p) ->
  f_step cf s op = Ok (o, s1) -> f_run cf s1 ops = Ok (outs, s2) ->
  f_step cf s2 op = Ok (o, s2).
Proof.
  intros NU H R. destruct (f_op_view cf op) as [[p ->]|[sp [k [p [q [E _]]]]]]; [now destruct (NU p)|].
  rewrite E in H |- *. apply with_prefix_ok in H as [w [H ->]].
  apply f_prim_returns in H. eapply f_run_keeps in H; [|exact R].
  rewrite (f_prim_hit cf _ _ _ p _ H). reflexivity.
Qed.

(* ------------------------------------------------------------------ C13: injectivity (Fortran) *)

Record FInv (cf : bool) (s : f_state) : Prop := {
  fi_fp : g_fp (f_gen s) = "";
  fi_cover : forall sp k v, f_lookup s sp k = Some v -> In v (g_existing (f_gen s));
  fi_word : forall v, In v (g_existing (f_gen s)) -> sall is_word v = true;
  fi_inj : forall sp1 k1 v1 sp2 k2 v2,
      f_lookup s sp1 k1 = Some v1 -> f_lookup s sp2 k2 = Some v2 -> (sp1 <> sp2 \/ k1 <> k2) ->
      nrm cf v1 <> nrm cf v2
}.

Lemma assoc_nodup_inj_f (f : string -> string) (l : dict) k1 k2 v1 v2 :
  NoDup (map f (map snd l)) -> assoc k1 l = Some v1 -> assoc k2 l = Some v2 -> k1 <> k2 -> f v1 <> f v2.
Proof.
  induction l as [|[k v] l IH]; cbn; [discriminate|]. intros ND H1 H2 Hk. inversion ND as [|? ? Hn ND']; subst.
  destruct (String.eqb k1 k) eqn:E1, (String.eqb k2 k) eqn:E2.
  - apply String.eqb_eq in E1, E2. congruence.
  - injection H1 as ->. intros E. apply Hn. rewrite E. apply in_map, in_map_iff. exists (k2, v2).
    split; [reflexivity | now apply assoc_in].
  - injection H2 as ->. intros E. apply Hn. rewrite <- E. apply in_map, in_map_iff. exists (k1, v1).
    split; [reflexivity | now apply assoc_in].
  - eauto.
Qed.

Lemma f_start_facts :
  nodupb (map lower (map snd f_global_start)) = true /\ nodupb (map snd f_global_start) = true /\
  forallb (sall is_word) (map snd f_global_start) = true.
Proof. repeat split; reflexivity. Qed.

Lemma FInv_f0 cf : FInv cf f0.
Proof.
  destruct f_start_facts as [N1 [N2 W]]. constructor.
  - reflexivity.
  - intros sp k v H. destruct sp; [cbn in H; discriminate | | cbn in H; discriminate].
    change (assoc k f_global_start = Some v) in H. change (In v (rev (map snd f_global_start))).
    apply -> in_rev. apply assoc_in in H. apply in_map_iff. now exists (k, v).
  - intros v H. change (In v (rev (map snd f_global_start))) in H. apply in_rev in H.
    rewrite forallb_forall in W. auto.
  - intros sp1 k1 v1 sp2 k2 v2 H1 H2 D.
    destruct sp1; [cbn in H1; discriminate | | cbn in H1; discriminate].
    destruct sp2; [cbn in H2; discriminate | | cbn in H2; discriminate].
    destruct D as [D|D]; [congruence|].
    apply (assoc_nodup_inj_f (nrm cf) f_global_start k1 k2 v1 v2); auto.
    destruct cf.
    + apply nodupb_NoDup. exact N1.
    + replace (map (nrm false) (map snd f_global_start)) with (map snd f_global_start)
        by (symmetry; exact (map_id _)).
      apply nodupb_NoDup. exact N2.
Qed.

Lemma gen_call_word cf g b v g' :
  g_fp g = "" -> sall is_word b = true -> gen_call cf g b = Ok (v, g') -> sall is_word v = true.
Proof.
  intros F W H. apply gen_call_spec in H as [S _]. rewrite F in S. eapply out_shape_word; [|exact S]. exact W.
Qed.

(* the effect of one generator call on the invariant, with or without a new binding *)
Lemma FInv_gen cf s s' o b (newk : option (space * string)) :
  FInv cf s ->
  gen_call cf (f_gen s) (make_identifier b) = Ok (o, f_gen s') ->
  (forall sp' k', f_lookup s' sp' k' =
     match newk with
     | Some (sp, k) => if space_eqb sp' sp && String.eqb k' k then Some o else f_lookup s sp' k'
     | None => f_lookup s sp' k'
     end) ->
  FInv cf s'.
Proof.
  intros [F C W J] G L. pose proof (gen_call_word _ _ _ _ _ F (make_identifier_word b) G) as Wo.
  apply gen_call_spec in G as [_ [NC [EX FP]]]. apply conflicting_false in NC.
  assert (Lk : forall sp' k' v', f_lookup s' sp' k' = Some v' ->
             (newk = Some (sp', k') /\ v' = o) \/
             ((forall sp k, newk = Some (sp, k) -> sp' <> sp \/ k' <> k) /\ f_lookup s sp' k' = Some v')).
  { intros sp' k' v' Hl. rewrite L in Hl. destruct newk as [[sp k]|].
    - destruct (space_eqb sp' sp) eqn:E1; cbn in Hl.
      + apply space_eqb_eq in E1. destruct (String.eqb k' k) eqn:E2.
        * apply String.eqb_eq in E2. injection Hl as <-. subst. auto.
        * apply String.eqb_neq in E2. right. split; [|exact Hl]. intros ? ? X; injection X as <- <-. auto.
      + right. split; [|exact Hl]. intros ? ? X; injection X as <- <-. left. intros ->.
        now rewrite space_eqb_refl in E1.
    - right. split; [discriminate | exact Hl]. }
  constructor.
  - now rewrite FP.
  - intros sp' k' v' Hl. rewrite EX. apply Lk in Hl as [[_ ->]|[_ Hl]]; [now left | right; eauto].
  - intros v. rewrite EX. intros [<-|Hv]; auto.
  - intros sp1 k1 v1 sp2 k2 v2 H1 H2 D.
    apply Lk in H1 as [[N1 ->]|[D1 H1]], H2 as [[N2 ->]|[D2 H2]].
    + rewrite N1 in N2. injection N2 as <- <-. destruct D; congruence.
    + intros E. apply NC. rewrite E. apply in_map. eauto.
    + intros E. apply NC. rewrite <- E. apply in_map. eauto.
    + eapply J; eauto.
Qed.

Lemma FInv_step cf s op o s' : FInv cf s -> f_step cf s op = Ok (o, s') -> FInv cf s'.
Proof.
  intros I H. destruct (f_op_view cf op) as [[p ->]|[sp [k [p [q [E _]]]]]].
  - apply f_unique_spec in H as [L G]. eapply (FInv_gen cf s s' o _ None); eauto.
  - rewrite E in H. apply with_prefix_ok in H as [w [H _]].
    apply f_prim_spec in H as [[_ ->]|[_ [L G]]]; [exact I|].
    eapply (FInv_gen cf s s' w _ (Some (sp, k))); eauto.
Qed.

Lemma FInv_run cf ops : forall s outs s', FInv cf s -> f_run cf s ops = Ok (outs, s') -> FInv cf s'.
Proof.
  induction ops as [|op ops IH]; intros s outs s' I H; cbn in H.
  - now injection H as <- <-.
  - destruct (f_step cf s op) as [[o s1]| |] eqn:E; try discriminate.
    destruct (f_run cf s1 ops) as [[os s2]| |] eqn:R; try discriminate. injection H as <- <-.
    eapply IH; [|exact R]. eapply FInv_step; eauto.
Qed.

Definition f_reach (cf : bool) (s : f_state) : Prop := exists ops outs, f_run cf f0 ops = Ok (outs, s).

Lemma f_reach_inv cf s : f_reach cf s -> FInv cf s.
Proof. intros [ops [outs R]]. eapply FInv_run; [apply FInv_f0 | exact R]. Qed.

(* distinct (name space, key) pairs never share an identifier under the generator's comparison ... *)
Theorem f_injective_nrm cf s sp1 k1 v1 sp2 k2 v2 :
  FInv cf s -> f_lookup s sp1 k1 = Some v1 -> f_lookup s sp2 k2 = Some v2 ->
  (sp1 <> sp2 \/ k1 <> k2) -> nrm cf v1 <> nrm cf v2.
Proof. intros I. apply (fi_inj _ _ I). Qed.

(* ... hence never as strings (whatever the switch) ... *)
Theorem f_injective_case_sensitive cf s sp1 k1 v1 sp2 k2 v2 :
  FInv cf s -> f_lookup s sp1 k1 = Some v1 -> f_lookup s sp2 k2 = Some v2 ->
  (sp1 <> sp2 \/ k1 <> k2) -> v1 <> v2.
Proof. intros I H1 H2 D E. apply (fi_inj _ _ I _ _ _ _ _ _ H1 H2 D). now rewrite E. Qed.

(* ... and, with the case-folding generator, not even when letter case is ignored (Fortran's comparison) *)
Theorem f_injective_lower s sp1 k1 v1 sp2 k2 v2 :
  FInv true s -> f_lookup s sp1 k1 = Some v1 -> f_lookup s sp2 k2 = Some v2 ->
  (sp1 <> sp2 \/ k1 <> k2) -> lower v1 <> lower v2.
Proof. intros I. apply (fi_inj _ _ I). Qed.

(* the unchanged tree (plain generator): two names that differ only in case collide in Fortran *)
Lemma f_injective_lower_refuted_plain :
  exists k1 k2 v1 v2, k1 <> k2 /\ f_outputs false [FGetItem k1; FGetItem k2] = Some [v1; v2] /\ lower v1 = lower v2.
Proof. exists "<state>y", "<state>Y", "dagrt_state%state_y", "dagrt_state%state_Y". repeat split. discriminate. Qed.

(* names made by make_unique_fortran_name differ from every bound name and from every earlier name *)
Theorem f_unique_fresh cf s p o s' :
  FInv cf s -> f_step cf s (FUnique p) = Ok (o, s') ->
  ~ In (nrm cf o) (map (nrm cf) (g_existing (f_gen s))) /\
  (forall sp k v, f_lookup s sp k = Some v -> nrm cf v <> nrm cf o) /\
  g_existing (f_gen s') = o :: g_existing (f_gen s).
Proof.
  intros I H. apply f_unique_spec in H as [_ G]. apply gen_call_spec in G as [_ [NC [EX _]]].
  apply conflicting_false in NC. repeat split; auto.
  intros sp k v Hl E. apply NC. rewrite <- E. apply in_map. eapply fi_cover; eauto.
Qed.

Lemma f_step_existing_grows cf s op o s' :
  f_step cf s op = Ok (o, s') -> incl (g_existing (f_gen s)) (g_existing (f_gen s')).
Proof.
  intros H. destruct (f_op_view cf op) as [[p ->]|[sp [k [p [q [E _]]]]]].
  - apply f_unique_spec in H as [_ G]. apply gen_call_spec in G as [_ [_ [EX _]]]. rewrite EX. now right.
  - rewrite E in H. apply with_prefix_ok in H as [w [H _]].
    apply f_prim_spec in H as [[_ ->]|[_ [_ G]]]; [apply incl_refl|].
    apply gen_call_spec in G as [_ [_ [EX _]]]. rewrite EX. now right.
Qed.

Lemma f_run_existing_grows cf ops : forall s outs s',
  f_run cf s ops = Ok (outs, s') -> incl (g_existing (f_gen s)) (g_existing (f_gen s')).
Proof.
  induction ops as [|op ops IH]; intros s outs s' H; cbn in H.
  - injection H as <- <-. apply incl_refl.
  - destruct (f_step cf s op) as [[o s1]| |] eqn:E; try discriminate.
    destruct (f_run cf s1 ops) as [[os s2]| |] eqn:R; try discriminate. injection H as <- <-.
    eapply incl_tran; [eapply f_step_existing_grows; eauto | eapply IH; eauto].
Qed.

Theorem f_unique_distinct cf s p1 o1 s1 ops outs s2 p2 o2 s3 :
  f_step cf s (FUnique p1) = Ok (o1, s1) -> f_run cf s1 ops = Ok (outs, s2) ->
  f_step cf s2 (FUnique p2) = Ok (o2, s3) -> nrm cf o1 <> nrm cf o2.
Proof.
  intros H1 R H2. apply f_unique_spec in H1 as [_ G1], H2 as [_ G2].
  apply gen_call_spec in G1 as [_ [_ [EX1 _]]], G2 as [_ [NC _]]. apply conflicting_false in NC.
  intros E. apply NC. rewrite <- E. apply in_map. eapply f_run_existing_grows; eauto. rewrite EX1. now left.
Qed.

(* ------------------------------------------------------------------ C13: storage class (Fortran) *)

Lemma f_qualifier_nonword : sall is_word f_state_qualifier = false.
Proof. reflexivity. Qed.

Lemma word_not_qualified v : sall is_word v = true -> prefix f_state_qualifier v = false.
Proof.
  intros W. destruct (prefix f_state_qualifier v) eqn:E; [|reflexivity].
  apply prefix_split in E as [r ->]. rewrite sall_app, f_qualifier_nonword in W. discriminate.
Qed.

(* persistent names are components of the state structure, everything else is a local variable *)
Theorem f_storage cf s k v s' :
  FInv cf s -> f_step cf s (FGetItem k) = Ok (v, s') ->
  (is_state_variable k = true -> prefix f_state_qualifier v = true) /\
  (is_state_variable k = false -> sall is_word v = true /\ prefix f_state_qualifier v = false).
Proof.
  intros I H. pose proof (FInv_step _ _ _ _ _ I H) as I'. cbn in H. split; intros E; rewrite E in H.
  - apply with_prefix_ok in H as [w [_ ->]]. apply prefix_app.
  - assert (W : sall is_word v = true).
    { apply (f_prim_returns cf s Local k None) in H. eapply fi_word; eauto. eapply fi_cover; eauto. }
    split; [exact W | now apply word_not_qualified].
Qed.

(* ------------------------------------------------------------------ C13: legality and reserved names (Fortran) *)

(* split at the FIRST underscore *)
Fixpoint us_split (s : string) : option (string * string) :=
  match s with
  | EmptyString => None
  | String c r => if is_us c then Some (EmptyString, r)
                  else match us_split r with Some (h, t) => Some (String c h, t) | None => None end
  end.

Lemma us_split_some s h t :
  us_split s = Some (h, t) -> s = h ++ "_" ++ t /\ sall (fun c => negb (is_us c)) h = true.
Proof.
  revert h; induction s as [|c s IH]; intros h H; cbn in H; [discriminate|].
  destruct (is_us c) eqn:U.
  - injection H as <- <-. apply is_us_eq in U. subst. auto.
  - destruct (us_split s) as [[h' t']|]; [|discriminate]. injection H as <- <-.
    destruct (IH _ eq_refl) as [-> Hh]. cbn. now rewrite U, Hh.
Qed.

(* what the generated module keeps for itself: everything in the "dagrt_" name space and its entry points;
   Fortran compares names without regard to case *)
Definition f_reserved (v : string) : bool :=
  prefix (lower f_internal_prefix) (lower v) || existsb (String.eqb (lower v)) (map lower f_entry_points).

Definition head_ok (hh : string) : bool :=
  let h := lower (hh ++ "_") in
  negb (prefix h (lower f_internal_prefix)) && negb (prefix (lower f_internal_prefix) h)
  && forallb (fun r => negb (prefix h r)) (map lower f_entry_points).

(* a tag/prefix t whose sanitised form is  <letters...>_<...>  *)
Definition tag_ok (t : string) : bool :=
  match us_split (lstrip_us (smap sanitise_char t)) with
  | Some (hh, _) => first_is is_letter hh && head_ok hh
  | None => false
  end.
Definition tag_first (t : string) : bool := first_is is_letter (lstrip_us (smap sanitise_char t)).

Lemma prefix_lower p v : prefix p v = true -> prefix (lower p) (lower v) = true.
Proof. intros H. apply prefix_split in H as [r ->]. rewrite lower_app. apply prefix_app. Qed.

Lemma first_is_nonempty p s : first_is p s = true -> s <> "".
Proof. destruct s; cbn; congruence. Qed.

Lemma tag_first_legal t r v :
  tag_first t = true -> out_shape "" (make_identifier (t ++ r)) v -> f_name_chars v = true.
Proof.
  unfold tag_first. intros F S. pose proof (first_is_nonempty _ _ F) as Ne.
  unfold f_name_chars. apply andb_true_iff. split.
  - eapply out_shape_first; [|exact S]. cbn. rewrite make_identifier_tag by exact Ne. now apply first_is_app.
  - eapply out_shape_word; [|exact S]. cbn. apply make_identifier_word.
Qed.

Lemma tag_ok_first t : tag_ok t = true -> tag_first t = true.
Proof.
  unfold tag_ok, tag_first. destruct (us_split _) as [[hh rest]|] eqn:E; [|discriminate].
  rewrite andb_true_iff. intros [F _]. apply us_split_some in E as [-> _]. now apply first_is_app.
Qed.

Lemma tag_ok_unreserved t r v :
  tag_ok t = true -> out_shape "" (make_identifier (t ++ r)) v -> f_reserved v = false.
Proof.
  intros T S. pose proof (tag_ok_first _ T) as F. unfold tag_first in F. apply first_is_nonempty in F.
  unfold tag_ok in T. destruct (us_split _) as [[hh rest]|] eqn:E; [|discriminate].
  apply andb_true_iff in T as [_ T]. unfold head_ok in T. rewrite !andb_true_iff, !negb_true_iff in T.
  destruct T as [[T1 T2] T3]. pose proof (us_split_some _ _ _ E) as [Eq Hh].
  assert (P : prefix (hh ++ "_") v = true).
  { eapply out_shape_head_us with (x := rest ++ smap sanitise_char r); [exact Hh | | exact S].
    cbn. rewrite make_identifier_tag by exact F. rewrite Eq, !app_assoc. reflexivity. }
  apply prefix_lower in P. unfold f_reserved. apply orb_false_iff. split.
  - eapply incomparable_prefix_false; [exact T1 | exact T2 | exact P].
  - eapply not_in_by_prefix; [exact T3 | exact P].
Qed.

Lemma f_tags_ok :
  tag_ok f_local_prefix = true /\ tag_ok f_unique_prefix = true /\ forallb tag_ok state_prefixes = true /\
  tag_first f_internal_prefix = true /\
  forallb (fun k => first_is is_letter (make_identifier k)) state_exact = true /\
  forallb (fun k => match assoc k f_global_start with Some _ => true | None => false end) state_exact = true /\
  forallb (fun kv => f_name_chars (snd kv)) f_global_start = true.
Proof. repeat split; reflexivity. Qed.

(* which request produced a binding *)
Definition f_shape (sp : space) (k v : string) : Prop :=
  match sp with
  | Local => out_shape "" (make_identifier (seed_of k (f_local_prefix_for k None))) v
  | Global => In (k, v) f_global_start \/ (is_state_variable k = true /\ out_shape "" (make_identifier k) v)
  | Function => out_shape "" (make_identifier k) v
  end.
Definition FShape (s : f_state) : Prop := forall sp k v, f_lookup s sp k = Some v -> f_shape sp k v.

Lemma FShape_f0 : FShape f0.
Proof.
  intros sp k v H. destruct sp; [cbn in H; discriminate | | cbn in H; discriminate].
  left. now apply assoc_in.
Qed.

Lemma FShape_step cf s op o s' :
  FInv cf s -> FShape s -> f_op_wf op -> f_step cf s op = Ok (o, s') -> FShape s'.
Proof.
  intros I Sh Wf H. destruct (f_op_view cf op) as [[p ->]|[sp [k [p [q [E W]]]]]].
  - apply f_unique_spec in H as [L _]. intros sp k v Hl. rewrite L in Hl. now apply Sh.
  - specialize (W Wf). rewrite E in H. apply with_prefix_ok in H as [w [H _]].
    apply f_prim_spec in H as [[_ ->]|[_ [L G]]]; [exact Sh|].
    apply gen_call_spec in G as [S _]. rewrite (fi_fp _ _ I) in S.
    intros sp' k' v' Hl. rewrite L in Hl. destruct (space_eqb sp' sp && String.eqb k' k) eqn:C; [|now apply Sh].
    apply andb_true_iff in C as [C1 C2]. apply space_eqb_eq in C1. apply String.eqb_eq in C2. subst.
    injection Hl as <-. destruct sp; cbn [f_prim_wf f_pfx f_shape] in *.
    + now subst p.
    + right. auto.
    + exact S.
Qed.

Lemma F_run_inv cf ops : forall s outs s',
  FInv cf s -> FShape s -> Forall f_op_wf ops -> f_run cf s ops = Ok (outs, s') -> FInv cf s' /\ FShape s'.
Proof.
  induction ops as [|op ops IH]; intros s outs s' I Sh Wf H; cbn in H.
  - now injection H as <- <-.
  - destruct (f_step cf s op) as [[o s1]| |] eqn:E; try discriminate.
    destruct (f_run cf s1 ops) as [[os s2]| |] eqn:R; try discriminate. injection H as <- <-.
    inversion Wf as [|? ? W1 W2]; subst.
    eapply IH; [| | exact W2 | exact R]; [eapply FInv_step | eapply FShape_step]; eauto.
Qed.

(* states reached the way the Fortran generator uses the manager *)
Definition f_reach_wf (cf : bool) (s : f_state) : Prop :=
  exists ops outs, Forall f_op_wf ops /\ f_run cf f0 ops = Ok (outs, s).

Lemma f_reach_wf_inv cf s : f_reach_wf cf s -> FInv cf s /\ FShape s.
Proof. intros [ops [outs [W R]]]. eapply F_run_inv; eauto using FInv_f0, FShape_f0. Qed.

Lemma is_state_cases k :
  is_state_variable k = true ->
  In k state_exact \/ exists t r, In t state_prefixes /\ k = t ++ r.
Proof.
  unfold is_state_variable. rewrite orb_true_iff. intros [H|H].
  - left. apply existsb_exists in H as [x [Hx E]]. apply String.eqb_eq in E. now subst.
  - right. apply existsb_exists in H as [t [Ht P]]. apply prefix_split in P as [r ->]. eauto.
Qed.

Lemma f_local_seed k :
  (prefix f_internal_prefix k = false /\ seed_of k (f_local_prefix_for k None) = f_local_prefix ++ k) \/
  (exists r, k = f_internal_prefix ++ r /\ seed_of k (f_local_prefix_for k None) = f_internal_prefix ++ r).
Proof.
  unfold f_local_prefix_for, seed_of. destruct (prefix f_internal_prefix k) eqn:P; cbn [negb].
  - right. apply prefix_split in P as [r E]. exists r. split; [exact E | exact E].
  - left. split; reflexivity.
Qed.

(* letter first, then letters/digits/underscores -- for variables; function names only get the characters *)
Theorem f_legal_chars s sp k v :
  FShape s -> f_lookup s sp k = Some v ->
  match sp with
  | Local | Global => f_name_chars v = true
  | Function => sall is_word v = true
  end.
Proof.
  intros Sh H. specialize (Sh _ _ _ H). destruct f_tags_ok as [TL [_ [TS [TI [TE [_ TG]]]]]].
  destruct sp; cbn [f_shape] in Sh.
  - destruct (f_local_seed k) as [[_ E]|[r [_ E]]]; rewrite E in Sh.
    + eapply tag_first_legal; [apply tag_ok_first, TL | exact Sh].
    + eapply tag_first_legal; [exact TI | exact Sh].
  - destruct Sh as [Sh|[St Sh]].
    + rewrite forallb_forall in TG. exact (TG _ Sh).
    + apply is_state_cases in St as [Ex|[t [r [Ht ->]]]].
      * rewrite forallb_forall in TE. specialize (TE _ Ex). unfold f_name_chars. apply andb_true_iff. split.
        -- eapply out_shape_first; [|exact Sh]. exact TE.
        -- eapply out_shape_word; [|exact Sh]. apply make_identifier_word.
      * rewrite forallb_forall in TS. eapply tag_first_legal; [apply tag_ok_first, TS, Ht | exact Sh].
  - eapply out_shape_word; [|exact Sh]. apply make_identifier_word.
Qed.

(* user variables (keys outside "dagrt_") and persistent names other than <t>, <dt> stay out of the generator's
   own name space and away from the entry points *)
Theorem f_reserved_ok s sp k v :
  FShape s -> f_lookup s sp k = Some v ->
  match sp with
  | Local => prefix f_internal_prefix k = false -> f_reserved v = false
  | Global => assoc k f_global_start = None -> f_reserved v = false
  | Function => True
  end.
Proof.
  intros Sh H. specialize (Sh _ _ _ H). destruct f_tags_ok as [TL [_ [TS [_ [_ [TX _]]]]]].
  destruct sp; cbn [f_shape] in Sh; [| |exact I].
  - intros P. destruct (f_local_seed k) as [[_ E]|[r [-> _]]].
    + rewrite E in Sh. eapply tag_ok_unreserved; [exact TL | exact Sh].
    + now rewrite prefix_app in P.
  - intros N. destruct Sh as [Sh|[St Sh]]; [now apply in_assoc_some in Sh|].
    apply is_state_cases in St as [Ex|[t [r [Ht ->]]]].
    + rewrite forallb_forall in TX. specialize (TX _ Ex). now rewrite N in TX.
    + rewrite forallb_forall in TS. eapply tag_ok_unreserved; [apply TS, Ht | exact Sh].
Qed.

Theorem f_unique_legal cf s p o s' :
  FInv cf s -> f_step cf s (FUnique p) = Ok (o, s') -> f_name_chars o = true /\ f_reserved o = false.
Proof.
  intros I H. apply f_unique_spec in H as [_ G]. apply gen_call_spec in G as [S _]. rewrite (fi_fp _ _ I) in S.
  destruct f_tags_ok as [_ [TU _]]. split.
  - eapply tag_first_legal; [apply tag_ok_first, TU | exact S].
  - eapply tag_ok_unreserved; [exact TU | exact S].
Qed.

(* --- what does NOT hold, on the real code as well (open findings) *)

Fixpoint rep (n : nat) (c : ascii) : string := match n with O => EmptyString | S m => String c (rep m c) end.

(* nothing bounds the length: a 58-character variable name becomes a 64-character identifier *)
Lemma f_legal_length_refuted cf :
  exists k v, f_outputs cf [FGetItem k] = Some [v] /\ f_name_chars v = true /\ f_identifier v = false.
Proof.
  exists (rep 58 "a"), (f_local_prefix ++ rep 58 "a"). destruct cf; repeat split; reflexivity.
Qed.

(* name_function does not make its result start with a letter *)
Lemma f_legal_function_refuted cf :
  exists k v, f_outputs cf [FFunction k] = Some [v] /\ f_name_chars v = false.
Proof. exists "1f", "1f". destruct cf; split; reflexivity. Qed.

(* a user variable whose name starts with "dagrt_" is taken as is: it can be one of the generator's own
   identifiers, or the reference counter of another variable *)
Lemma f_reserved_refuted cf :
  exists k v, f_outputs cf [FGetItem k] = Some [v] /\ f_reserved v = true /\ In v f_own_tokens.
Proof. exists "dagrt_state", "dagrt_state". destruct cf; repeat split; try reflexivity; cbn; tauto. Qed.

Lemma f_refcount_shared_refuted cf :
  exists k1 k2 v, f_outputs cf [FGetItem k1; FRefcount k2 true] = Some [v; v].
Proof. exists "dagrt_refcnt_x", "x", "dagrt_refcnt_x". destruct cf; reflexivity. Qed.

(* ------------------------------------------------------------------ examples (Fortran) *)

Example ex_f_run :
  f_outputs true [FGetItem "y"; FGetItem "Y"; FGetItem "<state>y^"; FGetItem "<state>y*"; FGetItem "y_1";
                  FFunction "lploc_y"; FUnique "y"; FUnique "y"; FRefcount "y" true; FGetItem "Y"; FGetItem "<t>"]
  = Some ["lploc_y"; "lploc_Y_0"; "dagrt_state%state_y_"; "dagrt_state%state_y__0"; "lploc_y_1";
          "lploc_y_2"; "drtf_y"; "drtf_y_0"; "dagrt_refcnt_y"; "lploc_Y_0"; "dagrt_state%dagrt_t"].
Proof. reflexivity. Qed.

Example ex_f_run_plain :
  f_outputs false [FGetItem "y"; FGetItem "Y"; FFunction "lploc_y"]
  = Some ["lploc_y"; "lploc_Y"; "lploc_y_0"].
Proof. reflexivity. Qed.

Example ex_f_reach_wf cf :
  exists s, f_reach_wf cf s /\ f_lookup s Local "y" = Some "lploc_y" /\ f_lookup s Global "<p>y" = Some "p_y".
Proof.
  destruct (f_run cf f0 [FGetItem "y"; FGetItem "<p>y"]) as [[o s]| |] eqn:E;
    try (destruct cf; vm_compute in E; discriminate).
  exists s. split.
  - exists [FGetItem "y"; FGetItem "<p>y"], o. split; [repeat constructor | exact E].
  - destruct cf; vm_compute in E; injection E as _ <-; split; reflexivity.
Qed.

Example ex_gen_call :
  gen_call false (mkGen "local" ["localy_1"; "localy"] [("localy", 2%N)]) "y_1"
  = Ok ("localy_2", mkGen "local" ["localy_2"; "localy_1"; "localy"] [("localy", 3%N); ("localy", 2%N)]).
Proof. reflexivity. Qed.

Example ex_wf_ops : Forall f_op_wf [FGetItem "x"; FGlobal "<state>y"; FLocal "z" None; FUnique "tmp"; FRefcount "x" true].
Proof. repeat constructor. Qed.
