(* C17, part 2: soundness of the model of dagrt's unifier and of match(). *)
From Coq Require Import ZArith String List Bool Arith Permutation Lia.
Import ListNotations.
From Dagrt Require Import Match MatchACProofs.

Notation "a ~~ b" := (AC1_equiv a b) (at level 70).

(* ------------------------------------------------------------------ small list / dict lemmas *)

Lemma mem_In x l : mem x l = true <-> In x l.
Proof.
  unfold mem. rewrite existsb_exists. split.
  - intros (y & Hy & E). apply String.eqb_eq in E. now subst.
  - intros H. exists x. split; [exact H|apply String.eqb_refl].
Qed.

Lemma memn_In x l : memn x l = true <-> In x l.
Proof.
  unfold memn. rewrite existsb_exists. split.
  - intros (y & Hy & E). apply Nat.eqb_eq in E. now subst.
  - intros H. exists x. split; [exact H|apply Nat.eqb_refl].
Qed.

Lemma lookup_In {A} (m : list (string * A)) k v : lookup m k = Some v -> In (k, v) m.
Proof.
  induction m as [|[k' v'] m IH]; cbn [lookup In]; [discriminate|].
  destruct (String.eqb k' k) eqn:E.
  - intros H. injection H as <-. apply String.eqb_eq in E. subst. now left.
  - intros H. right. now apply IH.
Qed.

Lemma lookup_None_notin {A} (m : list (string * A)) k : lookup m k = None -> ~ In k (map fst m).
Proof.
  induction m as [|[k' v'] m IH]; cbn [lookup map fst In]; [tauto|].
  destruct (String.eqb k' k) eqn:E; [discriminate|].
  intros H [H1|H1]; [subst; rewrite String.eqb_refl in E; discriminate|now apply IH].
Qed.

Lemma lookup_dict_set {A} (m : list (string * A)) k v k' :
  lookup (dict_set m k v) k' = if String.eqb k k' then Some v else lookup m k'.
Proof.
  induction m as [|[k0 v0] m IH]; cbn [dict_set lookup].
  - reflexivity.
  - destruct (String.eqb k0 k) eqn:E; cbn [lookup].
    + apply String.eqb_eq in E. subst k0. destruct (String.eqb k k'); reflexivity.
    + rewrite IH. destruct (String.eqb k0 k') eqn:E2; [|reflexivity].
      apply String.eqb_eq in E2. subst k0. rewrite String.eqb_sym in E. now rewrite E.
Qed.

Lemma dict_set_keys_in {A} (m : list (string * A)) k v x :
  In x (map fst (dict_set m k v)) -> x = k \/ In x (map fst m).
Proof.
  induction m as [|[k0 v0] m IH]; cbn [dict_set map fst In].
  - intros [H|[]]. now left.
  - destruct (String.eqb k0 k) eqn:E; cbn [map fst In].
    + apply String.eqb_eq in E. subst. intros [H|H]; auto.
    + intros [H|H]; auto. destruct (IH H); auto.
Qed.

Lemma dict_set_nodup {A} (m : list (string * A)) k v :
  NoDup (map fst m) -> NoDup (map fst (dict_set m k v)).
Proof.
  induction m as [|[k0 v0] m IH]; cbn [dict_set map fst]; intros H.
  - constructor; [intros []|constructor].
  - inversion H as [|? ? Hn Hd]; subst.
    destruct (String.eqb k0 k) eqn:E; cbn [map fst].
    + apply String.eqb_eq in E. subst. now constructor.
    + constructor; [|now apply IH].
      intros Hin. apply dict_set_keys_in in Hin. destruct Hin as [->|Hin]; [|contradiction].
      rewrite String.eqb_refl in E. discriminate.
Qed.

(* ------------------------------------------------------------------ unify_map *)

Lemma unify_map_go_other {A} (veqb : A -> A -> bool) m1 : forall m2 res l x,
  unify_map_go veqb m1 m2 res = Some l ->
  (forall v, In (x, v) m2 -> lookup m1 x <> None) ->
  lookup l x = lookup res x.
Proof.
  induction m2 as [|[n v] m2 IH]; intros res l x H Hx; cbn [unify_map_go] in H.
  - now injection H as <-.
  - destruct (lookup m1 n) as [v1|] eqn:E.
    + destruct (veqb v1 v); [|discriminate].
      apply (IH _ _ _ H). intros v' Hin. apply (Hx v'). now right.
    + rewrite (IH _ _ _ H).
      * rewrite lookup_dict_set. destruct (String.eqb n x) eqn:En; [|reflexivity].
        apply String.eqb_eq in En. subst n. exfalso. apply (Hx v); [now left|exact E].
      * intros v' Hin. apply (Hx v'). now right.
Qed.

Lemma unify_map_go_nodup {A} (veqb : A -> A -> bool) m1 : forall m2 res l,
  unify_map_go veqb m1 m2 res = Some l -> NoDup (map fst res) -> NoDup (map fst l).
Proof.
  induction m2 as [|[n v] m2 IH]; intros res l H Hn; cbn [unify_map_go] in H.
  - now injection H as <-.
  - destruct (lookup m1 n) as [v1|].
    + destruct (veqb v1 v); [|discriminate]. eauto.
    + apply (IH _ _ H). now apply dict_set_nodup.
Qed.

Lemma unify_map_go_new {A} (veqb : A -> A -> bool) m1 : forall m2 res l x v,
  unify_map_go veqb m1 m2 res = Some l ->
  NoDup (map fst m2) -> In (x, v) m2 ->
  (exists v1, lookup m1 x = Some v1 /\ veqb v1 v = true) \/ (lookup m1 x = None /\ lookup l x = Some v).
Proof.
  induction m2 as [|[n v0] m2 IH]; intros res l x v H Hn Hin; [contradiction|].
  cbn [unify_map_go] in H. cbn [map fst] in Hn. inversion Hn as [|? ? Hnot Hn']; subst.
  destruct Hin as [Hin|Hin].
  - injection Hin as -> ->.
    destruct (lookup m1 x) as [v1|] eqn:E.
    + left. exists v1. split; [reflexivity|]. destruct (veqb v1 v); [reflexivity|discriminate].
    + right. split; [reflexivity|].
      rewrite (unify_map_go_other veqb m1 m2 _ l x H).
      * rewrite lookup_dict_set, String.eqb_refl. reflexivity.
      * intros v' Hin. exfalso. apply Hnot. change x with (fst (x, v')). now apply in_map.
  - destruct (lookup m1 n) as [v1|].
    + destruct (veqb v1 v0); [|discriminate]. eauto.
    + eauto.
Qed.

(* ------------------------------------------------------------------ equations as sets modulo == *)

Lemma keq_refl a : keq a a. Proof. reflexivity. Qed.
Lemma keq_sym a b : keq a b -> keq b a. Proof. unfold keq. congruence. Qed.
Lemma keq_trans a b c : keq a b -> keq b c -> keq a c. Proof. unfold keq. congruence. Qed.

Lemma eq_pair_eqb_spec p q : eq_pair_eqb p q = true -> fst p = fst q /\ keq (snd p) (snd q).
Proof.
  unfold eq_pair_eqb. intros H. apply andb_true_iff in H. destruct H as [H1 H2].
  apply String.eqb_eq in H1. apply expr_eqb_keq in H2. auto.
Qed.

Lemma eqs_add_in acc q p : In p (eqs_add acc q) -> In p acc \/ p = q.
Proof.
  unfold eqs_add. destruct (existsb (eq_pair_eqb q) acc); [auto|].
  intros H. apply in_app_or in H. destruct H as [H|[H|[]]]; auto.
Qed.

Lemma eqs_add_keep acc q p : In p acc -> In p (eqs_add acc q).
Proof. unfold eqs_add. destruct (existsb (eq_pair_eqb q) acc); [auto|]. intros H. apply in_or_app. now left. Qed.

Lemma eqs_add_new acc x e : exists e', In (x, e') (eqs_add acc (x, e)) /\ keq e' e.
Proof.
  unfold eqs_add. destruct (existsb (eq_pair_eqb (x, e)) acc) eqn:E.
  - apply existsb_exists in E. destruct E as ([y e'] & Hin & Hq). apply eq_pair_eqb_spec in Hq.
    cbn in Hq. destruct Hq as [<- Hk]. exists e'. split; [exact Hin|now apply keq_sym].
  - exists e. split; [apply in_or_app; right; now left|apply keq_refl].
Qed.

Lemma fold_eqs_add_in b : forall acc p, In p (fold_left eqs_add b acc) -> In p acc \/ In p b.
Proof.
  induction b as [|q b IH]; intros acc p H; cbn [fold_left] in H; [now left|].
  apply IH in H. destruct H as [H|H]; [|right; now right].
  apply eqs_add_in in H. destruct H as [H| ->]; [now left|right; now left].
Qed.

Lemma fold_eqs_add_keep b : forall acc p, In p acc -> In p (fold_left eqs_add b acc).
Proof. induction b as [|q b IH]; intros acc p H; cbn [fold_left]; [exact H|]. apply IH. now apply eqs_add_keep. Qed.

Lemma fold_eqs_add_new b : forall acc x e, In (x, e) b -> exists e', In (x, e') (fold_left eqs_add b acc) /\ keq e' e.
Proof.
  induction b as [|q b IH]; intros acc x e H; [contradiction|]. cbn [fold_left].
  destruct H as [->|H]; [|now apply IH].
  destruct (eqs_add_new acc x e) as (e' & Hin & Hk). exists e'. split; [|exact Hk].
  now apply fold_eqs_add_keep.
Qed.

Lemma eqs_union_in a b p : In p (eqs_union a b) -> In p a \/ In p b.
Proof.
  unfold eqs_union. intros H. apply fold_eqs_add_in in H. destruct H as [H|H]; [|now right].
  apply fold_eqs_add_in in H. destruct H as [[]|H]. now left.
Qed.

Lemma eqs_union_l a b x e : In (x, e) a -> exists e', In (x, e') (eqs_union a b) /\ keq e' e.
Proof.
  unfold eqs_union. intros H. destruct (fold_eqs_add_new a [] x e H) as (e' & Hin & Hk).
  exists e'. split; [|exact Hk]. now apply fold_eqs_add_keep.
Qed.

Lemma eqs_union_r a b x e : In (x, e) b -> exists e', In (x, e') (eqs_union a b) /\ keq e' e.
Proof. unfold eqs_union. intros H. now apply fold_eqs_add_new. Qed.

(* ------------------------------------------------------------------ records *)

Section Records.
  Variable free : list string.

  Definition sub := string -> option expr.

  Definition sat (s : sub) (r : urec) : Prop :=
    forall x e, In (x, e) (eqs r) -> exists e', s x = Some e' /\ keq e' e.

  Definition dom_ok (s : sub) : Prop := forall x e, s x = Some e -> mem x free = true.

  Definition wf (r : urec) : Prop :=
    NoDup (map fst (lmap r)) /\
    (forall x e, In (x, e) (eqs r) -> exists e', lookup (lmap r) x = Some e' /\ keq e' e) /\
    (forall x e, In (x, e) (eqs r) -> mem x free = true).

  Definition incl_eqs (u r : urec) : Prop :=
    forall x e, In (x, e) (eqs u) -> exists e', In (x, e') (eqs r) /\ keq e' e.

  Lemma incl_eqs_refl u : incl_eqs u u.
  Proof. intros x e H. exists e. split; [exact H|apply keq_refl]. Qed.

  Lemma incl_eqs_trans a b c : incl_eqs a b -> incl_eqs b c -> incl_eqs a c.
  Proof.
    intros H1 H2 x e H. destruct (H1 x e H) as (e1 & Hin1 & K1). destruct (H2 x e1 Hin1) as (e2 & Hin2 & K2).
    exists e2. split; [exact Hin2|]. eapply keq_trans; eauto.
  Qed.

  Lemma sat_mono s u r : incl_eqs u r -> sat s r -> sat s u.
  Proof.
    intros Hi Hs x e H. destruct (Hi x e H) as (e1 & Hin & K). destruct (Hs x e1 Hin) as (e' & E & K').
    exists e'. split; [exact E|]. eapply keq_trans; eauto.
  Qed.

  Lemma rec_unify_spec r1 r2 r :
    rec_unify r1 r2 = Some r -> wf r1 -> wf r2 ->
    wf r /\ incl_eqs r1 r /\ incl_eqs r2 r.
  Proof.
    unfold rec_unify. intros H (N1 & L1 & F1) (N2 & L2 & F2).
    destruct (unify_map expr_eqb (lmap r1) (lmap r2)) as [l|] eqn:El; [|discriminate].
    destruct (unify_map String.eqb (rmap r1) (rmap r2)) as [rm|]; [|discriminate].
    injection H as <-. unfold unify_map in El.
    assert (K1 : forall x v, lookup (lmap r1) x = Some v -> lookup l x = Some v).
    { intros x v E. rewrite (unify_map_go_other _ _ _ _ _ x El); [exact E|]. intros; congruence. }
    split; [|split].
    - unfold wf. cbn [eqs lmap]. split; [|split].
      + eapply unify_map_go_nodup; eauto.
      + intros x e Hin. apply eqs_union_in in Hin. destruct Hin as [Hin|Hin].
        * destruct (L1 x e Hin) as (e' & E & K). exists e'. split; [now apply K1|exact K].
        * destruct (L2 x e Hin) as (e2 & E2 & K2).
          destruct (unify_map_go_new _ _ _ _ _ x e2 El N2 (lookup_In _ _ _ E2)) as [(v1 & E1 & Q)|(E1 & Q)].
          -- exists v1. split; [now apply K1|]. apply expr_eqb_keq in Q. eapply keq_trans; eauto.
          -- exists e2. split; [exact Q|exact K2].
      + intros x e Hin. apply eqs_union_in in Hin. destruct Hin as [Hin|Hin]; eauto.
    - intros x e Hin. cbn [eqs]. now apply eqs_union_l.
    - intros x e Hin. cbn [eqs]. now apply eqs_union_r.
  Qed.

  Lemma unify_many_in us r2 r : In r (unify_many us r2) -> exists u, In u us /\ rec_unify u r2 = Some r.
  Proof.
    unfold unify_many. intros H. apply in_flat_map in H. destruct H as (u & Hu & H).
    exists u. split; [exact Hu|]. destruct (rec_unify u r2); [|contradiction].
    destruct H as [->|[]]. reflexivity.
  Qed.

  Lemma wf_single x o : mem x free = true -> wf (single x o).
  Proof.
    intros Hx. unfold single, urec_of_eqs, wf. cbn.
    split; [constructor; [intros []|constructor]|]. split.
    - intros y e [H|[]]. injection H as <- <-. exists o. rewrite String.eqb_refl. split; [reflexivity|apply keq_refl].
    - intros y e [H|[]]. injection H as <- <-. exact Hx.
  Qed.

  Lemma wf_empty : wf empty_rec.
  Proof. unfold empty_rec, urec_of_eqs, wf. cbn. split; [constructor|]. split; intros x e []. Qed.

  Lemma fold_set_other {A} (l : list (string * A)) : forall acc x,
    ~ In x (map fst l) -> lookup (fold_left (fun m p => dict_set m (fst p) (snd p)) l acc) x = lookup acc x.
  Proof.
    induction l as [|[k v] l IH]; intros acc x H; cbn [fold_left]; [reflexivity|].
    cbn [map fst In] in H. rewrite IH by tauto. cbn [fst snd]. rewrite lookup_dict_set.
    destruct (String.eqb k x) eqn:E; [|reflexivity]. apply String.eqb_eq in E. tauto.
  Qed.

  Lemma fold_set_nodup {A} (l : list (string * A)) : forall acc,
    NoDup (map fst acc) -> NoDup (map fst (fold_left (fun m p => dict_set m (fst p) (snd p)) l acc)).
  Proof. induction l as [|[k v] l IH]; intros acc H; cbn [fold_left]; [exact H|]. apply IH. now apply dict_set_nodup. Qed.

  Lemma fold_set_lookup {A} (l : list (string * A)) : forall acc x v,
    NoDup (map fst l) -> In (x, v) l ->
    lookup (fold_left (fun m p => dict_set m (fst p) (snd p)) l acc) x = Some v.
  Proof.
    induction l as [|[k w] l IH]; intros acc x v Hn Hin; [contradiction|].
    cbn [map fst] in Hn. inversion Hn as [|? ? Hnot Hn']; subst. cbn [fold_left fst snd].
    destruct Hin as [Hin|Hin].
    - injection Hin as -> ->. rewrite fold_set_other by exact Hnot.
      now rewrite lookup_dict_set, String.eqb_refl.
    - now apply IH.
  Qed.

  Lemma wf_of_eqs p :
    NoDup (map fst p) -> (forall x e, In (x, e) p -> mem x free = true) -> wf (urec_of_eqs p).
  Proof.
    intros Hn Hf. unfold urec_of_eqs, wf. cbn [eqs lmap]. split; [|split].
    - apply fold_set_nodup. constructor.
    - intros x e Hin. exists e. split; [now apply fold_set_lookup|apply keq_refl].
    - exact Hf.
  Qed.

  (* the substitution read off a well-formed record satisfies it *)
  Lemma lookup_some_of_in {A} (m : list (string * A)) x v : In (x, v) m -> exists v', lookup m x = Some v'.
  Proof.
    induction m as [|[k w] m IH]; [contradiction|]. intros [H|H]; cbn [lookup].
    - injection H as -> ->. rewrite String.eqb_refl. eauto.
    - destruct (String.eqb k x); eauto.
  Qed.

  Lemma sat_self r : wf r -> sat (lookup (eqs r)) r.
  Proof.
    intros (_ & L & _) x e Hin.
    destruct (lookup_some_of_in _ _ _ Hin) as (e' & E). exists e'. split; [exact E|].
    destruct (L x e Hin) as (v & Ev & Kv). destruct (L x e' (lookup_In _ _ _ E)) as (v' & Ev' & Kv').
    rewrite Ev in Ev'. injection Ev' as <-. eapply keq_trans; [apply keq_sym; exact Kv'|exact Kv].
  Qed.

  Lemma dom_self r : wf r -> dom_ok (lookup (eqs r)).
  Proof. intros (_ & _ & Fr) x e E. apply (Fr x e). now apply lookup_In. Qed.

  (* ---------------------------------------------------------------- result lists *)

  Definition out_ok (us : list urec) (Q : sub -> Prop) (rs : list urec) : Prop :=
    forall r, In r rs ->
      wf r /\ (exists u, In u us /\ incl_eqs u r) /\ (forall s, dom_ok s -> sat s r -> Q s).

  Lemma out_ok_wf us Q rs : out_ok us Q rs -> Forall wf rs.
  Proof. intros H. apply Forall_forall. intros r Hr. now destruct (H r Hr). Qed.

  Lemma out_ok_nil us Q : out_ok us Q [].
  Proof. intros r []. Qed.

  Lemma out_ok_app us Q a b : out_ok us Q a -> out_ok us Q b -> out_ok us Q (a ++ b).
  Proof. intros Ha Hb r Hr. apply in_app_or in Hr. destruct Hr; auto. Qed.

  Lemma out_ok_flat_map {A} us Q (g : A -> list urec) l :
    (forall v, In v l -> out_ok us Q (g v)) -> out_ok us Q (flat_map g l).
  Proof. intros H r Hr. apply in_flat_map in Hr. destruct Hr as (v & Hv & Hr). exact (H v Hv r Hr). Qed.

  Lemma out_ok_weaken us (Q Q' : sub -> Prop) rs :
    out_ok us Q rs -> (forall s, dom_ok s -> Q s -> Q' s) -> out_ok us Q' rs.
  Proof.
    intros H HQ r Hr. destruct (H r Hr) as (W & U & E). split; [exact W|]. split; [exact U|].
    intros s Hd Hs. apply HQ; auto.
  Qed.

  Lemma out_ok_self us (Q : sub -> Prop) :
    Forall wf us -> (forall s, dom_ok s -> Q s) -> out_ok us Q us.
  Proof.
    intros Hw HQ r Hr. rewrite Forall_forall in Hw. split; [auto|]. split.
    - exists r. split; [exact Hr|apply incl_eqs_refl].
    - intros s Hd _. now apply HQ.
  Qed.

  Lemma out_ok_compose us Q1 rs1 Q2 rs2 :
    out_ok us Q1 rs1 -> out_ok rs1 Q2 rs2 -> out_ok us (fun s => Q1 s /\ Q2 s) rs2.
  Proof.
    intros H1 H2 r Hr. destruct (H2 r Hr) as (W & (u1 & Hu1 & I1) & E2).
    destruct (H1 u1 Hu1) as (_ & (u & Hu & I) & E1).
    split; [exact W|]. split.
    - exists u. split; [exact Hu|]. eapply incl_eqs_trans; eauto.
    - intros s Hd Hs. split; [|now apply E2]. apply E1; [exact Hd|]. eapply sat_mono; eauto.
  Qed.

  Lemma out_ok_unify_many us r2 :
    Forall wf us -> wf r2 -> out_ok us (fun s => sat s r2) (unify_many us r2).
  Proof.
    intros Hw W2 r Hr. apply unify_many_in in Hr. destruct Hr as (u & Hu & E).
    rewrite Forall_forall in Hw. destruct (rec_unify_spec _ _ _ E (Hw u Hu) W2) as (W & I1 & I2).
    split; [exact W|]. split; [exists u; auto|].
    intros s _ Hs. eapply sat_mono; eauto.
  Qed.

  Lemma sat_single s x o : sat s (single x o) -> exists e', s x = Some e' /\ keq e' o.
  Proof. intros H. apply (H x o). now left. Qed.
End Records.

(* ------------------------------------------------------------------ combinations, partitions, index selection *)

Lemma combinations_incl {A} (s : list A) : forall n sub, In sub (combinations n s) -> incl sub s.
Proof.
  induction s as [|x s IH]; intros [|n] sub H; cbn [combinations] in H.
  - destruct H as [<-|[]]. intros y [].
  - contradiction.
  - destruct H as [<-|[]]. intros y [].
  - apply in_app_or in H. destruct H as [H|H].
    + apply in_map_iff in H. destruct H as (sub' & <- & H). apply IH in H.
      intros y [->|Hy]; [now left|right; now apply H].
    + apply IH in H. intros y Hy. right. now apply H.
Qed.

Lemma diffn_nil s : diffn s [] = s.
Proof.
  unfold diffn. induction s as [|x s IH]; cbn [filter]; [reflexivity|].
  replace (memn x []) with false by reflexivity. cbn [negb]. f_equal. exact IH.
Qed.

Lemma memn_cons y x l : memn y (x :: l) = Nat.eqb y x || memn y l.
Proof. reflexivity. Qed.

Lemma diffn_comb (s : list nat) : forall n sub,
  NoDup s -> In sub (combinations n s) -> Permutation (sub ++ diffn s sub) s.
Proof.
  induction s as [|x s IH]; intros [|n] sub Hn H; cbn [combinations] in H.
  - destruct H as [<-|[]]. constructor.
  - contradiction.
  - destruct H as [<-|[]]. rewrite diffn_nil. reflexivity.
  - inversion Hn as [|? ? Hx Hn']; subst. apply in_app_or in H. destruct H as [H|H].
    + apply in_map_iff in H. destruct H as (sub' & <- & H).
      assert (E : diffn (x :: s) (x :: sub') = diffn s sub').
      { unfold diffn. cbn [filter]. rewrite memn_cons, Nat.eqb_refl. cbn [orb negb].
        apply filter_ext_in. intros y Hy. rewrite memn_cons.
        destruct (Nat.eqb y x) eqn:E; [|reflexivity]. apply Nat.eqb_eq in E. subst. contradiction. }
      rewrite E. cbn [app]. constructor. now apply (IH n).
    + assert (Hnx : memn x sub = false).
      { destruct (memn x sub) eqn:E; [|reflexivity]. apply memn_In in E.
        apply combinations_incl in H. apply H in E. contradiction. }
      assert (E : diffn (x :: s) sub = x :: diffn s sub).
      { unfold diffn. cbn [filter]. now rewrite Hnx. }
      rewrite E. rewrite <- Permutation_middle. constructor. now apply (IH (S n)).
Qed.

Lemma subsets_in {A} (s : list A) m sub : In sub (subsets s m) -> exists n, In sub (combinations n s).
Proof. unfold subsets. intros H. apply in_flat_map in H. destruct H as (n & _ & H). eauto. Qed.

Lemma diffn_nodup s sub : NoDup s -> NoDup (diffn s sub).
Proof. apply NoDup_filter. Qed.

Lemma partitions_spec k : forall s p,
  NoDup s -> In p (partitions k s) -> length p = k /\ Permutation (concat p) s.
Proof.
  induction k as [|k IH]; intros s p Hn H; cbn [partitions] in H; [contradiction|].
  destruct k as [|k'].
  - destruct H as [<-|[]]. cbn. rewrite app_nil_r. split; reflexivity.
  - apply in_flat_map in H. destruct H as (sub & Hsub & H).
    apply in_map_iff in H. destruct H as (p' & <- & Hp').
    destruct (IH _ _ (diffn_nodup s sub Hn) Hp') as (L & P).
    split; [cbn; now rewrite L|].
    cbn [concat]. rewrite P. apply subsets_in in Hsub. destruct Hsub as (n & Hc).
    now apply (diffn_comb s n).
Qed.

Lemma select_app a b ocs : select (a ++ b) ocs = select a ocs ++ select b ocs.
Proof. unfold select. apply map_app. Qed.

Lemma select_concat p ocs : select (concat p) ocs = concat (map (fun pk => select pk ocs) p).
Proof. unfold select. apply concat_map. Qed.

Lemma select_seq ocs : select (seq 0 (length ocs)) ocs = ocs.
Proof.
  unfold select. induction ocs as [|o ocs IH]; [reflexivity|].
  cbn [length seq map nth]. f_equal. rewrite <- seq_shift, map_map. exact IH.
Qed.

Lemma removen_notin j l : ~ In j l -> removen j l = l.
Proof.
  unfold removen. induction l as [|y l IH]; intros H; cbn [filter]; [reflexivity|].
  destruct (Nat.eqb j y) eqn:E.
  - apply Nat.eqb_eq in E. subst. exfalso. apply H. now left.
  - cbn [negb]. rewrite IH; [reflexivity|]. intros Hin. apply H. now right.
Qed.

Lemma removen_perm j l : NoDup l -> In j l -> Permutation (j :: removen j l) l.
Proof.
  induction l as [|y l IH]; intros Hn Hin; [contradiction|].
  inversion Hn as [|? ? Hy Hn']; subst. unfold removen. cbn [filter].
  destruct (Nat.eqb j y) eqn:E.
  - apply Nat.eqb_eq in E. subst y. cbn [negb]. fold (removen j l). now rewrite removen_notin.
  - cbn [negb]. fold (removen j l). destruct Hin as [->|Hin]; [rewrite Nat.eqb_refl in E; discriminate|].
    rewrite perm_swap. constructor. now apply IH.
Qed.

Lemma removen_nodup j l : NoDup l -> NoDup (removen j l).
Proof. apply NoDup_filter. Qed.

(* ------------------------------------------------------------------ map_commut_assoc *)

Section CA.
  Variable free : list string.
  Variable op : acop.
  Variable ocs : list expr.
  Variable us : list urec.
  Variable plain : list string.
  Variable nvne : bool.
  Hypothesis us_wf : Forall (wf free) us.
  Hypothesis plain_free : Forall (fun x => mem x free = true) plain.
  Hypothesis nonempty : plain <> [] \/ nvne = true.

  Notation mk := (mk_ac op).

  Definition plainfact (s : sub) (p : list nat) (x : string) : Prop :=
    exists e', s x = Some e' /\ keq e' (mk (select p ocs)).

  Definition nvfact (s : sub) (c : expr) (j : nat) : Prop := subst s c ~~ nth j ocs (EInt 0).

  Definition rowok (c : expr) (row : list (nat * list urec)) : Prop :=
    forall j prs, In (j, prs) row -> out_ok free us (fun s => nvfact s c j) prs.

  Lemma try_partition_spec : forall parts vars acc r,
    try_partition mk ocs acc parts vars = Some r ->
    length parts = length vars -> wf free acc -> Forall (fun x => mem x free = true) vars ->
    wf free r /\ incl_eqs acc r /\ forall s, sat s r -> Forall2 (plainfact s) parts vars.
  Proof.
    induction parts as [|p parts IH]; intros [|x vars] acc r H L W Fv; cbn [try_partition] in H;
      try discriminate L.
    - injection H as <-. split; [exact W|]. split; [apply incl_eqs_refl|]. intros; constructor.
    - destruct (rec_unify acc (single x (mk (select p ocs)))) as [r1|] eqn:E; [|discriminate].
      inversion Fv as [|? ? Hx Fv']; subst.
      destruct (rec_unify_spec free _ _ _ E W (wf_single free x _ Hx)) as (W1 & I1 & I2).
      injection L as L.
      destruct (IH vars r1 r H L W1 Fv') as (Wr & Ir & Fr).
      split; [exact Wr|]. split; [eapply incl_eqs_trans; eauto|].
      intros s Hs. constructor; [|now apply Fr].
      apply sat_single. eapply sat_mono; [|exact Hs]. eapply incl_eqs_trans; eauto.
  Qed.

  Definition plain_post (acc : urec) (left : list nat) (r : urec) : Prop :=
    wf free r /\ incl_eqs acc r /\ (nvne = false -> exists u, In u us /\ incl_eqs u r) /\
    exists p, Permutation (concat p) left /\ forall s, sat s r -> Forall2 (plainfact s) p plain.

  Lemma plain_go_spec left : forall parts acc,
    wf free acc ->
    (forall p, In p parts -> length p = length plain /\ Permutation (concat p) left) ->
    forall r, In r (plain_go mk ocs us plain nvne acc parts) -> plain_post acc left r.
  Proof.
    induction parts as [|p ps IH]; intros acc W Hp r Hr; cbn [plain_go] in Hr; [contradiction|].
    assert (Hps : forall q, In q ps -> length q = length plain /\ Permutation (concat q) left)
      by (intros q Hq; apply Hp; now right).
    destruct (try_partition mk ocs acc p plain) as [r0|] eqn:E; [|now apply (IH acc W Hps)].
    destruct (Hp p (or_introl eq_refl)) as (Lp & Pp).
    destruct (try_partition_spec _ _ _ _ E Lp W plain_free) as (W0 & I0 & F0).
    assert (Hb : nvne = true \/ nvne = false) by (destruct nvne; auto).
    destruct Hb as [Env|Env]; rewrite Env in Hr at 1.
    - destruct Hr as [<-|[]]. split; [exact W0|]. split; [exact I0|]. split; [intros Hf; congruence|].
      exists p. split; [exact Pp|exact F0].
    - apply in_app_or in Hr. destruct Hr as [Hr|Hr]; [|now apply (IH acc W Hps)].
      apply unify_many_in in Hr. destruct Hr as (u & Hu & Eu).
      rewrite Forall_forall in us_wf.
      destruct (rec_unify_spec free _ _ _ Eu (us_wf u Hu) W0) as (Wr & Iu & Ir).
      split; [exact Wr|]. split; [eapply incl_eqs_trans; eauto|]. split; [intros _; exists u; auto|].
      exists p. split; [exact Pp|]. intros s Hs. apply F0. eapply sat_mono; eauto.
  Qed.

  Lemma match_plain_spec acc left :
    wf free acc -> NoDup left ->
    forall r, In r (match_plain mk ocs us plain nvne acc left) -> plain_post acc left r.
  Proof.
    intros W Hn r Hr. unfold match_plain in Hr.
    destruct (is_nil plain && is_nil left) eqn:E.
    - apply andb_true_iff in E. destruct E as [E1 E2].
      assert (Pl : plain = []) by (revert E1; destruct plain; [reflexivity|discriminate]).
      assert (Ll : left = []) by (destruct left; [reflexivity|discriminate]).
      subst left. destruct Hr as [<-|[]]. unfold plain_post.
      split; [exact W|]. split; [apply incl_eqs_refl|]. split.
      + intros Hf. destruct nonempty as [H|H]; [contradiction|congruence].
      + exists []. split; [constructor|]. intros s _. rewrite Pl. constructor.
    - eapply plain_go_spec; eauto. intros p Hp. now apply partitions_spec.
  Qed.

  Lemma match_children_spec : forall nvs cands,
    Forall2 rowok nvs cands ->
    forall acc left, wf free acc -> NoDup left ->
    forall r, In r (match_children mk ocs us plain nvne cands acc left) ->
      wf free r /\ incl_eqs acc r /\
      ((cands <> [] \/ nvne = false) -> exists u, In u us /\ incl_eqs u r) /\
      exists js p, Permutation (js ++ concat p) left /\
        forall s, dom_ok free s -> sat s r -> Forall2 (nvfact s) nvs js /\ Forall2 (plainfact s) p plain.
  Proof.
    induction 1 as [|c row nvs cands Hrow _ IH]; intros acc left W Hn r Hr; cbn [match_children] in Hr.
    - destruct (match_plain_spec acc left W Hn r Hr) as (Wr & Ir & Ur & p & Pp & Fp).
      split; [exact Wr|]. split; [exact Ir|]. split.
      + intros [H|H]; [now contradiction H|auto].
      + exists [], p. split; [exact Pp|]. intros s _ Hs. split; [constructor|now apply Fp].
    - apply in_flat_map in Hr. destruct Hr as ([j prs] & Hjc & Hr). cbn [fst snd] in Hr.
      destruct (memn j left) eqn:Ej; [|contradiction]. apply memn_In in Ej.
      apply in_flat_map in Hr. destruct Hr as (cu & Hcu & Hr).
      apply unify_many_in in Hcu. destruct Hcu as (pr & Hpr & Ecu).
      destruct (Hrow j prs Hjc pr Hpr) as (Wpr & (u & Hu & Iu) & Fpr).
      destruct (rec_unify_spec free _ _ _ Ecu Wpr W) as (Wcu & Ipr & Iacc).
      destruct (IH cu (removen j left) Wcu (removen_nodup j left Hn) r Hr)
        as (Wr & Icu & _ & js & p & Pp & Fp).
      split; [exact Wr|]. split; [eapply incl_eqs_trans; eauto|]. split.
      + intros _. exists u. split; [exact Hu|]. eapply incl_eqs_trans; [exact Iu|].
        eapply incl_eqs_trans; eauto.
      + exists (j :: js), p. split.
        * cbn [app]. rewrite <- (removen_perm j left Hn Ej). now constructor.
        * intros s Hd Hs. destruct (Fp s Hd Hs) as (F1 & F2). split; [|exact F2].
          constructor; [|exact F1]. apply Fpr; [exact Hd|].
          eapply sat_mono; [|exact Hs]. eapply incl_eqs_trans; eauto.
  Qed.

  Lemma commut_assoc_spec nvs cands :
    Forall2 rowok nvs cands -> nvne = negb (is_nil cands) ->
    out_ok free us
           (fun s => EAC op (map (subst s) nvs ++ map (subst s) (map EVar plain)) ~~ EAC op ocs)
           (commut_assoc mk ocs us plain nvne cands).
  Proof.
    intros Hrows Hne r Hr. unfold commut_assoc in Hr.
    destruct (match_children_spec nvs cands Hrows empty_rec (seq 0 (length ocs)) (wf_empty free)
                                  (seq_NoDup _ _) r Hr) as (Wr & _ & Ur & js & p & Pp & Fp).
    split; [exact Wr|]. split.
    - apply Ur. destruct cands; [right; exact Hne|left; discriminate].
    - intros s Hd Hs. destruct (Fp s Hd Hs) as (F1 & F2).
      assert (A1 : Forall2 AC1_equiv (map (subst s) nvs) (select js ocs)).
      { clear -F1. induction F1; cbn; constructor; auto. }
      assert (A2 : Forall2 AC1_equiv (map (subst s) (map EVar plain))
                           (map (EAC op) (map (fun pk => select pk ocs) p))).
      { clear -F2. induction F2 as [|pk x p' plain' (e' & E & K) _ IHF]; cbn [map]; constructor; [|exact IHF].
        cbn [subst]. rewrite E. eapply AC_trans; [apply keq_AC; exact K|apply mk_ac_equiv]. }
      eapply AC_trans; [apply AC_cong_all, Forall2_app; [exact A1|exact A2]|].
      eapply AC_trans; [apply AC_app; [apply AC_refl|apply AC_concat]|].
      rewrite <- select_concat, <- select_app.
      eapply AC_trans; [apply AC_perm; unfold select; apply Permutation_map; exact Pp|].
      change (EAC op (select (seq 0 (length ocs)) ocs) ~~ EAC op ocs).
      rewrite select_seq. apply AC_refl.
  Qed.
End CA.

(* ------------------------------------------------------------------ the unifier *)

Lemma list_eqb_string_eq l : forall m, list_eqb String.eqb l m = true -> l = m.
Proof.
  induction l as [|x l IH]; intros [|y m] H; cbn [list_eqb] in H; try discriminate; [reflexivity|].
  apply andb_true_iff in H. destruct H as [H1 H2]. apply String.eqb_eq in H1. subst. f_equal. now apply IH.
Qed.

Lemma Forall2_app_split {A B} (R : A -> B -> Prop) : forall a a' b b',
  length a = length a' -> Forall2 R (a ++ b) (a' ++ b') -> Forall2 R a a' /\ Forall2 R b b'.
Proof.
  induction a as [|x a IH]; intros [|y a'] b b' L H; try discriminate L.
  - split; [constructor|exact H].
  - cbn [app] in H. inversion H; subst. injection L as L. destruct (IH _ _ _ L H5). split; [constructor|]; auto.
Qed.

Lemma Forall2_len {A B} (R : A -> B -> Prop) l l' : Forall2 R l l' -> length l = length l'.
Proof. induction 1; cbn; congruence. Qed.

Definition kf_rel {A B} (R : A -> B -> Prop) (p : string * A) (q : string * B) : Prop :=
  fst p = fst q /\ R (snd p) (snd q).

Lemma kw_insert_Forall2 {A B} (R : A -> B -> Prop) p q l l' :
  kf_rel R p q -> Forall2 (kf_rel R) l l' -> Forall2 (kf_rel R) (kw_insert p l) (kw_insert q l').
Proof.
  intros Hpq H. induction H as [|p' q' l l' Hpq' Htl IH]; cbn [kw_insert]; [constructor; [exact Hpq|constructor]|].
  destruct Hpq as [K1 R1]. destruct Hpq' as [K2 R2]. rewrite <- K1, <- K2.
  destruct (String.leb (fst p) (fst p')).
  - constructor; [split; auto|]. constructor; [split; auto|]. assumption.
  - constructor; [split; auto|exact IH].
Qed.

Lemma sort_kw_Forall2 {A B} (R : A -> B -> Prop) l l' :
  Forall2 (kf_rel R) l l' -> Forall2 (kf_rel R) (sort_kw l) (sort_kw l').
Proof. induction 1; cbn [sort_kw]; [constructor|]. now apply kw_insert_Forall2. Qed.

Lemma kf_rel_fst {A B} (R : A -> B -> Prop) l l' : Forall2 (kf_rel R) l l' -> map fst l = map fst l'.
Proof. induction 1 as [|p q l l' [K _] _ IH]; cbn; [reflexivity|]. now rewrite K, IH. Qed.

Lemma kf_rel_snd {A B} (R : A -> B -> Prop) l l' : Forall2 (kf_rel R) l l' -> Forall2 R (map snd l) (map snd l').
Proof. induction 1 as [|p q l l' [_ Hr] _ IH]; cbn; constructor; auto. Qed.

Lemma kw_rel_build (g : expr -> expr) : forall l l',
  map fst l = map fst l' -> Forall2 (fun c o => g c ~~ o) (map snd l) (map snd l') ->
  Forall2 kw_rel (kwmap g l) l'.
Proof.
  induction l as [|[k v] l IH]; intros [|[k' v'] l'] Hk Hv; cbn in Hk, Hv; try discriminate; [constructor|].
  injection Hk as -> Hk. inversion Hv; subst. cbn [kwmap map]. constructor; [split; auto|].
  now apply IH.
Qed.

Lemma subst_call s f args kw :
  subst s (ECall f args kw) = ECall (subst s f) (map (subst s) args) (kwmap (subst s) kw).
Proof. reflexivity. Qed.

Section Unif.
  Variable free : list string.
  Variable swap : string -> string -> bool.
  Variable idel : acop -> Z.
  Hypothesis idel_ok : forall op, idel op = pym_ident op.

  Notation wf := (wf free).
  Notation out_ok := (out_ok free).
  Notation dom_ok := (dom_ok free).

  Definition fspec (c : expr) (f : ufun) : Prop :=
    forall o us, Forall wf us -> out_ok us (fun s => subst s c ~~ o) (f o us).

  (* equal up to the order of keyword arguments (Python's ==) *)
  Definition fspec_k (c : expr) (f : ufun) : Prop :=
    forall o us, Forall wf us -> out_ok us (fun s => keq (subst s c) o) (f o us).

  Lemma fspec_of_k c f : fspec_k c f -> fspec c f.
  Proof. intros H o us Hw. eapply out_ok_weaken; [apply H; exact Hw|]. intros s _ K. now apply keq_AC. Qed.

  Lemma map_variable_spec x : fspec_k (EVar x) (map_variable free x).
  Proof.
    intros o us Hw. unfold map_variable. destruct (mem x free) eqn:Ex.
    - eapply out_ok_weaken; [apply out_ok_unify_many; [exact Hw|now apply wf_single]|].
      intros s _ Hs. apply sat_single in Hs. destruct Hs as (e' & E & K). cbn [subst]. now rewrite E.
    - destruct o as [y| | | | |]; try apply out_ok_nil.
      destruct (String.eqb x y) eqn:Exy; [|apply out_ok_nil]. apply String.eqb_eq in Exy. subst y.
      apply out_ok_self; [exact Hw|]. intros s Hd. cbn [subst].
      destruct (s x) as [e|] eqn:E; [|apply keq_refl]. apply Hd in E. congruence.
  Qed.

  Lemma map_constant_spec z : fspec (EInt z) (map_constant z).
  Proof.
    intros o us Hw. unfold map_constant. destruct o as [|z'| | | |]; try apply out_ok_nil.
    destruct (Z.eqb z z') eqn:E; [|apply out_ok_nil]. apply Z.eqb_eq in E. subst z'.
    apply out_ok_self; [exact Hw|]. intros s _. apply AC_refl.
  Qed.

  Lemma bin_quot_spec a b fa fb : fspec a fa -> fspec b fb -> fspec (EQuot a b) (bin_node true fa fb).
  Proof.
    intros Ha Hb o us Hw. unfold bin_node. destruct o as [| | |a' b'| |]; try apply out_ok_nil.
    pose proof (Hb b' us Hw) as H1. pose proof (Ha a' _ (out_ok_wf _ _ _ _ H1)) as H2.
    eapply out_ok_weaken; [exact (out_ok_compose _ _ _ _ _ _ H1 H2)|].
    intros s _ [Q1 Q2]. cbn [subst]. eapply AC_trans; [apply AC_quot_l; exact Q2|apply AC_quot_r; exact Q1].
  Qed.

  Lemma bin_pow_spec a b fa fb : fspec a fa -> fspec b fb -> fspec (EPow a b) (bin_node false fa fb).
  Proof.
    intros Ha Hb o us Hw. unfold bin_node. destruct o as [| | | |a' b'|]; try apply out_ok_nil.
    pose proof (Hb b' us Hw) as H1. pose proof (Ha a' _ (out_ok_wf _ _ _ _ H1)) as H2.
    eapply out_ok_weaken; [exact (out_ok_compose _ _ _ _ _ _ H1 H2)|].
    intros s _ [Q1 Q2]. cbn [subst]. eapply AC_trans; [apply AC_pow_l; exact Q2|apply AC_pow_r; exact Q1].
  Qed.

  Lemma thread_spec : forall cs fs, Forall2 fspec cs fs ->
    forall os us, length os = length cs -> Forall wf us ->
    out_ok us (fun s => Forall2 (fun c o => subst s c ~~ o) cs os) (thread fs os us).
  Proof.
    induction 1 as [|c f cs fs Hc _ IH]; intros [|o os] us L Hw; try discriminate L; cbn [thread].
    - apply out_ok_self; [exact Hw|]. intros; constructor.
    - injection L as L. pose proof (Hc o us Hw) as H1.
      pose proof (IH os _ L (out_ok_wf _ _ _ _ H1)) as H2.
      eapply out_ok_weaken; [exact (out_ok_compose _ _ _ _ _ _ H1 H2)|].
      intros s _ [Q1 Q2]. now constructor.
  Qed.

  Lemma call_node_spec x args kw fargs fkw :
    Forall2 fspec args fargs -> Forall2 (kf_rel fspec) kw fkw ->
    fspec (ECall (EVar x) args kw) (call_node (map_variable free x) fargs fkw).
  Proof.
    intros HA HK o us Hw. unfold call_node. destruct o as [| | | | |f' args' kw']; try apply out_ok_nil.
    destruct (negb (Nat.eqb (length fargs) (length args'))) eqn:EL; [apply out_ok_nil|].
    destruct (negb (list_eqb String.eqb (map fst (sort_kw fkw)) (map fst (sort_kw kw')))) eqn:EK;
      [apply out_ok_nil|].
    apply negb_false_iff in EL, EK. apply Nat.eqb_eq in EL. apply list_eqb_string_eq in EK.
    pose proof (sort_kw_Forall2 _ _ _ HK) as HKs.
    pose proof (kf_rel_fst _ _ _ HKs) as Kfst. pose proof (kf_rel_snd _ _ _ HKs) as Ksnd.
    assert (La : length args' = length args) by (rewrite <- EL; symmetry; eapply Forall2_len; eauto).
    assert (Lk : length (map snd (sort_kw kw')) = length (map snd (sort_kw kw))).
    { rewrite !map_length. rewrite <- (map_length fst (sort_kw kw')), <- EK, <- Kfst. now rewrite map_length. }
    pose proof (thread_spec _ _ (Forall2_app HA Ksnd) (args' ++ map snd (sort_kw kw')) us
                            ltac:(rewrite !app_length; congruence) Hw) as H1.
    pose proof (map_variable_spec x f' _ (out_ok_wf _ _ _ _ H1)) as H2.
    eapply out_ok_weaken; [exact (out_ok_compose _ _ _ _ _ _ H1 H2)|].
    intros s _ [Q1 Q2]. rewrite subst_call.
    apply Forall2_app_split in Q1; [|congruence]. destruct Q1 as [Qa Qk].
    eapply AC_trans; [apply AC_call_fn; exact Q2|].
    eapply AC_trans.
    { apply (AC_call_args_list f' (kwmap (subst s) kw) (map (subst s) args) args') with (pre := []).
      clear -Qa. revert args' Qa. induction args as [|c cs IH]; intros [|o os] H; inversion H; subst; cbn;
        constructor; auto. }
    cbn [app].
    eapply AC_trans; [apply (AC_call_kwsort f' args' _ (sort_kw (kwmap (subst s) kw))); symmetry; apply sort_kw_idem|].
    rewrite sort_kw_map.
    eapply AC_trans.
    { apply (AC_call_kw_list f' args' (kwmap (subst s) (sort_kw kw)) (sort_kw kw')) with (pre := []).
      apply kw_rel_build; [congruence|exact Qk]. }
    cbn [app]. apply AC_call_kwsort. apply sort_kw_idem.
  Qed.

  (* ---- sums and products *)

  Definition plains (cs : list expr) : list string :=
    flat_map (fun c => match plain_name free c with Some x => [x] | None => [] end) cs.
  Definition nonvars (cs : list expr) : list expr :=
    flat_map (fun c => match plain_name free c with Some _ => [] | None => [c] end) cs.

  Lemma plain_name_some c x : plain_name free c = Some x -> c = EVar x /\ mem x free = true.
  Proof.
    destruct c as [y| | | | |]; cbn [plain_name]; try discriminate.
    destruct (mem y free) eqn:E; [|discriminate]. intros H. injection H as <-. auto.
  Qed.

  Lemma plain_of_map (g : expr -> ufun) cs : plain_of free (map (fun c => (c, g c)) cs) = plains cs.
  Proof. unfold plain_of, plains. induction cs as [|c cs IH]; cbn [map flat_map fst]; [reflexivity|]. now rewrite IH. Qed.

  Lemma nonvar_of_map (g : expr -> ufun) cs : nonvar_of free (map (fun c => (c, g c)) cs) = map g (nonvars cs).
  Proof.
    unfold nonvar_of, nonvars. induction cs as [|c cs IH]; cbn [map flat_map fst snd]; [reflexivity|].
    rewrite IH, map_app. destruct (plain_name free c); reflexivity.
  Qed.

  Lemma plains_free cs : Forall (fun x => mem x free = true) (plains cs).
  Proof.
    unfold plains. induction cs as [|c cs IH]; cbn [flat_map]; [constructor|].
    destruct (plain_name free c) as [x|] eqn:E; [|exact IH].
    apply plain_name_some in E. destruct E as [_ E]. now constructor.
  Qed.

  Lemma split_perm cs : Permutation cs (nonvars cs ++ map EVar (plains cs)).
  Proof.
    unfold nonvars, plains. induction cs as [|c cs IH]; cbn [flat_map]; [constructor|].
    destruct (plain_name free c) as [x|] eqn:E.
    - apply plain_name_some in E. destruct E as [-> _]. cbn [app map]. now apply Permutation_cons_app.
    - cbn [app]. now constructor.
  Qed.

  Lemma nonvars_incl cs c : In c (nonvars cs) -> In c cs.
  Proof.
    unfold nonvars. intros H. apply in_flat_map in H. destruct H as (c' & Hc' & H).
    destruct (plain_name free c'); [contradiction|]. destruct H as [<-|[]]. exact Hc'.
  Qed.

  Lemma split_nonempty cs : cs <> [] -> plains cs <> [] \/ nonvars cs <> [].
  Proof.
    destruct cs as [|c cs]; [congruence|]. intros _. unfold plains, nonvars. cbn [flat_map].
    destruct (plain_name free c); [left|right]; discriminate.
  Qed.

  Lemma cand_row_spec f us : forall ocs j0 j prs,
    In (j, prs) (cand_row f j0 ocs us) -> j0 <= j /\ prs = f (nth (j - j0) ocs (EInt 0)) us.
  Proof.
    induction ocs as [|oc ocs IH]; intros j0 j prs H; cbn [cand_row] in H; [contradiction|].
    assert (Hrec : In (j, prs) (cand_row f (S j0) ocs us) -> j0 <= j /\ prs = f (nth (j - j0) (oc :: ocs) (EInt 0)) us).
    { intros H'. apply IH in H'. destruct H' as [L E]. split; [lia|].
      replace (j - j0) with (S (j - S j0)) by lia. exact E. }
    destruct (f oc us) as [|r0 rs] eqn:E; [now apply Hrec|].
    destruct H as [H|H]; [|now apply Hrec].
    injection H as <- <-. split; [lia|]. rewrite Nat.sub_diag. cbn [nth]. now rewrite E.
  Qed.

  Lemma rows_ok ocs us (g : expr -> ufun) nvs :
    Forall wf us -> Forall (fun c => fspec c (g c)) nvs ->
    Forall2 (rowok free ocs us) nvs (map (fun f => cand_row f 0 ocs us) (map g nvs)).
  Proof.
    intros Hw H. induction H as [|c nvs Hc _ IH]; cbn [map]; constructor; [|exact IH].
    intros j prs Hin. apply cand_row_spec in Hin. destruct Hin as [_ ->]. rewrite Nat.sub_0_r.
    unfold nvfact. apply Hc. exact Hw.
  Qed.

  Lemma ac_mapper_spec op cs (g : expr -> ufun) :
    cs <> [] -> Forall (fun c => fspec c (g c)) cs ->
    forall o us, Forall wf us ->
      out_ok us (fun s => EAC op (map (subst s) cs) ~~ o) (ac_mapper free op (map (fun c => (c, g c)) cs) o us).
  Proof.
    intros Hne Hcs o us Hw. unfold ac_mapper. destruct o as [| |op' ocs| | |]; try apply out_ok_nil.
    destruct (acop_eqb op op') eqn:Eo; [|apply out_ok_nil]. apply acop_eqb_eq in Eo. subst op'.
    rewrite plain_of_map, nonvar_of_map.
    eapply out_ok_weaken.
    - apply (commut_assoc_spec free op ocs us (plains cs) _ Hw (plains_free cs)) with (nvs := nonvars cs).
      + destruct (split_nonempty cs Hne) as [H|H]; [now left|right].
        destruct (nonvars cs); [congruence|reflexivity].
      + apply rows_ok; [exact Hw|]. rewrite Forall_forall in *. intros c Hc. apply Hcs. now apply nonvars_incl.
      + now destruct (map g (nonvars cs)).
    - intros s _ Q. eapply AC_trans; [|exact Q]. rewrite <- map_app.
      apply AC_perm, Permutation_map, split_perm.
  Qed.

  Lemma dedup_names_incl l x : In x (dedup_names l) -> In x l.
  Proof.
    induction l as [|y l IH]; cbn [dedup_names]; [auto|].
    destruct (mem y l); [intros H; right; auto|]. intros [->|H]; [now left|right; auto].
  Qed.

  Lemma var_set_incl l x : In x (var_set swap l) -> In x l.
  Proof.
    unfold var_set. destruct l as [|a [|b [|c t]]]; try apply dedup_names_incl.
    destruct (String.eqb a b); [intros [->|[]]; now left|].
    destruct (swap a b); cbn; tauto.
  Qed.

  Lemma ac_node_spec op cs (g : expr -> ufun) :
    cs <> [] -> Forall (fun c => fspec c (g c)) cs ->
    fspec (EAC op cs) (ac_node free swap idel op (map (fun c => (c, g c)) cs)).
  Proof.
    intros Hne Hcs o us Hw. unfold ac_node. cbn [subst].
    destruct (negb (Nat.eqb (length (map (fun c => (c, g c)) cs)) 2) || is_ac o).
    - now apply ac_mapper_spec.
    - apply out_ok_flat_map. intros v Hv. apply var_set_incl in Hv. rewrite plain_of_map in Hv.
      assert (Hvf : mem v free = true).
      { pose proof (plains_free cs) as Hp. rewrite Forall_forall in Hp. now apply Hp. }
      pose proof (out_ok_unify_many free us (single v (EInt (idel op))) Hw (wf_single free v _ Hvf)) as H1.
      pose proof (ac_mapper_spec op cs g Hne Hcs (EAC op [EInt (idel op); o]) _ (out_ok_wf _ _ _ _ H1)) as H2.
      eapply out_ok_weaken; [exact (out_ok_compose _ _ _ _ _ _ H1 H2)|].
      intros s _ [_ Q]. eapply AC_trans; [exact Q|]. rewrite idel_ok.
      eapply AC_trans; [apply AC_ident|apply AC_single].
  Qed.

  (* ---- the whole template *)

  Theorem unify_sound t :
    call_fn_is_symbol t = true -> no_empty_ac t = true -> fspec t (unify free swap idel t).
  Proof.
    induction t as [x|z|op cs IH|a b IHa IHb|a b IHa IHb|f args kw IHf IHa IHk] using expr_ind';
      intros Hs Hn; cbn [unify].
    - apply fspec_of_k, map_variable_spec.
    - apply map_constant_spec.
    - cbn [call_fn_is_symbol no_empty_ac] in Hs, Hn. apply andb_true_iff in Hn. destruct Hn as [Hn1 Hn2].
      apply ac_node_spec.
      + destruct cs; [discriminate|congruence].
      + rewrite forallb_forall in Hs, Hn2. rewrite Forall_forall in *. intros c Hc. apply IH; auto.
    - cbn [call_fn_is_symbol no_empty_ac] in Hs, Hn. apply andb_true_iff in Hs, Hn.
      apply bin_quot_spec; [apply IHa|apply IHb]; tauto.
    - cbn [call_fn_is_symbol no_empty_ac] in Hs, Hn. apply andb_true_iff in Hs, Hn.
      apply bin_pow_spec; [apply IHa|apply IHb]; tauto.
    - cbn [call_fn_is_symbol no_empty_ac] in Hs, Hn.
      apply andb_true_iff in Hs. destruct Hs as [Hs Hsk]. apply andb_true_iff in Hs. destruct Hs as [Hsf Hsa].
      apply andb_true_iff in Hn. destruct Hn as [Hn Hnk]. apply andb_true_iff in Hn. destruct Hn as [Hnf Hna].
      destruct f as [x| | | | |]; try discriminate. cbn [unify].
      apply call_node_spec.
      + rewrite forallb_forall in Hsa, Hna. clear -IHa Hsa Hna.
        induction IHa as [|c cs Hc _ IHl]; cbn [map]; constructor.
        * apply Hc; [apply Hsa|apply Hna]; now left.
        * apply IHl; intros y Hy; [apply Hsa|apply Hna]; now right.
      + rewrite forallb_forall in Hsk, Hnk. clear -IHk Hsk Hnk.
        induction IHk as [|[k v] kw Hv _ IHl]; cbn [map]; constructor.
        * split; [reflexivity|]. cbn [snd] in *. apply Hv; [apply (Hsk (k, v))|apply (Hnk (k, v))]; now left.
        * apply IHl; intros y Hy; [apply Hsk|apply Hnk]; now right.
  Qed.
End Unif.

(* ------------------------------------------------------------------ flatten keeps the template well-formed *)

Lemma forallb_flat_map {A B} (f : A -> list B) (p : B -> bool) l :
  forallb p (flat_map f l) = forallb (fun x => forallb p (f x)) l.
Proof. induction l as [|x l IH]; cbn [flat_map forallb]; [reflexivity|]. now rewrite forallb_app, IH. Qed.

Section MkP.
  Variable Pb : expr -> bool.
  Hypothesis HPint : forall z, Pb (EInt z) = true.
  Hypothesis HPdown : forall op l, Pb (EAC op l) = true -> forallb Pb l = true.
  Hypothesis HPup : forall op a b l, forallb Pb (a :: b :: l) = true -> Pb (EAC op (a :: b :: l)) = true.

  Lemma ac_terms_P op e : Pb e = true -> forallb Pb (ac_terms op e) = true.
  Proof.
    induction e as [x|z|op' cs IH|a b IHa IHb|a b IHa IHb|f args kw IHf IHa IHk] using expr_ind';
      intros H; cbn [ac_terms]; try (cbn [forallb]; now rewrite H).
    - destruct (Z.eqb z (pym_ident op)); cbn [forallb]; [reflexivity|now rewrite H].
    - destruct (acop_eqb op op'); [|cbn [forallb]; now rewrite H].
      apply HPdown in H. rewrite forallb_flat_map. rewrite forallb_forall in *. rewrite Forall_forall in IH.
      intros c Hc. apply IH; auto.
  Qed.

  Lemma mk_ac_P op l : forallb Pb l = true -> Pb (mk_ac op l) = true.
  Proof.
    intros H. unfold mk_ac.
    destruct (match op with OProd => existsb prod_has_zero l | OSum => false end); [apply HPint|].
    assert (HT : forallb Pb (flat_map (ac_terms op) l) = true).
    { rewrite forallb_flat_map. rewrite forallb_forall in *. intros c Hc. apply ac_terms_P. auto. }
    destruct (flat_map (ac_terms op) l) as [|a [|b r]].
    - apply HPint.
    - cbn [forallb] in HT. now apply andb_true_iff in HT.
    - now apply HPup.
  Qed.
End MkP.

Lemma forallb_map {A B} (f : A -> B) (p : B -> bool) l : forallb p (map f l) = forallb (fun x => p (f x)) l.
Proof. induction l as [|x l IH]; cbn; [reflexivity|]. now rewrite IH. Qed.

Lemma no_empty_flatten e : no_empty_ac (flatten e) = true.
Proof.
  induction e as [x|z|op cs IH|a b IHa IHb|a b IHa IHb|f args kw IHf IHa IHk] using expr_ind';
    cbn [flatten]; try reflexivity.
  - apply mk_ac_P.
    + reflexivity.
    + intros o l H. cbn [no_empty_ac] in H. now apply andb_true_iff in H.
    + intros o a b l H. cbn [no_empty_ac is_nil negb]. exact H.
    + rewrite forallb_map. apply forallb_forall. rewrite Forall_forall in IH. exact IH.
  - destruct (is_int 0 (flatten a)); [reflexivity|]. destruct (is_int 1 (flatten b)); [exact IHa|].
    cbn [no_empty_ac]. now rewrite IHa, IHb.
  - destruct (is_int 1 (flatten b)); [exact IHa|]. cbn [no_empty_ac]. now rewrite IHa, IHb.
  - cbn [no_empty_ac]. rewrite IHf, !forallb_map. cbn [andb].
    apply andb_true_iff. split; apply forallb_forall.
    + rewrite Forall_forall in IHa. exact IHa.
    + rewrite Forall_forall in IHk. intros [k v] Hkv. exact (IHk _ Hkv).
Qed.

Lemma fn_symbol_flatten e : call_fn_is_symbol e = true -> call_fn_is_symbol (flatten e) = true.
Proof.
  induction e as [x|z|op cs IH|a b IHa IHb|a b IHa IHb|f args kw IHf IHa IHk] using expr_ind';
    cbn [flatten]; intros H; try reflexivity.
  - apply mk_ac_P.
    + reflexivity.
    + intros o l H'. exact H'.
    + intros o a b l H'. exact H'.
    + cbn [call_fn_is_symbol] in H. rewrite forallb_map. rewrite forallb_forall in *. rewrite Forall_forall in IH.
      intros c Hc. apply IH; auto.
  - cbn [call_fn_is_symbol] in H. apply andb_true_iff in H. destruct H as [Ha Hb].
    destruct (is_int 0 (flatten a)); [reflexivity|]. destruct (is_int 1 (flatten b)); [now apply IHa|].
    cbn [call_fn_is_symbol]. now rewrite IHa, IHb.
  - cbn [call_fn_is_symbol] in H. apply andb_true_iff in H. destruct H as [Ha Hb].
    destruct (is_int 1 (flatten b)); [now apply IHa|]. cbn [call_fn_is_symbol]. now rewrite IHa, IHb.
  - cbn [call_fn_is_symbol] in H.
    apply andb_true_iff in H. destruct H as [H Hk]. apply andb_true_iff in H. destruct H as [Hf Ha].
    destruct f as [x| | | | |]; try discriminate. cbn [flatten call_fn_is_symbol]. rewrite !forallb_map. cbn [andb].
    apply andb_true_iff. rewrite forallb_forall in Ha, Hk. split; apply forallb_forall.
    + rewrite Forall_forall in IHa. intros c Hc. apply IHa; auto.
    + rewrite Forall_forall in IHk. intros [k v] Hkv. apply (IHk _ Hkv). exact (Hk _ Hkv).
Qed.

(* ------------------------------------------------------------------ match() *)

Lemma pre_check_none free pre :
  pre_check free pre = None -> forall x e, In (x, e) pre -> mem x free = true.
Proof.
  induction pre as [|[y v] pre IH]; cbn [pre_check]; intros H x e Hin; [contradiction|].
  destruct (mem y free) eqn:E; [|discriminate].
  destruct Hin as [Hin|Hin]; [injection Hin as <- <-; exact E|eauto].
Qed.

Lemma pre_check_some free pre x :
  pre_check free pre = Some x -> In x (map fst pre) /\ mem x free = false.
Proof.
  induction pre as [|[y v] pre IH]; cbn [pre_check]; intros H; [discriminate|].
  destruct (mem y free) eqn:E.
  - destruct (IH H). split; [now right|assumption].
  - injection H as <-. split; [now left|exact E].
Qed.

Definition pre_list (pre : option (list (string * expr))) : list (string * expr) :=
  match pre with Some p => p | None => [] end.

Theorem match_sound swap idel free_opt bound pre tpl tgt sigma amb :
  (forall op, idel op = pym_ident op) ->
  call_fn_is_symbol tpl = true ->
  NoDup (map fst (pre_list pre)) ->
  match_model swap idel free_opt bound pre tpl tgt = MOk sigma amb ->
  (forall x e, In (x, e) sigma -> In x (free_names free_opt bound tpl)) /\
  (forall x e, In (x, e) (pre_list pre) -> exists e', lookup sigma x = Some e' /\ canon e' = canon e) /\
  subst (sigma_of sigma) (flatten tpl) ~~ flatten tgt.
Proof.
  intros Hid Hsym Hnd H. unfold match_model in H.
  set (free := free_names free_opt bound tpl) in *.
  fold (pre_list pre) in H.
  destruct (pre_check free (pre_list pre)) as [x|] eqn:Epc; [discriminate|].
  destruct (match_records swap idel free pre tpl tgt) as [|r rest] eqn:ER; [discriminate|].
  injection H as <- _.
  assert (Hw : Forall (wf free) (initial_urecs pre)).
  { destruct pre as [p|]; cbn [initial_urecs]; (constructor; [|constructor]).
    - apply wf_of_eqs; [exact Hnd|]. exact (pre_check_none _ _ Epc).
    - apply wf_empty. }
  pose proof (unify_sound free swap idel Hid (flatten tpl) (fn_symbol_flatten _ Hsym) (no_empty_flatten _)
                          (flatten tgt) _ Hw) as Hok.
  unfold match_records in ER. rewrite ER in Hok.
  destruct (Hok r (or_introl eq_refl)) as (Wr & (u & Hu & Iu) & Ent).
  split; [|split].
  - intros x e Hin. destruct Wr as (_ & _ & Fr). apply mem_In. eauto.
  - intros x e Hin. destruct pre as [p|]; [|contradiction]. cbn [pre_list] in Hin.
    cbn [initial_urecs] in Hu. destruct Hu as [<-|[]].
    destruct (Iu x e Hin) as (e1 & Hin1 & K1).
    destruct (sat_self free r Wr x e1 Hin1) as (e' & E & K). exists e'. split; [exact E|].
    eapply keq_trans; eauto.
  - apply Ent; [exact (dom_self free r Wr)|exact (sat_self free r Wr)].
Qed.

(* the match is semantically genuine *)
Theorem match_genuine swap idel free_opt bound pre tpl tgt sigma amb :
  (forall op, idel op = pym_ident op) ->
  call_fn_is_symbol tpl = true ->
  NoDup (map fst (pre_list pre)) ->
  match_model swap idel free_opt bound pre tpl tgt = MOk sigma amb ->
  forall rho F Q P,
    eval rho F Q P (subst (sigma_of sigma) (flatten tpl)) = eval rho F Q P (flatten tgt).
Proof.
  intros Hid Hsym Hnd H rho F Q P. apply AC1_sem.
  now destruct (match_sound _ _ _ _ _ _ _ _ _ Hid Hsym Hnd H) as (_ & _ & E).
Qed.

(* failure is one of the two documented ValueErrors, for the documented reason *)
Theorem match_error swap idel free_opt bound pre tpl tgt k :
  match_model swap idel free_opt bound pre tpl tgt = MErr k ->
  let free := free_names free_opt bound tpl in
  (k = ValueError_cannot_unify /\ pre_check free (pre_list pre) = None /\
   match_records swap idel free pre tpl tgt = [])
  \/ (exists x, k = ValueError_pre_match_not_candidate x /\
                In x (map fst (pre_list pre)) /\ mem x free = false).
Proof.
  intros H free. unfold match_model in H. fold free in H. fold (pre_list pre) in H.
  destruct (pre_check free (pre_list pre)) as [x|] eqn:Epc.
  - injection H as <-. right. exists x. split; [reflexivity|]. now apply pre_check_some.
  - destruct (match_records swap idel free pre tpl tgt) as [|r rest] eqn:ER; [|discriminate].
    injection H as <-. left. auto.
Qed.

(* both directions in one statement *)
Theorem match_full idel :
  (forall op, idel op = pym_ident op) ->
  forall swap free_opt bound pre tpl tgt,
    call_fn_is_symbol tpl = true ->
    NoDup (map fst (pre_list pre)) ->
    match match_model swap idel free_opt bound pre tpl tgt with
    | MOk sigma _ =>
        (forall x e, In (x, e) sigma -> In x (free_names free_opt bound tpl)) /\
        (forall x e, In (x, e) (pre_list pre) -> exists e', lookup sigma x = Some e' /\ canon e' = canon e) /\
        (forall rho F Q P, eval rho F Q P (subst (sigma_of sigma) (flatten tpl)) = eval rho F Q P (flatten tgt))
    | MErr k =>
        (k = ValueError_cannot_unify /\
         match_records swap idel (free_names free_opt bound tpl) pre tpl tgt = nil)
        \/ (exists x, k = ValueError_pre_match_not_candidate x /\ In x (map fst (pre_list pre)) /\
                      mem x (free_names free_opt bound tpl) = false)
    end.
Proof.
  intros Hid swap free_opt bound pre tpl tgt Hsym Hnd.
  destruct (match_model swap idel free_opt bound pre tpl tgt) as [sigma amb|k] eqn:E.
  - destruct (match_sound _ _ _ _ _ _ _ _ _ Hid Hsym Hnd E) as (H1 & H2 & H3).
    split; [exact H1|]. split; [exact H2|]. intros rho F Q P. now apply AC1_sem.
  - destruct (match_error _ _ _ _ _ _ _ _ E) as [(H1 & _ & H3)|H]; [left; auto|right; exact H].
Qed.

(* ------------------------------------------------------------------ examples (non-vacuity) *)

Open Scope string_scope.

(* f(x + a, k = y*c) + z  against  d + f(k = c, a + (p*q))  with free x y z:
   needs commutativity, keyword reordering, x := p*q, y := 1 (identity), z := d *)
Definition ex_tpl : expr :=
  ESum [ECall (EVar "f") [ESum [EVar "x"; EVar "a"]] [("k", EProd [EVar "y"; EVar "c"])]; EVar "z"].
Definition ex_tgt : expr :=
  ESum [EVar "d"; ECall (EVar "f") [ESum [EVar "a"; EProd [EVar "p"; EVar "q"]]] [("k", EVar "c")]].

Example ex_match_ok :
  call_fn_is_symbol ex_tpl = true /\ call_fn_is_symbol ex_tgt = true /\
  NoDup (map fst (pre_list (Some [("z", EVar "d")]))) /\
  match_model (fun _ _ => false) pym_ident (Some ["x"; "y"; "z"]) [] (Some [("z", EVar "d")]) ex_tpl ex_tgt
  = MOk [("z", EVar "d"); ("x", EProd [EVar "p"; EVar "q"]); ("y", EInt 1)] false.
Proof.
  split; [reflexivity|]. split; [reflexivity|]. split; [repeat constructor; intros []|].
  vm_compute. reflexivity.
Qed.

Example ex_match_err_unify :
  match_model (fun _ _ => false) pym_ident (Some ["x"; "y"]) [] None
              (ECall (EVar "f") [EVar "x"; EVar "y"] []) (ECall (EVar "f") [EVar "a"; EVar "a"] [])
  = MErr ValueError_cannot_unify.
Proof. vm_compute. reflexivity. Qed.

Example ex_match_err_pre :
  match_model (fun _ _ => false) pym_ident (Some ["x"]) [] (Some [("b", EVar "c")])
              (ESum [EVar "x"; EVar "b"]) (ESum [EVar "c"; EVar "d"])
  = MErr (ValueError_pre_match_not_candidate "b").
Proof. vm_compute. reflexivity. Qed.

Example ex_AC1 : ESum [EVar "a"; ESum [EInt 0; EVar "b"]] ~~ ESum [EVar "b"; EVar "a"].
Proof.
  eapply AC_trans; [exact (AC_assoc OSum [EVar "a"] [EInt 0; EVar "b"] [])|]. cbn [app].
  eapply AC_trans; [apply AC_perm; apply perm_swap|].
  eapply AC_trans; [apply AC_ident|]. apply AC_perm, perm_swap.
Qed.

(* The hypothesis on the function position is not redundant: with a compound
   expression in function position the unifier returns bindings under which
   the function expressions are only AC-equal, not equal. *)
Example fn_symbol_needed :
  let tpl := ECall (ESum [EVar "a"; EVar "x"]) [] [] in
  let tgt := ECall (ESum [EVar "b"; EVar "a"]) [] [] in
  exists sigma amb,
    match_model (fun _ _ => false) pym_ident (Some ["x"]) [] None tpl tgt = MOk sigma amb /\
    ~ (subst (sigma_of sigma) (flatten tpl) ~~ flatten tgt).
Proof.
  eexists _, _. split; [vm_compute; reflexivity|].
  intros H.
  pose (F := fun (f : expr) (_ : list Z) (_ : list (string * Z)) =>
               if expr_seqb f (ESum [EVar "a"; EVar "b"]) then 1%Z else 0%Z).
  apply (AC1_sem (fun _ => 0%Z) F Z.add Z.add) in H. vm_compute in H. discriminate.
Qed.
