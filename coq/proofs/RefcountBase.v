(* C12 -- proofs about coq/model/Refcount.v.

   Part A  list / update / owner-count lemmas
   Part B  every primitive operation preserves refcount_inv and never faults on the
           generated code's side while it holds
   Part C  the per-phase invariant (refcount_inv + "a variable the source has assigned is
           only unassociated after its last mentioning statement") through the tree
   Part D  histories: initialize, any number of calls of run, shutdown
   Part E  refutations for the two unrepaired shapes, examples *)
From Coq Require Import List Arith Bool Lia ZifyBool.
Import ListNotations.
From Dagrt Require Import Refcount.

(* ------------------------------------------------------------------ Part A *)

Lemma upd_same {A} (f : nat -> A) x a : upd f x a x = a.
Proof. unfold upd. now rewrite Nat.eqb_refl. Qed.

Lemma upd_other {A} (f : nat -> A) x y a : y <> x -> upd f x a y = f y.
Proof. unfold upd. intros H. destruct (Nat.eqb_spec y x); [contradiction | reflexivity]. Qed.

Lemma memv_In x l : memv x l = true <-> In x l.
Proof.
  unfold memv. rewrite existsb_exists. split.
  - intros [y [Hy He]]. apply Nat.eqb_eq in He. now subst.
  - intros H. exists x. split; [assumption | apply Nat.eqb_refl].
Qed.

Lemma memv_false x l : memv x l = false <-> ~ In x l.
Proof.
  rewrite <- memv_In. destruct (memv x l); split; intros; try congruence; try tauto.
Qed.

Lemma nodupb_NoDup l : nodupb l = true -> NoDup l.
Proof.
  induction l as [|x r IH]; cbn; intros H; [constructor|].
  apply andb_true_iff in H. destruct H as [H1 H2].
  constructor; [|auto]. apply negb_true_iff in H1. now apply memv_false.
Qed.

Lemma subset_In a b : subset a b = true -> forall x, In x a -> In x b.
Proof.
  unfold subset. rewrite forallb_forall. intros H x Hx. apply memv_In. auto.
Qed.

Lemma points_upd_same vs x v b :
  points (upd vs x v) b x = match v with Some b' => Nat.eqb b' b | None => false end.
Proof. unfold points. now rewrite upd_same. Qed.

Lemma points_upd_other vs x y v b : y <> x -> points (upd vs x v) b y = points vs b y.
Proof. unfold points. intros. now rewrite upd_other. Qed.

Definition b2n (b : bool) : nat := if b then 1 else 0.

Lemma owners_cons y U vs b : owners (y :: U) vs b = b2n (points vs b y) + owners U vs b.
Proof. unfold owners. cbn. destruct (points vs b y); reflexivity. Qed.

Lemma owners_ext U vs vs' b :
  (forall x, In x U -> vs x = vs' x) -> owners U vs b = owners U vs' b.
Proof.
  induction U as [|y U IH]; intros H; [reflexivity|].
  rewrite !owners_cons. unfold points. rewrite (H y) by now left.
  rewrite IH; [reflexivity|]. intros x Hx. apply H. now right.
Qed.

Lemma owners_upd_notin U vs x v b : ~ In x U -> owners U (upd vs x v) b = owners U vs b.
Proof.
  intros H. apply owners_ext. intros y Hy. apply upd_other. intros ->. contradiction.
Qed.

Lemma owners_upd U vs x v b : NoDup U -> In x U ->
  owners U (upd vs x v) b + b2n (points vs b x) =
  owners U vs b + b2n (points (upd vs x v) b x).
Proof.
  induction U as [|y U IH]; intros ND Hin; [destruct Hin|].
  inversion ND as [|? ? Hny ND']; subst.
  rewrite !owners_cons. destruct Hin as [->|Hin].
  - rewrite owners_upd_notin by assumption. lia.
  - assert (y <> x) by (intros ->; contradiction).
    rewrite (points_upd_other vs x y) by assumption.
    specialize (IH ND' Hin). lia.
Qed.

Lemma owners_pos U vs b x : In x U -> vs x = Some b -> 1 <= owners U vs b.
Proof.
  induction U as [|y U IH]; intros Hin Hx; [destruct Hin|].
  rewrite owners_cons. destruct Hin as [->|Hin].
  - unfold points. rewrite Hx, Nat.eqb_refl. cbn. lia.
  - specialize (IH Hin Hx). lia.
Qed.

Lemma owners_zero U vs b : owners U vs b = 0 -> forall x, In x U -> vs x <> Some b.
Proof.
  intros H x Hin Hx. pose proof (owners_pos U vs b x Hin Hx). lia.
Qed.

Lemma owners_all_none U vs b : (forall x, In x U -> vs x = None) -> owners U vs b = 0.
Proof.
  induction U as [|y U IH]; intros H; [reflexivity|].
  rewrite owners_cons. unfold points. rewrite (H y) by now left.
  rewrite IH; [reflexivity|]. intros x Hx. apply H. now right.
Qed.
