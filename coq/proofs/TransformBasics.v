(* C07 proofs, part 1: the name generator, the state monads, and basic facts about the traced
   evaluation (unfolding equations, frame, call-free expressions have an empty log). *)
From Coq Require Import List ZArith NArith String Ascii Bool Arith Lia Permutation.
Import ListNotations.
From Dagrt Require Import Lang LangProofs Sched Transform TransformSem TransformSide.

(* ------------------------------------------------------------------------------------ *)
(* membership                                                                             *)

Lemma smem_In x l : smem x l = true <-> In x l.
Proof.
  unfold smem. rewrite existsb_exists. split.
  - intros [y [Hy He]]. apply String.eqb_eq in He. now subst.
  - intros H. exists x. split; [exact H|apply String.eqb_refl].
Qed.

Lemma smem_false x l : smem x l = false <-> ~ In x l.
Proof.
  split.
  - intros H Hin. apply smem_In in Hin. congruence.
  - intros H. destruct (smem x l) eqn:E; [|reflexivity]. apply smem_In in E. contradiction.
Qed.

(* ------------------------------------------------------------------------------------ *)
(* pytools.UniqueNameGenerator: a generated name is new                                    *)

Lemma search_fresh fuel e p n c name : search fuel e p n = Some (c, name) -> ~ In name e.
Proof.
  revert n. induction fuel as [|f IH]; cbn; intros n H; [discriminate|].
  destruct (smem _ e) eqn:E; [eauto|]. inversion H; subst. now apply smem_false.
Qed.

Lemma search0_fresh e p c c' name : search0 e p c = Some (c', name) -> ~ In name e.
Proof.
  unfold search0. destruct c as [n|].
  - apply search_fresh.
  - destruct (smem p e) eqn:E.
    + apply search_fresh.
    + intros H. inversion H; subst. now apply smem_false.
Qed.

Lemma gen_spec g b n g' : gen g b = Some (n, g') -> ~ In n (ex g) /\ ex g' = n :: ex g.
Proof.
  unfold gen. intros H.
  destruct (assoc b (ctr g)) as [c|].
  - destruct (search0 (ex g) b (Some c)) as [[c' name]|] eqn:E; [|discriminate].
    inversion H; subst. split; [eapply search0_fresh; eauto|reflexivity].
  - destruct (counter_match b) as [[b' c]|].
    + destruct (search0 (ex g) b' (Some c)) as [[c' name]|] eqn:E; [|discriminate].
      inversion H; subst. split; [eapply search0_fresh; eauto|reflexivity].
    + destruct (search0 (ex g) b None) as [[c' name]|] eqn:E; [|discriminate].
      inversion H; subst. split; [eapply search0_fresh; eauto|reflexivity].
Qed.

Lemma genv_spec b st n st' :
  genv b st = TOk (n, st') ->
  ~ In n (ex (gvars st)) /\ ex (gvars st') = n :: ex (gvars st) /\ gids st' = gids st.
Proof.
  unfold genv. destruct (gen (gvars st) b) as [[n' g]|] eqn:E; [|discriminate].
  intros H. inversion H; subst. apply gen_spec in E. cbn. tauto.
Qed.

Lemma geni_spec b st n st' :
  geni b st = TOk (n, st') ->
  ~ In n (ex (gids st)) /\ ex (gids st') = n :: ex (gids st) /\ gvars st' = gvars st.
Proof.
  unfold geni. destruct (gen (gids st) b) as [[n' g]|] eqn:E; [|discriminate].
  intros H. inversion H; subst. apply gen_spec in E. cbn. tauto.
Qed.

(* names N and ids I were generated between st and st' *)
Definition fresh_for (old new : list string) : Prop :=
  NoDup new /\ forall x, In x new -> ~ In x old.

Definition ext (st st' : gst) (N I : list string) : Prop :=
  ex (gvars st') = N ++ ex (gvars st) /\ ex (gids st') = I ++ ex (gids st) /\
  fresh_for (ex (gvars st)) N /\ fresh_for (ex (gids st)) I.

Lemma fresh_for_nil old : fresh_for old [].
Proof. split; [constructor|intros x []]. Qed.

Lemma NoDup_app_intro {A} (a b : list A) :
  NoDup a -> NoDup b -> (forall x, In x a -> ~ In x b) -> NoDup (a ++ b).
Proof.
  induction a as [|x a IH]; cbn; intros Ha Hb H; [exact Hb|].
  inversion Ha; subst. constructor.
  - rewrite in_app_iff. intros [Hx|Hx]; [contradiction|]. apply (H x); [now left|exact Hx].
  - apply IH; [assumption|assumption|]. intros y Hy. apply H. now right.
Qed.

Lemma fresh_for_app old n1 n2 :
  fresh_for old n1 -> fresh_for (n1 ++ old) n2 -> fresh_for old (n2 ++ n1).
Proof.
  intros [D1 F1] [D2 F2]. split.
  - apply NoDup_app_intro; auto. intros x Hx Hx1. apply (F2 x Hx). apply in_app_iff. now left.
  - intros x Hx. apply in_app_iff in Hx. destruct Hx as [Hx|Hx].
    + intros Ho. apply (F2 x Hx). apply in_app_iff. now right.
    + now apply F1.
Qed.

Lemma ext_refl st : ext st st [] [].
Proof. split; [reflexivity|split; [reflexivity|split; apply fresh_for_nil]]. Qed.

Lemma ext_trans st st1 st2 N1 I1 N2 I2 :
  ext st st1 N1 I1 -> ext st1 st2 N2 I2 -> ext st st2 (N2 ++ N1) (I2 ++ I1).
Proof.
  intros (E1 & E2 & F1 & F2) (E3 & E4 & F3 & F4).
  rewrite E1 in F3. rewrite E2 in F4.
  split; [|split; [|split]].
  - now rewrite E3, E1, app_assoc.
  - now rewrite E4, E2, app_assoc.
  - exact (fresh_for_app _ _ _ F1 F3).
  - exact (fresh_for_app _ _ _ F2 F4).
Qed.

Lemma fresh_for_one old n : ~ In n old -> fresh_for old [n].
Proof.
  intros H. split.
  - constructor; [intros []|constructor].
  - intros x [<-|[]]. exact H.
Qed.

Lemma ext_genv b st n st' : genv b st = TOk (n, st') -> ext st st' [n] [].
Proof.
  intros H. apply genv_spec in H. destruct H as (Hn & He & Hi).
  split; [exact He|split; [now rewrite Hi|split]].
  - now apply fresh_for_one.
  - apply fresh_for_nil.
Qed.

Lemma ext_geni b st n st' : geni b st = TOk (n, st') -> ext st st' [] [n].
Proof.
  intros H. apply geni_spec in H. destruct H as (Hn & He & Hi).
  split; [now rewrite Hi|split; [exact He|split]].
  - apply fresh_for_nil.
  - now apply fresh_for_one.
Qed.

(* ------------------------------------------------------------------------------------ *)
(* the traced evaluation                                                                  *)

Definition getv (s : store) (x : var) : val := match s x with Some v => v | None => VNone end.


Section Evalt.
  Variable F : string -> list val -> list (string * val) -> option (list val).

  (* unfolding equations *)
  Lemma evalt_and_cons s a l :
    evalt F s (ENary NAnd (a :: l)) =
    let (r, v) := evalt F s a in
    match rbind v (fun v => lift (truth v)) with
    | Err u => (r, Err u)
    | Ok false => (r, Ok (VBool false))
    | Ok true => let (r2, v2) := evalt F s (ENary NAnd l) in (r ++ r2, v2)
    end.
  Proof. reflexivity. Qed.

  Lemma evalt_or_cons s a l :
    evalt F s (ENary NOr (a :: l)) =
    let (r, v) := evalt F s a in
    match rbind v (fun v => lift (truth v)) with
    | Err u => (r, Err u)
    | Ok true => (r, Ok (VBool true))
    | Ok false => let (r2, v2) := evalt F s (ENary NOr l) in (r ++ r2, v2)
    end.
  Proof. reflexivity. Qed.

  (* ---- the strict n-ary nodes: Lang's lazy fold (ninit / nstep / nfinish) ---- *)
  (* the inner fold of evalt as a function of its own *)
  Fixpoint nfold_t (o : nop) (s : store) (acc : nacc) (l : list expr) : list call * rs nacc :=
    match l with
    | [] => ([], Ok acc)
    | e :: l' =>
        let (r, v) := evalt F s e in
        match v with
        | Err u => (r, Err u)
        | Ok x =>
            match nstep o acc x with
            | None => (r, Err false)
            | Some acc' => let (r2, res) := nfold_t o s acc' l' in (r ++ r2, res)
            end
        end
    end.

  Lemma evalt_nary s o l :
    is_lazy o = false ->
    evalt F s (ENary o l) =
    let (r, a) := nfold_t o s (ninit o) l in
    match a with
    | Err u => (r, Err u)
    | Ok acc => let (r2, v) := nfinish_t F o acc in (r ++ r2, v)
    end.
  Proof.
    intros Ho.
    assert (Hgo : forall acc,
               (fix go (acc : nacc) (l : list expr) : list call * rs nacc :=
                  match l with
                  | [] => ([], Ok acc)
                  | e :: l' =>
                      let (r, v) := evalt F s e in
                      match v with
                      | Err u => (r, Err u)
                      | Ok x =>
                          match nstep o acc x with
                          | None => (r, Err false)
                          | Some acc' => let (r2, res) := go acc' l' in (r ++ r2, res)
                          end
                      end
                  end) acc l = nfold_t o s acc l).
    { induction l as [|a l IH]; intros acc; [reflexivity|]. cbn [nfold_t].
      destruct (evalt F s a) as [r [x|u]]; [|reflexivity]. destruct (nstep o acc x); [|reflexivity].
      now rewrite IH. }
    destruct o; try discriminate; cbn [evalt]; rewrite Hgo; reflexivity.
  Qed.

  (* the fold on values *)
  Fixpoint steps (o : nop) (acc : nacc) (vs : list val) : option nacc :=
    match vs with
    | [] => Some acc
    | v :: r => match nstep o acc v with Some a => steps o a r | None => None end
    end.

  Lemma nfold_ok s o : forall l acc L a,
    nfold_t o s acc l = (L, Ok a) -> exists vs, evalt_list F s l = (L, Ok vs) /\ steps o acc vs = Some a.
  Proof.
    induction l as [|e l IH]; intros acc L a H; cbn [nfold_t] in H.
    - inversion H; subst. exists []. split; reflexivity.
    - cbn [evalt_list]. destruct (evalt F s e) as [r [x|u]]; [|discriminate].
      destruct (nstep o acc x) as [acc'|] eqn:En; [|discriminate].
      destruct (nfold_t o s acc' l) as [r2 res] eqn:Ef. inversion H; subst.
      destruct (IH _ _ _ Ef) as (vs & E1 & E2). exists (x :: vs). rewrite E1. cbn. rewrite En. auto.
  Qed.

  Lemma nfold_of_list s o : forall l acc L vs a,
    evalt_list F s l = (L, Ok vs) -> steps o acc vs = Some a -> nfold_t o s acc l = (L, Ok a).
  Proof.
    induction l as [|e l IH]; intros acc L vs a H Hs; cbn [evalt_list] in H.
    - inversion H; subst. cbn in Hs. inversion Hs; subst. reflexivity.
    - cbn [nfold_t]. destruct (evalt F s e) as [r [x|u]]; [|discriminate].
      destruct (evalt_list F s l) as [r2 [vs2|u]] eqn:El; cbn in H; [|discriminate].
      inversion H; subst. cbn [steps] in Hs. destruct (nstep o acc x) as [acc'|]; [|discriminate].
      now rewrite (IH _ _ _ _ eq_refl Hs).
  Qed.

  (* what a strict node makes of the values of its children *)
  Definition node_t (o : nop) (vs : list val) : list call * rs val :=
    match steps o (ninit o) vs with
    | Some acc => nfinish_t F o acc
    | None => ([], Err false)
    end.

  Lemma evalt_strict_ok s o l L v :
    is_lazy o = false -> evalt F s (ENary o l) = (L, Ok v) ->
    exists Ll vs Lk, evalt_list F s l = (Ll, Ok vs) /\ node_t o vs = (Lk, Ok v) /\ L = Ll ++ Lk.
  Proof.
    intros Ho H. rewrite (evalt_nary s o l Ho) in H.
    destruct (nfold_t o s (ninit o) l) as [r [acc|u]] eqn:Ef; [|discriminate].
    destruct (nfinish_t F o acc) as [r2 v2] eqn:En. inversion H; subst.
    destruct (nfold_ok _ _ _ _ _ _ Ef) as (vs & E1 & E2).
    exists r, vs, r2. unfold node_t. rewrite E2, En. auto.
  Qed.

  Lemma evalt_strict_list s o l Ll vs Lk v :
    is_lazy o = false -> evalt_list F s l = (Ll, Ok vs) -> node_t o vs = (Lk, Ok v) ->
    evalt F s (ENary o l) = (Ll ++ Lk, Ok v).
  Proof.
    intros Ho El Hn. rewrite (evalt_nary s o l Ho). unfold node_t in Hn.
    destruct (steps o (ninit o) vs) as [acc|] eqn:Es; [|discriminate].
    rewrite (nfold_of_list s o l _ _ _ _ El Es). now rewrite Hn.
  Qed.

  Lemma steps_call f kw : forall vs acc, steps (NCall f kw) (NL acc) vs = Some (NL (rev vs ++ acc)).
  Proof.
    induction vs as [|v vs IH]; intros acc; [reflexivity|]. cbn [steps nstep]. rewrite IH.
    cbn [rev]. now rewrite <- app_assoc.
  Qed.

  Lemma node_t_call f kw vs : node_t (NCall f kw) vs = call1t F f kw vs.
  Proof.
    unfold node_t. cbn [ninit]. rewrite steps_call, app_nil_r. cbn [nfinish_t]. now rewrite rev_involutive.
  Qed.

  (* frame *)
  Lemma nfold_frame o l : forall s s' acc,
    Forall (fun e => evalt F s e = evalt F s' e) l -> nfold_t o s acc l = nfold_t o s' acc l.
  Proof.
    induction l as [|e l IH]; intros s s' acc H; [reflexivity|]. inversion H as [|? ? He Hl]; subst.
    cbn [nfold_t]. rewrite He. destruct (evalt F s' e) as [r [x|u]]; [|reflexivity].
    destruct (nstep o acc x); [|reflexivity]. now rewrite (IH s s' _ Hl).
  Qed.

  Lemma nfold_map o (g : expr -> expr) l : forall s s' acc,
    Forall (fun e => evalt F s' (g e) = evalt F s e) l -> nfold_t o s' acc (map g l) = nfold_t o s acc l.
  Proof.
    induction l as [|e l IH]; intros s s' acc H; [reflexivity|]. inversion H as [|? ? He Hl]; subst.
    cbn [map nfold_t]. rewrite He. destruct (evalt F s e) as [r [x|u]]; [|reflexivity].
    destruct (nstep o acc x); [|reflexivity]. now rewrite (IH s s' _ Hl).
  Qed.

  Lemma evalt_frame e : forall s s', (forall x, In x (vars e) -> s x = s' x) -> evalt F s e = evalt F s' e.
  Proof.
    induction e as [z|b| |x|a IHa|c t e IHc IHt IHe|o a b IHa IHb|o l IH] using expr_ind';
      intros s s' H; try reflexivity.
    - cbn [evalt]. rewrite (H x); [reflexivity|now left].
    - cbn [evalt]. rewrite (IHa s s'); [reflexivity|exact H].
    - cbn [evalt]. cbn [vars] in H.
      rewrite (IHc s s'), (IHt s s'), (IHe s s'); [reflexivity| | |];
        intros x Hx; apply H; rewrite !in_app_iff; auto.
    - cbn [evalt]. cbn [vars] in H.
      rewrite (IHa s s'), (IHb s s'); [reflexivity| |]; intros x Hx; apply H; rewrite in_app_iff; auto.
    - cbn [vars] in H.
      assert (Hall : Forall (fun e => evalt F s e = evalt F s' e) l).
      { clear o. induction IH as [|a l Ha _ IHl]; constructor.
        - apply Ha. intros x Hx. apply H. cbn. rewrite in_app_iff. auto.
        - apply IHl. intros x Hx. apply H. cbn. rewrite in_app_iff. auto. }
      destruct (is_lazy o) eqn:Ho.
      + destruct o; try discriminate.
        * clear IH H. induction Hall as [|a l Ha _ IHl]; [reflexivity|]. rewrite !evalt_and_cons.
          now rewrite Ha, IHl.
        * clear IH H. induction Hall as [|a l Ha _ IHl]; [reflexivity|]. rewrite !evalt_or_cons.
          now rewrite Ha, IHl.
      + rewrite !evalt_nary by exact Ho. now rewrite (nfold_frame o l s s' _ Hall).
  Qed.

  Lemma evalt_list_frame l : forall s s',
    (forall x, In x (flat_map vars l) -> s x = s' x) -> evalt_list F s l = evalt_list F s' l.
  Proof.
    induction l as [|a l IH]; intros s s' H; [reflexivity|]. cbn [evalt_list].
    rewrite (evalt_frame a s s'), (IH s s'); [reflexivity| |];
      intros x Hx; apply H; cbn; rewrite in_app_iff; auto.
  Qed.

  Lemma cond_t_frame c s s' : (forall x, In x (vars c) -> s x = s' x) -> cond_t F s c = cond_t F s' c.
  Proof. intros H. unfold cond_t. now rewrite (evalt_frame c s s' H). Qed.

  Lemma bounds_t_frame lo hi s s' :
    (forall x, In x (vars lo ++ vars hi) -> s x = s' x) -> bounds_t F s lo hi = bounds_t F s' lo hi.
  Proof.
    intros H. unfold bounds_t.
    rewrite (evalt_frame lo s s'), (evalt_frame hi s s'); [reflexivity| |];
      intros x Hx; apply H; rewrite in_app_iff; auto.
  Qed.

  (* a call-free expression makes no calls *)
  Lemma nfold_nocall o s l : forall acc,
    Forall (fun e => fst (evalt F s e) = []) l -> fst (nfold_t o s acc l) = [].
  Proof.
    induction l as [|e l IH]; intros acc H; [reflexivity|]. inversion H as [|? ? He Hl]; subst.
    cbn [nfold_t]. destruct (evalt F s e) as [r [x|u]]; cbn in He; subst r; [|reflexivity].
    destruct (nstep o acc x) as [acc'|]; [|reflexivity].
    specialize (IH acc' Hl). destruct (nfold_t o s acc' l). exact IH.
  Qed.

  Lemma nocall_log e : has_call e = false -> forall s, fst (evalt F s e) = [].
  Proof.
    induction e as [z|b| |x|a IHa|c t e IHc IHt IHe|o a b IHa IHb|o l IH] using expr_ind';
      intros H s; try reflexivity.
    - cbn [evalt]. cbn [has_call] in H. specialize (IHa H s). destruct (evalt F s a). exact IHa.
    - cbn [evalt]. cbn [has_call] in H. apply orb_false_iff in H. destruct H as [H He].
      apply orb_false_iff in H. destruct H as [Hc Ht].
      specialize (IHc Hc s). specialize (IHt Ht s). specialize (IHe He s).
      destruct (evalt F s c) as [r v]. cbn in IHc. subst r.
      destruct (rbind v _) as [[|]|u]; [| |reflexivity].
      + destruct (evalt F s t). exact IHt.
      + destruct (evalt F s e). exact IHe.
    - cbn [evalt]. cbn [has_call] in H. apply orb_false_iff in H. destruct H as [Ha Hb].
      specialize (IHa Ha s). specialize (IHb Hb s).
      destruct (evalt F s a) as [r v]. cbn in IHa. subst r. destruct v as [x|u]; [|reflexivity].
      destruct (evalt F s b). exact IHb.
    - assert (Hc : forallb (fun e => negb (has_call e)) l = true /\ (forall f kw, o <> NCall f kw)).
      { destruct o; cbn [has_call] in H; try discriminate;
          (split; [|intros; discriminate]);
          (apply forallb_forall; intros x Hx; apply negb_true_iff;
           destruct (has_call x) eqn:E; [|reflexivity];
           assert (existsb has_call l = true) by (apply existsb_exists; eauto); congruence). }
      destruct Hc as [Hl Hn].
      assert (Hall : Forall (fun e => fst (evalt F s e) = []) l).
      { clear H Hn. induction IH as [|a l Ha _ IHl]; [constructor|]. cbn [forallb] in Hl.
        apply andb_true_iff in Hl. destruct Hl as [H1 H2]. apply negb_true_iff in H1. constructor; auto. }
      destruct (is_lazy o) eqn:Ho.
      + destruct o; try discriminate.
        * clear H Hn IH Hl. induction Hall as [|a l Ha _ IHl]; [reflexivity|].
          rewrite evalt_and_cons. destruct (evalt F s a) as [r v]. cbn in Ha. subst r.
          destruct (rbind v _) as [[|]|u]; try reflexivity.
          destruct (evalt F s (ENary NAnd l)). exact IHl.
        * clear H Hn IH Hl. induction Hall as [|a l Ha _ IHl]; [reflexivity|].
          rewrite evalt_or_cons. destruct (evalt F s a) as [r v]. cbn in Ha. subst r.
          destruct (rbind v _) as [[|]|u]; try reflexivity.
          destruct (evalt F s (ENary NOr l)). exact IHl.
      + rewrite evalt_nary by exact Ho. pose proof (nfold_nocall o s l (ninit o) Hall) as Hf.
        destruct (nfold_t o s (ninit o) l) as [r [acc|u]]; cbn in Hf; subst r; [|reflexivity].
        destruct o; try discriminate; reflexivity.
  Qed.

  Lemma nocall_cond c s : has_call c = false -> fst (cond_t F s c) = [].
  Proof. intros H. unfold cond_t. pose proof (nocall_log c H s). destruct (evalt F s c). exact H0. Qed.

  (* evalt_list over an append *)
  Lemma evalt_list_app s l1 l2 :
    evalt_list F s (l1 ++ l2) =
    let (r1, v1) := evalt_list F s l1 in
    match v1 with
    | Err u => (r1, Err u)
    | Ok a => let (r2, v2) := evalt_list F s l2 in (r1 ++ r2, rmap (app a) v2)
    end.
  Proof.
    induction l1 as [|a l1 IH]; cbn [evalt_list app].
    - destruct (evalt_list F s l2) as [r [v|u]]; reflexivity.
    - destruct (evalt F s a) as [r [x|u]]; [|reflexivity]. rewrite IH.
      destruct (evalt_list F s l1) as [r1 [v1|u]]; cbn; [|reflexivity].
      destruct (evalt_list F s l2) as [r2 [v2|u]]; cbn; now rewrite app_assoc.
  Qed.

  Lemma evalt_list_length s l r vs : evalt_list F s l = (r, Ok vs) -> List.length vs = List.length l.
  Proof.
    revert r vs. induction l as [|a l IH]; cbn [evalt_list]; intros r vs H.
    - now inversion H.
    - destruct (evalt F s a) as [r1 [x|u]]; [|discriminate].
      destruct (evalt_list F s l) as [r2 [v2|u]] eqn:E; cbn in H; [|discriminate].
      inversion H; subst. cbn. f_equal. eapply IH. reflexivity.
  Qed.
End Evalt.
