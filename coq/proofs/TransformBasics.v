(* C07 proofs, part 1: the name generator, the state monads, and basic facts about the traced
   evaluation (unfolding equations, frame, call-free expressions have an empty log). *)
From Coq Require Import List ZArith NArith String Ascii Bool Arith Lia Permutation.
Import ListNotations.
From Dagrt Require Import Lang LangProofs Sched Transform TransformSem TransformSide.

(* ------------------------------------------------------------------------------------ *)
(* membership                                                                             *)

Lemma smem_In x l : smem x l = true <-> In x l.
Proof.
  unfold smem. rewrite existsb_exists. split.
  - intros [y [Hy He]]. apply String.eqb_eq in He. now subst.
  - intros H. exists x. split; [exact H|apply String.eqb_refl].
Qed.

Lemma smem_false x l : smem x l = false <-> ~ In x l.
Proof.
  split.
  - intros H Hin. apply smem_In in Hin. congruence.
  - intros H. destruct (smem x l) eqn:E; [|reflexivity]. apply smem_In in E. contradiction.
Qed.

(* ------------------------------------------------------------------------------------ *)
(* pytools.UniqueNameGenerator: a generated name is new                                    *)

Lemma search_fresh fuel e p n c name : search fuel e p n = Some (c, name) -> ~ In name e.
Proof.
  revert n. induction fuel as [|f IH]; cbn; intros n H; [discriminate|].
  destruct (smem _ e) eqn:E; [eauto|]. inversion H; subst. now apply smem_false.
Qed.

Lemma search0_fresh e p c c' name : search0 e p c = Some (c', name) -> ~ In name e.
Proof.
  unfold search0. destruct c as [n|].
  - apply search_fresh.
  - destruct (smem p e) eqn:E.
    + apply search_fresh.
    + intros H. inversion H; subst. now apply smem_false.
Qed.

Lemma gen_spec g b n g' : gen g b = Some (n, g') -> ~ In n (ex g) /\ ex g' = n :: ex g.
Proof.
  unfold gen. intros H.
  destruct (assoc b (ctr g)) as [c|].
  - destruct (search0 (ex g) b (Some c)) as [[c' name]|] eqn:E; [|discriminate].
    inversion H; subst. split; [eapply search0_fresh; eauto|reflexivity].
  - destruct (counter_match b) as [[b' c]|].
    + destruct (search0 (ex g) b' (Some c)) as [[c' name]|] eqn:E; [|discriminate].
      inversion H; subst. split; [eapply search0_fresh; eauto|reflexivity].
    + destruct (search0 (ex g) b None) as [[c' name]|] eqn:E; [|discriminate].
      inversion H; subst. split; [eapply search0_fresh; eauto|reflexivity].
Qed.

Lemma genv_spec b st n st' :
  genv b st = TOk (n, st') ->
  ~ In n (ex (gvars st)) /\ ex (gvars st') = n :: ex (gvars st) /\ gids st' = gids st.
Proof.
  unfold genv. destruct (gen (gvars st) b) as [[n' g]|] eqn:E; [|discriminate].
  intros H. inversion H; subst. apply gen_spec in E. cbn. tauto.
Qed.

Lemma geni_spec b st n st' :
  geni b st = TOk (n, st') ->
  ~ In n (ex (gids st)) /\ ex (gids st') = n :: ex (gids st) /\ gvars st' = gvars st.
Proof.
  unfold geni. destruct (gen (gids st) b) as [[n' g]|] eqn:E; [|discriminate].
  intros H. inversion H; subst. apply gen_spec in E. cbn. tauto.
Qed.

(* names N and ids I were generated between st and st' *)
Definition fresh_for (old new : list string) : Prop :=
  NoDup new /\ forall x, In x new -> ~ In x old.

Definition ext (st st' : gst) (N I : list string) : Prop :=
  ex (gvars st') = N ++ ex (gvars st) /\ ex (gids st') = I ++ ex (gids st) /\
  fresh_for (ex (gvars st)) N /\ fresh_for (ex (gids st)) I.

Lemma fresh_for_nil old : fresh_for old [].
Proof. split; [constructor|intros x []]. Qed.

Lemma NoDup_app_intro {A} (a b : list A) :
  NoDup a -> NoDup b -> (forall x, In x a -> ~ In x b) -> NoDup (a ++ b).
Proof.
  induction a as [|x a IH]; cbn; intros Ha Hb H; [exact Hb|].
  inversion Ha; subst. constructor.
  - rewrite in_app_iff. intros [Hx|Hx]; [contradiction|]. apply (H x); [now left|exact Hx].
  - apply IH; [assumption|assumption|]. intros y Hy. apply H. now right.
Qed.

Lemma fresh_for_app old n1 n2 :
  fresh_for old n1 -> fresh_for (n1 ++ old) n2 -> fresh_for old (n2 ++ n1).
Proof.
  intros [D1 F1] [D2 F2]. split.
  - apply NoDup_app_intro; auto. intros x Hx Hx1. apply (F2 x Hx). apply in_app_iff. now left.
  - intros x Hx. apply in_app_iff in Hx. destruct Hx as [Hx|Hx].
    + intros Ho. apply (F2 x Hx). apply in_app_iff. now right.
    + now apply F1.
Qed.

Lemma ext_refl st : ext st st [] [].
Proof. split; [reflexivity|split; [reflexivity|split; apply fresh_for_nil]]. Qed.

Lemma ext_trans st st1 st2 N1 I1 N2 I2 :
  ext st st1 N1 I1 -> ext st1 st2 N2 I2 -> ext st st2 (N2 ++ N1) (I2 ++ I1).
Proof.
  intros (E1 & E2 & F1 & F2) (E3 & E4 & F3 & F4).
  rewrite E1 in F3. rewrite E2 in F4.
  split; [|split; [|split]].
  - now rewrite E3, E1, app_assoc.
  - now rewrite E4, E2, app_assoc.
  - exact (fresh_for_app _ _ _ F1 F3).
  - exact (fresh_for_app _ _ _ F2 F4).
Qed.

Lemma fresh_for_one old n : ~ In n old -> fresh_for old [n].
Proof.
  intros H. split.
  - constructor; [intros []|constructor].
  - intros x [<-|[]]. exact H.
Qed.

Lemma ext_genv b st n st' : genv b st = TOk (n, st') -> ext st st' [n] [].
Proof.
  intros H. apply genv_spec in H. destruct H as (Hn & He & Hi).
  split; [exact He|split; [now rewrite Hi|split]].
  - now apply fresh_for_one.
  - apply fresh_for_nil.
Qed.

Lemma ext_geni b st n st' : geni b st = TOk (n, st') -> ext st st' [] [n].
Proof.
  intros H. apply geni_spec in H. destruct H as (Hn & He & Hi).
  split; [now rewrite Hi|split; [exact He|split]].
  - apply fresh_for_nil.
  - now apply fresh_for_one.
Qed.

(* ------------------------------------------------------------------------------------ *)
(* the traced evaluation                                                                  *)

Definition getv (s : store) (x : var) : val := match s x with Some v => v | None => VNone end.


Section Evalt.
  Variable F : string -> list val -> list (string * val) -> option (list val).

  (* unfolding equations *)
  Lemma evalt_and_cons s a l :
    evalt F s (ENary NAnd (a :: l)) =
    let (r, v) := evalt F s a in
    match rbind v (fun v => lift (truth v)) with
    | Err u => (r, Err u)
    | Ok false => (r, Ok (VBool false))
    | Ok true => let (r2, v2) := evalt F s (ENary NAnd l) in (r ++ r2, v2)
    end.
  Proof. reflexivity. Qed.

  Lemma evalt_or_cons s a l :
    evalt F s (ENary NOr (a :: l)) =
    let (r, v) := evalt F s a in
    match rbind v (fun v => lift (truth v)) with
    | Err u => (r, Err u)
    | Ok true => (r, Ok (VBool true))
    | Ok false => let (r2, v2) := evalt F s (ENary NOr l) in (r ++ r2, v2)
    end.
  Proof. reflexivity. Qed.

  Definition node_t (o : nop) (vs : list val) : list call * rs val :=
    match o with
    | NCall f kw => call1t F f kw vs
    | _ => ([], nary F o vs)
    end.

  Lemma evalt_strict s o l :
    is_lazy o = false ->
    evalt F s (ENary o l) =
    let (r, vs) := evalt_list F s l in
    match vs with
    | Err u => (r, Err u)
    | Ok vs => let (r2, v) := node_t o vs in (r ++ r2, v)
    end.
  Proof.
    intros Ho.
    assert (Hgo : (fix go (l : list expr) : list call * rs (list val) :=
                     match l with
                     | [] => ([], Ok [])
                     | a :: l' =>
                         let (r, v) := evalt F s a in
                         match v with
                         | Err u => (r, Err u)
                         | Ok x => let (r2, vs) := go l' in (r ++ r2, rmap (cons x) vs)
                         end
                     end) l = evalt_list F s l).
    { induction l as [|a l IH]; [reflexivity|]. cbn [evalt_list]. rewrite <- IH. reflexivity. }
    destruct o; try discriminate; cbn [evalt node_t]; rewrite Hgo;
      destruct (evalt_list F s l) as [r [vs|u]]; try reflexivity;
      try (now rewrite app_nil_r).
  Qed.

  (* frame *)
  Lemma evalt_frame e : forall s s', (forall x, In x (vars e) -> s x = s' x) -> evalt F s e = evalt F s' e.
  Proof.
    induction e as [z|b| |x|a IHa|c t e IHc IHt IHe|o a b IHa IHb|o l IH] using expr_ind';
      intros s s' H; try reflexivity.
    - cbn [evalt]. rewrite (H x); [reflexivity|now left].
    - cbn [evalt]. rewrite (IHa s s'); [reflexivity|exact H].
    - cbn [evalt]. cbn [vars] in H.
      rewrite (IHc s s'), (IHt s s'), (IHe s s'); [reflexivity| | |];
        intros x Hx; apply H; rewrite !in_app_iff; auto.
    - cbn [evalt]. cbn [vars] in H.
      rewrite (IHa s s'), (IHb s s'); [reflexivity| |]; intros x Hx; apply H; rewrite in_app_iff; auto.
    - cbn [vars] in H.
      assert (Hl : evalt_list F s l = evalt_list F s' l).
      { clear o. induction IH as [|a l Ha _ IHl]; [reflexivity|]. cbn [evalt_list].
        rewrite (Ha s s'), IHl; [reflexivity| |]; intros x Hx; apply H; cbn; rewrite in_app_iff; auto. }
      destruct (is_lazy o) eqn:Ho.
      + destruct o; try discriminate.
        * clear Hl. induction IH as [|a l Ha _ IHl]; [reflexivity|]. rewrite !evalt_and_cons.
          rewrite (Ha s s'), IHl; [reflexivity| |]; intros x Hx; apply H; cbn; rewrite in_app_iff; auto.
        * clear Hl. induction IH as [|a l Ha _ IHl]; [reflexivity|]. rewrite !evalt_or_cons.
          rewrite (Ha s s'), IHl; [reflexivity| |]; intros x Hx; apply H; cbn; rewrite in_app_iff; auto.
      + rewrite !evalt_strict by exact Ho. now rewrite Hl.
  Qed.

  Lemma evalt_list_frame l : forall s s',
    (forall x, In x (flat_map vars l) -> s x = s' x) -> evalt_list F s l = evalt_list F s' l.
  Proof.
    induction l as [|a l IH]; intros s s' H; [reflexivity|]. cbn [evalt_list].
    rewrite (evalt_frame a s s'), (IH s s'); [reflexivity| |];
      intros x Hx; apply H; cbn; rewrite in_app_iff; auto.
  Qed.

  Lemma cond_t_frame c s s' : (forall x, In x (vars c) -> s x = s' x) -> cond_t F s c = cond_t F s' c.
  Proof. intros H. unfold cond_t. now rewrite (evalt_frame c s s' H). Qed.

  Lemma bound_t_frame c s s' : (forall x, In x (vars c) -> s x = s' x) -> bound_t F s c = bound_t F s' c.
  Proof. intros H. unfold bound_t. now rewrite (evalt_frame c s s' H). Qed.

  (* a call-free expression makes no calls *)
  Lemma nocall_log e : has_call e = false -> forall s, fst (evalt F s e) = [].
  Proof.
    induction e as [z|b| |x|a IHa|c t e IHc IHt IHe|o a b IHa IHb|o l IH] using expr_ind';
      intros H s; try reflexivity.
    - cbn [evalt]. cbn [has_call] in H. specialize (IHa H s). destruct (evalt F s a). exact IHa.
    - cbn [evalt]. cbn [has_call] in H. apply orb_false_iff in H. destruct H as [H He].
      apply orb_false_iff in H. destruct H as [Hc Ht].
      specialize (IHc Hc s). specialize (IHt Ht s). specialize (IHe He s).
      destruct (evalt F s c) as [r v]. cbn in IHc. subst r.
      destruct (rbind v _) as [[|]|u]; [| |reflexivity].
      + destruct (evalt F s t). exact IHt.
      + destruct (evalt F s e). exact IHe.
    - cbn [evalt]. cbn [has_call] in H. apply orb_false_iff in H. destruct H as [Ha Hb].
      specialize (IHa Ha s). specialize (IHb Hb s).
      destruct (evalt F s a) as [r v]. cbn in IHa. subst r. destruct v as [x|u]; [|reflexivity].
      destruct (evalt F s b). exact IHb.
    - assert (Hc : forallb (fun e => negb (has_call e)) l = true /\ (forall f kw, o <> NCall f kw)).
      { destruct o; cbn [has_call] in H; try discriminate;
          (split; [|intros; discriminate]);
          (apply forallb_forall; intros x Hx; apply negb_true_iff;
           destruct (has_call x) eqn:E; [|reflexivity];
           assert (existsb has_call l = true) by (apply existsb_exists; eauto); congruence). }
      destruct Hc as [Hl Hn].
      assert (Hlist : fst (evalt_list F s l) = []).
      { clear H Hn. induction IH as [|a l Ha _ IHl]; [reflexivity|]. cbn [forallb] in Hl.
        apply andb_true_iff in Hl. destruct Hl as [H1 H2]. apply negb_true_iff in H1.
        cbn [evalt_list]. specialize (Ha H1 s). destruct (evalt F s a) as [r v]. cbn in Ha. subst r.
        destruct v as [x|u]; [|reflexivity]. specialize (IHl H2). destruct (evalt_list F s l). exact IHl. }
      destruct (is_lazy o) eqn:Ho.
      + destruct o; try discriminate.
        * clear Hlist H Hn. induction IH as [|a l Ha _ IHl]; [reflexivity|]. cbn [forallb] in Hl.
          apply andb_true_iff in Hl. destruct Hl as [H1 H2]. apply negb_true_iff in H1.
          rewrite evalt_and_cons. specialize (Ha H1 s). destruct (evalt F s a) as [r v]. cbn in Ha. subst r.
          destruct (rbind v _) as [[|]|u]; try reflexivity.
          specialize (IHl H2). destruct (evalt F s (ENary NAnd l)). exact IHl.
        * clear Hlist H Hn. induction IH as [|a l Ha _ IHl]; [reflexivity|]. cbn [forallb] in Hl.
          apply andb_true_iff in Hl. destruct Hl as [H1 H2]. apply negb_true_iff in H1.
          rewrite evalt_or_cons. specialize (Ha H1 s). destruct (evalt F s a) as [r v]. cbn in Ha. subst r.
          destruct (rbind v _) as [[|]|u]; try reflexivity.
          specialize (IHl H2). destruct (evalt F s (ENary NOr l)). exact IHl.
      + rewrite evalt_strict by exact Ho. destruct (evalt_list F s l) as [r [vs|u]]; cbn in Hlist; subst r;
          [|reflexivity].
        destruct o; try discriminate; reflexivity.
  Qed.

  Lemma nocall_cond c s : has_call c = false -> fst (cond_t F s c) = [].
  Proof. intros H. unfold cond_t. pose proof (nocall_log c H s). destruct (evalt F s c). exact H0. Qed.

  (* evalt_list over an append *)
  Lemma evalt_list_app s l1 l2 :
    evalt_list F s (l1 ++ l2) =
    let (r1, v1) := evalt_list F s l1 in
    match v1 with
    | Err u => (r1, Err u)
    | Ok a => let (r2, v2) := evalt_list F s l2 in (r1 ++ r2, rmap (app a) v2)
    end.
  Proof.
    induction l1 as [|a l1 IH]; cbn [evalt_list app].
    - destruct (evalt_list F s l2) as [r [v|u]]; reflexivity.
    - destruct (evalt F s a) as [r [x|u]]; [|reflexivity]. rewrite IH.
      destruct (evalt_list F s l1) as [r1 [v1|u]]; cbn; [|reflexivity].
      destruct (evalt_list F s l2) as [r2 [v2|u]]; cbn; now rewrite app_assoc.
  Qed.

  Lemma evalt_list_length s l r vs : evalt_list F s l = (r, Ok vs) -> List.length vs = List.length l.
  Proof.
    revert r vs. induction l as [|a l IH]; cbn [evalt_list]; intros r vs H.
    - now inversion H.
    - destruct (evalt F s a) as [r1 [x|u]]; [|discriminate].
      destruct (evalt_list F s l) as [r2 [v2|u]] eqn:E; cbn in H; [|discriminate].
      inversion H; subst. cbn. f_equal. eapply IH. reflexivity.
  Qed.
End Evalt.
