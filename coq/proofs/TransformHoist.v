(* C07 proofs, part 2: executing the statements a mapper emits, guards that extend a base
   guard, and the semantic notion "the evaluation of a was hoisted into ns and a'" together
   with its composition lemmas (no name generation here). *)
From Coq Require Import List ZArith NArith String Ascii Bool Arith Lia Permutation.
Import ListNotations.
From Dagrt Require Import Lang LangProofs Sched Transform TransformSem TransformSide TransformBasics.

Section Hoist.
  Variable F : string -> list val -> list (string * val) -> option (list val).
  Variable dg : bool.

  (* ---- executing a list of statements that all continue without an event ---- *)
  Fixpoint exec_list (ns : list tstmt) (s : store) : option (list call * store) :=
    match ns with
    | [] => Some ([], s)
    | n :: r =>
        match exec_t F dg s n with
        | (l, ONext s1 None) =>
            match exec_list r s1 with
            | Some (l2, s2) => Some (l ++ l2, s2)
            | None => None
            end
        | _ => None
        end
    end.

  Lemma exec_list_app ns1 ns2 s L1 s1 L2 s2 :
    exec_list ns1 s = Some (L1, s1) -> exec_list ns2 s1 = Some (L2, s2) ->
    exec_list (ns1 ++ ns2) s = Some (L1 ++ L2, s2).
  Proof.
    revert s L1. induction ns1 as [|n r IH]; cbn [exec_list app]; intros s L1 H1 H2.
    - inversion H1; subst. exact H2.
    - destruct (exec_t F dg s n) as [l [sa [ev|]| | | | |]]; try discriminate.
      destruct (exec_list r sa) as [[l2 sb]|] eqn:E; [|discriminate].
      inversion H1; subst. rewrite (IH _ _ E H2). now rewrite app_assoc.
  Qed.

  Lemma run_leaves ns : forall s L s' evs log rest,
    exec_list ns s = Some (L, s') ->
    fold_left (fun S x => run_tree F dg x S) (map TLeaf ns ++ rest) (TRun s evs log) =
    fold_left (fun S x => run_tree F dg x S) rest (TRun s' evs (log ++ L)).
  Proof.
    induction ns as [|n r IH]; cbn [exec_list map app fold_left]; intros s L s' evs log rest H.
    - inversion H; subst. now rewrite app_nil_r.
    - cbn [run_tree step_t].
      destruct (exec_t F dg s n) as [l [sa [ev|]| | | | |]]; try discriminate.
      destruct (exec_list r sa) as [[l2 sb]|] eqn:E; [|discriminate].
      inversion H; subst. cbn [ev_list]. rewrite app_nil_r. rewrite (IH _ _ _ _ _ rest E).
      now rewrite app_assoc.
  Qed.

  (* ---- guards ---- *)
  Lemma cond_and_nil s : cond_t F s (ENary NAnd []) = ([], Ok true).
  Proof. reflexivity. Qed.

  Lemma cond_and_cons s a l :
    cond_t F s (ENary NAnd (a :: l)) =
    let (r, b) := cond_t F s a in
    match b with
    | Err u => (r, Err u)
    | Ok false => (r, Ok false)
    | Ok true => let (r2, b2) := cond_t F s (ENary NAnd l) in (r ++ r2, b2)
    end.
  Proof.
    unfold cond_t. rewrite evalt_and_cons. destruct (evalt F s a) as [r v].
    destruct (rbind v (fun v0 => lift (truth v0))) as [[|]|u]; try reflexivity.
    destruct (evalt F s (ENary NAnd l)) as [r2 v2]. reflexivity.
  Qed.

  Lemma cond_and_app s l1 l2 :
    cond_t F s (ENary NAnd (l1 ++ l2)) =
    let (r, b) := cond_t F s (ENary NAnd l1) in
    match b with
    | Ok true => let (r2, b2) := cond_t F s (ENary NAnd l2) in (r ++ r2, b2)
    | _ => (r, b)
    end.
  Proof.
    induction l1 as [|a l1 IH]; cbn [app].
    - rewrite cond_and_nil. destruct (cond_t F s (ENary NAnd l2)). reflexivity.
    - rewrite !cond_and_cons. destruct (cond_t F s a) as [r [[|]|u]]; try reflexivity.
      rewrite IH. destruct (cond_t F s (ENary NAnd l1)) as [r1 [[|]|u]]; try reflexivity.
      destruct (cond_t F s (ENary NAnd l2)) as [r2 b2]. now rewrite app_assoc.
  Qed.

  Lemma cond_kids s c : cond_t F s (ENary NAnd (and_kids c)) = cond_t F s c.
  Proof.
    assert (H1 : forall e, cond_t F s (ENary NAnd [e]) = cond_t F s e).
    { intros e. rewrite cond_and_cons, cond_and_nil.
      destruct (cond_t F s e) as [r [[|]|u]]; rewrite ?app_nil_r; reflexivity. }
    destruct c; try apply H1. destruct o; try apply H1. reflexivity.
  Qed.

  Definition gext (c g : expr) : Prop := exists more, and_kids g = and_kids c ++ more.

  Lemma gext_refl c : gext c c.
  Proof. exists []. now rewrite app_nil_r. Qed.

  Lemma gext_trans a b c : gext a b -> gext b c -> gext a c.
  Proof. intros [m1 H1] [m2 H2]. exists (m1 ++ m2). now rewrite H2, H1, app_assoc. Qed.

  Lemma gext_flat_and c x : gext c (flat_and c x).
  Proof. exists (and_kids x). reflexivity. Qed.

  Lemma gext_false c g s : gext c g -> cond_t F s c = ([], Ok false) -> cond_t F s g = ([], Ok false).
  Proof.
    intros [more Hm] Hc. rewrite <- cond_kids, Hm, cond_and_app, cond_kids, Hc. reflexivity.
  Qed.

  Lemma flat_and_cond c x s bx :
    cond_t F s c = ([], Ok true) -> and_kids x = [x] -> cond_t F s x = ([], Ok bx) ->
    cond_t F s (flat_and c x) = ([], Ok bx).
  Proof.
    intros Hc Hk Hx. unfold flat_and. rewrite cond_and_app, cond_kids, Hc, Hk.
    rewrite <- Hk, cond_kids, Hx. reflexivity.
  Qed.

  Lemma exec_skip s n : cond_t F s (tcond n) = ([], Ok false) -> exec_t F dg s n = ([], ONext s None).
  Proof. intros H. unfold exec_t. now rewrite H. Qed.

  Lemma exec_list_skip g ns s :
    Forall (fun n => gext g (tcond n)) ns -> cond_t F s g = ([], Ok false) ->
    exec_list ns s = Some ([], s).
  Proof.
    intros Hf Hg. induction Hf as [|n r Hn _ IH]; [reflexivity|].
    cbn [exec_list]. rewrite (exec_skip s n (gext_false _ _ _ Hn Hg)). now rewrite IH.
  Qed.

  (* ---- hoisting ---- *)
  Definition same_off (N : list var) (s s' : store) : Prop := forall x, ~ In x N -> s' x = s x.

  Lemma same_off_refl N s : same_off N s s.
  Proof. intros x _. reflexivity. Qed.

  Lemma same_off_trans N1 N2 s s1 s2 :
    same_off N1 s s1 -> same_off N2 s1 s2 -> same_off (N1 ++ N2) s s2.
  Proof.
    intros H1 H2 x Hx. rewrite in_app_iff in Hx.
    rewrite H2 by tauto. apply H1. tauto.
  Qed.

  Lemma same_off_incl N N' s s' : incl N N' -> same_off N s s' -> same_off N' s s'.
  Proof. intros Hi H x Hx. apply H. intros Hin. apply Hx, Hi, Hin. Qed.

  Definition hoisted (cond a a' : expr) (ns : list tstmt) (N : list var) : Prop :=
    forall s L v,
      cond_t F s cond = ([], Ok true) -> evalt F s a = (L, Ok v) ->
      exists L1 s' L2,
        exec_list ns s = Some (L1, s') /\ same_off N s s' /\
        evalt F s' a' = (L2, Ok v) /\ Permutation (L1 ++ L2) L.

  Definition hoisted_list (cond : expr) (l l' : list expr) (ns : list tstmt) (N : list var) : Prop :=
    forall s L vs,
      cond_t F s cond = ([], Ok true) -> evalt_list F s l = (L, Ok vs) ->
      exists L1 s' L2,
        exec_list ns s = Some (L1, s') /\ same_off N s s' /\
        evalt_list F s' l' = (L2, Ok vs) /\ Permutation (L1 ++ L2) L.

  Lemma hoisted_id cond a : hoisted cond a a [] [].
  Proof.
    intros s L v _ H. exists [], s, L.
    split; [reflexivity|split; [apply same_off_refl|split; [exact H|apply Permutation_refl]]].
  Qed.

  Lemma hoisted_list_nil cond : hoisted_list cond [] [] [] [].
  Proof.
    intros s L vs _ H. exists [], s, L.
    split; [reflexivity|split; [apply same_off_refl|split; [exact H|apply Permutation_refl]]].
  Qed.

  Lemma hoisted_weaken cond a a' ns N N' : incl N N' -> hoisted cond a a' ns N -> hoisted cond a a' ns N'.
  Proof.
    intros Hi H s L v Hc He. destruct (H s L v Hc He) as (L1 & s' & L2 & H1 & H2 & H3 & H4).
    exists L1, s', L2. split; [exact H1|split; [eapply same_off_incl; eauto|split; assumption]].
  Qed.

  Lemma perm_4 (A : Type) (a b c d : list A) x y :
    Permutation (a ++ b) x -> Permutation (c ++ d) y -> Permutation ((a ++ c) ++ (b ++ d)) (x ++ y).
  Proof.
    intros H1 H2. rewrite <- H1, <- H2. rewrite <- !app_assoc. apply Permutation_app_head.
    rewrite !app_assoc. apply Permutation_app_tail. apply Permutation_app_comm.
  Qed.

  Lemma hoisted_cons cond a a' l l' ns1 ns2 N1 N2 :
    hoisted cond a a' ns1 N1 ->
    hoisted_list cond l l' ns2 N2 ->
    (forall x, In x N1 -> ~ In x (flat_map vars l) /\ ~ In x (vars cond)) ->
    (forall x, In x N2 -> ~ In x (vars a')) ->
    hoisted_list cond (a :: l) (a' :: l') (ns1 ++ ns2) (N1 ++ N2).
  Proof.
    intros H1 H2 D1 D2 s L vs Hc He. cbn [evalt_list] in He.
    destruct (evalt F s a) as [La [va|u]] eqn:Ea; [|discriminate].
    destruct (evalt_list F s l) as [Ll [vl|u]] eqn:El; cbn in He; [|discriminate].
    inversion He; subst L vs. clear He.
    destruct (H1 s La va Hc Ea) as (L1a & s1 & L2a & X1 & X2 & X3 & X4).
    assert (Hc1 : cond_t F s1 cond = ([], Ok true)).
    { rewrite <- Hc. apply cond_t_frame. intros x Hx. apply X2. intros Hn. destruct (D1 x Hn) as [_ B]. now apply B. }
    assert (El1 : evalt_list F s1 l = (Ll, Ok vl)).
    { rewrite <- El. apply evalt_list_frame. intros x Hx. apply X2. intros Hn. destruct (D1 x Hn) as [A _]. now apply A. }
    destruct (H2 s1 Ll vl Hc1 El1) as (L1l & s2 & L2l & Y1 & Y2 & Y3 & Y4).
    exists (L1a ++ L1l), s2, (L2a ++ L2l). split; [|split; [|split]].
    - eapply exec_list_app; eauto.
    - eapply same_off_trans; eauto.
    - cbn [evalt_list].
      assert (Ea2 : evalt F s2 a' = (L2a, Ok va)).
      { rewrite <- X3. apply evalt_frame. intros x Hx. apply Y2. intros Hn. apply (D2 x Hn). exact Hx. }
      rewrite Ea2, Y3. reflexivity.
    - apply perm_4; assumption.
  Qed.

  Lemma hoisted_strict cond o l l' ns N :
    is_lazy o = false -> hoisted_list cond l l' ns N -> hoisted cond (ENary o l) (ENary o l') ns N.
  Proof.
    intros Ho H s L v Hc He.
    destruct (evalt_strict_ok F s o l L v Ho He) as (Ll & vs & Lk & El & Ek & ->).
    destruct (H s Ll vs Hc El) as (L1 & s' & L2 & X1 & X2 & X3 & X4).
    exists L1, s', (L2 ++ Lk). split; [exact X1|split; [exact X2|split]].
    - exact (evalt_strict_list F s' o l' L2 vs Lk v Ho X3 Ek).
    - rewrite app_assoc. now apply Permutation_app_tail.
  Qed.

  Lemma hoisted_not cond a a' ns N : hoisted cond a a' ns N -> hoisted cond (ENot a) (ENot a') ns N.
  Proof.
    intros H s L v Hc He. cbn [evalt] in He.
    destruct (evalt F s a) as [La [va|u]] eqn:Ea; cbn in He; [|discriminate].
    destruct (H s La va Hc Ea) as (L1 & s' & L2 & X1 & X2 & X3 & X4).
    exists L1, s', L2. split; [exact X1|split; [exact X2|split]].
    - cbn [evalt]. rewrite X3. cbn. inversion He; subst. reflexivity.
    - inversion He; subst. exact X4.
  Qed.

  Lemma hoisted_bin cond o a a' b b' ns N :
    hoisted_list cond [a; b] [a'; b'] ns N -> hoisted cond (EBin o a b) (EBin o a' b') ns N.
  Proof.
    intros H s L v Hc He. cbn [evalt] in He.
    destruct (evalt F s a) as [La [va|u]] eqn:Ea; [|discriminate].
    destruct (evalt F s b) as [Lb [vb|u]] eqn:Eb; cbn in He; [|discriminate].
    assert (El : evalt_list F s [a; b] = (La ++ Lb ++ [], Ok [va; vb])).
    { cbn [evalt_list]. rewrite Ea, Eb. reflexivity. }
    destruct (H s _ _ Hc El) as (L1 & s' & L2 & X1 & X2 & X3 & X4).
    cbn [evalt_list] in X3.
    destruct (evalt F s' a') as [La' [va'|u]] eqn:Ea'; [|discriminate].
    destruct (evalt F s' b') as [Lb' [vb'|u]] eqn:Eb'; cbn in X3; [|discriminate].
    inversion X3; subst. clear X3.
    exists L1, s', (La' ++ Lb'). split; [exact X1|split; [exact X2|split]].
    - cbn [evalt]. rewrite Ea', Eb'. cbn. inversion He; subst. reflexivity.
    - inversion He; subst. rewrite !app_nil_r in X4. exact X4.
  Qed.

  Lemma hoisted_if_head cond c c' t e ns N :
    hoisted cond c c' ns N -> (forall x, In x N -> ~ In x (vars t ++ vars e)) ->
    hoisted cond (EIf c t e) (EIf c' t e) ns N.
  Proof.
    intros H D s L v Hc He. cbn [evalt] in He.
    destruct (evalt F s c) as [Lc [vc|u]] eqn:Ec; cbn in He; [|discriminate].
    destruct (H s Lc vc Hc Ec) as (L1 & s' & L2 & X1 & X2 & X3 & X4).
    assert (Ht : evalt F s' t = evalt F s t).
    { apply evalt_frame. intros x Hx. apply X2. intros Hn. apply (D x Hn). apply in_app_iff. now left. }
    assert (Hf : evalt F s' e = evalt F s e).
    { apply evalt_frame. intros x Hx. apply X2. intros Hn. apply (D x Hn). apply in_app_iff. now right. }
    destruct (lift (truth vc)) as [[|]|u] eqn:Et; [| |discriminate].
    - destruct (evalt F s t) as [Lt vt] eqn:E2. inversion He; subst.
      exists L1, s', (L2 ++ Lt). split; [exact X1|split; [exact X2|split]].
      + cbn [evalt]. rewrite X3. cbn. rewrite Et, Ht. reflexivity.
      + rewrite app_assoc. now apply Permutation_app_tail.
    - destruct (evalt F s e) as [Lt vt] eqn:E2. inversion He; subst.
      exists L1, s', (L2 ++ Lt). split; [exact X1|split; [exact X2|split]].
      + cbn [evalt]. rewrite X3. cbn. rewrite Et, Hf. reflexivity.
      + rewrite app_assoc. now apply Permutation_app_tail.
  Qed.

  Lemma hoisted_and_head cond a a' l ns N :
    hoisted cond a a' ns N -> (forall x, In x N -> ~ In x (flat_map vars l)) ->
    hoisted cond (ENary NAnd (a :: l)) (ENary NAnd (a' :: l)) ns N.
  Proof.
    intros H D s L v Hc He. rewrite evalt_and_cons in He.
    destruct (evalt F s a) as [La [va|u]] eqn:Ea; cbn [rbind] in He; [|discriminate].
    destruct (H s La va Hc Ea) as (L1 & s' & L2 & X1 & X2 & X3 & X4).
    assert (Hr : evalt F s' (ENary NAnd l) = evalt F s (ENary NAnd l)).
    { apply evalt_frame. intros x Hx. apply X2. intros Hn. apply (D x Hn). exact Hx. }
    destruct (lift (truth va)) as [[|]|u] eqn:Et; [| |discriminate].
    - destruct (evalt F s (ENary NAnd l)) as [Lt vt] eqn:E2. inversion He; subst.
      exists L1, s', (L2 ++ Lt). split; [exact X1|split; [exact X2|split]].
      + rewrite evalt_and_cons, X3. cbn [rbind]. rewrite Et, Hr. reflexivity.
      + rewrite app_assoc. now apply Permutation_app_tail.
    - inversion He; subst.
      exists L1, s', L2. split; [exact X1|split; [exact X2|split]].
      + rewrite evalt_and_cons, X3. cbn [rbind]. rewrite Et. reflexivity.
      + exact X4.
  Qed.

  Lemma hoisted_or_head cond a a' l ns N :
    hoisted cond a a' ns N -> (forall x, In x N -> ~ In x (flat_map vars l)) ->
    hoisted cond (ENary NOr (a :: l)) (ENary NOr (a' :: l)) ns N.
  Proof.
    intros H D s L v Hc He. rewrite evalt_or_cons in He.
    destruct (evalt F s a) as [La [va|u]] eqn:Ea; cbn [rbind] in He; [|discriminate].
    destruct (H s La va Hc Ea) as (L1 & s' & L2 & X1 & X2 & X3 & X4).
    assert (Hr : evalt F s' (ENary NOr l) = evalt F s (ENary NOr l)).
    { apply evalt_frame. intros x Hx. apply X2. intros Hn. apply (D x Hn). exact Hx. }
    destruct (lift (truth va)) as [[|]|u] eqn:Et; [| |discriminate].
    - inversion He; subst.
      exists L1, s', L2. split; [exact X1|split; [exact X2|split]].
      + rewrite evalt_or_cons, X3. cbn [rbind]. rewrite Et. reflexivity.
      + exact X4.
    - destruct (evalt F s (ENary NOr l)) as [Lt vt] eqn:E2. inversion He; subst.
      exists L1, s', (L2 ++ Lt). split; [exact X1|split; [exact X2|split]].
      + rewrite evalt_or_cons, X3. cbn [rbind]. rewrite Et, Hr. reflexivity.
      + rewrite app_assoc. now apply Permutation_app_tail.
  Qed.
End Hoist.
