(* C19 -- assembling the round-trip theorem (token level) and the back-tick theorems. *)
From Coq Require Import List ZArith NArith String Ascii Bool Arith Lia ZifyBool.
Import ListNotations.
From Dagrt Require Import GenC19 Print Parse ParseRules RoundTrip RoundTrip2 RoundTrip3 RoundTrip4
     NormProofs NormProofs2 NormProofs3.
Open Scope list_scope.
Open Scope nat_scope.

Lemma wf_not_tuple e : wf_expr e = true -> is_tuple e = false.
Proof. destruct e; try reflexivity. discriminate. Qed.

(* the parser (without fuel worries) on the printed tokens of a normal-form expression *)
Theorem parse_toks_nf e :
  nf e = true -> is_tuple e = false -> parse_toks (print [] PR_NONE e) = Ok e.
Proof.
  intros Hnf Ht. apply parse_toks_intro.
  pose proof (body_all e Hnf Ht 0 [] (e, [])) as HB. unfold B in HB. rewrite app_nil_r in HB.
  apply HB.
  - pose proof (top_lvl_min e). cs. lia.
  - reflexivity.
  - apply LP_stop. reflexivity.
Qed.

(* parse (print e) = norm e for every printable e, on the token list with blanks *)
Theorem roundtrip_tokens e :
  printable e = true -> parse_tokens (print [TSp] PR_NONE e) = Ok (norm e).
Proof.
  unfold printable. intros H. apply andb_true_iff in H as [Hw Hd].
  unfold parse_tokens. rewrite strip_print, <- (print_norm [] PR_NONE e).
  rewrite parse_toks_nf.
  - cbn [bind]. rewrite unbt_nf; [reflexivity | apply nf_norm; assumption].
  - apply nf_norm; assumption.
  - rewrite norm_is_tuple. apply wf_not_tuple. exact Hw.
Qed.

Theorem roundtrip_partial :
  forall e, printable e = true ->
  exists e', parse_tokens (print [TSp] PR_NONE e) = Ok e'
             /\ (forall sp q, print sp q e' = print sp q e)
             /\ vars e' = vars e
             /\ forall rho Ffun Fsub Fquot Fnegpow,
                  eval rho Ffun Fsub Fquot Fnegpow e' = eval rho Ffun Fsub Fquot Fnegpow e.
Proof.
  intros e H. exists (norm e). split; [apply roundtrip_tokens; exact H|].
  split; [intros; apply print_norm|]. split; [apply vars_norm|]. intros. apply eval_norm.
Qed.

(* the parser does not run out of fuel on printed forms (part of the statement above, spelled
   out: the result is Ok, in particular not OutOfFuel) and the result is again printable *)
Theorem norm_printable_again e :
  printable e = true -> nf (norm e) = true.
Proof.
  unfold printable. intros H. apply andb_true_iff in H as [Hw Hd]. apply nf_norm; assumption.
Qed.

(* non-vacuity: a printable expression that exercises re-nesting, tags, negative constants,
   keyword arguments, tuple indices, forced parentheses *)
Definition ex1 : expr :=
  ENary NSum
    [EVar "a";
     ENary NSum [ENary NProd [EInt (-1); ENary NProd [EVar "<state>y"; EBin BQuot (EVar "b") (EInt 2)]];
                 EBin BPow (EVar "<dt>") (EBin BPow (EInt 2) (ENot (EVar "c")))];
     EIf (ENary NOr [EBin (BCmp CLt) (EBin (BCmp CLe) (EVar "a") (EVar "b")) (EInt 3);
                     ENary NOr [EVar "p"; ENary NAnd [EVar "q"; EBool true]]])
         (ECall (EVar "<func>f") [EVar "x"; ESub (EVar "arr") (ETuple [EVar "i"; EInt (-1)])]
                [("k", EIf (EVar "c") (EInt 1) (EInt 2))])
         (EInt (-4))].

Example ex1_printable : printable ex1 = true.
Proof. vm_compute. reflexivity. Qed.

Example ex1_text :
  print_string ex1
  = "a + (-1)*<state>y*(b / 2) + <dt>**2**(not c) + (<func>f(x, arr[i, -1], k=1 if c else 2) if a <= b < 3 or p or q and True else -4)"%string.
Proof. vm_compute. reflexivity. Qed.

Example ex1_renested : expr_eqb (norm ex1) ex1 = false.
Proof. vm_compute. reflexivity. Qed.

Example ex1_roundtrip : parse_string (print_string ex1) = Ok (norm ex1).
Proof. vm_compute. reflexivity. Qed.

(* ------------------------------------------------------------------ back-ticks *)

(* quoting every variable name of e *)
Fixpoint quote (e : expr) : expr :=
  match e with
  | EVar x => EVar (String "`" (x ++ "`"))
  | ENary o l => ENary o (map quote l)
  | EBin o a b => EBin o (quote a) (quote b)
  | ENot a => ENot (quote a)
  | EIf c t e => EIf (quote c) (quote t) (quote e)
  | ECall f args kw => ECall (quote f) (map quote args) (map (fun kv => (fst kv, quote (snd kv))) kw)
  | ESub a i => ESub (quote a) (quote i)
  | ETuple l => ETuple (map quote l)
  | _ => e
  end.

Lemma ends_bt_app x : ends_bt (x ++ "`") = true.
Proof.
  induction x as [|c x IH]; [reflexivity|].
  cbn [append ends_bt]. destruct (x ++ "`")%string eqn:E; [destruct x; discriminate|]. exact IH.
Qed.

Lemma substring_all x : substring 0 (String.length x) (x ++ "`") = x.
Proof.
  induction x as [|c x IH]; [reflexivity|]. cbn [String.length append substring]. rewrite IH. reflexivity.
Qed.

Lemma length_app_bt x : String.length (x ++ "`") = S (String.length x).
Proof. induction x as [|c x IH]; [reflexivity|]. cbn [append String.length]. rewrite IH. reflexivity. Qed.

Lemma strip_bt_quote x : strip_bt (String "`" (x ++ "`")) = x.
Proof.
  unfold strip_bt. cbn [starts_bt]. change (Ascii.eqb "`" "`") with true. cbn [andb].
  change (ends_bt (String "`" (x ++ "`"))) with
      (match (x ++ "`")%string with EmptyString => Ascii.eqb "`" "`" | _ => ends_bt (x ++ "`") end).
  destruct (x ++ "`")%string eqn:E; [destruct x; discriminate|]. rewrite <- E, ends_bt_app.
  cbn [String.length substring]. rewrite length_app_bt.
  replace (S (S (String.length x)) - 2) with (String.length x) by lia.
  apply substring_all.
Qed.

(* With the repaired remove_backticks (the mapper descends into subscripts) un-quoting undoes
   quoting everywhere; with the original one a name inside a subscript keeps its back-ticks. *)
Theorem unbt_quote_descend : forall e, unbt true (quote e) = e.
Proof.
  induction e using expr_ind'; cbn [quote unbt]; try reflexivity.
  - rewrite strip_bt_quote. reflexivity.
  - rewrite map_map. f_equal. apply map_id_F. exact H.
  - congruence.
  - congruence.
  - congruence.
  - rewrite !map_map, IHe. f_equal.
    + apply map_id_F. exact H.
    + rewrite <- (map_id kw) at 2. apply map_ext_F. eapply Forall_impl; [|exact H0].
      intros kv Hkv. cbn [fst snd]. rewrite Hkv. destruct kv; reflexivity.
  - congruence.
  - rewrite map_map. f_equal. apply map_id_F. exact H.
Qed.

Definition wit_bt : expr := ESub (EVar "a") (EVar "i").

Lemma unbt_quote_nodescend : unbt false (quote wit_bt) <> wit_bt.
Proof. vm_compute. discriminate. Qed.

Theorem backticks_in_context :
  unbt_descends_subscript = true -> forall e, unbt unbt_descends_subscript (quote e) = e.
Proof. intros ->. apply unbt_quote_descend. Qed.

Theorem backticks_in_context_refuted :
  unbt_descends_subscript = false -> exists e, unbt unbt_descends_subscript (quote e) <> e.
Proof. intros ->. exists wit_bt. apply unbt_quote_nodescend. Qed.
