(* C07 proofs, part 8: the statement-level functions of the three hoisting passes meet sspec
   under decidable side conditions on the leaf; the tree-level simulation for any
   statement-level function that meets sspec. *)
From Coq Require Import List ZArith NArith String Ascii Bool Arith Lia Permutation.
Import ListNotations.
From Dagrt Require Import Lang LangProofs Sched Transform TransformSem TransformSide TransformBasics TransformHoist
     TransformSpec TransformMappers TransformLeaf TransformStmt TransformSd.

Section Passes.
  Variable F : string -> list val -> list (string * val) -> option (list val).
  Variable dg : bool.
  Notation sspec := (sspec F dg).
  Notation cspec := (cspec F dg).

  Lemma base_leaf_inv s : base_leaf s = true -> has_call (tcond s) = false /\ loopfree (tkd s) = true.
  Proof.
    unfold base_leaf. intros H. apply andb_true_iff in H. destruct H as [H1 H2].
    apply negb_true_iff in H1. auto.
  Qed.

  Theorem ms_sd_ok lsr lbr sds ords s st l st' :
    sd_leaf s = true -> ms_sd lsr lbr sds ords s st = TOk (l, st') -> sspec s st l st'.
  Proof.
    unfold sd_leaf. intros H. apply andb_true_iff in H. destruct H as [Hb Hf].
    apply base_leaf_inv in Hb. destruct Hb as [Hc Hl].
    apply ms_sd_spec; auto. intros f Hin Hw. rewrite forallb_forall in Hf. specialize (Hf f Hin).
    apply negb_true_iff in Hf. apply smem_In in Hw. congruence.
  Qed.

  Theorem ms_fai_ok s st l st' : fai_leaf s = true -> ms_fai s st = TOk (l, st') -> sspec s st l st'.
  Proof.
    unfold fai_leaf. intros H. apply andb_true_iff in H. destruct H as [H Hk].
    apply andb_true_iff in H. destruct H as [Hb He].
    apply base_leaf_inv in Hb. destruct Hb as [Hc Hl].
    apply ms_generic_spec; [exact Hc|].
    assert (Hspec : forall e, In e (kexprs (tkd s)) -> cspec (tcond s) e (fai (tcond s) (tdeps s) e)).
    { intros e Hin. rewrite forallb_forall in He. specialize (He e Hin).
      apply andb_true_iff in He. destruct He as [He H3]. apply andb_true_iff in He. destruct He as [H1 H2].
      now apply fai_spec. }
    destruct (tkd s) as [x sub rhs loops|xs fn args kw|comp tid time e| | | |]; cbn [kind_ok_for]; auto.
    - destruct loops; [|discriminate]. cbn [kexprs] in Hspec. split.
      + destruct sub as [ie|]; [|exact Logic.I]. apply Hspec. cbn. auto.
      + apply Hspec. destruct sub; cbn; auto.
    - intros st0 r ns xs' st0' E. unfold call_expr in E.
      rewrite fai_call_sorted in E; [|exact Hk|rewrite app_length, !map_length; lia].
      apply bind_ret_inv in E. destruct E as (l' & E & ->). exists l'. split; [reflexivity|].
      eapply seqw_spec; [|exact E]. apply Forall2_map_r. apply Forall_forall. intros e Hin.
      apply iso_arg_spec. apply Hspec. exact Hin.
    - cbn [kexprs] in Hspec. split; apply Hspec; cbn; auto.
  Qed.

  Theorem ms_fci_ok fixed s st l st' :
    fci_leaf s = true -> ms_fci fixed s st = TOk (l, st') -> sspec s st l st'.
  Proof.
    unfold fci_leaf. intros H. apply andb_true_iff in H. destruct H as [Hb He].
    apply base_leaf_inv in Hb. destruct Hb as [Hc Hl].
    unfold ms_fci. destruct (tkd s) as [x sub rhs loops|xs fn args kw|comp tid time e| | | |] eqn:Ek;
      try (unfold ret; intros E; inversion E; subst; apply sspec_id; now rewrite Ek).
    apply ms_generic_spec; [exact Hc|]. rewrite Ek.
    assert (Hspec : forall e, In e (kexprs (KAssign x sub rhs loops)) ->
                              cspec (tcond s) e (fci fixed (tcond s) (tdeps s) e)).
    { intros e Hin. rewrite forallb_forall in He. specialize (He e Hin).
      apply andb_true_iff in He. destruct He as [H1 H2]. now apply fci_spec. }
    cbn [kind_ok_for]. destruct loops; [|discriminate]. cbn [kexprs] in Hspec. split.
    + destruct sub as [ie|]; [|exact Logic.I]. apply Hspec. cbn. auto.
    + apply Hspec. destruct sub; cbn; auto.
  Qed.

  Theorem ms_ite_ok s st l st' : ite_leaf s = true -> ms_ite true s st = TOk (l, st') -> sspec s st l st'.
  Proof.
    unfold ite_leaf. intros H. apply andb_true_iff in H. destruct H as [Hb He].
    apply base_leaf_inv in Hb. destruct Hb as [Hc Hl].
    apply (ms_generic_spec F dg (fun c d e => ite true e c d)); [exact Hc|].
    assert (Hspec : forall e, In e (kexprs (tkd s)) -> cspec (tcond s) e (ite true e (tcond s) (tdeps s))).
    { intros e Hin. rewrite forallb_forall in He. specialize (He e Hin). now apply ite_spec. }
    destruct (tkd s) as [x sub rhs loops|xs fn args kw|comp tid time e| | | |]; cbn [kind_ok_for]; auto.
    - destruct loops; [|discriminate]. cbn [kexprs] in Hspec. split.
      + destruct sub as [ie|]; [|exact Logic.I]. apply Hspec. cbn. auto.
      + apply Hspec. destruct sub; cbn; auto.
    - intros st0 r ns xs' st0' E. unfold call_expr in E. rewrite ite_nary in E.
      apply bind_ret_inv in E. destruct E as (l' & E & ->). exists l'. split; [reflexivity|].
      eapply seqw_spec; [|exact E].
      apply (Forall2_map_r (cspec (tcond s)) (fun a => ite true a (tcond s) (tdeps s))).
      apply Forall_forall. intros e Hin. apply Hspec. exact Hin.
    - cbn [kexprs] in Hspec. split; apply Hspec; cbn; auto.
  Qed.
End Passes.

(* ------------------------------------------------------------------------------------ *)
(* trees                                                                                  *)

Section tree_ind'.
  Variable P : tree -> Prop.
  Hypothesis HLeaf : forall s, P (TLeaf s).
  Hypothesis HNull : P TNull.
  Hypothesis HBlock : forall l, Forall P l -> P (TBlock l).
  Hypothesis HIf : forall c t, P t -> P (TIf c t).
  Hypothesis HIfElse : forall c t e, P t -> P e -> P (TIfElse c t e).
  Hypothesis HFor : forall x lo hi b, P b -> P (TFor x lo hi b).
  Fixpoint tree_ind' (t : tree) : P t :=
    match t with
    | TLeaf s => HLeaf s
    | TNull => HNull
    | TBlock l => HBlock l ((fix go (l : list tree) : Forall P l :=
                               match l with
                               | [] => Forall_nil P
                               | x :: r => Forall_cons x (tree_ind' x) (go r)
                               end) l)
    | TIf c t => HIf c t (tree_ind' t)
    | TIfElse c t e => HIfElse c t e (tree_ind' t) (tree_ind' e)
    | TFor x lo hi b => HFor x lo hi b (tree_ind' b)
    end.
End tree_ind'.

Section Tree.
  Variable F : string -> list val -> list (string * val) -> option (list val).
  Variable dg : bool.
  Notation run_tree := (run_tree F dg).
  Notation run_block := (fold_left (fun S x => run_tree x S)).

  Lemma run_tree_stopped t S : (forall a e l, S <> TRun a e l) -> run_tree t S = S.
  Proof.
    intros H. destruct S as [a e l|a e l w|u]; [exfalso; eapply H; reflexivity| |]; destruct t; reflexivity.
  Qed.

  Lemma run_block_stopped l S : (forall a e lg, S <> TRun a e lg) -> run_block l S = S.
  Proof.
    intros H. induction l as [|x l IH]; [reflexivity|]. cbn [fold_left]. now rewrite run_tree_stopped.
  Qed.

  Lemma run_tree_block l S : run_tree (TBlock l) S = run_block l S.
  Proof.
    destruct S as [a e lg|a e lg w|u]; [reflexivity| |];
      (rewrite run_block_stopped; [reflexivity|intros; discriminate]).
  Qed.

  (* one statement executed from related states *)
  Lemma step_frame G s S S' :
    loopfree (tkd s) = true -> (forall x, In x (svars s) -> ~ In x G) ->
    srel G S S' -> srel G (step_t F dg s S) (step_t F dg s S').
  Proof.
    intros Hl Hv H. destruct S as [a e lg|a e lg w|u]; [| |exact Logic.I].
    - destruct S' as [b e' lg'|?|?]; cbn in H; try contradiction. destruct H as (Hab & -> & Hp).
      cbn [step_t]. destruct (exec_frame F dg G a b s Hab Hl Hv) as [E1 E2].
      destruct (exec_t F dg a s) as [la oa], (exec_t F dg b s) as [lb ob]. cbn [fst snd] in E1, E2. subst lb.
      destruct oa, ob; cbn in E2; try contradiction; cbn; auto.
      + destruct E2 as [A ->]. split; [exact A|split; [reflexivity|now apply Permutation_app_tail]].
      + split; [exact Hab|split; [reflexivity|split; [now apply Permutation_app_tail|reflexivity]]].
      + subst. split; [exact Hab|split; [reflexivity|split; [now apply Permutation_app_tail|reflexivity]]].
      + subst. split; [exact Hab|split; [reflexivity|split; [now apply Permutation_app_tail|reflexivity]]].
    - destruct S' as [?|b e' lg' w'|?]; cbn in H; try contradiction. exact H.
  Qed.

  (* the tree-level simulation, for a statement-level function that meets sspec on the leaves *)
  Variable ms : tstmt -> M (list tstmt).
  Variable okl : tstmt -> bool.
  Hypothesis Hms : forall s st l st', okl s = true -> ms s st = TOk (l, st') -> sspec F dg s st l st'.
  Hypothesis Hlf : forall s, okl s = true -> loopfree (tkd s) = true.

  Definition tsim (G : list var) (t t' : tree) : Prop :=
    forall S S', srel G S S' -> srel G (run_tree t S) (run_tree t' S').

  Definition idsplus (t t' : tree) (I : list string) : Prop :=
    forall x, count_occ string_dec (map tid (tstmts t')) x =
              (count_occ string_dec (map tid (tstmts t)) x + count_occ string_dec I x)%nat.

  Lemma bind_inv {A B} (m : M A) (f : A -> M B) st b st' :
    bind m f st = TOk (b, st') -> exists a st1, m st = TOk (a, st1) /\ f a st1 = TOk (b, st').
  Proof. unfold bind. destruct (m st) as [[a st1]|e]; [|discriminate]. eauto. Qed.

  Lemma cond_frame_srel G c a b :
    same_off G a b -> (forall x, In x (vars c) -> ~ In x G) -> cond_t F a c = cond_t F b c.
  Proof. intros H Hv. apply cond_t_frame. intros x Hx. apply (same_off_sym_eq G); auto. Qed.

  Lemma bounds_frame_srel G lo hi a b :
    same_off G a b -> (forall x, In x (vars lo ++ vars hi) -> ~ In x G) -> bounds_t F a lo hi = bounds_t F b lo hi.
  Proof. intros H Hv. apply bounds_t_frame. intros x Hx. apply (same_off_sym_eq G); auto. Qed.

  Lemma iter_sim G x b b' n : forall i S S',
    tsim G b b' -> srel G S S' -> srel G (iter_t n i x (run_tree b) S) (iter_t n i x (run_tree b') S').
  Proof.
    induction n as [|n IH]; intros i S S' Hb HS; [exact HS|]. cbn [iter_t].
    destruct S as [a e lg|a e lg w|u]; [| |exact Logic.I].
    - destruct S' as [c e' lg'|?|?]; cbn in HS; try contradiction. destruct HS as (A & -> & P).
      apply IH; [exact Hb|]. apply Hb. cbn. split; [now apply same_off_upd|auto].
    - destruct S' as [?|c e' lg' w'|?]; cbn in HS; try contradiction. exact HS.
  Qed.

  Theorem rewrite_sim G t :
    forallb okl (tstmts t) = true ->
    forall st t' st', rewrite_tree ms t st = TOk (t', st') ->
    exists N I,
      ext st st' N I /\ idsplus t t' I /\
      (incl (tvars t) (ex (gvars st)) -> incl N G -> (forall x, In x (tvars t) -> ~ In x G) -> tsim G t t').
  Proof.
    induction t as [s| |l IH|c t IHt|c t e IHt IHe|x lo hi b IHb] using tree_ind'; intros Hok st t' st' E.
    - (* a statement *)
      cbn [rewrite_tree] in E. apply bind_inv in E. destruct E as (l & st1 & E1 & E2).
      cbn [tstmts forallb] in Hok. rewrite andb_true_r in Hok.
      destruct (Hms _ _ _ _ Hok E1) as (N & I & ns & s' & -> & X & Hid & Hc & Hw & M & D & V & Lf & Hsim).
      assert (Et : st' = st1 /\ (t' = TLeaf s' /\ ns = [] \/ t' = TBlock (map TLeaf (ns ++ [s'])))).
      { destruct ns as [|n ns]; cbn [app] in E2.
        - unfold ret in E2. inversion E2; subst. auto.
        - destruct (ns ++ [s']) eqn:En; [destruct ns; discriminate|].
          unfold ret in E2. inversion E2; subst. split; [reflexivity|]. right. cbn [app]. now rewrite En. }
      destruct Et as [-> Ht'].
      assert (Hst : tstmts t' = ns ++ [s']).
      { destruct Ht' as [[-> ->]| ->]; [reflexivity|]. cbn [tstmts].
        generalize (ns ++ [s']). intros r. induction r as [|y r IHr]; [reflexivity|].
        cbn [map flat_map tstmts app]. now rewrite IHr. }
      assert (Hrun : forall S, run_tree t' S = run_block (map TLeaf (ns ++ [s'])) S).
      { intros S. destruct Ht' as [[-> ->]| ->]; [reflexivity|apply run_tree_block]. }
      exists N, I. split; [exact X|split].
      + intros y. rewrite Hst, map_app, count_occ_app, D. cbn [tstmts map tid count_occ]. rewrite Hid.
        destruct (string_dec (tid s) y); lia.
      + intros Hv HN Hd S S' HS. cbn [tvars] in Hv, Hd.
        destruct S as [a e lg|a e lg w|u]; [| |exact Logic.I].
        * destruct S' as [b e' lg'|?|?]; cbn in HS; try contradiction.
          rewrite Hrun. cbn [TransformSem.run_tree].
          eapply srel_trans.
          -- apply (step_frame G s (TRun a e lg) (TRun b e' lg')); [now apply Hlf|exact Hd|exact HS].
          -- eapply srel_incl; [exact HN|]. apply Hsim. exact Hv.
        * destruct S' as [?|? ? ? ?|?]; cbn in HS; try contradiction.
          rewrite !run_tree_stopped by (intros; discriminate). exact HS.
    - (* NullASTNode *)
      unfold rewrite_tree, ret in E. inversion E; subst.
      exists [], []. split; [apply ext_refl|split; [intros y; cbn; lia|]].
      intros _ _ _ S S' HS. destruct S, S'; exact HS.
    - (* Block *)
      cbn [rewrite_tree] in E. apply bind_inv in E. destruct E as (l' & st1 & E1 & E2).
      unfold ret in E2. inversion E2; subst t' st1. clear E2.
      cbn [tstmts] in Hok.
      assert (Hgen : exists N I, ext st st' N I /\
                (forall y, count_occ string_dec (map tid (flat_map tstmts l')) y =
                           (count_occ string_dec (map tid (flat_map tstmts l)) y + count_occ string_dec I y)%nat) /\
                (incl (flat_map tvars l) (ex (gvars st)) -> incl N G ->
                 (forall x, In x (flat_map tvars l) -> ~ In x G) ->
                 forall S S', srel G S S' -> srel G (run_block l S) (run_block l' S'))).
      { revert st l' st' E1 Hok. induction IH as [|t l Ht _ IHl]; intros st l' st' E1 Hok.
        - unfold ret in E1. inversion E1; subst. exists [], []. split; [apply ext_refl|split; [intros y; cbn; lia|]].
          intros _ _ _ S S' HS. exact HS.
        - apply bind_inv in E1. destruct E1 as (t1 & st1 & Et & E1). apply bind_inv in E1.
          destruct E1 as (r' & st2 & Er & E1). unfold ret in E1. inversion E1; subst l' st2. clear E1.
          cbn [flat_map] in Hok. rewrite forallb_app in Hok. apply andb_true_iff in Hok. destruct Hok as [Hok1 Hok2].
          destruct (Ht Hok1 _ _ _ Et) as (N1 & I1 & X1 & C1 & S1).
          destruct (IHl _ _ _ Er Hok2) as (N2 & I2 & X2 & C2 & S2).
          exists (N2 ++ N1), (I2 ++ I1). split; [eapply ext_trans; eauto|split].
          + intros y. cbn [flat_map]. rewrite !map_app, !count_occ_app, C1, C2. lia.
          + intros Hv HN Hd S S' HS. cbn [flat_map fold_left] in *.
            apply S2.
            * eapply ext_vars_incl; [exact X1|]. intros z Hz. apply Hv, in_app_iff. now right.
            * intros z Hz. apply HN, in_app_iff. now left.
            * intros z Hz. apply Hd, in_app_iff. now right.
            * apply S1; [|intros z Hz; apply HN, in_app_iff; now right| |exact HS].
              -- intros z Hz. apply Hv, in_app_iff. now left.
              -- intros z Hz. apply Hd, in_app_iff. now left. }
      destruct Hgen as (N & I & X & C & Hs). exists N, I. split; [exact X|split; [exact C|]].
      intros Hv HN Hd S S' HS. rewrite !run_tree_block. now apply Hs.
    - (* IfThen *)
      cbn [rewrite_tree] in E. apply bind_inv in E. destruct E as (t1 & st1 & E1 & E2).
      unfold ret in E2. inversion E2; subst t' st1. clear E2.
      destruct (IHt Hok _ _ _ E1) as (N & I & X & C & Hs). exists N, I. split; [exact X|split; [exact C|]].
      intros Hv HN Hd S S' HS. cbn [tvars] in Hv, Hd.
      destruct S as [a ev lg|a ev lg w|u]; [| |exact Logic.I].
      + destruct S' as [b ev' lg'|?|?]; cbn in HS; try contradiction. destruct HS as (A & -> & P).
        cbn [TransformSem.run_tree].
        rewrite <- (cond_frame_srel G c a b A) by (intros z Hz; apply Hd, in_app_iff; now left).
        destruct (cond_t F a c) as [r [[|]|u]]; [| |exact Logic.I].
        * apply Hs; [intros z Hz; apply Hv, in_app_iff; now right|exact HN|
                     intros z Hz; apply Hd, in_app_iff; now right|].
          cbn. split; [exact A|split; [reflexivity|now apply Permutation_app_tail]].
        * cbn. split; [exact A|split; [reflexivity|now apply Permutation_app_tail]].
      + destruct S' as [?|? ? ? ?|?]; cbn in HS; try contradiction.
          rewrite !run_tree_stopped by (intros; discriminate). exact HS.
    - (* IfThenElse *)
      cbn [rewrite_tree] in E. apply bind_inv in E. destruct E as (t1 & st1 & E1 & E2).
      apply bind_inv in E2. destruct E2 as (e1 & st2 & E2 & E3).
      unfold ret in E3. inversion E3; subst t' st2. clear E3.
      cbn [tstmts] in Hok. rewrite forallb_app in Hok. apply andb_true_iff in Hok. destruct Hok as [Hok1 Hok2].
      destruct (IHt Hok1 _ _ _ E1) as (N1 & I1 & X1 & C1 & S1).
      destruct (IHe Hok2 _ _ _ E2) as (N2 & I2 & X2 & C2 & S2).
      exists (N2 ++ N1), (I2 ++ I1). split; [eapply ext_trans; eauto|split].
      + intros y. cbn [tstmts]. rewrite !map_app, !count_occ_app, C1, C2. lia.
      + intros Hv HN Hd S S' HS. cbn [tvars] in Hv, Hd.
        destruct S as [a ev lg|a ev lg w|u]; [| |exact Logic.I].
        * destruct S' as [b ev' lg'|?|?]; cbn in HS; try contradiction. destruct HS as (A & -> & P).
          cbn [TransformSem.run_tree].
          rewrite <- (cond_frame_srel G c a b A) by (intros z Hz; apply Hd, in_app_iff; now left).
          destruct (cond_t F a c) as [r [[|]|u]]; [| |exact Logic.I].
          -- apply S1; [intros z Hz; apply Hv; rewrite !in_app_iff; tauto|
                        intros z Hz; apply HN, in_app_iff; now right|
                        intros z Hz; apply Hd; rewrite !in_app_iff; tauto|].
             cbn. split; [exact A|split; [reflexivity|now apply Permutation_app_tail]].
          -- apply S2; [eapply ext_vars_incl; [exact X1|]; intros z Hz; apply Hv; rewrite !in_app_iff; tauto|
                        intros z Hz; apply HN, in_app_iff; now left|
                        intros z Hz; apply Hd; rewrite !in_app_iff; tauto|].
             cbn. split; [exact A|split; [reflexivity|now apply Permutation_app_tail]].
        * destruct S' as [?|? ? ? ?|?]; cbn in HS; try contradiction.
          rewrite !run_tree_stopped by (intros; discriminate). exact HS.
    - (* ForLoop *)
      cbn [rewrite_tree] in E. apply bind_inv in E. destruct E as (b1 & st1 & E1 & E2).
      unfold ret in E2. inversion E2; subst t' st1. clear E2.
      destruct (IHb Hok _ _ _ E1) as (N & I & X & C & Hs). exists N, I. split; [exact X|split; [exact C|]].
      intros Hv HN Hd S S' HS. cbn [tvars] in Hv, Hd.
      destruct S as [a ev lg|a ev lg w|u]; [| |exact Logic.I].
      + destruct S' as [c ev' lg'|?|?]; cbn in HS; try contradiction. destruct HS as (A & -> & P).
        cbn [TransformSem.run_tree].
        rewrite <- (bounds_frame_srel G lo hi a c A) by (intros z Hz; apply Hd; right; rewrite !in_app_iff in *; tauto).
        destruct (bounds_t F a lo hi) as [l1 [[z1 z2]|u]]; [|exact Logic.I].
        apply iter_sim.
        * apply Hs; [intros z Hz; apply Hv; right; rewrite !in_app_iff; tauto|exact HN|
                     intros z Hz; apply Hd; right; rewrite !in_app_iff; tauto].
        * cbn. split; [exact A|split; [reflexivity|now apply Permutation_app_tail]].
      + destruct S' as [?|? ? ? ?|?]; cbn in HS; try contradiction.
          rewrite !run_tree_stopped by (intros; discriminate). exact HS.
  Qed.
End Tree.
