(* C17, part 3: pymbolic's flatten and substitution preserve values, so the
   soundness of match() can be stated for the template and target as given
   (before flattening).  flatten's "light-duty simplifications" 0/b -> 0,
   a/1 -> a, a**1 -> a are sound for every interpretation of quotient and power
   that satisfies exactly these three laws. *)
From Coq Require Import ZArith String List Bool Arith Permutation Lia.
Import ListNotations.
From Dagrt Require Import Match MatchACProofs MatchProofs.

Lemma is_int_eq z e : is_int z e = true -> e = EInt z.
Proof. destruct e; cbn [is_int]; try discriminate. intros H. apply Z.eqb_eq in H. now subst. Qed.

Section FlatSem.
  Variable Q P : Z -> Z -> Z.
  Hypothesis HQ0 : forall b, Q 0%Z b = 0%Z.
  Hypothesis HQ1 : forall a, Q a 1%Z = a.
  Hypothesis HP1 : forall a, P a 1%Z = a.

  Lemma flatten_sem rho F e :
    call_fn_is_symbol e = true -> eval rho F Q P (flatten e) = eval rho F Q P e.
  Proof.
    induction e as [x|z|op cs IH|a b IHa IHb|a b IHa IHb|f args kw IHf IHa IHk] using expr_ind';
      intros H; cbn [flatten]; try reflexivity.
    - cbn [call_fn_is_symbol] in H. rewrite (AC1_sem rho F Q P _ _ (mk_ac_equiv op (map flatten cs))).
      cbn [eval]. f_equal. rewrite map_map. apply map_ext_in. intros c Hc.
      rewrite forallb_forall in H. rewrite Forall_forall in IH. apply IH; auto.
    - cbn [call_fn_is_symbol] in H. apply andb_true_iff in H. destruct H as [Ha Hb].
      specialize (IHa Ha). specialize (IHb Hb).
      destruct (is_int 0 (flatten a)) eqn:E0.
      + apply is_int_eq in E0. rewrite E0 in IHa. cbn [eval] in *. rewrite <- IHa. now rewrite HQ0.
      + destruct (is_int 1 (flatten b)) eqn:E1.
        * apply is_int_eq in E1. rewrite E1 in IHb. cbn [eval] in *. rewrite <- IHb, HQ1. exact IHa.
        * cbn [eval]. now rewrite IHa, IHb.
    - cbn [call_fn_is_symbol] in H. apply andb_true_iff in H. destruct H as [Ha Hb].
      specialize (IHa Ha). specialize (IHb Hb).
      destruct (is_int 1 (flatten b)) eqn:E1.
      + apply is_int_eq in E1. rewrite E1 in IHb. cbn [eval] in *. rewrite <- IHb, HP1. exact IHa.
      + cbn [eval]. now rewrite IHa, IHb.
    - cbn [call_fn_is_symbol] in H.
      apply andb_true_iff in H. destruct H as [H Hk]. apply andb_true_iff in H. destruct H as [Hf Ha].
      destruct f as [x| | | | |]; try discriminate. cbn [flatten eval canon]. f_equal.
      + rewrite map_map. apply map_ext_in. intros c Hc.
        rewrite forallb_forall in Ha. rewrite Forall_forall in IHa. apply IHa; auto.
      + f_equal. change (kwmap (eval rho F Q P) (kwmap flatten kw) = kwmap (eval rho F Q P) kw).
        rewrite kwmap_kwmap. apply kwmap_ext_in.
        rewrite forallb_forall in Hk. rewrite Forall_forall in *. intros kv Hkv. apply IHk; auto.
  Qed.

  (* substitution = change of valuation and of the interpretation of function symbols *)
  Definition rho_subst rho F (s : string -> option expr) : string -> Z :=
    fun x => match s x with Some v => eval rho F Q P v | None => rho x end.
  Definition F_subst (F : expr -> list Z -> list (string * Z) -> Z) (s : string -> option expr) :=
    fun g => F (canon (subst s g)).

  Lemma subst_sem rho F s e :
    call_fn_is_symbol e = true ->
    eval rho F Q P (subst s e) = eval (rho_subst rho F s) (F_subst F s) Q P e.
  Proof.
    induction e as [x|z|op cs IH|a b IHa IHb|a b IHa IHb|f args kw IHf IHa IHk] using expr_ind';
      intros H; cbn [subst]; try reflexivity.
    - cbn [eval]. unfold rho_subst. destruct (s x); reflexivity.
    - cbn [call_fn_is_symbol] in H. cbn [eval]. f_equal. rewrite map_map. apply map_ext_in. intros c Hc.
      rewrite forallb_forall in H. rewrite Forall_forall in IH. apply IH; auto.
    - cbn [call_fn_is_symbol] in H. apply andb_true_iff in H. destruct H as [Ha Hb].
      cbn [eval]. now rewrite IHa, IHb.
    - cbn [call_fn_is_symbol] in H. apply andb_true_iff in H. destruct H as [Ha Hb].
      cbn [eval]. now rewrite IHa, IHb.
    - cbn [call_fn_is_symbol] in H.
      apply andb_true_iff in H. destruct H as [H Hk]. apply andb_true_iff in H. destruct H as [Hf Ha].
      destruct f as [x| | | | |]; try discriminate.
      change (eval rho F Q P (ECall (subst s (EVar x)) (map (subst s) args) (kwmap (subst s) kw)) =
              eval (rho_subst rho F s) (F_subst F s) Q P (ECall (EVar x) args kw)).
      cbn [eval canon]. unfold F_subst at 1. f_equal.
      + rewrite map_map. apply map_ext_in. intros c Hc.
        rewrite forallb_forall in Ha. rewrite Forall_forall in IHa. apply IHa; auto.
      + f_equal.
        change (kwmap (eval rho F Q P) (kwmap (subst s) kw)
                = kwmap (eval (rho_subst rho F s) (F_subst F s) Q P) kw).
        rewrite kwmap_kwmap. apply kwmap_ext_in.
        rewrite forallb_forall in Hk. rewrite Forall_forall in *. intros kv Hkv. apply IHk; auto.
  Qed.

  (* the match is genuine for the template and target as given *)
  Theorem match_genuine_unflattened swap idel free_opt bound pre tpl tgt sigma amb :
    (forall op, idel op = pym_ident op) ->
    call_fn_is_symbol tpl = true -> call_fn_is_symbol tgt = true ->
    NoDup (map fst (pre_list pre)) ->
    match_model swap idel free_opt bound pre tpl tgt = MOk sigma amb ->
    forall rho F, eval rho F Q P (subst (sigma_of sigma) tpl) = eval rho F Q P tgt.
  Proof.
    intros Hid Ht Hg Hnd H rho F.
    rewrite (subst_sem rho F _ tpl Ht).
    rewrite <- (flatten_sem _ _ tpl Ht).
    rewrite <- (subst_sem rho F _ (flatten tpl) (fn_symbol_flatten _ Ht)).
    rewrite (match_genuine _ _ _ _ _ _ _ _ _ Hid Ht Hnd H rho F Q P).
    now apply flatten_sem.
  Qed.
End FlatSem.

(* the three laws are satisfiable: floor division and Z.pow *)
Example flat_laws_sat :
  (forall b, Z.div 0 b = 0%Z) /\ (forall a, Z.div a 1 = a) /\ (forall a, Z.pow a 1 = a).
Proof. split; [intros b; apply Zdiv_0_l|split; [apply Z.div_1_r|apply Z.pow_1_r]]. Qed.
