(* C07 proofs, part 4: the three expression mappers satisfy wspec. *)
From Coq Require Import List ZArith NArith String Ascii Bool Arith Lia Permutation.
Import ListNotations.
From Dagrt Require Import Lang LangProofs Sched Transform TransformSem TransformSide TransformBasics TransformHoist
     TransformSpec.

(* ------------------------------------------------------------------------------------ *)
(* lists                                                                                  *)

Lemma split_at_spec {A} n (l a b : list A) :
  split_at n l = (a, b) -> l = a ++ b /\ List.length a = Nat.min n (List.length l).
Proof.
  revert l a b. induction n as [|n IH]; intros l a b H.
  - destruct l; cbn in H; inversion H; subst; auto.
  - destruct l as [|x r]; cbn in H.
    + inversion H; subst. auto.
    + destruct (split_at n r) as [a' b'] eqn:E. inversion H; subst.
      destruct (IH _ _ _ E) as [-> Hl]. cbn. split; [reflexivity|now rewrite Hl].
Qed.

Lemma kw_sort_sorted {A} (kw : list string) (vs : list A) :
  sorted_keys kw = true -> List.length vs = List.length kw ->
  kw_sort (combine kw vs) = combine kw vs.
Proof.
  revert vs. induction kw as [|k kw IH]; intros vs Hs Hl; [reflexivity|].
  destruct vs as [|v vs]; [discriminate|]. cbn [combine kw_sort fold_right].
  change (fold_right kw_insert [] (combine kw vs)) with (kw_sort (combine kw vs)).
  assert (Hs' : sorted_keys kw = true).
  { destruct kw as [|k2 kw]; [reflexivity|]. cbn [sorted_keys] in Hs. apply andb_true_iff in Hs. tauto. }
  rewrite IH; [|exact Hs'|cbn in Hl; lia].
  destruct kw as [|k2 kw]; [reflexivity|]. destruct vs as [|v2 vs]; [discriminate|].
  cbn [combine kw_insert fst]. cbn [sorted_keys] in Hs. apply andb_true_iff in Hs. destruct Hs as [Hle _].
  now rewrite Hle.
Qed.

Lemma combine_fst {A B} (a : list A) (b : list B) : List.length a = List.length b -> map fst (combine a b) = a.
Proof.
  revert b. induction a as [|x a IH]; intros [|y b] H; try discriminate; [reflexivity|].
  cbn. f_equal. apply IH. cbn in H. lia.
Qed.

Lemma combine_snd {A B} (a : list A) (b : list B) : List.length a = List.length b -> map snd (combine a b) = b.
Proof.
  revert b. induction a as [|x a IH]; intros [|y b] H; try discriminate; [reflexivity|].
  cbn. f_equal. apply IH. cbn in H. lia.
Qed.

Section Mappers.
  Variable F : string -> list val -> list (string * val) -> option (list val).
  Variable dg : bool.

  Notation cspec := (cspec F dg).
  Notation wspec := (wspec F dg).

  (* ---- monad laws (pointwise) ---- *)
  Lemma bindw_ext {A B} (m : MW A) (f f' : A -> MW B) :
    (forall a st, f a st = f' a st) -> forall st, bindw m f st = bindw m f' st.
  Proof.
    intros H st. unfold bindw. destruct (m st) as [[[[a ns] xs] st1]|e]; [|reflexivity]. now rewrite H.
  Qed.

  Lemma bindw_assoc {A B C} (m : MW A) (f : A -> MW B) (g : B -> MW C) st :
    bindw (bindw m f) g st = bindw m (fun a => bindw (f a) g) st.
  Proof.
    unfold bindw. destruct (m st) as [[[[a ns] xs] st1]|e]; [|reflexivity].
    destruct (f a st1) as [[[[b ns2] xs2] st2]|e]; [|reflexivity].
    destruct (g b st2) as [[[[c ns3] xs3] st3]|e]; [|reflexivity].
    now rewrite !app_assoc.
  Qed.

  Lemma bindw_retw_l {A B} (a : A) (f : A -> MW B) st : bindw (retw a) f st = f a st.
  Proof. unfold bindw, retw. destruct (f a st) as [[[[b ns] xs] s]|e]; reflexivity. Qed.

  Lemma seqw_app_eq {A B} (p k : list (MW A)) (g : list A -> MW B) st :
    bindw (seqw p) (fun p' => bindw (seqw k) (fun k' => g (p' ++ k'))) st = bindw (seqw (p ++ k)) g st.
  Proof.
    revert g st. induction p as [|m p IH]; intros g st.
    - cbn [seqw app]. rewrite bindw_retw_l. reflexivity.
    - cbn [seqw app]. rewrite !bindw_assoc. apply bindw_ext. intros a st1.
      rewrite !bindw_assoc.
      transitivity (bindw (seqw p) (fun r' => bindw (seqw k) (fun k' => g ((a :: r') ++ k'))) st1).
      { apply bindw_ext. intros r' st2.
        exact (bindw_retw_l (a :: r') (fun p' => bindw (seqw k) (fun k' => g (p' ++ k'))) st2). }
      transitivity (bindw (seqw (p ++ k)) (fun l => g (a :: l)) st1).
      { apply (IH (fun l => g (a :: l))). }
      symmetry. apply bindw_ext. intros r' st2. exact (bindw_retw_l (a :: r') g st2).
  Qed.

  (* executing `name <- a'` guarded by g *)
  Lemma exec_assign s g name id deps a' L v :
    cond_t F s g = ([], Ok true) -> evalt F s a' = (L, Ok v) ->
    exec_t F dg s (mkT id deps g (KAssign name None a' [])) = (L, ONext (upd s name v) None).
  Proof.
    intros Hg He. unfold exec_t. cbn [tcond tkd]. rewrite Hg. cbn [exec_kind_t]. unfold assign_once_t.
    rewrite He. reflexivity.
  Qed.

  Lemma upd_same s x v : upd s x v x = Some v.
  Proof. unfold upd. now rewrite String.eqb_refl. Qed.

  Lemma upd_other s x v y : y <> x -> upd s x v y = s y.
  Proof. unfold upd. intros H. destruct (String.eqb y x) eqn:E; [|reflexivity]. apply String.eqb_eq in E. contradiction. Qed.

  Lemma evalt_var s x : evalt F s (EVar x) = ([], Ok (getv s x)).
  Proof. reflexivity. Qed.

  (* hoisting the value of a' into a fresh variable *)
  Lemma hoisted_assign cond a a' ns N name id deps :
    hoisted F dg cond a a' ns N ->
    (forall x, In x N -> ~ In x (vars cond)) ->
    hoisted F dg cond a (EVar name) (ns ++ [mkT id deps cond (KAssign name None a' [])]) (N ++ [name]).
  Proof.
    intros H Dc s L v Hc He.
    destruct (H s L v Hc He) as (L1 & s1 & L2 & X1 & X2 & X3 & X4).
    assert (Hc1 : cond_t F s1 cond = ([], Ok true)).
    { rewrite <- Hc. apply cond_t_frame. intros x Hx. apply X2. intros Hn. now apply (Dc x Hn). }
    exists (L1 ++ L2), (upd s1 name v), []. split; [|split; [|split]].
    - eapply exec_list_app; [exact X1|]. cbn [exec_list]. rewrite (exec_assign _ _ _ _ _ _ _ _ Hc1 X3).
      now rewrite app_nil_r.
    - intros x Hx. rewrite in_app_iff in Hx. rewrite upd_other.
      + apply X2. tauto.
      + intros ->. apply Hx. right. now left.
    - rewrite evalt_var. unfold getv. now rewrite upd_same.
    - now rewrite app_nil_r.
  Qed.

  (* ---------------------------------------------------------------------------------- *)
  (* isolate_function_arguments                                                          *)

  Section Fai.
    Variable cond : expr.
    Variable bdeps : list string.

    Lemma fai_not a : fai cond bdeps (ENot a) = bindw (fai cond bdeps a) (fun a' => retw (ENot a')).
    Proof. reflexivity. Qed.
    Lemma fai_if c t f :
      fai cond bdeps (EIf c t f) =
      bindw (fai cond bdeps c) (fun c' => bindw (fai cond bdeps t) (fun t' =>
        bindw (fai cond bdeps f) (fun f' => retw (EIf c' t' f')))).
    Proof. reflexivity. Qed.
    Lemma fai_bin o a b :
      fai cond bdeps (EBin o a b) =
      bindw (fai cond bdeps a) (fun a' => bindw (fai cond bdeps b) (fun b' => retw (EBin o a' b'))).
    Proof. reflexivity. Qed.
    Lemma fai_nary o l :
      (forall f kw, o <> NCall f kw) ->
      fai cond bdeps (ENary o l) = bindw (seqw (map (fai cond bdeps) l)) (fun l' => retw (ENary o l')).
    Proof. intros H. destruct o; try reflexivity. exfalso. eapply H. reflexivity. Qed.
    Lemma fai_call f kw l :
      fai cond bdeps (ENary (NCall f kw) l) =
      let cl := map (fun a => isolate_arg cond bdeps a (fai cond bdeps a)) l in
      let (pos, kws) := split_at (List.length cl - List.length kw) cl in
      let skw := kw_sort (combine kw kws) in
      bindw (seqw pos) (fun pos' =>
      bindw (seqw (map snd skw)) (fun kws' =>
        retw (ENary (NCall f (map fst skw)) (pos' ++ kws')))).
    Proof. reflexivity. Qed.

    Definition iso_arg (a : expr) : MW expr := isolate_arg cond bdeps a (fai cond bdeps a).

    (* with the keywords already in sorted order the call node is an ordinary strict node
       whose children are handled by isolate_arg *)
    Lemma fai_call_sorted f kw l st :
      sorted_keys kw = true -> (List.length kw <= List.length l)%nat ->
      fai cond bdeps (ENary (NCall f kw) l) st =
      bindw (seqw (map iso_arg l)) (fun l' => retw (ENary (NCall f kw) l')) st.
    Proof.
      intros Hs Hl. rewrite fai_call. cbv zeta. fold iso_arg.
      set (cl := map iso_arg l).
      destruct (split_at (List.length cl - List.length kw) cl) as [pos kws] eqn:Es.
      apply split_at_spec in Es. destruct Es as [Hcl Hlen].
      assert (Hn : List.length cl = List.length l) by (unfold cl; apply map_length).
      assert (Hk : List.length kws = List.length kw).
      { assert (List.length cl = List.length pos + List.length kws)%nat by (rewrite Hcl; apply app_length). lia. }
      rewrite (kw_sort_sorted kw kws Hs Hk).
      rewrite (combine_snd kw kws) by lia. rewrite (combine_fst kw kws) by lia.
      rewrite (seqw_app_eq pos kws (fun l' => retw (ENary (NCall f kw) l')) st).
      now rewrite <- Hcl.
    Qed.

    Lemma iso_arg_spec a : cspec cond a (fai cond bdeps a) -> cspec cond a (iso_arg a).
    Proof.
      intros H. unfold iso_arg, isolate_arg.
      destruct (is_var a) eqn:Hv.
      { destruct a; try discriminate. apply cid_cspec. intros st. reflexivity. }
      assert (Hgen : cspec cond a (fun st =>
                match genv "tmp" st with
                | TErr e => TErr e
                | TOk (name, st1) =>
                  match geni "tmp" st1 with
                  | TErr e => TErr e
                  | TOk (id, st2) =>
                    match fai cond bdeps a st2 with
                    | TErr e => TErr e
                    | TOk (a', ns, xs, st3) =>
                        TOk (EVar name, ns ++ [mkT id (bdeps ++ xs) cond (KAssign name None a' [])], [id], st3)
                    end
                  end
                end)).
      { intros st r ns0 xs0 st' E.
        destruct (genv "tmp" st) as [[name st1]|e] eqn:G1; [|discriminate].
        destruct (geni "tmp" st1) as [[id st2]|e] eqn:G2; [|discriminate].
        destruct (fai cond bdeps a st2) as [[[[a' ns] xs] st3]|e] eqn:E3; [|discriminate].
        inversion E; subst r ns0 xs0 st'. clear E.
        destruct (H _ _ _ _ _ E3) as (N & I & X & V & M & D & S & Hh).
        pose proof (ext_trans _ _ _ _ _ _ _ (ext_genv _ _ _ _ G1) (ext_geni _ _ _ _ G2)) as X12.
        cbn [app] in X12.
        pose proof (ext_trans _ _ _ _ _ _ _ X12 X) as X13.
        exists (N ++ [name]), (I ++ [id]). split; [exact X13|].
        destruct X12 as (Ev2 & Ei2 & Fv2 & Fi2). destruct X as (Ev3 & Ei3 & Fv3 & Fi3).
        split; [|split; [|split; [|split; [|]]]].
        - intros x [<-|[]]. rewrite !in_app_iff. right. right. now left.
        - apply Forall_app. split.
          + eapply Forall_impl; [|exact M]. intros n. apply emitted_weaken. intros x Hx. apply in_app_iff. auto.
          + constructor; [|constructor]. split; [apply gext_refl|].
            cbn. intros x [<-|[]]. apply in_app_iff. right. now left.
        - intros x. rewrite map_app, !count_occ_app, D. reflexivity.
        - intros x [<-|[]]. apply in_app_iff. right. now left.
        - intros Hva Hvc.
          assert (Hva2 : incl (vars a) (ex (gvars st2))).
          { intros x Hx. rewrite Ev2. right. apply Hva, Hx. }
          assert (Hvc2 : incl (vars cond) (ex (gvars st2))).
          { intros x Hx. rewrite Ev2. right. apply Hvc, Hx. }
          apply hoisted_assign; [now apply Hh|].
          intros x Hx Hin. apply (in_fresh_not_old _ _ _ Fv3 Hx). apply Hvc2, Hin. }
      destruct a; try discriminate; exact Hgen.
    Qed.

    Lemma iso_arg_var_id l : forallb is_var l = true -> Forall2 cid l (map iso_arg l).
    Proof.
      induction l as [|a l IH]; intros H; [constructor|]. cbn [forallb] in H.
      apply andb_true_iff in H. destruct H as [H1 H2]. constructor; [|auto].
      destruct a; try discriminate. intros st. reflexivity.
    Qed.

    Lemma fai_clean_id e :
      fai_clean e = true -> kw_sorted e = true -> arity_ok e = true -> cid e (fai cond bdeps e).
    Proof.
      induction e as [z|b| |x|a IHa|c t e IHc IHt IHe|o a b IHa IHb|o l IH] using expr_ind';
        intros H Hk Ha st; try reflexivity.
      - rewrite fai_not. unfold bindw. now rewrite (IHa H Hk Ha).
      - cbn [fai_clean kw_sorted arity_ok] in *.
        apply andb_true_iff in H. destruct H as [H He]. apply andb_true_iff in H. destruct H as [Hc Ht].
        apply andb_true_iff in Hk. destruct Hk as [Hk Hke]. apply andb_true_iff in Hk. destruct Hk as [Hkc Hkt].
        apply andb_true_iff in Ha. destruct Ha as [Ha Hae]. apply andb_true_iff in Ha. destruct Ha as [Hac Hat].
        rewrite fai_if. unfold bindw. now rewrite (IHc Hc Hkc Hac), (IHt Ht Hkt Hat), (IHe He Hke Hae).
      - cbn [fai_clean kw_sorted arity_ok] in *.
        apply andb_true_iff in H. destruct H as [H1 H2].
        apply andb_true_iff in Hk. destruct Hk as [Hk1 Hk2].
        apply andb_true_iff in Ha. destruct Ha as [Ha1 Ha2].
        rewrite fai_bin. unfold bindw. now rewrite (IHa H1 Hk1 Ha1), (IHb H2 Hk2 Ha2).
      - cbn [fai_clean kw_sorted arity_ok] in *.
        apply andb_true_iff in H. destruct H as [Hl Ho].
        apply andb_true_iff in Hk. destruct Hk as [Hkl Hko].
        apply andb_true_iff in Ha. destruct Ha as [Hal Hao].
        destruct o as [| | | | | |f kw].
        7: { rewrite fai_call_sorted; [|exact Hko|now apply Nat.leb_le].
             unfold bindw. now rewrite (seqw_cid l _ (iso_arg_var_id l Ho)). }
        all: rewrite fai_nary by (intros; discriminate);
          assert (Hid : Forall2 cid l (map (fai cond bdeps) l))
            by (clear Ho Hko Hao; induction IH as [|a l Hx _ IHl]; [constructor|];
                cbn [forallb] in *;
                apply andb_true_iff in Hl; destruct Hl as [? ?];
                apply andb_true_iff in Hkl; destruct Hkl as [? ?];
                apply andb_true_iff in Hal; destruct Hal as [? ?];
                constructor; auto);
          unfold bindw; now rewrite (seqw_cid l _ Hid).
    Qed.

    Lemma Forall2_map_r {A B} (P : A -> B -> Prop) (f : A -> B) l :
      Forall (fun a => P a (f a)) l -> Forall2 P l (map f l).
    Proof. induction 1; constructor; auto. Qed.

    Lemma forallb_Forall {A} (p : A -> bool) l : forallb p l = true -> Forall (fun a => p a = true) l.
    Proof. intros H. apply Forall_forall. intros x Hx. rewrite forallb_forall in H. auto. Qed.

    Theorem fai_spec e :
      fai_ok e = true -> kw_sorted e = true -> arity_ok e = true -> cspec cond e (fai cond bdeps e).
    Proof.
      induction e as [z|b| |x|a IHa|c t e IHc IHt IHe|o a b IHa IHb|o l IH] using expr_ind';
        intros H Hk Ha; try (apply cid_cspec; intros st; reflexivity).
      - rewrite fai_not. apply wspec_not. now apply IHa.
      - unfold fai_ok in *. cbn [strict_ok kw_sorted arity_ok] in *.
        apply andb_true_iff in H. destruct H as [Hc H]. apply andb_true_iff in H. destruct H as [Ht He].
        apply andb_true_iff in Hk. destruct Hk as [Hk Hke]. apply andb_true_iff in Hk. destruct Hk as [Hkc Hkt].
        apply andb_true_iff in Ha. destruct Ha as [Ha Hae]. apply andb_true_iff in Ha. destruct Ha as [Hac Hat].
        rewrite fai_if. apply wspec_if_head; [now apply IHc|now apply fai_clean_id|now apply fai_clean_id].
      - unfold fai_ok in *. cbn [strict_ok kw_sorted arity_ok] in *.
        apply andb_true_iff in H. destruct H as [H1 H2].
        apply andb_true_iff in Hk. destruct Hk as [Hk1 Hk2].
        apply andb_true_iff in Ha. destruct Ha as [Ha1 Ha2].
        rewrite fai_bin. apply wspec_bin; [now apply IHa|now apply IHb].
      - unfold fai_ok in *. cbn [strict_ok kw_sorted arity_ok] in *.
        apply andb_true_iff in Hk. destruct Hk as [Hkl Hko].
        apply andb_true_iff in Ha. destruct Ha as [Hal Hao].
        destruct (is_lazy o) eqn:Ho.
        + (* and / or *)
          assert (Hn : forall f kw, o <> NCall f kw) by (intros f kw ->; discriminate).
          rewrite (fai_nary o l Hn).
          destruct l as [|a l]; [apply wspec_lazy_nil|].
          apply andb_true_iff in H. destruct H as [H1 H2].
          cbn [forallb] in Hkl, Hal.
          apply andb_true_iff in Hkl. destruct Hkl as [Hk1 Hk2].
          apply andb_true_iff in Hal. destruct Hal as [Ha1 Ha2].
          inversion IH as [|? ? IH1 IH2]; subst.
          cbn [map]. apply wspec_lazy_head; [exact Ho|now apply IH1|].
          apply Forall2_map_r. apply Forall_forall. intros x Hx.
          rewrite forallb_forall in H2, Hk2, Ha2. apply fai_clean_id; auto.
        + assert (Hall : Forall (fun a => cspec cond a (fai cond bdeps a)) l).
          { apply Forall_forall. intros x Hx. rewrite Forall_forall in IH.
            rewrite forallb_forall in H, Hkl, Hal. apply IH; auto. }
          destruct o as [| | | | | |f kw]; try discriminate.
          5: { intros st. rewrite fai_call_sorted; [|exact Hko|now apply Nat.leb_le]. revert st.
               apply wspec_strict; [reflexivity|]. apply Forall2_map_r.
               eapply Forall_impl; [|exact Hall]. intros a. apply iso_arg_spec. }
          all: rewrite fai_nary by (intros; discriminate); apply wspec_strict; [reflexivity|];
            apply Forall2_map_r; exact Hall.
    Qed.
  End Fai.

  (* ---------------------------------------------------------------------------------- *)
  (* isolate_function_calls                                                              *)

  Lemma split_at_app_len {A} (a b : list A) : split_at (List.length a) (a ++ b) = (a, b).
  Proof.
    induction a as [|x a IH]; cbn.
    - destruct b; reflexivity.
    - now rewrite IH.
  Qed.

  Lemma evalt_list_app_inv s p k L vs :
    evalt_list F s (p ++ k) = (L, Ok vs) ->
    exists r1 a r2 b, evalt_list F s p = (r1, Ok a) /\ evalt_list F s k = (r2, Ok b) /\
                      L = r1 ++ r2 /\ vs = a ++ b.
  Proof.
    rewrite evalt_list_app. destruct (evalt_list F s p) as [r1 [a|u]]; [|discriminate].
    destruct (evalt_list F s k) as [r2 [b|u]]; cbn; [|discriminate].
    intros H. inversion H; subst. exists r1, a, r2, b. repeat split; reflexivity.
  Qed.

  Lemma hoisted_call cond f kw l l' ns N name id deps p kv :
    hoisted_list F dg cond l l' ns N ->
    split_at (List.length l' - List.length kw) l' = (p, kv) ->
    (List.length kw <= List.length l')%nat ->
    (forall x, In x N -> ~ In x (vars cond)) ->
    hoisted F dg cond (ENary (NCall f kw) l) (EVar name)
            (ns ++ [mkT id deps cond (KCall [name] f p (combine kw kv))]) (N ++ [name]).
  Proof.
    intros H Hsp Hlen Dc s L v Hc He.
    destruct (evalt_strict_ok F s (NCall f kw) l L v eq_refl He) as (Ll & vs & Lk & El & Ek & ->).
    rewrite node_t_call in Ek. unfold call1t in Ek.
    destruct (split_at (List.length vs - List.length kw) vs) as [pos kws] eqn:Ev.
    destruct (F f pos (combine kw kws)) as [[|v0 [|? ?]]|] eqn:EF; inversion Ek; subst Lk v0. clear Ek.
    destruct (H s Ll vs Hc El) as (L1 & s1 & L2 & X1 & X2 & X3 & X4).
    assert (Hc1 : cond_t F s1 cond = ([], Ok true)).
    { rewrite <- Hc. apply cond_t_frame. intros x Hx. apply X2. intros Hn. now apply (Dc x Hn). }
    apply split_at_spec in Hsp. destruct Hsp as [Hl' Hp].
    rewrite Hl' in X3. apply evalt_list_app_inv in X3.
    destruct X3 as (r1 & a & r2 & b & Ep & Ek & -> & ->).
    pose proof (evalt_list_length F _ _ _ _ Ep) as La. pose proof (evalt_list_length F _ _ _ _ Ek) as Lb.
    assert (Hkv : List.length kv = List.length kw).
    { assert (List.length l' = List.length p + List.length kv)%nat by (rewrite Hl'; apply app_length). lia. }
    assert (Hsplit : split_at (List.length (a ++ b) - List.length kw) (a ++ b) = (a, b)).
    { rewrite app_length. replace (List.length a + List.length b - List.length kw)%nat with (List.length a) by lia.
      apply split_at_app_len. }
    rewrite Hsplit in Ev. inversion Ev; subst pos kws. clear Ev.
    exists (L1 ++ (r1 ++ r2 ++ [(f, a, combine kw b)])), (upd s1 name v), []. split; [|split; [|split]].
    - eapply exec_list_app; [exact X1|]. cbn [exec_list]. unfold exec_t. cbn [tcond tkd]. rewrite Hc1.
      cbn [exec_kind_t]. rewrite Ep. rewrite (combine_snd kw kv) by lia. rewrite Ek.
      rewrite (combine_fst kw kv) by lia. rewrite EF. cbn. now rewrite app_nil_r.
    - intros x Hx. rewrite in_app_iff in Hx. rewrite upd_other.
      + apply X2. tauto.
      + intros ->. apply Hx. right. now left.
    - rewrite evalt_var. unfold getv. now rewrite upd_same.
    - rewrite app_nil_r. rewrite !app_assoc. apply Permutation_app_tail. rewrite <- app_assoc. exact X4.
  Qed.

  Section Fci.
    Variable fixed : bool.
    Variable cond : expr.
    Variable bdeps : list string.
    Notation fci' := (fci fixed cond bdeps).

    Lemma fci_not a : fci' (ENot a) = bindw (fci' a) (fun a' => retw (ENot a')).
    Proof. reflexivity. Qed.
    Lemma fci_if c t f :
      fci' (EIf c t f) =
      bindw (fci' c) (fun c' => bindw (fci' t) (fun t' => bindw (fci' f) (fun f' => retw (EIf c' t' f')))).
    Proof. reflexivity. Qed.
    Lemma fci_bin o a b :
      fci' (EBin o a b) = bindw (fci' a) (fun a' => bindw (fci' b) (fun b' => retw (EBin o a' b'))).
    Proof. reflexivity. Qed.
    Lemma fci_nary o l :
      (forall f kw, o <> NCall f kw) ->
      fci' (ENary o l) = bindw (seqw (map fci' l)) (fun l' => retw (ENary o l')).
    Proof. intros H. destruct o; try reflexivity. exfalso. eapply H. reflexivity. Qed.
    Lemma fci_call f kw l st :
      fci' (ENary (NCall f kw) l) st =
      match genv "tmp" st with
      | TErr e => TErr e
      | TOk (name, st1) =>
        match geni "tmp" st1 with
        | TErr e => TErr e
        | TOk (id, st2) =>
          match (if fixed then seqw (map fci' l)
                 else if existsb has_call l then failw ETypeError else retw l) st2 with
          | TErr e => TErr e
          | TOk (l', ns, xs, st3) =>
              let (p, kv) := split_at (List.length l' - List.length kw) l' in
              TOk (EVar name, ns ++ [mkT id (bdeps ++ xs) cond (KCall [name] f p (combine kw kv))], [id], st3)
          end
        end
      end.
    Proof. reflexivity. Qed.

    Lemma fci_clean_id e : has_call e = false -> cid e (fci' e).
    Proof.
      induction e as [z|b| |x|a IHa|c t e IHc IHt IHe|o a b IHa IHb|o l IH] using expr_ind';
        intros H st; try reflexivity.
      - rewrite fci_not. unfold bindw. now rewrite (IHa H).
      - cbn [has_call] in H. apply orb_false_iff in H. destruct H as [H He]. apply orb_false_iff in H.
        destruct H as [Hc Ht]. rewrite fci_if. unfold bindw. now rewrite (IHc Hc), (IHt Ht), (IHe He).
      - cbn [has_call] in H. apply orb_false_iff in H. destruct H as [Ha Hb].
        rewrite fci_bin. unfold bindw. now rewrite (IHa Ha), (IHb Hb).
      - destruct o as [| | | | | |f kw]; try discriminate;
          rewrite fci_nary by (intros; discriminate); cbn [has_call] in H;
          assert (Hid : Forall2 cid l (map fci' l))
            by (induction IH as [|a l Hx _ IHl]; [constructor|]; cbn [existsb] in H;
                apply orb_false_iff in H; destruct H as [? ?]; constructor; auto);
          unfold bindw; now rewrite (seqw_cid l _ Hid).
    Qed.

    Lemma existsb_false_forall {A} (p : A -> bool) l : existsb p l = false -> forall x, In x l -> p x = false.
    Proof.
      intros H x Hx. destruct (p x) eqn:E; [|reflexivity].
      assert (existsb p l = true) by (apply existsb_exists; eauto). congruence.
    Qed.

    (* both shapes of isolate_call agree whenever the unrepaired one does not raise *)
    Lemma fci_children l st2 l' ns xs st3 :
      (if fixed then seqw (map fci' l)
       else if existsb has_call l then failw ETypeError else retw l) st2 = TOk (l', ns, xs, st3) ->
      seqw (map fci' l) st2 = TOk (l', ns, xs, st3).
    Proof.
      pose proof fci_clean_id as Hid.
      destruct fixed; [auto|]. destruct (existsb has_call l) eqn:E; [discriminate|].
      intros H. apply retw_inv in H. destruct H as (-> & -> & -> & ->).
      apply seqw_cid. apply Forall2_map_r. apply Forall_forall. intros x Hx.
      apply Hid. eapply existsb_false_forall; eauto.
    Qed.

    Theorem fci_spec e : fci_ok e = true -> arity_ok e = true -> cspec cond e (fci' e).
    Proof.
      induction e as [z|b| |x|a IHa|c t e IHc IHt IHe|o a b IHa IHb|o l IH] using expr_ind';
        intros H Ha; try (apply cid_cspec; intros st; reflexivity).
      - rewrite fci_not. apply wspec_not. now apply IHa.
      - unfold fci_ok in *. cbn [strict_ok arity_ok] in *.
        apply andb_true_iff in H. destruct H as [Hc H]. apply andb_true_iff in H. destruct H as [Ht He].
        apply andb_true_iff in Ha. destruct Ha as [Ha Hae]. apply andb_true_iff in Ha. destruct Ha as [Hac Hat].
        apply negb_true_iff in Ht. apply negb_true_iff in He.
        rewrite fci_if. apply wspec_if_head; [now apply IHc|now apply fci_clean_id|now apply fci_clean_id].
      - unfold fci_ok in *. cbn [strict_ok arity_ok] in *.
        apply andb_true_iff in H. destruct H as [H1 H2].
        apply andb_true_iff in Ha. destruct Ha as [Ha1 Ha2].
        rewrite fci_bin. apply wspec_bin; [now apply IHa|now apply IHb].
      - unfold fci_ok in *. cbn [strict_ok arity_ok] in *.
        apply andb_true_iff in Ha. destruct Ha as [Hal Hao].
        destruct (is_lazy o) eqn:Ho.
        + assert (Hn : forall f kw, o <> NCall f kw) by (intros f kw ->; discriminate).
          rewrite (fci_nary o l Hn).
          destruct l as [|a l]; [apply wspec_lazy_nil|].
          apply andb_true_iff in H. destruct H as [H1 H2].
          cbn [forallb] in Hal. apply andb_true_iff in Hal. destruct Hal as [Ha1 Ha2].
          inversion IH as [|? ? IH1 IH2]; subst.
          cbn [map]. apply wspec_lazy_head; [exact Ho|now apply IH1|].
          apply Forall2_map_r. apply Forall_forall. intros x Hx.
          rewrite forallb_forall in H2. apply fci_clean_id. apply negb_true_iff. auto.
        + assert (Hall : Forall2 (cspec cond) l (map fci' l)).
          { apply Forall2_map_r. apply Forall_forall. intros x Hx. rewrite Forall_forall in IH.
            rewrite forallb_forall in H, Hal. apply IH; auto. }
          destruct o as [| | | | | |f kw]; try discriminate.
          5: { intros st r ns0 xs0 st' E. rewrite fci_call in E.
               destruct (genv "tmp" st) as [[name st1]|e] eqn:G1; [|discriminate].
               destruct (geni "tmp" st1) as [[id st2]|e] eqn:G2; [|discriminate].
               destruct ((if fixed then seqw (map fci' l)
                          else if existsb has_call l then failw ETypeError else retw l) st2)
                 as [[[[l' ns] xs] st3]|e] eqn:E3; [|discriminate].
               apply fci_children in E3.
               destruct (split_at (List.length l' - List.length kw) l') as [p kv] eqn:Es.
               inversion E; subst r ns0 xs0 st'. clear E.
               destruct (seqw_spec F dg cond l _ Hall _ _ _ _ _ E3) as (N & I & X & V & M & D & S & Len & Hh).
               pose proof (ext_trans _ _ _ _ _ _ _ (ext_genv _ _ _ _ G1) (ext_geni _ _ _ _ G2)) as X12.
               cbn [app] in X12.
               pose proof (ext_trans _ _ _ _ _ _ _ X12 X) as X13.
               exists (N ++ [name]), (I ++ [id]). split; [exact X13|].
               destruct X12 as (Ev2 & Ei2 & Fv2 & Fi2). destruct X as (Ev3 & Ei3 & Fv3 & Fi3).
               split; [|split; [|split; [|split; [|]]]].
               - intros x [<-|[]]. rewrite !in_app_iff. right. right. now left.
               - apply Forall_app. split.
                 + eapply Forall_impl; [|exact M]. intros n. apply emitted_weaken. intros x Hx. apply in_app_iff. auto.
                 + constructor; [|constructor]. split; [apply gext_refl|].
                   cbn. intros x [<-|[]]. apply in_app_iff. right. now left.
               - intros x. rewrite map_app, !count_occ_app, D. reflexivity.
               - intros x [<-|[]]. apply in_app_iff. right. now left.
               - intros Hva Hvc. cbn [vars] in Hva.
                 assert (Hva2 : incl (flat_map vars l) (ex (gvars st2))).
                 { intros x Hx. rewrite Ev2. right. apply Hva, Hx. }
                 assert (Hvc2 : incl (vars cond) (ex (gvars st2))).
                 { intros x Hx. rewrite Ev2. right. apply Hvc, Hx. }
                 apply (hoisted_call cond f kw l l' ns N name id (bdeps ++ xs) p kv); [now apply Hh|exact Es| |].
                 + rewrite Len. now apply Nat.leb_le.
                 + intros x Hx Hin. apply (in_fresh_not_old _ _ _ Fv3 Hx). apply Hvc2, Hin. }
          all: rewrite fci_nary by (intros; discriminate); apply wspec_strict; [reflexivity|exact Hall].
    Qed.
  End Fci.

  (* ---------------------------------------------------------------------------------- *)
  (* expand_IfThenElse                                                                   *)

  Lemma cond_var s x v : s x = Some v -> cond_t F s (EVar x) = ([], lift (truth v)).
  Proof. intros H. unfold cond_t. rewrite evalt_var. unfold getv. rewrite H. reflexivity. Qed.

  Lemma cond_not_var s x v b :
    s x = Some v -> lift (truth v) = Ok b -> cond_t F s (ENot (EVar x)) = ([], Ok (negb b)).
  Proof.
    intros H Ht. unfold cond_t. cbn [evalt]. rewrite H. cbn [rbind].
    destruct (truth v) as [b'|]; cbn in Ht; inversion Ht; subst. reflexivity.
  Qed.

  Lemma hoisted_ite cond c t f c' t' f' nc nt nf Nc Nt Nf flag res i1 i2 i3 d1 d2 d3 :
    let tcnd := flat_and cond (EVar flag) in
    let fcnd := flat_and cond (ENot (EVar flag)) in
    hoisted F dg cond c c' nc Nc ->
    hoisted F dg tcnd t t' nt Nt ->
    hoisted F dg fcnd f f' nf Nf ->
    Forall (fun n => gext tcnd (tcond n)) nt ->
    Forall (fun n => gext fcnd (tcond n)) nf ->
    (forall x, In x Nc -> ~ In x (vars cond ++ vars t ++ vars f)) ->
    ~ In flag (vars cond ++ vars t ++ vars f) ->
    (forall x, In x Nt -> ~ In x (vars cond) /\ x <> flag) ->
    (forall x, In x Nf -> ~ In x (vars cond) /\ x <> flag) ->
    ~ In res (vars cond) -> res <> flag ->
    hoisted F dg cond (EIf c t f) (EVar res)
            (nc ++ [mkT i1 d1 cond (KAssign flag None c' [])] ++ nt ++ nf
                ++ [mkT i2 d2 tcnd (KAssign res None t' []); mkT i3 d3 fcnd (KAssign res None f' [])])
            (Nc ++ [flag] ++ Nt ++ Nf ++ [res]).
  Proof.
    intros tcnd fcnd Hc Ht Hf Gt Gf F1 F2 F3 F4 F5 F6 s L v Hcs He.
    cbn [evalt] in He.
    destruct (evalt F s c) as [Lc [vc|u]] eqn:Ec; cbn [rbind] in He; [|discriminate].
    destruct (Hc s Lc vc Hcs Ec) as (L1c & s1 & L2c & X1 & X2 & X3 & X4).
    assert (Hc1 : cond_t F s1 cond = ([], Ok true)).
    { rewrite <- Hcs. apply cond_t_frame. intros x Hx. apply X2. intros Hn. apply (F1 x Hn).
      apply in_app_iff. now left. }
    set (s2 := upd s1 flag vc).
    assert (E1 : exec_t F dg s1 (mkT i1 d1 cond (KAssign flag None c' [])) = (L2c, ONext s2 None))
      by (apply exec_assign; assumption).
    assert (Hc2 : cond_t F s2 cond = ([], Ok true)).
    { rewrite <- Hc1. apply cond_t_frame. intros x Hx. unfold s2. apply upd_other. intros ->.
      apply F2. apply in_app_iff. now left. }
    assert (Hfl2 : s2 flag = Some vc) by apply upd_same.
    assert (Hs2 : forall x, In x (vars t ++ vars f) -> s2 x = s x).
    { intros x Hx. unfold s2. rewrite upd_other.
      - apply X2. intros Hn. apply (F1 x Hn). apply in_app_iff. now right.
      - intros ->. apply F2. apply in_app_iff. now right. }
    destruct (lift (truth vc)) as [[|]|u] eqn:Et; [| |discriminate].
    - (* the condition holds: the then-branch *)
      destruct (evalt F s t) as [Lt vt] eqn:E2. inversion He; subst L vt. clear He.
      assert (Htc2 : cond_t F s2 tcnd = ([], Ok true)).
      { apply flat_and_cond; [exact Hc2|reflexivity|]. rewrite (cond_var s2 flag vc Hfl2). now rewrite Et. }
      assert (Et2 : evalt F s2 t = (Lt, Ok v)).
      { rewrite <- E2. apply evalt_frame. intros x Hx. apply Hs2. apply in_app_iff. now left. }
      destruct (Ht s2 Lt v Htc2 Et2) as (L1t & s3 & L2t & Y1 & Y2 & Y3 & Y4).
      assert (Hc3 : cond_t F s3 cond = ([], Ok true)).
      { rewrite <- Hc2. apply cond_t_frame. intros x Hx. apply Y2. intros Hn. destruct (F3 x Hn) as [A _]. now apply A. }
      assert (Hfl3 : s3 flag = Some vc).
      { rewrite <- Hfl2. apply Y2. intros Hn. destruct (F3 flag Hn) as [_ B]. now apply B. }
      assert (Hfc3 : cond_t F s3 fcnd = ([], Ok false)).
      { apply (flat_and_cond F cond (ENot (EVar flag)) s3 false Hc3 eq_refl).
        apply (cond_not_var s3 flag vc true Hfl3 Et). }
      assert (Htc3 : cond_t F s3 tcnd = ([], Ok true)).
      { apply flat_and_cond; [exact Hc3|reflexivity|]. rewrite (cond_var s3 flag vc Hfl3). now rewrite Et. }
      set (s4 := upd s3 res v).
      assert (E2s : exec_t F dg s3 (mkT i2 d2 tcnd (KAssign res None t' [])) = (L2t, ONext s4 None))
        by (apply exec_assign; assumption).
      assert (Hfc4 : cond_t F s4 fcnd = ([], Ok false)).
      { apply (flat_and_cond F cond (ENot (EVar flag)) s4 false).
        - rewrite <- Hc3. apply cond_t_frame. intros x Hx. unfold s4. apply upd_other. intros ->. now apply F5.
        - reflexivity.
        - apply (cond_not_var s4 flag vc true); [|exact Et]. unfold s4. rewrite upd_other; [exact Hfl3|].
          intros Heq. now apply F6. }
      exists (L1c ++ L2c ++ L1t ++ L2t), s4, []. split; [|split; [|split]].
      + eapply exec_list_app; [exact X1|]. cbn [app].
        change (mkT i1 d1 cond (KAssign flag None c' []) :: nt ++ nf ++ _) with
          ([mkT i1 d1 cond (KAssign flag None c' [])] ++ (nt ++ nf ++
             [mkT i2 d2 tcnd (KAssign res None t' []); mkT i3 d3 fcnd (KAssign res None f' [])])).
        eapply exec_list_app; [cbn [exec_list]; rewrite E1; rewrite app_nil_r; reflexivity|].
        eapply exec_list_app; [exact Y1|].
        replace L2t with ([] ++ L2t) by reflexivity.
        eapply exec_list_app; [apply (exec_list_skip F dg fcnd nf s3 Gf Hfc3)|].
        cbn [exec_list]. rewrite E2s. rewrite (exec_skip F dg s4 (mkT i3 d3 fcnd (KAssign res None f' [])) Hfc4). now rewrite !app_nil_r.
      + intros x Hx. rewrite !in_app_iff in Hx. unfold s4. rewrite upd_other.
        * rewrite Y2 by tauto. unfold s2. rewrite upd_other; [apply X2; tauto|].
          intros ->. apply Hx. right. left. now left.
        * intros ->. apply Hx. right. right. right. right. now left.
      + rewrite evalt_var. unfold getv, s4. now rewrite upd_same.
      + rewrite app_nil_r. rewrite !app_assoc. rewrite <- (app_assoc (L1c ++ L2c)).
        apply Permutation_app; assumption.
    - (* the condition fails: the else-branch *)
      destruct (evalt F s f) as [Lt vt] eqn:E2. inversion He; subst L vt. clear He.
      assert (Htc2 : cond_t F s2 tcnd = ([], Ok false)).
      { apply flat_and_cond; [exact Hc2|reflexivity|]. rewrite (cond_var s2 flag vc Hfl2). now rewrite Et. }
      assert (Hfc2 : cond_t F s2 fcnd = ([], Ok true)).
      { apply (flat_and_cond F cond (ENot (EVar flag)) s2 true Hc2 eq_refl).
        apply (cond_not_var s2 flag vc false Hfl2 Et). }
      assert (Ef2 : evalt F s2 f = (Lt, Ok v)).
      { rewrite <- E2. apply evalt_frame. intros x Hx. apply Hs2. apply in_app_iff. now right. }
      destruct (Hf s2 Lt v Hfc2 Ef2) as (L1t & s3 & L2t & Y1 & Y2 & Y3 & Y4).
      assert (Hc3 : cond_t F s3 cond = ([], Ok true)).
      { rewrite <- Hc2. apply cond_t_frame. intros x Hx. apply Y2. intros Hn. destruct (F4 x Hn) as [A _]. now apply A. }
      assert (Hfl3 : s3 flag = Some vc).
      { rewrite <- Hfl2. apply Y2. intros Hn. destruct (F4 flag Hn) as [_ B]. now apply B. }
      assert (Htc3 : cond_t F s3 tcnd = ([], Ok false)).
      { apply flat_and_cond; [exact Hc3|reflexivity|]. rewrite (cond_var s3 flag vc Hfl3). now rewrite Et. }
      assert (Hfc3 : cond_t F s3 fcnd = ([], Ok true)).
      { apply (flat_and_cond F cond (ENot (EVar flag)) s3 true Hc3 eq_refl).
        apply (cond_not_var s3 flag vc false Hfl3 Et). }
      set (s4 := upd s3 res v).
      assert (E3s : exec_t F dg s3 (mkT i3 d3 fcnd (KAssign res None f' [])) = (L2t, ONext s4 None))
        by (apply exec_assign; assumption).
      exists (L1c ++ L2c ++ L1t ++ L2t), s4, []. split; [|split; [|split]].
      + eapply exec_list_app; [exact X1|]. cbn [app].
        change (mkT i1 d1 cond (KAssign flag None c' []) :: nt ++ nf ++ _) with
          ([mkT i1 d1 cond (KAssign flag None c' [])] ++ (nt ++ nf ++
             [mkT i2 d2 tcnd (KAssign res None t' []); mkT i3 d3 fcnd (KAssign res None f' [])])).
        eapply exec_list_app; [cbn [exec_list]; rewrite E1; rewrite app_nil_r; reflexivity|].
        replace (L1t ++ L2t) with ([] ++ L1t ++ L2t) by reflexivity.
        eapply exec_list_app; [apply (exec_list_skip F dg tcnd nt s2 Gt Htc2)|].
        eapply exec_list_app; [exact Y1|].
        cbn [exec_list]. rewrite (exec_skip F dg s3 (mkT i2 d2 tcnd (KAssign res None t' [])) Htc3). rewrite E3s. now rewrite !app_nil_r.
      + intros x Hx. rewrite !in_app_iff in Hx. unfold s4. rewrite upd_other.
        * rewrite Y2 by tauto. unfold s2. rewrite upd_other; [apply X2; tauto|].
          intros ->. apply Hx. right. left. now left.
        * intros ->. apply Hx. right. right. right. right. now left.
      + rewrite evalt_var. unfold getv, s4. now rewrite upd_same.
      + rewrite app_nil_r. rewrite !app_assoc. rewrite <- (app_assoc (L1c ++ L2c)).
        apply Permutation_app; assumption.
  Qed.

  Section Ite.
    Variable ff : bool.     (* ite_flag_first *)
    Notation ite' := (ite ff).

    Lemma ite_not a cond bdeps :
      ite' (ENot a) cond bdeps = bindw (ite' a cond bdeps) (fun a' => retw (ENot a')).
    Proof. reflexivity. Qed.
    Lemma ite_bin o a b cond bdeps :
      ite' (EBin o a b) cond bdeps =
      bindw (ite' a cond bdeps) (fun a' => bindw (ite' b cond bdeps) (fun b' => retw (EBin o a' b'))).
    Proof. reflexivity. Qed.
    Lemma ite_nary o l cond bdeps :
      ite' (ENary o l) cond bdeps =
      bindw (seqw (map (fun a => ite' a cond bdeps) l)) (fun l' => retw (ENary o l')).
    Proof. reflexivity. Qed.
    Lemma ite_if c t f cond bdeps st :
      ite' (EIf c t f) cond bdeps st =
      match genv "<cond>ifthenelse_cond" st with TErr e => TErr e | TOk (flag, st1) =>
      match genv "ifthenelse_result" st1 with TErr e => TErr e | TOk (res, st2) =>
      match geni "ifthenelse_cond" st2 with TErr e => TErr e | TOk (i1, st3) =>
      match geni "ifthenelse_then" st3 with TErr e => TErr e | TOk (i2, st4) =>
      match geni "ifthenelse_else" st4 with TErr e => TErr e | TOk (i3, st5) =>
      match ite' c cond bdeps st5 with TErr e => TErr e | TOk (c', nc, xc, st6) =>
      let tcnd := flat_and cond (EVar flag) in
      match ite' t tcnd (bdeps ++ [i1]) st6 with TErr e => TErr e | TOk (t', nt, xt, st7) =>
      let fcnd := flat_and cond (ENot (EVar flag)) in
      match ite' f fcnd (bdeps ++ [i1]) st7 with TErr e => TErr e | TOk (f', nf, xf, st8) =>
      let s1 := mkT i1 (bdeps ++ xc) cond (KAssign flag None c' []) in
      let s2 := mkT i2 (bdeps ++ xt ++ [i1]) tcnd (KAssign res None t' []) in
      let s3 := mkT i3 (bdeps ++ xf ++ [i1]) fcnd (KAssign res None f' []) in
      TOk (EVar res,
           (if ff then nc ++ [s1] ++ nt ++ nf ++ [s2; s3] else nc ++ nt ++ nf ++ [s1; s2; s3]),
           [i2; i3], st8)
      end end end end end end end end.
    Proof. reflexivity. Qed.

    Lemma ite_clean_id e : has_if e = false -> forall cond bdeps, cid e (ite' e cond bdeps).
    Proof.
      induction e as [z|b| |x|a IHa|c t e IHc IHt IHe|o a b IHa IHb|o l IH] using expr_ind';
        intros H cond bdeps st; try reflexivity.
      - rewrite ite_not. unfold bindw. now rewrite (IHa H).
      - discriminate.
      - cbn [has_if] in H. apply orb_false_iff in H. destruct H as [Ha Hb].
        rewrite ite_bin. unfold bindw. now rewrite (IHa Ha), (IHb Hb).
      - rewrite ite_nary. cbn [has_if] in H.
        assert (Hid : Forall2 cid l (map (fun a => ite' a cond bdeps) l)).
        { induction IH as [|a l Hx _ IHl]; [constructor|]. cbn [existsb] in H.
          apply orb_false_iff in H. destruct H as [? ?]. constructor; auto. }
        unfold bindw. now rewrite (seqw_cid l _ Hid).
    Qed.

    Lemma vars_and_kids c : forall x, In x (flat_map vars (and_kids c)) <-> In x (vars c).
    Proof.
      intros x. destruct c; cbn [and_kids flat_map vars]; rewrite ?app_nil_r; try tauto.
      destruct o; cbn [and_kids flat_map vars]; rewrite ?app_nil_r; tauto.
    Qed.

    Lemma vars_flat_and c x y : In y (vars (flat_and c x)) <-> In y (vars c) \/ In y (vars x).
    Proof.
      unfold flat_and. cbn [vars]. rewrite flat_map_app, in_app_iff, !vars_and_kids. tauto.
    Qed.
  End Ite.

  Lemma count_one (x y : string) : count_occ string_dec [x] y = if string_dec x y then 1%nat else 0%nat.
  Proof. cbn. destruct (string_dec x y); reflexivity. Qed.

  Theorem ite_spec e :
    ite_ok e = true -> forall cond bdeps, cspec cond e (ite true e cond bdeps).
  Proof.
    induction e as [z|b| |x|a IHa|c t e IHc IHt IHe|o a b IHa IHb|o l IH] using expr_ind';
      intros H cond bdeps; try (apply cid_cspec; intros st; reflexivity).
    - rewrite ite_not. apply wspec_not. now apply IHa.
    - (* a conditional expression *)
      unfold ite_ok in *. cbn [strict_ok] in H.
      apply andb_true_iff in H. destruct H as [Hc H]. apply andb_true_iff in H. destruct H as [Ht He].
      intros st r ns0 xs0 st' E. rewrite ite_if in E.
      destruct (genv "<cond>ifthenelse_cond" st) as [[flag st1]|?] eqn:G1; [|discriminate].
      destruct (genv "ifthenelse_result" st1) as [[res st2]|?] eqn:G2; [|discriminate].
      destruct (geni "ifthenelse_cond" st2) as [[i1 st3]|?] eqn:G3; [|discriminate].
      destruct (geni "ifthenelse_then" st3) as [[i2 st4]|?] eqn:G4; [|discriminate].
      destruct (geni "ifthenelse_else" st4) as [[i3 st5]|?] eqn:G5; [|discriminate].
      destruct (ite true c cond bdeps st5) as [[[[c' nc] xc] st6]|?] eqn:Ec; [|discriminate].
      cbv zeta in E.
      destruct (ite true t (flat_and cond (EVar flag)) (bdeps ++ [i1]) st6) as [[[[t' nt] xt] st7]|?] eqn:Et;
        [|discriminate].
      destruct (ite true e (flat_and cond (ENot (EVar flag))) (bdeps ++ [i1]) st7) as [[[[f' nf] xf] st8]|?] eqn:Ef;
        [|discriminate].
      inversion E; subst r ns0 xs0 st'. clear E.
      set (tcnd := flat_and cond (EVar flag)) in *. set (fcnd := flat_and cond (ENot (EVar flag))) in *.
      destruct (IHc Hc cond bdeps _ _ _ _ _ Ec) as (Nc & Ic & Xc & Vc & Mc & Dc & Sc & Hhc).
      destruct (IHt Ht tcnd (bdeps ++ [i1]) _ _ _ _ _ Et) as (Nt & It & Xt & Vt & Mt & Dt & St & Hht).
      destruct (IHe He fcnd (bdeps ++ [i1]) _ _ _ _ _ Ef) as (Nf & If & Xf & Vf & Mf & Df & Sf & Hhf).
      pose proof (ext_trans _ _ _ _ _ _ _ (ext_genv _ _ _ _ G1) (ext_genv _ _ _ _ G2)) as X2.
      pose proof (ext_trans _ _ _ _ _ _ _ X2 (ext_geni _ _ _ _ G3)) as X3.
      pose proof (ext_trans _ _ _ _ _ _ _ X3 (ext_geni _ _ _ _ G4)) as X4.
      pose proof (ext_trans _ _ _ _ _ _ _ X4 (ext_geni _ _ _ _ G5)) as X5.
      cbn [app] in X5.
      pose proof (ext_trans _ _ _ _ _ _ _ X5 Xc) as X6.
      pose proof (ext_trans _ _ _ _ _ _ _ X6 Xt) as X7.
      pose proof (ext_trans _ _ _ _ _ _ _ X7 Xf) as X8.
      exists (Nf ++ Nt ++ Nc ++ [res; flag]), (If ++ It ++ Ic ++ [i3; i2; i1]).
      split; [exact X8|].
      destruct X5 as (Ev5 & Ei5 & Fv5 & Fi5). destruct Xc as (Ev6 & Ei6 & Fv6 & Fi6).
      destruct Xt as (Ev7 & Ei7 & Fv7 & Fi7). destruct Xf as (Ev8 & Ei8 & Fv8 & Fi8).
      split; [|split; [|split; [|split]]].
      + intros x [<-|[]]. rewrite !in_app_iff. right. right. right. right. now left.
      + assert (W : forall N0 n, emitted tcnd N0 n \/ emitted fcnd N0 n \/ emitted cond N0 n ->
                                 incl N0 (Nf ++ Nt ++ Nc ++ [res; flag]) ->
                                 emitted cond (Nf ++ Nt ++ Nc ++ [res; flag]) n).
        { intros N0 n Hn Hi. assert (G : gext cond (tcond n) /\ incl (swr n) N0).
          { destruct Hn as [[A B]|[[A B]|[A B]]]; (split; [|exact B]).
            - eapply gext_trans; [apply gext_flat_and|exact A].
            - eapply gext_trans; [apply gext_flat_and|exact A].
            - exact A. }
          destruct G as [A B]. split; [exact A|]. intros x Hx. apply Hi, B, Hx. }
        cbn [app]. apply Forall_app. split.
        { eapply Forall_impl; [|exact Mc]. intros n Hn. apply (W Nc n); [tauto|].
          intros x Hx. rewrite !in_app_iff. tauto. }
        constructor.
        { apply (W [flag]); [right; right; split; [apply gext_refl|apply incl_refl]|].
          intros x [<-|[]]. rewrite !in_app_iff. right. right. right. right. left. reflexivity. }
        apply Forall_app. split.
        { eapply Forall_impl; [|exact Mt]. intros n Hn. apply (W Nt n); [tauto|].
          intros x Hx. rewrite !in_app_iff. tauto. }
        apply Forall_app. split.
        { eapply Forall_impl; [|exact Mf]. intros n Hn. apply (W Nf n); [tauto|].
          intros x Hx. rewrite !in_app_iff. tauto. }
        constructor; [|constructor; [|constructor]].
        { apply (W [res]); [left; split; [apply gext_refl|apply incl_refl]|].
          intros x [<-|[]]. rewrite !in_app_iff. right. right. right. now left. }
        { apply (W [res]); [right; left; split; [apply gext_refl|apply incl_refl]|].
          intros x [<-|[]]. rewrite !in_app_iff. right. right. right. now left. }
      + intros x.
        repeat (rewrite map_app || rewrite count_occ_app || cbn [map app tid count_occ]).
        rewrite Dc.
        destruct (string_dec i1 x), (string_dec i2 x), (string_dec i3 x);
          repeat (rewrite map_app || rewrite count_occ_app || cbn [map app tid count_occ]);
          rewrite ?Dt, ?Df; lia.
      + intros x [<-|[<-|[]]]; rewrite !in_app_iff; right; right; right; cbn; tauto.
      + intros Hv Hcv. cbn [vars] in Hv.
        assert (Hvc : incl (vars c) (ex (gvars st))) by (intros x Hx; apply Hv; rewrite !in_app_iff; tauto).
        assert (Hvt : incl (vars t) (ex (gvars st))) by (intros x Hx; apply Hv; rewrite !in_app_iff; tauto).
        assert (Hve : incl (vars e) (ex (gvars st))) by (intros x Hx; apply Hv; rewrite !in_app_iff; tauto).
        assert (O5 : incl (ex (gvars st)) (ex (gvars st5))) by (intros x Hx; rewrite Ev5; right; right; exact Hx).
        assert (Fl5 : In flag (ex (gvars st5))) by (rewrite Ev5; right; now left).
        assert (Rs5 : In res (ex (gvars st5))) by (rewrite Ev5; now left).
        assert (O6 : incl (ex (gvars st5)) (ex (gvars st6))) by (intros x Hx; rewrite Ev6; apply in_app_iff; now right).
        assert (O7 : incl (ex (gvars st6)) (ex (gvars st7))) by (intros x Hx; rewrite Ev7; apply in_app_iff; now right).
        assert (Hres_flag : res <> flag).
        { intros ->. destruct X2 as (_ & _ & (Nd & _) & _). cbn in Nd. inversion Nd as [|? ? Hn _]. apply Hn. now left. }
        assert (Hflag_old : ~ In flag (ex (gvars st))).
        { destruct Fv5 as (_ & Fr). apply Fr. right. now left. }
        assert (Hres_old : ~ In res (ex (gvars st))).
        { destruct Fv5 as (_ & Fr). apply Fr. now left. }
        assert (Htv : incl (vars tcnd) (ex (gvars st6))).
        { intros x Hx. apply vars_flat_and in Hx. destruct Hx as [Hx|[<-|[]]]; apply O6; [apply O5, Hcv, Hx|exact Fl5]. }
        assert (Hfv : incl (vars fcnd) (ex (gvars st7))).
        { intros x Hx. apply vars_flat_and in Hx. destruct Hx as [Hx|[<-|[]]]; apply O7, O6; [apply O5, Hcv, Hx|exact Fl5]. }
        specialize (Hhc (fun x Hx => O5 x (Hvc x Hx)) (fun x Hx => O5 x (Hcv x Hx))).
        specialize (Hht (fun x Hx => O6 x (O5 x (Hvt x Hx))) Htv).
        specialize (Hhf (fun x Hx => O7 x (O6 x (O5 x (Hve x Hx)))) Hfv).
        pose proof (hoisted_ite cond c t e c' t' f' nc nt nf Nc Nt Nf flag res i1 i2 i3
                      (bdeps ++ xc) (bdeps ++ xt ++ [i1]) (bdeps ++ xf ++ [i1]) Hhc Hht Hhf) as HH.
        cbv zeta in HH. fold tcnd fcnd in HH.
        eapply hoisted_weaken; [|apply HH].
        * intros x Hx. rewrite !in_app_iff in *. cbn in *. tauto.
        * eapply Forall_impl; [|exact Mt]. intros n [A _]. exact A.
        * eapply Forall_impl; [|exact Mf]. intros n [A _]. exact A.
        * intros x Hx Hin. apply (in_fresh_not_old _ _ _ Fv6 Hx). apply O5.
          rewrite !in_app_iff in Hin. destruct Hin as [Hin|[Hin|Hin]]; auto.
        * intros Hin. apply Hflag_old. rewrite !in_app_iff in Hin. destruct Hin as [Hin|[Hin|Hin]]; auto.
        * intros x Hx. split.
          -- intros Hin. apply (in_fresh_not_old _ _ _ Fv7 Hx). apply O6, O5, Hcv, Hin.
          -- intros ->. apply (in_fresh_not_old _ _ _ Fv7 Hx). apply O6, Fl5.
        * intros x Hx. split.
          -- intros Hin. apply (in_fresh_not_old _ _ _ Fv8 Hx). apply O7, O6, O5, Hcv, Hin.
          -- intros ->. apply (in_fresh_not_old _ _ _ Fv8 Hx). apply O7, O6, Fl5.
        * intros Hin. apply Hres_old, Hcv, Hin.
        * exact Hres_flag.
    - rewrite ite_bin. unfold ite_ok in *. cbn [strict_ok] in H.
      apply andb_true_iff in H. destruct H as [H1 H2].
      apply wspec_bin; [now apply IHa|now apply IHb].
    - rewrite ite_nary. unfold ite_ok in *. cbn [strict_ok] in H.
      destruct (is_lazy o) eqn:Ho.
      + destruct l as [|a l]; [apply wspec_lazy_nil|].
        apply andb_true_iff in H. destruct H as [H1 H2].
        inversion IH as [|? ? IH1 IH2]; subst.
        cbn [map]. apply wspec_lazy_head; [exact Ho|now apply IH1|].
        apply (Forall2_map_r cid (fun a => ite true a cond bdeps)). apply Forall_forall. intros x Hx.
        rewrite forallb_forall in H2. apply ite_clean_id. apply negb_true_iff. auto.
      + apply wspec_strict; [exact Ho|].
        apply (Forall2_map_r (cspec cond) (fun a => ite true a cond bdeps)). apply Forall_forall. intros x Hx.
        rewrite Forall_forall in IH. rewrite forallb_forall in H. apply IH; auto.
  Qed.
End Mappers.
