(* C12 -- Part B2: the operations of the machine (alloc_check, deinit, move, use) on states
   that satisfy refcount_inv: they succeed, keep the invariant and change only the named
   variable. *)
From Coq Require Import List Arith Bool Lia ZifyBool.
Import ListNotations.
From Dagrt Require Import Refcount RefcountBase RefcountOps.

Definition is_src (f : fault) : Prop := exists x, f = SrcUndefined x.

Lemma alloc_check_spec U x st :
  NoDup U -> In x U -> refcount_inv U st ->
  exists st', alloc_check x st = ONormal st' /\ refcount_inv U st' /\
              vars st' x <> None /\
              (forall y, y <> x -> vars st' y = vars st y) /\
              (forall y, defd st' y = upd (defd st) x true y).
Proof.
  intros ND Hin Hinv. unfold alloc_check. cbn.
  destruct (vars st x) as [b|] eqn:Vx.
  - destruct (cnt st b) as [n|] eqn:Cb.
    + destruct n as [|[|n]].
      * exfalso. destruct Hinv as (I1 & _). destruct (I1 b 0 Cb). lia.
      * eexists. split; [reflexivity|]. unfold refcount_inv. cbn. split; [|split; [|split]].
        -- exact Hinv.
        -- rewrite Vx. discriminate.
        -- reflexivity.
        -- reflexivity.
      * eexists. split; [reflexivity|]. unfold refcount_inv. cbn. split; [|split; [|split]].
        -- apply hole_fill_fresh; auto. eapply hole_of_shared; eauto.
        -- rewrite upd_same. discriminate.
        -- intros y Hy. now rewrite upd_other.
        -- reflexivity.
    + exfalso. destruct Hinv as (_ & I2 & _). apply (I2 x b Hin Vx Cb).
  - eexists. split; [reflexivity|]. unfold refcount_inv. cbn. split; [|split; [|split]].
    + apply hole_fill_fresh; auto. apply hole_of_null; auto.
    + rewrite upd_same. discriminate.
    + intros y Hy. now rewrite upd_other.
    + reflexivity.
Qed.

Lemma deinit_spec U x st :
  NoDup U -> In x U -> refcount_inv U st ->
  exists st', deinit x st = ONormal st' /\ refcount_inv U st' /\
              vars st' x = None /\
              (forall y, y <> x -> vars st' y = vars st y) /\
              defd st' = defd st /\ nph st' = nph st.
Proof.
  intros ND Hin Hinv. unfold deinit. cbn.
  destruct (vars st x) as [b|] eqn:Vx.
  - destruct (cnt st b) as [n|] eqn:Cb.
    + destruct n as [|[|n]].
      * exfalso. destruct Hinv as (I1 & _). destruct (I1 b 0 Cb). lia.
      * eexists. split; [reflexivity|]. unfold refcount_inv. cbn. split; [|split; [|split]].
        -- apply hole_fill_null. eapply hole_of_sole; eauto.
        -- apply upd_same.
        -- intros y Hy. now rewrite upd_other.
        -- auto.
      * eexists. split; [reflexivity|]. unfold refcount_inv. cbn. split; [|split; [|split]].
        -- apply hole_fill_null. eapply hole_of_shared; eauto.
        -- apply upd_same.
        -- intros y Hy. now rewrite upd_other.
        -- auto.
    + exfalso. destruct Hinv as (_ & I2 & _). apply (I2 x b Hin Vx Cb).
  - eexists. split; [reflexivity|]. unfold refcount_inv. cbn. split; [|split; [|split]]; auto.
Qed.

(* the state in the middle of a move: d has been released, the count of d's old block adjusted *)
Lemma deinit_hole U x st :
  NoDup U -> In x U -> refcount_inv U st ->
  exists st', deinit x st = ONormal st' /\
              hole U x (vars st') (cnt st') (nxt st') (frees st') /\
              vars st' x = None /\
              (forall y, y <> x -> vars st' y = vars st y) /\
              defd st' = defd st.
Proof.
  intros ND Hin Hinv. destruct (deinit_spec U x st ND Hin Hinv) as (st' & E & I & Vx & Fr & D & _).
  exists st'. split; [assumption|]. split; [apply hole_of_null; assumption|]. auto.
Qed.

Lemma move_spec U d s st :
  NoDup U -> In d U -> In s U -> s <> d -> refcount_inv U st ->
  (defd st s = false /\ move d s st = OFault (SrcUndefined s) st) \/
  (defd st s = true /\ vars st s = None /\ exists st', move d s st = OFault (UseNull s) st') \/
  (defd st s = true /\ vars st s <> None /\
   exists st', move d s st = ONormal st' /\ refcount_inv U st' /\
               vars st' d <> None /\
               (forall y, y <> d -> vars st' y = vars st y) /\
               (forall y, defd st' y = upd (defd st) d true y)).
Proof.
  intros ND Hd Hs Hne Hinv. unfold move.
  destruct (defd st s) eqn:Ds; [right | left; auto].
  destruct (deinit_hole U d st ND Hd Hinv) as (st1 & E & Hh & Vd & Fr & D).
  rewrite E. rewrite (Fr s Hne).
  destruct (vars st s) as [b|] eqn:Vs.
  - right. split; [reflexivity|]. split; [discriminate|].
    assert (Cb : cnt st1 b <> None).
    { destruct Hh as (_ & I2 & _). apply (I2 s b Hs Hne). now rewrite (Fr s Hne). }
    destruct (cnt st1 b) as [n|] eqn:Cb'; [|congruence].
    eexists. split; [reflexivity|]. unfold refcount_inv. cbn. split; [|split; [|split]].
    + eapply hole_fill_share; eauto. now rewrite (Fr s Hne).
    + rewrite upd_same. discriminate.
    + intros y Hy. rewrite upd_other by assumption. auto.
    + intros y. now rewrite D.
  - left. repeat split; auto. eexists. reflexivity.
Qed.

Lemma use_spec U x st :
  In x U -> refcount_inv U st ->
  (defd st x = false /\ use x st = OFault (SrcUndefined x) st) \/
  (defd st x = true /\ vars st x = None /\ use x st = OFault (UseNull x) st) \/
  (defd st x = true /\ vars st x <> None /\ use x st = ONormal st).
Proof.
  intros Hin Hinv. unfold use. destruct (defd st x); [right | left; auto].
  destruct (vars st x) as [b|] eqn:Vx.
  - right. repeat split; try discriminate.
    destruct (cnt st b) eqn:Cb; [reflexivity|].
    exfalso. destruct Hinv as (_ & I2 & _). apply (I2 x b Hin Vx Cb).
  - left. auto.
Qed.
