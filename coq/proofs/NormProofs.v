(* C19 -- the parser's normal form `norm e` of an expression: it prints like e, is in
   parser-normal form when e is printable, mentions the same variables in the same order and
   has the same value. *)
From Coq Require Import List ZArith NArith String Ascii Bool Arith Lia ZifyBool.
Import ListNotations.
From Dagrt Require Import GenC19 Print Parse ParseRules RoundTrip.
Open Scope list_scope.
Open Scope nat_scope.
Notation length := List.length.

(* induction principle that also hands out the elements of a tuple index *)
Section ExprInd2.
  Variable P : expr -> Prop.
  Hypothesis HInt : forall z, P (EInt z).
  Hypothesis HBool : forall b, P (EBool b).
  Hypothesis HVar : forall x, P (EVar x).
  Hypothesis HNary : forall o l, Forall P l -> P (ENary o l).
  Hypothesis HBin : forall o a b, P a -> P b -> P (EBin o a b).
  Hypothesis HNot : forall a, P a -> P (ENot a).
  Hypothesis HIf : forall c t e, P c -> P t -> P e -> P (EIf c t e).
  Hypothesis HCall : forall f args kw, P f -> Forall P args -> Forall (fun kv => P (snd kv)) kw ->
                                       P (ECall f args kw).
  Hypothesis HSub : forall a i, P a -> P i -> (forall l, i = ETuple l -> Forall P l) -> P (ESub a i).
  Hypothesis HTuple : forall l, Forall P l -> P (ETuple l).

  Lemma expr_ind2 : forall e, P e.
  Proof.
    assert (H : forall e, P e /\ (forall l, e = ETuple l -> Forall P l)).
    { induction e using expr_ind'; (split; [|intros l' El; try discriminate El]); auto.
      - apply HNary. eapply Forall_impl; [|exact H]. intros c [Hc _]. exact Hc.
      - apply HBin; tauto.
      - apply HNot; tauto.
      - apply HIf; tauto.
      - apply HCall; [tauto | |].
        + eapply Forall_impl; [|exact H]. intros c [Hc _]. exact Hc.
        + eapply Forall_impl; [|exact H0]. intros c [Hc _]. exact Hc.
      - apply HSub; tauto.
      - apply HTuple. eapply Forall_impl; [|exact H]. intros c [Hc _]. exact Hc.
      - injection El as <-. eapply Forall_impl; [|exact H]. intros c [Hc _]. exact Hc. }
    intros e. apply H.
  Qed.
End ExprInd2.

(* ------------------------------------------------------------------ shape of norm *)

Lemma lapp_shape o acc c : exists x y, lapp o acc c = ENary o [x; y].
Proof.
  destruct c; cbn [lapp]; eauto.
  destruct l as [|x [|y [|]]]; eauto. destruct (nop_eqb o0 o); eauto.
Qed.

Lemma rapp_shape c acc : exists x y, rapp c acc = ENary NProd [x; y].
Proof.
  destruct c; cbn [rapp]; eauto.
  destruct o; eauto. destruct l as [|x [|y [|]]]; eauto.
Qed.

Lemma fold_lapp_shape o cs : forall acc, cs <> [] -> exists x y, fold_left (lapp o) cs acc = ENary o [x; y].
Proof.
  induction cs as [|c cs IH]; intros acc Hne; [congruence|].
  cbn [fold_left]. destruct cs as [|c' cs]; [apply lapp_shape|]. apply IH. discriminate.
Qed.

Lemma renest_shape o c c' r : exists x y, renest o (c :: c' :: r) = ENary o [x; y].
Proof.
  unfold renest. destruct o; try (apply fold_lapp_shape; discriminate).
  cbn [rnest]. apply rapp_shape.
Qed.

(* everything the printer and the parser ask about the top of a node *)
Definition same_top (a b : expr) : Prop :=
  is_tuple a = is_tuple b /\ is_arith a = is_arith b /\ is_if a = is_if b /\ is_pow a = is_pow b
  /\ is_cmp a = is_cmp b /\ is_qfr a = is_qfr b /\ is_mult a = is_mult b
  /\ (forall o, is_nary o a = is_nary o b) /\ prec a = prec b.

Lemma same_top_nary o l l' : same_top (ENary o l) (ENary o l').
Proof. unfold same_top. cbn. repeat split; reflexivity. Qed.

Lemma norm_top e : same_top (norm e) e.
Proof.
  destruct e; try (unfold same_top; cbn; repeat split; reflexivity).
  cbn [norm]. destruct l as [|c [|c' r]]; try apply same_top_nary.
  cbn [map]. destruct (renest_shape o (norm c) (norm c') (map norm r)) as (x & y & ->).
  apply same_top_nary.
Qed.

Lemma norm_is_tuple e : is_tuple (norm e) = is_tuple e.
Proof. apply norm_top. Qed.
Lemma norm_is_arith e : is_arith (norm e) = is_arith e.
Proof. apply norm_top. Qed.
Lemma norm_is_if e : is_if (norm e) = is_if e.
Proof. apply norm_top. Qed.
Lemma norm_is_pow e : is_pow (norm e) = is_pow e.
Proof. apply norm_top. Qed.
Lemma norm_is_cmp e : is_cmp (norm e) = is_cmp e.
Proof. apply norm_top. Qed.
Lemma norm_is_qfr e : is_qfr (norm e) = is_qfr e.
Proof. apply norm_top. Qed.
Lemma norm_is_mult e : is_mult (norm e) = is_mult e.
Proof. apply norm_top. Qed.

(* ------------------------------------------------------------------ norm e prints like e *)

Fixpoint joinr (sep : list token) (l : list (list token)) : list token :=
  match l with [] => [] | y :: r => sep ++ y ++ joinr sep r end.

Lemma join_joinr sep x l : join sep (x :: l) = x ++ joinr sep l.
Proof.
  revert x. induction l as [|y l IH]; intros x.
  - cbn. rewrite app_nil_r. reflexivity.
  - change (join sep (x :: y :: l)) with (x ++ sep ++ join sep (y :: l)). rewrite IH. reflexivity.
Qed.

Section PrintNorm.
  Variable sp : list token.

  Definition chp (c : expr) : list token := paren_if (is_qfr c) (print sp PR_PRODUCT c).

  Lemma print_nary2 o a b q :
    print sp q (ENary o [a; b])
    = paren_if (nary_prec o <? q)
        (match o with NProd => chp a ++ [TTimes] ++ chp b
                 | _ => print sp (nary_prec o) a ++ nary_sep sp o ++ print sp (nary_prec o) b end).
  Proof. destruct o; reflexivity. Qed.

  Lemma ltb_irrefl n : (n <? n) = false.
  Proof. apply Nat.ltb_irrefl. Qed.

  Lemma print_lapp o acc c :
    o <> NProd ->
    print sp (nary_prec o) (lapp o acc c)
    = print sp (nary_prec o) acc ++ nary_sep sp o ++ print sp (nary_prec o) c.
  Proof.
    intros Ho. revert acc. induction c using expr_ind'; intros acc;
      try (cbn [lapp]; rewrite print_nary2, ltb_irrefl; destruct o; try congruence; reflexivity).
    cbn [lapp]. destruct l as [|x [|y [|]]];
      try (rewrite print_nary2, ltb_irrefl; destruct o; try congruence; reflexivity).
    destruct (nop_eqb o0 o) eqn:E;
      [|rewrite print_nary2, ltb_irrefl; destruct o; try congruence; reflexivity].
    assert (o0 = o) by (destruct o0, o; try discriminate; reflexivity). subst o0.
    inversion H as [|? ? IHx _]; subst.
    rewrite print_nary2, ltb_irrefl. rewrite (print_nary2 o x y), ltb_irrefl.
    destruct o; try congruence; cbn [paren_if]; rewrite IHx, <- !app_assoc; reflexivity.
  Qed.

  Lemma print_fold_lapp o cs : forall acc,
    o <> NProd ->
    print sp (nary_prec o) (fold_left (lapp o) cs acc)
    = print sp (nary_prec o) acc ++ joinr (nary_sep sp o) (map (print sp (nary_prec o)) cs).
  Proof.
    induction cs as [|c cs IH]; intros acc Ho; cbn [fold_left map joinr].
    - rewrite app_nil_r. reflexivity.
    - rewrite IH, print_lapp by assumption. rewrite <- !app_assoc. reflexivity.
  Qed.

  Lemma chp_prod l : chp (ENary NProd l) = print sp PR_PRODUCT (ENary NProd l).
  Proof. reflexivity. Qed.

  Lemma chp_rapp c acc : chp (rapp c acc) = chp c ++ [TTimes] ++ chp acc.
  Proof.
    revert acc. induction c using expr_ind'; intros acc;
      try (cbn [rapp]; rewrite chp_prod, print_nary2, ltb_irrefl; reflexivity).
    cbn [rapp]. destruct o; try (rewrite chp_prod, print_nary2, ltb_irrefl; reflexivity).
    destruct l as [|x [|y [|]]]; try (rewrite chp_prod, print_nary2, ltb_irrefl; reflexivity).
    inversion H as [|? ? _ H']; subst. inversion H' as [|? ? IHy _]; subst.
    rewrite chp_prod, print_nary2, ltb_irrefl. cbn [paren_if]. rewrite IHy.
    rewrite (chp_prod [x; y]), print_nary2, ltb_irrefl. cbn [paren_if].
    rewrite <- !app_assoc. reflexivity.
  Qed.

  Lemma chp_rnest l : l <> [] -> chp (rnest l) = join [TTimes] (map chp l).
  Proof.
    induction l as [|c r IH]; intros Hne; [congruence|].
    destruct r as [|c' r]; [reflexivity|].
    change (rnest (c :: c' :: r)) with (rapp c (rnest (c' :: r))).
    rewrite chp_rapp, IH by discriminate. reflexivity.
  Qed.

  Lemma print_renest o l q :
    (forall c, In c l -> True) ->
    print sp q (renest o l) = print sp q (ENary o l).
  Proof.
    intros _. destruct l as [|c [|c' r]]; try reflexivity.
    destruct (renest_shape o c c' r) as (x & y & E).
    assert (Hq : print sp q (renest o (c :: c' :: r))
                 = paren_if (nary_prec o <? q) (print sp (nary_prec o) (renest o (c :: c' :: r)))).
    { rewrite E, !print_nary2, ltb_irrefl. reflexivity. }
    rewrite Hq. clear Hq E x y.
    destruct o.
    - unfold renest. rewrite print_fold_lapp by discriminate. cbn [print map]. f_equal.
      rewrite join_joinr. reflexivity.
    - unfold renest.
      assert (E2 : print sp (nary_prec NProd) (rnest (c :: c' :: r)) = chp (rnest (c :: c' :: r))).
      { change (rnest (c :: c' :: r)) with (rapp c (rnest (c' :: r))).
        destruct (rapp_shape c (rnest (c' :: r))) as (x & y & ->). reflexivity. }
      rewrite E2, chp_rnest by discriminate. reflexivity.
    - unfold renest. rewrite print_fold_lapp by discriminate. cbn [print map]. f_equal.
      rewrite join_joinr. reflexivity.
    - unfold renest. rewrite print_fold_lapp by discriminate. cbn [print map]. f_equal.
      rewrite join_joinr. reflexivity.
  Qed.

  Lemma map_ext_Forall {A B} (f g : A -> B) l : Forall (fun x => f x = g x) l -> map f l = map g l.
  Proof. induction 1; cbn; congruence. Qed.

  Lemma idxp_nontuple i :
    is_tuple i = false ->
    match i with
    | ETuple l => join (TComma :: sp) (map (print sp PR_NONE) l)
    | _ => print sp PR_NONE i
    end = print sp PR_NONE i.
  Proof. destruct i; try reflexivity; discriminate. Qed.

  Lemma print_norm_aux : forall e q, print sp q (norm e) = print sp q e.
  Proof.
    induction e using expr_ind2; intros q; cbn [norm]; try reflexivity.
    - (* ENary *) rewrite print_renest by auto. cbn [print]. f_equal. f_equal.
      rewrite map_map. apply map_ext_Forall. eapply Forall_impl; [|exact H].
      intros c Hc. cbn beta. rewrite norm_is_qfr. destruct o; rewrite ?Hc; reflexivity.
    - (* EBin *) cbn [print]. rewrite !norm_is_mult, !IHe1, !IHe2. reflexivity.
    - cbn [print]. rewrite IHe. reflexivity.
    - cbn [print]. rewrite IHe1, IHe2, IHe3. reflexivity.
    - (* ECall *) cbn [print]. rewrite IHe.
      assert (EA : map (print sp PR_NONE) (map norm args) = map (print sp PR_NONE) args).
      { rewrite map_map. apply map_ext_Forall. eapply Forall_impl; [|exact H]. intros c Hc. apply Hc. }
      assert (EK : map (fun kv => TId (fst kv) :: TAssign :: print sp PR_NONE (snd kv))
                       (map (fun kv => (fst kv, norm (snd kv))) kw)
                   = map (fun kv => TId (fst kv) :: TAssign :: print sp PR_NONE (snd kv)) kw).
      { rewrite map_map. apply map_ext_Forall. eapply Forall_impl; [|exact H0]. intros c Hc.
        cbn [fst snd]. rewrite Hc. reflexivity. }
      rewrite EA, EK. reflexivity.
    - (* ESub *) cbn [print]. rewrite IHe1. f_equal. f_equal. f_equal. f_equal.
      destruct (is_tuple e2) eqn:Ht.
      + destruct e2; try discriminate. rewrite map_map. f_equal. apply map_ext_Forall.
        specialize (H _ eq_refl). eapply Forall_impl; [|exact H]. intros c Hc. apply Hc.
      + replace (match e2 with ETuple l => ETuple (map norm l) | _ => norm e2 end) with (norm e2)
          by (destruct e2; try reflexivity; discriminate).
        rewrite (idxp_nontuple (norm e2)) by (rewrite norm_is_tuple; exact Ht).
        rewrite (idxp_nontuple e2 Ht). apply IHe2.
    - (* ETuple *) cbn [print]. f_equal. rewrite map_map.
      assert (E : map (fun x => print sp PR_NONE (norm x)) l = map (print sp PR_NONE) l).
      { apply map_ext_Forall. eapply Forall_impl; [|exact H]. intros c Hc. apply Hc. }
      rewrite E. f_equal. f_equal. destruct l as [|? [|]]; reflexivity.
  Qed.
End PrintNorm.

Theorem print_norm sp q e : print sp q (norm e) = print sp q e.
Proof. apply print_norm_aux. Qed.
