(* Lemmas about the table part of the kind-inference model (SymbolKindTable.set, lookups). *)
From Coq Require Import List String Bool Arith Lia.
Import ListNotations.
From Dagrt Require Import Unify UnifyProofs KindOrder KindInfer KindInferProofs.
Close Scope string_scope.
Open Scope list_scope.

Lemma key_eqb_eq : forall a b : key, key_eqb a b = true <-> a = b.
Proof.
  intros [[p|] x] [[q|] y]; unfold key_eqb; cbn; rewrite ?andb_true_iff, ?String.eqb_eq; split;
    try (intros [H1 H2]; try discriminate; congruence);
    try (intros [= -> ->]; auto); try (intros [= ->]; auto); intros [= ]; auto.
Qed.

Lemma key_eqb_refl : forall a, key_eqb a a = true.
Proof. intro a; apply key_eqb_eq; reflexivity. Qed.

Lemma tfind_app : forall t ky v k,
  tfind (t ++ [(ky, v)]) k =
  match tfind t k with Some x => Some x | None => if key_eqb k ky then Some v else None end.
Proof.
  induction t as [|[k' v'] r IH]; intros ky v k; cbn.
  - reflexivity.
  - destruct (key_eqb k k'); [reflexivity|apply IH].
Qed.

Lemma tfind_tupd_same : forall t ky v old, tfind t ky = Some old -> tfind (tupd t ky v) ky = Some v.
Proof.
  induction t as [|[k' v'] r IH]; intros ky v old; cbn; [discriminate|].
  destruct (key_eqb ky k') eqn:E; cbn; rewrite E; [reflexivity|apply IH].
Qed.

Lemma tfind_tupd_other : forall t ky v k, k <> ky -> tfind (tupd t ky v) k = tfind t k.
Proof.
  induction t as [|[k' v'] r IH]; intros ky v k Hne; cbn; [reflexivity|].
  destruct (key_eqb ky k') eqn:E; cbn.
  - apply key_eqb_eq in E. subst k'.
    destruct (key_eqb k ky) eqn:E2; [apply key_eqb_eq in E2; contradiction|reflexivity].
  - destruct (key_eqb k k'); [reflexivity|apply IH; assumption].
Qed.

Definition tle (T L : table) : Prop :=
  forall ky k, tfind T ky = Some k -> exists k', tfind L ky = Some k' /\ kle k k'.

Lemma tle_refl : forall T, tle T T.
Proof. intros T ky k H; exists k; split; [assumption|apply kle_refl]. Qed.

Lemma tle_trans : forall A B C, tle A B -> tle B C -> tle A C.
Proof.
  intros A B C H1 H2 ky k H. destruct (H1 _ _ H) as [k1 [E1 L1]]. destruct (H2 _ _ E1) as [k2 [E2 L2]].
  exists k2; split; [assumption|eapply kle_trans; eassumption].
Qed.

Lemma tle_antisym : forall A B, tle A B -> tle B A -> table_equiv A B.
Proof.
  intros A B H1 H2 ky. destruct (tfind A ky) as [k|] eqn:EA.
  - destruct (H1 _ _ EA) as [k1 [E1 L1]]. destruct (H2 _ _ E1) as [k2 [E2 L2]].
    rewrite EA in E2. injection E2 as <-. rewrite E1. f_equal. apply kle_antisym; assumption.
  - destruct (tfind B ky) as [k|] eqn:EB; [|reflexivity].
    destruct (H2 _ _ EB) as [k2 [E2 _]]. congruence.
Qed.

Definition nonone (T : table) : Prop := forall ky k, tfind T ky = Some k -> k <> None.

Lemma has_phase_false : forall t p x, has_phase t p = false -> tfind t (Some p, x) = None.
Proof.
  induction t as [|[[[q|] y] v] r IH]; intros p x; cbn; [reflexivity| |].
  - intro H. apply orb_false_iff in H. destruct H as [H1 H2].
    unfold key_eqb; cbn. rewrite H1. cbn. apply IH; assumption.
  - intro H. unfold key_eqb; cbn. apply IH; assumption.
Qed.

Lemma lookup_kim_same : forall t p x, lookup_kim t t p x = lookup t p x.
Proof.
  intros t p x. unfold lookup_kim, lookup. destruct (tfind t (None, x)); [reflexivity|].
  destruct (has_phase t p) eqn:E; [reflexivity|]. symmetry; apply has_phase_false; assumption.
Qed.

Lemma lookup_kim_sub : forall t0 t p x k, lookup_kim t0 t p x = Some k -> lookup t p x = Some k.
Proof.
  intros t0 t p x k. unfold lookup_kim, lookup. destruct (tfind t (None, x)); [auto|].
  destruct (has_phase t0 p); [auto|discriminate].
Qed.

Lemma lookup_nonone : forall T p, nonone T -> lk_nonone (lookup T p).
Proof.
  intros T p Hn x k. unfold lookup. destruct (tfind T (None, x)) eqn:E.
  - intros [= <-]. eapply Hn; eassumption.
  - intro H. eapply Hn; eassumption.
Qed.

Lemma lookup_kim_nonone : forall t0 T p, nonone T -> lk_nonone (lookup_kim t0 T p).
Proof.
  intros t0 T p Hn x k H. apply lookup_kim_sub in H. eapply lookup_nonone; eassumption.
Qed.

Section Tables.
  Variable c : cfg.
  Hypothesis Hut : c_ut_int c = true.
  Hypothesis Harr : c_arr_int c = true.

  (* (None, x) only for state variables, (Some p, x) only for the others *)
  Definition canon (T : table) : Prop :=
    forall ky v, tfind T ky = Some v ->
      match fst ky with None => c_is_state c (snd ky) = true | Some _ => c_is_state c (snd ky) = false end.

  Definition good (st : tstate) : Prop := canon (tbl st) /\ nonone (tbl st).

  Lemma key_of_canon : forall p x,
    match fst (key_of c p x) with None => c_is_state c (snd (key_of c p x)) = true
                                | Some _ => c_is_state c (snd (key_of c p x)) = false end.
  Proof. intros p x. unfold key_of. destruct (c_is_state c x) eqn:E; cbn; assumption. Qed.

  Lemma lookup_canon : forall T p x, canon T -> lookup T p x = tfind T (key_of c p x).
  Proof.
    intros T p x Hc. unfold lookup, key_of.
    destruct (c_is_state c x) eqn:E.
    - destruct (tfind T (None, x)) eqn:E1; [reflexivity|].
      destruct (tfind T (Some p, x)) eqn:E2; [|reflexivity].
      apply Hc in E2. cbn in E2. congruence.
    - destruct (tfind T (None, x)) eqn:E1; [|reflexivity].
      apply Hc in E1. cbn in E1. congruence.
  Qed.

  Lemma lookup_le : forall T L p, canon T -> canon L -> tle T L -> lk_le (lookup T p) (lookup L p).
  Proof.
    intros T L p HT HL Hle x k. rewrite (lookup_canon T p x HT), (lookup_canon L p x HL). apply Hle.
  Qed.

  Lemma lookup_kim_le : forall t0 T L p, canon T -> canon L -> tle T L ->
    lk_le (lookup_kim t0 T p) (lookup L p).
  Proof.
    intros t0 T L p HT HL Hle x k H. apply lookup_kim_sub in H. exact (lookup_le T L p HT HL Hle x k H).
  Qed.

  (* ---------------------------------------------------------------- SymbolKindTable.set *)

  Lemma tset_inv : forall st p x k st', tset c st p x k = Ok st' ->
    let ky := key_of c p x in
    (tfind (tbl st) ky = None /\ tbl st' = tbl st ++ [(ky, k)]
       /\ changed st' = (if c_ins_changed c then true else changed st) /\ swallowed st' = swallowed st)
    \/ (exists old, tfind (tbl st) ky = Some old /\
         ((old = k /\ st' = st)
          \/ (old <> k /\ (exists e, UU k old = Err e) /\ c_set_raises c = false
                /\ tbl st' = tbl st /\ changed st' = changed st /\ swallowed st' = true)
          \/ (old <> k /\ UU k old = Ok old /\ st' = st)
          \/ (old <> k /\ exists k', UU k old = Ok k' /\ k' <> old /\ tbl st' = tupd (tbl st) ky k'
                /\ changed st' = true /\ swallowed st' = swallowed st))).
  Proof.
    intros st p x k st' H ky. unfold tset in H. fold ky in H.
    destruct (tfind (tbl st) ky) as [old|] eqn:E.
    - right. exists old. split; [reflexivity|].
      destruct (okind_eqb old k) eqn:Eq.
      + apply okind_eqb_eq in Eq. injection H as <-. left; auto.
      + apply okind_eqb_neq in Eq. rewrite (Uc c Hut Harr) in H.
        destruct (UU k old) as [k'|e] eqn:EU.
        * destruct (okind_eqb old k') eqn:Eq2.
          -- apply okind_eqb_eq in Eq2. subst k'. injection H as <-. right; right; left; auto.
          -- apply okind_eqb_neq in Eq2. injection H as <-. right; right; right. split; [assumption|].
             exists k'. cbn. repeat split; auto.
        * destruct (c_set_raises c) eqn:Er; [discriminate|]. injection H as <-.
          right; left. cbn. repeat split; eauto.
    - left. injection H as <-. cbn. auto.
  Qed.

  Lemma tset_good : forall st p x k st', good st -> k <> None -> tset c st p x k = Ok st' -> good st'.
  Proof.
    intros st p x k st' [Hc Hn] Hk H. apply tset_inv in H. cbn in H.
    destruct H as [[E [Et _]]|[old [E [[_ ->]|[[_ [_ [_ [Et _]]]]|[[_ [_ ->]]|[_ [k' [EU [_ [Et _]]]]]]]]]]].
    - split; intros ky v; rewrite Et, tfind_app; destruct (tfind (tbl st) ky) eqn:E2.
      + intros [= <-]. eapply Hc; eassumption.
      + destruct (key_eqb ky (key_of c p x)) eqn:E3; [|discriminate].
        apply key_eqb_eq in E3. subst ky. intros _. apply key_of_canon.
      + intros [= <-]. eapply Hn; eassumption.
      + destruct (key_eqb ky (key_of c p x)); [|discriminate]. intros [= <-]. assumption.
    - split; assumption.
    - split; rewrite Et; assumption.
    - split; assumption.
    - assert (Hk' : k' <> None) by (eapply UU_some_l; eassumption).
      split; intros ky v; rewrite Et.
      + destruct (key_eqb ky (key_of c p x)) eqn:E3.
        * apply key_eqb_eq in E3. subst ky. intros _. apply key_of_canon.
        * rewrite tfind_tupd_other; [apply Hc|]. intro; subst ky. rewrite key_eqb_refl in E3. discriminate.
      + destruct (key_eqb ky (key_of c p x)) eqn:E3.
        * apply key_eqb_eq in E3. subst ky. rewrite (tfind_tupd_same _ _ _ _ E). intros [= <-]. assumption.
        * rewrite tfind_tupd_other; [apply Hn|]. intro; subst ky. rewrite key_eqb_refl in E3. discriminate.
  Qed.

  Lemma tset_grows : forall st p x k st', good st -> tset c st p x k = Ok st' -> tle (tbl st) (tbl st').
  Proof.
    intros st p x k st' [Hc Hn] H. apply tset_inv in H. cbn in H.
    destruct H as [[E [Et _]]|[old [E [[_ ->]|[[_ [_ [_ [Et _]]]]|[[_ [_ ->]]|[_ [k' [EU [_ [Et _]]]]]]]]]]].
    - intros ky v Hf. rewrite Et, tfind_app, Hf. exists v; split; [reflexivity|apply kle_refl].
    - apply tle_refl.
    - rewrite Et. apply tle_refl.
    - apply tle_refl.
    - intros ky v Hf. rewrite Et. destruct (key_eqb ky (key_of c p x)) eqn:E3.
      + apply key_eqb_eq in E3. subst ky. rewrite (tfind_tupd_same _ _ _ _ E).
        rewrite E in Hf. injection Hf as <-. exists k'; split; [reflexivity|].
        eapply UU_upper_r; [exact EU|]. eapply Hn; eassumption.
      + rewrite tfind_tupd_other; [exists v; split; [assumption|apply kle_refl]|].
        intro; subst ky. rewrite key_eqb_refl in E3. discriminate.
  Qed.

  (* a kind below L's entry can always be set, and the table stays below L *)
  Lemma tset_below : forall st p x k L kL, tle (tbl st) L ->
    tfind L (key_of c p x) = Some kL -> kle k kL ->
    exists st', tset c st p x k = Ok st' /\ tle (tbl st') L /\ swallowed st' = swallowed st.
  Proof.
    intros st p x k L kL Hle EL Hk. unfold tset.
    destruct (tfind (tbl st) (key_of c p x)) as [old|] eqn:E.
    - destruct (okind_eqb old k) eqn:Eq; [eexists; split; [reflexivity|split; [assumption|reflexivity]]|].
      apply okind_eqb_neq in Eq.
      destruct (Hle _ _ E) as [kL' [EL' Hold]]. rewrite EL in EL'. injection EL' as <-.
      destruct (UU_lub k old kL Hk Hold) as [j [EU Hj]]; [congruence|].
      rewrite (Uc c Hut Harr), EU.
      destruct (okind_eqb old j) eqn:Eq2; [eexists; split; [reflexivity|split; [assumption|reflexivity]]|].
      eexists; split; [reflexivity|]. cbn. split; [|reflexivity].
      intros ky v Hf. destruct (key_eqb ky (key_of c p x)) eqn:E3.
      + apply key_eqb_eq in E3. subst ky. rewrite (tfind_tupd_same _ _ _ _ E) in Hf. injection Hf as <-.
        exists kL; split; assumption.
      + rewrite tfind_tupd_other in Hf; [apply Hle; assumption|].
        intro; subst ky. rewrite key_eqb_refl in E3. discriminate.
    - eexists; split; [reflexivity|]. cbn. split; [|reflexivity].
      intros ky v. rewrite tfind_app. destruct (tfind (tbl st) ky) eqn:E2.
      + intros [= <-]. apply Hle; assumption.
      + destruct (key_eqb ky (key_of c p x)) eqn:E3; [|discriminate].
        apply key_eqb_eq in E3. subst ky. intros [= <-]. exists kL; split; assumption.
  Qed.

  Lemma tset_flags_mono : forall st p x k st', tset c st p x k = Ok st' ->
    (changed st' = false -> changed st = false) /\ (swallowed st' = false -> swallowed st = false).
  Proof.
    intros st p x k st' H. apply tset_inv in H. cbn in H.
    destruct H as [[E [Et [Ec Es]]]|[old [E [[_ ->]|[[_ [_ [_ [Et [Ec Es]]]]]|[[_ [_ ->]]|[_ [k' [EU [_ [Et [Ec Es]]]]]]]]]]]].
    - rewrite Ec, Es. split; [|auto]. destruct (c_ins_changed c); [discriminate|auto].
    - auto.
    - rewrite Ec, Es. split; [auto|discriminate].
    - auto.
    - rewrite Ec, Es. split; [discriminate|auto].
  Qed.

  Hypothesis Hins : c_ins_changed c = true.

  Lemma tset_nochange : forall st p x k st', tset c st p x k = Ok st' ->
    changed st' = false -> swallowed st' = false ->
    st' = st /\ exists old, tfind (tbl st) (key_of c p x) = Some old /\ (old = k \/ UU k old = Ok old).
  Proof.
    intros st p x k st' H Hc Hs. apply tset_inv in H. cbn in H.
    destruct H as [[E [Et [Ec Es]]]|[old [E [[Eo ->]|[[_ [_ [_ [Et [Ec Es]]]]]|[[_ [EU ->]]|[_ [k' [EU [_ [Et [Ec Es]]]]]]]]]]]].
    - rewrite Hins in Ec. congruence.
    - split; [reflexivity|]. exists old; auto.
    - congruence.
    - split; [reflexivity|]. exists old; auto.
    - congruence.
  Qed.

End Tables.
