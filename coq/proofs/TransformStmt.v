(* C07 proofs, part 6: map_expressions per statement kind and the statement-level functions
   of the three hoisting passes (ms_fai, ms_fci, ms_ite) satisfy the leaf specification sspec. *)
From Coq Require Import List ZArith NArith String Ascii Bool Arith Lia Permutation.
Import ListNotations.
From Dagrt Require Import Lang LangProofs Sched Transform TransformSem TransformSide TransformBasics TransformHoist
     TransformSpec TransformMappers TransformLeaf.

Section Stmt.
  Variable F : string -> list val -> list (string * val) -> option (list val).
  Variable dg : bool.

  Notation cspec := (cspec F dg).
  Notation wspec_list := (wspec_list F dg).
  Notation run_block := (fold_left (fun S x => run_tree F dg x S)).

  (* ---- what a statement-level function guarantees for one leaf ---- *)
  Definition sspec (s : tstmt) (st : gst) (l : list tstmt) (st' : gst) : Prop :=
    exists N I ns s',
      l = ns ++ [s'] /\ ext st st' N I /\
      tid s' = tid s /\ tcond s' = tcond s /\ swr s' = swr s /\
      Forall (emitted (tcond s) N) ns /\ idcount ns I /\
      incl (svars s') (svars s ++ N) /\ loopfree (tkd s') = true /\
      (incl (svars s) (ex (gvars st)) ->
       forall a evs log,
         srel N (step_t F dg s (TRun a evs log)) (run_block (map TLeaf l) (TRun a evs log))).

  (* ---- equations for map_kind_w ---- *)
  Lemma mk_assign0 f x rhs st :
    map_kind_w true f (KAssign x None rhs []) st = bindw (f rhs) (fun rhs' => retw (KAssign x None rhs' [])) st.
  Proof.
    unfold map_kind_w. rewrite bindw_retw_l. apply bindw_ext. intros rhs' st1.
    cbn [map seqw]. now rewrite bindw_retw_l.
  Qed.

  Lemma mk_assign1 f x ie rhs st :
    map_kind_w true f (KAssign x (Some ie) rhs []) st =
    bindw (f ie) (fun ie' => bindw (f rhs) (fun rhs' => retw (KAssign x (Some ie') rhs' []))) st.
  Proof.
    unfold map_kind_w. rewrite bindw_assoc. apply bindw_ext. intros ie' st1.
    rewrite bindw_retw_l. apply bindw_ext. intros rhs' st2. cbn [map seqw]. now rewrite bindw_retw_l.
  Qed.

  Lemma bind2_seqw {B} (m1 m2 : MW expr) (g : expr -> expr -> B) st r ns xs st' :
    bindw m1 (fun a => bindw m2 (fun b => retw (g a b))) st = TOk (r, ns, xs, st') ->
    exists a' b', seqw [m1; m2] st = TOk ([a'; b'], ns, xs, st') /\ r = g a' b'.
  Proof.
    intros E. apply bindw_inv in E. destruct E as (a' & ns1 & xs1 & st1 & ns2 & xs2 & E1 & E2 & -> & ->).
    apply bind_ret_inv in E2. destruct E2 as (b' & E2 & ->). exists a', b'. split; [|reflexivity].
    cbn [seqw]. unfold bindw at 1. rewrite E1. unfold bindw at 1. unfold bindw at 1. rewrite E2.
    cbn. rewrite !app_nil_r. reflexivity.
  Qed.

  Definition kind_ok_for (cond : expr) (f : expr -> MW expr) (k : skind) : Prop :=
    match k with
    | KAssign x sub rhs [] =>
        match sub with Some ie => cspec cond ie (f ie) | None => True end /\ cspec cond rhs (f rhs)
    | KAssign _ _ _ _ => False
    | KCall xs fn args kw =>
        forall st r ns xs' st',
          f (call_expr fn args kw) st = TOk (r, ns, xs', st') ->
          exists l', r = ENary (NCall fn (map fst kw)) l' /\
                     wspec_list cond (args ++ map snd kw) st l' ns xs' st'
    | KYield _ _ time e => cspec cond e (f e) /\ cspec cond time (f time)
    | _ => True
    end.

  Definition kspec (cond : expr) (k : skind) (st : gst) (k' : skind) (ns : list tstmt) (xs : list string)
             (st' : gst) : Prop :=
    exists N I,
      ext st st' N I /\ Forall (emitted cond N) ns /\ idcount ns I /\ incl xs I /\
      incl (kvars k') (kvars k ++ N) /\ kind_writes k' = kind_writes k /\ loopfree k' = true /\
      (incl (kvars k) (ex (gvars st)) -> incl (vars cond) (ex (gvars st)) -> khoisted F dg cond k k' ns N).

  Lemma kspec_id cond k st : loopfree k = true -> kspec cond k st k [] [] st.
  Proof.
    intros Hl. exists [], []. split; [apply ext_refl|split; [constructor|split; [apply idcount_nil|]]].
    split; [intros x []|split; [rewrite app_nil_r; apply incl_refl|split; [reflexivity|split; [exact Hl|]]]].
    intros _ _. apply khoisted_id.
  Qed.

  Lemma incl_app3 {A} (a b c d : list A) : incl a (b ++ d) -> incl c (b ++ d) -> incl (a ++ c) (b ++ d).
  Proof. intros H1 H2 x Hx. apply in_app_iff in Hx. destruct Hx; auto. Qed.

  Lemma map_kind_spec cond f k :
    kind_ok_for cond f k ->
    forall st k' ns xs st', map_kind_w true f k st = TOk (k', ns, xs, st') -> kspec cond k st k' ns xs st'.
  Proof.
    intros Hok st k' ns xs st' E.
    destruct k as [x sub rhs loops|ys fn args kw|comp tid time e| | | |];
      try (apply retw_inv in E; destruct E as (-> & -> & -> & ->); now apply kspec_id).
    - (* Assign *)
      destruct loops; [|contradiction]. destruct Hok as [Hs Hr]. destruct sub as [ie|].
      + rewrite mk_assign1 in E. apply bind2_seqw in E. destruct E as (ie' & rhs' & E & ->).
        pose proof (seqw_spec F dg cond [ie; rhs] [f ie; f rhs]
                      (Forall2_cons _ _ Hs (Forall2_cons _ _ Hr (Forall2_nil _))) _ _ _ _ _ E) as W.
        apply list2_spec in W. destruct W as (a2 & b2 & Heq & N & I & X & V & M & D & S & Hh).
        inversion Heq; subst a2 b2.
        exists N, I. split; [exact X|split; [exact M|split; [exact D|split; [exact S|split; [|split; [reflexivity|split; [reflexivity|]]]]]]].
        * cbn [kvars]. intros y [<-|Hy]; [now left|]. rewrite !app_nil_r in *.
          right. apply V in Hy. rewrite !in_app_iff in *. tauto.
        * intros Hv Hc. cbn [kvars] in Hv. apply khoisted_assign1.
          -- apply Hh; [|exact Hc]. intros y Hy. apply Hv. right. rewrite !app_nil_r. exact Hy.
          -- destruct X as (_ & _ & Fr & _). intros Hin. apply (in_fresh_not_old _ _ _ Fr Hin). apply Hv. now left.
      + rewrite mk_assign0 in E. apply bind_ret_inv in E. destruct E as (rhs' & E & ->).
        destruct (Hr _ _ _ _ _ E) as (N & I & X & V & M & D & S & Hh).
        exists N, I. split; [exact X|split; [exact M|split; [exact D|split; [exact S|split; [|split; [reflexivity|split; [reflexivity|]]]]]]].
        * cbn [kvars]. intros y [<-|Hy]; [now left|]. rewrite !app_nil_r in *. cbn [app] in *.
          right. apply V in Hy. exact Hy.
        * intros Hv Hc. cbn [kvars] in Hv. apply khoisted_assign0. apply Hh; [|exact Hc].
          intros y Hy. apply Hv. right. cbn [app]. rewrite app_nil_r. exact Hy.
    - (* AssignFunctionCall *)
      cbn [map_kind_w] in E. apply bindw_inv in E.
      destruct E as (r & ns1 & xs1 & st1 & ns2 & xs2 & E1 & E2 & -> & ->).
      destruct (Hok _ _ _ _ _ E1) as (l' & -> & W).
      destruct (split_at (List.length l' - List.length (map fst kw)) l') as [p kv] eqn:Es.
      apply retw_inv in E2. destruct E2 as (-> & -> & -> & ->). rewrite !app_nil_r.
      destruct W as (N & I & X & V & M & D & S & Len & Hh).
      rewrite map_length in Es.
      exists N, I. split; [exact X|split; [exact M|split; [exact D|split; [exact S|split; [|split; [reflexivity|split; [reflexivity|]]]]]]].
      + cbn [kvars]. apply incl_app3; [intros y Hy; rewrite !in_app_iff; tauto|].
        pose proof (split_at_spec _ _ _ _ Es) as [Hl' Hp].
        assert (Hkv : List.length kv = List.length kw).
        { assert (List.length l' = List.length p + List.length kv)%nat by (rewrite Hl'; apply app_length).
          rewrite app_length, !map_length in Len. lia. }
        rewrite combine_snd by (rewrite map_length; lia).
        intros y Hy. rewrite <- flat_map_app, <- Hl' in Hy. apply V in Hy.
        rewrite flat_map_app in Hy. rewrite !in_app_iff in *. tauto.
      + intros Hv Hc. cbn [kvars] in Hv. apply (khoisted_call F dg cond ys fn args kw l' ns1 N p kv).
        * apply Hh; [|exact Hc]. intros y Hy. apply Hv. rewrite flat_map_app in Hy. rewrite !in_app_iff in *. tauto.
        * exact Es.
        * rewrite Len, app_length, map_length. reflexivity.
    - (* YieldState *)
      destruct Hok as [He Ht]. cbn [map_kind_w] in E. apply bind2_seqw in E. destruct E as (e' & time' & E & ->).
      pose proof (seqw_spec F dg cond [e; time] [f e; f time]
                    (Forall2_cons _ _ He (Forall2_cons _ _ Ht (Forall2_nil _))) _ _ _ _ _ E) as W.
      apply list2_spec in W. destruct W as (a2 & b2 & Heq & N & I & X & V & M & D & S & Hh).
      inversion Heq; subst a2 b2.
      exists N, I. split; [exact X|split; [exact M|split; [exact D|split; [exact S|split; [|split; [reflexivity|split; [reflexivity|]]]]]]].
      + cbn [kvars]. exact V.
      + intros Hv Hc. cbn [kvars] in Hv. apply khoisted_yield. now apply Hh.
  Qed.

  (* ---- ms_generic ---- *)
  Lemma ms_generic_spec (mp : expr -> list string -> expr -> MW expr) s :
    has_call (tcond s) = false ->
    kind_ok_for (tcond s) (mp (tcond s) (tdeps s)) (tkd s) ->
    forall st l st', ms_generic mp s st = TOk (l, st') -> sspec s st l st'.
  Proof.
    intros Hnc Hok st l st' E. unfold ms_generic in E.
    destruct (map_kind_w true (mp (tcond s) (tdeps s)) (tkd s) st) as [[[[k' ns] xs] st1]|e] eqn:Ek; [|discriminate].
    inversion E; subst l st1. clear E.
    destruct (map_kind_spec _ _ _ Hok _ _ _ _ _ Ek) as (N & I & X & M & D & S & V & W & Lf & Hh).
    exists N, I, ns, (mkT (tid s) (tdeps s ++ xs) (tcond s) k').
    split; [reflexivity|split; [exact X|split; [reflexivity|split; [reflexivity|split; [exact W|]]]]].
    split; [exact M|split; [exact D|split; [|split; [exact Lf|]]]].
    - unfold svars. cbn [tcond tkd]. intros y Hy. rewrite !in_app_iff in *. destruct Hy as [Hy|Hy]; [tauto|].
      apply V in Hy. rewrite in_app_iff in Hy. tauto.
    - intros Hv a evs log. destruct s as [id deps cond k]. cbn [tid tdeps tcond tkd] in *.
      assert (Hvc : incl (vars cond) (ex (gvars st))).
      { intros y Hy. apply Hv. unfold svars. cbn. apply in_app_iff. now left. }
      assert (Hvk : incl (kvars k) (ex (gvars st))).
      { intros y Hy. apply Hv. unfold svars. cbn. apply in_app_iff. now right. }
      apply leaf_block; [exact Hnc|now apply Hh| |].
      + eapply Forall_impl; [|exact M]. intros n [A _]. exact A.
      + destruct X as (_ & _ & Fr & _). intros y Hy Hin. apply (in_fresh_not_old _ _ _ Fr Hy). apply Hvc, Hin.
  Qed.

  (* a leaf left alone *)
  Lemma sspec_id s st : loopfree (tkd s) = true -> sspec s st [s] st.
  Proof.
    intros Hl. exists [], [], [], s. split; [reflexivity|split; [apply ext_refl|]].
    repeat (split; [reflexivity|]). split; [constructor|split; [apply idcount_nil|]].
    split; [rewrite app_nil_r; apply incl_refl|split; [exact Hl|]].
    intros _ a evs log. cbn [map fold_left run_tree]. apply srel_refl.
  Qed.
End Stmt.
