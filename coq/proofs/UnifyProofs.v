(* Proofs about the model of dagrt.data.unify (coq/model/Unify.v): partial-join laws. *)
From Coq Require Import List String Bool.
Import ListNotations.
From Dagrt Require Import Unify.
Open Scope string_scope.

Lemma kind_eqb_eq : forall a b, kind_eqb a b = true <-> a = b.
Proof.
  intros a b; split.
  - destruct a, b; cbn; try discriminate; try reflexivity.
    + intro H; apply Bool.eqb_prop in H; congruence.
    + intro H; apply Bool.eqb_prop in H; congruence.
    + intro H; apply String.eqb_eq in H; congruence.
  - intros ->; destruct b; cbn; auto using Bool.eqb_reflx, String.eqb_refl.
Qed.

Lemma okind_eqb_eq : forall a b, okind_eqb a b = true <-> a = b.
Proof.
  intros [a|] [b|]; cbn; split; try discriminate; try reflexivity.
  - intro H; apply kind_eqb_eq in H; congruence.
  - intro H; apply kind_eqb_eq; congruence.
Qed.

Lemma okind_eqb_refl : forall a, okind_eqb a a = true.
Proof. intro a; apply okind_eqb_eq; reflexivity. Qed.

Lemma okind_eqb_neq : forall a b, okind_eqb a b = false <-> a <> b.
Proof.
  intros a b; split.
  - intros H E; apply okind_eqb_eq in E; congruence.
  - intro H; destruct (okind_eqb a b) eqn:E; auto. apply okind_eqb_eq in E; contradiction.
Qed.

Lemma both_real_andb : forall a b, both_real a b = a && b.
Proof. intros [] []; reflexivity. Qed.

(* One tactic for the finite case analyses: split kinds, decide the string tests. *)
Ltac str_cases :=
  repeat match goal with
  | |- context [String.eqb ?a ?b] =>
      let E := fresh "E" in destruct (String.eqb_spec a b) as [E|E]; [subst|]
  | H : context [String.eqb ?a ?b] |- _ =>
      let E := fresh "E" in destruct (String.eqb_spec a b) as [E|E]; [subst|]
  end.

Ltac kind_crush :=
  cbn in *; str_cases; cbn in *; str_cases; cbn in *; str_cases; cbn in *;
  try solve [ reflexivity | exact I | discriminate | contradiction | congruence
            | match goal with H : ?x <> ?x |- _ => exfalso; apply H; reflexivity end ].

Ltac dk k := destruct k as [[| |[]|[]|?]|].

(* ------------------------------------------------------------------ idempotence *)

(* holds for every shape of the two switches *)
Lemma unify_idem : forall ui ai k r, unify ui ai k k = Ok r -> r = k.
Proof.
  intros ui ai k r; dk k; kind_crush.
Qed.

Lemma unify_idem_defined : forall ui ai k, k <> Some KBool -> unify ui ai k k = Ok k.
Proof.
  intros ui ai k; dk k; intro H; kind_crush.
Qed.

Lemma unify_bool_bool_fails : forall ui ai, unify ui ai (Some KBool) (Some KBool) = Err ValueError.
Proof. reflexivity. Qed.

(* ------------------------------------------------------------------ commutativity *)

Lemma unify_comm : forall a b, res_sim (unify true true a b) (unify true true b a).
Proof.
  intros a b; dk a; dk b; kind_crush.
Qed.

(* the defective shapes: Integer is rejected by the assert when it comes second *)
Lemma unify_comm_refuted_user : forall ai,
  ~ (forall a b, res_sim (unify false ai a b) (unify false ai b a)).
Proof.
  intros ai H. specialize (H (Some KInt) (Some (KUser "y"))). cbn in H. exact H.
Qed.

Lemma unify_comm_refuted_array : forall ui,
  ~ (forall a b, res_sim (unify ui false a b) (unify ui false b a)).
Proof.
  intros ui H. specialize (H (Some KInt) (Some (KArray true))). cbn in H. exact H.
Qed.

(* ------------------------------------------------------------------ associativity *)

Lemma unify_assoc : forall a b c,
  res_sim (bind (unify true true a b) (fun x => unify true true x c))
          (bind (unify true true b c) (fun y => unify true true a y)).
Proof.
  intros a b c; dk a; dk b; dk c; kind_crush.
Qed.

(* Associativity also fails on the defective shapes:
   (Scalar v Integer) v UserType y = UserType y, but Scalar v (Integer v UserType y) too;
   the failing grouping is (UserType v Integer): *)
Lemma unify_assoc_refuted_user : forall ai,
  ~ (forall a b c, res_sim (bind (unify false ai a b) (fun x => unify false ai x c))
                           (bind (unify false ai b c) (fun y => unify false ai a y))).
Proof.
  intros ai H.
  specialize (H (Some (KUser "y")) (Some KInt) (Some (KScalar true))). cbn in H. exact H.
Qed.

Lemma unify_assoc_refuted_array : forall ui,
  ~ (forall a b c, res_sim (bind (unify ui false a b) (fun x => unify ui false x c))
                           (bind (unify ui false b c) (fun y => unify ui false a y))).
Proof.
  intros ui H.
  specialize (H (Some (KArray true)) (Some KInt) (Some (KScalar true))). cbn in H. exact H.
Qed.

(* ------------------------------------------------------------------ non-vacuity *)

Example unify_ex_user : unify true true (Some KInt) (Some (KUser "y")) = Ok (Some (KUser "y"))
                     /\ unify true true (Some (KUser "y")) (Some KInt) = Ok (Some (KUser "y")).
Proof. split; reflexivity. Qed.

Example unify_ex_assoc :
  bind (unify true true (Some KInt) (Some (KScalar true))) (fun x => unify true true x (Some (KArray false)))
  = Ok (Some (KArray false)).
Proof. reflexivity. Qed.

Example unify_ex_mismatch : unify true true (Some (KUser "y")) (Some (KUser "z")) = Err ValueError.
Proof. reflexivity. Qed.
