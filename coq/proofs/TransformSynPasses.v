(* C07 proofs: definition before use for the four passes (no side condition on the expressions;
   the conditional-expression expander only in its repaired shape). *)
From Coq Require Import List ZArith NArith String Ascii Bool Arith Lia Permutation.
Import ListNotations.
From Dagrt Require Import Lang LangProofs Sched Transform TransformSem TransformSide TransformBasics TransformHoist
     TransformSpec TransformMappers TransformLeaf TransformStmt TransformSd TransformTree TransformProofs
     TransformSyn.

Lemma kw_insert_in {A} (x y : string * A) l : In y (kw_insert x l) -> y = x \/ In y l.
Proof.
  induction l as [|z l IH]; cbn [kw_insert]; [intros [<-|[]]; now left|].
  destruct (String.leb (fst x) (fst z)); cbn [In]; [intros [<-|H]; auto|].
  intros [<-|H]; [right; now left|]. apply IH in H. destruct H; auto.
Qed.

Lemma kw_sort_in {A} (y : string * A) l : In y (kw_sort l) -> In y l.
Proof.
  induction l as [|x l IH]; [auto|]. unfold kw_sort. cbn [fold_right]. fold (kw_sort l).
  intros H. apply kw_insert_in in H. destruct H as [->|H]; [now left|right; auto].
Qed.

Lemma vars_and_kids' c : forall x, In x (flat_map vars (and_kids c)) <-> In x (vars c).
Proof.
  intros x. destruct c; cbn [and_kids flat_map vars]; rewrite ?app_nil_r; try tauto.
  destruct o; cbn [and_kids flat_map vars]; rewrite ?app_nil_r; tauto.
Qed.

Lemma vars_flat_and' c x y : In y (vars (flat_and c x)) <-> In y (vars c) \/ In y (vars x).
Proof. unfold flat_and. cbn [vars]. rewrite flat_map_app, in_app_iff, !vars_and_kids'. tauto. Qed.

Lemma rvars_assign id deps g x a : rvars (mkT id deps g (KAssign x None a [])) = vars g ++ vars a ++ [].
Proof. reflexivity. Qed.

(* ---- the three mappers ---- *)
Lemma iso_arg_y cond bdeps a : yspec cond a (fai cond bdeps a) -> yspec cond a (iso_arg cond bdeps a).
Proof.
  intros H. unfold iso_arg, isolate_arg. destruct (is_var a) eqn:Hv.
  { destruct a; try discriminate. apply cid_yspec. intros st. reflexivity. }
  assert (Hgen : yspec cond a (fun st =>
            match genv "tmp" st with
            | TErr e => TErr e
            | TOk (name, st1) =>
              match geni "tmp" st1 with
              | TErr e => TErr e
              | TOk (id, st2) =>
                match fai cond bdeps a st2 with
                | TErr e => TErr e
                | TOk (a', ns, xs, st3) =>
                    TOk (EVar name, ns ++ [mkT id (bdeps ++ xs) cond (KAssign name None a' [])], [id], st3)
                end
              end
            end)).
  { intros st r ns0 xs0 st' E.
    destruct (genv "tmp" st) as [[name st1]|e]; [|discriminate].
    destruct (geni "tmp" st1) as [[id st2]|e]; [|discriminate].
    destruct (fai cond bdeps a st2) as [[[[a' ns] xs] st3]|e] eqn:E3; [|discriminate].
    inversion E; subst r ns0 xs0 st'. clear E.
    intros G D Ha Hc. destruct (H _ _ _ _ _ E3 G D Ha Hc) as [D1 R1]. split.
    - apply dbuD_app; [exact D1|]. apply dbuD_one. intros x Hx Hg. rewrite rvars_assign in Hx.
      rewrite app_nil_r in Hx. apply in_app_iff in Hx. destruct Hx as [Hx|Hx]; [|now apply R1].
      apply in_app_iff. left. now apply Hc.
    - intros x [<-|[]] _. rewrite wrs_app. rewrite !in_app_iff. right. right. cbn. now left. }
  destruct a; try discriminate; exact Hgen.
Qed.

Theorem fai_y e : forall cond bdeps, yspec cond e (fai cond bdeps e).
Proof.
  induction e as [z|b| |x|a IHa|c t e IHc IHt IHe|o a b IHa IHb|o l IH] using expr_ind'; intros cond bdeps;
    try (apply cid_yspec; intros st; reflexivity).
  - rewrite fai_not. apply (y_node1 cond a _ ENot (ENot a)); auto.
  - rewrite fai_if. now apply y_if.
  - rewrite fai_bin. now apply y_bin.
  - assert (Hall : Forall (fun a => yspec cond a (fai cond bdeps a)) l).
    { eapply Forall_impl; [|exact IH]. intros a Ha. apply Ha. }
    destruct o as [| | | | | |f kw].
    7: { (* a call: positional arguments, then the keyword arguments in sorted order *)
         intros st r ns xs st' E. rewrite fai_call in E. cbv zeta in E.
         fold (iso_arg cond bdeps) in E.
         set (cl := map (iso_arg cond bdeps) l) in *.
         destruct (split_at (List.length cl - List.length kw) cl) as [pos kws] eqn:Es.
         apply split_at_spec in Es. destruct Es as [Hcl _].
         set (skw := kw_sort (combine kw kws)) in *.
         rewrite (seqw_app_eq pos (map snd skw) (fun l' => retw (ENary (NCall f (map fst skw)) l')) st) in E.
         revert st r ns xs st' E.
         apply (y_list cond (ENary (NCall f kw) l) l (pos ++ map snd skw) (fun l' => ENary (NCall f (map fst skw)) l')).
         - intros x Hx. exact Hx.
         - intros l' x Hx. exact Hx.
         - assert (Hcl' : Forall (fun m => exists a, In a l /\ yspec cond a m) cl).
           { unfold cl. apply forall_map_y. eapply Forall_impl; [|exact Hall]. intros a Ha. now apply iso_arg_y. }
           rewrite Forall_forall in Hcl'. apply Forall_forall. intros m Hm. apply Hcl'. rewrite Hcl.
           apply in_app_iff in Hm. apply in_app_iff. destruct Hm as [Hm|Hm]; [now left|right].
           apply in_map_iff in Hm. destruct Hm as ([k m'] & <- & Hin). apply kw_sort_in in Hin.
           now apply in_combine_r in Hin. }
    all: rewrite fai_nary by (intros; discriminate);
      match goal with |- yspec _ (ENary ?o _) _ => apply (y_list cond (ENary o l) l _ (fun l' => ENary o l')) end;
      [intros x Hx; exact Hx|intros l' x Hx; exact Hx|now apply forall_map_y].
Qed.

Theorem fci_y fixed e : forall cond bdeps, yspec cond e (fci fixed cond bdeps e).
Proof.
  induction e as [z|b| |x|a IHa|c t e IHc IHt IHe|o a b IHa IHb|o l IH] using expr_ind'; intros cond bdeps;
    try (apply cid_yspec; intros st; reflexivity).
  - rewrite fci_not. apply (y_node1 cond a _ ENot (ENot a)); auto.
  - rewrite fci_if. now apply y_if.
  - rewrite fci_bin. now apply y_bin.
  - assert (Hall : Forall (fun a => yspec cond a (fci fixed cond bdeps a)) l).
    { eapply Forall_impl; [|exact IH]. intros a Ha. apply Ha. }
    destruct o as [| | | | | |f kw].
    7: { intros st r ns0 xs0 st' E. rewrite fci_call in E.
         destruct (genv "tmp" st) as [[name st1]|e]; [|discriminate].
         destruct (geni "tmp" st1) as [[id st2]|e]; [|discriminate].
         destruct ((if fixed then seqw (map (fci fixed cond bdeps) l)
                    else if existsb has_call l then failw ETypeError else retw l) st2)
           as [[[[l' ns] xs] st3]|e] eqn:E3; [|discriminate].
         apply fci_children in E3.
         destruct (split_at (List.length l' - List.length kw) l') as [p kv] eqn:Es.
         inversion E; subst r ns0 xs0 st'. clear E.
         apply split_at_spec in Es. destruct Es as [Hl' _].
         intros G D Ha Hc.
         destruct (seqw_y cond l _ (forall_map_y cond _ l Hall) _ _ _ _ _ E3 G D Ha Hc) as [D1 R1]. split.
         - apply dbuD_app; [exact D1|]. apply dbuD_one. intros x Hx Hg.
           unfold rvars in Hx. cbn [tcond tkd kexprs] in Hx. apply in_app_iff in Hx.
           destruct Hx as [Hx|Hx]; [apply in_app_iff; left; now apply Hc|].
           apply R1; [|exact Hg]. rewrite Hl'. rewrite flat_map_app in *. apply in_app_iff in Hx.
           apply in_app_iff. destruct Hx as [Hx|Hx]; [now left|right].
           apply in_flat_map in Hx. destruct Hx as (e & He & Hx). apply in_flat_map. exists e. split; [|exact Hx].
           apply in_map_iff in He. destruct He as ([k e'] & <- & Hin). now apply in_combine_r in Hin.
         - intros x [<-|[]] _. rewrite wrs_app. rewrite !in_app_iff. right. right. cbn. now left. }
    all: rewrite fci_nary by (intros; discriminate);
      match goal with |- yspec _ (ENary ?o _) _ => apply (y_list cond (ENary o l) l _ (fun l' => ENary o l')) end;
      [intros x Hx; exact Hx|intros l' x Hx; exact Hx|now apply forall_map_y].
Qed.

Theorem ite_y e : forall cond bdeps, yspec cond e (ite true e cond bdeps).
Proof.
  induction e as [z|b| |x|a IHa|c t e IHc IHt IHe|o a b IHa IHb|o l IH] using expr_ind'; intros cond bdeps;
    try (apply cid_yspec; intros st; reflexivity).
  - rewrite ite_not. apply (y_node1 cond a _ ENot (ENot a)); auto.
  - (* a conditional expression *)
    intros st r ns0 xs0 st' E. rewrite ite_if in E.
    destruct (genv "<cond>ifthenelse_cond" st) as [[flag st1]|?]; [|discriminate].
    destruct (genv "ifthenelse_result" st1) as [[res st2]|?]; [|discriminate].
    destruct (geni "ifthenelse_cond" st2) as [[i1 st3]|?]; [|discriminate].
    destruct (geni "ifthenelse_then" st3) as [[i2 st4]|?]; [|discriminate].
    destruct (geni "ifthenelse_else" st4) as [[i3 st5]|?]; [|discriminate].
    destruct (ite true c cond bdeps st5) as [[[[c' nc] xc] st6]|?] eqn:Ec; [|discriminate].
    cbv zeta in E.
    destruct (ite true t (flat_and cond (EVar flag)) (bdeps ++ [i1]) st6) as [[[[t' nt] xt] st7]|?] eqn:Et;
      [|discriminate].
    destruct (ite true e (flat_and cond (ENot (EVar flag))) (bdeps ++ [i1]) st7) as [[[[f' nf] xf] st8]|?] eqn:Ef;
      [|discriminate].
    inversion E; subst r ns0 xs0 st'. clear E.
    set (tcnd := flat_and cond (EVar flag)) in *. set (fcnd := flat_and cond (ENot (EVar flag))) in *.
    set (s1 := mkT i1 (bdeps ++ xc) cond (KAssign flag None c' [])).
    set (s2 := mkT i2 (bdeps ++ xt ++ [i1]) tcnd (KAssign res None t' [])).
    set (s3 := mkT i3 (bdeps ++ xf ++ [i1]) fcnd (KAssign res None f' [])).
    intros G D Ha Hc. cbn [vars] in Ha.
    assert (Ha1 : forall x, In x (vars c) -> In x G -> In x D) by (intros x Hx; apply Ha; rewrite !in_app_iff; tauto).
    assert (Ha2 : forall x, In x (vars t) -> In x G -> In x D) by (intros x Hx; apply Ha; rewrite !in_app_iff; tauto).
    assert (Ha3 : forall x, In x (vars e) -> In x G -> In x D) by (intros x Hx; apply Ha; rewrite !in_app_iff; tauto).
    destruct (IHc cond bdeps _ _ _ _ _ Ec G D Ha1 Hc) as [D1 R1].
    set (Dt := (D ++ wrs nc) ++ wrs [s1]).
    assert (Hfl : forall E0, In flag (Dt ++ E0)).
    { intros E0. unfold Dt. rewrite !in_app_iff. left. right. cbn. now left. }
    assert (Htc : forall E0 x, In x (vars tcnd) -> In x G -> In x (Dt ++ E0)).
    { intros E0 x Hx Hg. apply vars_flat_and' in Hx. destruct Hx as [Hx|Hx].
      - unfold Dt. rewrite !in_app_iff. left. left. left. now apply Hc.
      - cbn in Hx. destruct Hx as [<-|[]]. apply Hfl. }
    assert (Hfc : forall E0 x, In x (vars fcnd) -> In x G -> In x (Dt ++ E0)).
    { intros E0 x Hx Hg. apply vars_flat_and' in Hx. destruct Hx as [Hx|Hx].
      - unfold Dt. rewrite !in_app_iff. left. left. left. now apply Hc.
      - cbn in Hx. destruct Hx as [<-|[]]. apply Hfl. }
    assert (P1 : forall x, In x (vars t) -> In x G -> In x Dt).
    { intros x Hx Hg. unfold Dt. rewrite !in_app_iff. left. left. now apply Ha2. }
    assert (P2 : forall x, In x (vars tcnd) -> In x G -> In x Dt).
    { intros x Hx Hg. specialize (Htc [] x Hx Hg). now rewrite app_nil_r in Htc. }
    destruct (IHt tcnd (bdeps ++ [i1]) _ _ _ _ _ Et G Dt P1 P2) as [D2 R2].
    assert (P3 : forall x, In x (vars e) -> In x G -> In x (Dt ++ wrs nt)).
    { intros x Hx Hg. unfold Dt. rewrite !in_app_iff. left. left. left. now apply Ha3. }
    assert (P4 : forall x, In x (vars fcnd) -> In x G -> In x (Dt ++ wrs nt)).
    { intros x Hx Hg. now apply Hfc. }
    destruct (IHe fcnd (bdeps ++ [i1]) _ _ _ _ _ Ef G (Dt ++ wrs nt) P3 P4) as [D3 R3].
    split.
    + apply dbuD_app; [exact D1|].
      change (s1 :: nt ++ nf ++ [s2; s3]) with ([s1] ++ nt ++ nf ++ [s2; s3]).
      apply dbuD_app.
      { apply dbuD_one. intros x Hx Hg. unfold s1 in Hx. rewrite rvars_assign in Hx. rewrite app_nil_r in Hx.
        apply in_app_iff in Hx. destruct Hx as [Hx|Hx]; [apply in_app_iff; left; now apply Hc|now apply R1]. }
      fold Dt. apply dbuD_app; [exact D2|]. apply dbuD_app; [exact D3|].
      change [s2; s3] with ([s2] ++ [s3]). apply dbuD_app.
      { apply dbuD_one. intros x Hx Hg. unfold s2 in Hx. rewrite rvars_assign in Hx. rewrite app_nil_r in Hx.
        apply in_app_iff in Hx. destruct Hx as [Hx|Hx].
        - rewrite <- app_assoc. now apply Htc.
        - specialize (R2 x Hx Hg). rewrite !in_app_iff in *. tauto. }
      { apply dbuD_one. intros x Hx Hg. unfold s3 in Hx. rewrite rvars_assign in Hx. rewrite app_nil_r in Hx.
        apply in_app_iff in Hx. destruct Hx as [Hx|Hx].
        - rewrite <- !app_assoc. now apply Hfc.
        - specialize (R3 x Hx Hg). rewrite !in_app_iff in *. tauto. }
    + intros x [<-|[]] _. apply in_app_iff. right. unfold wrs. apply in_flat_map. exists s2. split.
      * apply in_app_iff. right. right. apply in_app_iff. right. apply in_app_iff. right. now left.
      * cbn. now left.
  - rewrite ite_bin. now apply y_bin.
  - rewrite ite_nary. apply (y_list cond (ENary o l) l _ (fun l' => ENary o l')).
    + intros x Hx. exact Hx.
    + intros l' x Hx. exact Hx.
    + apply (forall_map_y cond (fun a => ite true a cond bdeps)). eapply Forall_impl; [|exact IH].
      intros a Ha. apply Ha.
Qed.

(* ---- statement kinds ---- *)
Definition kindy (cond : expr) (k k' : skind) (ns : list tstmt) : Prop :=
  forall G D,
    (forall x, In x (flat_map vars (kexprs k)) -> In x G -> In x D) ->
    (forall x, In x (vars cond) -> In x G -> In x D) ->
    dbuD G D ns /\ (forall x, In x (flat_map vars (kexprs k')) -> In x G -> In x (D ++ wrs ns)).

Lemma kindy_id cond k : kindy cond k k [].
Proof. intros G D Ha Hc. split; [apply dbuD_nil|]. intros x Hx Hg. rewrite app_nil_r. now apply Ha. Qed.

Lemma bind2_seqw' {B} (m1 m2 : MW expr) (g : expr -> expr -> B) st r ns xs st' :
  bindw m1 (fun a => bindw m2 (fun b => retw (g a b))) st = TOk (r, ns, xs, st') ->
  exists a' b', seqw [m1; m2] st = TOk ([a'; b'], ns, xs, st') /\ r = g a' b'.
Proof.
  intros E. apply bindw_inv in E. destruct E as (a' & ns1 & xs1 & st1 & ns2 & xs2 & E1 & E2 & -> & ->).
  apply bind_ret_inv in E2. destruct E2 as (b' & E2 & ->). exists a', b'. split; [|reflexivity].
  cbn [seqw]. unfold bindw at 1. rewrite E1. unfold bindw at 1. unfold bindw at 1. rewrite E2.
  cbn. rewrite !app_nil_r. reflexivity.
Qed.

Lemma map_kind_y cond f k :
  loopfree k = true ->
  (forall e, yspec cond e (f e)) ->
  forall st k' ns xs st', map_kind_w true f k st = TOk (k', ns, xs, st') -> kindy cond k k' ns.
Proof.
  intros Hl Hf st k' ns xs st' E.
  destruct k as [x sub rhs loops|ys fn args kw|comp tid time e| | | |];
    try (apply retw_inv in E; destruct E as (-> & -> & -> & ->); apply kindy_id).
  - destruct loops; [|discriminate]. destruct sub as [ie|].
    + rewrite mk_assign1 in E. apply bind2_seqw' in E. destruct E as (ie' & rhs' & E & ->).
      intros G D Ha Hc. cbn [kexprs flat_map app] in *.
      assert (Hms : Forall (fun m => exists a, In a [ie; rhs] /\ yspec cond a m) [f ie; f rhs]).
      { constructor; [exists ie; split; [now left|apply Hf]|constructor; [|constructor]].
        exists rhs. split; [right; now left|apply Hf]. }
      exact (seqw_y cond [ie; rhs] _ Hms _ _ _ _ _ E G D Ha Hc).
    + rewrite mk_assign0 in E. apply bind_ret_inv in E. destruct E as (rhs' & E & ->).
      intros G D Ha Hc. cbn [kexprs flat_map app] in *. rewrite app_nil_r in *.
      exact (Hf rhs _ _ _ _ _ E G D Ha Hc).
  - cbn [map_kind_w] in E. apply bindw_inv in E.
    destruct E as (r & ns1 & xs1 & st1 & ns2 & xs2 & E1 & E2 & -> & ->).
    destruct r as [z|b| |x|a|c t e|o a b|o l']; try discriminate. destruct o as [| | | | | |fn' kw']; try discriminate.
    destruct (split_at (List.length l' - List.length kw') l') as [p kv] eqn:Es.
    apply retw_inv in E2. destruct E2 as (-> & -> & -> & ->). rewrite !app_nil_r.
    apply split_at_spec in Es. destruct Es as [Hl' _].
    intros G D Ha Hc. cbn [kexprs] in *.
    destruct (Hf _ _ _ _ _ _ E1 G D Ha Hc) as [D1 R1].
    split; [exact D1|]. intros x Hx Hg. apply R1; [|exact Hg]. cbn [vars]. rewrite Hl'.
    rewrite flat_map_app in *. apply in_app_iff in Hx. apply in_app_iff. destruct Hx as [Hx|Hx]; [now left|right].
    apply in_flat_map in Hx. destruct Hx as (e & He & Hx). apply in_flat_map. exists e. split; [|exact Hx].
    apply in_map_iff in He. destruct He as ([k e'] & <- & Hin). now apply in_combine_r in Hin.
  - cbn [map_kind_w] in E. apply bind2_seqw' in E. destruct E as (e' & time' & E & ->).
    intros G D Ha Hc. cbn [kexprs flat_map app] in *.
    assert (Hms : Forall (fun m => exists a, In a [e; time] /\ yspec cond a m) [f e; f time]).
    { constructor; [exists e; split; [now left|apply Hf]|constructor; [|constructor]].
      exists time. split; [right; now left|apply Hf]. }
    exact (seqw_y cond [e; time] _ Hms _ _ _ _ _ E G D Ha Hc).
Qed.

(* ---- one leaf ---- *)
Definition def_before_use (s : tstmt) (l : list tstmt) : Prop :=
  forall G D, (forall x, In x (rvars s) -> In x G -> In x D) -> dbuD G D l.

Lemma dbu_self s : def_before_use s [s].
Proof. intros G D H. now apply dbuD_one. Qed.

Lemma ms_generic_y (mp : expr -> list string -> expr -> MW expr) s :
  loopfree (tkd s) = true ->
  (forall c d e, yspec c e (mp c d e)) ->
  forall st l st', ms_generic mp s st = TOk (l, st') -> def_before_use s l.
Proof.
  intros Hl Hm st l st' E. unfold ms_generic in E.
  destruct (map_kind_w true (mp (tcond s) (tdeps s)) (tkd s) st) as [[[[k' ns] xs] st1]|e] eqn:Ek; [|discriminate].
  inversion E; subst l st1. clear E.
  pose proof (map_kind_y (tcond s) _ (tkd s) Hl (Hm (tcond s) (tdeps s)) _ _ _ _ _ Ek) as Hk.
  intros G D H. unfold rvars in H.
  assert (P1 : forall x, In x (flat_map vars (kexprs (tkd s))) -> In x G -> In x D)
    by (intros x Hx; apply H; apply in_app_iff; now right).
  assert (P2 : forall x, In x (vars (tcond s)) -> In x G -> In x D)
    by (intros x Hx; apply H; apply in_app_iff; now left).
  destruct (Hk G D P1 P2) as [D1 R1].
  apply dbuD_app; [exact D1|]. apply dbuD_one. intros x Hx Hg. unfold rvars in Hx. cbn [tcond tkd] in Hx.
  apply in_app_iff in Hx. destruct Hx as [Hx|Hx]; [|now apply R1].
  apply in_app_iff. left. apply H; [apply in_app_iff; now left|exact Hg].
Qed.

(* ---- eliminate_self_dependencies ---- *)
Lemma sd_loop_y s vs : forall st sb ids ns st',
  sd_loop s vs st = TOk ((sb, ids, ns), st') ->
  wrs ns = map snd sb /\
  Forall (fun n => exists v, In v vs /\ rvars n = vars (tcond s) ++ [v]) ns.
Proof.
  induction vs as [|v vs IH]; intros st sb ids ns st' E.
  - cbn [sd_loop] in E. unfold ret in E. inversion E; subst. split; [reflexivity|constructor].
  - cbn [sd_loop] in E. unfold bind in E.
    destruct (genv _ st) as [[name st1]|e]; [|discriminate].
    destruct (geni "temp" st1) as [[id st2]|e]; [|discriminate].
    destruct (sd_loop s vs st2) as [[[[sb0 ids0] ns0] st3]|e] eqn:E3; [|discriminate].
    unfold ret in E. inversion E; subst sb ids ns st'. clear E.
    destruct (IH _ _ _ _ _ E3) as [Hw Hr]. split.
    + cbn. now rewrite <- Hw.
    + constructor.
      * exists v. split; [now left|reflexivity].
      * eapply Forall_impl; [|exact Hr]. intros n (v' & Hv' & Hn). exists v'. split; [now right|exact Hn].
Qed.

Lemma kexprs_subst sb k :
  forall x, In x (flat_map vars (kexprs (ksubst sb k))) -> In x (flat_map vars (kexprs k)) \/ In x (map snd sb).
Proof.
  assert (Hl : forall l x, In x (flat_map vars (map (subst sb) l)) -> In x (flat_map vars l) \/ In x (map snd sb)).
  { induction l as [|e l IHl]; cbn [map flat_map]; [tauto|]. intros x Hx. rewrite !in_app_iff in *.
    destruct Hx as [Hx|Hx]; [apply (vars_subst noF) in Hx|apply IHl in Hx]; tauto. }
  intros x Hx. destruct k as [y sub rhs loops|xs fn args kw|comp tid time e| | | |]; cbn [ksubst kexprs] in *;
    try contradiction.
  - rewrite !flat_map_app in *. rewrite !in_app_iff in *. destruct Hx as [Hx|[Hx|Hx]]; [tauto| |].
    + cbn [flat_map] in *. rewrite app_nil_r in *. apply (vars_subst noF) in Hx. tauto.
    + induction loops as [|[[i lo] hi] loops IHl]; cbn [map flat_map fst snd app] in *; [contradiction|].
      rewrite !in_app_iff in *. destruct Hx as [Hx|[Hx|Hx]].
      * apply (vars_subst noF) in Hx. tauto.
      * apply (vars_subst noF) in Hx. tauto.
      * destruct (IHl Hx) as [[H|[H|H]]|H]; tauto.
  - rewrite combine_snd in Hx by now rewrite !map_length. rewrite <- map_app in Hx. now apply Hl.
  - cbn [flat_map] in *. rewrite !in_app_iff in *. cbn [In] in *.
    destruct Hx as [Hx|[Hx|[]]]; apply (vars_subst noF) in Hx; tauto.
Qed.

Lemma loops_vars (loops : list (var * expr * expr)) x :
  In x (flat_map (fun l => vars (snd (fst l)) ++ vars (snd l)) loops) ->
  In x (flat_map vars (flat_map (fun l => [snd (fst l); snd l]) loops)).
Proof.
  induction loops as [|[[i lo] hi] loops IH]; cbn [flat_map fst snd app]; [auto|].
  rewrite !in_app_iff. intros [[H|H]|H]; auto.
Qed.

Lemma sreads_rvars lsr lbr s : incl (sreads lsr lbr s) (rvars s).
Proof.
  unfold sreads, reads, rvars. destruct s as [id deps cond k]. cbn [to_stmt scond skd tcond tkd].
  intros x Hx. rewrite in_app_iff in *. destruct Hx as [Hx|Hx]; [right|now left].
  destruct k as [y sub rhs loops|xs fn args kw|comp tid time e| | | |]; cbn [kind_reads kexprs] in *; try contradiction.
  - rewrite !flat_map_app. rewrite !in_app_iff in *. destruct Hx as [Hx|[Hx|Hx]].
    + right. left. cbn [flat_map]. apply in_app_iff. now left.
    + destruct lsr; [|contradiction]. destruct sub; [|contradiction]. left. cbn [flat_map]. apply in_app_iff. now left.
    + destruct lbr; [|contradiction]. right. right. now apply loops_vars.
  - rewrite flat_map_app. rewrite in_app_iff in *. destruct Hx as [Hx|Hx]; [now left|right].
    now rewrite flat_map_map.
  - cbn [flat_map]. rewrite !in_app_iff in *. tauto.
Qed.

Lemma ms_sd_y lsr lbr sds ords s :
  loopfree (tkd s) = true ->
  forall st l st', ms_sd lsr lbr sds ords s st = TOk (l, st') -> def_before_use s l.
Proof.
  intros Hlf st l st' E. unfold ms_sd in E.
  destruct (rw_order lsr lbr sds ords s) as [vs|] eqn:Er; [|discriminate].
  assert (Hvs : incl vs (rvars s)).
  { intros v Hv. apply (sreads_rvars lsr lbr). unfold rw_order in Er.
    assert (Hc : incl (read_and_written lsr lbr s) (sreads lsr lbr s)).
    { unfold read_and_written. intros x Hx. apply dedup_incl in Hx. apply filter_In in Hx. tauto. }
    destruct sds.
    - inversion Er; subst. apply Hc. now apply ssort_incl.
    - destruct (assoc (tid s) ords) as [o|].
      + destruct (subset o _ && subset _ o && nodupb o) eqn:E0; [|discriminate]. inversion Er; subst.
        apply andb_true_iff in E0. destruct E0 as [E0 _]. apply andb_true_iff in E0. destruct E0 as [E0 _].
        apply Hc. eapply subset_incl; eauto.
      + inversion Er; subst. now apply Hc. }
  destruct vs as [|v vs].
  { unfold ret in E. inversion E; subst. apply dbu_self. }
  remember (v :: vs) as vs0 eqn:Hvs0. clear Hvs0.
  unfold bind in E.
  destruct (sd_loop s vs0 st) as [[[[sb ids] ns] st1]|e] eqn:El; [|discriminate].
  rewrite (mk_subst sb (tkd s) st1 Hlf) in E. inversion E; subst l st'. clear E.
  destruct (sd_loop_y _ _ _ _ _ _ _ El) as [Hw Hr].
  intros G D H. apply dbuD_app.
  - (* the copies read the guard and one original variable each *)
    assert (Hall : forall D0, incl D D0 -> dbuD G D0 ns).
    { clear Hw El. induction Hr as [|n ns (v' & Hv' & Hn) _ IHn]; intros D0 Hi; [apply dbuD_nil|].
      change (n :: ns) with ([n] ++ ns). apply dbuD_app.
      - apply dbuD_one. intros x Hx Hg. rewrite Hn in Hx. apply Hi. apply in_app_iff in Hx.
        destruct Hx as [Hx|[<-|[]]]; (apply H; [|exact Hg]); [unfold rvars; apply in_app_iff; now left|now apply Hvs].
      - apply IHn. apply incl_appl. exact Hi. }
    apply Hall. apply incl_refl.
  - apply dbuD_one. intros x Hx Hg. unfold rvars in Hx. cbn [tcond tkd] in Hx. apply in_app_iff in Hx.
    destruct Hx as [Hx|Hx].
    + apply in_app_iff. left. apply H; [unfold rvars; apply in_app_iff; now left|exact Hg].
    + apply kexprs_subst in Hx. destruct Hx as [Hx|Hx].
      * apply in_app_iff. left. apply H; [unfold rvars; apply in_app_iff; now right|exact Hg].
      * apply in_app_iff. right. now rewrite Hw.
Qed.

(* ---- trees ---- *)
Section DerivesGen.
  Variable ms : tstmt -> M (list tstmt).
  Variable R : tstmt -> list tstmt -> Prop.
  Variable okl : tstmt -> bool.
  Hypothesis HR : forall s st l st', okl s = true -> ms s st = TOk (l, st') -> R s l.

  Lemma rewrite_derives_gen t :
    forallb okl (tstmts t) = true ->
    forall st t' st', rewrite_tree ms t st = TOk (t', st') -> derives R t t'.
  Proof.
    induction t as [s| |l IH|c t IHt|c t e IHt IHe|x lo hi b IHb] using tree_ind'; intros Hok st t' st' E.
    - cbn [rewrite_tree] in E. apply bind_inv in E. destruct E as (l & st1 & E1 & E2).
      cbn [tstmts forallb] in Hok. rewrite andb_true_r in Hok.
      pose proof (HR _ _ _ _ Hok E1) as Hr.
      destruct l as [|y [|z r]]; [discriminate| |]; unfold ret in E2; inversion E2; subst.
      + now apply DLeaf1.
      + now apply (DLeafN R s (y :: z :: r)).
    - unfold rewrite_tree, ret in E. inversion E; subst. constructor.
    - cbn [rewrite_tree] in E. apply bind_inv in E. destruct E as (l' & st1 & E1 & E2).
      unfold ret in E2. inversion E2; subst t' st1. clear E2. cbn [tstmts] in Hok. constructor.
      revert st l' st' E1 Hok. induction IH as [|t l Ht _ IHl]; intros st l' st' E1 Hok.
      + unfold ret in E1. inversion E1; subst. constructor.
      + apply bind_inv in E1. destruct E1 as (t1 & st1 & Et & E1). apply bind_inv in E1.
        destruct E1 as (r' & st2 & Er & E1). unfold ret in E1. inversion E1; subst l' st2. clear E1.
        cbn [flat_map] in Hok. rewrite forallb_app in Hok. apply andb_true_iff in Hok. destruct Hok as [Hok1 Hok2].
        constructor; [eapply Ht; eauto|eapply IHl; eauto].
    - cbn [rewrite_tree] in E. apply bind_inv in E. destruct E as (t1 & st1 & E1 & E2).
      unfold ret in E2. inversion E2; subst. constructor. eapply IHt; eauto.
    - cbn [rewrite_tree] in E. apply bind_inv in E. destruct E as (t1 & st1 & E1 & E2).
      apply bind_inv in E2. destruct E2 as (e1 & st2 & E2 & E3).
      unfold ret in E3. inversion E3; subst. cbn [tstmts] in Hok. rewrite forallb_app in Hok.
      apply andb_true_iff in Hok. destruct Hok as [Hok1 Hok2]. constructor; [eapply IHt; eauto|eapply IHe; eauto].
    - cbn [rewrite_tree] in E. apply bind_inv in E. destruct E as (b1 & st1 & E1 & E2).
      unfold ret in E2. inversion E2; subst. constructor. eapply IHb; eauto.
  Qed.
End DerivesGen.

Definition lf (s : tstmt) : bool := loopfree (tkd s).

(* no generated name is read before the statement that sets it: every pass, every tree whose
   statements carry no loops (the expander in its repaired shape) *)
Theorem def_before_use_thm lsr lbr snv sds fixed ff ords :
  ff = true ->
  forall t t' st',
    forallb lf (tstmts t) = true ->
    eliminate_self_dependencies lsr lbr snv sds ords t = TOk (t', st') \/
    isolate_function_arguments lsr lbr snv t = TOk (t', st') \/
    isolate_function_calls lsr lbr snv fixed t = TOk (t', st') \/
    expand_IfThenElse lsr lbr snv ff t = TOk (t', st') ->
    derives def_before_use t t'.
Proof.
  intros -> t t' st' Hl [E|[E|[E|E]]];
    unfold eliminate_self_dependencies, isolate_function_arguments, isolate_function_calls, expand_IfThenElse,
      run_pass, apply_rewriter in E;
    (destruct (modelled_tree t); [|discriminate]); (destruct (leaves t); [|discriminate]).
  - eapply (rewrite_derives_gen (ms_sd lsr lbr sds ords) def_before_use lf); eauto.
    intros s st0 l0 st1 Hs. now apply ms_sd_y.
  - eapply (rewrite_derives_gen ms_fai def_before_use lf); eauto.
    intros s st0 l0 st1 Hs. apply ms_generic_y; [exact Hs|]. intros c d e0. apply fai_y.
  - eapply (rewrite_derives_gen (ms_fci fixed) def_before_use lf); eauto.
    intros s st0 l0 st1 Hs. unfold ms_fci. destruct (tkd s) eqn:Ek;
      try (unfold ret; intros H; inversion H; subst; apply dbu_self).
    apply ms_generic_y; [exact Hs|]. intros c d e0. apply fci_y.
  - eapply (rewrite_derives_gen (ms_ite true) def_before_use lf); eauto.
    intros s st0 l0 st1 Hs. apply (ms_generic_y (fun c d e0 => ite true e0 c d)); [exact Hs|].
    intros c d e0. apply ite_y.
Qed.

(* with G = the generated names (none of which occurs in s): every read of a generated name is preceded,
   in the same block, by a statement that writes it *)
Lemma def_before_use_fresh s l G :
  def_before_use s l -> (forall x, In x (rvars s) -> ~ In x G) -> dbuD G [] l.
Proof. intros H Hf. apply H. intros x Hx Hg. exfalso. now apply (Hf x Hx). Qed.
