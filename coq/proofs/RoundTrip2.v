(* C19 -- level tables of printer vs parser precedences, and how a printed child is parsed. *)
From Coq Require Import List ZArith NArith String Ascii Bool Arith Lia ZifyBool.
Import ListNotations.
From Dagrt Require Import GenC19 Print Parse ParseRules RoundTrip.
Open Scope list_scope.
Open Scope nat_scope.
Notation length := List.length.

(* ------------------------------------------------------------------ level tables *)

Ltac solve_lvl c :=
  lvl_cases c; cbn in *; cs; intros; try discriminate; try lia.

Lemma top_ge_or c : prec c <? PR_LOGICAL_OR = false -> thr_or <= top_lvl c.
Proof. solve_lvl c. Qed.
Lemma top_gt_or c : prec c <? PR_LOGICAL_OR = false -> is_nary NOr c = false -> rhs_or < top_lvl c.
Proof. solve_lvl c. Qed.
Lemma top_ge_and c : prec c <? PR_LOGICAL_AND = false -> thr_and <= top_lvl c.
Proof. solve_lvl c. Qed.
Lemma top_gt_and c : prec c <? PR_LOGICAL_AND = false -> is_nary NAnd c = false -> rhs_and < top_lvl c.
Proof. solve_lvl c. Qed.
Lemma top_ge_cmp c : prec c <? PR_COMPARISON = false -> thr_cmp <= top_lvl c.
Proof. solve_lvl c. Qed.
Lemma top_gt_cmp c : prec c <? PR_COMPARISON = false -> is_cmp c = false -> rhs_cmp < top_lvl c.
Proof. solve_lvl c. Qed.
Lemma top_ge_sum c : prec c <? PR_SUM = false -> thr_plus <= top_lvl c.
Proof. solve_lvl c. Qed.
Lemma top_gt_sum c : prec c <? PR_SUM = false -> is_nary NSum c = false -> rhs_plus < top_lvl c.
Proof. solve_lvl c. Qed.
Lemma top_ge_prod c : prec c <? PR_PRODUCT = false -> PA_TIMES <= top_lvl c.
Proof. solve_lvl c. Qed.
Lemma top_gt_nonmult c : prec c <? PR_PRODUCT = false -> is_mult c = false -> PA_TIMES < top_lvl c.
Proof. solve_lvl c. Qed.
Lemma top_gt_unary c : prec c <? PR_UNARY = false -> PA_UNARY < top_lvl c.
Proof. solve_lvl c. Qed.
Lemma top_ge_pow c : prec c <? PR_POWER = false -> PA_POWER <= top_lvl c.
Proof. solve_lvl c. Qed.
Lemma top_ge_call c : prec c <? PR_CALL = false -> PA_CALL <= top_lvl c.
Proof. solve_lvl c. Qed.

Ltac solve_redge c :=
  unfold redge; destruct c as [z|bb|x|o l|o a b|a|c1 c2 c3|f args kw|a i|l];
  try (destruct o as [| | |]); try (destruct o as [| | | |cc]);
  cbn [prec redge0 nary_prec bin_prec is_mult is_qfr is_pow is_if];
  try (destruct (z <? 0)%Z); cbn; cs; intros; try discriminate; try lia.

Lemma redge_or c : PA_LOGICAL_OR <= redge PR_LOGICAL_OR c.
Proof. solve_redge c. Qed.
Lemma redge_and c : PA_LOGICAL_AND <= redge PR_LOGICAL_AND c.
Proof. solve_redge c. Qed.
Lemma redge_cmp c : PA_COMPARISON <= redge PR_COMPARISON c.
Proof. solve_redge c. Qed.
Lemma redge_sum c : PA_PLUS <= redge PR_SUM c.
Proof. solve_redge c. Qed.
Lemma redge_prod c : PA_PLUS <= redge PR_PRODUCT c.
Proof. solve_redge c. Qed.
Lemma redge_nonmult c : is_mult c = false -> PA_TIMES <= redge PR_PRODUCT c.
Proof. solve_redge c. Qed.
Lemma redge_unary c : PA_TIMES <= redge PR_UNARY c.
Proof. solve_redge c. Qed.
Lemma redge_pow c : PA_TIMES <= redge PR_POWER c.
Proof. solve_redge c. Qed.
Lemma redge_nonpow c : is_pow c = false -> BIG <= redge PR_POWER c.
Proof. solve_redge c. Qed.
Lemma redge_call c : BIG <= redge PR_CALL c.
Proof. solve_redge c. Qed.
Lemma redge_nonif c : is_if c = false -> PA_LOGICAL_OR <= redge 0 c.
Proof. solve_redge c. Qed.

Lemma follow_tok m t r : is_id t = false -> accepts m t = false -> follow m (t :: r) = true.
Proof. intros H1 H2. cbn. rewrite H1, H2. reflexivity. Qed.

(* ------------------------------------------------------------------ a printed child *)

Definition Body (e : expr) : Prop :=
  forall p rest r, p < top_lvl e -> follow (redge0 e) rest = true ->
                   LP p e false rest r -> PE p (B e ++ rest) r.

Lemma okc_elim c : okc nf c = true -> nf c = true /\ is_tuple c = false.
Proof. unfold okc. intros H. apply andb_true_iff in H as [H1 H2]. apply negb_true_iff in H2. auto. Qed.

Lemma not_rpar_of_start ts : starts_ok ts = true -> match ts with TRPar :: _ => False | _ => True end.
Proof. destruct ts as [|[] ?]; cbn; intros; try exact I; discriminate. Qed.

Lemma forced_paren_PE c :
  Body c -> nf c = true -> is_tuple c = false ->
  forall p rest r, LP p c false rest r -> PE p (paren (B c) ++ rest) r.
Proof.
  intros HB Hnf Ht p rest r HL. rewrite paren_app.
  eapply PE_intro.
  - apply prefix_paren with (e := c) (r' := rest).
    + apply not_rpar_of_start. apply (start_print c Hnf Ht 0 (TRPar :: rest)); [cs; lia | exact I].
    + apply HB; [pose proof (top_lvl_min c); cs; lia | apply follow_rpar | apply LP_stop; apply follow_rpar].
  - cbn [length]. rewrite app_length. cbn [length]. lia.
  - rewrite Ht. exact HL.
Qed.

Lemma child_PE c :
  Body c -> nf c = true -> is_tuple c = false ->
  forall q p rest r, q <= PR_CALL ->
    (prec c <? q = false -> p < top_lvl c) ->
    follow (redge q c) rest = true ->
    LP p c false rest r -> PE p (print [] q c ++ rest) r.
Proof.
  intros HB Hnf Ht q p rest r Hq Hacc Hfo HL.
  rewrite print_paren by assumption. unfold redge in Hfo.
  destruct (prec c <? q) eqn:E; cbn [paren_if].
  - apply forced_paren_PE; auto.
  - apply HB; auto.
Qed.

(* an item of an argument list / index list: followed by `,` (then it is not an If), `)` or `]` *)
Definition item_next (c : expr) (next : list token) : Prop :=
  match next with
  | TComma :: _ => is_if c = false
  | TRPar :: _ | TRBrk :: _ => True
  | _ => False
  end.

Lemma item_PE c next :
  Body c -> nf c = true -> is_tuple c = false -> item_next c next ->
  PE PA_COMMA (print [] PR_NONE c ++ next) (c, next).
Proof.
  intros HB Hnf Ht Hn.
  apply child_PE; auto; [cs; lia | intros _; pose proof (top_lvl_min c); cs; lia | |].
  - destruct next as [|[] ?]; try contradiction; try reflexivity.
    cbn in Hn. pose proof (redge_nonif c Hn) as Hr. apply follow_tok; [reflexivity|].
    cbn [accepts]. apply Nat.ltb_ge. unfold PR_NONE. cs. lia.
  - apply LP_stop. destruct next as [|[] ?]; try contradiction; reflexivity.
Qed.
