(* C09: the property theorems about coq/model/Kinds.v. *)
From Coq Require Import List String Bool Arith Lia.
Import ListNotations.
Open Scope string_scope.
Open Scope list_scope.
From Dagrt Require Import Kinds KindsClassProofs KindsProofs KindsTableProofs KindsFinderProofs.

(* ================================================================== every assigned variable has a kind *)

Lemma sum_kinds_some : forall rs acc last ko, sum_kinds rs acc last = Ok ko -> ko <> None.
Proof.
  induction rs as [|r rs IH]; intros acc last ko H; simpl in H.
  - destruct acc; [inversion H; discriminate | destruct last; discriminate].
  - destruct r as [k|e].
    + destruct (unify acc k); [eapply IH; eauto | discriminate].
    + destruct e; try discriminate. eapply IH; eauto.
Qed.

Lemma prod_kinds_some : forall rs acc ko,
  (forall ko', In (Ok ko') rs -> ko' <> None) -> (acc <> None \/ rs <> []) ->
  prod_kinds rs acc = Ok ko -> ko <> None.
Proof.
  induction rs as [|r rs IH]; intros acc ko Hrs Hne H; simpl in H.
  - inversion H; subst. destruct Hne; congruence.
  - destruct r as [k|e]; [|discriminate].
    destruct (unify acc k) as [k'|] eqn:Hu; [|discriminate].
    eapply IH; [| |exact H].
    + intros ko' Hin. apply Hrs. right. exact Hin.
    + left. assert (Hk : k <> None) by (apply Hrs; left; reflexivity).
      destruct acc as [a|]; [|simpl in Hu; inversion Hu; subst; exact Hk].
      eapply unify_some; [| |exact Hu]; [discriminate | exact Hk].
Qed.

Lemma kmap_some : forall C reg G L,
  pow_fix C = true -> tbl_all_some G -> tbl_all_some L ->
  forall e ko, wf_expr e = true -> kmap C reg G L e = Ok ko -> ko <> None.
Proof.
  intros C reg G L Hpf HG HL.
  assert (Hchildren : forall l, Forall (fun e => forall ko, wf_expr e = true -> kmap C reg G L e = Ok ko -> ko <> None) l ->
                                forallb wf_expr l = true ->
                                forall ko', In (Ok ko') (map (kmap C reg G L) l) -> ko' <> None).
  { intros l HF Hw ko' Hin. apply in_map_iff in Hin. destruct Hin as [e [He Hin]].
    rewrite Forall_forall in HF. rewrite forallb_forall in Hw. eapply HF; eauto. }
  induction e using expr_ind'; intros ko Hw Hk; simpl in Hw, Hk.
  - inversion Hk. discriminate.
  - destruct (alookup G x) as [k|] eqn:E1; [inversion Hk; subst; eapply HG; eauto|].
    destruct (alookup L x) as [k|] eqn:E2; [inversion Hk; subst; eapply HL; eauto | discriminate].
  - eapply sum_kinds_some; eauto.
  - apply andb_prop in Hw. destruct Hw as [Hn Hw].
    eapply prod_kinds_some; [| |exact Hk]; [apply Hchildren; assumption|].
    right. destruct l; [discriminate | discriminate].
  - apply andb_prop in Hw. destruct Hw as [Hw1 Hw2].
    change (prod_kinds [kmap C reg G L e1; kmap C reg G L e2] None = Ok ko) in Hk.
    eapply prod_kinds_some; [| |exact Hk]; [|right; discriminate].
    intros ko' [E|[E|[]]]; [eapply IHe1 | eapply IHe2]; eauto.
  - apply andb_prop in Hw. destruct Hw as [Hw1 Hw2]. rewrite Hpf in Hk.
    change (prod_kinds [kmap C reg G L e1; kmap C reg G L e2] None = Ok ko) in Hk.
    eapply prod_kinds_some; [| |exact Hk]; [|right; discriminate].
    intros ko' [E|[E|[]]]; [eapply IHe1 | eapply IHe2]; eauto.
  - inversion Hk. discriminate.
  - apply logic_kinds_ok in Hk. subst. discriminate.
  - apply logic_kinds_ok in Hk. subst. discriminate.
  - destruct (kmap C reg G L e); [inversion Hk; discriminate | discriminate].
  - inversion Hk. discriminate.
  - inversion Hk. discriminate.
  - destruct (kmap C reg G L e1) as [k|]; [|discriminate].
    destruct (realness k); inversion Hk. discriminate.
  - destruct (kcall reg f (map (kmap C reg G L) args) kwn) as [[|k [|k2 ks]]|]; inversion Hk. discriminate.
Qed.

Definition relB (T T' : skt) : Prop := all_some T -> all_some T'.

Lemma nil_all_some : tbl_all_some [].
Proof. intros y ko H. discriminate. Qed.

Lemma procB : forall C reg T ph s,
  pow_fix C = true -> wf_stmt s = true ->
  match proc_stmt C reg T ph s with
  | SDone T' _ => relB T T' /\ True
  | SRetry T' => relB T T'
  | SFail _ => True
  end.
Proof.
  intros C reg T ph s Hpf Hw.
  assert (Rt : forall T ph x k, relB T (tset C T ph x (Some k))).
  { intros T0 ph0 x k H. apply tset_all_some; [exact H | discriminate]. }
  assert (Rr : forall T, relB T T) by (intros T0 H; exact H).
  assert (Rtr : forall a b c, relB a b -> relB b c -> relB a c) by (intros a b c H1 H2 H; auto).
  destruct s as [x has_sub rhs loops | xs f args kwn |]; simpl.
  - pose proof (loops_rel C relB Rr Rtr Rt ph loops T) as HL.
    destruct has_sub; [split; [exact HL | exact I]|].
    match goal with |- context [kmap C reg ?g ?l rhs] => destruct (kmap C reg g l rhs) as [k|e] eqn:Ek end.
    + split; [|exact I]. intros Hall. pose proof (HL Hall) as H1. apply tset_all_some; [exact H1|].
      eapply kmap_some; [exact Hpf | | | exact Hw | exact Ek].
      * apply H1.
      * destruct (alookup (sp T) ph); [apply H1 | apply nil_all_some].
    + destruct e; auto.
  - destruct (kcall reg f (map (kmap C reg (sg T) (local_of T ph)) args) kwn) as [ks|e].
    + split; [|exact I]. apply (set_many_rel C relB Rr Rtr Rt).
    + destruct e; auto.
  - split; [apply Rr | exact I].
Qed.

Lemma infer_all_some : forall C reg fo fi D forced T,
  pow_fix C = true -> wf_program D = true ->
  infer C reg fo fi D forced = Ok T -> all_some T.
Proof.
  intros C reg fo fi D forced T Hpf Hw H. unfold infer in H.
  destruct (outer C reg fo fi D (apply_forced C forced init_table)) as [T1|e] eqn:E; [|discriminate].
  destruct (final_check C reg T1 D); [discriminate|]. inversion H; subst T1. clear H.
  apply (outer_gen C reg relB (fun it => wf_stmt (snd it) = true) (fun _ _ => True)) in E.
  - destruct E as [HR _]. apply HR.
    assert (Hf : forall forced T0, all_some T0 -> all_some (apply_forced C forced T0)).
    { unfold apply_forced. induction forced0 as [|[[ph x] k] forced0 IH]; intros T0 H0; simpl; [exact H0|].
      apply IH. apply tset_all_some; [exact H0 | discriminate]. }
    apply Hf. split.
    + intros y ko Hy.
      change (alookup (sg init_table) y)
        with (if String.eqb "<t>" y then Some (Some (KScalar true))
              else if String.eqb "<dt>" y then Some (Some (KScalar true)) else @None okind) in Hy.
      destruct (String.eqb "<t>" y); [inversion Hy; discriminate|].
      destruct (String.eqb "<dt>" y); [inversion Hy; discriminate | discriminate].
    + intros p. unfold local_of. simpl. apply nil_all_some.
  - intros T0 H0. exact H0.
  - intros a b c H1 H2 H0. auto.
  - intros T0 ph s Hs. apply procB; assumption.
  - auto.
  - intros T0 H0. destruct H0 as [Hg Hl]. split; [exact Hg | exact Hl].
  - intros [ph s] Hin. simpl. apply in_items_of in Hin. destruct Hin as [stmts [HD Hs]].
    unfold wf_program in Hw. rewrite forallb_forall in Hw. specialize (Hw (ph, stmts) HD). simpl in Hw.
    rewrite forallb_forall in Hw. apply Hw. exact Hs.
Qed.

Lemma lookup_all_some : forall T ph x, all_some T -> lookup T ph x <> None -> exists k, lookup T ph x = Some (Some k).
Proof.
  intros T ph x [Hg Hl] H. unfold lookup in *. destruct (alookup (sg T) x) as [ko|] eqn:E.
  - destruct ko as [k|]; [eauto | exfalso; eapply Hg; eauto].
  - destruct (alookup (local_of T ph) x) as [ko|] eqn:E2; [|congruence].
    destruct ko as [k|]; [eauto | exfalso; eapply Hl; eauto].
Qed.

(* C09, first part, for the repaired power rule *)
Theorem every_assigned : forall C reg fo fi D forced T,
  pow_fix C = true -> init_twf C -> wf_program D = true ->
  infer C reg fo fi D forced = Ok T ->
  forall ph stmts s x, In (ph, stmts) D -> In s stmts -> assigns s x ->
  exists k, lookup T ph x = Some (Some k).
Proof.
  intros C reg fo fi D forced T Hpf Hinit Hw H ph stmts s x HD Hs Ha.
  pose proof (infer_all_some _ _ _ _ _ _ _ Hpf Hw H) as Hall.
  destruct (infer_keys _ _ _ _ _ _ _ Hinit H) as [_ [HkA HkC]].
  apply lookup_all_some; [exact Hall|].
  destruct s as [y [] rhs loops | xs f args kwn |]; simpl in Ha; try contradiction.
  - subst y. eapply HkA; eauto.
  - eapply HkC; eauto.
Qed.

(* ... and its refutation for the unchanged rule: x <- <t> ** 2 *)
Definition wit_pow : program := [("ph", [SAssign "x" false (EPow (EVar "<t>") (EConst CInt)) []])].

(* any configuration with the unchanged power rule in which "x" is not a global name *)
Definition cfg_of (pw nm ia : bool) : cfg :=
  mkCfg pw nm ia ["<t>"; "<dt>"] ["<state>"; "<p>"; "<ret_time_id>"; "<ret_time>"; "<ret_state>"].

Lemma every_assigned_refuted : forall nm ia,
  exists T, infer (cfg_of false nm ia) builtin_reg (outer_fuel wit_pow) (inner_fuel wit_pow) wit_pow [] = Ok T /\
            wf_program wit_pow = true /\
            assigns (SAssign "x" false (EPow (EVar "<t>") (EConst CInt)) []) "x" /\
            lookup T "ph" "x" = Some None.
Proof.
  intros nm ia. destruct nm, ia; eexists; (split; [vm_compute; reflexivity|]); repeat split; reflexivity.
Qed.
