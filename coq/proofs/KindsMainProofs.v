(* C09: the property theorems about coq/model/Kinds.v. *)
From Coq Require Import List String Bool Arith Lia.
Import ListNotations.
Open Scope string_scope.
Open Scope list_scope.
From Dagrt Require Import Kinds KindsClassProofs KindsProofs KindsTableProofs KindsFinderProofs.

(* ================================================================== every assigned variable has a kind *)

Lemma sum_kinds_some : forall rs acc last ko, sum_kinds rs acc last = Ok ko -> ko <> None.
Proof.
  induction rs as [|r rs IH]; intros acc last ko H; simpl in H.
  - destruct acc; [inversion H; discriminate | destruct last; discriminate].
  - destruct r as [k|e].
    + destruct (unify acc k); [eapply IH; eauto | discriminate].
    + destruct e; try discriminate. eapply IH; eauto.
Qed.

Lemma prod_kinds_some : forall rs acc ko,
  (forall ko', In (Ok ko') rs -> ko' <> None) -> (acc <> None \/ rs <> []) ->
  prod_kinds rs acc = Ok ko -> ko <> None.
Proof.
  induction rs as [|r rs IH]; intros acc ko Hrs Hne H; simpl in H.
  - inversion H; subst. destruct Hne; congruence.
  - destruct r as [k|e]; [|discriminate].
    destruct (unify acc k) as [k'|] eqn:Hu; [|discriminate].
    eapply IH; [| |exact H].
    + intros ko' Hin. apply Hrs. right. exact Hin.
    + left. assert (Hk : k <> None) by (apply Hrs; left; reflexivity).
      destruct acc as [a|]; [|simpl in Hu; inversion Hu; subst; exact Hk].
      eapply unify_some; [| |exact Hu]; [discriminate | exact Hk].
Qed.

Lemma kmap_some : forall C reg G L,
  pow_fix C = true -> tbl_all_some G -> tbl_all_some L ->
  forall e ko, wf_expr e = true -> kmap C reg G L e = Ok ko -> ko <> None.
Proof.
  intros C reg G L Hpf HG HL.
  assert (Hchildren : forall l, Forall (fun e => forall ko, wf_expr e = true -> kmap C reg G L e = Ok ko -> ko <> None) l ->
                                forallb wf_expr l = true ->
                                forall ko', In (Ok ko') (map (kmap C reg G L) l) -> ko' <> None).
  { intros l HF Hw ko' Hin. apply in_map_iff in Hin. destruct Hin as [e [He Hin]].
    rewrite Forall_forall in HF. rewrite forallb_forall in Hw. eapply HF; eauto. }
  induction e using expr_ind'; intros ko Hw Hk; simpl in Hw, Hk.
  - inversion Hk. discriminate.
  - destruct (alookup G x) as [k|] eqn:E1; [inversion Hk; subst; eapply HG; eauto|].
    destruct (alookup L x) as [k|] eqn:E2; [inversion Hk; subst; eapply HL; eauto | discriminate].
  - eapply sum_kinds_some; eauto.
  - apply andb_prop in Hw. destruct Hw as [Hn Hw].
    eapply prod_kinds_some; [| |exact Hk]; [apply Hchildren; assumption|].
    right. destruct l; [discriminate | discriminate].
  - apply andb_prop in Hw. destruct Hw as [Hw1 Hw2].
    change (prod_kinds [kmap C reg G L e1; kmap C reg G L e2] None = Ok ko) in Hk.
    eapply prod_kinds_some; [| |exact Hk]; [|right; discriminate].
    intros ko' [E|[E|[]]]; [eapply IHe1 | eapply IHe2]; eauto.
  - apply andb_prop in Hw. destruct Hw as [Hw1 Hw2]. rewrite Hpf in Hk.
    change (prod_kinds [kmap C reg G L e1; kmap C reg G L e2] None = Ok ko) in Hk.
    eapply prod_kinds_some; [| |exact Hk]; [|right; discriminate].
    intros ko' [E|[E|[]]]; [eapply IHe1 | eapply IHe2]; eauto.
  - inversion Hk. discriminate.
  - apply logic_kinds_ok in Hk. subst. discriminate.
  - apply logic_kinds_ok in Hk. subst. discriminate.
  - destruct (kmap C reg G L e); [inversion Hk; discriminate | discriminate].
  - inversion Hk. discriminate.
  - inversion Hk. discriminate.
  - destruct (kmap C reg G L e1) as [k|]; [|discriminate].
    destruct (realness k); inversion Hk. discriminate.
  - destruct (kcall C reg f (map (kmap C reg G L) args) kwn) as [[|k [|k2 ks]]|]; inversion Hk. discriminate.
Qed.

Definition relB (T T' : skt) : Prop := all_some T -> all_some T'.

Lemma nil_all_some : tbl_all_some [].
Proof. intros y ko H. discriminate. Qed.

Lemma procB : forall C reg T ph s,
  pow_fix C = true -> wf_stmt s = true ->
  match proc_stmt C reg T ph s with
  | SDone T' _ => relB T T' /\ True
  | SRetry T' => relB T T'
  | SFail _ => True
  end.
Proof.
  intros C reg T ph s Hpf Hw.
  assert (Rt : forall T ph x k, relB T (tset C T ph x (Some k))).
  { intros T0 ph0 x k H. apply tset_all_some; [exact H | discriminate]. }
  assert (Rr : forall T, relB T T) by (intros T0 H; exact H).
  assert (Rtr : forall a b c, relB a b -> relB b c -> relB a c) by (intros a b c H1 H2 H; auto).
  destruct s as [x has_sub rhs loops | xs f args kwn |]; simpl.
  - pose proof (loops_rel C relB Rr Rtr Rt ph loops T) as HL.
    match goal with |- context [raised C ?t] => destruct (raised C t); [exact I|] end.
    destruct has_sub; [split; [exact HL | exact I]|].
    match goal with |- context [kmap C reg ?g ?l rhs] => destruct (kmap C reg g l rhs) as [k|e] eqn:Ek end.
    + match goal with |- context [raised C ?t] => destruct (raised C t); [exact I|] end.
      split; [|exact I]. intros Hall. pose proof (HL Hall) as H1. apply tset_all_some; [exact H1|].
      eapply kmap_some; [exact Hpf | | | exact Hw | exact Ek].
      * apply H1.
      * destruct (alookup (sp T) ph); [apply H1 | apply nil_all_some].
    + destruct e; auto.
  - destruct (kcall C reg f (map (kmap C reg (sg T) (local_of T ph)) args) kwn) as [ks|e].
    + match goal with |- context [raised C ?t] => destruct (raised C t); [exact I|] end.
      split; [|exact I]. apply (set_many_rel C relB Rr Rtr Rt).
    + destruct e; auto.
  - split; [apply Rr | exact I].
Qed.

Lemma infer_all_some : forall C reg fo fi D forced T,
  pow_fix C = true -> wf_program D = true ->
  infer C reg fo fi D forced = Ok T -> all_some T.
Proof.
  intros C reg fo fi D forced T Hpf Hw H. destruct (infer_inv _ _ _ _ _ _ _ H) as [_ [E _]]. clear H.
  apply (outer_gen C reg relB (fun it => wf_stmt (snd it) = true) (fun _ _ => True)) in E.
  - destruct E as [HR _]. apply HR.
    assert (Hl : forall T0, all_some T0 -> all_some (apply_loops C D T0)).
    { unfold apply_loops. induction (items_of D) as [|[ph s] l IHl]; intros T0 H0; simpl; [exact H0|].
      apply IHl. destruct s; simpl; try exact H0.
      apply (loops_rel C relB (fun T H => H) (fun a b c H1 H2 H => H2 (H1 H))
                       (fun T ph x k H => tset_all_some C T ph x (Some k) H ltac:(discriminate))); exact H0. }
    apply Hl.
    assert (Hf : forall forced T0, all_some T0 -> all_some (apply_forced C forced T0)).
    { unfold apply_forced. induction forced0 as [|[[ph x] k] forced0 IH]; intros T0 H0; simpl; [exact H0|].
      apply IH. apply tset_all_some; [exact H0 | discriminate]. }
    apply Hf. split.
    + intros y ko Hy.
      change (alookup (sg init_table) y)
        with (if String.eqb "<t>" y then Some (Some (KScalar true))
              else if String.eqb "<dt>" y then Some (Some (KScalar true)) else @None okind) in Hy.
      destruct (String.eqb "<t>" y); [inversion Hy; discriminate|].
      destruct (String.eqb "<dt>" y); [inversion Hy; discriminate | discriminate].
    + intros p. unfold local_of. simpl. apply nil_all_some.
  - intros T0 H0. exact H0.
  - intros a b c H1 H2 H0. auto.
  - intros T0 ph s Hs. apply procB; assumption.
  - auto.
  - intros T0 H0. destruct H0 as [Hg Hl]. split; [exact Hg | exact Hl].
  - intros [ph s] Hin. simpl. apply in_items_of in Hin. destruct Hin as [stmts [HD Hs]].
    unfold wf_program in Hw. rewrite forallb_forall in Hw. specialize (Hw (ph, stmts) HD). simpl in Hw.
    rewrite forallb_forall in Hw. apply Hw. exact Hs.
Qed.

Lemma lookup_all_some : forall T ph x, all_some T -> lookup T ph x <> None -> exists k, lookup T ph x = Some (Some k).
Proof.
  intros T ph x [Hg Hl] H. unfold lookup in *. destruct (alookup (sg T) x) as [ko|] eqn:E.
  - destruct ko as [k|]; [eauto | exfalso; eapply Hg; eauto].
  - destruct (alookup (local_of T ph) x) as [ko|] eqn:E2; [|congruence].
    destruct ko as [k|]; [eauto | exfalso; eapply Hl; eauto].
Qed.

(* C09, first part, for the repaired power rule *)
Theorem every_assigned : forall C reg fo fi D forced T,
  pow_fix C = true -> init_twf C -> wf_program D = true ->
  infer C reg fo fi D forced = Ok T ->
  forall ph stmts s x, In (ph, stmts) D -> In s stmts -> assigns s x ->
  exists k, lookup T ph x = Some (Some k).
Proof.
  intros C reg fo fi D forced T Hpf Hinit Hw H ph stmts s x HD Hs Ha.
  pose proof (infer_all_some _ _ _ _ _ _ _ Hpf Hw H) as Hall.
  destruct (infer_keys _ _ _ _ _ _ _ Hinit H) as [_ [HkA HkC]].
  apply lookup_all_some; [exact Hall|].
  destruct s as [y [] rhs loops | xs f args kwn |]; simpl in Ha; try contradiction.
  - subst y. eapply HkA; eauto.
  - eapply HkC; eauto.
Qed.

(* ... and its refutation for the unchanged rule: x <- <t> ** 2 *)
Definition wit_pow : program := [("ph", [SAssign "x" false (EPow (EVar "<t>") (EConst CInt)) []])].

(* any configuration with the unchanged power rule in which "x" is not a global name *)
Definition cfg_of (pw nm ia cr fr na : bool) : cfg :=
  mkCfg pw nm ia cr fr na ["<t>"; "<dt>"] ["<state>"; "<p>"; "<ret_time_id>"; "<ret_time>"; "<ret_state>"].

Lemma every_assigned_refuted : forall nm ia cr fr na,
  exists T, infer (cfg_of false nm ia cr fr na) builtin_reg (outer_fuel wit_pow) (inner_fuel wit_pow) wit_pow [] = Ok T /\
            wf_program wit_pow = true /\
            assigns (SAssign "x" false (EPow (EVar "<t>") (EConst CInt)) []) "x" /\
            lookup T "ph" "x" = Some None.
Proof.
  intros nm ia cr fr na. destruct nm, ia, cr, fr, na; eexists; (split; [vm_compute; reflexivity|]); repeat split; reflexivity.
Qed.

(* ================================================================== with the repaired `set`: the final table is stable *)

Definition stable_entry (C : cfg) (T : skt) (ph x : string) (k : okind) : Prop :=
  exists old, alookup (tbl_of C T ph x) x = Some old /\ (old = k \/ unify k old = Ok old).

Fixpoint zip_stable (C : cfg) (T : skt) (ph : string) (xs : list string) (ks : list kind) : Prop :=
  match xs, ks with
  | x :: xs', k :: ks' => stable_entry C T ph x (Some k) /\ zip_stable C T ph xs' ks'
  | _, _ => True
  end.

Definition stable_item (C : cfg) (reg : registry) (T : skt) (it : item) : Prop :=
  match snd it with
  | SAssign x false rhs loops =>
      Forall (fun i => stable_entry C T (fst it) i (Some KInt)) loops /\
      exists k, kmap C reg (sg T) (local_of T (fst it)) rhs = Ok k /\ stable_entry C T (fst it) x k
  | SCall xs f args kwn =>
      exists ks, kcall C reg f (map (kmap C reg (sg T) (local_of T (fst it))) args) kwn = Ok ks /\
                 zip_stable C T (fst it) xs ks
  | _ => True
  end.

Lemma same_content_refl : forall T, same_content T T.
Proof. intros T. split; reflexivity. Qed.

Lemma same_content_trans : forall a b c, same_content a b -> same_content b c -> same_content a c.
Proof. intros a b c [H1 H2] [H3 H4]. split; congruence. Qed.

Lemma same_content_sym : forall a b, same_content a b -> same_content b a.
Proof. intros a b [H1 H2]. split; congruence. Qed.

Lemma local_of_content : forall T T' ph, same_content T T' -> local_of T ph = local_of T' ph.
Proof. intros T T' ph [_ H]. unfold local_of. rewrite H. reflexivity. Qed.

Lemma tbl_of_content : forall C T T' ph x, same_content T T' -> tbl_of C T ph x = tbl_of C T' ph x.
Proof.
  intros C T T' ph x H. unfold tbl_of. destruct (is_state C x); [apply H | apply local_of_content; exact H].
Qed.

Lemma stable_entry_content : forall C T T' ph x k,
  same_content T T' -> stable_entry C T ph x k -> stable_entry C T' ph x k.
Proof. intros C T T' ph x k H [old [Ho Hm]]. exists old. rewrite <- (tbl_of_content C T T' ph x H). auto. Qed.

Lemma zip_stable_content : forall C T T' ph xs ks,
  same_content T T' -> zip_stable C T ph xs ks -> zip_stable C T' ph xs ks.
Proof.
  intros C T T' ph. induction xs as [|x xs IH]; intros ks H Hz; simpl in *; [exact I|].
  destruct ks as [|k ks]; [exact I|]. destruct Hz as [H1 H2]. split; [eapply stable_entry_content; eauto | auto].
Qed.

Lemma stable_item_content : forall C reg T T' it,
  same_content T T' -> stable_item C reg T it -> stable_item C reg T' it.
Proof.
  intros C reg T T' [ph s] H Hs. unfold stable_item in *. simpl in *.
  destruct s as [x [] rhs loops | xs f args kwn |]; auto.
  - destruct Hs as [Hl [k [Hk He]]]. split.
    + eapply Forall_impl; [|exact Hl]. intros i Hi. eapply stable_entry_content; eauto.
    + exists k. destruct H as [Hg Hp]. rewrite <- Hg, <- (local_of_content T T' ph (conj Hg Hp)).
      split; [exact Hk | eapply stable_entry_content; eauto; split; assumption].
  - destruct Hs as [ks [Hk Hz]]. exists ks. destruct H as [Hg Hp].
    rewrite <- Hg, <- (local_of_content T T' ph (conj Hg Hp)).
    split; [exact Hk | eapply zip_stable_content; eauto; split; assumption].
Qed.

Definition relC (T T' : skt) : Prop :=
  (schanged T' = false -> same_content T T' /\ schanged T = false) /\ sconf T <= sconf T'.

Definition postC (C : cfg) (reg : registry) (it : item) (T : skt) : Prop :=
  schanged T = false /\ sconf T = 0 -> stable_item C reg T it.

Lemma relC_refl : forall T, relC T T.
Proof. intros T. split; [intros H; split; [apply same_content_refl | exact H] | lia]. Qed.

Lemma relC_trans : forall a b c, relC a b -> relC b c -> relC a c.
Proof.
  intros a b c [H1 H2] [H3 H4]. split; [|lia]. intros Hc. destruct (H3 Hc) as [Hbc Hb].
  destruct (H1 Hb) as [Hab Ha]. split; [eapply same_content_trans; eauto | exact Ha].
Qed.

Lemma relC_tset : forall C T ph x k, new_marks C = true -> relC T (tset C T ph x k).
Proof.
  intros C T ph x k Hnm. split; [|apply tset_conf_mono].
  intros Hc. destruct (tset_unchanged C T ph x k Hnm Hc) as [H1 [H2 _]]. auto.
Qed.

Lemma loops_stable : forall C ph loops T,
  new_marks C = true ->
  let T1 := fold_left (fun T i => tset C T ph i (Some KInt)) loops T in
  schanged T1 = false -> sconf T1 = 0 ->
  same_content T T1 /\ schanged T = false /\ sconf T = 0 /\
  Forall (fun i => stable_entry C T ph i (Some KInt)) loops.
Proof.
  intros C ph loops T Hnm. revert T. induction loops as [|i loops IH]; intros T T1 Hc Hn; simpl in *.
  - split; [apply same_content_refl|]. split; [assumption|]. split; [assumption|]. simpl; auto.
  - destruct (IH (tset C T ph i (Some KInt)) Hc Hn) as [Hs [Hc' [Hn' HF]]].
    destruct (tset_unchanged C T ph i (Some KInt) Hnm Hc') as [Hs0 [Hc0 Hst]].
    pose proof (tset_conf_mono C T ph i (Some KInt)) as Hle.
    assert (Hn0 : sconf T = 0) by lia.
    split; [eapply same_content_trans; eauto|]. split; [exact Hc0|]. split; [exact Hn0|].
    constructor.
    + apply Hst. lia.
    + eapply Forall_impl; [|exact HF]. intros j Hj. eapply stable_entry_content; [|exact Hj].
      apply same_content_sym. exact Hs0.
Qed.

Lemma set_many_stable : forall C ph xs ks T,
  new_marks C = true ->
  schanged (set_many C T ph xs ks) = false -> sconf (set_many C T ph xs ks) = 0 ->
  same_content T (set_many C T ph xs ks) /\ schanged T = false /\ sconf T = 0 /\ zip_stable C T ph xs ks.
Proof.
  intros C ph xs. induction xs as [|x xs IH]; intros ks T Hnm Hc Hn; simpl in *.
  - split; [apply same_content_refl|]. split; [assumption|]. split; [assumption|]. simpl; auto.
  - destruct ks as [|k ks].
    + split; [apply same_content_refl|]. split; [assumption|]. split; [assumption|]. exact I.
    + destruct (IH ks (tset C T ph x (Some k)) Hnm Hc Hn) as [Hs [Hc' [Hn' Hz]]].
      destruct (tset_unchanged C T ph x (Some k) Hnm Hc') as [Hs0 [Hc0 Hst]].
      pose proof (tset_conf_mono C T ph x (Some k)) as Hle.
      assert (Hn0 : sconf T = 0) by lia.
      split; [eapply same_content_trans; eauto|]. split; [exact Hc0|]. split; [exact Hn0|].
      split.
      * apply Hst. lia.
      * eapply zip_stable_content; [|exact Hz]. apply same_content_sym. exact Hs0.
Qed.

Lemma procC : forall C reg T ph s,
  new_marks C = true ->
  match proc_stmt C reg T ph s with
  | SDone T' _ => relC T T' /\ postC C reg (ph, s) T'
  | SRetry T' => relC T T'
  | SFail _ => True
  end.
Proof.
  intros C reg T ph s Hnm.
  assert (Rt : forall T ph x k, relC T (tset C T ph x (Some k))) by (intros; apply relC_tset; exact Hnm).
  destruct s as [x has_sub rhs loops | xs f args kwn |]; simpl.
  - pose proof (loops_rel C relC relC_refl relC_trans Rt ph loops T) as HL.
    set (T1 := fold_left (fun T i => tset C T ph i (Some KInt)) loops T) in *.
    destruct (raised C T1); [exact I|].
    destruct has_sub; [split; [exact HL | intros _; exact I]|].
    destruct (kmap C reg (sg T1) match alookup (sp T) ph with Some _ => local_of T1 ph | None => [] end rhs)
      as [k|e] eqn:Ek.
    + destruct (raised C (tset C T1 ph x k)); [exact I|].
      split; [eapply relC_trans; [exact HL | apply relC_tset; exact Hnm]|].
      intros [Hc Hn]. unfold stable_item. simpl.
      destruct (tset_unchanged C T1 ph x k Hnm Hc) as [Hs12 [Hc1 Hst]].
      pose proof (tset_conf_mono C T1 ph x k) as Hle.
      assert (Hn1 : sconf T1 = 0) by lia.
      destruct (loops_stable C ph loops T Hnm Hc1 Hn1) as [Hs01 [Hc0 [Hn0 HF]]].
      fold T1 in Hs01.
      assert (Hs02 : same_content T (tset C T1 ph x k)) by (eapply same_content_trans; eauto).
      split.
      * eapply Forall_impl; [|exact HF]. intros i Hi. eapply stable_entry_content; eauto.
      * exists k. split.
        -- assert (HL1 : match alookup (sp T) ph with Some _ => local_of T1 ph | None => [] end = local_of T1 ph).
           { destruct (alookup (sp T) ph) eqn:E; [reflexivity|].
             unfold local_of. destruct Hs01 as [_ Hp]. rewrite <- Hp, E. reflexivity. }
           rewrite HL1 in Ek. destruct Hs12 as [Hg Hp].
           rewrite <- Hg, <- (local_of_content T1 _ ph (conj Hg Hp)). exact Ek.
        -- eapply stable_entry_content; [exact Hs12|]. apply Hst. lia.
    + destruct e; auto.
  - destruct (kcall C reg f (map (kmap C reg (sg T) (local_of T ph)) args) kwn) as [ks|e] eqn:Ek.
    + destruct (raised C (set_many C T ph xs ks)); [exact I|].
      split; [apply (set_many_rel C relC relC_refl relC_trans Rt)|].
      intros [Hc Hn]. unfold stable_item. simpl.
      destruct (set_many_stable C ph xs ks T Hnm Hc Hn) as [Hs [Hc0 [Hn0 Hz]]].
      exists ks. destruct Hs as [Hg Hp].
      rewrite <- Hg, <- (local_of_content T _ ph (conj Hg Hp)).
      split; [exact Ek | eapply zip_stable_content; [|exact Hz]; split; assumption].
    + destruct e; auto. apply relC_refl.
  - split; [apply relC_refl | intros _; exact I].
Qed.

Lemma postC_mono : forall C reg it T T', relC T T' -> postC C reg it T -> postC C reg it T'.
Proof.
  intros C reg it T T' [H1 H2] HP [Hc Hn]. destruct (H1 Hc) as [Hs Hc0].
  eapply stable_item_content; [exact Hs|]. apply HP. split; [exact Hc0 | lia].
Qed.

Lemma outer_last : forall C reg fo fi D T T',
  outer C reg fo fi D T = Ok T' ->
  exists T0, inner C reg fi (rev (items_of D)) [] false (reset T0) = Ok T' /\ schanged T' = false.
Proof.
  induction fo as [|f IH]; intros fi D T T' H; simpl in H; [discriminate|].
  destruct (inner C reg fi (rev (items_of D)) [] false (reset T)) as [T1|e] eqn:E; [|discriminate].
  destruct (schanged T1) eqn:Ec; [eapply IH; eauto|]. inversion H; subst. eauto.
Qed.

(* with the repaired `set` and no "trying to derive 'kind'" message: re-inferring any statement
   under the final table gives a kind that merges into its entry without changing it *)
Theorem infer_stable : forall C reg fo fi D forced T,
  new_marks C = true -> infer C reg fo fi D forced = Ok T -> sconf T = 0 ->
  forall it, In it (items_of D) -> stable_item C reg T it.
Proof.
  intros C reg fo fi D forced T Hnm H Hn it Hin. destruct (infer_inv _ _ _ _ _ _ _ H) as [_ [E _]]. clear H.
  destruct (outer_last _ _ _ _ _ _ _ E) as [T0 [Ei Hc]].
  apply (inner_gen C reg relC (fun _ => True) (postC C reg) relC_refl relC_trans) in Ei.
  - destruct Ei as [_ HP]. apply (HP Hc); [|split; assumption].
    rewrite app_nil_r. apply in_rev in Hin. exact Hin.
  - intros T2 ph s _. apply procC. exact Hnm.
  - apply postC_mono.
  - auto.
Qed.

(* ================================================================== from stability and the side conditions to `strict` *)

Lemma lookup_tbl_of : forall C T ph x, twf C T -> lookup T ph x = alookup (tbl_of C T ph x) x.
Proof.
  intros C T ph x [Hg Hl]. unfold lookup, tbl_of. destruct (is_state C x) eqn:Ex.
  - destruct (alookup (sg T) x) eqn:E; [reflexivity|].
    destruct (alookup (local_of T ph) x) eqn:E2; [|reflexivity].
    assert (is_state C x = false) by (apply (Hl ph); congruence). congruence.
  - destruct (alookup (sg T) x) eqn:E; [|reflexivity].
    assert (is_state C x = true) by (apply Hg; congruence). congruence.
Qed.

Lemma unify_stable_le : forall k kx,
  unify (Some k) (Some kx) = Ok (Some kx) ->
  (match kx with KArray _ | KUser _ => negb (scalar_kind (Some k)) | _ => true end) = true ->
  kind_le k kx = true.
Proof.
  intros k kx H Ha.
  destruct k as [| |r|r|i], kx as [| |s|s|j]; simpl in *; try discriminate; try reflexivity;
    try (destruct (String.eqb i j) eqn:E; try discriminate; reflexivity);
    inversion H; destruct r, s; simpl in *; try discriminate; reflexivity.
Qed.

Lemma stable_entry_le : forall C T ph x k,
  twf C T -> stable_entry C T ph x (Some k) -> agg_ok T ph x k = true -> entry_le T ph x k = true.
Proof.
  intros C T ph x k Hwf [old [Ho Hm]] Ha. unfold entry_le, agg_ok in *.
  rewrite (lookup_tbl_of C T ph x Hwf) in *. rewrite Ho in *.
  destruct Hm as [->|Hu]; [apply kind_le_refl|].
  destruct old as [kx|]; [|simpl in Hu; discriminate].
  apply unify_stable_le; [exact Hu|]. destruct kx; auto.
Qed.

Lemma zip_entries_le : forall C T ph xs ks,
  twf C T -> List.length xs = List.length ks ->
  zip_stable C T ph xs ks -> aggs_ok T ph xs ks = true -> entries_le T ph xs ks = true.
Proof.
  intros C T ph. induction xs as [|x xs IH]; intros ks Hwf Hlen Hz Ha; destruct ks as [|k ks];
    simpl in *; try discriminate; [reflexivity|].
  destruct Hz as [H1 H2]. apply andb_prop in Ha. destruct Ha as [Ha1 Ha2].
  rewrite (stable_entry_le C T ph x k Hwf H1 Ha1). simpl. apply IH; auto.
Qed.

Theorem infer_strict : forall C reg fo fi D forced T,
  new_marks C = true -> init_twf C ->
  infer C reg fo fi D forced = Ok T -> sconf T = 0 -> sides C reg D T = true ->
  strict C reg D T = true.
Proof.
  intros C reg fo fi D forced T Hnm Hinit H Hn Hsides.
  pose proof (infer_stable C reg fo fi D forced T Hnm H Hn) as Hst.
  destruct (infer_keys C reg fo fi D forced T Hinit H) as [Hwf _].
  assert (Hfc : final_check C reg T D = None) by (apply (infer_inv _ _ _ _ _ _ _ H)).
  unfold strict, sides in *. rewrite forallb_forall in *. intros [ph stmts] HD. simpl.
  specialize (Hsides (ph, stmts) HD). simpl in Hsides. rewrite forallb_forall in *. intros s Hs.
  specialize (Hsides s Hs).
  assert (Hin : In (ph, s) (items_of D)) by (apply in_items_of; eauto).
  specialize (Hst (ph, s) Hin). unfold stable_item in Hst. simpl in Hst.
  destruct s as [x has_sub rhs loops | xs f args kwn |]; simpl in *; [| |reflexivity].
  - destruct has_sub; [reflexivity|]. simpl in *.
    apply andb_prop in Hsides. destruct Hsides as [Hs1 Hside]. apply andb_prop in Hs1. destruct Hs1 as [Hlo Hk].
    destruct Hst as [HF [k [Hkm He]]]. rewrite Hside, andb_true_r.
    apply andb_true_intro. split.
    + rewrite forallb_forall in *. intros i Hi. rewrite Forall_forall in HF.
      apply (stable_entry_le C); auto.
    + rewrite Hkm in *. destruct k as [k|]; simpl in *; [|discriminate].
      apply (stable_entry_le C); auto.
  - apply andb_prop in Hsides. destruct Hsides as [Hs1 Hco]. apply andb_prop in Hs1. destruct Hs1 as [Hag Hside].
    rewrite Hside, Hco, !andb_true_r. destruct Hst as [ks [Hk Hz]]. rewrite Hk in *.
    destruct (kcall_inv _ _ _ _ _ _ Hk) as [s0 [Hf Hlen]].
    destruct (final_check_calls C reg T D Hfc ph stmts xs f args kwn HD Hs) as [s1 [Hf1 Hn1]].
    rewrite Hf in Hf1. inversion Hf1; subst s1.
    apply (zip_entries_le C); auto. congruence.
Qed.

(* a persistent name has the same entry in every phase *)
Lemma twf_phase_indep : forall C T keep,
  twf C T -> (forall x, keep x = true -> is_state C x = true) -> phase_indep T keep.
Proof.
  intros C T keep Hwf Hk x Kx p q. rewrite !(lookup_tbl_of C T _ x Hwf). unfold tbl_of. rewrite (Hk x Kx). reflexivity.
Qed.

(* C09, second part (partial): with the repaired `set`, no conflict message and the operand discipline *)
Theorem soundness : forall C reg fo fi D forced T keep,
  new_marks C = true -> init_twf C -> (forall x, keep x = true -> is_state C x = true) ->
  infer C reg fo fi D forced = Ok T -> sconf T = 0 -> sides C reg D T = true ->
  forall ph0 st0 ph st,
    store_ok T ph0 st0 -> creach C reg D keep ph0 st0 ph st -> store_ok T ph st.
Proof.
  intros C reg fo fi D forced T keep Hnm Hinit Hk H Hn Hs ph0 st0 ph st H0 Hr.
  destruct (infer_keys C reg fo fi D forced T Hinit H) as [Hwf _].
  eapply reach_sound; eauto.
  - eapply infer_strict; eauto.
  - eapply twf_phase_indep; eauto.
Qed.

(* for every shape of the code: whenever the final table passes the re-check `strict` *)
Theorem soundness_of_strict : forall C reg fo fi D forced T keep,
  init_twf C -> (forall x, keep x = true -> is_state C x = true) ->
  infer C reg fo fi D forced = Ok T -> strict C reg D T = true ->
  forall ph0 st0 ph st,
    store_ok T ph0 st0 -> creach C reg D keep ph0 st0 ph st -> store_ok T ph st.
Proof.
  intros C reg fo fi D forced T keep Hinit Hk H Hs ph0 st0 ph st H0 Hr.
  destruct (infer_keys C reg fo fi D forced T Hinit H) as [Hwf _].
  eapply reach_sound; eauto. eapply twf_phase_indep; eauto.
Qed.

(* ================================================================== built-ins *)

(* C09, third part, for the repaired isnan *)
Theorem builtins_sound : forall C f s a cs ks r,
  isnan_any C = true -> rlookup builtin_reg f = Some s ->
  Forall2 arg_rel cs a -> result_kinds true s a = Some ks ->
  In r (cresult C s cs) -> hks r ks.
Proof.
  intros C f s a cs ks r Hia _ HF Hk Hin. eapply cresult_sound; eauto.
  unfold sig_ok. destruct s; try reflexivity. rewrite Hia. reflexivity.
Qed.

(* ... and its refutation for the elementwise isnan: declared Boolean, returns an array *)
Lemma builtins_refuted_isnan : forall C,
  isnan_any C = false ->
  rlookup builtin_reg "<builtin>isnan" = Some FIsNan /\
  Forall2 arg_rel [CArr true] [Some (KArray true)] /\
  result_kinds true FIsNan [Some (KArray true)] = Some [KBool] /\
  In [CArr true] (cresult C FIsNan [CArr true]) /\
  ~ hks [CArr true] [KBool].
Proof.
  intros C Hia. split; [reflexivity|]. split.
  - constructor; [|constructor]. exists (KArray true). split; reflexivity.
  - split; [reflexivity|]. split.
    + simpl. rewrite Hia. left. reflexivity.
    + intros H. inversion H; subst. simpl in *. discriminate.
Qed.

(* ================================================================== the interpreter's persistent names are global names *)

Lemma existsb_incl : forall (f : string -> bool) (l1 l2 : list string),
  forallb (fun a => existsb (String.eqb a) l2) l1 = true ->
  existsb f l1 = true -> existsb f l2 = true.
Proof.
  intros f l1 l2 Hinc H. apply existsb_exists in H. destruct H as [a [Ha Hf]].
  rewrite forallb_forall in Hinc. specialize (Hinc a Ha). apply existsb_exists in Hinc.
  destruct Hinc as [b [Hb E]]. apply String.eqb_eq in E. subst b.
  apply existsb_exists. eauto.
Qed.

Lemma keep_of_state : forall C exact prefixes,
  forallb (fun a => existsb (String.eqb a) (st_exact C)) exact = true ->
  forallb (fun a => existsb (String.eqb a) (st_prefixes C)) prefixes = true ->
  forall x, keep_of exact prefixes x = true -> is_state C x = true.
Proof.
  intros C exact prefixes H1 H2 x H. unfold keep_of in H. unfold is_state.
  apply orb_prop in H. apply orb_true_intro. destruct H as [H|H].
  - left. eapply existsb_incl; eauto.
  - right. eapply existsb_incl; eauto.
Qed.

(* ================================================================== the unrestricted statement is false for every shape *)

(* a <- array(n); x <- a; x <- <t> in one phase: unify lets the Array absorb the Scalar, x: Array; running
   x <- <t> stores a real number.  (Before `set` re-raised a failing unify, x <- <t> > 1; x <- <t> + 1 was
   a second witness: the conflict was printed and ignored.) *)
Definition wit_mixed : program :=
  [("ph", [SCall ["a"] "<builtin>array" [EConst CInt] [];
           SAssign "x" false (EVar "a") [];
           SAssign "x" false (EVar "<t>") []])].

Definition keep_std : string -> bool := keep_of ["<t>"; "<dt>"] ["<state>"; "<p>"].

Lemma store_ok_t : forall T ph,
  lookup T ph "<t>" = Some (Some (KScalar true)) -> store_ok T ph [("<t>", CReal)].
Proof.
  intros T ph Hl x c Hx.
  change (alookup [("<t>", CReal)] x) with (if String.eqb "<t>" x then Some CReal else None) in Hx.
  destruct (String.eqb "<t>" x) eqn:E; [|discriminate].
  apply String.eqb_eq in E. subst x. inversion Hx; subst. exists (KScalar true). split; [exact Hl | reflexivity].
Qed.

Lemma soundness_full_refuted : forall pw nm ia cr fr na,
  let C := cfg_of pw nm ia cr fr na in
  exists T st,
    infer C builtin_reg (outer_fuel wit_mixed) (inner_fuel wit_mixed) wit_mixed [] = Ok T /\
    sconf T = 0 /\
    store_ok T "ph" [("<t>", CReal)] /\
    creach C builtin_reg wit_mixed keep_std "ph" [("<t>", CReal)] "ph" st /\
    ~ store_ok T "ph" st.
Proof.
  intros pw nm ia cr fr na C.
  pose proof (fun T => store_ok_t T "ph") as H0.
  destruct pw, nm, ia, cr, fr, na;
    (eexists; exists (cset [("<t>", CReal)] "x" CReal);
     split; [vm_compute; reflexivity|];
     split; [reflexivity|];
     split; [apply H0; reflexivity|];
     split;
     [eapply cr_stmt with (s := SAssign "x" false (EVar "<t>") []);
      [apply cr_refl | left; reflexivity | right; right; left; reflexivity | reflexivity | right; left; reflexivity]
     | intros Hbad; destruct (Hbad "x" CReal eq_refl) as [k [Hl Hh]];
       vm_compute in Hl; inversion Hl; subst k; discriminate Hh]).
Qed.

(* with the unchanged `set` even a program that passes every side condition is unsound: the sum is
   inferred while `a` is still unknown and never revisited *)
Definition wit_stale : program :=
  [("ph", [SCall ["a"] "<builtin>array" [EConst CInt] [];
           SAssign "x" false (ESum [EConst CInt; EVar "a"]) []])].

Lemma soundness_refuted_stale : forall pw ia cr fr na,
  let C := cfg_of pw false ia cr fr na in
  exists T st,
    infer C builtin_reg (outer_fuel wit_stale) (inner_fuel wit_stale) wit_stale [] = Ok T /\
    sconf T = 0 /\ sides C builtin_reg wit_stale T = true /\
    store_ok T "ph" [("<t>", CReal)] /\
    creach C builtin_reg wit_stale keep_std "ph" [("<t>", CReal)] "ph" st /\
    ~ store_ok T "ph" st.
Proof.
  intros pw ia cr fr na C.
  pose proof (fun T => store_ok_t T "ph") as H0.
  destruct pw, ia, cr, fr, na;
    (eexists; exists (cset (cset [("<t>", CReal)] "a" (CArr true)) "x" (CArr true));
     split; [vm_compute; reflexivity|];
     split; [reflexivity|];
     split; [vm_compute; reflexivity|];
     split; [apply H0; reflexivity|];
     split;
     [eapply cr_stmt with (s := SAssign "x" false (ESum [EConst CInt; EVar "a"]) []);
      [eapply cr_stmt with (s := SCall ["a"] "<builtin>array" [EConst CInt] []);
       [apply cr_refl | left; reflexivity | left; reflexivity | reflexivity | right; vm_compute; left; reflexivity]
      | left; reflexivity | right; left; reflexivity | reflexivity | right; vm_compute; left; reflexivity]
     | intros Hbad; destruct (Hbad "x" (CArr true) eq_refl) as [k [Hl Hh]];
       vm_compute in Hl; inversion Hl; subst k; discriminate Hh]).
Qed.

(* ================================================================== non-vacuity *)

Definition ex_prog : program :=
  [("ph", [SCall ["a"] "<builtin>array" [EConst CInt] [];
           SAssign "x" false (ESum [EConst CInt; EVar "a"]) [];
           SAssign "y" false (EPow (EVar "<t>") (EConst CInt)) [];
           SAssign "n" false (ECall "<builtin>norm_2" [EVar "a"] []) ["i"];
           SAssign "b" false (ECmp true (EVar "n") (EConst CReal)) [];
           SAssign "a" true (EVar "n") ["i"];
           SCall ["<state>y"] "<func>f" [EVar "<t>"; EVar "<state>y"] []]);
   ("q", [SAssign "<p>s" false (EProd [EVar "<dt>"; EConst CComplex]) []])].

Definition ex_reg : registry := builtin_reg ++ [("<func>f", FRhs "y" ["y"] ["y"])].
Definition ex_cfg : cfg := cfg_of true true true true true true.

(* the hypotheses of every_assigned and of soundness hold for a program with calls, loops, a power, an
   element store, two phases and persistent variables; the sum is an Array although it is visited first *)
Example ex_hypotheses :
  exists T, infer ex_cfg ex_reg (outer_fuel ex_prog) (inner_fuel ex_prog) ex_prog [("ph", "i", KInt)] = Ok T /\
            wf_program ex_prog = true /\ sconf T = 0 /\ sides ex_cfg ex_reg ex_prog T = true /\
            strict ex_cfg ex_reg ex_prog T = true /\
            lookup T "ph" "x" = Some (Some (KArray true)) /\
            lookup T "q" "<p>s" = Some (Some (KScalar false)) /\
            lookup T "q" "<state>y" = Some (Some (KUser "y")).
Proof. eexists. split; [vm_compute; reflexivity|]. repeat split; vm_compute; reflexivity. Qed.

Example ex_reach :
  exists st, creach ex_cfg ex_reg ex_prog keep_std "ph"
                    [("<t>", CReal); ("<dt>", CInt); ("<state>y", CUser "y")] "q" st /\
             alookup st "<p>s" = Some CComplex /\ alookup st "<state>y" = Some (CUser "y") /\
             alookup st "a" = None.
Proof.
  eexists. split.
  - eapply cr_stmt with (ph := "q") (s := SAssign "<p>s" false (EProd [EVar "<dt>"; EConst CComplex]) []);
      [ eapply cr_phase with (ph := "ph");
        eapply cr_stmt with (s := SCall ["a"] "<builtin>array" [EConst CInt] []);
        [ eapply cr_stmt with (s := SCall ["<state>y"] "<func>f" [EVar "<t>"; EVar "<state>y"] []);
          [ apply cr_refl | left; reflexivity | do 6 right; left; reflexivity | reflexivity
            | right; vm_compute; left; reflexivity ]
        | left; reflexivity | left; reflexivity | reflexivity | right; vm_compute; left; reflexivity ]
      | right; left; reflexivity | left; reflexivity | reflexivity | right; vm_compute; left; reflexivity ].
  - vm_compute. repeat split; reflexivity.
Qed.

Example ex_builtins :
  Forall2 arg_rel [CArr false; CArr true; CInt; CReal] [Some (KArray false); Some (KArray true); Some (KScalar true); Some (KScalar true)] /\
  result_kinds true FMatMul [Some (KArray false); Some (KArray true); Some (KScalar true); Some (KScalar true)]
    = Some [KArray false] /\
  In [CArr false] (cresult ex_cfg FMatMul [CArr false; CArr true; CInt; CReal]).
Proof.
  split; [|split; [reflexivity | left; reflexivity]].
  repeat constructor; eexists; split; reflexivity.
Qed.

(* the two shapes of the finder's give-up rule (c2c8c5a).  Statements are popped from the end: abs(x) is
   deferred, x <- i + w is entered as Integer while w is unknown, w arrives, the retry of abs(Integer) fails
   again.  Old text: RuntimeError.  New text: the table changed, the next pass raises x to Scalar and y
   is inferred.  (corpus/C09/restart_after_change.json runs the same program on the real code.) *)
Definition ex_restart_prog : program :=
  [("ph", [SAssign "w" false (EConst CReal) [];
           SAssign "x" false (ESum [EVar "i"; EVar "w"]) ["i"];
           SAssign "y" false (ECall "<builtin>elementwise_abs" [EVar "x"] []) []])].

Example ex_restart : forall na,
  infer (cfg_of true true true true false na) builtin_reg (outer_fuel ex_restart_prog) (inner_fuel ex_restart_prog)
        ex_restart_prog [] = Err RuntimeError /\
  exists T, infer (cfg_of true true true true true na) builtin_reg (outer_fuel ex_restart_prog)
                  (inner_fuel ex_restart_prog) ex_restart_prog [] = Ok T /\
            lookup T "ph" "x" = Some (Some (KScalar true)) /\ lookup T "ph" "y" = Some (Some (KScalar true)) /\
            strict (cfg_of true true true true true na) builtin_reg ex_restart_prog T = true.
Proof.
  intros na. destruct na; (split; [vm_compute; reflexivity|]); eexists; (split; [vm_compute; reflexivity|]);
    repeat split; vm_compute; reflexivity.
Qed.

(* the two shapes of the matrix built-ins (47d5901): x <- matmul(<t>, <t>, 2, 2).  Old text: a Scalar has
   `.is_real_valued`, x is an Array.  New text: never inferable, the run gives up.
   (corpus/C09/matmul_of_scalars.json) *)
Definition ex_matscalar_prog : program :=
  [("ph", [SAssign "x" false (ECall "<builtin>matmul" [EVar "<t>"; EVar "<t>"; EConst CInt; EConst CInt] []) []])].

Example ex_matscalar : forall fr,
  (exists T, infer (cfg_of true true true true fr false) builtin_reg (outer_fuel ex_matscalar_prog)
                   (inner_fuel ex_matscalar_prog) ex_matscalar_prog [] = Ok T /\
             lookup T "ph" "x" = Some (Some (KArray true))) /\
  infer (cfg_of true true true true fr true) builtin_reg (outer_fuel ex_matscalar_prog)
        (inner_fuel ex_matscalar_prog) ex_matscalar_prog [] = Err RuntimeError.
Proof.
  intros fr. destruct fr; (split; [eexists; split; vm_compute; reflexivity | vm_compute; reflexivity]).
Qed.

(* the second part of C09 without side conditions, as a statement about one configuration *)
Definition full_soundness (C : cfg) (keep : string -> bool) : Prop :=
  forall reg fo fi D forced T,
    infer C reg fo fi D forced = Ok T ->
    forall ph0 st0 ph st,
      store_ok T ph0 st0 -> creach C reg D keep ph0 st0 ph st -> store_ok T ph st.

Lemma full_soundness_false : forall pw nm ia cr fr na, ~ full_soundness (cfg_of pw nm ia cr fr na) keep_std.
Proof.
  intros pw nm ia cr fr na H. destruct (soundness_full_refuted pw nm ia cr fr na) as [T [st [Hi [_ [H0 [Hr Hbad]]]]]].
  apply Hbad. eapply H; eauto.
Qed.

(* ================================================================== with the re-raising `set`: success means no conflict *)

Definition relI (T T' : skt) : Prop := (sexn T = None <-> sconf T = 0) -> (sexn T' = None <-> sconf T' = 0).
Definition relR (C : cfg) (T T' : skt) : Prop := raised C T = None -> raised C T' = None.

Lemma procI : forall C reg T ph s,
  match proc_stmt C reg T ph s with
  | SDone T' _ => relI T T' /\ True
  | SRetry T' => relI T T'
  | SFail _ => True
  end.
Proof.
  intros C reg T ph s.
  assert (Rt : forall T ph x k, relI T (tset C T ph x (Some k))) by (intros; intro; apply tset_exn_conf; assumption).
  assert (Rr : forall T, relI T T) by (intros T0 H; exact H).
  assert (Rtr : forall a b c, relI a b -> relI b c -> relI a c) by (intros a b c H1 H2 H; auto).
  destruct s as [x has_sub rhs loops | xs f args kwn |]; simpl.
  - pose proof (loops_rel C relI Rr Rtr Rt ph loops T) as HL.
    match goal with |- context [raised C ?t] => destruct (raised C t); [exact I|] end.
    destruct has_sub; [split; [exact HL | exact I]|].
    match goal with |- context [kmap C reg ?g ?l rhs] => destruct (kmap C reg g l rhs) as [k|e] end.
    + match goal with |- context [raised C ?t] => destruct (raised C t); [exact I|] end.
      split; [|exact I]. eapply Rtr; [exact HL|]. intro. apply tset_exn_conf. assumption.
    + destruct e; auto.
  - destruct (kcall C reg f (map (kmap C reg (sg T) (local_of T ph)) args) kwn) as [ks|e].
    + match goal with |- context [raised C ?t] => destruct (raised C t); [exact I|] end.
      split; [|exact I]. apply (set_many_rel C relI Rr Rtr Rt).
    + destruct e; auto.
  - split; [apply Rr | exact I].
Qed.

Lemma procR : forall C reg T ph s,
  match proc_stmt C reg T ph s with
  | SDone T' _ => relR C T T' /\ True
  | SRetry T' => relR C T T'
  | SFail _ => True
  end.
Proof.
  intros C reg T ph s. unfold relR.
  destruct s as [x has_sub rhs loops | xs f args kwn |]; simpl.
  - match goal with |- context [raised C ?t] => destruct (raised C t) eqn:E1; [exact I|] end.
    destruct has_sub; [split; auto|].
    match goal with |- context [kmap C reg ?g ?l rhs] => destruct (kmap C reg g l rhs) as [k|e] end.
    + match goal with |- context [raised C ?t] => destruct (raised C t) eqn:E2; [exact I|] end. split; auto.
    + destruct e; auto.
  - destruct (kcall C reg f (map (kmap C reg (sg T) (local_of T ph)) args) kwn) as [ks|e].
    + match goal with |- context [raised C ?t] => destruct (raised C t) eqn:E2; [exact I|] end. split; auto.
    + destruct e; auto.
  - split; auto.
Qed.

Theorem infer_no_conflict : forall C reg fo fi D forced T,
  conflict_raises C = true -> infer C reg fo fi D forced = Ok T -> sconf T = 0.
Proof.
  intros C reg fo fi D forced T Hcr H. destruct (infer_inv _ _ _ _ _ _ _ H) as [H0 [E _]].
  assert (HI : sexn T = None <-> sconf T = 0).
  { pose proof E as E'.
    apply (outer_gen C reg relI (fun _ => True) (fun _ _ => True)) in E'.
    - destruct E' as [HR _]. apply HR.
      assert (Rt : forall T ph x k, relI T (tset C T ph x (Some k))) by (intros; intro; apply tset_exn_conf; assumption).
      assert (Hl : forall T0, (sexn T0 = None <-> sconf T0 = 0) ->
                              (sexn (apply_loops C D T0) = None <-> sconf (apply_loops C D T0) = 0)).
      { unfold apply_loops. induction (items_of D) as [|[ph s] l IHl]; intros T0 HT0; simpl; [exact HT0|].
        apply IHl. destruct s; simpl; try exact HT0.
        apply (loops_rel C relI (fun T H => H) (fun a b c H1 H2 H => H2 (H1 H)) Rt); exact HT0. }
      apply Hl.
      assert (Hf : forall forced T0, (sexn T0 = None <-> sconf T0 = 0) ->
                                     (sexn (apply_forced C forced T0) = None <-> sconf (apply_forced C forced T0) = 0)).
      { unfold apply_forced. induction forced0 as [|[[ph x] k] forced0 IHf]; intros T0 HT0; simpl; [exact HT0|].
        apply IHf. apply tset_exn_conf. exact HT0. }
      apply Hf. simpl. split; reflexivity.
    - intros T0 HT0. exact HT0.
    - intros a b c H1 H2 HH. auto.
    - intros T0 ph s _. apply procI.
    - auto.
    - intros T0 HT0. exact HT0.
    - auto. }
  apply HI.
  apply (outer_gen C reg (relR C) (fun _ => True) (fun _ _ => True)) in E.
  - destruct E as [HR _]. specialize (HR H0). unfold raised in HR. rewrite Hcr in HR. exact HR.
  - intros T0 HT0. exact HT0.
  - intros a b c H1 H2 HH. auto.
  - intros T0 ph s _. apply procR.
  - auto.
  - intros T0 HT0. exact HT0.
  - auto.
Qed.

(* C09, second part (partial) for the tree where `set` re-raises: success already implies that no
   conflict message was printed *)
Theorem soundness_raises : forall C reg fo fi D forced T keep,
  new_marks C = true -> conflict_raises C = true -> init_twf C ->
  (forall x, keep x = true -> is_state C x = true) ->
  infer C reg fo fi D forced = Ok T -> sides C reg D T = true ->
  forall ph0 st0 ph st,
    store_ok T ph0 st0 -> creach C reg D keep ph0 st0 ph st -> store_ok T ph st.
Proof.
  intros C reg fo fi D forced T keep Hnm Hcr Hinit Hk H Hs.
  eapply soundness; eauto. eapply infer_no_conflict; eauto.
Qed.
