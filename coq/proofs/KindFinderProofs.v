(* Order independence of the SymbolKindFinder model (coq/model/KindInfer.v), see the header of
   KindInferProofs.v for the proof idea. *)
From Coq Require Import List String Bool Arith Lia Permutation.
Import ListNotations.
From Dagrt Require Import Unify UnifyProofs KindOrder KindInfer KindRegistryProofs KindInferProofs
  KindTableProofs.
Close Scope string_scope.
Open Scope list_scope.

Section Finder.
  Variable c : cfg.
  Hypothesis Hut : c_ut_int c = true.
  Hypothesis Harr : c_arr_int c = true.

  Definition wf_item (it : qitem) : Prop := stmt_ok (snd it) = true.

  Definition loops_closed (T : table) (p : string) (l : list string) : Prop :=
    forall i, In i l -> exists v, tfind T (key_of c p i) = Some v /\ kle (Some KInt) v.

  (* every zipped (assignee, kind) is below the entry of the assignee *)
  Fixpoint lhs_closed (T : table) (p : string) (xs : list string) (ks : list okind) : Prop :=
    match xs, ks with
    | x :: xs', k :: ks' =>
        (exists v, tfind T (key_of c p x) = Some v /\ kle k v) /\ lhs_closed T p xs' ks'
    | _, _ => True
    end.

  (* T is a post-fixed point of statement `it` *)
  Definition stmt_closed (T : table) (it : qitem) : Prop :=
    loops_closed T (fst it) (b_loops (snd it)) /\
    (b_sub (snd it) = false ->
     exists ks, eval_work c (lookup T (fst it)) (snd it) = MOk ks
                /\ lhs_closed T (fst it) (b_lhs (snd it)) ks).

  (* ... or nothing can be said about it under T *)
  Definition stmt_wclosed (T : table) (it : qitem) : Prop :=
    loops_closed T (fst it) (b_loops (snd it)) /\
    (b_sub (snd it) = false ->
     eval_work c (lookup T (fst it)) (snd it) = MUnable \/
     exists ks, eval_work c (lookup T (fst it)) (snd it) = MOk ks
                /\ lhs_closed T (fst it) (b_lhs (snd it)) ks).

  Lemma closed_wclosed : forall T it, stmt_closed T it -> stmt_wclosed T it.
  Proof. intros T it [A B]. split; [assumption|]. intro H. right. apply B; assumption. Qed.

  Lemma lhs_closed_le : forall T p xs ks ks', Forall2 kle ks ks' ->
    lhs_closed T p xs ks' -> lhs_closed T p xs ks.
  Proof.
    intros T p xs. induction xs as [|x xs IH]; intros ks ks' H; [destruct ks; exact (fun _ => I)|].
    destruct H as [|k k' ks ks' Hk H]; cbn; [auto|].
    intros [[v [Ev Hv]] Hr]. split; [|eapply IH; eassumption].
    exists v. split; [assumption|eapply kle_trans; eassumption].
  Qed.

  Lemma lhs_closed_mono : forall T L p xs ks, tle T L -> lhs_closed T p xs ks -> lhs_closed L p xs ks.
  Proof.
    intros T L p xs. induction xs as [|x xs IH]; intros ks Hle; [destruct ks; exact (fun _ => I)|].
    destruct ks as [|k ks]; cbn; [auto|].
    intros [[v [Ev Hv]] Hr]. split; [|apply IH; assumption].
    destruct (Hle _ _ Ev) as [v' [Ev' Hv']]. exists v'. split; [assumption|eapply kle_trans; eassumption].
  Qed.

  Definition pstep (st : tstate) (it : qitem) (st' : tstate) : Prop :=
    process c st it = PDone st' \/ process c st it = PDefer st' \/ process c st it = PProgress st'.

  Lemma pstep_det : forall st it a b, pstep st it a -> pstep st it b -> a = b.
  Proof. intros st it a b [H|[H|H]] [H'|[H'|H']]; congruence. Qed.

  (* ---------------------------------------------------------------- loop variables *)

  Lemma set_loops_good : forall l st p st', good c st -> set_loops c st p l = Ok st' -> good c st'.
  Proof.
    induction l as [|i r IH]; intros st p st' Hg; cbn.
    - intros [= <-]; assumption.
    - destruct (tset c st p i (Some KInt)) as [st1|e] eqn:E; [|discriminate].
      apply IH. eapply tset_good; try eassumption. discriminate.
  Qed.

  Lemma set_loops_grows : forall l st p st', good c st -> set_loops c st p l = Ok st' ->
    tle (tbl st) (tbl st').
  Proof.
    induction l as [|i r IH]; intros st p st' Hg; cbn.
    - intros [= <-]; apply tle_refl.
    - destruct (tset c st p i (Some KInt)) as [st1|e] eqn:E; [|discriminate].
      intro H. eapply tle_trans; [eapply tset_grows; eassumption|].
      eapply IH; [|exact H]. eapply tset_good; try eassumption. discriminate.
  Qed.

  Lemma set_loops_below : forall l st p L, tle (tbl st) L -> loops_closed L p l ->
    exists st', set_loops c st p l = Ok st' /\ tle (tbl st') L /\ swallowed st' = swallowed st.
  Proof.
    induction l as [|i r IH]; intros st p L Hle Hcl; cbn.
    - eexists; split; [reflexivity|split; [assumption|reflexivity]].
    - destruct (Hcl i (or_introl eq_refl)) as [v [Ev Hv]].
      destruct (tset_below c Hut Harr st p i (Some KInt) L v Hle Ev Hv) as [st1 [E1 [Hle1 Hs1]]].
      rewrite E1. destruct (IH st1 p L Hle1) as [st' [E' [Hle' Hs']]].
      + intros j Hj. apply Hcl. right; assumption.
      + exists st'. split; [assumption|split; [assumption|congruence]].
  Qed.

  Lemma set_loops_flags_mono : forall l st p st', set_loops c st p l = Ok st' ->
    (changed st' = false -> changed st = false) /\ (swallowed st' = false -> swallowed st = false).
  Proof.
    induction l as [|i r IH]; intros st p st'; cbn.
    - intros [= <-]; auto.
    - destruct (tset c st p i (Some KInt)) as [st1|e] eqn:E; [|discriminate].
      intro H. destruct (IH _ _ _ H) as [A B]. destruct (tset_flags_mono c Hut Harr _ _ _ _ _ E) as [A' B'].
      auto.
  Qed.

  (* ---------------------------------------------------------------- the assignees of one statement *)

  Lemma set_many_good : forall xs ks st p st', good c st -> Forall (fun k => k <> None) ks ->
    set_many c st p xs ks = Ok st' -> good c st'.
  Proof.
    induction xs as [|x xs IH]; intros ks st p st' Hg Hk; cbn.
    - intros [= <-]; assumption.
    - destruct ks as [|k ks]; [intros [= <-]; assumption|].
      destruct (tset c st p x k) as [st1|e] eqn:E; [|discriminate].
      inversion Hk as [|? ? Hk1 Hk2]; subst.
      apply IH; [|assumption]. eapply tset_good; eassumption.
  Qed.

  Lemma set_many_grows : forall xs ks st p st', good c st -> Forall (fun k => k <> None) ks ->
    set_many c st p xs ks = Ok st' -> tle (tbl st) (tbl st').
  Proof.
    induction xs as [|x xs IH]; intros ks st p st' Hg Hk; cbn.
    - intros [= <-]; apply tle_refl.
    - destruct ks as [|k ks]; [intros [= <-]; apply tle_refl|].
      destruct (tset c st p x k) as [st1|e] eqn:E; [|discriminate].
      inversion Hk as [|? ? Hk1 Hk2]; subst.
      intro H. eapply tle_trans; [eapply tset_grows; eassumption|].
      eapply IH; [| |exact H]; [eapply tset_good; eassumption|assumption].
  Qed.

  Lemma set_many_below : forall xs ks st p L, tle (tbl st) L -> lhs_closed L p xs ks ->
    exists st', set_many c st p xs ks = Ok st' /\ tle (tbl st') L /\ swallowed st' = swallowed st.
  Proof.
    induction xs as [|x xs IH]; intros ks st p L Hle Hcl; cbn.
    - eexists; split; [reflexivity|split; [assumption|reflexivity]].
    - destruct ks as [|k ks]; [eexists; split; [reflexivity|split; [assumption|reflexivity]]|].
      cbn in Hcl. destruct Hcl as [[v [Ev Hv]] Hr].
      destruct (tset_below c Hut Harr st p x k L v Hle Ev Hv) as [st1 [E1 [Hle1 Hs1]]].
      rewrite E1. destruct (IH ks st1 p L Hle1 Hr) as [st' [E' [Hle' Hs']]].
      exists st'. split; [assumption|split; [assumption|congruence]].
  Qed.

  Lemma set_many_flags_mono : forall xs ks st p st', set_many c st p xs ks = Ok st' ->
    (changed st' = false -> changed st = false) /\ (swallowed st' = false -> swallowed st = false).
  Proof.
    induction xs as [|x xs IH]; intros ks st p st'; cbn.
    - intros [= <-]; auto.
    - destruct ks as [|k ks]; [intros [= <-]; auto|].
      destruct (tset c st p x k) as [st1|e] eqn:E; [|discriminate].
      intro H. destruct (IH _ _ _ _ H) as [A B]. destruct (tset_flags_mono c Hut Harr _ _ _ _ _ E) as [A' B'].
      auto.
  Qed.

  Hypothesis Hins : c_ins_changed c = true.

  Lemma set_loops_nochange : forall l st p st', set_loops c st p l = Ok st' ->
    changed st' = false -> swallowed st' = false ->
    st' = st /\ loops_closed (tbl st) p l.
  Proof.
    induction l as [|i r IH]; intros st p st'; cbn.
    - intros [= <-] _ _. split; [reflexivity|]. intros j [].
    - destruct (tset c st p i (Some KInt)) as [st1|e] eqn:E; [|discriminate].
      intros H Hc Hs. destruct (IH _ _ _ H Hc Hs) as [-> Hcl].
      destruct (tset_nochange c Hut Harr Hins _ _ _ _ _ E Hc Hs) as [-> [old [Eo Ho]]].
      split; [reflexivity|]. intros j [<-|Hj]; [|apply Hcl; assumption].
      exists old. split; [assumption|]. apply nochange_kle; [discriminate|assumption].
  Qed.

  Lemma set_many_nochange : forall xs ks st p st', set_many c st p xs ks = Ok st' ->
    Forall (fun k => k <> None) ks ->
    changed st' = false -> swallowed st' = false ->
    st' = st /\ lhs_closed (tbl st) p xs ks.
  Proof.
    induction xs as [|x xs IH]; intros ks st p st'; cbn.
    - intros [= <-] _ _ _. split; [reflexivity|destruct ks; exact I].
    - destruct ks as [|k ks]; [intros [= <-] _ _ _; split; [reflexivity|exact I]|].
      destruct (tset c st p x k) as [st1|e] eqn:E; [|discriminate].
      intros H Hk Hc Hs. inversion Hk as [|? ? Hk1 Hk2]; subst.
      destruct (IH _ _ _ _ H Hk2 Hc Hs) as [-> Hcl].
      destruct (tset_nochange c Hut Harr Hins _ _ _ _ _ E Hc Hs) as [-> [old [Eo Ho]]].
      split; [reflexivity|]. split; [|assumption].
      exists old. split; [assumption|]. apply nochange_kle; assumption.
  Qed.

  (* ---------------------------------------------------------------- one popped statement *)

  Lemma process_cases : forall st it st',
    pstep st it st' ->
    exists st1, set_loops c st (fst it) (b_loops (snd it)) = Ok st1 /\
      ((b_sub (snd it) = true /\ st' = st1 /\ process c st it = PDone st')
       \/ (b_sub (snd it) = false
           /\ eval_work c (lookup_kim (tbl st) (tbl st1) (fst it)) (snd it) = MUnable
           /\ st' = st1 /\ process c st it = PDefer st')
       \/ (b_sub (snd it) = false /\ exists ks,
             eval_work c (lookup_kim (tbl st) (tbl st1) (fst it)) (snd it) = MOk ks
             /\ set_many c st1 (fst it) (b_lhs (snd it)) ks = Ok st' /\ process c st it = PProgress st')).
  Proof.
    intros st it st' H. unfold pstep, process in *.
    destruct (set_loops c st (fst it) (b_loops (snd it))) as [st1|e] eqn:E1.
    2:{ destruct H as [H|[H|H]]; discriminate. }
    exists st1. split; [reflexivity|].
    destruct (b_sub (snd it)) eqn:Es.
    { left. destruct H as [H|[H|H]]; try discriminate. injection H as <-. auto. }
    right.
    destruct (eval_work c (lookup_kim (tbl st) (tbl st1) (fst it)) (snd it)) as [ks| |e] eqn:Ei.
    - right. split; [reflexivity|]. exists ks. split; [reflexivity|].
      destruct (set_many c st1 (fst it) (b_lhs (snd it)) ks) as [st2|e] eqn:E2.
      + destruct H as [H|[H|H]]; try discriminate. injection H as <-. auto.
      + destruct H as [H|[H|H]]; discriminate.
    - left. destruct H as [H|[H|H]]; try discriminate. injection H as <-. auto.
    - destruct H as [H|[H|H]]; discriminate.
  Qed.

  Lemma process_good : forall st it st', good c st -> wf_item it -> pstep st it st' -> good c st'.
  Proof.
    intros st it st' Hg Hwf H. destruct (process_cases _ _ _ H) as [st1 [E1 Hc]].
    assert (Hg1 : good c st1) by (eapply set_loops_good; eassumption).
    destruct Hc as [[_ [-> _]]|[[_ [_ [-> _]]]|[_ [ks [Ei [E2 _]]]]]]; try assumption.
    eapply set_many_good; try eassumption.
    eapply eval_work_some; try eassumption. apply lookup_kim_nonone. apply Hg1.
  Qed.

  Lemma process_grows : forall st it st', good c st -> wf_item it -> pstep st it st' ->
    tle (tbl st) (tbl st').
  Proof.
    intros st it st' Hg Hwf H. destruct (process_cases _ _ _ H) as [st1 [E1 Hc]].
    assert (Hg1 : good c st1) by (eapply set_loops_good; eassumption).
    assert (Hle1 : tle (tbl st) (tbl st1)) by (eapply set_loops_grows; eassumption).
    destruct Hc as [[_ [-> _]]|[[_ [_ [-> _]]]|[_ [ks [Ei [E2 _]]]]]]; try assumption.
    eapply tle_trans; [exact Hle1|]. eapply set_many_grows; try eassumption.
    eapply eval_work_some; try eassumption. apply lookup_kim_nonone. apply Hg1.
  Qed.

  Lemma process_flags_mono : forall st it st', pstep st it st' ->
    (changed st' = false -> changed st = false) /\ (swallowed st' = false -> swallowed st = false).
  Proof.
    intros st it st' H. destruct (process_cases _ _ _ H) as [st1 [E1 Hc]].
    destruct (set_loops_flags_mono _ _ _ _ E1) as [A B].
    destruct Hc as [[_ [-> _]]|[[_ [_ [-> _]]]|[_ [ks [Ei [E2 _]]]]]]; auto.
    destruct (set_many_flags_mono _ _ _ _ _ E2) as [A' B']. auto.
  Qed.

  Lemma process_nochange : forall st it st', pstep st it st' ->
    good c st -> wf_item it -> changed st' = false -> swallowed st' = false ->
    st' = st /\ (process c st it = PDone st' \/ process c st it = PProgress st' -> stmt_closed (tbl st) it).
  Proof.
    intros st it st' H Hg Hwf Hc Hs. destruct (process_cases _ _ _ H) as [st1 [E1 Hcs]].
    destruct Hcs as [[Esub [-> Hp]]|[[Esub [Ei [-> Hp]]]|[Esub [ks [Ei [E2 Hp]]]]]].
    - destruct (set_loops_nochange _ _ _ _ E1 Hc Hs) as [-> Hcl].
      split; [reflexivity|]. intros _. split; [assumption|]. congruence.
    - destruct (set_loops_nochange _ _ _ _ E1 Hc Hs) as [-> Hcl].
      split; [reflexivity|]. rewrite Hp. intros [?|?]; discriminate.
    - assert (Hg1 : good c st1) by (eapply set_loops_good; eassumption).
      assert (Hks : Forall (fun k => k <> None) ks).
      { eapply eval_work_some; try eassumption. apply lookup_kim_nonone. apply Hg1. }
      destruct (set_many_nochange _ _ _ _ _ E2 Hks Hc Hs) as [-> Hlhs].
      destruct (set_loops_nochange _ _ _ _ E1 Hc Hs) as [-> Hcl].
      split; [reflexivity|]. intros _. split; [assumption|]. intros _.
      exists ks. split; [|assumption].
      rewrite <- Ei. apply eval_work_ext. intro x. symmetry. apply lookup_kim_same.
  Qed.

  (* ---------------------------------------------------------------- the inner work-list loop *)

  Lemma inner_inv : forall (P : tstate -> Prop) (items : list qitem),
    (forall st it st', In it items -> P st -> pstep st it st' -> P st') ->
    forall fuel st q b pr st', incl q items -> incl b items -> P st ->
      inner c fuel st q b pr = FOk st' -> P st'.
  Proof.
    intros P items Hstep. induction fuel as [|f IH]; intros st q b pr st' Hq Hb HP; cbn; [discriminate|].
    destruct q as [|it q'].
    - destruct b as [|x b'].
      + intros [= <-]; assumption.
      + destruct pr; [apply IH; assumption|].
        destruct (c_restart c && changed st); [|discriminate]. intros [= <-]; assumption.
    - assert (Hit : In it items) by (apply Hq; left; reflexivity).
      assert (Hq' : incl q' items) by (intros y Hy; apply Hq; right; assumption).
      destruct (process c st it) as [e|st1|st1|st1] eqn:Ep; [discriminate| | |].
      + apply IH; try assumption. eapply Hstep; try eassumption. left; assumption.
      + apply IH; try assumption.
        * intros y [<-|Hy]; [assumption|apply Hb; assumption].
        * eapply Hstep; try eassumption. right; left; assumption.
      + apply IH; try assumption. eapply Hstep; try eassumption. right; right; assumption.
  Qed.

  Lemma inner_flags_mono : forall fuel st q b pr st', inner c fuel st q b pr = FOk st' ->
    (changed st' = false -> changed st = false) /\ (swallowed st' = false -> swallowed st = false).
  Proof.
    induction fuel as [|f IH]; intros st q b pr st'; cbn; [discriminate|].
    destruct q as [|it q'].
    - destruct b as [|x b'].
      + intros [= <-]; auto.
      + destruct pr; [apply IH|].
        destruct (c_restart c && changed st); [|discriminate]. intros [= <-]; auto.
    - destruct (process c st it) as [e|st1|st1|st1] eqn:Ep; [discriminate| | |]; intro H;
        destruct (IH _ _ _ _ _ H) as [A B];
        destruct (process_flags_mono st it st1) as [A' B']; unfold pstep; auto.
  Qed.

  Lemma inner_closed : forall fuel st q b pr st',
    good c st -> (forall it, In it (q ++ b) -> wf_item it) ->
    inner c fuel st q b pr = FOk st' -> changed st' = false -> swallowed st' = false ->
    st' = st /\ forall it, In it (q ++ b) -> stmt_closed (tbl st) it.
  Proof.
    induction fuel as [|f IH]; intros st q b pr st' Hg Hwf; cbn; [discriminate|].
    destruct q as [|it q'].
    - destruct b as [|x b'].
      + intros [= <-] _ _. split; [reflexivity|]. intros it [].
      + destruct pr.
        * intros H Hc Hs.
          destruct (IH _ _ _ _ _ Hg (fun it Hin => Hwf it (ltac:(rewrite app_nil_r in Hin; exact Hin))) H Hc Hs)
            as [-> Hcl].
          split; [reflexivity|]. intros it Hin. apply Hcl. rewrite app_nil_r. exact Hin.
        * (* the restart exit leaves the change flag set *)
          destruct (c_restart c && changed st) eqn:Er; [|discriminate].
          intros [= <-] Hc _. apply andb_true_iff in Er. destruct Er as [_ Er]. congruence.
    - assert (Hwfit : wf_item it) by (apply Hwf; left; reflexivity).
      destruct (process c st it) as [e|st1|st1|st1] eqn:Ep; [discriminate| | |]; intros H Hc Hs;
        destruct (inner_flags_mono _ _ _ _ _ _ H) as [A B];
        specialize (A Hc); specialize (B Hs).
      + assert (Hps : pstep st it st1) by (left; assumption).
        destruct (process_nochange _ _ _ Hps Hg Hwfit A B) as [-> Hcl1].
        destruct (IH _ _ _ _ _ Hg (fun x Hx => Hwf x (or_intror Hx)) H Hc Hs) as [-> Hcl].
        split; [reflexivity|]. intros x [<-|Hx]; [apply Hcl1; left; assumption|apply Hcl; assumption].
      + assert (Hps : pstep st it st1) by (right; left; assumption).
        destruct (process_nochange _ _ _ Hps Hg Hwfit A B) as [-> _].
        destruct (IH st q' (it :: b) pr st' Hg) as [-> Hcl]; try assumption.
        * intros x Hx. apply Hwf. apply in_app_or in Hx. destruct Hx as [Hx|[<-|Hx]].
          -- right. apply in_or_app. left; assumption.
          -- left; reflexivity.
          -- right. apply in_or_app. right; assumption.
        * split; [reflexivity|]. intros x [<-|Hx].
          -- apply Hcl. apply in_or_app. right. left; reflexivity.
          -- apply Hcl. apply in_app_or in Hx. apply in_or_app.
             destruct Hx as [Hx|Hx]; [left; assumption|right; right; assumption].
      + assert (Hps : pstep st it st1) by (right; right; assumption).
        destruct (process_nochange _ _ _ Hps Hg Hwfit A B) as [-> Hcl1].
        destruct (IH _ _ _ _ _ Hg (fun x Hx => Hwf x (or_intror Hx)) H Hc Hs) as [-> Hcl].
        split; [reflexivity|]. intros x [<-|Hx]; [apply Hcl1; right; assumption|apply Hcl; assumption].
  Qed.

  (* ---------------------------------------------------------------- the outer loop *)

  Definition reset (st : tstate) : tstate :=
    {| tbl := tbl st; changed := false; swallowed := swallowed st |}.

  Lemma outer_last : forall (P : tstate -> Prop) (all : list qitem),
    (forall st, P st -> P (reset st)) ->
    (forall st it st', In it all -> P st -> pstep st it st' -> P st') ->
    forall fuel st T sw, P st -> outer c fuel st all = OTable T sw ->
    exists st0 st', P st0 /\ changed st0 = false
      /\ inner c (S (List.length all) * S (S (List.length all))) st0 (rev all) [] false = FOk st'
      /\ changed st' = false /\ tbl st' = T /\ swallowed st' = sw /\ P st'
      /\ final_check c T all = None.
  Proof.
    intros P all Hreset Hstep. induction fuel as [|f IH]; intros st T sw HP; cbn [outer]; [discriminate|].
    fold (reset st).
    destruct (inner c (S (List.length all) * S (S (List.length all))) (reset st) (rev all) [] false) as [st'|e|] eqn:Ei;
      try discriminate.
    assert (HP' : P st').
    { eapply (inner_inv P all Hstep); [| |apply Hreset; exact HP|exact Ei].
      - intros x Hx. apply in_rev. assumption.
      - intros x []. }
    destruct (changed st') eqn:Ec.
    - intro H. eapply IH; eassumption.
    - destruct (final_check c (tbl st') all) eqn:Ef; [discriminate|]. intros [= <- <-].
      exists (reset st), st'. repeat split; auto.
  Qed.

  (* ---------------------------------------------------------------- forced kinds, initial table *)

  Hypothesis Hinit : forall x, In x (c_init_global c) -> c_is_state c x = true.

  Lemma tfind_init : forall l ky v,
    tfind (map (fun x => ((None, x), Some (KScalar true))) l) ky = Some v ->
    v = Some (KScalar true) /\ fst ky = None /\ In (snd ky) l.
  Proof.
    induction l as [|x r IH]; intros ky v; cbn; [discriminate|].
    destruct (key_eqb ky (None, x)) eqn:E.
    - apply key_eqb_eq in E. subst ky. intros [= <-]. cbn. auto.
    - intro H. destruct (IH _ _ H) as [A [B C]]. auto.
  Qed.

  Lemma init_good : good c (init_state c).
  Proof.
    split; intros ky v H; cbn in H; apply tfind_init in H; destruct H as [-> [Hf Hin]].
    - rewrite Hf. apply Hinit; assumption.
    - discriminate.
  Qed.

  Lemma set_forced_good : forall l st st', good c st ->
    (forall p x k, In (p, x, k) l -> k <> None) ->
    set_forced c st l = Ok st' -> good c st'.
  Proof.
    induction l as [|[[p x] k] r IH]; intros st st' Hg Hk; cbn.
    - intros [= <-]; assumption.
    - destruct (tset c st p x k) as [st1|e] eqn:E; [|discriminate].
      apply IH.
      + eapply tset_good; try eassumption. eapply Hk. left; reflexivity.
      + intros p' x' k' Hin. eapply Hk. right; eassumption.
  Qed.

  (* ---------------------------------------------------------------- the theorem *)

  Lemma run_closed : forall fuel st all T,
    good c st -> (forall it, In it all -> wf_item it) ->
    outer c fuel st all = OTable T false ->
    canon c T /\ tle (tbl st) T /\ forall it, In it all -> stmt_closed T it.
  Proof.
    intros fuel st all T Hg Hwf H.
    pose (P := fun s : tstate => good c s /\ tle (tbl st) (tbl s)).
    destruct (outer_last P all) with (fuel := fuel) (st := st) (T := T) (sw := false)
      as [st0 [st' [[Hg0 Hle0] [Hc0 [Ei [Hc' [HT [Hs' [[Hg' Hle'] _]]]]]]]]]; try assumption.
    - intros s [A B]. split; assumption.
    - intros s it s' Hin [A B] Hps. split.
      + eapply process_good; try eassumption. apply Hwf; assumption.
      + eapply tle_trans; [exact B|]. eapply process_grows; try eassumption. apply Hwf; assumption.
    - split; [assumption|apply tle_refl].
    - assert (Hwf0 : forall it, In it (rev all ++ []) -> wf_item it).
      { intros it Hin. rewrite app_nil_r in Hin. apply Hwf. apply in_rev. assumption. }
      destruct (inner_closed _ _ _ _ _ _ Hg0 Hwf0 Ei Hc' Hs') as [-> Hcl].
      subst T. split; [apply Hg0|]. split; [assumption|].
        intros it Hin. apply Hcl. rewrite app_nil_r. apply in_rev in Hin. assumption.
  Qed.

  (* ---------------------------------------------------------------- below a (weakly) closed table *)

  (* this is where the registry has to be monotone *)
  Hypothesis Hao : c_arr_only c = true.

  (* below a weakly closed table the statement cannot fail, and the table stays below *)
  Lemma process_below : forall st it L, good c st -> canon c L -> tle (tbl st) L -> stmt_wclosed L it ->
    exists st', pstep st it st' /\ tle (tbl st') L /\ swallowed st' = swallowed st.
  Proof.
    intros st it L Hg HcL Hle [Hloops Hlhs]. unfold pstep, process.
    destruct (set_loops_below _ st (fst it) L Hle Hloops) as [st1 [E1 [Hle1 Hs1]]].
    rewrite E1.
    assert (Hg1 : good c st1) by (eapply set_loops_good; eassumption).
    destruct (b_sub (snd it)) eqn:Es.
    { exists st1. auto. }
    assert (Hlk : lk_le (lookup_kim (tbl st) (tbl st1) (fst it)) (lookup L (fst it))).
    { apply (lookup_kim_le c); [apply Hg1|assumption|assumption]. }
    pose proof (eval_work_mono c Hut Harr Hao (lookup_kim (tbl st) (tbl st1) (fst it)) (lookup L (fst it))
                  (snd it) Hlk) as Hm.
    destruct (Hlhs eq_refl) as [Eu|[ks' [Ei' Hcl]]].
    - rewrite Eu in Hm. cbn in Hm. rewrite Hm. exists st1. auto.
    - rewrite Ei' in Hm. cbn in Hm.
      destruct Hm as [Hm|[ks [Hm Hk]]].
      + rewrite Hm. exists st1. auto.
      + rewrite Hm.
        destruct (set_many_below (b_lhs (snd it)) ks st1 (fst it) L Hle1) as [st2 [E2 [Hle2 Hs2]]].
        * eapply lhs_closed_le; eassumption.
        * rewrite E2. exists st2. split; [auto|]. split; [assumption|congruence].
  Qed.

  Lemma run_below : forall fuel st all L T sw,
    good c st -> (forall it, In it all -> wf_item it) ->
    canon c L -> tle (tbl st) L -> (forall it, In it all -> stmt_wclosed L it) ->
    outer c fuel st all = OTable T sw -> tle T L.
  Proof.
    intros fuel st all L T sw Hg Hwf HcL Hle Hcl H.
    pose (P := fun s : tstate => good c s /\ tle (tbl s) L).
    destruct (outer_last P all) with (fuel := fuel) (st := st) (T := T) (sw := sw)
      as [st0 [st' [_ [_ [_ [_ [HT [_ [[_ Hle'] _]]]]]]]]]; try assumption.
    - intros s [A B]. split; assumption.
    - intros s it s' Hin [A B] Hps. split.
      + eapply process_good; try eassumption. apply Hwf; assumption.
      + destruct (process_below s it L A HcL B (Hcl it Hin)) as [s2 [Hps2 [Hle2 _]]].
        rewrite (pstep_det _ _ _ _ Hps Hps2). assumption.
    - split; assumption.
    - subst T. assumption.
  Qed.

  (* ---------------------------------------------------------------- registering loop variables up front *)

  Definition start (st : tstate) (all : list qitem) : res tstate :=
    if c_loops_prepass c then prepass c st all else Ok st.

  Lemma prepass_good : forall l st st', good c st -> prepass c st l = Ok st' -> good c st'.
  Proof.
    induction l as [|it r IH]; intros st st' Hg; cbn.
    - intros [= <-]; assumption.
    - destruct (set_loops c st (fst it) (b_loops (snd it))) as [st1|e] eqn:E; [|discriminate].
      apply IH. eapply set_loops_good; eassumption.
  Qed.

  Lemma prepass_grows : forall l st st', good c st -> prepass c st l = Ok st' -> tle (tbl st) (tbl st').
  Proof.
    induction l as [|it r IH]; intros st st' Hg; cbn.
    - intros [= <-]; apply tle_refl.
    - destruct (set_loops c st (fst it) (b_loops (snd it))) as [st1|e] eqn:E; [|discriminate].
      intro H. eapply tle_trans; [eapply set_loops_grows; eassumption|].
      eapply IH; [|exact H]. eapply set_loops_good; eassumption.
  Qed.

  Lemma prepass_below : forall l st L, tle (tbl st) L -> (forall it, In it l -> stmt_wclosed L it) ->
    exists st', prepass c st l = Ok st' /\ tle (tbl st') L /\ swallowed st' = swallowed st.
  Proof.
    induction l as [|it r IH]; intros st L Hle Hcl; cbn.
    - eexists; split; [reflexivity|split; [assumption|reflexivity]].
    - destruct (set_loops_below (b_loops (snd it)) st (fst it) L Hle) as [st1 [E1 [Hle1 Hs1]]].
      { apply (Hcl it). left; reflexivity. }
      rewrite E1. destruct (IH st1 L Hle1) as [st' [E' [Hle' Hs']]].
      + intros x Hx. apply Hcl. right; assumption.
      + exists st'. split; [assumption|split; [assumption|congruence]].
  Qed.

  Lemma start_good : forall l st st', good c st -> start st l = Ok st' -> good c st'.
  Proof.
    unfold start. intros l st st' Hg. destruct (c_loops_prepass c).
    - apply prepass_good; assumption.
    - intros [= <-]; assumption.
  Qed.

  Lemma start_grows : forall l st st', good c st -> start st l = Ok st' -> tle (tbl st) (tbl st').
  Proof.
    unfold start. intros l st st' Hg. destruct (c_loops_prepass c).
    - apply prepass_grows; assumption.
    - intros [= <-]; apply tle_refl.
  Qed.

  Lemma start_below : forall l st L, tle (tbl st) L -> (forall it, In it l -> stmt_wclosed L it) ->
    exists st', start st l = Ok st' /\ tle (tbl st') L /\ swallowed st' = swallowed st.
  Proof.
    unfold start. intros l st L Hle Hcl. destruct (c_loops_prepass c).
    - apply prepass_below; assumption.
    - exists st. auto.
  Qed.

  Lemma run_queue_unfold : forall fuel forced all,
    run_queue c fuel forced all =
    match set_forced c (init_state c) forced with
    | Err e => OErr e
    | Ok st => match start st all with Err e => OErr e | Ok st' => outer c fuel st' all end
    end.
  Proof. reflexivity. Qed.

  Theorem order_independent_partial : forall fuel fuel' forced all all' T T',
    Permutation all all' ->
    (forall it, In it all -> wf_item it) ->
    (forall p x k, In (p, x, k) forced -> k <> None) ->
    run_queue c fuel forced all = OTable T false ->
    run_queue c fuel' forced all' = OTable T' false ->
    table_equiv T T'.
  Proof.
    intros fuel fuel' forced all all' T T' Hperm Hwf Hforced H1 H2.
    rewrite run_queue_unfold in H1, H2.
    destruct (set_forced c (init_state c) forced) as [stf|e] eqn:Ef; [|discriminate].
    assert (Hgf : good c stf) by (eapply set_forced_good; [apply init_good|exact Hforced|exact Ef]).
    assert (Hwf' : forall it, In it all' -> wf_item it).
    { intros it Hin. apply Hwf. eapply Permutation_in; [apply Permutation_sym; exact Hperm|exact Hin]. }
    destruct (start stf all) as [st1|e] eqn:E1; [|discriminate].
    destruct (start stf all') as [st2|e] eqn:E2; [|discriminate].
    assert (Hg1 : good c st1) by exact (start_good _ _ _ Hgf E1).
    assert (Hg2 : good c st2) by exact (start_good _ _ _ Hgf E2).
    destruct (run_closed _ _ _ _ Hg1 Hwf H1) as [Hc1 [Hle1 Hcl1]].
    destruct (run_closed _ _ _ _ Hg2 Hwf' H2) as [Hc2 [Hle2 Hcl2]].
    assert (Hf1 : tle (tbl stf) T) by exact (tle_trans _ _ _ (start_grows _ _ _ Hgf E1) Hle1).
    assert (Hf2 : tle (tbl stf) T') by exact (tle_trans _ _ _ (start_grows _ _ _ Hgf E2) Hle2).
    assert (Hcl1' : forall it, In it all' -> stmt_wclosed T it).
    { intros it Hin. apply closed_wclosed. apply Hcl1.
      eapply Permutation_in; [apply Permutation_sym; exact Hperm|exact Hin]. }
    assert (Hcl2' : forall it, In it all -> stmt_wclosed T' it).
    { intros it Hin. apply closed_wclosed. apply Hcl2. eapply Permutation_in; eassumption. }
    apply tle_antisym.
    - destruct (start_below all stf T' Hf2 Hcl2') as [s [Es [Hles _]]].
      rewrite E1 in Es. injection Es as <-.
      eapply run_below with (st := st1) (all := all); eassumption.
    - destruct (start_below all' stf T Hf1 Hcl1') as [s [Es [Hles _]]].
      rewrite E2 in Es. injection Es as <-.
      eapply run_below with (st := st2) (all := all'); eassumption.
  Qed.

End Finder.
