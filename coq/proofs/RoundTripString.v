(* C19 -- the round trip on the text: lexer (LexRender) + parser (PrintParseProofs). *)
From Coq Require Import List ZArith NArith String Ascii Bool Arith.
Import ListNotations.
From Dagrt Require Import GenC19 Print Parse NormProofs NormProofs3 PrintParseProofs LexRender.

Theorem roundtrip_string e :
  printable e = true -> wf_names e = true -> parse_string (print_string e) = Ok (norm e).
Proof.
  intros Hp Hn. unfold parse_string.
  assert (Hw : wf_expr e = true) by (unfold printable in Hp; apply andb_true_iff in Hp; tauto).
  rewrite (lex_print e Hn Hw). cbn [bind]. apply roundtrip_tokens. exact Hp.
Qed.

(* = the full statement with the extra hypothesis no_defect e *)
Theorem roundtrip_string_partial :
  forall e, wf_expr e = true -> wf_names e = true -> no_defect e = true ->
  exists e', parse_string (print_string e) = Ok e'
             /\ print_string e' = print_string e
             /\ vars e' = vars e
             /\ forall rho Ffun Fsub Fquot Fnegpow,
                  eval rho Ffun Fsub Fquot Fnegpow e' = eval rho Ffun Fsub Fquot Fnegpow e.
Proof.
  intros e Hw Hn Hd. exists (norm e).
  split; [apply roundtrip_string; [unfold printable; rewrite Hw, Hd; reflexivity | exact Hn]|].
  split; [unfold print_string; rewrite print_norm; reflexivity|].
  split; [apply vars_norm|]. intros. apply eval_norm.
Qed.

Example ex1_conditions : (wf_expr ex1, wf_names ex1, no_defect ex1) = (true, true, true).
Proof. vm_compute. reflexivity. Qed.
