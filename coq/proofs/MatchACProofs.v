(* C17, part 1: induction principle for expressions, keyword sorting, canonical
   forms, the derived rules of AC1_equiv, soundness of flattened_sum /
   flattened_product w.r.t. AC1_equiv, and semantic soundness of AC1_equiv. *)
From Coq Require Import ZArith String List Bool Arith Permutation Lia.
Import ListNotations.
From Dagrt Require Import Match.

Section expr_ind'.
  Variable P : expr -> Prop.
  Hypothesis HV : forall x, P (EVar x).
  Hypothesis HI : forall z, P (EInt z).
  Hypothesis HA : forall op cs, Forall P cs -> P (EAC op cs).
  Hypothesis HQ : forall a b, P a -> P b -> P (EQuot a b).
  Hypothesis HP : forall a b, P a -> P b -> P (EPow a b).
  Hypothesis HC : forall f args kw, P f -> Forall P args -> Forall (fun kv => P (snd kv)) kw ->
                                    P (ECall f args kw).
  Fixpoint expr_ind' (e : expr) : P e :=
    match e with
    | EVar x => HV x
    | EInt z => HI z
    | EAC op cs => HA op cs ((fix go (l : list expr) : Forall P l :=
                                match l with
                                | [] => Forall_nil P
                                | x :: l' => Forall_cons x (expr_ind' x) (go l')
                                end) cs)
    | EQuot a b => HQ a b (expr_ind' a) (expr_ind' b)
    | EPow a b => HP a b (expr_ind' a) (expr_ind' b)
    | ECall f args kw =>
        HC f args kw (expr_ind' f)
           ((fix go (l : list expr) : Forall P l :=
               match l with
               | [] => Forall_nil P
               | x :: l' => Forall_cons x (expr_ind' x) (go l')
               end) args)
           ((fix go (l : list (string * expr)) : Forall (fun kv => P (snd kv)) l :=
               match l with
               | [] => Forall_nil _
               | x :: l' => Forall_cons x (expr_ind' (snd x)) (go l')
               end) kw)
    end.
End expr_ind'.

(* ------------------------------------------------------------------ keyword sorting *)

Definition kwmap {A B} (g : A -> B) (l : list (string * A)) : list (string * B) :=
  map (fun kv : string * A => let (k, v) := kv in (k, g v)) l.

Lemma kw_insert_map {A B} (g : A -> B) k v (l : list (string * A)) :
  kw_insert (k, g v) (kwmap g l) = kwmap g (kw_insert (k, v) l).
Proof.
  induction l as [|[k' v'] l IH]; cbn; [reflexivity|].
  destruct (String.leb k k'); cbn; [reflexivity|]. f_equal. exact IH.
Qed.

Lemma sort_kw_map {A B} (g : A -> B) (l : list (string * A)) :
  sort_kw (kwmap g l) = kwmap g (sort_kw l).
Proof.
  induction l as [|[k v] l IH]; cbn; [reflexivity|].
  unfold kwmap in IH. rewrite IH. apply kw_insert_map.
Qed.

Fixpoint ksorted {A} (l : list (string * A)) : Prop :=
  match l with
  | [] => True
  | kv :: l' => match l' with [] => True | kv' :: _ => String.leb (fst kv) (fst kv') = true end
                /\ ksorted l'
  end.

Lemma kw_insert_sorted {A} (kv : string * A) l : ksorted l -> ksorted (kw_insert kv l).
Proof.
  induction l as [|kv' l IH]; intros H; cbn [kw_insert].
  - cbn. auto.
  - destruct (String.leb (fst kv) (fst kv')) eqn:E.
    + cbn [ksorted]. split; [exact E|exact H].
    + destruct H as [H1 H2]. specialize (IH H2).
      assert (E' : String.leb (fst kv') (fst kv) = true).
      { destruct (String.leb_total (fst kv) (fst kv')) as [T|T]; congruence. }
      cbn [ksorted]. split; [|exact IH].
      destruct l as [|kv'' l]; cbn [kw_insert]; [exact E'|].
      destruct (String.leb (fst kv) (fst kv'')); [exact E'|exact H1].
Qed.

Lemma sort_kw_sorted {A} (l : list (string * A)) : ksorted (sort_kw l).
Proof. induction l; cbn [sort_kw]; [exact I|]. now apply kw_insert_sorted. Qed.

Lemma sorted_sort_kw {A} (l : list (string * A)) : ksorted l -> sort_kw l = l.
Proof.
  induction l as [|kv l IH]; intros H; [reflexivity|].
  destruct H as [H1 H2]. cbn [sort_kw]. rewrite (IH H2).
  destruct l as [|kv' l]; [reflexivity|]. cbn [kw_insert]. now rewrite H1.
Qed.

Lemma sort_kw_idem {A} (l : list (string * A)) : sort_kw (sort_kw l) = sort_kw l.
Proof. apply sorted_sort_kw, sort_kw_sorted. Qed.

Lemma kw_insert_perm {A} (kv : string * A) l : Permutation (kv :: l) (kw_insert kv l).
Proof.
  induction l as [|kv' l IH]; cbn [kw_insert]; [reflexivity|].
  destruct (String.leb (fst kv) (fst kv')); [reflexivity|].
  rewrite perm_swap. now constructor.
Qed.

Lemma sort_kw_perm {A} (l : list (string * A)) : Permutation l (sort_kw l).
Proof.
  induction l as [|kv l IH]; cbn [sort_kw]; [constructor|].
  rewrite <- kw_insert_perm. now constructor.
Qed.

Lemma kwmap_kwmap {A B C} (g : A -> B) (h : B -> C) l : kwmap h (kwmap g l) = kwmap (fun x => h (g x)) l.
Proof. unfold kwmap. rewrite map_map. apply map_ext. now intros [k v]. Qed.

Lemma kwmap_ext_in {A B} (g h : A -> B) l :
  Forall (fun kv => g (snd kv) = h (snd kv)) l -> kwmap g l = kwmap h l.
Proof.
  unfold kwmap. induction 1 as [|[k v] l Hx _ IH]; cbn [map]; [reflexivity|]. cbn in Hx. now rewrite Hx, IH.
Qed.

Lemma kwmap_fst {A B} (g : A -> B) l : map fst (kwmap g l) = map fst l.
Proof. unfold kwmap. rewrite map_map. apply map_ext. now intros [k v]. Qed.

Lemma kwmap_snd {A B} (g : A -> B) l : map snd (kwmap g l) = map g (map snd l).
Proof. unfold kwmap. rewrite !map_map. apply map_ext. now intros [k v]. Qed.

Lemma kwmap_length {A B} (g : A -> B) l : length (kwmap g l) = length l.
Proof. unfold kwmap. apply map_length. Qed.

(* ------------------------------------------------------------------ syntactic equality test, canonical form *)

Lemma acop_eqb_eq a b : acop_eqb a b = true -> a = b.
Proof. destruct a, b; cbn; congruence. Qed.

Lemma acop_eqb_refl a : acop_eqb a a = true.
Proof. now destruct a. Qed.

Lemma expr_seqb_eq a : forall b, expr_seqb a b = true -> a = b.
Proof.
  induction a as [x|z|op cs IH|a1 a2 IH1 IH2|a1 a2 IH1 IH2|f args kw IHf IHa IHk] using expr_ind';
    intros b H; destruct b as [y|z'|op' cs'|b1 b2|b1 b2|g args' kw']; cbn [expr_seqb] in H;
    try discriminate.
  - apply String.eqb_eq in H. now subst.
  - apply Z.eqb_eq in H. now subst.
  - apply andb_true_iff in H. destruct H as [Ho H]. apply acop_eqb_eq in Ho. subst op'. f_equal.
    revert cs' H. induction IH as [|x l Hx _ IHl]; intros [|y m] H; try discriminate; [reflexivity|].
    apply andb_true_iff in H. destruct H as [H1 H2]. f_equal; [now apply Hx|now apply IHl].
  - apply andb_true_iff in H. destruct H as [H1 H2]. f_equal; auto.
  - apply andb_true_iff in H. destruct H as [H1 H2]. f_equal; auto.
  - apply andb_true_iff in H. destruct H as [H Hk]. apply andb_true_iff in H. destruct H as [Hf Ha].
    f_equal.
    + now apply IHf.
    + clear Hk. revert args' Ha. induction IHa as [|x l Hx _ IHl]; intros [|y m] H; try discriminate;
        [reflexivity|].
      apply andb_true_iff in H. destruct H as [H1 H2]. f_equal; [now apply Hx|now apply IHl].
    + clear Ha. revert kw' Hk. induction IHk as [|[kx x] l Hx _ IHl]; intros [|[ky y] m] H;
        try discriminate; [reflexivity|].
      apply andb_true_iff in H. destruct H as [H H2]. apply andb_true_iff in H. destruct H as [H0 H1].
      apply String.eqb_eq in H0. subst ky. cbn in Hx. f_equal; [f_equal; now apply Hx|now apply IHl].
Qed.

Definition keq (a b : expr) : Prop := canon a = canon b.

Lemma expr_eqb_keq a b : expr_eqb a b = true -> keq a b.
Proof. unfold expr_eqb, keq. apply expr_seqb_eq. Qed.

Lemma canon_kw_eq kw :
  sort_kw (map (fun kv : string * expr => let (k, v) := kv in (k, canon v)) kw) = sort_kw (kwmap canon kw).
Proof. reflexivity. Qed.

Lemma canon_idem e : canon (canon e) = canon e.
Proof.
  induction e as [x|z|op cs IH|a b IHa IHb|a b IHa IHb|f args kw IHf IHa IHk] using expr_ind';
    cbn [canon]; try reflexivity.
  - f_equal. rewrite map_map. apply map_ext_in. intros c Hc. rewrite Forall_forall in IH. now apply IH.
  - now rewrite IHa, IHb.
  - now rewrite IHa, IHb.
  - f_equal.
    + exact IHf.
    + rewrite map_map. apply map_ext_in. intros c Hc. rewrite Forall_forall in IHa. now apply IHa.
    + change (sort_kw (kwmap canon (sort_kw (kwmap canon kw))) = sort_kw (kwmap canon kw)).
      rewrite <- sort_kw_map, sort_kw_idem. rewrite kwmap_kwmap. f_equal.
      apply kwmap_ext_in. exact IHk.
Qed.

Lemma canon_var_inv e x : canon e = EVar x -> e = EVar x.
Proof. destruct e; cbn; try discriminate. auto. Qed.

(* ------------------------------------------------------------------ derived rules of AC1_equiv *)

Notation "a ~~ b" := (AC1_equiv a b) (at level 70).

Lemma AC_cong_list op l l' : Forall2 AC1_equiv l l' -> forall pre, EAC op (pre ++ l) ~~ EAC op (pre ++ l').
Proof.
  induction 1 as [|a b l l' Hab _ IH]; intros pre; [apply AC_refl|].
  eapply AC_trans; [apply AC_cong; exact Hab|].
  specialize (IH (pre ++ [b])). now rewrite <- !app_assoc in IH.
Qed.

Lemma AC_cong_all op l l' : Forall2 AC1_equiv l l' -> EAC op l ~~ EAC op l'.
Proof. intros H. exact (AC_cong_list op l l' H []). Qed.

Lemma AC_call_args_list f kw l l' :
  Forall2 AC1_equiv l l' -> forall pre, ECall f (pre ++ l) kw ~~ ECall f (pre ++ l') kw.
Proof.
  induction 1 as [|a b l l' Hab _ IH]; intros pre; [apply AC_refl|].
  eapply AC_trans; [apply AC_call_arg; exact Hab|].
  specialize (IH (pre ++ [b])). now rewrite <- !app_assoc in IH.
Qed.

Definition kw_rel (p q : string * expr) : Prop := fst p = fst q /\ snd p ~~ snd q.

Lemma AC_call_kw_list f args l l' :
  Forall2 kw_rel l l' -> forall pre, ECall f args (pre ++ l) ~~ ECall f args (pre ++ l').
Proof.
  induction 1 as [|[k a] [k' b] l l' [Hk Hab] _ IH]; intros pre; [apply AC_refl|].
  cbn in Hk, Hab. subst k'.
  eapply AC_trans; [apply AC_call_kw; exact Hab|].
  specialize (IH (pre ++ [(k, b)])). now rewrite <- !app_assoc in IH.
Qed.

Lemma AC_nest_head op A B : EAC op (A ++ B) ~~ EAC op (EAC op A :: B).
Proof. apply AC_sym. exact (AC_assoc op [] A B). Qed.

Lemma AC_nest_tail op A B : EAC op (A ++ B) ~~ EAC op (A ++ [EAC op B]).
Proof. apply AC_sym. pose proof (AC_assoc op A B []) as H. now rewrite app_nil_r in H. Qed.

Lemma AC_app op A A' B B' :
  EAC op A ~~ EAC op A' -> EAC op B ~~ EAC op B' -> EAC op (A ++ B) ~~ EAC op (A' ++ B').
Proof.
  intros HA HB.
  eapply AC_trans; [apply AC_nest_head|].
  eapply AC_trans; [exact (AC_cong op [] _ _ B HA)|]. cbn [app].
  eapply AC_trans; [apply AC_sym, AC_nest_head|].
  eapply AC_trans; [apply AC_nest_tail|].
  eapply AC_trans; [exact (AC_cong op A' _ _ [] HB)|].
  apply AC_sym, AC_nest_tail.
Qed.

Lemma AC_concat op parts : EAC op (map (EAC op) parts) ~~ EAC op (concat parts).
Proof.
  induction parts as [|p ps IH]; cbn [map concat]; [apply AC_refl|].
  eapply AC_trans; [exact (AC_assoc op [] p _)|]. cbn [app].
  apply AC_app; [apply AC_refl|exact IH].
Qed.

Lemma AC_empty op : EInt (pym_ident op) ~~ EAC op [].
Proof.
  eapply AC_trans; [apply AC_sym, (AC_single op)|]. apply AC_ident.
Qed.

(* flattened_sum / flattened_product produce an AC1-equal expression *)
Lemma ac_terms_equiv op e : EAC op (ac_terms op e) ~~ EAC op [e].
Proof.
  induction e as [x|z|op' cs IH|a b IHa IHb|a b IHa IHb|f args kw IHf IHa IHk] using expr_ind';
    cbn [ac_terms]; try apply AC_refl.
  - destruct (Z.eqb z (pym_ident op)) eqn:E; [|apply AC_refl].
    apply Z.eqb_eq in E. subst z. apply AC_sym, AC_ident.
  - destruct (acop_eqb op op') eqn:E; [|apply AC_refl].
    apply acop_eqb_eq in E. subst op'.
    eapply AC_trans; [|apply AC_sym, AC_single].
    induction IH as [|c l Hc _ IHl]; cbn [flat_map]; [apply AC_refl|].
    exact (AC_app op _ [c] _ l Hc IHl).
Qed.

Lemma ac_terms_list_equiv op l : EAC op (flat_map (ac_terms op) l) ~~ EAC op l.
Proof.
  induction l as [|c l IH]; cbn [flat_map]; [apply AC_refl|].
  exact (AC_app op _ [c] _ l (ac_terms_equiv op c) IH).
Qed.

Lemma in_split_cong l (c : expr) : In c l -> exists l1 l2, l = l1 ++ c :: l2.
Proof. apply in_split. Qed.

Lemma prod_has_zero_equiv e : prod_has_zero e = true -> e ~~ EInt 0.
Proof.
  induction e as [x|z|op cs IH|a b IHa IHb|a b IHa IHb|f args kw IHf IHa IHk] using expr_ind';
    cbn [prod_has_zero]; try discriminate.
  - intros H. apply Z.eqb_eq in H. subst. apply AC_refl.
  - destruct op; [discriminate|]. intros H. apply existsb_exists in H. destruct H as (c & Hin & Hc).
    rewrite Forall_forall in IH. specialize (IH c Hin Hc).
    destruct (in_split _ _ Hin) as (l1 & l2 & ->).
    eapply AC_trans; [apply AC_cong; exact IH|].
    apply AC_annih. apply in_or_app. right. now left.
Qed.

Lemma mk_ac_equiv op l : mk_ac op l ~~ EAC op l.
Proof.
  unfold mk_ac.
  destruct (match op with OProd => existsb prod_has_zero l | OSum => false end) eqn:Z.
  - destruct op; [discriminate|]. apply existsb_exists in Z. destruct Z as (c & Hin & Hc).
    apply prod_has_zero_equiv in Hc. destruct (in_split _ _ Hin) as (l1 & l2 & ->).
    apply AC_sym. eapply AC_trans; [apply AC_cong; exact Hc|].
    apply AC_annih. apply in_or_app. right. now left.
  - pose proof (ac_terms_list_equiv op l) as H.
    destruct (flat_map (ac_terms op) l) as [|a [|b r]].
    + eapply AC_trans; [apply AC_empty|exact H].
    + eapply AC_trans; [apply AC_sym, AC_single|exact H].
    + exact H.
Qed.

Lemma AC_canon e : e ~~ canon e.
Proof.
  induction e as [x|z|op cs IH|a b IHa IHb|a b IHa IHb|f args kw IHf IHa IHk] using expr_ind';
    cbn [canon]; try apply AC_refl.
  - apply AC_cong_all. induction IH; cbn; constructor; auto.
  - eapply AC_trans; [apply AC_quot_l; exact IHa|]. apply AC_quot_r; exact IHb.
  - eapply AC_trans; [apply AC_pow_l; exact IHa|]. apply AC_pow_r; exact IHb.
  - eapply AC_trans; [apply (AC_call_fn f (canon f)); now rewrite canon_idem|].
    eapply AC_trans.
    { apply (AC_call_args_list (canon f) kw args (map canon args)) with (pre := []).
      clear -IHa. induction IHa; cbn; constructor; auto. }
    cbn [app].
    eapply AC_trans.
    { apply (AC_call_kw_list (canon f) (map canon args) kw (kwmap canon kw)) with (pre := []).
      clear -IHk. induction IHk as [|[k v] l Hx _ IHl]; cbn; constructor; auto. split; [reflexivity|exact Hx]. }
    cbn [app]. apply AC_call_kwsort. symmetry. apply sort_kw_idem.
Qed.

Lemma keq_AC a b : keq a b -> a ~~ b.
Proof.
  intros H. eapply AC_trans; [apply AC_canon|]. unfold keq in H. rewrite H. apply AC_sym, AC_canon.
Qed.

(* ------------------------------------------------------------------ semantic soundness of AC1_equiv *)

Section Sem.
  Variable rho : string -> Z.
  Variable F : expr -> list Z -> list (string * Z) -> Z.
  Variable Q P : Z -> Z -> Z.
  Notation ev := (eval rho F Q P).

  Definition ac_bin (op : acop) (a b : Z) : Z := match op with OSum => (a + b)%Z | OProd => (a * b)%Z end.

  Lemma ac_fold_cons op x l : ac_fold op (x :: l) = ac_bin op x (ac_fold op l).
  Proof. now destruct op. Qed.

  Lemma ac_fold_app op a b : ac_fold op (a ++ b) = ac_bin op (ac_fold op a) (ac_fold op b).
  Proof.
    induction a as [|x a IH]; [destruct op; cbn [app ac_fold ac_bin fold_right]; lia|].
    cbn [app]. rewrite !ac_fold_cons, IH. destruct op; cbn [ac_bin]; lia.
  Qed.

  Lemma ac_fold_perm op l l' : Permutation l l' -> ac_fold op l = ac_fold op l'.
  Proof.
    induction 1 as [|x l l' _ IH|x y l|l l' l'' _ IH1 _ IH2]; [reflexivity| | |congruence].
    - now rewrite !ac_fold_cons, IH.
    - rewrite !ac_fold_cons. destruct op; cbn [ac_bin]; lia.
  Qed.

  Lemma prod_zero l : In 0%Z l -> ac_fold OProd l = 0%Z.
  Proof.
    induction l as [|x l IH]; [contradiction|]. intros [->|H]; cbn [ac_fold fold_right]; [lia|].
    cbn [ac_fold] in IH. rewrite (IH H). lia.
  Qed.

  Lemma eval_kw kw :
    map (fun kv : string * expr => let (k, v) := kv in (k, ev v)) kw = kwmap ev kw.
  Proof. reflexivity. Qed.

  Theorem AC1_sem a b : a ~~ b -> ev a = ev b.
  Proof.
    induction 1 as [e|a b _ IH|a b c _ IH1 _ IH2|op l1 a b l2 _ IH|a a' b _ IH|a b b' _ IH
                    |a a' b _ IH|a b b' _ IH|f f' args kw Hf|f l1 a b l2 kw _ IH|f args k1 n a b k2 _ IH
                    |f args kw kw' Hs|op l l' Hp|op l1 m l2|op l|op a|l Hin];
      cbn [eval]; try congruence.
    - rewrite !map_app. cbn [map]. now rewrite IH.
    - rewrite !map_app. cbn [map]. now rewrite IH.
    - rewrite !map_app. cbn [map]. now rewrite IH.
    - rewrite !eval_kw, !sort_kw_map. now rewrite Hs.
    - apply ac_fold_perm. now apply Permutation_map.
    - rewrite !map_app. cbn [map eval]. repeat (rewrite ac_fold_app || rewrite ac_fold_cons).
      destruct op; cbn [ac_bin]; lia.
    - cbn [map eval]. rewrite ac_fold_cons. destruct op; cbn [ac_bin pym_ident]; lia.
    - cbn [map]. rewrite ac_fold_cons. destruct op; cbn [ac_bin ac_fold fold_right]; lia.
    - apply prod_zero. change 0%Z with (ev (EInt 0)). now apply in_map.
  Qed.
End Sem.
