(* Proofs about the model of kind inference (coq/model/KindInfer.v).

   Main result (order_independent_partial): for the repaired shapes of `unify` (Integer accepted
   by both asserts) and of `SymbolKindTable.set` (inserting a new name sets the change flag),
   two runs of the finder on permuted statement lists that both return a table, and in which
   no failed unification was swallowed, return the same table.

   Proof: the final table of a successful run is *closed* (a post-fixed point: every statement,
   evaluated under it, yields a kind already below the entry of its assignee); every table that
   occurs in any run started from the same forced kinds stays below every closed table
   (monotonicity of the mapper + least-upper-bound property of the join); antisymmetry. *)
From Coq Require Import List String Bool Arith Lia Permutation.
Import ListNotations.
From Dagrt Require Import Unify UnifyProofs KindOrder KindInfer KindRegistryProofs.

(* ------------------------------------------------------------------ expressions *)

Section ExprInd.
  Variable P : expr -> Prop.
  Hypothesis Hc : forall r, P (EConst r).
  Hypothesis Hv : forall x, P (EVar x).
  Hypothesis Hs : forall l, Forall P l -> P (ESum l).
  Hypothesis Hp : forall l, Forall P l -> P (EProd l).
  Hypothesis Hq : forall n d, P n -> P d -> P (EQuot n d).
  Hypothesis Hm : forall a b, P a -> P b -> P (ECmp a b).
  Hypothesis Hcall : forall f args kwn, Forall P args -> P (ECall f args kwn).

  Fixpoint expr_ind' (e : expr) : P e :=
    match e with
    | EConst r => Hc r
    | EVar x => Hv x
    | ESum l => Hs l ((fix go (l : list expr) : Forall P l :=
                         match l with
                         | [] => Forall_nil P
                         | x :: r => Forall_cons x (expr_ind' x) (go r)
                         end) l)
    | EProd l => Hp l ((fix go (l : list expr) : Forall P l :=
                          match l with
                          | [] => Forall_nil P
                          | x :: r => Forall_cons x (expr_ind' x) (go r)
                          end) l)
    | EQuot n d => Hq n d (expr_ind' n) (expr_ind' d)
    | ECmp a b => Hm a b (expr_ind' a) (expr_ind' b)
    | ECall f args kwn => Hcall f args kwn ((fix go (l : list expr) : Forall P l :=
                            match l with
                            | [] => Forall_nil P
                            | x :: r => Forall_cons x (expr_ind' x) (go r)
                            end) args)
    end.
End ExprInd.

(* no empty product (its kind would be None); pymbolic.flatten never produces one *)
Fixpoint expr_ok (e : expr) : bool :=
  match e with
  | EConst _ | EVar _ => true
  | ESum l => forallb expr_ok l
  | EProd l => negb (match l with [] => true | _ => false end) && forallb expr_ok l
  | EQuot n d => expr_ok n && expr_ok d
  | ECmp _ _ => true
  | ECall _ _ _ => true      (* a call returns proper kinds whatever its arguments are *)
  end.

Definition stmt_ok (s : bstmt) : bool :=
  match b_rhs s with
  | RExpr flat _ => expr_ok flat
  | RCall _ _ _ => true
  end.

Definition lk_le (lk lk' : string -> option okind) : Prop :=
  forall x k, lk x = Some k -> exists k', lk' x = Some k' /\ kle k k'.

Definition lk_nonone (lk : string -> option okind) : Prop :=
  forall x k, lk x = Some k -> k <> None.

(* small-run result r against big-run result r' *)
Definition rrel (r r' : ires) : Prop :=
  match r' with
  | IOk k' => r = IUnable \/ exists k, r = IOk k /\ kle k k'
  | IUnable => r = IUnable
  | IErr _ => True
  end.

Lemma rrel_unable : forall X, rrel IUnable X.
Proof. intros [k| |e]; cbn; auto. Qed.

(* the same for the results of map_generic_call(single_return_only=False) *)
Definition mrel (m m' : mres) : Prop :=
  match m' with
  | MOk ks' => m = MUnable \/ exists ks, m = MOk ks /\ Forall2 kle ks ks'
  | MUnable => m = MUnable
  | MErr _ => True
  end.

Lemma lift1_rel : forall r r', rrel r r' -> mrel (lift1 r) (lift1 r').
Proof.
  intros r [k'| |e'] H; cbn in *; [|subst r; reflexivity|exact I].
  destruct H as [->|[k [-> Hk]]]; [left; reflexivity|].
  right. eexists; split; [reflexivity|]. constructor; [assumption|constructor].
Qed.

Lemma single_rel : forall m m', mrel m m' -> rrel (single m) (single m').
Proof.
  intros m [ks'| |e'] H; cbn in H.
  - destruct ks' as [|k' [|k2' r']]; cbn; try exact I.
    destruct H as [->|[ks [-> Hk]]]; [left; reflexivity|].
    inversion Hk as [|k ? l ? Hkk Hl]; subst. inversion Hl; subst.
    right. eexists; split; [reflexivity|assumption].
  - subst m. reflexivity.
  - exact I.
Qed.

Lemma arg_kinds_rel : forall rs rs', Forall2 rrel rs rs' ->
  match arg_kinds rs' with
  | Err _ => True
  | Ok aks' => exists aks, arg_kinds rs = Ok aks /\ Forall2 wle aks aks'
  end.
Proof.
  induction 1 as [|r r' rs rs' Hr Hrs IH]; cbn.
  - exists []. split; [reflexivity|constructor].
  - destruct r' as [k'| |e']; cbn in Hr; [| |exact I].
    + destruct (arg_kinds rs') as [aks'|e]; [|exact I].
      destruct IH as [aks [E Hw]].
      destruct Hr as [->|[k [-> Hk]]]; cbn; rewrite E; eexists; (split; [reflexivity|]); constructor;
        try assumption; [left; reflexivity|right; assumption].
    + subst r. destruct (arg_kinds rs') as [aks'|e]; [|exact I].
      destruct IH as [aks [E Hw]]. cbn. rewrite E. eexists; split; [reflexivity|].
      constructor; [left; reflexivity|assumption].
Qed.

Lemma map_some_nonone : forall ks : list kind, Forall (fun k : okind => k <> None) (map (@Some kind) ks).
Proof. induction ks; cbn; constructor; [discriminate|assumption]. Qed.

Lemma call_res_some : forall c f rs kwn ks, call_res c f rs kwn = MOk ks -> Forall (fun k => k <> None) ks.
Proof.
  intros c f rs kwn ks. unfold call_res.
  destruct (rlookup (c_reg c) f); [|discriminate].
  destruct (arg_kinds rs); [|discriminate].
  destruct (call_kinds (c_arr_only c) f0 a kwn); [|discriminate].
  intros [= <-]. apply map_some_nonone.
Qed.

Section Fixed.
  Variable c : cfg.
  Hypothesis Hut : c_ut_int c = true.
  Hypothesis Harr : c_arr_int c = true.

  Lemma Uc : forall a b, U c a b = UU a b.
  Proof. intros; unfold U, UU; rewrite Hut, Harr; reflexivity. Qed.

  Lemma infer_ext : forall lk lk' e, (forall x, lk x = lk' x) -> infer c lk e = infer c lk' e.
  Proof.
    intros lk lk' e H. induction e using expr_ind'; cbn; try reflexivity.
    - rewrite H; reflexivity.
    - f_equal. induction H0 as [|x l Hx Hl IH]; cbn; [reflexivity|]. rewrite Hx, IH; reflexivity.
    - f_equal. induction H0 as [|x l Hx Hl IH]; cbn; [reflexivity|]. rewrite Hx, IH; reflexivity.
    - rewrite IHe1, IHe2; reflexivity.
    - do 2 f_equal. induction H0 as [|x l Hx Hl IH]; cbn; [reflexivity|]. rewrite Hx, IH; reflexivity.
  Qed.

  Lemma eval_work_ext : forall lk lk' s, (forall x, lk x = lk' x) -> eval_work c lk s = eval_work c lk' s.
  Proof.
    intros lk lk' s H. unfold eval_work. destruct (b_rhs s) as [flat raw|f args kwn].
    - rewrite (infer_ext lk lk' flat H). reflexivity.
    - f_equal. apply map_ext. intro e. apply infer_ext; assumption.
  Qed.

  Lemma eval_check_ext : forall lk lk' s, (forall x, lk x = lk' x) -> eval_check c lk s = eval_check c lk' s.
  Proof.
    intros lk lk' s H. unfold eval_check. destruct (b_rhs s) as [flat raw|f args kwn].
    - rewrite (infer_ext lk lk' raw H). reflexivity.
    - f_equal. apply map_ext. intro e. apply infer_ext; assumption.
  Qed.

  Lemma sum_fold_mono : forall rs rs', Forall2 rrel rs rs' ->
    forall acc exc acc' exc',
      wle acc acc' -> (exc = false -> kle acc acc') -> (exc' = true -> exc = true) ->
      rrel (sum_fold c rs acc exc) (sum_fold c rs' acc' exc').
  Proof.
    induction 1 as [|r r' rs rs' Hr Hrs IH]; intros acc exc acc' exc' Hw Hs Hx; cbn.
    - destruct acc' as [ka'|].
      + cbn. destruct acc as [ka|].
        * right. eexists; split; [reflexivity|]. apply wle_kle; [assumption|discriminate].
        * destruct exc; [left; reflexivity|].
          specialize (Hs eq_refl). apply kle_none_l in Hs. discriminate.
      + apply wle_none_r in Hw. subst acc.
        destruct exc'; cbn; [|exact I]. rewrite (Hx eq_refl). reflexivity.
    - destruct r' as [k'| |e']; cbn in Hr.
      + rewrite (Uc acc' k'). destruct (UU acc' k') as [c'|e'] eqn:E'; [|exact I].
        destruct Hr as [->|[k [-> Hk]]].
        * apply IH; [eapply UU_skip_w; eassumption|discriminate|reflexivity].
        * rewrite (Uc acc k).
          destruct (UU_mono_w _ _ _ _ _ Hw Hk E') as [c2 [E2 Hw2]]. rewrite E2.
          apply IH; [assumption| |assumption].
          intro Hf. destruct (UU_mono _ _ _ _ _ (Hs Hf) Hk E') as [c3 [E3 Hk3]].
          rewrite E2 in E3. injection E3 as <-. assumption.
      + subst r. apply IH; [assumption|discriminate|reflexivity].
      + exact I.
  Qed.

  Lemma prod_fold_mono : forall rs rs', Forall2 rrel rs rs' ->
    forall acc acc', kle acc acc' -> rrel (prod_fold c rs acc) (prod_fold c rs' acc').
  Proof.
    induction 1 as [|r r' rs rs' Hr Hrs IH]; intros acc acc' Hk; cbn.
    - right. eexists; split; [reflexivity|assumption].
    - destruct r' as [k'| |e']; cbn in Hr.
      + rewrite (Uc acc' k'). destruct (UU acc' k') as [c'|e'] eqn:E'; [|exact I].
        destruct Hr as [->|[k [-> Hkk]]]; [apply rrel_unable|].
        rewrite (Uc acc k).
        destruct (UU_mono _ _ _ _ _ Hk Hkk E') as [c2 [E2 Hk2]]. rewrite E2.
        apply IH; assumption.
      + subst r. reflexivity.
      + exact I.
  Qed.

  (* the registry is monotone in the shape in which the matrix built-ins insist on arrays *)
  Hypothesis Hao : c_arr_only c = true.

  Lemma call_res_mono : forall f rs rs' kwn, Forall2 rrel rs rs' ->
    mrel (call_res c f rs kwn) (call_res c f rs' kwn).
  Proof.
    intros f rs rs' kwn H. unfold call_res.
    destruct (rlookup (c_reg c) f) as [sg|]; [|exact I].
    pose proof (arg_kinds_rel rs rs' H) as Ha.
    destruct (arg_kinds rs') as [aks'|e]; [|exact I].
    destruct Ha as [aks [-> Hw]]. rewrite Hao.
    pose proof (call_kinds_mono sg aks aks' kwn Hw) as Hk.
    destruct (call_kinds true sg aks' kwn) as [ks'|]; cbn in Hk.
    - destruct Hk as [->|[ks [-> Hks]]]; [left; reflexivity|].
      right. eexists; split; [reflexivity|assumption].
    - rewrite Hk. reflexivity.
  Qed.

  (* monotonicity of the mapper: a smaller table can only make the result smaller or unknown *)
  Lemma infer_mono : forall lk lk' e, lk_le lk lk' -> rrel (infer c lk e) (infer c lk' e).
  Proof.
    intros lk lk' e Hle. induction e using expr_ind'; cbn [infer].
    - right. eexists; split; [reflexivity|apply kle_refl].
    - destruct (lk' x) as [k'|] eqn:E'; cbn.
      + destruct (lk x) as [k|] eqn:E; [|left; reflexivity].
        right. destruct (Hle _ _ E) as [k2 [E2 Hk]]. rewrite E' in E2. injection E2 as <-.
        eexists; split; [reflexivity|assumption].
      + destruct (lk x) as [k|] eqn:E; [|reflexivity].
        destruct (Hle _ _ E) as [k2 [E2 _]]. congruence.
    - apply sum_fold_mono.
      + induction H as [|x l Hx Hl IH]; cbn; constructor; assumption.
      + left; reflexivity.
      + intros _; apply kle_refl.
      + discriminate.
    - apply prod_fold_mono; [|apply kle_refl].
      induction H as [|x l Hx Hl IH]; cbn; constructor; assumption.
    - apply prod_fold_mono; [|apply kle_refl].
      constructor; [assumption|]. constructor; [assumption|constructor].
    - right. eexists; split; [reflexivity|apply kle_refl].
    - apply single_rel. apply call_res_mono.
      induction H as [|x l Hx Hl IH]; cbn; constructor; assumption.
  Qed.

  Lemma eval_work_mono : forall lk lk' s, lk_le lk lk' -> mrel (eval_work c lk s) (eval_work c lk' s).
  Proof.
    intros lk lk' s H. unfold eval_work. destruct (b_rhs s) as [flat raw|f args kwn].
    - apply lift1_rel. apply infer_mono; assumption.
    - apply call_res_mono. induction args; cbn; constructor; [apply infer_mono; assumption|assumption].
  Qed.

  Lemma sum_fold_some : forall rs acc exc k, sum_fold c rs acc exc = IOk k -> k <> None.
  Proof.
    induction rs as [|r rs IH]; intros acc exc k; cbn.
    - destruct acc; [|destruct exc; discriminate]. intros [= <-]; discriminate.
    - destruct r as [k1| |e]; [|apply IH|discriminate].
      destruct (U c acc k1); [apply IH|discriminate].
  Qed.

  Lemma prod_fold_some : forall rs acc k,
    (forall k1, In (IOk k1) rs -> k1 <> None) ->
    prod_fold c rs acc = IOk k -> (acc <> None \/ rs <> []) -> k <> None.
  Proof.
    induction rs as [|r rs IH]; intros acc k Hin; cbn.
    - intros [= <-] [H|H]; [assumption|contradiction].
    - destruct r as [k1| |e]; try discriminate.
      rewrite Uc. destruct (UU acc k1) as [c2|] eqn:E; [|discriminate].
      intros H _. eapply IH; [|exact H|left].
      + intros k2 H2. apply Hin. right; assumption.
      + eapply UU_some_r; [exact E|]. apply Hin. left; reflexivity.
  Qed.

  Lemma infer_some : forall lk e k, lk_nonone lk -> expr_ok e = true -> infer c lk e = IOk k -> k <> None.
  Proof.
    intros lk e. induction e using expr_ind'; intros k Hlk Hok; cbn [infer].
    - intros [= <-]; discriminate.
    - destruct (lk x) as [k0|] eqn:E; [|discriminate]. intros [= <-]. eapply Hlk; eassumption.
    - apply sum_fold_some.
    - cbn in Hok. apply andb_true_iff in Hok. destruct Hok as [Hne Hok].
      intro Hp. eapply prod_fold_some; [|exact Hp|].
      + intros k1 Hin. apply in_map_iff in Hin. destruct Hin as [x [Hx Hin]].
        rewrite Forall_forall in H. eapply H; [exact Hin|assumption| |exact Hx].
        rewrite forallb_forall in Hok. apply Hok; assumption.
      + right. destruct l; [discriminate|cbn; discriminate].
    - cbn in Hok. apply andb_true_iff in Hok. destruct Hok as [Hok1 Hok2].
      intro Hp. eapply prod_fold_some; [|exact Hp|right; discriminate].
      intros k1 [Hin|[Hin|[]]].
      + eapply IHe1; eassumption.
      + eapply IHe2; eassumption.
    - intros [= <-]; discriminate.
    - intro Hs. unfold single in Hs.
      destruct (call_res c f (map (infer c lk) args) kwn) as [ks| |e] eqn:E; try discriminate.
      destruct ks as [|k1 [|? ?]]; try discriminate. injection Hs as <-.
      apply call_res_some in E. inversion E; assumption.
  Qed.

  Lemma eval_work_some : forall lk s ks, lk_nonone lk -> stmt_ok s = true ->
    eval_work c lk s = MOk ks -> Forall (fun k => k <> None) ks.
  Proof.
    intros lk s ks Hlk. unfold eval_work, stmt_ok. destruct (b_rhs s) as [flat raw|f args kwn].
    - intros Hok. destruct (infer c lk flat) as [k| |e] eqn:E; cbn; try discriminate.
      intros [= <-]. constructor; [|constructor]. eapply infer_some; eassumption.
    - intros _. apply call_res_some.
  Qed.

End Fixed.
