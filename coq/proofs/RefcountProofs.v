(* C12 -- Part D: whole histories (initialize; any number of calls of run; shutdown) for the
   repaired shapes, Part E: refutations for the unrepaired shapes, examples. *)
From Coq Require Import List Arith Bool Lia ZifyBool.
Import ListNotations.
From Dagrt Require Import Refcount RefcountBase RefcountOps RefcountState RefcountTree.

(* ------------------------------------------------------------------ helpers *)
Lemma nullify_all_spec l st :
  cnt (nullify_all l st) = cnt st /\ nxt (nullify_all l st) = nxt st /\
  frees (nullify_all l st) = frees st /\
  (forall y, vars (nullify_all l st) y = if memv y l then None else vars st y) /\
  (forall y, defd (nullify_all l st) y = if memv y l then false else defd st y).
Proof.
  revert st. induction l as [|x r IH]; intros st.
  - cbn. auto.
  - cbn [nullify_all].
    destruct (IH (ev (set_defd (set_vars st (upd (vars st) x None)) (upd (defd st) x false))
                     [TNullifyVar x])) as (C & N & F & V & D).
    rewrite C, N, F. cbn. repeat split; auto.
    + intros y. rewrite V. cbn. unfold upd. destruct (Nat.eqb y x); cbn; [|reflexivity].
      destruct (memv y r); reflexivity.
    + intros y. rewrite D. cbn. unfold upd. destruct (Nat.eqb y x); cbn; [|reflexivity].
      destruct (memv y r); reflexivity.
Qed.

Lemma rinv_ext U vs vs' c nx fr :
  (forall x, vs x = vs' x) -> rinv U vs c nx fr -> rinv U vs' c nx fr.
Proof.
  intros E (I1 & I2 & I3 & I4). split; [|split; [|split]]; auto.
  - intros b n H. destruct (I1 b n H) as [A B]. split; [|assumption].
    rewrite A. apply owners_ext. auto.
  - intros x b Hx Hv. rewrite <- E in Hv. eauto.
Qed.

Lemma deinit_list U l st :
  NoDup U -> (forall x, In x l -> In x U) -> refcount_inv U st ->
  exists st', run_ops (map ODeinit l) st = ONormal st' /\ refcount_inv U st' /\
              (forall x, In x l -> vars st' x = None) /\
              (forall y, ~ In y l -> vars st' y = vars st y) /\
              (forall y, vars st y = None -> vars st' y = None) /\
              defd st' = defd st.
Proof.
  intros ND. revert st. induction l as [|x r IH]; intros st Hl I.
  - exists st. cbn. split; [reflexivity|]. split; [assumption|]. split; [intros x []|]. auto.
  - cbn [map run_ops run_op].
    destruct (deinit_spec U x st ND (Hl x (or_introl eq_refl)) I) as (st1 & E & I1 & Vx & Fr & D & _).
    rewrite E. destruct (IH st1 (fun y Hy => Hl y (or_intror Hy)) I1)
      as (st2 & E2 & I2 & Vl & Fr2 & Nn & D2).
    exists st2. split; [assumption|]. split; [assumption|]. repeat split.
    + intros y [<-|Hy]; auto.
    + intros y Hy. rewrite Fr2 by (intros H; apply Hy; now right).
      apply Fr. intros ->. apply Hy. now left.
    + intros y Hy. apply Nn. destruct (Nat.eq_dec y x) as [->|Hne]; [assumption|].
      now rewrite Fr.
    + congruence.
Qed.

Lemma find_func_in l q f : find_func l q = Some f -> In f l.
Proof.
  induction l as [|g r IH]; cbn; [discriminate|].
  destruct (Nat.eqb (f_id g) q); [intros [= <-]; now left | right; auto].
Qed.

Lemma filter_nil_all {A} (f : A -> bool) l : (forall x, In x l -> f x = false) -> filter f l = [].
Proof.
  induction l as [|x r IH]; cbn; intros H; [reflexivity|].
  rewrite (H x (or_introl eq_refl)). apply IH. intros y Hy. apply H. now right.
Qed.

Lemma NoDup_app_l {A} (a b : list A) : NoDup (a ++ b) -> NoDup a.
Proof.
  induction a as [|x a IH]; cbn; intros H; [constructor|].
  inversion H as [|? ? Hn H']; subst. constructor; [|auto].
  intros Hx. apply Hn. apply in_or_app. now left.
Qed.

(* ------------------------------------------------------------------ Part D *)
Section Prog.
  Variable p : prog.
  Hypothesis WFp : prog_wf p = true.
  Let U := universe p.
  Let G := globals p.
  Variable swc : bool.          (* sw_stmt_cond: either shape of lower_inst *)
  Let m := emit_mem true true swc p.

  Lemma wf_parts :
    NoDup U /\ (forall x, In x (initable p) -> In x G) /\ NoDup (initable p) /\
    forall ph, In ph (phases p) -> phase_wf G ph = true.
  Proof.
    unfold prog_wf in WFp.
    apply andb_true_iff in WFp. destruct WFp as [H H4].
    apply andb_true_iff in H. destruct H as [H H3].
    apply andb_true_iff in H. destruct H as [H1 H2].
    split; [apply nodupb_NoDup; assumption|]. split; [apply subset_In; assumption|].
    split; [apply nodupb_NoDup; assumption|]. rewrite forallb_forall in H4. exact H4.
  Qed.

  Let ND : NoDup U := proj1 wf_parts.

  Lemma G_in_U x : In x G -> In x U.
  Proof. intros H. unfold U, universe. apply in_or_app. now left. Qed.

  Lemma locals_in_U ph x : In ph (phases p) -> In x (ph_locals ph) -> In x U.
  Proof.
    intros Hp Hx. unfold U, universe. apply in_or_app. right. apply in_flat_map. eauto.
  Qed.

  Lemma locals_not_G ph x : In ph (phases p) -> In x (ph_locals ph) -> ~ In x G.
  Proof.
    intros Hp Hx Hg. pose proof ND as N. unfold U, universe in N.
    apply (NoDup_app_disj _ _ x N Hg). apply in_flat_map. eauto.
  Qed.

  (* between two calls of run *)
  Definition K (st : mstate) : Prop :=
    refcount_inv U st /\ (forall x, ~ In x G -> vars st x = None) /\
    (forall g, In g G -> defd st g = true -> vars st g <> None).

  Definition Kpost (o : outcome) : Prop :=
    match o with
    | ONormal st => K st
    | OExit _ => False
    | OStopped st => refcount_inv U st
    | OFault f st => is_src f /\ refcount_inv U st
    end.

  Lemma run_func_K v ph st :
    In ph (phases p) -> K st -> Kpost (run_func v (emit_phase true true swc G ph) st).
  Proof.
    intros Hp (I & KL & KG).
    pose proof wf_parts as (_ & _ & _ & Hph). specialize (Hph ph Hp).
    unfold phase_wf in Hph. apply andb_true_iff in Hph. destruct Hph as [Hst Hnd].
    rewrite forallb_forall in Hst. apply nodupb_NoDup in Hnd.
    set (locs := ph_locals ph). set (all := stmts_of (ph_body ph)).
    assert (HscU : forall x, In x (G ++ locs) -> In x U).
    { intros x Hx. apply in_app_or in Hx. destruct Hx; [now apply G_in_U | eapply locals_in_U; eauto]. }
    unfold run_func. cbn [emit_phase f_locals f_body f_exit].
    fold locs. fold all.
    destruct (nullify_all_spec locs st) as (C & N & F & V & D).
    set (st1 := nullify_all locs st) in *.
    (* entering: every local was unassociated already *)
    assert (Hv1 : forall x, vars st1 x = vars st x).
    { intros x. rewrite V. destruct (memv x locs) eqn:M; [|reflexivity].
      apply memv_In in M. symmetry. apply KL. eapply locals_not_G; eauto. }
    assert (I1 : refcount_inv U st1).
    { unfold refcount_inv. rewrite C, N, F. eapply rinv_ext; [|exact I]. intros x. now rewrite Hv1. }
    assert (HInv : Inv U G locs all [] st1).
    { split; [exact I1|]. split.
      - intros x Hx Dx Vx. exfalso. rewrite D in Dx. destruct (memv x locs) eqn:M; [discriminate|].
        apply memv_false in M. apply in_app_or in Hx. destruct Hx as [Hx|Hx]; [|contradiction].
        rewrite Hv1 in Vx. apply (KG x Hx Dx Vx).
      - intros y Hy. rewrite Hv1. apply KL. intros Hg. apply Hy. apply in_or_app. now left. }
    pose proof (node_ok U G locs all ND HscU Hnd Hst v swc (ph_body ph) false [] [] [] [] st1
                        ltac:(cbn; now rewrite app_nil_r) ltac:(intros i []) HInv) as Hbody.
    (* label 999 *)
    assert (Hlabel : forall st2, Q U G locs st2 ->
              Kpost (run_ops (map ODeinit locs) (ev st2 [TLabel]))).
    { intros st2 (I2 & J2 & O2).
      destruct (deinit_list U locs (ev st2 [TLabel]) ND
                            (fun x Hx => locals_in_U ph x Hp Hx) I2)
        as (st3 & E3 & I3 & Vl & Fr & Nn & D3).
      rewrite E3. cbn. split; [assumption|]. split.
      - intros x Hx. destruct (in_dec Nat.eq_dec x locs) as [Hl|Hl]; [auto|].
        apply Nn. cbn. apply O2. intros Hs. apply in_app_or in Hs. tauto.
      - intros g Hg Dg. rewrite Fr by (intros Hl; eapply locals_not_G; eauto).
        rewrite D3 in Dg. apply (J2 g Hg Dg). }
    destruct (run_code v (emit_node true swc G (last_tbl all) false (ph_body ph)) [] st1) as [st2|st2|st2|f st2];
      cbn [post] in Hbody.
    - apply Hlabel. apply (Inv_Q U G locs all _ _ Hbody).
    - apply Hlabel. exact Hbody.
    - cbn. apply Hbody.
    - cbn. exact Hbody.
  Qed.

  Lemma run_step_K v st : K st -> Kpost (run_step m v st).
  Proof.
    intros HK. unfold run_step. destruct (find_func (m_funcs m) (nph st)) as [f|] eqn:Ef.
    - apply find_func_in in Ef. cbn in Ef. apply in_map_iff in Ef. destruct Ef as [ph [<- Hp]].
      apply run_func_K; assumption.
    - cbn. apply HK.
  Qed.

  Lemma run_steps_K h st : K st -> Kpost (run_steps m h st).
  Proof.
    revert st. induction h as [|v r IH]; intros st HK; [exact HK|].
    cbn [run_steps]. pose proof (run_step_K v st HK) as H1.
    destruct (run_step m v st); cbn in H1 |- *; auto. contradiction.
  Qed.

  Lemma init_K present : K (init m present).
  Proof.
    unfold init. cbn [m emit_mem m_initable m_globals m_first].
    pose proof wf_parts as (_ & Hsub & NDi & _).
    set (sta := nullify_all (globals p) (set_nph st0 (first_phase p))).
    destruct (nullify_all_spec (globals p) (set_nph st0 (first_phase p))) as (C & N & F & V & D).
    fold sta in C, N, F, V, D.
    assert (Va : forall x, vars sta x = None).
    { intros x. rewrite V. destruct (memv x (globals p)); reflexivity. }
    assert (Da : forall x, defd sta x = false).
    { intros x. rewrite D. destruct (memv x (globals p)); reflexivity. }
    assert (Ia : refcount_inv U sta).
    { unfold refcount_inv. rewrite C, N, F. cbn. split; [|split; [|split]].
      - intros b n H. discriminate.
      - intros x b _ H. rewrite Va in H. discriminate.
      - reflexivity.
      - intros b. reflexivity. }
    assert (Hgen : forall l st, NoDup l -> (forall x, In x l -> In x G) ->
               K st -> (forall x, In x l -> vars st x = None) -> K (init_alloc l present st)).
    { induction l as [|x r IH]; intros st NDl Hl HK Hn; [exact HK|].
      cbn [init_alloc]. inversion NDl as [|? ? Hxr NDr]; subst.
      destruct (memv x present).
      - apply IH; auto.
        + intros y Hy. apply Hl. now right.
        + destruct HK as (I & KL & KG). split; [|split].
          * unfold refcount_inv. cbn. apply hole_fill_fresh; auto.
            -- apply G_in_U. apply Hl. now left.
            -- apply hole_of_null; [exact I|]. apply Hn. now left.
          * intros y Hy. cbn. rewrite upd_other; [auto|]. intros ->. apply Hy. apply Hl. now left.
          * intros g Hg Dg. cbn in Dg |- *. unfold upd in *.
            destruct (Nat.eqb g x); [discriminate | auto].
        + intros y Hy. cbn. rewrite upd_other; [apply Hn; now right|]. intros ->. contradiction.
      - apply IH; auto.
        + intros y Hy. apply Hl. now right.
        + intros y Hy. apply Hn. now right. }
    apply Hgen; auto.
    split; [exact Ia|]. split; [auto|]. intros g _ Dg. rewrite Da in Dg. discriminate.
  Qed.

  Lemma shutdown_K st :
    K st ->
    exists st', shutdown m st = (ONormal st', []) /\ refcount_inv U st' /\
                (forall b, cnt st' b = None) /\ live_blocks st' = [].
  Proof.
    intros (I & KL & KG). unfold shutdown. cbn [m emit_mem m_globals].
    destruct (deinit_list U (globals p) st ND G_in_U I) as (st' & E & I' & Vg & Fr & Nn & D).
    rewrite E.
    assert (Hall : forall x, vars st' x = None).
    { intros x. destruct (in_dec Nat.eq_dec x (globals p)) as [Hg|Hg]; [auto|].
      apply Nn. apply KL. exact Hg. }
    assert (Hc : forall b, cnt st' b = None).
    { intros b. destruct (cnt st' b) as [n|] eqn:Cb; [|reflexivity]. exfalso.
      destruct I' as (I1 & _). destruct (I1 b n Cb) as [A B].
      rewrite (owners_all_none U (vars st') b) in A by auto. lia. }
    exists st'. split; [|split; [assumption|split; [assumption|]]].
    - f_equal. apply filter_nil_all. intros x _. now rewrite Hall.
    - unfold live_blocks. apply filter_nil_all. intros b _. now rewrite Hc.
  Qed.

  (* ---- the three theorems for the repaired shapes ---- *)
  Theorem invariant_fixed present h :
    let r := run_mem m present h in
    (forall f st, r = HFault f st -> exists x, f = SrcUndefined x) /\
    refcount_inv U (final_state r).
  Proof.
    cbn zeta. unfold run_mem.
    pose proof (run_steps_K h (init m present) (init_K present)) as H.
    destruct (run_steps m h (init m present)) as [st|st|st|f st]; cbn in H.
    - destruct (shutdown_K st H) as (st' & E & I' & _). rewrite E. cbn. split; [|assumption].
      intros f st1 [=].
    - contradiction.
    - cbn. split; [|assumption]. intros f st1 [=].
    - cbn. destruct H as [Hs I]. split; [|assumption]. intros f1 st1 [= <- <-]. exact Hs.
  Qed.

  Theorem no_leak_fixed present h st reps :
    run_mem m present h = HDone st reps -> live_blocks st = [] /\ reps = [].
  Proof.
    unfold run_mem.
    pose proof (run_steps_K h (init m present) (init_K present)) as H.
    destruct (run_steps m h (init m present)) as [st1|st1|st1|f st1]; cbn in H; try discriminate.
    destruct (shutdown_K st1 H) as (st' & E & I' & Hc & Hl). rewrite E.
    intros [= <- <-]. auto.
  Qed.

  Theorem free_once_fixed present h st reps :
    run_mem m present h = HDone st reps ->
    forall b, count_occ Nat.eq_dec (frees st) b = if Nat.ltb b (nxt st) then 1 else 0.
  Proof.
    unfold run_mem.
    pose proof (run_steps_K h (init m present) (init_K present)) as H.
    destruct (run_steps m h (init m present)) as [st1|st1|st1|f st1]; cbn in H; try discriminate.
    destruct (shutdown_K st1 H) as (st' & E & I' & Hc & Hl). rewrite E.
    intros [= <- <-] b. destruct I' as (_ & _ & _ & I4). rewrite I4, Hc. reflexivity.
  Qed.
End Prog.

(* ------------------------------------------------------------------ the statements, for all shapes *)
Definition invariant_stmt (sw_exit sw_loop sw_cond : bool) : Prop :=
  forall p present h, prog_wf p = true ->
    let r := run_mem (emit_mem sw_exit sw_loop sw_cond p) present h in
    (forall f st, r = HFault f st -> exists x, f = SrcUndefined x) /\
    refcount_inv (universe p) (final_state r).

Definition no_leak_stmt (sw_exit sw_loop sw_cond : bool) : Prop :=
  forall p present h st reps, prog_wf p = true ->
    run_mem (emit_mem sw_exit sw_loop sw_cond p) present h = HDone st reps ->
    live_blocks st = [] /\ reps = [].

Definition free_once_stmt (sw_exit sw_loop sw_cond : bool) : Prop :=
  forall p present h st reps, prog_wf p = true ->
    run_mem (emit_mem sw_exit sw_loop sw_cond p) present h = HDone st reps ->
    forall b, count_occ Nat.eq_dec (frees st) b = if Nat.ltb b (nxt st) then 1 else 0.

(* the third switch (does lower_inst honour statement.condition) is free: with either shape the
   emitted operations keep the protocol *)
Lemma invariant_holds sw_exit sw_loop sw_cond :
  sw_exit = true -> sw_loop = true -> invariant_stmt sw_exit sw_loop sw_cond.
Proof. intros -> -> p present h W. exact (invariant_fixed p W sw_cond present h). Qed.

Lemma no_leak_holds sw_exit sw_loop sw_cond :
  sw_exit = true -> sw_loop = true -> no_leak_stmt sw_exit sw_loop sw_cond.
Proof. intros -> -> p present h st reps W. exact (no_leak_fixed p W sw_cond present h st reps). Qed.

Lemma free_once_holds sw_exit sw_loop sw_cond :
  sw_exit = true -> sw_loop = true -> free_once_stmt sw_exit sw_loop sw_cond.
Proof. intros -> -> p present h st reps W. exact (free_once_fixed p W sw_cond present h st reps). Qed.

(* ------------------------------------------------------------------ Part E: witnesses
   (the structured trees the real generator produced for the programs of corpus/C12/*.json;
    variable and statement numbering as harness/c12.py assigns it) *)

(* tmp <- f(0, <state>y); if <t> > 0: fail_step; <state>y <- tmp        0 = <state>y, 1 = tmp *)
Definition wit_early_exit : prog :=
  mkProg [0] [0] 0 [mkPhase 0 0 [1] (NBlock [
    NStmt (mkStmt 0 None (KAlloc []) [] [] true);
    NBlock [NStmt (mkStmt 1 None (KAlloc []) [] [] true); NStmt (mkStmt 2 None (KAlloc [1]) [0] [0; 1] true)];
    NIfT (GAtom 0) (NStmt (mkStmt 3 None (KExit XFail) [] [] false));
    NStmt (mkStmt 4 None (KMove 0 1) [1] [0; 1] true)])].

(* tmp <- f(0, <state>y); if <t> > 0: <state>y <- tmp   (last use under a guard that is false) *)
Definition wit_guarded_last_use : prog :=
  mkProg [0] [0] 0 [mkPhase 0 0 [1] (NBlock [
    NStmt (mkStmt 0 None (KAlloc []) [] [] true);
    NBlock [NStmt (mkStmt 1 None (KAlloc []) [] [] true); NStmt (mkStmt 2 None (KAlloc [1]) [0] [0; 1] true)];
    NIfT (GAtom 0) (NStmt (mkStmt 3 None (KMove 0 1) [1] [0; 1] true))])].

(* tmp <- f(0,<state>y); <state>y <- tmp; t2 <- f(0,<state>y); yield t2
   0 = <ret_state>y, 1 = <state>y, 2 = t2, 3 = tmp: YieldState emits no last-use deinit *)
Definition wit_yield_local : prog :=
  mkProg [0; 1] [1] 0 [mkPhase 0 0 [2; 3] (NBlock [
    NBlock [NStmt (mkStmt 0 None (KAlloc []) [] [] true); NStmt (mkStmt 1 None (KAlloc [3]) [1] [1; 3] true)];
    NStmt (mkStmt 2 None (KMove 1 3) [3] [1; 3] true);
    NBlock [NStmt (mkStmt 3 None (KAlloc []) [] [] true); NStmt (mkStmt 4 None (KAlloc [2]) [1] [1; 2] true)];
    NStmt (mkStmt 5 None (KMove 0 2) [2] [2] false)])].

(* x <- f(0, <state>y); <state>y <- f(0, x) for i in [0,3)     0 = <state>y, 1 = tmp_1, 2 = x:
   the last statement that mentions x is inside the loop body *)
Definition wit_loop : prog :=
  mkProg [0] [0] 0 [mkPhase 0 0 [1; 2] (NBlock [
    NBlock [NStmt (mkStmt 0 None (KAlloc []) [] [] true); NStmt (mkStmt 1 None (KAlloc [2]) [0] [0; 2] true)];
    NFor 3 (NBlock [
      NStmt (mkStmt 2 None (KAlloc []) [] [] true);
      NBlock [NStmt (mkStmt 3 None (KAlloc [1]) [2] [1; 2] true); NStmt (mkStmt 4 None (KMove 0 1) [1] [1; 0] true)]])])].

(* u0 <- <state>z; <state>z <- u0 for i in [0,3); <state>z <- f(0, <state>z)
   0 = <state>z, 1 = temp__state_z, 2 = u0: the move inside the loop is the last mention of u0 *)
Definition wit_loop_move : prog :=
  mkProg [0] [0] 0 [mkPhase 0 0 [1; 2] (NBlock [
    NStmt (mkStmt 0 None (KMove 2 0) [0] [0; 2] true);
    NFor 3 (NStmt (mkStmt 1 None (KMove 0 2) [2] [0; 2] true));
    NBlock [NStmt (mkStmt 2 None (KMove 1 0) [0] [0; 1] true);
            NBlock [NStmt (mkStmt 3 None (KAlloc []) [] [] true); NStmt (mkStmt 4 None (KAlloc [0]) [1] [0; 1] true)]]])].

Definition vT : valn := fun _ => valuation [0].   (* the guard flag holds, in every trip *)
Definition vF : valn := fun _ => valuation [].

(* unrepaired exit label: a failed step leaks the temporary ... *)
Lemma no_leak_refuted sw_loop sw_cond : ~ no_leak_stmt false sw_loop sw_cond.
Proof.
  intros H.
  destruct (run_mem (emit_mem false sw_loop sw_cond wit_early_exit) [0] [vF; vT; vT]) as [st reps|st|f st] eqn:E.
  - specialize (H wit_early_exit [0] [vF; vT; vT] st reps eq_refl E).
    destruct sw_loop, sw_cond; vm_compute in E; injection E as <- <-; destruct H as [H _]; vm_compute in H;
      discriminate.
  - destruct sw_loop, sw_cond; vm_compute in E; discriminate.
  - destruct sw_loop, sw_cond; vm_compute in E; discriminate.
Qed.

(* ... the numbers the model predicts for the four witnesses (blocks live after shutdown) *)
Example leak_early_exit :
  snd (fst (observe (run_mem (emit_mem false false true wit_early_exit) [0] [vF; vT; vT]))) = 2.
Proof. vm_compute. reflexivity. Qed.
Example leak_guarded_last_use :
  snd (fst (observe (run_mem (emit_mem false false true wit_guarded_last_use) [0] [vF; vF; vT]))) = 2.
Proof. vm_compute. reflexivity. Qed.
Example leak_yield_local :
  snd (fst (observe (run_mem (emit_mem false false true wit_yield_local) [1] [vF; vF; vF]))) = 3.
Proof. vm_compute. reflexivity. Qed.

(* unrepaired last-use deinit inside a loop body: the second trip reads a nullified pointer *)
Lemma invariant_refuted sw_exit sw_cond : ~ invariant_stmt sw_exit false sw_cond.
Proof.
  intros H. specialize (H wit_loop [0] [vF] eq_refl). cbn zeta in H. destruct H as [H _].
  destruct sw_exit, sw_cond;
    (destruct (H (UseNull 2) _ ltac:(vm_compute; reflexivity)) as [x Hx]; discriminate).
Qed.

(* the same defect seen through a move: the second trip moves from the nullified u0 (the real
   program then increments through u0's stale counter pointer: heap-use-after-free under ASan) *)
Example loop_move_faults :
  exists st, run_mem (emit_mem false false true wit_loop_move) [0] [vF] = HFault (UseNull 2) st.
Proof. eexists. vm_compute. reflexivity. Qed.
Example loop_move_fixed :
  exists st, prog_wf wit_loop_move = true /\
             run_mem (emit_mem true true true wit_loop_move) [0] [vF] = HDone st [] /\ live_blocks st = [].
Proof. eexists. vm_compute. auto. Qed.

(* every allocated block is released once: false as soon as one is never released *)
Lemma free_once_refuted sw_loop sw_cond : ~ free_once_stmt false sw_loop sw_cond.
Proof.
  intros H.
  destruct (run_mem (emit_mem false sw_loop sw_cond wit_early_exit) [0] [vF; vT; vT]) as [st reps|st|f st] eqn:E.
  - specialize (H wit_early_exit [0] [vF; vT; vT] st reps eq_refl E 2).
    destruct sw_loop, sw_cond; vm_compute in E; injection E as <- <-; vm_compute in H; discriminate.
  - destruct sw_loop, sw_cond; vm_compute in E; discriminate.
  - destruct sw_loop, sw_cond; vm_compute in E; discriminate.
Qed.

(* ------------------------------------------------------------------ non-vacuity: the witnesses are
   well-formed programs, and with the repaired shapes they run to completion, leak nothing and
   release each of their blocks once *)
Example wf_witnesses :
  prog_wf wit_early_exit = true /\ prog_wf wit_guarded_last_use = true /\
  prog_wf wit_yield_local = true /\ prog_wf wit_loop = true.
Proof. vm_compute. auto. Qed.

Example fixed_early_exit :
  exists st, run_mem (emit_mem true true true wit_early_exit) [0] [vF; vT; vT] = HDone st [] /\
             live_blocks st = [] /\ nxt st = 4 /\ length (frees st) = 4.
Proof. eexists. vm_compute. auto. Qed.

Example fixed_loop :
  exists st, run_mem (emit_mem true true true wit_loop) [0] [vF; vF] = HDone st [] /\
             live_blocks st = [] /\ nxt st = 9 /\ length (frees st) = 9.
Proof. eexists. vm_compute. auto. Qed.

Example fixed_yield_local :
  exists st, run_mem (emit_mem true true true wit_yield_local) [1] [vF; vF; vF] = HDone st [] /\
             live_blocks st = [].
Proof. eexists. vm_compute. auto. Qed.

(* ------------------------------------------------------------------ statements that carry a condition
   of their own (corpus/C12/cond_expr_in_loop.json, guarded_loop_last_use.json) *)

(* k <- f(0, <state>y); w <- f(0, k if i > 1 else 2*k) for i in [0,4); <state>y <- w
   0 = <state>y, 1 = ifthenelse_result, 2 = k, 3 = tmp_1, 4 = tmp_2, 5 = w; flag 0 = `i > 1`, assigned
   in every trip.  Statements 4 and 5 are what expand_IfThenElse makes of the conditional expression;
   5 is the last statement that mentions k. *)
Definition wit_cond_loop : prog :=
  mkProg [0] [0] 0 [mkPhase 0 0 [1; 2; 3; 4; 5] (NBlock [
    NBlock [NStmt (mkStmt 0 None (KAlloc []) [] [] true); NStmt (mkStmt 1 None (KAlloc [2]) [0] [0; 2] true)];
    NFor 4 (NBlock [
      NStmt (mkStmt 2 None (KAlloc []) [] [] true);
      NBlock [NStmt (mkStmt 3 None (KAlloc []) [] [] true);
              NStmt (mkStmt 4 (Some (GAnd GTrue (GAtom 0))) (KMove 1 2) [2] [1; 2] true);
              NStmt (mkStmt 5 (Some (GAnd GTrue (GNot (GAtom 0)))) (KAlloc [1]) [2] [1; 2] true);
              NStmt (mkStmt 6 None (KMove 3 1) [1] [1; 3] true)];
      NBlock [NStmt (mkStmt 7 None (KAlloc [4]) [3] [3; 4] true);
              NStmt (mkStmt 8 None (KMove 5 4) [4] [4; 5] true)]]);
    NStmt (mkStmt 9 None (KMove 0 5) [5] [0; 5] true)])].

(* x <- f(0, <state>y); if <t> > 0: (<state>y <- f(0, x) for i in [0,3))      0 = <state>y, 1 = tmp_1,
   2 = x; the tree is ForLoop(IfThen ...): the last mention of x is inside an `if` inside the loop *)
Definition wit_guarded_loop : prog :=
  mkProg [0] [0] 0 [mkPhase 0 0 [1; 2] (NBlock [
    NStmt (mkStmt 0 None (KAlloc []) [] [] true);
    NBlock [NStmt (mkStmt 1 None (KAlloc []) [] [] true); NStmt (mkStmt 2 None (KAlloc [2]) [0] [0; 2] true)];
    NFor 3 (NIfT (GAtom 0) (NBlock [
      NStmt (mkStmt 3 None (KAlloc []) [] [] true);
      NBlock [NStmt (mkStmt 4 None (KAlloc [1]) [2] [1; 2] true);
              NStmt (mkStmt 5 None (KMove 0 1) [1] [0; 1] true)]]))])].

(* flag 0 holds in the trips with counter > 1 (a valuation that depends on the trip) *)
Definition v_i_gt_1 : valn :=
  fun ctx => match ctx with i :: _ => valuation (if Nat.ltb 1 i then [0] else []) | [] => valuation [] end.

Example wf_cond_witnesses : prog_wf wit_cond_loop = true /\ prog_wf wit_guarded_loop = true.
Proof. vm_compute. auto. Qed.

(* the tree as it is: both programs complete, leak nothing, release each block once *)
Example fixed_cond_loop :
  exists st, run_mem (emit_mem true true true wit_cond_loop) [0] [v_i_gt_1; v_i_gt_1] = HDone st [] /\
             live_blocks st = [] /\ length (frees st) = nxt st /\ nxt st = 15.
Proof. eexists. vm_compute. auto. Qed.

Example fixed_guarded_loop :
  exists st, run_mem (emit_mem true true true wit_guarded_loop) [0] [vF; vT] = HDone st [] /\
             live_blocks st = [] /\ length (frees st) = nxt st.
Proof. eexists. vm_compute. auto. Qed.

(* the last-use release emitted inside the loop (the shape that the seeded change C12_b re-creates for
   these two programs): the release of k sits inside the `if` of statement 5, runs in trip 0, and trip 1
   reads the nullified k; same for x under the guard *)
Example cond_loop_unrepaired_faults :
  exists st, run_mem (emit_mem true false true wit_cond_loop) [0] [v_i_gt_1] = HFault (UseNull 2) st.
Proof. eexists. vm_compute. reflexivity. Qed.

Example guarded_loop_unrepaired_faults :
  exists st, run_mem (emit_mem true false true wit_guarded_loop) [0] [vT] = HFault (UseNull 2) st.
Proof. eexists. vm_compute. reflexivity. Qed.

(* ... and that release really is conditional: when the flag holds in every trip, statement 5 never
   runs, nothing is released inside the loop and even that shape completes (k goes at the exit label) *)
Example cond_stmt_release_is_conditional :
  exists st, run_mem (emit_mem true false true wit_cond_loop) [0] [vT] = HDone st [] /\ live_blocks st = [].
Proof. eexists. vm_compute. auto. Qed.

(* lower_inst ignoring statement.condition (trees before 9d87c11): both statements run in every trip;
   the protocol is kept all the same (the value computed is wrong, which is C03's business) *)
Example cond_ignored_still_safe :
  exists st, run_mem (emit_mem true true false wit_cond_loop) [0] [v_i_gt_1] = HDone st [] /\
             live_blocks st = [] /\ length (frees st) = nxt st.
Proof. eexists. vm_compute. auto. Qed.

(* a source program that reads a variable it never assigned is reported as the SOURCE's fault *)
Example src_undefined_is_classified :
  exists st, run_mem (emit_mem true true true wit_early_exit) [] [vF] = HFault (SrcUndefined 0) st.
Proof. eexists. vm_compute. reflexivity. Qed.
