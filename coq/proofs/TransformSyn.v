(* C07 proofs: definition before use.  In the statements a pass derives from one leaf, a name of
   a set G (instantiated with the generated names) is read only if it was defined before the leaf
   (D) or written by an earlier statement of the same list.  Purely syntactic; needs no side
   condition on where calls / conditional expressions occur. *)
From Coq Require Import List ZArith NArith String Ascii Bool Arith Lia.
Import ListNotations.
From Dagrt Require Import Lang LangProofs Sched Transform TransformSem TransformSide TransformBasics TransformHoist
     TransformSpec.

(* the variables a statement reads: its guard and every expression of its kind *)
Definition rvars (n : tstmt) : list var := vars (tcond n) ++ flat_map vars (kexprs (tkd n)).
Definition wrs (ns : list tstmt) : list var := flat_map swr ns.

Definition dbuD (G D : list var) (ns : list tstmt) : Prop :=
  forall pre n post, ns = pre ++ n :: post -> forall x, In x (rvars n) -> In x G -> In x (D ++ wrs pre).

Lemma wrs_app a b : wrs (a ++ b) = wrs a ++ wrs b.
Proof. unfold wrs. apply flat_map_app. Qed.

Lemma split_mid {A} (l1 l2 pre : list A) n post :
  l1 ++ l2 = pre ++ n :: post ->
  (exists post1, l1 = pre ++ n :: post1 /\ post = post1 ++ l2) \/
  (exists pre2, pre = l1 ++ pre2 /\ l2 = pre2 ++ n :: post).
Proof.
  revert pre. induction l1 as [|x l1 IH]; intros pre H.
  - right. exists pre. auto.
  - destruct pre as [|y pre]; cbn in H; inversion H; subst.
    + left. exists l1. auto.
    + destruct (IH pre H2) as [(p1 & -> & ->)|(p2 & -> & ->)].
      * left. exists p1. auto.
      * right. exists p2. auto.
Qed.

Lemma dbuD_nil G D : dbuD G D [].
Proof. intros pre n post H. destruct pre; discriminate. Qed.

Lemma dbuD_app G D ns1 ns2 : dbuD G D ns1 -> dbuD G (D ++ wrs ns1) ns2 -> dbuD G D (ns1 ++ ns2).
Proof.
  intros D1 D2 pre n post E x Hx Hg. apply split_mid in E. destruct E as [(p1 & -> & ->)|(p2 & -> & ->)].
  - eapply D1; eauto.
  - specialize (D2 p2 n post eq_refl x Hx Hg). rewrite wrs_app. rewrite !in_app_iff in *. tauto.
Qed.

Lemma dbuD_one G D n : (forall x, In x (rvars n) -> In x G -> In x D) -> dbuD G D [n].
Proof.
  intros H pre n0 post E x Hx Hg. destruct pre as [|? [|? ?]]; cbn in E; inversion E; subst.
  cbn. rewrite app_nil_r. now apply H.
Qed.

Lemma dbuD_mono G D D' ns : incl D D' -> dbuD G D ns -> dbuD G D' ns.
Proof.
  intros Hi H pre n post E x Hx Hg. specialize (H pre n post E x Hx Hg). rewrite in_app_iff in *.
  destruct H; auto.
Qed.

Lemma lift_left (G D E : list var) (P : var -> Prop) :
  (forall x, P x -> In x G -> In x D) -> forall x, P x -> In x G -> In x (D ++ E).
Proof. intros H x Hx Hg. apply in_app_iff. left. now apply H. Qed.

(* what the statements emitted for expression a guarantee *)
Definition wsynG (cond a a' : expr) (ns : list tstmt) : Prop :=
  forall G D,
    (forall x, In x (vars a) -> In x G -> In x D) -> (forall x, In x (vars cond) -> In x G -> In x D) ->
    dbuD G D ns /\ (forall x, In x (vars a') -> In x G -> In x (D ++ wrs ns)).

Definition yspec (cond a : expr) (m : MW expr) : Prop :=
  forall st a' ns xs st', m st = TOk (a', ns, xs, st') -> wsynG cond a a' ns.

Lemma wsynG_id cond a : wsynG cond a a [].
Proof. intros G D Ha Hc. split; [apply dbuD_nil|]. intros x Hx Hg. rewrite app_nil_r. now apply Ha. Qed.

Lemma cid_yspec cond a m : cid a m -> yspec cond a m.
Proof. intros H st a' ns xs st' E. rewrite H in E. inversion E; subst. apply wsynG_id. Qed.

(* a sequence of closures, each handling some expression of the list A *)
Lemma seqw_y cond (A : list expr) ms :
  Forall (fun m => exists a, In a A /\ yspec cond a m) ms ->
  forall st l' ns xs st', seqw ms st = TOk (l', ns, xs, st') ->
  forall G D,
    (forall x, In x (flat_map vars A) -> In x G -> In x D) -> (forall x, In x (vars cond) -> In x G -> In x D) ->
    dbuD G D ns /\ (forall x, In x (flat_map vars l') -> In x G -> In x (D ++ wrs ns)).
Proof.
  induction 1 as [|m ms (a & Ha & Hm) _ IH]; intros st l' ns xs st' E G D HA Hc.
  - apply retw_inv in E. destruct E as (-> & -> & -> & ->). split; [apply dbuD_nil|intros x []].
  - apply seqw_cons_inv in E. destruct E as (a' & ns1 & xs1 & st1 & r' & ns2 & xs2 & E1 & E2 & -> & -> & ->).
    assert (Hva : forall x, In x (vars a) -> In x G -> In x D).
    { intros x Hx. apply HA. apply in_flat_map. eauto. }
    destruct (Hm _ _ _ _ _ E1 G D Hva Hc) as [D1 R1].
    destruct (IH _ _ _ _ _ E2 G (D ++ wrs ns1)
                 (lift_left G D (wrs ns1) (fun x => In x (flat_map vars A)) HA)
                 (lift_left G D (wrs ns1) (fun x => In x (vars cond)) Hc)) as [D2 R2].
    split; [now apply dbuD_app|].
    intros x Hx Hg. cbn [flat_map] in Hx. rewrite wrs_app. rewrite !in_app_iff in *. destruct Hx as [Hx|Hx].
    + specialize (R1 x Hx Hg). rewrite in_app_iff in R1. tauto.
    + specialize (R2 x Hx Hg). rewrite !in_app_iff in R2. tauto.
Qed.

Lemma forall_map_y cond (f : expr -> MW expr) l :
  Forall (fun a => yspec cond a (f a)) l -> Forall (fun m => exists a, In a l /\ yspec cond a m) (map f l).
Proof.
  intros H. apply Forall_forall. intros m Hm. apply in_map_iff in Hm. destruct Hm as (a & <- & Ha).
  rewrite Forall_forall in H. eauto.
Qed.

(* node lemmas *)
Lemma y_node1 cond a m (g : expr -> expr) (e : expr) :
  (forall x, In x (vars a) -> In x (vars e)) -> (forall a' x, In x (vars (g a')) -> In x (vars a')) ->
  yspec cond a m -> yspec cond e (bindw m (fun a' => retw (g a'))).
Proof.
  intros Hv Hg H st r ns xs st' E. apply bind_ret_inv in E. destruct E as (a' & E & ->).
  intros G D Ha Hc.
  destruct (H _ _ _ _ _ E G D (fun x Hx => Ha x (Hv x Hx)) Hc) as [D1 R1].
  split; [exact D1|]. intros x Hx. apply R1. now apply Hg.
Qed.

Lemma y_list cond e l ms (g : list expr -> expr) :
  (forall x, In x (flat_map vars l) -> In x (vars e)) ->
  (forall l' x, In x (vars (g l')) -> In x (flat_map vars l')) ->
  Forall (fun m => exists a, In a l /\ yspec cond a m) ms ->
  yspec cond e (bindw (seqw ms) (fun l' => retw (g l'))).
Proof.
  intros Hv Hg H st r ns xs st' E. apply bind_ret_inv in E. destruct E as (l' & E & ->).
  intros G D Ha Hc.
  destruct (seqw_y cond l ms H _ _ _ _ _ E G D (fun x Hx => Ha x (Hv x Hx)) Hc) as [D1 R1].
  split; [exact D1|]. intros x Hx. apply R1. now apply Hg.
Qed.

Lemma y_bin cond o a b m1 m2 :
  yspec cond a m1 -> yspec cond b m2 ->
  yspec cond (EBin o a b) (bindw m1 (fun a' => bindw m2 (fun b' => retw (EBin o a' b')))).
Proof.
  intros H1 H2 st r ns xs st' E.
  apply bindw_inv in E. destruct E as (a' & ns1 & xs1 & st1 & ns2 & xs2 & E1 & E2 & -> & ->).
  apply bind_ret_inv in E2. destruct E2 as (b' & E2 & ->).
  intros G D Ha Hc. cbn [vars] in Ha.
  assert (Ha1 : forall x, In x (vars a) -> In x G -> In x D) by (intros x Hx; apply Ha, in_app_iff; now left).
  assert (Ha2 : forall x, In x (vars b) -> In x G -> In x D) by (intros x Hx; apply Ha, in_app_iff; now right).
  destruct (H1 _ _ _ _ _ E1 G D Ha1 Hc) as [D1 R1].
  destruct (H2 _ _ _ _ _ E2 G (D ++ wrs ns1)
               (lift_left G D (wrs ns1) (fun x => In x (vars b)) Ha2)
               (lift_left G D (wrs ns1) (fun x => In x (vars cond)) Hc)) as [D2 R2].
  split; [now apply dbuD_app|].
  intros x Hx Hg. cbn [vars] in Hx. rewrite wrs_app. rewrite !in_app_iff in *. destruct Hx as [Hx|Hx].
  - specialize (R1 x Hx Hg). rewrite in_app_iff in R1. tauto.
  - specialize (R2 x Hx Hg). rewrite !in_app_iff in R2. tauto.
Qed.

Lemma y_if cond c t e mc mt me :
  yspec cond c mc -> yspec cond t mt -> yspec cond e me ->
  yspec cond (EIf c t e)
        (bindw mc (fun c' => bindw mt (fun t' => bindw me (fun e' => retw (EIf c' t' e'))))).
Proof.
  intros H1 H2 H3 st r ns xs st' E.
  apply bindw_inv in E. destruct E as (c' & ns1 & xs1 & st1 & ns2 & xs2 & E1 & E2 & -> & ->).
  apply bindw_inv in E2. destruct E2 as (t' & ns3 & xs3 & st3 & ns4 & xs4 & E2 & E3 & -> & ->).
  apply bind_ret_inv in E3. destruct E3 as (e' & E3 & ->).
  intros G D Ha Hc. cbn [vars] in Ha.
  assert (Ha1 : forall x, In x (vars c) -> In x G -> In x D) by (intros x Hx; apply Ha; rewrite !in_app_iff; tauto).
  assert (Ha2 : forall x, In x (vars t) -> In x G -> In x D) by (intros x Hx; apply Ha; rewrite !in_app_iff; tauto).
  assert (Ha3 : forall x, In x (vars e) -> In x G -> In x D) by (intros x Hx; apply Ha; rewrite !in_app_iff; tauto).
  destruct (H1 _ _ _ _ _ E1 G D Ha1 Hc) as [D1 R1].
  destruct (H2 _ _ _ _ _ E2 G (D ++ wrs ns1)
               (lift_left G D (wrs ns1) (fun x => In x (vars t)) Ha2)
               (lift_left G D (wrs ns1) (fun x => In x (vars cond)) Hc)) as [D2 R2].
  destruct (H3 _ _ _ _ _ E3 G ((D ++ wrs ns1) ++ wrs ns3)
               (lift_left G _ (wrs ns3) (fun x => In x (vars e))
                          (lift_left G D (wrs ns1) (fun x => In x (vars e)) Ha3))
               (lift_left G _ (wrs ns3) (fun x => In x (vars cond))
                          (lift_left G D (wrs ns1) (fun x => In x (vars cond)) Hc))) as [D3 R3].
  split.
  - apply dbuD_app; [exact D1|]. apply dbuD_app; [exact D2|exact D3].
  - intros x Hx Hg. cbn [vars] in Hx. rewrite !wrs_app. rewrite !in_app_iff in *. destruct Hx as [Hx|[Hx|Hx]].
    + specialize (R1 x Hx Hg). rewrite in_app_iff in R1. tauto.
    + specialize (R2 x Hx Hg). rewrite !in_app_iff in R2. tauto.
    + specialize (R3 x Hx Hg). rewrite !in_app_iff in R3. tauto.
Qed.
