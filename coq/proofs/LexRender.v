(* C19 -- the lexer returns exactly the token list of a rendered text when every token is
   followed by a character that does not merge with it; the printed form of an expression with
   lexable names is such a token list. *)
From Coq Require Import List ZArith NArith String Ascii Bool Arith Lia.
Import ListNotations.
From Dagrt Require Import GenC19 Print Parse RoundTrip NormProofs LexTokens.
Open Scope list_scope.
Open Scope nat_scope.

(* first character of render ts ++ s, where c is the first character of s *)
Fixpoint nextc (ts : list token) (c : option ascii) : option ascii :=
  match ts with
  | [] => c
  | t :: r => match tok_str t with String d _ => Some d | EmptyString => nextc r c end
  end.

Fixpoint lexok (ts : list token) (c : option ascii) : bool :=
  match ts with
  | [] => true
  | t :: r => tok_ok t (nextc r c) && lexok r c
  end.

Lemma first_char_render ts s : first_char (render ts ++ s)%string = nextc ts (first_char s).
Proof.
  induction ts as [|t r IH]; [reflexivity|].
  cbn [render nextc]. rewrite append_assoc. destruct (tok_str t); [exact IH | reflexivity].
Qed.

Lemma lex_go_nil k : lex_go k "" = Ok [].
Proof. destruct k; reflexivity. Qed.

Lemma length_append (a b : string) : String.length (a ++ b)%string = String.length a + String.length b.
Proof. induction a; cbn; congruence. Qed.

Lemma tok_ok_nonempty t c : tok_ok t c = true -> exists d r, tok_str t = String d r.
Proof.
  intros H. destruct t; try (cbn; eauto; fail).
  - destruct (int_text n) as (d & ds & -> & _). eauto.
  - cbn [tok_ok] in H. apply andb_true_iff in H as [H _]. cbn [tok_str].
    destruct s; [discriminate|eauto].
  - destruct c0; cbn; eauto.
Qed.

Theorem lex_render : forall ts,
  lexok ts None = true -> forall k, String.length (render ts) <= k -> lex_go k (render ts) = Ok ts.
Proof.
  induction ts as [|t r IH]; intros H k Hk; [apply lex_go_nil|].
  cbn [lexok] in H. apply andb_true_iff in H as [Ht Hr].
  destruct (tok_ok_nonempty t _ Ht) as (d & r0 & Et).
  cbn [render] in *. rewrite length_append in Hk.
  pose proof (lex_step_tok t (render r)) as Hs.
  assert (Hf : first_char (render r) = nextc r None).
  { pose proof (first_char_render r "") as Hx. replace (render r ++ "")%string with (render r) in Hx; [exact Hx|].
    clear. induction (render r); cbn; congruence. }
  rewrite Hf in Hs. specialize (Hs Ht).
  destruct k as [|f]; [rewrite Et in Hk; cbn in Hk; lia|].
  rewrite Et in *. cbn [append] in *. cbn [lex_go]. rewrite Hs.
  rewrite IH; [reflexivity | exact Hr | cbn [String.length] in Hk; lia].
Qed.

Corollary lex_render_ok ts : lexok ts None = true -> lex (render ts) = Ok ts.
Proof. intros H. apply lex_render; [exact H | apply Nat.le_refl]. Qed.

(* ------------------------------------------------------------------ composing token lists *)

Lemma nextc_app a b c : nextc (a ++ b) c = nextc a (nextc b c).
Proof.
  induction a as [|t r IH]; [reflexivity|]. cbn [app nextc]. destruct (tok_str t); [exact IH|reflexivity].
Qed.

Lemma lexok_app a b c : lexok (a ++ b) c = lexok a (nextc b c) && lexok b c.
Proof.
  induction a as [|t r IH]; [reflexivity|]. cbn [app lexok]. rewrite IH, nextc_app, andb_assoc. reflexivity.
Qed.

(* a character after which no expression-final token merges *)
Definition safe (c : option ascii) : bool :=
  match c with
  | None => true
  | Some d => Ascii.eqb d " " || Ascii.eqb d ")" || Ascii.eqb d "]" || Ascii.eqb d "," || Ascii.eqb d "*"
              || Ascii.eqb d "(" || Ascii.eqb d "["
  end.

(* a character an expression can start with, as seen from the token before it *)
Definition startc (c : option ascii) : bool :=
  match c with
  | None => false
  | Some d => negb (is_ws d) && negb (Ascii.eqb d "=") && negb (Ascii.eqb d "*") && negb (Ascii.eqb d "/")
  end.

Lemma safe_cases c : safe c = true ->
  c = None \/ c = Some " "%char \/ c = Some ")"%char \/ c = Some "]"%char \/ c = Some ","%char
  \/ c = Some "*"%char \/ c = Some "("%char \/ c = Some "["%char.
Proof.
  destruct c as [d|]; [|auto]. cbn [safe]. intros H.
  repeat (apply orb_true_iff in H as [H|H]); apply Ascii.eqb_eq in H; subst; auto 10.
Qed.

Ltac safe_all H := apply safe_cases in H;
  destruct H as [->|[->|[->|[->|[->|[->|[->| ->]]]]]]].

Lemma id_ok_safe x c : is_ident x = true -> safe c = true -> tok_ok (TId x) c = true.
Proof. intros Hx Hc. cbn [tok_ok]. rewrite Hx. safe_all Hc; reflexivity. Qed.
Lemma int_ok_safe n c : safe c = true -> tok_ok (TInt n) c = true.
Proof. intros Hc. safe_all Hc; reflexivity. Qed.
Lemma gt_ok_safe c : safe c = true -> tok_ok (TCmp CGt) c = true.
Proof. intros Hc. safe_all Hc; reflexivity. Qed.

Lemma id_start_startc d : is_id_start d = true -> startc (Some d) = true.
Proof. intros H. all_chars d; try (vm_compute in H; discriminate H); reflexivity. Qed.
Lemma digit_startc d : is_digit d = true -> startc (Some d) = true.
Proof. intros H. all_chars d; try (vm_compute in H; discriminate H); reflexivity. Qed.
Lemma id_start_not_lt_eq d :
  is_id_start d = true -> (Ascii.eqb d "<" || Ascii.eqb d "=") = false /\ (Ascii.eqb d ">" || Ascii.eqb d "=") = false.
Proof. intros H. all_chars d; try (vm_compute in H; discriminate H); split; reflexivity. Qed.

Lemma ident_first x : is_ident x = true -> exists d r, x = String d r /\ is_id_start d = true.
Proof.
  unfold is_ident. intros H. repeat (apply andb_true_iff in H as [H _]).
  destruct x as [|d r]; [discriminate|]. apply andb_true_iff in H as [H _]. eauto.
Qed.

(* what the induction carries for a printed sub-expression *)
Definition Good (ts : list token) : Prop :=
  (forall c, safe c = true -> lexok ts c = true) /\ (forall c, startc (nextc ts c) = true).

Lemma good_paren ts : Good ts -> Good (paren ts).
Proof.
  intros [H1 H2]. unfold paren. split.
  - intros c Hc. cbn [lexok tok_ok andb]. rewrite lexok_app. cbn [nextc tok_str lexok tok_ok andb].
    rewrite (H1 (Some ")"%char) eq_refl). reflexivity.
  - intros c. reflexivity.
Qed.

Lemma good_paren_if b ts : Good ts -> Good (paren_if b ts).
Proof. destruct b; [apply good_paren | auto]. Qed.

(* A ++ " op " ++ B *)
Lemma good_sep3 A tok B :
  tok_ok tok (Some " "%char) = true -> (exists d r, tok_str tok = String d r /\ is_ws d = false) ->
  Good A -> Good B -> Good (A ++ [TSp; tok; TSp] ++ B).
Proof.
  intros Htok (d & r & Et & Hd) [A1 A2] [B1 B2]. split.
  - intros c Hc. rewrite lexok_app. cbn [app nextc tok_str]. rewrite (A1 (Some " "%char) eq_refl).
    cbn [lexok andb nextc]. rewrite Et. cbn [tok_str tok_ok ocheck]. rewrite Hd. cbn [negb andb].
    rewrite Htok. cbn [andb]. specialize (B2 c). destruct (nextc B c) as [e|]; [|discriminate].
    cbn [startc] in B2. cbn [ocheck]. repeat (apply andb_true_iff in B2 as [B2 _]).
    rewrite B2. cbn [andb]. apply B1. exact Hc.
  - intros c. rewrite nextc_app. apply A2.
Qed.

(* A ++ op ++ B for * and ** *)
Lemma good_tight A tok B :
  (tok = TTimes \/ tok = TPow) -> Good A -> Good B -> Good (A ++ [tok] ++ B).
Proof.
  intros Htok [A1 A2] [B1 B2]. split.
  - intros c Hc. rewrite lexok_app. cbn [app].
    assert (Hn : nextc (tok :: B) c = Some "*"%char) by (destruct Htok as [-> | ->]; reflexivity).
    rewrite Hn, (A1 (Some "*"%char) eq_refl). cbn [lexok andb].
    specialize (B2 c). destruct (nextc B c) as [e|]; [|discriminate].
    cbn [startc] in B2. apply andb_true_iff in B2 as [B2 _]. apply andb_true_iff in B2 as [_ B2].
    destruct Htok as [-> | ->]; cbn [tok_ok ocheck]; rewrite ?B2; cbn [andb]; apply B1; exact Hc.
  - intros c. rewrite nextc_app. apply A2.
Qed.

(* join with a separator that starts with a safe character and tolerates a start character *)
Lemma good_join sep d0 l :
  (forall c, nextc sep c = Some d0) -> safe (Some d0) = true ->
  (forall c, startc c = true -> lexok sep c = true) ->
  l <> [] -> Forall Good l -> Good (join sep l).
Proof.
  intros Hn Hd0 Hsep Hne HF. induction l as [|x r IH]; [congruence|].
  inversion HF as [|? ? [X1 X2] HF']; subst.
  destruct r as [|y r]; [split; assumption|].
  change (join sep (x :: y :: r)) with (x ++ sep ++ join sep (y :: r)).
  destruct (IH ltac:(discriminate) HF') as [J1 J2]. split.
  - intros c Hc. rewrite !lexok_app, nextc_app, Hn, (X1 _ Hd0), (Hsep _ (J2 c)), (J1 c Hc). reflexivity.
  - intros c. rewrite nextc_app. apply X2.
Qed.

(* ------------------------------------------------------------------ printed expressions *)

Lemma good_var x : wf_name x = true -> Good (var_toks x).
Proof.
  unfold wf_name, var_toks. destruct x as [|c x]; [discriminate|].
  destruct (Ascii.eqb c "<") eqn:E.
  - destruct (split_gt x) as [[t u]|]; [|discriminate]. intros H. apply andb_true_iff in H as [Ht Hu].
    destruct (ident_first t Ht) as (dt & rt & -> & Hdt).
    destruct (id_start_not_lt_eq dt Hdt) as [Hlt Hgt].
    destruct u as [|du ru].
    + split.
      * intros c0 Hc. cbn [lexok nextc tok_str cmp_str]. rewrite (gt_ok_safe c0 Hc).
        cbn [tok_ok ocheck]. rewrite Hlt, Ht. reflexivity.
      * intros c0. reflexivity.
    + destruct (ident_first _ Hu) as (d2 & r2 & E2 & Hd2). injection E2 as <- <-.
      destruct (id_start_not_lt_eq du Hd2) as [_ Hgt2].
      split.
      * intros c0 Hc. cbn [lexok nextc tok_str cmp_str]. rewrite (id_ok_safe _ c0 Hu Hc).
        cbn [tok_ok ocheck]. rewrite Hlt, Ht, Hgt2. reflexivity.
      * intros c0. reflexivity.
  - intros H. destruct (ident_first _ H) as (d & r & E2 & Hd). injection E2 as <- <-. split.
    + intros c0 Hc. cbn [lexok andb nextc]. rewrite (id_ok_safe _ c0 H Hc). reflexivity.
    + intros c0. cbn [nextc tok_str]. apply id_start_startc. exact Hd.
Qed.

Lemma good_int z q : Good (print [TSp] q (EInt z)).
Proof.
  cbn [print]. destruct (z <? 0)%Z.
  - apply good_paren_if. split.
    + intros c Hc. cbn [lexok andb nextc]. rewrite (int_ok_safe (Z.to_N (- z)) c Hc). reflexivity.
    + intros c. reflexivity.
  - split.
    + intros c Hc. cbn [lexok andb nextc]. rewrite (int_ok_safe (Z.to_N z) c Hc). reflexivity.
    + intros c. cbn [nextc]. destruct (int_text (Z.to_N z)) as (d & ds & -> & Hd & _).
      apply digit_startc. exact Hd.
Qed.

Lemma comma_sep :
  (forall c, nextc [TComma; TSp] c = Some ","%char) /\ safe (Some ","%char) = true
  /\ (forall c, startc c = true -> lexok [TComma; TSp] c = true).
Proof.
  repeat split. intros c Hc. cbn [lexok nextc tok_str tok_ok ocheck andb].
  destruct c as [d|]; [|discriminate]. cbn [startc] in Hc. repeat (apply andb_true_iff in Hc as [Hc _]).
  cbn [ocheck]. rewrite Hc. reflexivity.
Qed.

Lemma good_not X : Good X -> Good (TNot :: [TSp] ++ X).
Proof.
  intros [X1 X2]. split.
  - intros c Hc. cbn [app lexok nextc tok_str tok_ok ocheck andb]. specialize (X2 c).
    destruct (nextc X c) as [d|]; [|discriminate]. cbn [startc] in X2.
    repeat (apply andb_true_iff in X2 as [X2 _]). cbn [ocheck]. rewrite X2. cbn [andb]. apply X1. exact Hc.
  - intros c. reflexivity.
Qed.

Lemma good_kwitem k X : is_ident k = true -> Good X -> Good (TId k :: TAssign :: X).
Proof.
  intros Hk [X1 X2]. split.
  - intros c Hc. cbn [lexok nextc tok_str tok_ok ocheck]. rewrite Hk. cbn [andb].
    specialize (X2 c). destruct (nextc X c) as [d|]; [|discriminate]. cbn [startc] in X2.
    apply andb_true_iff in X2 as [X2 _]. apply andb_true_iff in X2 as [X2 _]. apply andb_true_iff in X2 as [_ X2].
    cbn [ocheck]. rewrite X2. cbn [andb]. apply X1. exact Hc.
  - intros c. cbn [nextc tok_str]. destruct (ident_first k Hk) as (d & r & -> & Hd).
    apply id_start_startc. exact Hd.
Qed.

Lemma good_call F items :
  Good F -> Forall Good items -> Good (F ++ [TLPar] ++ join (TComma :: [TSp]) items ++ [TRPar]).
Proof.
  intros [F1 F2] HI. split.
  - intros c Hc. rewrite lexok_app. cbn [app nextc tok_str]. rewrite (F1 (Some "("%char) eq_refl).
    cbn [lexok tok_ok andb]. destruct items as [|x r]; [reflexivity|].
    destruct comma_sep as (Hn & Hs & Hl).
    destruct (good_join _ _ (x :: r) Hn Hs Hl ltac:(discriminate) HI) as [J1 _].
    rewrite lexok_app. cbn [nextc tok_str lexok tok_ok andb]. rewrite (J1 (Some ")"%char) eq_refl). reflexivity.
  - intros c. rewrite nextc_app. apply F2.
Qed.

Lemma good_sub A I : Good A -> Good I -> Good (A ++ [TLBrk] ++ I ++ [TRBrk]).
Proof.
  intros [A1 A2] [I1 I2]. split.
  - intros c Hc. rewrite lexok_app. cbn [app nextc tok_str]. rewrite (A1 (Some "["%char) eq_refl).
    cbn [lexok tok_ok andb]. rewrite lexok_app. cbn [nextc tok_str lexok tok_ok andb].
    rewrite (I1 (Some "]"%char) eq_refl). reflexivity.
  - intros c. rewrite nextc_app. apply A2.
Qed.

Lemma times_sep :
  (forall c, nextc [TTimes] c = Some "*"%char) /\ safe (Some "*"%char) = true
  /\ (forall c, startc c = true -> lexok [TTimes] c = true).
Proof.
  repeat split. intros c Hc. cbn [lexok nextc tok_ok andb]. destruct c as [d|]; [|discriminate].
  cbn [startc] in Hc. apply andb_true_iff in Hc as [Hc _]. apply andb_true_iff in Hc as [_ Hc].
  cbn [ocheck]. rewrite Hc. reflexivity.
Qed.

Lemma sp3_sep tok :
  tok_ok tok (Some " "%char) = true -> (exists d r, tok_str tok = String d r /\ is_ws d = false) ->
  (forall c, nextc [TSp; tok; TSp] c = Some " "%char) /\ safe (Some " "%char) = true
  /\ (forall c, startc c = true -> lexok [TSp; tok; TSp] c = true).
Proof.
  intros Htok (d & r & Et & Hd). repeat split. intros c Hc.
  cbn [lexok nextc tok_str]. rewrite Et. cbn [tok_ok ocheck]. rewrite Hd, Htok. cbn [negb andb].
  destruct c as [e|]; [|discriminate]. cbn [startc] in Hc. repeat (apply andb_true_iff in Hc as [Hc _]).
  cbn [ocheck]. rewrite Hc. reflexivity.
Qed.

Lemma okc_wf c : wf_expr c && negb (is_tuple c) = true -> wf_expr c = true.
Proof. intros H. apply andb_true_iff in H. tauto. Qed.

Definition PG (e : expr) : Prop :=
  wf_names e = true -> wf_expr e = true -> forall q, Good (print [TSp] q e).

Lemma good_list l :
  Forall PG l -> forallb wf_names l = true ->
  forallb (fun c => wf_expr c && negb (is_tuple c)) l = true ->
  forall q, Forall Good (map (print [TSp] q) l).
Proof.
  intros HF Hn Hw q. apply Forall_forall. intros ts Hts. apply in_map_iff in Hts as (e & <- & Hin).
  rewrite Forall_forall in HF. rewrite forallb_forall in Hn, Hw.
  apply HF; auto. apply okc_wf. auto.
Qed.

Theorem good_print : forall e, PG e.
Proof.
  induction e using expr_ind2; intros Hn Hw q.
  - apply good_int.
  - cbn [print]. destruct b; (split; [intros c Hc; reflexivity | intros c; reflexivity]).
  - cbn [print]. apply good_var. exact Hn.
  - (* ENary *)
    cbn [print]. apply good_paren_if. cbn [wf_names] in Hn. cbn [wf_expr] in Hw.
    apply andb_true_iff in Hw as [Hlen Hw].
    assert (Hne : map (fun c => match o with
                               | NProd => paren_if (is_qfr c) (print [TSp] PR_PRODUCT c)
                               | _ => print [TSp] (nary_prec o) c end) l <> []).
    { destruct l; [discriminate|discriminate]. }
    assert (HG : Forall Good (map (fun c => match o with
                               | NProd => paren_if (is_qfr c) (print [TSp] PR_PRODUCT c)
                               | _ => print [TSp] (nary_prec o) c end) l)).
    { apply Forall_forall. intros ts Hts. apply in_map_iff in Hts as (e & <- & Hin).
      rewrite Forall_forall in H. rewrite forallb_forall in Hn, Hw.
      assert (He : forall q', Good (print [TSp] q' e)) by (intros q'; apply H; auto; apply okc_wf; auto).
      destruct o; try apply He. apply good_paren_if. apply He. }
    destruct o; cbn [nary_sep nary_tok app].
    + destruct (sp3_sep TPlus eq_refl) as (S1 & S2 & S3); [exists "+"%char, ""%string; split; reflexivity|].
      exact (good_join _ _ _ S1 S2 S3 Hne HG).
    + destruct times_sep as (S1 & S2 & S3). exact (good_join _ _ _ S1 S2 S3 Hne HG).
    + destruct (sp3_sep TAnd eq_refl) as (S1 & S2 & S3); [exists "a"%char, "nd"%string; split; reflexivity|].
      exact (good_join _ _ _ S1 S2 S3 Hne HG).
    + destruct (sp3_sep TOr eq_refl) as (S1 & S2 & S3); [exists "o"%char, "r"%string; split; reflexivity|].
      exact (good_join _ _ _ S1 S2 S3 Hne HG).
  - (* EBin *)
    cbn [print]. apply good_paren_if. cbn [wf_names] in Hn. apply andb_true_iff in Hn as [Hn1 Hn2].
    cbn [wf_expr] in Hw. apply andb_true_iff in Hw as [Hw _]. apply andb_true_iff in Hw as [Hw _].
    apply andb_true_iff in Hw as [Hw1 Hw2].
    pose proof (fun q' => IHe1 Hn1 Hw1 q') as G1. pose proof (fun q' => IHe2 Hn2 Hw2 q') as G2.
    destruct o; cbn [bin_sep bin_tok bin_prec app].
    + apply (good_sep3 _ TOver); [reflexivity | exists "/"%char, ""%string; split; reflexivity
                                  | apply good_paren_if; apply G1 | apply good_paren_if; apply G2].
    + apply (good_sep3 _ TFloorDiv); [reflexivity | exists "/"%char, "/"%string; split; reflexivity
                                  | apply good_paren_if; apply G1 | apply good_paren_if; apply G2].
    + apply (good_sep3 _ TMod); [reflexivity | exists "%"%char, ""%string; split; reflexivity
                                  | apply good_paren_if; apply G1 | apply good_paren_if; apply G2].
    + apply (good_tight _ TPow); [right; reflexivity | apply G1 | apply G2].
    + apply (good_sep3 _ (TCmp c)); [destruct c; reflexivity
                                    | destruct c; eexists _, _; (split; [reflexivity|reflexivity])
                                    | apply G1 | apply G2].
  - (* ENot *)
    cbn [print]. apply good_paren_if. cbn [wf_names] in Hn. cbn [wf_expr] in Hw.
    apply andb_true_iff in Hw as [Hw _]. apply good_not. apply IHe; auto.
  - (* EIf *)
    cbn [print]. apply good_paren_if. cbn [wf_names] in Hn. apply andb_true_iff in Hn as [Hn Hn3].
    apply andb_true_iff in Hn as [Hn1 Hn2].
    cbn [wf_expr] in Hw. do 3 (apply andb_true_iff in Hw as [Hw _]). apply andb_true_iff in Hw as [Hw Hw3].
    apply andb_true_iff in Hw as [Hw1 Hw2].
    change (print [TSp] PR_LOGICAL_OR e2 ++ [TSp] ++ [TIf] ++ [TSp] ++ print [TSp] PR_LOGICAL_OR e1
            ++ [TSp] ++ [TElse] ++ [TSp] ++ print [TSp] PR_LOGICAL_OR e3)
      with (print [TSp] PR_LOGICAL_OR e2 ++ [TSp; TIf; TSp]
            ++ (print [TSp] PR_LOGICAL_OR e1 ++ [TSp; TElse; TSp] ++ print [TSp] PR_LOGICAL_OR e3)).
    apply (good_sep3 _ TIf); [reflexivity | exists "i"%char, "f"%string; split; reflexivity | apply IHe2; auto |].
    apply (good_sep3 _ TElse); [reflexivity | exists "e"%char, "lse"%string; split; reflexivity
                                | apply IHe1; auto | apply IHe3; auto].
  - (* ECall *)
    cbn [print]. cbn [wf_names] in Hn. apply andb_true_iff in Hn as [Hn Hnk]. apply andb_true_iff in Hn as [Hnf Hna].
    cbn [wf_expr] in Hw. apply andb_true_iff in Hw as [Hw _]. apply andb_true_iff in Hw as [Hw Hwk].
    apply andb_true_iff in Hw as [Hw Hwa]. apply andb_true_iff in Hw as [Hwf _].
    apply good_call; [apply IHe; auto|].
    apply Forall_app. split; [apply good_list; auto|].
    apply Forall_forall. intros ts Hts. apply in_map_iff in Hts as (kv & <- & Hin).
    rewrite Forall_forall in H0. rewrite forallb_forall in Hnk, Hwk.
    specialize (Hnk kv Hin). apply andb_true_iff in Hnk as [Hk Hv].
    apply good_kwitem; [exact Hk|]. apply H0; auto. apply okc_wf. auto.
  - (* ESub *)
    cbn [print]. apply good_paren_if. cbn [wf_names] in Hn. apply andb_true_iff in Hn as [Hn1 Hn2].
    cbn [wf_expr] in Hw. apply andb_true_iff in Hw as [Hw Hwi]. apply andb_true_iff in Hw as [Hw1 _].
    apply good_sub; [apply IHe1; auto|].
    destruct (is_tuple e2) eqn:Ht.
    + destruct e2; try discriminate. apply andb_true_iff in Hwi as [Hlen Hwl].
      destruct comma_sep as (S1 & S2 & S3).
      apply (good_join _ _ _ S1 S2 S3); [destruct l; discriminate|].
      apply good_list; auto.
    + assert (Hwe : wf_expr e2 = true) by (destruct e2; try exact Hwi; discriminate).
      replace (match e2 with ETuple l => join (TComma :: [TSp]) (map (print [TSp] PR_NONE) l)
                        | _ => print [TSp] PR_NONE e2 end) with (print [TSp] PR_NONE e2)
        by (destruct e2; try reflexivity; discriminate).
      apply IHe2; auto.
  - discriminate.
Qed.

(* ------------------------------------------------------------------ on the text *)

Theorem lex_print e :
  wf_names e = true -> wf_expr e = true -> lex (print_string e) = Ok (print [TSp] PR_NONE e).
Proof.
  intros Hn Hw. unfold print_string. apply lex_render_ok.
  destruct (good_print e Hn Hw PR_NONE) as [G _]. apply G. reflexivity.
Qed.
