(* Proofs about coq/model/WrapEmit.v (C20, emission sites).

   Both generators put a whitespace prefix P in front of every line that wrap_line
   returns (Fortran: line_ind = level*indentation; Python: the two emitters' indentation),
   and len(P) = len(level*indentation) is exactly the indentation_len that wrap_line_base
   subtracts from the width.  Part 1 proves width and token preservation for such
   prefixed lines, reusing the layout/render lemmas of WrapProofs.v; part 2 and 3
   instantiate it for Fortran get_code and Python _emit.                          *)
From Coq Require Import List String Ascii ZArith Bool Lia ZifyBool Arith.
Import ListNotations.
From Dagrt Require Import Wrap WrapProofs WrapEmit.
Open Scope Z_scope.

(* ------------------------------------------------------------------ *)
(* small list facts                                                     *)

Lemma Forall2_map2 {A B C D} (f : A -> C) (g : B -> D) (R : C -> D -> Prop) l1 l2 :
  Forall2 (fun a b => R (f a) (g b)) l1 l2 -> Forall2 R (map f l1) (map g l2).
Proof. induction 1; simpl; constructor; auto. Qed.

Lemma Forall2_join {A B C} (R1 : A -> B -> Prop) (R2 : A -> C -> Prop) l xs ys :
  Forall2 R1 l xs -> Forall2 R2 l ys -> Forall2 (fun x y => exists a, R1 a x /\ R2 a y) xs ys.
Proof.
  intros H; revert ys. induction H as [|a x l xs Hax _ IH]; intros ys H2; inversion H2; subst.
  - constructor.
  - constructor; eauto.
Qed.

Lemma Forall2_weaken {A B} (R1 R2 : A -> B -> Prop) l1 l2 :
  (forall a b, R1 a b -> R2 a b) -> Forall2 R1 l1 l2 -> Forall2 R2 l1 l2.
Proof. intros H; induction 1; constructor; auto. Qed.

Lemma all_ws_repeat n : all_ws (repeat sp n).
Proof. unfold all_ws. induction n; simpl; constructor; auto. Qed.

Lemma times_length {A} (n : nat) (l : list A) : List.length (times n l) = (n * List.length l)%nat.
Proof.
  unfold times. induction n as [|n IH]; [reflexivity|].
  cbn [repeat List.concat]. rewrite app_length, IH. simpl. reflexivity.
Qed.

Lemma all_ws_times n (l : str) : all_ws l -> all_ws (times n l).
Proof.
  intros H. unfold times. induction n as [|n IH]; [constructor|].
  cbn [repeat List.concat]. apply all_ws_app; assumption.
Qed.

(* ------------------------------------------------------------------ *)
(* line.lstrip(" ")                                                     *)

Lemma lstrip_len s : (List.length (lstrip_sp s) <= List.length s)%nat.
Proof.
  induction s as [|c r IH]; simpl; [lia|]. destruct (Ascii.eqb c sp); simpl; lia.
Qed.

Lemma leading_cons_sp r : leading_sp (sp :: r) = S (leading_sp r).
Proof.
  unfold leading_sp. cbn [lstrip_sp]. rewrite Ascii.eqb_refl.
  pose proof (lstrip_len r). simpl List.length. lia.
Qed.

Lemma leading_cons_other c r : Ascii.eqb c sp = false -> leading_sp (c :: r) = O.
Proof. intros H. unfold leading_sp. cbn [lstrip_sp]. rewrite H. lia. Qed.

Lemma leading_split s : s = repeat sp (leading_sp s) ++ lstrip_sp s.
Proof.
  induction s as [|c r IH]; [reflexivity|].
  destruct (Ascii.eqb c sp) eqn:E.
  - apply Ascii.eqb_eq in E. subst c. rewrite leading_cons_sp.
    cbn [lstrip_sp]. rewrite Ascii.eqb_refl. simpl. f_equal. exact IH.
  - rewrite (leading_cons_other c r E). cbn [lstrip_sp]. rewrite E. reflexivity.
Qed.

Lemma skipn_leading s : skipn (leading_sp s) s = lstrip_sp s.
Proof.
  induction s as [|c r IH]; [reflexivity|].
  destruct (Ascii.eqb c sp) eqn:E.
  - apply Ascii.eqb_eq in E. subst c. rewrite leading_cons_sp.
    cbn [lstrip_sp skipn]. rewrite Ascii.eqb_refl. exact IH.
  - rewrite (leading_cons_other c r E). cbn [lstrip_sp skipn]. rewrite E. reflexivity.
Qed.

Lemma lex_lstrip k s : lex_of k (lstrip_sp s) = lex_of k s.
Proof.
  rewrite (leading_split s) at 2. symmetry. apply lex_of_skip_ws. apply all_ws_repeat.
Qed.

(* ------------------------------------------------------------------ *)
(* Part 1: wrapped lines behind a whitespace prefix                     *)

Definition addp (P : str) (pg : str * list str) : str * list str := (P ++ fst pg, snd pg).

Lemma text_addp P pg : text (addp P pg) = P ++ text pg.
Proof. unfold text, addp. simpl. rewrite app_assoc. reflexivity. Qed.

Lemma map_addp_snd P l : map snd (map (addp P) l) = map snd l.
Proof. rewrite map_map. reflexivity. Qed.

Lemma map_render P m ilen width l :
  map (app P) (render m ilen width l) = render m (ilen - slen P) width (map (addp P) l).
Proof.
  induction l as [|pg r IH]; [reflexivity|].
  destruct r as [|pg2 r'].
  - simpl. rewrite text_addp. reflexivity.
  - change (render m ilen width (pg :: pg2 :: r'))
      with (pad_with m (text pg) (width - ilen) :: render m ilen width (pg2 :: r')).
    change (map (addp P) (pg :: pg2 :: r')) with (addp P pg :: addp P pg2 :: map (addp P) r').
    change (render m (ilen - slen P) width (addp P pg :: addp P pg2 :: map (addp P) r'))
      with (pad_with m (text (addp P pg)) (width - (ilen - slen P))
              :: render m (ilen - slen P) width (addp P pg2 :: map (addp P) r')).
    cbn [map]. f_equal; [|exact IH].
    unfold pad_with. rewrite text_addp, <- app_assoc.
    replace (width - (ilen - slen P) - 1 - slen (P ++ text pg))
      with (width - ilen - 1 - slen (text pg)) by (rewrite slen_app; lia).
    reflexivity.
Qed.

Section Each.
  Variable k : lexkind.

  (* the tokenizer reads, on every physical line (marker removed), the group laid out on it *)
  Lemma lex_each_render0 ilen width : forall l, Forall (good_line (tok_of k)) l ->
    Forall2 (fun pg u => lex_of k u = LexOk (snd pg)) l (render0 ilen width l).
  Proof.
    induction l as [|pg r IH]; intros H; [constructor|].
    inversion H as [|? ? (Hw & Hne & Hg) Hr]; subst.
    destruct r as [|pg2 r'].
    - simpl. constructor; [|constructor]. unfold text. rewrite lex_of_skip_ws by assumption.
      apply (relex (lex_of k) (tok_of k)); auto using lex_of_skip_ws, lex_of_nil, lex_of_tok_sep, lex_of_tok_end.
    - change (render0 ilen width (pg :: pg2 :: r')) with
        ((text pg ++ spaces (width - ilen - 1 - slen (text pg))) :: render0 ilen width (pg2 :: r')).
      constructor; [|apply IH; exact Hr].
      unfold text. rewrite <- app_assoc, lex_of_skip_ws by assumption.
      apply (lex_join_end (lex_of k) (tok_of k));
        auto using lex_of_skip_ws, lex_of_nil, lex_of_tok_sep, lex_of_tok_end, all_ws_spaces.
  Qed.
End Each.

Lemma good_addp tokok P pg : all_ws P -> good_line tokok pg -> good_line tokok (addp P pg).
Proof.
  intros HP (A & B & C). unfold good_line, addp. simpl. repeat split; auto. apply all_ws_app; auto.
Qed.

(* "holds more than one token -> fits": u is the physical line with its marker removed *)
Definition fits_width (k : lexkind) (width : Z) (u l : str) : Prop :=
  forall g, lex_of k u = LexOk g -> (2 <= List.length g)%nat -> slen l <= width.

Definition prefixed (m : ascii) (ind : str) (level : nat) (width : Z) (P : str) (ts : list str) : list str :=
  map (app P) (wrap_tokens (pad_with m) ind level width ts).

Section Prefixed.
  Variables (k : lexkind) (m : ascii) (ind : str) (level : nat) (width : Z) (P : str).
  Hypothesis P_ws : all_ws P.
  Hypothesis P_len : slen P = slen (times level ind).
  Hypothesis ind_ws : all_ws ind.

  Notation lay' ts := (map (addp P) (layout_of ind level width ts)).

  Lemma prefixed_render ts : prefixed m ind level width P ts = render m 0 width (lay' ts).
  Proof.
    unfold prefixed. rewrite wrap_tokens_render, map_render.
    replace (slen (times level ind) - slen P) with 0 by lia. reflexivity.
  Qed.

  Lemma prefixed_unmark ts : unmark (prefixed m ind level width P ts) = render0 0 width (lay' ts).
  Proof. rewrite prefixed_render. apply unmark_render. Qed.

  Lemma lay'_good ts : Forall (tok_of k) ts -> ts <> [] -> Forall (good_line (tok_of k)) (lay' ts).
  Proof.
    intros ts_ok Hne. apply Forall_forall. intros pg' Hin.
    apply in_map_iff in Hin. destruct Hin as (pg & E & Hin). subst pg'.
    apply good_addp; [assumption|].
    pose proof (layout_good (tok_of k) ind level width ind_ws ts Hne ts_ok) as G.
    rewrite Forall_forall in G. apply G. exact Hin.
  Qed.

  (* every physical line on which the tokenizer finds two or more tokens fits the width *)
  Lemma prefixed_width ts : Forall (tok_of k) ts ->
    Forall2 (fits_width k width) (unmark (prefixed m ind level width P ts)) (prefixed m ind level width P ts).
  Proof.
    intros ts_ok. destruct ts as [|w r] eqn:Et.
    - (* no token: one line, the prefix *)
      unfold prefixed. simpl. constructor; [|constructor].
      intros g Hg Hlen. rewrite app_nil_r in Hg.
      rewrite <- (app_nil_r P), lex_of_skip_ws, lex_of_nil in Hg by assumption.
      inversion Hg; subst g. simpl in Hlen. lia.
    - rewrite <- Et in *. assert (Hne : ts <> []) by (rewrite Et; congruence).
      rewrite prefixed_unmark.
      pose proof (lex_each_render0 k 0 width (lay' ts) (lay'_good ts ts_ok Hne)) as A.
      assert (B : Forall2 (fun (pg' : str * list str) l =>
                             (2 <= List.length (snd pg'))%nat -> slen l <= width)
                          (lay' ts) (prefixed m ind level width P ts)).
      { unfold prefixed. apply Forall2_map2.
        eapply Forall2_weaken; [|apply (wrap_width m ind level width ts)].
        intros pg l H H2. simpl in H2. specialize (H H2). rewrite slen_app. lia. }
      eapply Forall2_weaken; [|exact (Forall2_join _ _ _ _ _ A B)].
      intros u l (pg' & Hu & Hl) g Hg Hlen. apply Hl.
      rewrite Hu in Hg. inversion Hg; subst g. exact Hlen.
  Qed.

  (* joining the physical lines (markers removed) and tokenizing gives the tokens back *)
  Lemma prefixed_tokens ts : Forall (tok_of k) ts -> ind <> [] ->
    lex_of k (joined (prefixed m ind level width P ts)) = LexOk ts.
  Proof.
    intros ts_ok Hind. unfold joined. rewrite prefixed_unmark.
    destruct ts as [|w r] eqn:Et.
    - simpl. unfold text. simpl. rewrite !app_nil_r.
      rewrite <- (app_nil_r P), lex_of_skip_ws by assumption. apply lex_of_nil.
    - rewrite <- Et in *. assert (Hne : ts <> []) by (rewrite Et; congruence).
      rewrite (lex_joined_render0 (lex_of k) (tok_of k));
        auto using lex_of_skip_ws, lex_of_nil, lex_of_tok_sep, lex_of_tok_end.
      + rewrite map_addp_snd. unfold layout_of. rewrite Et.
        rewrite layout_concat. reflexivity.
      + unfold layout_of. rewrite Et.
        pose proof (layout_nonnil ind (slen (times level ind)) width [] [w] r) as N.
        destruct (layout ind (slen (times level ind)) width [] [w] r); [congruence|simpl; congruence].
      + apply lay'_good; assumption.
      + pose proof (layout_tl_prefix ind level width ts Hind) as T.
        destruct (layout_of ind level width ts) as [|pg0 rest]; [constructor|]. simpl in *.
        apply Forall_forall. intros pg' Hin. apply in_map_iff in Hin.
        destruct Hin as (pg & E & Hin). subst pg'. rewrite Forall_forall in T.
        specialize (T pg Hin). unfold addp. simpl. intros C. apply app_eq_nil in C. tauto.
  Qed.

  (* line by line *)
  Lemma prefixed_tokens_lines ts : Forall (tok_of k) ts ->
    lex_all (lex_of k) (unmark (prefixed m ind level width P ts)) = LexOk ts.
  Proof.
    intros ts_ok. rewrite prefixed_unmark.
    destruct ts as [|w r] eqn:Et.
    - simpl. unfold text. simpl. rewrite !app_nil_r.
      rewrite <- (app_nil_r P), lex_of_skip_ws, lex_of_nil by assumption. reflexivity.
    - rewrite <- Et in *. assert (Hne : ts <> []) by (rewrite Et; congruence).
      rewrite (lex_all_render0 (lex_of k) (tok_of k));
        auto using lex_of_skip_ws, lex_of_nil, lex_of_tok_sep, lex_of_tok_end, lay'_good.
      rewrite map_addp_snd. unfold layout_of. rewrite Et.
      rewrite layout_concat. reflexivity.
  Qed.
End Prefixed.

(* ------------------------------------------------------------------ *)
(* Part 2: Fortran get_code                                             *)

Lemma comment_line_rest cmt line : starts_with cmt (skipn (leading_sp line) line) = comment_line cmt line.
Proof. unfold comment_line. rewrite skipn_leading. reflexivity. Qed.

(* comment lines, and only they, are passed through unchanged and unwrapped *)
Theorem fortran_emit_comment k m cmt n width line :
  n <> O -> comment_line cmt line = true ->
  fortran_emit_line k m cmt n width line = EmitOk [line].
Proof.
  intros Hn Hc. unfold fortran_emit_line. destruct n; [congruence|].
  rewrite comment_line_rest, Hc. reflexivity.
Qed.

(* every other line goes through wrap_line: the output is the wrapped lines behind line_ind *)
Lemma fortran_emit_wrapped k m cmt n width line outs :
  fortran_emit_line k m cmt n width line = EmitOk outs -> comment_line cmt line = false ->
  n <> O /\
  exists ts, lex_of k line = LexOk ts /\
    outs = prefixed m (repeat sp n) (Nat.div (leading_sp line) n) width
                    (times (Nat.div (leading_sp line) n) (repeat sp n)) ts.
Proof.
  intros H Hc. unfold fortran_emit_line in H. destruct n as [|n']; [discriminate|].
  split; [congruence|].
  rewrite comment_line_rest, Hc in H. unfold wrap_line_base in H.
  rewrite skipn_leading, lex_lstrip in H.
  destruct (lex_of k line) as [ts|]; [|discriminate].
  exists ts. split; [reflexivity|]. inversion H. reflexivity.
Qed.

Theorem fortran_emit_width k m cmt n width line outs :
  fortran_emit_line k m cmt n width line = EmitOk outs -> comment_line cmt line = false ->
  Forall2 (fits_width k width) (unmark outs) outs.
Proof.
  intros H Hc. destruct (fortran_emit_wrapped _ _ _ _ _ _ _ H Hc) as (Hn & ts & Hl & ->).
  apply prefixed_width.
  - apply all_ws_times, all_ws_repeat.
  - reflexivity.
  - apply all_ws_repeat.
  - eapply lex_of_sound; eassumption.
Qed.

Theorem fortran_emit_tokens k m cmt n width line outs :
  fortran_emit_line k m cmt n width line = EmitOk outs -> comment_line cmt line = false ->
  lex_of k (joined outs) = lex_of k line.
Proof.
  intros H Hc. destruct (fortran_emit_wrapped _ _ _ _ _ _ _ H Hc) as (Hn & ts & Hl & ->).
  rewrite Hl. apply prefixed_tokens.
  - apply all_ws_times, all_ws_repeat.
  - reflexivity.
  - apply all_ws_repeat.
  - eapply lex_of_sound; eassumption.
  - destruct n; [congruence|discriminate].
Qed.

(* the only exception of a line is the tokenizer's ValueError (indent_spaces is positive) *)
Theorem fortran_emit_error k m cmt n width line :
  n <> O ->
  (fortran_emit_line k m cmt n width line = EmitValueError <->
   comment_line cmt line = false /\ lex_of k line = LexValueError) /\
  fortran_emit_line k m cmt n width line <> EmitZeroDivisionError /\
  fortran_emit_line k m cmt n width line <> EmitNewline.
Proof.
  intros Hn. unfold fortran_emit_line. destruct n as [|n']; [congruence|].
  rewrite comment_line_rest. unfold wrap_line_base. rewrite skipn_leading, lex_lstrip.
  destruct (comment_line cmt line); [repeat split; try congruence; intros (A & _); congruence|].
  destruct (lex_of k line); repeat split; try congruence; intros (_ & A); congruence.
Qed.

(* the whole module text *)
Lemma emit_all_groups f : forall code text,
  emit_all f code = EmitOk text ->
  exists groups, text = List.concat groups /\ Forall2 (fun line g => f line = EmitOk g) code groups.
Proof.
  induction code as [|l r IH]; intros text H; simpl in H.
  - inversion H. exists []. split; [reflexivity|constructor].
  - destruct (f l) as [a| | |] eqn:E; try discriminate.
    destruct (emit_all f r) as [b| | |] eqn:E2; try discriminate.
    inversion H; subst text. destruct (IH b eq_refl) as (gs & Eb & F).
    exists (a :: gs). split; [simpl; congruence|constructor; assumption].
Qed.

(* what one source line of the module contributes to the text *)
Definition fortran_line_ok (k : lexkind) (cmt : ascii) (width : Z) (line : str) (g : list str) : Prop :=
  (comment_line cmt line = true /\ g = [line]) \/
  (comment_line cmt line = false /\
   lex_of k (joined g) = lex_of k line /\
   Forall2 (fits_width k width) (unmark g) g).

Theorem fortran_get_code_ok k m cmt n width code text :
  fortran_get_code k m cmt n width code = EmitOk text ->
  exists groups, text = List.concat groups /\
                 Forall2 (fortran_line_ok k cmt width) code groups.
Proof.
  intros H. destruct (emit_all_groups _ _ _ H) as (gs & E & F).
  exists gs. split; [exact E|].
  eapply Forall2_weaken; [|exact F]. intros line g Hg. cbv beta in Hg. unfold fortran_line_ok.
  destruct (comment_line cmt line) eqn:Hc.
  - left. split; [reflexivity|].
    assert (Hn : n <> O) by (intros ->; discriminate).
    rewrite (fortran_emit_comment k m cmt n width line Hn Hc) in Hg. inversion Hg. reflexivity.
  - right. split; [reflexivity|]. split.
    + eapply fortran_emit_tokens; eassumption.
    + eapply fortran_emit_width; eassumption.
Qed.

(* a statement followed by a trailing comment is no comment line: it is wrapped as one
   statement and the continuation marker lands inside the comment (finding trailing-comment) *)
Definition wit_trailing : str :=
  Str "    integer :: n_steps_between_outputs ! the number of steps between two outputs, a trailing comment that is long".

Theorem fortran_trailing_comment_refuted k :
  comment_line "!" wit_trailing = false /\
  exists outs, fortran_emit_line k "&" "!" 1 80 wit_trailing = EmitOk outs /\
               (2 <= List.length outs)%nat /\ continuation_lost "!" outs = true.
Proof.
  split; [reflexivity|].
  destruct k as [|e]; [|destruct e]; eexists; (split; [vm_compute; reflexivity|split; [simpl; lia|reflexivity]]).
Qed.

(* ------------------------------------------------------------------ *)
(* Part 3: Python _emit                                                 *)

(* hypothesis on the line: no token consists only of characters that str.strip() removes
   (the tokenizer splits at blank, tab, CR, LF only; VT, FF, FS, GS, RS, US, NEL, NBSP are
   ordinary characters for it, and a line made of them is replaced by "" by the emitter) *)
Definition no_blank_token (ts : list str) : Prop := Forall (fun t => forallb is_pyspace t = false) ts.

Lemma forallb_app_false_l {A} (f : A -> bool) a b : forallb f a = false -> forallb f (a ++ b) = false.
Proof. intros H. rewrite forallb_app, H. reflexivity. Qed.

Lemma forallb_app_false_r {A} (f : A -> bool) a b : forallb f b = false -> forallb f (a ++ b) = false.
Proof. intros H. rewrite forallb_app, H. apply andb_false_r. Qed.

Lemma join_sp_not_blank g : g <> [] -> no_blank_token g -> forallb is_pyspace (join_sp g) = false.
Proof.
  intros Hne H. destruct g as [|t r]; [congruence|]. inversion H; subst.
  simpl. apply forallb_app_false_l. assumption.
Qed.

Lemma render_head m ilen width : forall l w, In w (render m ilen width l) ->
  exists pg rest, In pg l /\ w = text pg ++ rest.
Proof.
  induction l as [|pg r IH]; intros w Hin; [contradiction|].
  destruct r as [|pg2 r'].
  - simpl in Hin. destruct Hin as [<-|[]]. exists pg, []. split; [left; reflexivity|].
    rewrite app_nil_r. reflexivity.
  - change (render m ilen width (pg :: pg2 :: r'))
      with (pad_with m (text pg) (width - ilen) :: render m ilen width (pg2 :: r')) in Hin.
    destruct Hin as [<-|Hin].
    + exists pg. eexists. split; [left; reflexivity|]. unfold pad_with. reflexivity.
    + destruct (IH w Hin) as (pg' & rest & Hp & E). exists pg', rest. split; [right; exact Hp|exact E].
Qed.

Lemma wrapped_not_blank m ind level width ts w :
  ts <> [] -> no_blank_token ts ->
  In w (wrap_tokens (pad_with m) ind level width ts) -> forallb is_pyspace w = false.
Proof.
  intros Hne Hnb Hin. rewrite wrap_tokens_render in Hin.
  destruct (render_head _ _ _ _ _ Hin) as (pg & rest & Hpg & ->).
  destruct (wrap_atomic m ind level width ts Hne) as (_ & Hc & Hg & _).
  rewrite Forall_forall in Hg. specialize (Hg pg Hpg).
  assert (Hsub : no_blank_token (snd pg)).
  { unfold no_blank_token in *. rewrite Forall_forall in *. intros t Ht. apply Hnb.
    rewrite <- Hc. apply in_concat. exists (snd pg). split; [apply in_map; exact Hpg|exact Ht]. }
  apply forallb_app_false_l. unfold text. apply forallb_app_false_r.
  apply join_sp_not_blank; assumption.
Qed.

Lemma emitter_call_not_blank amount level s :
  forallb is_pyspace s = false -> emitter_call amount level s = repeat sp (amount * level) ++ s.
Proof. intros H. unfold emitter_call. rewrite H. reflexivity. Qed.

(* The line without tokens is emitted as "" (both emitters), not as the bare prefix: treat it
   apart.  For a line with tokens no wrapped line is blank, so both emitters prepend their
   indentation. *)
Lemma python_emit_empty k m amount ind width cl el line :
  lex_of k line = LexOk [] ->
  python_emit k m amount ind width cl el line = EmitOk [[]].
Proof. intros Hl. unfold python_emit, wrap_line_base. rewrite Hl. reflexivity. Qed.

Lemma python_emit_wrapped k m amount ind width cl el line outs ts :
  python_emit k m amount ind width cl el line = EmitOk outs ->
  lex_of k line = LexOk ts -> ts <> [] -> no_blank_token ts ->
  outs = prefixed m ind (cl + el) width (repeat sp (amount * cl) ++ repeat sp (amount * el)) ts.
Proof.
  intros H Hl Hne Hnb. unfold python_emit, wrap_line_base in H. rewrite Hl in H.
  destruct (existsb _ _); [discriminate|]. inversion H; subst outs. unfold prefixed.
  apply map_ext_in. intros w Hin.
  pose proof (wrapped_not_blank m ind (cl + el) width ts w Hne Hnb Hin) as Hw.
  rewrite (emitter_call_not_blank amount el w Hw).
  rewrite emitter_call_not_blank by (apply forallb_app_false_r; exact Hw).
  rewrite app_assoc. reflexivity.
Qed.

Lemma python_prefix_len amount (ind : str) cl el :
  List.length ind = amount ->
  slen (repeat sp (amount * cl) ++ repeat sp (amount * el)) = slen (times (cl + el) ind).
Proof.
  intros H. unfold slen. rewrite app_length, !repeat_length, times_length, H. lia.
Qed.

Theorem python_emit_width k m amount ind width cl el line outs ts :
  List.length ind = amount -> forallb is_ws ind = true ->
  python_emit k m amount ind width cl el line = EmitOk outs ->
  lex_of k line = LexOk ts -> no_blank_token ts ->
  Forall2 (fits_width k width) (unmark outs) outs.
Proof.
  intros Ha Hind H Hl Hnb. destruct ts as [|t r] eqn:Et.
  - rewrite (python_emit_empty _ _ _ _ _ _ _ _ Hl) in H. inversion H; subst outs.
    simpl. constructor; [|constructor]. intros g Hg Hlen. rewrite lex_of_nil in Hg.
    inversion Hg; subst g. simpl in Hlen. lia.
  - rewrite <- Et in *. assert (Hne : ts <> []) by (rewrite Et; congruence).
    rewrite (python_emit_wrapped _ _ _ _ _ _ _ _ _ _ H Hl Hne Hnb).
    apply prefixed_width.
    + apply all_ws_app; apply all_ws_repeat.
    + apply python_prefix_len; assumption.
    + apply forallb_all_ws; assumption.
    + eapply lex_of_sound; eassumption.
Qed.

Theorem python_emit_tokens k m amount ind width cl el line outs ts :
  List.length ind = amount -> ws_indent ind = true ->
  python_emit k m amount ind width cl el line = EmitOk outs ->
  lex_of k line = LexOk ts -> no_blank_token ts ->
  lex_of k (joined outs) = LexOk ts.
Proof.
  intros Ha Hind H Hl Hnb. apply ws_indent_spec in Hind. destruct Hind as [Hws Hine].
  destruct ts as [|t r] eqn:Et.
  - rewrite (python_emit_empty _ _ _ _ _ _ _ _ Hl) in H. inversion H; subst outs.
    unfold joined. simpl. apply lex_of_nil.
  - rewrite <- Et in *. assert (Hne : ts <> []) by (rewrite Et; congruence).
    rewrite (python_emit_wrapped _ _ _ _ _ _ _ _ _ _ H Hl Hne Hnb).
    apply prefixed_tokens; auto.
    + apply all_ws_app; apply all_ws_repeat.
    + apply python_prefix_len; assumption.
    + eapply lex_of_sound; eassumption.
Qed.

(* both, with the side conditions on the generator's constants first (discharged by computation
   on the values of gen/GenC20.v in props/C20.v) *)
Theorem python_emit_ok k m amount ind width :
  List.length ind = amount -> ws_indent ind = true ->
  forall cl el line outs ts,
  python_emit k m amount ind width cl el line = EmitOk outs ->
  lex_of k line = LexOk ts -> no_blank_token ts ->
  Forall2 (fits_width k width) (unmark outs) outs /\ lex_of k (joined outs) = LexOk ts.
Proof.
  intros Ha Hind cl el line outs ts H Hl Hnb. split.
  - eapply python_emit_width; eauto.
    unfold ws_indent in Hind. apply andb_true_iff in Hind. tauto.
  - eapply python_emit_tokens; eauto.
Qed.

(* the only exception is the tokenizer's ValueError *)
Theorem python_emit_error k m amount ind width cl el line :
  (python_emit k m amount ind width cl el line = EmitValueError <-> lex_of k line = LexValueError) /\
  python_emit k m amount ind width cl el line <> EmitZeroDivisionError.
Proof.
  unfold python_emit, wrap_line_base. destruct (lex_of k line).
  - destruct (existsb _ _); repeat split; congruence.
  - repeat split; congruence.
Qed.

(* without the hypothesis on the tokens the Python emitter loses a token: a line made of a
   vertical tab is one token for the tokenizer and a blank line for the emitter *)
Definition wit_vt : str := ["011"%char].

Lemma python_emit_blank_token_lost k m amount ind width cl el :
  lex_of k wit_vt = LexOk [wit_vt] /\
  python_emit k m amount ind width cl el wit_vt = EmitOk [[]].
Proof. destruct k as [|e]; [|destruct e]; split; reflexivity. Qed.

(* ------------------------------------------------------------------ *)
(* Examples: the hypotheses are met by non-trivial inputs               *)
Local Open Scope string_scope.

Definition ex_fline : str :=
  Str "        write(*,*) 'step rejected! halving the step size', dagrt_state%dagrt_dt, 'and more text here'".

Example ex_fortran_not_comment : comment_line "!"%char ex_fline = false.
Proof. reflexivity. Qed.

Example ex_fortran_emit :
  fortran_emit_line (LexQuoted false) "&"%char "!"%char 1 80 ex_fline =
  EmitOk (map Str ["        write(*,*) 'step rejected! halving the step size',                     &";
                   "         dagrt_state%dagrt_dt, 'and more text here'"]).
Proof. vm_compute. reflexivity. Qed.

Example ex_fortran_comment :
  fortran_emit_line (LexQuoted false) "&"%char "!"%char 1 80 (Str "    ! a comment, however long, is not a statement") =
  EmitOk [Str "    ! a comment, however long, is not a statement"].
Proof. reflexivity. Qed.

Example ex_fortran_module :
  fortran_get_code (LexQuoted false) "&"%char "!"%char 1 20 (map Str ["module m"; "    ! c o m m e n t   l i n e"; "    x = 'a ! b' // y // z"]) =
  EmitOk (map Str ["module m"; "    ! c o m m e n t   l i n e"; "    x = 'a ! b' // &"; "     y // z"]).
Proof. vm_compute. reflexivity. Qed.

Definition ex_pline : str :=
  Str "yield self.StateComputed(t=self.t, time_id='final', component_id='a  b', state_component=self.global_state_y)".

Example ex_python_emit :
  python_emit (LexQuoted true) "\"%char 4 (Str "    ") 80 1 2 ex_pline =
  EmitOk (map Str ["            yield self.StateComputed(t=self.t, time_id='final',                \";
                   "                component_id='a  b', state_component=self.global_state_y)"]).
Proof. vm_compute. reflexivity. Qed.

Example ex_python_hyp : exists ts, lex_of (LexQuoted true) ex_pline = LexOk ts /\ no_blank_token ts /\ ts <> [].
Proof.
  eexists. split; [vm_compute; reflexivity|]. split; [|congruence].
  repeat constructor.
Qed.
