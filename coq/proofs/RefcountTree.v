(* C12 -- Part C: one phase function.  The invariant
     Inv S st  :=  refcount_inv U st  /\
                   every variable of the phase that the source has assigned and that is
                   unassociated is a local whose last mentioning statement is in S
   is carried through the emitted code of the tree, S being the ids of the statements
   textually before the current point (fixed inside loop bodies, where the repaired
   generator emits no last-use deinit). *)
From Coq Require Import List Arith Bool Lia ZifyBool.
Import ListNotations.
From Dagrt Require Import Refcount RefcountBase RefcountOps RefcountState.

(* ---- unfolding of the nested fixpoints of run_code ---- *)
Fixpoint run_list (v : valn) (ctx : list nat) (l : list code) (st : mstate) : outcome :=
  match l with
  | [] => ONormal st
  | c :: r => match run_code v c ctx st with
              | ONormal st' => run_list v ctx r st'
              | o => o
              end
  end.

(* k trips are left, the next one has index i *)
Fixpoint run_loop (v : valn) (ctx : list nat) (b : code) (k i : nat) (st : mstate) : outcome :=
  match k with
  | 0 => ONormal st
  | S k' => match run_code v b (i :: ctx) st with
            | ONormal st' => run_loop v ctx b k' (S i) st'
            | o => o
            end
  end.

Lemma run_code_block v ctx l st : run_code v (CBlock l) ctx st = run_list v ctx l st.
Proof.
  revert st. induction l as [|c r IH]; intros st; [reflexivity|].
  cbn. destruct (run_code v c ctx st); try reflexivity. apply IH.
Qed.

Lemma run_code_for v ctx b k st : run_code v (CFor k b) ctx st = run_loop v ctx b k 0 st.
Proof.
  cbn. generalize 0 as i. revert st. induction k as [|k IH]; intros st i; [reflexivity|].
  cbn. destruct (run_code v b (i :: ctx) st); try reflexivity. apply IH.
Qed.

Lemma run_list_ops v ctx l st : run_list v ctx (map COp l) st = run_ops l st.
Proof.
  revert st. induction l as [|o r IH]; intros st; [reflexivity|].
  cbn. destruct (run_op o st); try reflexivity. apply IH.
Qed.

Lemma run_code_ops v ctx l st : run_code v (CBlock (map COp l)) ctx st = run_ops l st.
Proof. rewrite run_code_block. apply run_list_ops. Qed.

Lemma run_ops_app l1 l2 st :
  run_ops (l1 ++ l2) st = match run_ops l1 st with ONormal st' => run_ops l2 st' | o => o end.
Proof.
  revert st. induction l1 as [|o r IH]; intros st; [reflexivity|].
  cbn. destruct (run_op o st); try reflexivity. apply IH.
Qed.

(* ---- induction principle for the nested tree ---- *)
Section NodeInd.
  Variable P : node -> Prop.
  Hypothesis Hs : forall s, P (NStmt s).
  Hypothesis Hb : forall l, Forall P l -> P (NBlock l).
  Hypothesis Ht : forall c t, P t -> P (NIfT c t).
  Hypothesis Hte : forall c t e, P t -> P e -> P (NIfTE c t e).
  Hypothesis Hf : forall k b, P b -> P (NFor k b).
  Fixpoint node_ind' (n : node) : P n :=
    match n with
    | NStmt s => Hs s
    | NBlock l => Hb l ((fix go (l : list node) : Forall P l :=
                          match l with
                          | [] => Forall_nil P
                          | x :: r => Forall_cons x (node_ind' x) (go r)
                          end) l)
    | NIfT c t => Ht c t (node_ind' t)
    | NIfTE c t e => Hte c t e (node_ind' t) (node_ind' e)
    | NFor k b => Hf k b (node_ind' b)
    end.
End NodeInd.

(* ---- the last-use table ---- *)
Lemma last_tbl_app l1 l2 x :
  last_tbl (l1 ++ l2) x = match last_tbl l2 x with Some i => Some i | None => last_tbl l1 x end.
Proof.
  induction l1 as [|s r IH]; cbn.
  - destruct (last_tbl l2 x); reflexivity.
  - rewrite IH. destruct (last_tbl l2 x); reflexivity.
Qed.

Lemma last_tbl_in l x i : last_tbl l x = Some i -> In i (map sid l).
Proof.
  induction l as [|s r IH]; cbn; [discriminate|].
  destruct (last_tbl r x) as [j|].
  - intros [= <-]. right. auto.
  - destruct (memv x (mentions s)); [|discriminate]. intros [= <-]. now left.
Qed.

Lemma last_tbl_mention s r x : In x (mentions s) -> exists i, last_tbl (s :: r) x = Some i.
Proof.
  intros H. cbn. destruct (last_tbl r x) as [j|]; [eauto|].
  apply memv_In in H. rewrite H. eauto.
Qed.

Lemma last_tbl_at pre s post x :
  In x (mentions s) ->
  exists i, last_tbl (pre ++ s :: post) x = Some i /\ In i (map sid (s :: post)).
Proof.
  intros H. destruct (last_tbl_mention s post x H) as [i Hi].
  exists i. rewrite last_tbl_app, Hi. split; [reflexivity|]. now apply last_tbl_in with x.
Qed.

Lemma NoDup_app_disj {A} (a b : list A) i : NoDup (a ++ b) -> In i a -> ~ In i b.
Proof.
  induction a as [|y a IH]; cbn; intros ND Hi; [destruct Hi|].
  inversion ND as [|? ? Hn ND']; subst. destruct Hi as [->|Hi].
  - intros Hb. apply Hn. apply in_or_app. now right.
  - now apply IH.
Qed.

Lemma NoDup_app_r {A} (a b : list A) : NoDup (a ++ b) -> NoDup b.
Proof. induction a; cbn; intros H; [assumption|]. inversion H; auto. Qed.

Section Phase.
  Variable U : list var.
  Variables globs locs : list var.
  Let scope := globs ++ locs.
  Variable all : list stmt.
  Let tbl := last_tbl all.
  Hypothesis ND : NoDup U.
  Hypothesis scopeU : forall x, In x scope -> In x U.
  Hypothesis NDsid : NoDup (map sid all).
  Hypothesis WF : forall s, In s all -> stmt_wf scope s = true.
  Variable v : valn.
  Variable swc : bool.          (* sw_stmt_cond: the invariant holds for both shapes of lower_inst *)

  Definition Jinv (S : list nat) (st : mstate) : Prop :=
    forall x, In x scope -> defd st x = true -> vars st x = None ->
              ~ In x globs /\ exists i, tbl x = Some i /\ In i S.
  (* variables of other phases stay unassociated *)
  Definition Out (st : mstate) : Prop := forall y, ~ In y scope -> vars st y = None.
  Definition Inv (S : list nat) (st : mstate) : Prop := refcount_inv U st /\ Jinv S st /\ Out st.
  (* what is left of it at an early exit: persistent variables that are assigned are associated *)
  Definition Jg (st : mstate) : Prop :=
    forall x, In x globs -> defd st x = true -> vars st x <> None.
  Definition Q (st : mstate) : Prop := refcount_inv U st /\ Jg st /\ Out st.

  Definition post (P : mstate -> Prop) (o : outcome) : Prop :=
    match o with
    | ONormal st => P st
    | OExit st | OStopped st => Q st
    | OFault f st => is_src f /\ refcount_inv U st
    end.

  Definition usable (S : list nat) (x : var) : Prop :=
    In x scope /\ (In x globs \/ forall i, tbl x = Some i -> ~ In i S).

  Lemma Inv_mono S S' st : incl S S' -> Inv S st -> Inv S' st.
  Proof.
    intros Hi (I & J & O). split; [assumption|]. split; [|assumption]. intros x Hx Dx Vx.
    destruct (J x Hx Dx Vx) as [Hg [i [Ht Hin]]]. split; [assumption|]. exists i. auto.
  Qed.

  Lemma Inv_Q S st : Inv S st -> Q st.
  Proof.
    intros (I & J & O). split; [assumption|]. split; [|assumption]. intros x Hx Dx Vx.
    assert (Hs : In x scope) by (apply in_or_app; now left).
    destruct (J x Hs Dx Vx) as [Hg _]. contradiction.
  Qed.

  Lemma post_mono (P P' : mstate -> Prop) o : (forall st, P st -> P' st) -> post P o -> post P' o.
  Proof. destruct o; cbn; auto. Qed.

  Lemma usable_assoc S x st : Inv S st -> usable S x -> defd st x = true -> vars st x <> None.
  Proof.
    intros (_ & J & _) [Hs Hu] Dx Vx. destruct (J x Hs Dx Vx) as [Hg [i [Ht Hin]]].
    destruct Hu as [Hu|Hu]; [contradiction|]. apply (Hu i Ht Hin).
  Qed.

  (* ---- single operations ---- *)
  Lemma op_alloc S x st : In x scope -> Inv S st -> post (Inv S) (run_op (OAllocCheck x) st).
  Proof.
    intros Hx (I & J & O). cbn.
    destruct (alloc_check_spec U x st ND (scopeU x Hx) I) as (st' & E & I' & Vx & Fr & D).
    rewrite E. cbn. split; [assumption|]. split.
    - intros y Hy Dy Vy.
      destruct (Nat.eq_dec y x) as [->|Hne]; [contradiction|].
      rewrite D, upd_other in Dy by assumption. rewrite Fr in Vy by assumption. auto.
    - intros y Hy. rewrite Fr; [auto|]. intros ->. contradiction.
  Qed.

  Lemma op_use S x st : usable S x -> Inv S st -> post (Inv S) (run_op (OUse x) st).
  Proof.
    intros Hu HI. pose proof HI as (I & J & O). cbn. destruct Hu as [Hs Hu'].
    destruct (use_spec U x st (scopeU x Hs) I) as [[D E]|[[D [V E]]|[D [V E]]]]; rewrite E; cbn.
    - split; [eexists; reflexivity | assumption].
    - exfalso. apply (usable_assoc S x st HI (conj Hs Hu') D V).
    - assumption.
  Qed.

  Lemma op_move S d s st :
    In d scope -> usable S s -> s <> d -> Inv S st -> post (Inv S) (run_op (OMove d s) st).
  Proof.
    intros Hd Hu Hne HI. pose proof HI as (I & J & O). cbn. pose proof Hu as [Hs _].
    destruct (move_spec U d s st ND (scopeU d Hd) (scopeU s Hs) Hne I)
      as [[D E]|[[D [V [st' E]]]|[D [V [st' (E & I' & Vd & Fr & D')]]]]]; rewrite E; cbn.
    - split; [eexists; reflexivity | assumption].
    - exfalso. apply (usable_assoc S s st HI Hu D V).
    - split; [assumption|]. split.
      + intros y Hy Dy Vy.
        destruct (Nat.eq_dec y d) as [->|Hyd]; [contradiction|].
        rewrite D', upd_other in Dy by assumption. rewrite Fr in Vy by assumption. auto.
      + intros y Hy. rewrite Fr; [auto|]. intros ->. contradiction.
  Qed.

  Lemma op_deinit_last S x st i :
    In x scope -> ~ In x globs -> tbl x = Some i -> In i S ->
    Inv S st -> post (Inv S) (run_op (ODeinit x) st).
  Proof.
    intros Hx Hg Ht Hi (I & J & O). cbn.
    destruct (deinit_spec U x st ND (scopeU x Hx) I) as (st' & E & I' & Vx & Fr & D & _).
    rewrite E. cbn. split; [assumption|]. split.
    - intros y Hy Dy Vy.
      destruct (Nat.eq_dec y x) as [->|Hne]; [split; eauto|].
      rewrite D in Dy. rewrite Fr in Vy by assumption. auto.
    - intros y Hy. rewrite Fr; [auto|]. intros ->. contradiction.
  Qed.

  Lemma op_simple S o st :
    (exists b, o = OMark b) \/ (exists p, o = OSetNext p) \/ o = OGoto \/ o = OStop ->
    Inv S st -> post (Inv S) (run_op o st).
  Proof.
    intros H HI. destruct H as [[b ->]|[[p ->]|[->| ->]]]; cbn.
    - exact HI.
    - exact HI.
    - apply (Inv_Q S). exact HI.
    - apply (Inv_Q S). exact HI.
  Qed.

  (* ---- lists of operations ---- *)
  Lemma run_ops_post (P : mstate -> Prop) l st :
    (forall o, In o l -> forall st, P st -> post P (run_op o st)) ->
    P st -> post P (run_ops l st).
  Proof.
    revert st. induction l as [|o r IH]; intros st H HP; [exact HP|].
    cbn. pose proof (H o (or_introl eq_refl) st HP) as Ho.
    destruct (run_op o st); cbn in Ho |- *; try assumption.
    apply IH; [|assumption]. intros o' Ho'. apply H. now right.
  Qed.

  Lemma post_bind (P P' : mstate -> Prop) o (k : mstate -> outcome) :
    post P o -> (forall st, P st -> post P' (k st)) ->
    post P' (match o with ONormal st => k st | o' => o' end).
  Proof. destruct o; cbn; auto. Qed.

  Ltac pbind H st1 H1 :=
    match goal with
    | |- post _ (match ?o with ONormal _ => _ | _ => _ end) =>
        let Ho := fresh "Ho" in
        pose proof H as Ho; destruct o as [st1|?|?|? ?]; cbn [post] in Ho |- *;
        [ rename Ho into H1 | exact Ho | exact Ho | exact Ho ]
    end.

  (* ---- one statement ---- *)
  Lemma stmt_wf_parts s : stmt_wf scope s = true ->
    (forall x, In x (stmt_vars s) -> In x scope) /\
    (forall x, In x (reads s) -> In x (mentions s)) /\
    match kind s with KMove d src => d <> src /\ In src (mentions s) | _ => True end.
  Proof.
    unfold stmt_wf. intros H.
    apply andb_true_iff in H. destruct H as [H H3].
    apply andb_true_iff in H. destruct H as [H1 H2].
    split; [apply subset_In; assumption|]. split; [apply subset_In; assumption|].
    destruct (kind s); auto.
    apply andb_true_iff in H3. destruct H3 as [Ha Hb]. split.
    - apply negb_true_iff in Ha. now apply Nat.eqb_neq.
    - now apply memv_In.
  Qed.

  (* what emit_inst_<T> emits for s: the statement proper, then its last-use releases *)
  Lemma stmt_ops_ok (inloop : bool) pre s post' S st :
    all = pre ++ s :: post' ->
    (forall i, In i S -> ~ In i (map sid (s :: post'))) ->
    Inv S st ->
    post (Inv (if inloop then S else S ++ [sid s]))
         (run_ops (stmt_ops true globs tbl inloop s) st).
  Proof.
    intros Hall Hdis HI.
    assert (Hin : In s all) by (rewrite Hall; apply in_or_app; right; now left).
    destruct (stmt_wf_parts s (WF s Hin)) as (Hsc & Hrm & Hk).
    assert (Hment : forall x, In x (mentions s) -> usable S x).
    { intros x Hx. split.
      - apply Hsc. unfold stmt_vars. destruct (kind s); repeat (apply in_or_app; right);
          try (right; right; apply in_or_app; right); assumption.
      - right. intros i Ht Hi. destruct (last_tbl_at pre s post' x Hx) as [j [Hj Hjin]].
        unfold tbl in Ht. rewrite Hall, Hj in Ht. injection Ht as <-. apply (Hdis j Hi Hjin). }
    unfold stmt_ops. rewrite run_ops_app.
    (* the core *)
    assert (Hcore : post (Inv S) (run_ops (stmt_core s) st)).
    { unfold stmt_core. destruct (kind s) as [d src|ds|e] eqn:K.
      - cbn [run_ops]. destruct Hk as [Hne Hsrc].
        pose proof (op_move S d src _ (Hsc d ltac:(unfold stmt_vars; rewrite K; now left))
                            (Hment src Hsrc) (not_eq_sym Hne) HI) as Hm.
        destruct (run_op (OMove d src) st); exact Hm.
      - rewrite run_ops_app.
        assert (Ha : post (Inv S) (run_ops (map OAllocCheck ds) st)).
        { apply run_ops_post; [|exact HI]. intros o Ho st1 H1.
          apply in_map_iff in Ho. destruct Ho as [x [<- Hx]]. apply op_alloc; [|assumption].
          apply Hsc. unfold stmt_vars. rewrite K. apply in_or_app. now left. }
        pbind Ha st1 H1. apply run_ops_post; [|exact H1]. intros o Ho st2 H2.
        apply in_map_iff in Ho. destruct Ho as [x [<- Hx]]. apply op_use; [|assumption].
        apply Hment. auto.
      - destruct e as [|p|]; cbn [run_ops].
        + apply (op_simple S OGoto); auto.
        + pose proof (op_simple S (OSetNext p) _ (or_intror (or_introl (ex_intro _ p eq_refl))) HI) as H1.
          cbn in H1 |- *. apply (op_simple S OGoto); auto.
        + apply (op_simple S OStop); auto. }
    pbind Hcore st1 H1.
    unfold lastuse_deinits.
    destruct (lastuse s && negb (true && inloop)) eqn:Hl.
    - assert (inloop = false) as -> by (destruct inloop, (lastuse s); cbn in Hl; congruence).
      assert (H1' : Inv (S ++ [sid s]) st1) by (eapply Inv_mono; [|exact H1]; apply incl_appl, incl_refl).
      apply run_ops_post; [|exact H1']. intros o Ho st2 H2.
      apply in_map_iff in Ho. destruct Ho as [x [<- Hx]].
      apply filter_In in Hx. destruct Hx as [Hx Hf].
      apply andb_true_iff in Hf. destruct Hf as [Hlast Hng].
      unfold last_here in Hlast. destruct (tbl x) as [i|] eqn:Ht; [|discriminate].
      apply Nat.eqb_eq in Hlast. subst i.
      apply (op_deinit_last _ x st2 (sid s)); auto.
      + apply (Hment x Hx).
      + apply negb_true_iff in Hng. now apply memv_false.
      + apply in_or_app. right. now left.
    - cbn [run_ops post].
      destruct inloop; [exact H1|].
      eapply Inv_mono; [|exact H1]. apply incl_appl, incl_refl.
  Qed.

  (* lower_inst: the markers, and the `if` around a statement that carries its own condition
     (a statement whose condition is false does nothing: the variables whose last mention it is
     stay associated and are released at the exit label) *)
  Lemma stmt_ok (inloop : bool) ctx pre s post' S st :
    all = pre ++ s :: post' ->
    (forall i, In i S -> ~ In i (map sid (s :: post'))) ->
    Inv S st ->
    post (Inv (if inloop then S else S ++ [sid s]))
         (run_code v (emit_stmt true swc globs tbl inloop s) ctx st).
  Proof.
    intros Hall Hdis HI. unfold emit_stmt. rewrite run_code_block.
    cbn [run_list]. change (run_code v (COp (OMark true)) ctx st) with (ONormal (ev st [TMark true])).
    cbv iota.
    assert (HI0 : Inv S (ev st [TMark true])) by exact HI.
    pose proof (stmt_ops_ok inloop pre s post' S _ Hall Hdis HI0) as Hops.
    assert (Hskip : Inv (if inloop then S else S ++ [sid s]) (ev st [TMark true])).
    { destruct inloop; [exact HI0|]. eapply Inv_mono; [|exact HI0]. apply incl_appl, incl_refl. }
    assert (Hmid : post (Inv (if inloop then S else S ++ [sid s]))
                        (run_code v (match (if swc then scond s else None) with
                                     | None => CBlock (map COp (stmt_ops true globs tbl inloop s))
                                     | Some c => CIf c (CBlock (map COp (stmt_ops true globs tbl inloop s)))
                                                       (CBlock [])
                                     end) ctx (ev st [TMark true]))).
    { destruct (if swc then scond s else None) as [c|].
      - change (run_code v (CIf c ?t ?e) ctx ?st0)
          with (if evalg (v ctx) c then run_code v t ctx st0 else run_code v e ctx st0).
        destruct (evalg (v ctx) c).
        + rewrite run_code_ops. exact Hops.
        + exact Hskip.
      - rewrite run_code_ops. exact Hops. }
    pbind Hmid st1 H1. exact H1.
  Qed.

  (* ---- the tree ---- *)
  Lemma disj_sub (S : list nat) (a b : list nat) :
    (forall i, In i S -> ~ In i b) -> incl a b -> forall i, In i S -> ~ In i a.
  Proof. intros H Hi i Hs Ha. apply (H i Hs). auto. Qed.

  Lemma node_ok : forall n (inloop : bool) ctx pre post' S st,
    all = pre ++ stmts_of n ++ post' ->
    (forall i, In i S -> ~ In i (map sid (stmts_of n ++ post'))) ->
    Inv S st ->
    post (Inv (if inloop then S else S ++ map sid (stmts_of n)))
         (run_code v (emit_node true swc globs tbl inloop n) ctx st).
  Proof.
    induction n as [s|l IHl|c t IHt|c t e IHt IHe|k b IHb] using node_ind';
      intros inloop ctx pre post' S st Hall Hdis HI.
    - (* statement *)
      cbn [emit_node stmts_of].
      cbn [stmts_of app] in Hall, Hdis.
      apply (stmt_ok inloop ctx pre s post' S st Hall Hdis HI).
    - (* block *)
      cbn [emit_node stmts_of]. cbn [stmts_of] in Hall, Hdis. rewrite run_code_block.
      revert pre S st Hall Hdis HI.
      induction IHl as [|c r Hc Hr IHr]; intros pre S st Hall Hdis HI.
      + cbn. destruct inloop; [exact HI|]. now rewrite app_nil_r.
      + cbn [map run_list flat_map]. cbn [flat_map] in Hall, Hdis.
        rewrite <- app_assoc in Hall, Hdis.
        pose proof (Hc inloop ctx pre (flat_map stmts_of r ++ post') S st Hall Hdis HI) as H1.
        pbind H1 st1 HI1.
        destruct inloop.
        * apply (IHr (pre ++ stmts_of c) S st1).
          -- now rewrite <- app_assoc.
          -- eapply disj_sub; [exact Hdis|]. rewrite !map_app. apply incl_appr, incl_refl.
          -- exact HI1.
        * rewrite map_app, app_assoc.
          apply (IHr (pre ++ stmts_of c) (S ++ map sid (stmts_of c)) st1).
          -- now rewrite <- app_assoc.
          -- intros i Hi. apply in_app_or in Hi. destruct Hi as [Hi|Hi].
             ++ eapply disj_sub; [exact Hdis| |exact Hi]. rewrite !map_app. apply incl_appr, incl_refl.
             ++ pose proof NDsid as N. rewrite Hall, !map_app in N. apply NoDup_app_r in N.
                rewrite map_app. apply (NoDup_app_disj _ _ i N Hi).
          -- exact HI1.
    - (* if-then *)
      cbn [emit_node stmts_of run_code]. destruct (evalg (v ctx) c).
      + apply (IHt inloop ctx pre post' S st Hall Hdis HI).
      + cbn. destruct inloop; [exact HI|].
        eapply Inv_mono; [|exact HI]. apply incl_appl, incl_refl.
    - (* if-then-else *)
      cbn [emit_node stmts_of run_code]. cbn [stmts_of] in Hall, Hdis.
      rewrite <- app_assoc in Hall, Hdis. destruct (evalg (v ctx) c).
      + eapply post_mono; [|apply (IHt inloop ctx pre (stmts_of e ++ post') S st Hall Hdis HI)].
        destruct inloop; [auto|]. intros st1. apply Inv_mono.
        rewrite map_app, app_assoc. apply incl_appl, incl_refl.
      + eapply post_mono; [|apply (IHe inloop ctx (pre ++ stmts_of t) post' S st)].
        * destruct inloop; [auto|]. intros st1. apply Inv_mono.
          rewrite map_app. apply incl_app; [apply incl_appl, incl_refl|].
          apply incl_appr, incl_appr, incl_refl.
        * now rewrite <- app_assoc.
        * eapply disj_sub; [exact Hdis|]. rewrite !map_app. apply incl_appr, incl_refl.
        * exact HI.
    - (* for *)
      cbn [emit_node stmts_of]. cbn [stmts_of] in Hall, Hdis. rewrite run_code_for.
      assert (Hloop : forall k i st, Inv S st ->
                post (Inv S) (run_loop v ctx (emit_node true swc globs tbl true b) k i st)).
      { clear st HI. intros k'. induction k' as [|k' IHk]; intros i st HI; [exact HI|].
        cbn [run_loop]. pose proof (IHb true (i :: ctx) pre post' S st Hall Hdis HI) as Hb1.
        cbn [negb] in Hb1. pbind Hb1 st1 HI1. apply IHk. exact HI1. }
      eapply post_mono; [|apply Hloop; exact HI].
      destruct inloop; [auto|]. intros st1. apply Inv_mono. apply incl_appl, incl_refl.
  Qed.
End Phase.
