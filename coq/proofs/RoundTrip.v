(* C19 -- the parser reads the printed tokens of an expression in parser-normal form back as
   that expression (by induction on the expression; fuel-free thanks to ParseRules). *)
From Coq Require Import List ZArith NArith String Ascii Bool Arith Lia ZifyBool.
Import ListNotations.
From Dagrt Require Import GenC19 Print Parse ParseRules.
Open Scope list_scope.
Open Scope nat_scope.
Notation length := List.length.

(* ------------------------------------------------------------------ induction principle *)

Section ExprInd.
  Variable P : expr -> Prop.
  Hypothesis HInt : forall z, P (EInt z).
  Hypothesis HBool : forall b, P (EBool b).
  Hypothesis HVar : forall x, P (EVar x).
  Hypothesis HNary : forall o l, Forall P l -> P (ENary o l).
  Hypothesis HBin : forall o a b, P a -> P b -> P (EBin o a b).
  Hypothesis HNot : forall a, P a -> P (ENot a).
  Hypothesis HIf : forall c t e, P c -> P t -> P e -> P (EIf c t e).
  Hypothesis HCall : forall f args kw, P f -> Forall P args -> Forall (fun kv => P (snd kv)) kw ->
                                       P (ECall f args kw).
  Hypothesis HSub : forall a i, P a -> P i -> P (ESub a i).
  Hypothesis HTuple : forall l, Forall P l -> P (ETuple l).

  Fixpoint expr_ind' (e : expr) : P e :=
    let fl := fix fl (l : list expr) : Forall P l :=
                match l with
                | [] => Forall_nil _
                | x :: r => Forall_cons _ (expr_ind' x) (fl r)
                end in
    match e with
    | EInt z => HInt z
    | EBool b => HBool b
    | EVar x => HVar x
    | ENary o l => HNary o l (fl l)
    | EBin o a b => HBin o a b (expr_ind' a) (expr_ind' b)
    | ENot a => HNot a (expr_ind' a)
    | EIf c t e => HIf c t e (expr_ind' c) (expr_ind' t) (expr_ind' e)
    | ECall f args kw =>
      HCall f args kw (expr_ind' f) (fl args)
            ((fix fk (k : list (string * expr)) : Forall (fun kv => P (snd kv)) k :=
                match k with
                | [] => Forall_nil _
                | kv :: r => Forall_cons _ (expr_ind' (snd kv)) (fk r)
                end) kw)
    | ESub a i => HSub a i (expr_ind' a) (expr_ind' i)
    | ETuple l => HTuple l (fl l)
    end.
End ExprInd.

(* ------------------------------------------------------------------ parser-normal form *)

Definition is_nary (o : nop) (e : expr) : bool :=
  match e with ENary o' _ => nop_eqb o' o | _ => false end.

Definition okc (f : expr -> bool) (c : expr) : bool := f c && negb (is_tuple c).

(* what pymbolic's parser can return for a printed expression: binary nodes, + and or nested to
   the left, * to the right, none of the four defect shapes *)
Fixpoint nf (e : expr) : bool :=
  match e with
  | EInt _ | EBool _ => true
  | EVar x => no_bt x
  | ENary o l =>
    match l with
    | [a; b] =>
      okc nf a && okc nf b
      && match o with
         | NSum => negb (is_nary NSum b) && is_arith a && is_arith b
         | NProd => negb (is_nary NProd a) && is_arith a && is_arith b
         | NAnd => negb (is_nary NAnd b)
         | NOr => negb (is_nary NOr b)
         end
    | _ => false
    end
  | EBin o a b =>
    okc nf a && okc nf b
    && match o with
       | BPow => negb (is_pow a) && is_arith a && is_arith b
       | BCmp _ => negb (is_cmp b)
       | _ => is_arith a && is_arith b
       end
  | ENot a => okc nf a
  | EIf c t e => okc nf c && okc nf t && okc nf e
  | ECall f args kw =>
    okc nf f && forallb (okc nf) args && forallb (fun kv => okc nf (snd kv)) kw
    && no_dup (map fst kw)
    && all_but_last (fun c => negb (is_if c)) (args ++ map snd kw)
  | ESub a i =>
    okc nf a
    && match i with
       | ETuple l => (2 <=? length l) && forallb (okc nf) l && all_but_last (fun c => negb (is_if c)) l
       | _ => nf i
       end
  | ETuple _ => false
  end.

(* ------------------------------------------------------------------ levels *)

Definition BIG : nat := 1000.

(* min_precedence must be below this for the loop to get through the top operator of e *)
Definition top_lvl (e : expr) : nat :=
  match e with
  | ENary NSum _ => thr_plus | ENary NProd _ => thr_times
  | ENary NAnd _ => thr_and | ENary NOr _ => thr_or
  | EBin BQuot _ _ => thr_over | EBin BFloorDiv _ _ => thr_floordiv | EBin BRem _ _ => thr_modulo
  | EBin BPow _ _ => thr_power | EBin (BCmp _) _ _ => thr_cmp
  | EIf _ _ _ => PA_IF
  | ECall _ _ _ | ESub _ _ => PA_CALL
  | _ => BIG
  end.

(* lowest level at which a right-most operand inside the un-parenthesised text of e is parsed *)
Definition redge0 (e : expr) : nat :=
  match e with
  | EInt z => if (z <? 0)%Z then PA_UNARY else BIG
  | ENary NSum _ => rhs_plus | ENary NProd _ => rhs_times
  | ENary NAnd _ => rhs_and | ENary NOr _ => rhs_or
  | EBin BQuot _ _ => rhs_over | EBin BFloorDiv _ _ => rhs_floordiv | EBin BRem _ _ => rhs_modulo
  | EBin BPow _ _ => rhs_power | EBin (BCmp _) _ _ => rhs_cmp
  | ENot _ => Nat.min PA_UNARY rhs_power
  | EIf _ _ _ => 0
  | _ => BIG
  end.

Definition redge (q : nat) (e : expr) : nat := if prec e <? q then BIG else redge0 e.

Ltac cs := unfold BIG in *; consts.

Ltac lvl_cases c :=
  destruct c as [z|bb|x|o l|o a b|a|c1 c2 c3|f args kw|a i|l];
  try (destruct o as [| | |]); try (destruct o as [| | | |cc]);
  try (destruct (z <? 0)%Z eqn:Hz).

(* every top_lvl is above every level a sub-parse is started at by an item / a parenthesis *)
Lemma top_lvl_min c : PA_IF <= top_lvl c.
Proof. lvl_cases c; cbn; cs; lia. Qed.

Lemma follow_rpar m r : follow m (TRPar :: r) = true.
Proof. reflexivity. Qed.
Lemma follow_rbrk m r : follow m (TRBrk :: r) = true.
Proof. reflexivity. Qed.
Lemma follow_else m r : follow m (TElse :: r) = true.
Proof. reflexivity. Qed.
Lemma follow_nil m : follow m [] = true.
Proof. reflexivity. Qed.

(* ------------------------------------------------------------------ shape of the printed form *)

Lemma ltb_0 n : (n <? 0) = false.
Proof. destruct n; reflexivity. Qed.

Lemma print_paren sp q e :
  q <= PR_CALL -> print sp q e = paren_if (prec e <? q) (print sp 0 e).
Proof.
  intros Hq.
  assert (HN : (NOPAREN <? q) = false) by (consts; lia).
  destruct e; cbn [print prec]; rewrite ?ltb_0; cbn [paren_if]; rewrite ?HN; try reflexivity.
  destruct (z <? 0)%Z; cbn [paren_if]; rewrite ?HN, ?ltb_0; reflexivity.
Qed.

Lemma paren_app ts rest : paren ts ++ rest = TLPar :: ts ++ TRPar :: rest.
Proof. unfold paren. cbn. rewrite <- app_assoc. reflexivity. Qed.

Definition B (e : expr) : list token := print [] 0 e.

Definition chn (o : nop) (c : expr) : list token :=
  match o with
  | NProd => paren_if (is_qfr c) (print [] PR_PRODUCT c)
  | _ => print [] (nary_prec o) c
  end.
Definition chb (o : bop) (c : expr) : list token :=
  match o with
  | BPow | BCmp _ => print [] (bin_prec o) c
  | _ => paren_if (is_mult c) (print [] PR_PRODUCT c)
  end.

Lemma B_nary2 o a b rest : B (ENary o [a; b]) ++ rest = chn o a ++ nary_tok o :: (chn o b ++ rest).
Proof.
  unfold B. cbn [print]. rewrite ltb_0. cbn [paren_if map join].
  destruct o; cbn [nary_sep nary_tok app chn]; rewrite <- ?app_assoc; reflexivity.
Qed.

Lemma B_bin o a b rest : B (EBin o a b) ++ rest = chb o a ++ bin_tok o :: (chb o b ++ rest).
Proof.
  unfold B. cbn [print]. rewrite ltb_0. cbn [paren_if].
  destruct o; cbn [bin_sep bin_tok app chb]; rewrite <- ?app_assoc; reflexivity.
Qed.

Lemma B_not a rest : B (ENot a) ++ rest = TNot :: (print [] PR_UNARY a ++ rest).
Proof. unfold B. cbn [print]. rewrite ltb_0. reflexivity. Qed.

Lemma B_if c t e rest :
  B (EIf c t e) ++ rest
  = print [] PR_LOGICAL_OR t ++ TIf :: (print [] PR_LOGICAL_OR c ++ TElse :: (print [] PR_LOGICAL_OR e ++ rest)).
Proof.
  unfold B. cbn [print]. rewrite ltb_0. cbn [paren_if app].
  repeat (rewrite <- app_assoc; cbn [app]). reflexivity.
Qed.

Definition kw_item (kv : string * expr) : list token := TId (fst kv) :: TAssign :: print [] PR_NONE (snd kv).

Lemma B_call f args kw rest :
  B (ECall f args kw) ++ rest
  = print [] PR_CALL f ++ TLPar :: (join [TComma] (map (print [] PR_NONE) args ++ map kw_item kw) ++ TRPar :: rest).
Proof.
  unfold B. cbn [print]. repeat (rewrite <- app_assoc; cbn [app]). reflexivity.
Qed.

Definition idx_toks (i : expr) : list token :=
  match i with
  | ETuple l => join [TComma] (map (print [] PR_NONE) l)
  | _ => print [] PR_NONE i
  end.

Lemma B_sub a i rest :
  B (ESub a i) ++ rest = print [] PR_CALL a ++ TLBrk :: (idx_toks i ++ TRBrk :: rest).
Proof.
  unfold B. cbn [print]. rewrite ltb_0. cbn [paren_if].
  repeat (rewrite <- app_assoc; cbn [app]). destruct i; reflexivity.
Qed.

(* join as first element + tail *)
Definition tail_toks (l : list (list token)) : list token := List.concat (map (fun y => TComma :: y) l).

Lemma join_cons x l : join [TComma] (x :: l) = x ++ tail_toks l.
Proof.
  revert x. induction l as [|y l IH]; intros x.
  - cbn. rewrite app_nil_r. reflexivity.
  - change (join [TComma] (x :: y :: l)) with (x ++ [TComma] ++ join [TComma] (y :: l)).
    rewrite IH. reflexivity.
Qed.

(* ------------------------------------------------------------------ names *)

Lemma split_gt_spec r t u : split_gt r = Some (t, u) -> r = (t ++ String ">" u)%string.
Proof.
  revert t u. induction r as [|c r IH]; intros t u H; cbn in H; [discriminate|].
  destruct (Ascii.eqb c ">") eqn:E.
  - apply Ascii.eqb_eq in E. subst c. injection H as <- <-. reflexivity.
  - destruct (split_gt r) as [[t' u']|]; [|discriminate]. injection H as <- <-.
    cbn. f_equal. apply IH. reflexivity.
Qed.

Lemma var_toks_cases x :
  var_toks x = [TId x]
  \/ exists t u, x = ("<" ++ t ++ ">" ++ u)%string
                 /\ var_toks x = TCmp CLt :: TId t :: TCmp CGt :: (match u with EmptyString => [] | _ => [TId u] end).
Proof.
  destruct x as [|c r]; [left; reflexivity|]. unfold var_toks.
  destruct (Ascii.eqb c "<") eqn:E; [|left; reflexivity].
  apply Ascii.eqb_eq in E. subst c.
  destruct (split_gt r) as [[t u]|] eqn:S; [|left; reflexivity].
  right. exists t, u. split; [|reflexivity].
  apply split_gt_spec in S. subst r. reflexivity.
Qed.

(* ------------------------------------------------------------------ first tokens *)

Definition no_assign (rest : list token) : Prop :=
  match rest with TAssign :: _ => False | _ => True end.

Lemma starts_app_ok ts rest : starts_ok ts = true -> starts_ok (ts ++ rest) = true.
Proof. destruct ts; [discriminate|]. auto. Qed.

Lemma start_paren ts rest :
  starts_ok (paren ts ++ rest) = true /\ starts_kw (paren ts ++ rest) = false.
Proof. rewrite paren_app. split; reflexivity. Qed.

Lemma start_print c :
  nf c = true -> is_tuple c = false ->
  forall q rest, q <= PR_CALL -> no_assign rest ->
    starts_ok (print [] q c ++ rest) = true /\ starts_kw (print [] q c ++ rest) = false.
Proof.
  induction c using expr_ind'; intros Hnf Htup q rest Hq Hna;
    (rewrite print_paren by assumption; destruct (prec _ <? q); cbn [paren_if];
     [apply start_paren|]).
  - (* EInt *) cbn [print]. destruct (z <? 0)%Z; cbn; split; reflexivity.
  - cbn [print]. destruct b; split; reflexivity.
  - (* EVar *) cbn [print]. destruct (var_toks_cases x) as [->|(t & u & _ & ->)].
    + cbn. split; [reflexivity|]. destruct rest as [|[] ?]; try reflexivity. contradiction.
    + split; reflexivity.
  - (* ENary *) cbn [nf] in Hnf. destruct l as [|a [|b [|]]]; try discriminate.
    fold (B (ENary o [a; b])). rewrite B_nary2.
    apply andb_true_iff in Hnf as [Hnf _]. apply andb_true_iff in Hnf as [Ha _].
    apply andb_true_iff in Ha as [Ha Hta]. apply negb_true_iff in Hta.
    inversion H as [|? ? IHa _]; subst.
    destruct o; cbn [chn];
      try (apply IHa; auto; try (cbn; consts; lia); try exact I).
    destruct (is_qfr a); cbn [paren_if]; [apply start_paren|].
    apply IHa; auto; try (cbn; consts; lia); try exact I.
  - (* EBin *) fold (B (EBin o c1 c2)). rewrite B_bin.
    cbn [nf] in Hnf. apply andb_true_iff in Hnf as [Hnf _]. apply andb_true_iff in Hnf as [Ha _].
    apply andb_true_iff in Ha as [Ha Hta]. apply negb_true_iff in Hta.
    assert (Hb : no_assign (bin_tok o :: chb o c2 ++ rest)) by (destruct o; exact I).
    destruct o; cbn [chb];
      try (destruct (is_mult c1); cbn [paren_if]; [apply start_paren|]);
      apply IHc1; auto; cbn; consts; lia.
  - (* ENot *) fold (B (ENot c)). rewrite B_not. split; reflexivity.
  - (* EIf *) fold (B (EIf c1 c2 c3)). rewrite B_if.
    cbn [nf] in Hnf. apply andb_true_iff in Hnf as [Hnf _]. apply andb_true_iff in Hnf as [_ Ht].
    apply andb_true_iff in Ht as [Ht Htt]. apply negb_true_iff in Htt.
    apply IHc2; auto; try (cbn; consts; lia); try exact I.
  - (* ECall *) fold (B (ECall c args kw)). rewrite B_call.
    cbn [nf] in Hnf. do 4 (apply andb_true_iff in Hnf as [Hnf _]).
    apply andb_true_iff in Hnf as [Hf Htf]. apply negb_true_iff in Htf.
    apply IHc; auto; try (cbn; consts; lia); try exact I.
  - (* ESub *) fold (B (ESub c1 c2)). rewrite B_sub.
    cbn [nf] in Hnf. apply andb_true_iff in Hnf as [Hnf _].
    apply andb_true_iff in Hnf as [Hf Htf]. apply negb_true_iff in Htf.
    apply IHc1; auto; try (cbn; consts; lia); try exact I.
  - discriminate.
Qed.
