(* C09: invariants of the SymbolKindFinder work-list loops (coq/model/Kinds.v). *)
From Coq Require Import List String Bool Arith Lia.
Import ListNotations.
Open Scope string_scope.
Open Scope list_scope.
From Dagrt Require Import Kinds KindsClassProofs KindsTableProofs.

(* ------------------------------------------------------------------ a generic invariant of the two loops *)

Section Generic.
  Variable C : cfg.
  Variable reg : registry.
  Variable Rel : skt -> skt -> Prop.
  Variable Sok : item -> Prop.
  Variable Post : item -> skt -> Prop.
  Hypothesis Rrefl : forall T, Rel T T.
  Hypothesis Rtrans : forall a b c, Rel a b -> Rel b c -> Rel a c.
  Hypothesis Rproc : forall T ph s, Sok (ph, s) ->
    match proc_stmt C reg T ph s with
    | SDone T' _ => Rel T T' /\ Post (ph, s) T'
    | SRetry T' => Rel T T'
    | SFail _ => True
    end.
  Hypothesis Pmono : forall it T T', Rel T T' -> Post it T -> Post it T'.

  Lemma inner_gen : forall fuel q buf prog T T',
    (forall it, In it (q ++ buf) -> Sok it) ->
    inner C reg fuel q buf prog T = Ok T' ->
    Rel T T' /\ (schanged T' = false -> forall it, In it (q ++ buf) -> Post it T').
  Proof.
    induction fuel as [|f IH]; intros q buf prog T T' HS H; simpl in H; [discriminate|].
    destruct q as [|[ph s] q'].
    - destruct buf as [|b buf'].
      + inversion H; subst. split; [apply Rrefl | intros _ it []].
      + destruct prog.
        * apply IH in H.
          -- rewrite app_nil_r in H. exact H.
          -- rewrite app_nil_r. exact HS.
        * (* no progress: the pass is abandoned with the change flag set (statements are left over,
             nothing is claimed about them), or the run fails *)
          destruct (finder_restarts C && schanged T) eqn:Er; [|discriminate].
          inversion H; subst T'. apply andb_prop in Er. destruct Er as [_ Ech].
          split; [apply Rrefl | intros Hc; congruence].
    - pose proof (Rproc T ph s (HS (ph, s) (or_introl eq_refl))) as HP.
      destruct (proc_stmt C reg T ph s) as [T1 p | T1 | e]; [| |discriminate].
      + destruct HP as [HR HPost]. apply IH in H.
        * destruct H as [HR' HP']. split; [eapply Rtrans; eauto|].
          intros Hc it [E|Hin]; [subst; eapply Pmono; eauto | auto].
        * intros it Hin. apply HS. right. exact Hin.
      + apply IH in H.
        * destruct H as [HR' HP']. split; [eapply Rtrans; eauto|].
          intros Hc it Hin. apply (HP' Hc). apply in_or_app. simpl in Hin.
          destruct Hin as [E|Hin]; [right; left; exact E|].
          apply in_app_or in Hin. destruct Hin; [left | right; right]; assumption.
        * intros it Hin. apply HS. simpl. apply in_app_or in Hin. destruct Hin as [Hin|[E|Hin]].
          -- right. apply in_or_app. left. exact Hin.
          -- left. exact E.
          -- right. apply in_or_app. right. exact Hin.
  Qed.

  Hypothesis Rreset : forall T, Rel T (reset T).

  Lemma outer_gen : forall fo fi D T T',
    (forall it, In it (items_of D) -> Sok it) ->
    outer C reg fo fi D T = Ok T' ->
    Rel T T' /\ (forall it, In it (items_of D) -> Post it T') /\ schanged T' = false.
  Proof.
    induction fo as [|f IH]; intros fi D T T' HS H; simpl in H; [discriminate|].
    destruct (inner C reg fi (rev (items_of D)) [] false (reset T)) as [T1|e] eqn:E; [|discriminate].
    apply inner_gen in E.
    - destruct E as [HR HP]. destruct (schanged T1) eqn:Ech.
      + apply IH in H; [|exact HS]. destruct H as [HR' [HP' Hc]]. split; [|split; assumption].
        eapply Rtrans; [apply Rreset|]. eapply Rtrans; eauto.
      + inversion H; subst. split; [eapply Rtrans; [apply Rreset | exact HR]|]. split; [|exact Ech].
        intros it Hin. apply (HP eq_refl). rewrite app_nil_r. apply in_rev in Hin. exact Hin.
    - intros it Hin. rewrite app_nil_r in Hin. apply in_rev in Hin. apply HS. exact Hin.
  Qed.
End Generic.

Lemma in_items_of : forall D ph s,
  In (ph, s) (items_of D) <-> exists stmts, In (ph, stmts) D /\ In s stmts.
Proof.
  intros D ph s. unfold items_of. rewrite in_flat_map. split.
  - intros [[p l] [HD Hin]]. simpl in Hin. apply in_map_iff in Hin. destruct Hin as [s' [E Hs]].
    inversion E; subst. eauto.
  - intros [stmts [HD Hs]]. exists (ph, stmts). split; [assumption|]. simpl. apply in_map_iff. eauto.
Qed.

(* ------------------------------------------------------------------ folds of tset *)

Section Folds.
  Variable C : cfg.
  Variable Rel : skt -> skt -> Prop.
  Hypothesis Rrefl : forall T, Rel T T.
  Hypothesis Rtrans : forall a b c, Rel a b -> Rel b c -> Rel a c.
  Hypothesis Rtset : forall T ph x k, Rel T (tset C T ph x (Some k)).

  Lemma loops_rel : forall ph loops T, Rel T (fold_left (fun T i => tset C T ph i (Some KInt)) loops T).
  Proof.
    induction loops as [|i loops IH]; intros T; simpl; [apply Rrefl|].
    eapply Rtrans; [apply Rtset | apply IH].
  Qed.

  Lemma set_many_rel : forall ph xs ks T, Rel T (set_many C T ph xs ks).
  Proof.
    induction xs as [|x xs IH]; intros ks T; simpl; [apply Rrefl|].
    destruct ks as [|k ks]; [apply Rrefl|]. eapply Rtrans; [apply Rtset | apply IH].
  Qed.
End Folds.

(* ------------------------------------------------------------------ A: keys only grow, the table stays well-formed,
   every processed assignment leaves an entry *)

Definition relA (C : cfg) (T T' : skt) : Prop :=
  (forall p y, lookup T p y <> None -> lookup T' p y <> None) /\ (twf C T -> twf C T').

Definition postA (reg : registry) (it : item) (T : skt) : Prop :=
  match snd it with
  | SAssign x false _ _ => lookup T (fst it) x <> None
  | SCall xs f _ _ =>
      exists s0, rlookup reg f = Some s0 /\
                 forall x, In x (firstn (sig_nres s0) xs) -> lookup T (fst it) x <> None
  | _ => True
  end.

Lemma relA_refl : forall C T, relA C T T.
Proof. intros C T. split; auto. Qed.

Lemma relA_trans : forall C a b c, relA C a b -> relA C b c -> relA C a c.
Proof. intros C a b c [H1 H2] [H3 H4]. split; auto. Qed.

Lemma relA_tset : forall C T ph x k, relA C T (tset C T ph x k).
Proof. intros C T ph x k. split; [intros p y; apply tset_mono | apply tset_twf]. Qed.

Lemma relA_reset : forall C T, relA C T (reset T).
Proof. intros C T. split; auto. Qed.

Lemma result_kinds_len : forall c s a ks, result_kinds c s a = Some ks -> List.length ks = sig_nres s.
Proof.
  intros c s a ks H.
  destruct s; simpl in H;
    repeat match type of H with
           | context [match ?l with [] => _ | _ :: _ => _ end] => is_var l; destruct l; simpl in H; try discriminate
           end;
    repeat match type of H with
           | (if ?b then _ else _) = _ => destruct b eqn:?; simpl in *; try discriminate
           | match ?x with _ => _ end = _ => destruct x eqn:?; simpl in *; try discriminate
           end;
    inversion H; subst; reflexivity.
Qed.

Lemma call_kinds_len : forall c s aks kwn ks, call_kinds c s aks kwn = Some ks -> List.length ks = sig_nres s.
Proof.
  intros c s aks kwn ks H. unfold call_kinds, call_kinds_gen in H.
  destruct s; try (destruct (split_args aks kwn) as [pos kw];
                   match type of H with context [resolve ?n ?p ?k] => destruct (resolve n p k); [|discriminate] end;
                   eapply result_kinds_len; eassumption).
  inversion H; subst. reflexivity.
Qed.

(* whatever inference gets out of a function (either shape of the matrix built-ins) is what the
   check=False rules of [result_kinds] give *)
Lemma result_kinds_infer_some : forall na s a ks,
  result_kinds_infer na s a = Some ks -> result_kinds false s a = Some ks.
Proof.
  intros na s a ks H. unfold result_kinds_infer in H.
  destruct (na && negb (matrix_arrays s a)); [discriminate | exact H].
Qed.

Lemma call_kinds_infer_some : forall na s aks kwn ks,
  call_kinds_infer na s aks kwn = Some ks -> call_kinds false s aks kwn = Some ks.
Proof.
  intros na s aks kwn ks H. unfold call_kinds_infer, call_kinds, call_kinds_gen in *.
  destruct s; try exact H;
    destruct (split_args aks kwn) as [pos kw];
    match type of H with context [resolve ?n ?p ?k] => destruct (resolve n p k); [|discriminate] end;
    eapply result_kinds_infer_some; eassumption.
Qed.

Lemma kcall_inv : forall C reg f rs kwn ks,
  kcall C reg f rs kwn = Ok ks -> exists s0, rlookup reg f = Some s0 /\ List.length ks = sig_nres s0.
Proof.
  intros C reg f rs kwn ks H. unfold kcall in H. destruct (rlookup reg f) as [s0|]; [|discriminate].
  destruct (arg_kinds rs) as [aks|]; [|discriminate].
  destruct (call_kinds_infer (need_arrays C) s0 aks kwn) as [ks'|] eqn:E; [|discriminate].
  inversion H; subst. exists s0. split; [reflexivity|].
  eapply call_kinds_len. eapply call_kinds_infer_some. eauto.
Qed.

Lemma set_many_keys : forall C ph xs ks T x,
  In x (firstn (List.length ks) xs) -> lookup (set_many C T ph xs ks) ph x <> None.
Proof.
  induction xs as [|y xs IH]; intros ks T x Hin; simpl in *.
  - destruct (List.length ks); contradiction.
  - destruct ks as [|k ks]; simpl in Hin; [contradiction|]. destruct Hin as [->|Hin].
    + pose proof (set_many_rel C (relA C) (relA_refl C) (relA_trans C)
                               (fun T ph x k => relA_tset C T ph x (Some k)) ph xs ks
                               (tset C T ph x (Some k))) as [Hm _].
      apply Hm. apply tset_key.
    + apply IH. exact Hin.
Qed.

Lemma procA : forall C reg T ph s,
  match proc_stmt C reg T ph s with
  | SDone T' _ => relA C T T' /\ postA reg (ph, s) T'
  | SRetry T' => relA C T T'
  | SFail _ => True
  end.
Proof.
  intros C reg T ph s. destruct s as [x has_sub rhs loops | xs f args kwn |]; simpl.
  - pose proof (loops_rel C (relA C) (relA_refl C) (relA_trans C)
                          (fun T ph x k => relA_tset C T ph x (Some k)) ph loops T) as HL.
    match goal with |- context [raised C ?t] => destruct (raised C t); [exact I|] end.
    destruct has_sub.
    + split; [exact HL | exact I].
    + match goal with |- context [kmap C reg ?g ?l rhs] => destruct (kmap C reg g l rhs) as [k|e] end.
      * match goal with |- context [raised C ?t] => destruct (raised C t); [exact I|] end.
        split; [eapply relA_trans; [exact HL | apply relA_tset]|]. unfold postA. simpl. apply tset_key.
      * destruct e; auto.
  - destruct (kcall C reg f (map (kmap C reg (sg T) (local_of T ph)) args) kwn) as [ks|e] eqn:E.
    + match goal with |- context [raised C ?t] => destruct (raised C t); [exact I|] end.
      split.
      * apply (set_many_rel C (relA C) (relA_refl C) (relA_trans C)
                            (fun T ph x k => relA_tset C T ph x (Some k))).
      * unfold postA. simpl. destruct (kcall_inv _ _ _ _ _ _ E) as [s0 [Hf Hlen]]. exists s0.
        split; [exact Hf|]. intros x Hx. apply set_many_keys. rewrite Hlen. exact Hx.
    + destruct e; auto. apply relA_refl.
  - split; [apply relA_refl | exact I].
Qed.

Lemma postA_mono : forall C reg it T T', relA C T T' -> postA reg it T -> postA reg it T'.
Proof.
  intros C reg [ph s] T T' [Hm _] H. unfold postA in *. simpl in *.
  destruct s as [x [] rhs loops | xs f args kwn |]; auto.
  destruct H as [s0 [Hf H]]. exists s0. split; auto.
Qed.

Lemma apply_forced_relA : forall C forced T, relA C T (apply_forced C forced T).
Proof.
  intros C forced. unfold apply_forced. induction forced as [|[[ph x] k] forced IH]; intros T; simpl.
  - apply relA_refl.
  - eapply relA_trans; [apply relA_tset | apply IH].
Qed.

Lemma apply_loops_relA : forall C D T, relA C T (apply_loops C D T).
Proof.
  intros C D. unfold apply_loops. induction (items_of D) as [|[ph s] l IH]; intros T; simpl.
  - apply relA_refl.
  - eapply relA_trans; [|apply IH]. destruct s; simpl; try apply relA_refl.
    apply (loops_rel C (relA C) (relA_refl C) (relA_trans C) (fun T ph x k => relA_tset C T ph x (Some k))).
Qed.

(* unfolding `infer` *)
Lemma infer_inv : forall C reg fo fi D forced T,
  infer C reg fo fi D forced = Ok T ->
  let T0 := apply_loops C D (apply_forced C forced init_table) in
  raised C T0 = None /\ outer C reg fo fi D T0 = Ok T /\ final_check C reg T D = None.
Proof.
  intros C reg fo fi D forced T H T0. unfold infer in H. fold T0 in H.
  destruct (raised C T0); [discriminate|].
  destruct (outer C reg fo fi D T0) as [T1|e]; [|discriminate].
  destruct (final_check C reg T1 D) eqn:E; [discriminate|]. inversion H; subst. auto.
Qed.

Lemma final_check_calls : forall C reg T D,
  final_check C reg T D = None ->
  forall ph stmts xs f args kwn, In (ph, stmts) D -> In (SCall xs f args kwn) stmts ->
  exists s0, rlookup reg f = Some s0 /\ sig_nres s0 = List.length xs.
Proof.
  intros C reg T D. induction D as [|[p l] D IH]; intros H ph stmts xs f args kwn HD Hs; simpl in *.
  - contradiction.
  - destruct (final_stmts C reg T (local_of T p) l) as [e|] eqn:E; [discriminate|].
    destruct HD as [HD|HD]; [|eapply IH; eauto].
    inversion HD; subst. clear HD IH H.
    revert E Hs. generalize (local_of T ph) as L. induction stmts as [|s stmts IHs]; intros L E Hs; simpl in *.
    + contradiction.
    + destruct Hs as [->|Hs].
      * destruct (kcall C reg f (map (kmap C reg (sg T) L) args) kwn); [|discriminate].
        destruct (rlookup reg f) as [s0|]; [|discriminate]. exists s0. split; [reflexivity|].
        destruct (Nat.eqb (sig_nres s0) (List.length xs)) eqn:En; [|discriminate].
        apply Nat.eqb_eq. exact En.
      * destruct s as [x hs rhs loops | xs' f' args' kwn' |].
        -- destruct (kmap C reg (sg T) L rhs); [|discriminate]. eapply IHs; eauto.
        -- destruct (kcall C reg f' (map (kmap C reg (sg T) L) args') kwn'); [|discriminate].
           destruct (rlookup reg f') as [s1|]; [|discriminate].
           destruct (Nat.eqb (sig_nres s1) (List.length xs')); [|discriminate]. eapply IHs; eauto.
        -- eapply IHs; eauto.
Qed.

Definition init_twf (C : cfg) : Prop := is_state C "<t>" = true /\ is_state C "<dt>" = true.

Lemma init_table_twf : forall C, init_twf C -> twf C init_table.
Proof.
  intros C [Ht Hdt]. split.
  - intros y Hy.
    change (alookup (sg init_table) y)
      with (if String.eqb "<t>" y then Some (Some (KScalar true))
            else if String.eqb "<dt>" y then Some (Some (KScalar true)) else @None okind) in Hy.
    destruct (String.eqb "<t>" y) eqn:E1.
    + apply String.eqb_eq in E1. subst. exact Ht.
    + destruct (String.eqb "<dt>" y) eqn:E2; [|congruence]. apply String.eqb_eq in E2. subst. exact Hdt.
  - intros p y Hy. unfold local_of in Hy. simpl in Hy. congruence.
Qed.

(* what inference guarantees for every cfg: entries for all processed assignments, a well-formed table *)
Theorem infer_keys : forall C reg fo fi D forced T,
  init_twf C ->
  infer C reg fo fi D forced = Ok T ->
  twf C T /\
  (forall ph stmts x rhs loops, In (ph, stmts) D -> In (SAssign x false rhs loops) stmts ->
                                lookup T ph x <> None) /\
  (forall ph stmts xs f args kwn x, In (ph, stmts) D -> In (SCall xs f args kwn) stmts -> In x xs ->
                                    lookup T ph x <> None).
Proof.
  intros C reg fo fi D forced T Hinit H. destruct (infer_inv _ _ _ _ _ _ _ H) as [_ [E Ef]]. clear H.
  apply (outer_gen C reg (relA C) (fun _ => True) (postA reg) (relA_refl C) (relA_trans C)) in E.
  - destruct E as [[_ Hwf] [HP _]]. split; [|split].
    + apply Hwf. apply (apply_loops_relA C D). apply (apply_forced_relA C forced init_table).
      apply init_table_twf. exact Hinit.
    + intros ph stmts x rhs loops HD Hs.
      assert (Hin : In (ph, SAssign x false rhs loops) (items_of D)) by (apply in_items_of; eauto).
      apply HP in Hin. exact Hin.
    + intros ph stmts xs f args kwn x HD Hs Hx.
      assert (Hin : In (ph, SCall xs f args kwn) (items_of D)) by (apply in_items_of; eauto).
      apply HP in Hin. unfold postA in Hin. simpl in Hin. destruct Hin as [s0 [Hf Hk]].
      destruct (final_check_calls C reg T D Ef ph stmts xs f args kwn HD Hs) as [s1 [Hf1 Hn]].
      rewrite Hf in Hf1. inversion Hf1; subst s1. apply Hk. rewrite Hn. rewrite firstn_all. exact Hx.
  - intros T0 ph s _. apply procA.
  - apply postA_mono.
  - apply relA_reset.
  - auto.
Qed.
