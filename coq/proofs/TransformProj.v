(* Proofs for C07 (model/Transform.v, model/TransformSem.v). *)
From Coq Require Import List ZArith NArith String Ascii Bool Arith Lia Permutation.
Import ListNotations.
From Dagrt Require Import Lang LangProofs Sched Transform TransformSem TransformSide TransformBasics.

(* ------------------------------------------------------------------------------------ *)
(* the traced semantics computes Lang's values                                            *)

Section Proj.
  Variable F : string -> list val -> list (string * val) -> option (list val).

  Lemma call1t_snd f kw vs : snd (call1t F f kw vs) = call1 F f kw vs.
  Proof. unfold call1t, call1. destruct (split_at _ vs) as [pos kws]. reflexivity. Qed.

  (* Lang.eval's inner fold of the strict nodes as a function of its own *)
  Fixpoint nfold_e (o : nop) (s : store) (acc : nacc) (l : list expr) : list var * rs nacc :=
    match l with
    | [] => ([], Ok acc)
    | e :: l' =>
        let (r, v) := eval F s e in
        match v with
        | Err u => (r, Err u)
        | Ok x =>
            match nstep o acc x with
            | None => (r, Err false)
            | Some acc' => let (r2, res) := nfold_e o s acc' l' in (r ++ r2, res)
            end
        end
    end.

  Lemma eval_nary_e s o l :
    is_lazy o = false ->
    eval F s (ENary o l) = let (r, a) := nfold_e o s (ninit o) l in (r, rbind a (nfinish F o)).
  Proof.
    intros Ho.
    assert (Hgo : forall acc,
               (fix go (acc : nacc) (l : list expr) : list var * rs nacc :=
                  match l with
                  | [] => ([], Ok acc)
                  | e :: l' =>
                      let (r, v) := eval F s e in
                      match v with
                      | Err u => (r, Err u)
                      | Ok x =>
                          match nstep o acc x with
                          | None => (r, Err false)
                          | Some acc' => let (r2, res) := go acc' l' in (r ++ r2, res)
                          end
                      end
                  end) acc l = nfold_e o s acc l).
    { induction l as [|a l IH]; intros acc; [reflexivity|]. cbn [nfold_e].
      destruct (eval F s a) as [r [x|u]]; [|reflexivity]. destruct (nstep o acc x); [|reflexivity].
      now rewrite IH. }
    destruct o; try discriminate; cbn [eval]; rewrite Hgo; reflexivity.
  Qed.

  Lemma nfold_snd s o l :
    Forall (fun e => snd (evalt F s e) = snd (eval F s e)) l ->
    forall acc, snd (nfold_t F o s acc l) = snd (nfold_e o s acc l).
  Proof.
    induction 1 as [|a l Ha _ IH]; intros acc; [reflexivity|]. cbn [nfold_t nfold_e].
    destruct (evalt F s a) as [r v], (eval F s a) as [r' v']. cbn in Ha. subst v'.
    destruct v as [x|u]; [|reflexivity]. destruct (nstep o acc x) as [acc'|]; [|reflexivity].
    specialize (IH acc'). destruct (nfold_t F o s acc' l), (nfold_e o s acc' l). cbn in *. now subst.
  Qed.

  Lemma evalt_snd s e : snd (evalt F s e) = snd (eval F s e).
  Proof.
    induction e as [z|b| |x|a IHa|c t e IHc IHt IHe|o a b IHa IHb|o l IH] using expr_ind';
      cbn [evalt eval]; try reflexivity.
    - destruct (evalt F s a) as [l v], (eval F s a) as [r v']. cbn in *. now subst.
    - destruct (evalt F s c) as [l v], (eval F s c) as [r v']. cbn in IHc. subst v'.
      destruct (rbind v _) as [[|]|u]; cbn; try reflexivity.
      + destruct (evalt F s t), (eval F s t). cbn in *. now subst.
      + destruct (evalt F s e), (eval F s e). cbn in *. now subst.
    - destruct (evalt F s a) as [l v], (eval F s a) as [r v']. cbn in IHa. subst v'.
      destruct v as [x|u]; cbn; try reflexivity.
      destruct (evalt F s b), (eval F s b). cbn in *. now subst.
    - (* n-ary *)
      assert (Hand : forall l, Forall (fun e => snd (evalt F s e) = snd (eval F s e)) l ->
                snd ((fix go (l : list expr) : list call * rs val :=
                        match l with
                        | [] => ([], Ok (VBool true))
                        | a :: l' =>
                            let (r, v) := evalt F s a in
                            match rbind v (fun v => lift (truth v)) with
                            | Err u => (r, Err u)
                            | Ok false => (r, Ok (VBool false))
                            | Ok true => let (r2, v2) := go l' in (r ++ r2, v2)
                            end
                        end) l)
                = snd ((fix go (l : list expr) : list var * rs val :=
                          match l with
                          | [] => ([], Ok (VBool true))
                          | a :: l' =>
                              let (r, v) := eval F s a in
                              match rbind v (fun v => lift (truth v)) with
                              | Err u => (r, Err u)
                              | Ok false => (r, Ok (VBool false))
                              | Ok true => let (r2, v2) := go l' in (r ++ r2, v2)
                              end
                          end) l)).
      { induction 1 as [|a l' Ha _ IHl]; [reflexivity|].
        destruct (evalt F s a) as [r v], (eval F s a) as [r' v']. cbn in Ha. subst v'.
        destruct (rbind v _) as [[|]|u]; cbn; try reflexivity.
        match goal with |- snd (let (_, _) := ?A in _) = snd (let (_, _) := ?B in _) =>
          destruct A, B end. cbn in *. now subst. }
      assert (Hor : forall l, Forall (fun e => snd (evalt F s e) = snd (eval F s e)) l ->
                snd ((fix go (l : list expr) : list call * rs val :=
                        match l with
                        | [] => ([], Ok (VBool false))
                        | a :: l' =>
                            let (r, v) := evalt F s a in
                            match rbind v (fun v => lift (truth v)) with
                            | Err u => (r, Err u)
                            | Ok true => (r, Ok (VBool true))
                            | Ok false => let (r2, v2) := go l' in (r ++ r2, v2)
                            end
                        end) l)
                = snd ((fix go (l : list expr) : list var * rs val :=
                          match l with
                          | [] => ([], Ok (VBool false))
                          | a :: l' =>
                              let (r, v) := eval F s a in
                              match rbind v (fun v => lift (truth v)) with
                              | Err u => (r, Err u)
                              | Ok true => (r, Ok (VBool true))
                              | Ok false => let (r2, v2) := go l' in (r ++ r2, v2)
                              end
                          end) l)).
      { induction 1 as [|a l' Ha _ IHl]; [reflexivity|].
        destruct (evalt F s a) as [r v], (eval F s a) as [r' v']. cbn in Ha. subst v'.
        destruct (rbind v _) as [[|]|u]; cbn; try reflexivity.
        match goal with |- snd (let (_, _) := ?A in _) = snd (let (_, _) := ?B in _) =>
          destruct A, B end. cbn in *. now subst. }
      assert (Hfin : forall o acc, snd (nfinish_t F o acc) = nfinish F o acc).
      { intros o0 acc. destruct o0, acc; try reflexivity. cbn [nfinish_t nfinish]. apply call1t_snd. }
      destruct (is_lazy o) eqn:Ho.
      + destruct o; try discriminate; [apply Hand; exact IH|apply Hor; exact IH].
      + change (snd (evalt F s (ENary o l)) = snd (eval F s (ENary o l))).
        rewrite (evalt_nary F s o l Ho), (eval_nary_e s o l Ho).
        pose proof (nfold_snd s o l IH (ninit o)) as Hg.
        destruct (nfold_t F o s (ninit o) l) as [r a], (nfold_e o s (ninit o) l) as [r' a']. cbn in Hg. subst a'.
        destruct a as [acc|u]; cbn; [|reflexivity].
        pose proof (Hfin o acc) as Hf. destruct (nfinish_t F o acc). cbn in *. now subst.
  Qed.
End Proj.
