(* Proofs for C07 (model/Transform.v, model/TransformSem.v). *)
From Coq Require Import List ZArith NArith String Ascii Bool Arith Lia Permutation.
Import ListNotations.
From Dagrt Require Import Lang LangProofs Sched Transform TransformSem.

(* ------------------------------------------------------------------------------------ *)
(* the traced semantics computes Lang's values                                            *)

Section Proj.
  Variable F : string -> list val -> list (string * val) -> option (list val).

  Lemma call1t_snd f kw vs : snd (call1t F f kw vs) = call1 F f kw vs.
  Proof. unfold call1t, call1. destruct (split_at _ vs) as [pos kws]. reflexivity. Qed.

  Lemma evalt_snd s e : snd (evalt F s e) = snd (eval F s e).
  Proof.
    induction e as [z|b| |x|a IHa|c t e IHc IHt IHe|o a b IHa IHb|o l IH] using expr_ind';
      cbn [evalt eval]; try reflexivity.
    - destruct (evalt F s a) as [l v], (eval F s a) as [r v']. cbn in *. now subst.
    - destruct (evalt F s c) as [l v], (eval F s c) as [r v']. cbn in IHc. subst v'.
      destruct (rbind v _) as [[|]|u]; cbn; try reflexivity.
      + destruct (evalt F s t), (eval F s t). cbn in *. now subst.
      + destruct (evalt F s e), (eval F s e). cbn in *. now subst.
    - destruct (evalt F s a) as [l v], (eval F s a) as [r v']. cbn in IHa. subst v'.
      destruct v as [x|u]; cbn; try reflexivity.
      destruct (evalt F s b), (eval F s b). cbn in *. now subst.
    - (* n-ary *)
      assert (Hand : forall l, Forall (fun e => snd (evalt F s e) = snd (eval F s e)) l ->
                snd ((fix go (l : list expr) : list call * rs val :=
                        match l with
                        | [] => ([], Ok (VBool true))
                        | a :: l' =>
                            let (r, v) := evalt F s a in
                            match rbind v (fun v => lift (truth v)) with
                            | Err u => (r, Err u)
                            | Ok false => (r, Ok (VBool false))
                            | Ok true => let (r2, v2) := go l' in (r ++ r2, v2)
                            end
                        end) l)
                = snd ((fix go (l : list expr) : list var * rs val :=
                          match l with
                          | [] => ([], Ok (VBool true))
                          | a :: l' =>
                              let (r, v) := eval F s a in
                              match rbind v (fun v => lift (truth v)) with
                              | Err u => (r, Err u)
                              | Ok false => (r, Ok (VBool false))
                              | Ok true => let (r2, v2) := go l' in (r ++ r2, v2)
                              end
                          end) l)).
      { induction 1 as [|a l' Ha _ IHl]; [reflexivity|].
        destruct (evalt F s a) as [r v], (eval F s a) as [r' v']. cbn in Ha. subst v'.
        destruct (rbind v _) as [[|]|u]; cbn; try reflexivity.
        match goal with |- snd (let (_, _) := ?A in _) = snd (let (_, _) := ?B in _) =>
          destruct A, B end. cbn in *. now subst. }
      assert (Hor : forall l, Forall (fun e => snd (evalt F s e) = snd (eval F s e)) l ->
                snd ((fix go (l : list expr) : list call * rs val :=
                        match l with
                        | [] => ([], Ok (VBool false))
                        | a :: l' =>
                            let (r, v) := evalt F s a in
                            match rbind v (fun v => lift (truth v)) with
                            | Err u => (r, Err u)
                            | Ok true => (r, Ok (VBool true))
                            | Ok false => let (r2, v2) := go l' in (r ++ r2, v2)
                            end
                        end) l)
                = snd ((fix go (l : list expr) : list var * rs val :=
                          match l with
                          | [] => ([], Ok (VBool false))
                          | a :: l' =>
                              let (r, v) := eval F s a in
                              match rbind v (fun v => lift (truth v)) with
                              | Err u => (r, Err u)
                              | Ok true => (r, Ok (VBool true))
                              | Ok false => let (r2, v2) := go l' in (r ++ r2, v2)
                              end
                          end) l)).
      { induction 1 as [|a l' Ha _ IHl]; [reflexivity|].
        destruct (evalt F s a) as [r v], (eval F s a) as [r' v']. cbn in Ha. subst v'.
        destruct (rbind v _) as [[|]|u]; cbn; try reflexivity.
        match goal with |- snd (let (_, _) := ?A in _) = snd (let (_, _) := ?B in _) =>
          destruct A, B end. cbn in *. now subst. }
      assert (Hgo : forall l, Forall (fun e => snd (evalt F s e) = snd (eval F s e)) l ->
                snd ((fix go (l : list expr) : list call * rs (list val) :=
                        match l with
                        | [] => ([], Ok [])
                        | a :: l' =>
                            let (r, v) := evalt F s a in
                            match v with
                            | Err u => (r, Err u)
                            | Ok x => let (r2, vs) := go l' in (r ++ r2, rmap (cons x) vs)
                            end
                        end) l)
                = snd ((fix go (l : list expr) : list var * rs (list val) :=
                          match l with
                          | [] => ([], Ok [])
                          | a :: l' =>
                              let (r, v) := eval F s a in
                              match v with
                              | Err u => (r, Err u)
                              | Ok x => let (r2, vs) := go l' in (r ++ r2, rmap (cons x) vs)
                              end
                          end) l)).
      { induction 1 as [|a l' Ha _ IHl]; [reflexivity|].
        destruct (evalt F s a) as [r v], (eval F s a) as [r' v']. cbn in Ha. subst v'.
        destruct v as [x|u]; cbn; try reflexivity.
        match goal with |- snd (let (_, _) := ?A in _) = snd (let (_, _) := ?B in _) =>
          destruct A, B end. cbn in *. now subst. }
      destruct o; try (apply Hand; exact IH); try (apply Hor; exact IH);
        specialize (Hgo l IH);
        match goal with |- snd (let (_, _) := ?A in _) = snd (let (_, _) := ?B in _) =>
          destruct A as [r vs], B as [r' vs'] end; cbn in Hgo; subst vs';
        destruct vs as [vs|u]; cbn; try reflexivity.
      pose proof (call1t_snd f kw vs) as Hc. destruct (call1t F f kw vs). cbn in *. now subst.
  Qed.
End Proj.
