(* Closed witnesses (vm_compute) for the kind-inference model: the full order-independence
   statement, its refutation per defect shape, and non-vacuity examples for the theorems
   order_independent_partial / order_independent / infer_kinds_phase_order. *)
From Coq Require Import List String Bool Arith Permutation.
Import ListNotations.
From Dagrt Require Import Unify UnifyProofs KindOrder KindInfer KindRegistryProofs KindInferProofs
  KindTableProofs KindFinderProofs KindFinderFull.
Open Scope string_scope.

Definition sg (args : list string) (n : nat) (rk : rkind) : fsig :=
  {| f_args := args; f_nres := n; f_rk := rk |}.

(* some built-ins as dagrt/function_registry.py registers them, and an ODE right-hand side
   (register_ode_rhs(reg, "u", identifier="<func>f")) *)
Definition ex_reg : registry :=
  [("<builtin>elementwise_abs", sg ["x"] 1 RAbs);
   ("<builtin>dot_product", sg ["x"; "y"] 1 RDot);
   ("<builtin>array", sg ["n"] 1 RArray);
   ("<builtin>matmul", sg ["a"; "b"; "a_cols"; "b_cols"] 1 RMatMul);
   ("<builtin>svd", sg ["a"; "a_cols"] 3 RSvd);
   ("<func>f", sg ["t"; "u"] 1 (RRhs "u"))].

(* the configuration of the model for given shape switches; the literal lists are those of
   dagrt/utils.py is_state_variable and SymbolKindTable.__init__ *)
Definition mk_cfg (ut_int arr_int ins_changed set_raises prepass restart arr_only : bool) : cfg := {|
  c_ut_int := ut_int;
  c_arr_int := arr_int;
  c_ins_changed := ins_changed;
  c_set_raises := set_raises;
  c_loops_prepass := prepass;
  c_restart := restart;
  c_arr_only := arr_only;
  c_reg := ex_reg;
  c_is_state := is_state_variable ["<t>"; "<dt>"]
                  ["<state>"; "<p>"; "<ret_time_id>"; "<ret_time>"; "<ret_state>"];
  c_init_global := ["<t>"; "<dt>"]
|}.

(* The property at full strength: presenting the same statements in another order gives the
   same outcome (both runs fail, or both return equal tables), fuel exhaustion aside.
   Inputs: no empty product in a flattened right-hand side (pymbolic.flatten never returns
   one), forced kinds are kinds (not None). *)
Definition full_statement (c : cfg) : Prop :=
  forall fuel fuel' forced all all',
    Permutation all all' ->
    (forall it, In it all -> wf_item it) ->
    (forall p x k, In (p, x, k) forced -> k <> None) ->
    run_queue c fuel forced all <> OOutOfFuel ->
    run_queue c fuel' forced all' <> OOutOfFuel ->
    outcome_sim (run_queue c fuel forced all) (run_queue c fuel' forced all').

(* The same for the DAGCode front end: the order in which the phases dict lists the phases *)
Definition glue_statement (c : cfg) : Prop :=
  forall fuel fuel' dag dag',
    Permutation dag dag' ->
    (forall ph s, In ph dag -> In s (snd ph) -> stmt_ok s = true) ->
    infer_kinds c fuel dag <> OOutOfFuel ->
    infer_kinds c fuel' dag' <> OOutOfFuel ->
    outcome_sim (infer_kinds c fuel dag) (infer_kinds c fuel' dag').

Definition asg (lhs : string) (e : expr) : bstmt :=
  {| b_lhs := [lhs]; b_sub := false; b_loops := []; b_rhs := RExpr e e |}.

Definition asgl (lhs : string) (loops : list string) (sub : bool) (e : expr) : bstmt :=
  {| b_lhs := [lhs]; b_sub := sub; b_loops := loops; b_rhs := RExpr e e |}.

Definition calls (lhss : list string) (f : string) (args : list expr) (kwn : list string) : bstmt :=
  {| b_lhs := lhss; b_sub := false; b_loops := []; b_rhs := RCall f args kwn |}.

(* ---- defect: a loop variable set by a statement that does not count as progress ----
   X: a <- i * 2        Y: c[0] <- 1  (loop variable i)
   Popping X first: X is deferred (i unknown), Y sets i and is dropped without progress,
   "no progress" => diagnostics find that X can now be inferred => AssertionError.
   Popping Y first: i is known when X is popped => a table.  Independent of the other switches
   (except the restart: the insertion of i is a change of the table). *)
Definition wX : qitem := ("p", asg "a" (EProd [EVar "i"; EConst true])).
Definition wY : qitem := ("p", asgl "c" ["i"] true (EConst true)).

Lemma full_statement_refuted : forall ui ai ic sr ao, ~ full_statement (mk_cfg ui ai ic sr false false ao).
Proof.
  intros ui ai ic sr ao H.
  specialize (H 10 10 [] [wX; wY] [wY; wX] (perm_swap _ _ _)).
  assert (Hwf : forall it, In it [wX; wY] -> wf_item it) by (intros it [<-|[<-|[]]]; reflexivity).
  assert (Hf : forall (p x : string) (k : okind), In (p, x, k) [] -> k <> None) by (intros p x k []).
  specialize (H Hwf Hf).
  destruct ui, ai, ic, sr, ao; vm_compute in H; apply H; discriminate.
Qed.

(* registered up front, both orders agree *)
Example loop_variable_repaired :
  outcome_sim (run_queue (mk_cfg true true true true true true true) 10 [] [wX; wY])
              (run_queue (mk_cfg true true true true true true true) 10 [] [wY; wX]).
Proof. vm_compute. intros k. reflexivity. Qed.

(* ---- defect: inserting a new name does not set the change flag ----
   z <- 1j ; y <- 1 + z   (program order; the finder pops from the end)
   y is popped first and gets Scalar(real) from the constant alone; z is inserted afterwards,
   nothing "changed", the loop stops: y stays real although it is complex. *)
Definition wZ : qitem := ("p", asg "z" (EConst false)).
Definition wS : qitem := ("p", asg "y" (ESum [EConst true; EVar "z"])).

Lemma insert_unflagged_refuted : forall sr pp rs ao,
  exists T T',
    run_queue (mk_cfg true true false sr pp rs ao) 10 [] [wZ; wS] = OTable T false /\
    run_queue (mk_cfg true true false sr pp rs ao) 10 [] [wS; wZ] = OTable T' false /\
    ~ table_equiv T T'.
Proof.
  intros sr pp rs ao. destruct sr, pp, rs, ao; do 2 eexists;
    (split; [vm_compute; reflexivity|split; [vm_compute; reflexivity|]]);
    intro E; specialize (E (Some "p", "y")); vm_compute in E; discriminate.
Qed.

(* ---- defect: a failing unification is printed and ignored: the first kind wins ----
   x <- <t> > 0 ; x <- <t> + 1 *)
Definition wB : qitem := ("p", asg "x" (ECmp (EVar "<t>") (EConst true))).
Definition wA : qitem := ("p", asg "x" (ESum [EVar "<t>"; EConst true])).

Lemma first_kind_wins_refuted : forall ic pp rs ao,
  exists T T',
    run_queue (mk_cfg true true ic false pp rs ao) 10 [] [wB; wA] = OTable T true /\
    run_queue (mk_cfg true true ic false pp rs ao) 10 [] [wA; wB] = OTable T' true /\
    ~ table_equiv T T'.
Proof.
  intros ic pp rs ao. destruct ic, pp, rs, ao; do 2 eexists;
    (split; [vm_compute; reflexivity|split; [vm_compute; reflexivity|]]);
    intro E; specialize (E (Some "p", "x")); vm_compute in E; discriminate.
Qed.

(* with the re-raise both orders fail *)
Example first_kind_wins_repaired :
  outcome_sim (run_queue (mk_cfg true true true true true true true) 10 [] [wB; wA])
              (run_queue (mk_cfg true true true true true true true) 10 [] [wA; wB]).
Proof. vm_compute. exact I. Qed.

(* ---- defect: giving up although the table changed during the pass ----
   w <- 1.5 ; x <- i + w (loop i) ; y <- elementwise_abs(x)       (statements are popped from the end)
   In this order y is popped first and deferred, x gets Scalar (w is known), y is retried: a table.
   With the first two swapped, x is entered as Integer (from i alone; w is skipped by map_sum),
   elementwise_abs(Integer) cannot be inferred, w arrives, the retry sweep still sees x: Integer and
   makes no progress: RuntimeError -- the next pass would have raised x to Scalar. *)
Definition wW : qitem := ("p", asg "w" (EConst true)).
Definition wXi : qitem := ("p", asgl "x" ["i"] false (ESum [EVar "i"; EVar "w"])).
Definition wAbs : qitem := ("p", asg "y" (ECall "<builtin>elementwise_abs" [EVar "x"] [])).

Lemma gives_up_early_refuted : forall ao, ~ full_statement (mk_cfg true true true true true false ao).
Proof.
  intros ao H.
  specialize (H 10 10 [] [wW; wXi; wAbs] [wXi; wW; wAbs] (perm_swap _ _ _)).
  assert (Hwf : forall it, In it [wW; wXi; wAbs] -> wf_item it) by (intros it [<-|[<-|[<-|[]]]]; reflexivity).
  assert (Hf : forall (p x : string) (k : okind), In (p, x, k) [] -> k <> None) by (intros p x k []).
  specialize (H Hwf Hf).
  destruct ao; vm_compute in H; apply H; discriminate.
Qed.

Example gives_up_early_repaired :
  outcome_simb (run_queue (mk_cfg true true true true true true true) 10 [] [wW; wXi; wAbs])
              (run_queue (mk_cfg true true true true true true true) 10 [] [wXi; wW; wAbs]) = true.
Proof. vm_compute. reflexivity. Qed.

(* ---- defect: matmul is inferable for a Scalar but not for the UserType above it ----
   a <- 1.5 ; a <- <func>f(<t>, <state>y) ; s <- matmul(a, a, 1, 1) + 1
   The order [a <- f(..); s <- ..; a <- 1.5] pops a <- 1.5 first, then s: matmul(Scalar, Scalar) is an
   Array, which the sum keeps although a then becomes the user type u and matmul(u, u) cannot be
   inferred any more; in program order a is the user type when s is popped and s is a Scalar. *)
Definition wA1 : qitem := ("p", asg "a" (EConst true)).
Definition wA2 : qitem := ("p", asg "a" (ECall "<func>f" [EVar "<t>"; EVar "<state>y"] [])).
Definition wMM : qitem :=
  ("p", asg "s" (ESum [ECall "<builtin>matmul" [EVar "a"; EVar "a"; EConst true; EConst true] []; EConst true])).

Lemma scalar_matrix_refuted : forall pp rs,
  exists T T',
    run_queue (mk_cfg true true true true pp rs false) 10 [] [wA1; wA2; wMM] = OTable T false /\
    run_queue (mk_cfg true true true true pp rs false) 10 [] [wA2; wMM; wA1] = OTable T' false /\
    ~ table_equiv T T'.
Proof.
  intros pp rs. destruct pp, rs; do 2 eexists;
    (split; [vm_compute; reflexivity|split; [vm_compute; reflexivity|]]);
    intro E; specialize (E (Some "p", "s")); vm_compute in E; discriminate.
Qed.

Lemma scalar_matrix_full_refuted : forall pp rs, ~ full_statement (mk_cfg true true true true pp rs false).
Proof.
  intros pp rs H. destruct (scalar_matrix_refuted pp rs) as [T [T' [E1 [E2 Hne]]]].
  assert (Hperm : Permutation [wA1; wA2; wMM] [wA2; wMM; wA1]).
  { change [wA2; wMM; wA1] with (List.app [wA2; wMM] [wA1]). apply Permutation_cons_append. }
  specialize (H 10 10 [] _ _ Hperm).
  assert (Hwf : forall it, In it [wA1; wA2; wMM] -> wf_item it) by (intros it [<-|[<-|[<-|[]]]]; reflexivity).
  assert (Hf : forall (p x : string) (k : okind), In (p, x, k) [] -> k <> None) by (intros p x k []).
  specialize (H Hwf Hf).
  assert (Hs : outcome_sim (OTable T false) (OTable T' false)).
  { rewrite <- E1, <- E2. apply H; intro Hx.
    - pose proof (eq_trans (eq_sym E1) Hx). discriminate.
    - pose proof (eq_trans (eq_sym E2) Hx). discriminate. }
  apply Hne. exact Hs.
Qed.

Example scalar_matrix_repaired :
  outcome_simb (run_queue (mk_cfg true true true true true true true) 10 [] [wA1; wA2; wMM])
              (run_queue (mk_cfg true true true true true true true) 10 [] [wA2; wMM; wA1]) = true.
Proof. vm_compute. reflexivity. Qed.

(* ---- non-vacuity: the hypotheses of both theorems are satisfiable with a run in which a
   statement is deferred, a kind is raised from real to complex and a second pass is needed,
   with a loop variable and a subscripted assignment *)
Definition wC : qitem := ("p", asg "w" (EProd [EVar "y"; EVar "z"; EVar "i"])).
Definition wL : qitem := ("p", asgl "v" ["i"] true (EVar "w")).

Example hypotheses_satisfiable :
  let c := mk_cfg true true true true true true true in
  let all := [wZ; wS; wC; wL] in
  let all' := [wL; wC; wS; wZ] in
  Permutation all all' /\
  (forall it, In it all -> wf_item it) /\
  (forall (p x : string) (k : okind), In (p, x, k) [("p", "z", Some KInt)] -> k <> None) /\
  exists T T',
    run_queue c 10 [("p", "z", Some KInt)] all = OTable T false /\
    run_queue c 10 [("p", "z", Some KInt)] all' = OTable T' false /\
    tfind T (Some "p", "w") = Some (Some (KScalar false)) /\
    tfind T' (Some "p", "w") = Some (Some (KScalar false)).
Proof.
  cbv zeta. split; [|split; [|split]].
  - replace [wL; wC; wS; wZ] with (rev [wZ; wS; wC; wL]) by reflexivity. apply Permutation_rev.
  - intros it [<-|[<-|[<-|[<-|[]]]]]; reflexivity.
  - intros p x k [[= <- <- <-]|[]]. discriminate.
  - do 2 eexists. repeat split; vm_compute; reflexivity.
Qed.

(* ---- non-vacuity with function calls: call statements (one with three results), a call nested
   in a sum with a keyword argument, arguments defined after their use in the list, a complex
   array that raises a result from real to complex in a second pass; two phases with a local
   variable of the same name and different kinds, presented in both dict orders *)
Definition cM : bstmt := calls ["m"] "<builtin>array" [EConst true] [].
Definition cSvd : bstmt := calls ["u"; "s"; "v"] "<builtin>svd" [EVar "m"; EConst true] [].
Definition cD : bstmt :=
  asg "d" (ESum [ECall "<builtin>dot_product" [EVar "m"; EVar "m"] ["y"]; EConst true]).
Definition cMM : bstmt :=
  calls ["z"] "<builtin>matmul" [EVar "m"; EVar "v"; EConst true; EConst true] ["b_cols"; "a_cols"].
Definition cMc : bstmt := asg "m" (EProd [EVar "m"; EConst false]).
Definition cQ : bstmt := asg "m" (ECmp (EVar "<t>") (EConst true)).

Example hypotheses_satisfiable_calls :
  let c := mk_cfg true true true true true true true in
  let dag := [("p", [cMM; cD; cSvd; cM; cMc]); ("q", [cQ])] in
  let dag' := [("q", [cQ]); ("p", [cMc; cM; cSvd; cD; cMM])] in
  (forall ph s, In ph dag -> In s (snd ph) -> stmt_ok s = true) /\
  exists T T',
    infer_kinds c 10 dag = OTable T false /\ infer_kinds c 10 dag' = OTable T' false /\
    tfind T (Some "p", "z") = Some (Some (KArray false)) /\
    tfind T (Some "p", "s") = Some (Some (KArray false)) /\
    tfind T (Some "p", "d") = Some (Some (KScalar false)) /\
    tfind T (Some "p", "m") = Some (Some (KArray false)) /\
    tfind T (Some "q", "m") = Some (Some KBool) /\
    table_eqb T T' = true.
Proof.
  cbv zeta. split.
  - intros ph s [<-|[<-|[]]]; cbn; intros H; repeat (destruct H as [<-|H]; [reflexivity|]); destruct H.
  - do 2 eexists. repeat (split; [vm_compute; reflexivity|]). vm_compute; reflexivity.
Qed.

Lemma mk_cfg_init_ok : forall ui ai ic sr pp rs ao x,
  In x (c_init_global (mk_cfg ui ai ic sr pp rs ao)) -> c_is_state (mk_cfg ui ai ic sr pp rs ao) x = true.
Proof. intros ui ai ic sr pp rs ao x [<-|[<-|[]]]; reflexivity. Qed.

(* the theorems instantiated at the repaired shapes *)
Theorem order_independent_partial_cfg : forall sr pp rs fuel fuel' forced all all' T T',
  Permutation all all' ->
  (forall it, In it all -> wf_item it) ->
  (forall p x k, In (p, x, k) forced -> k <> None) ->
  run_queue (mk_cfg true true true sr pp rs true) fuel forced all = OTable T false ->
  run_queue (mk_cfg true true true sr pp rs true) fuel' forced all' = OTable T' false ->
  table_equiv T T'.
Proof.
  intros sr pp rs. apply order_independent_partial; try reflexivity. apply mk_cfg_init_ok.
Qed.

Theorem order_independent_cfg : full_statement (mk_cfg true true true true true true true).
Proof.
  unfold full_statement. apply order_independent; try reflexivity. apply mk_cfg_init_ok.
Qed.

Theorem glue_cfg : glue_statement (mk_cfg true true true true true true true).
Proof.
  unfold glue_statement. apply infer_kinds_phase_order; try reflexivity. apply mk_cfg_init_ok.
Qed.
