(* Closed witnesses (vm_compute) for the kind-inference model: the full order-independence
   statement, its refutation per defect shape, and non-vacuity examples for the theorems
   order_independent_partial / order_independent. *)
From Coq Require Import List String Bool Arith Permutation.
Import ListNotations.
From Dagrt Require Import Unify UnifyProofs KindOrder KindInfer KindInferProofs KindTableProofs
  KindFinderProofs KindFinderFull.
Open Scope string_scope.

(* the configuration of the model for given shape switches; the literal lists are those of
   dagrt/utils.py is_state_variable and SymbolKindTable.__init__ *)
Definition mk_cfg (ut_int arr_int ins_changed set_raises prepass : bool) : cfg := {|
  c_ut_int := ut_int;
  c_arr_int := arr_int;
  c_ins_changed := ins_changed;
  c_set_raises := set_raises;
  c_loops_prepass := prepass;
  c_is_state := is_state_variable ["<t>"; "<dt>"]
                  ["<state>"; "<p>"; "<ret_time_id>"; "<ret_time>"; "<ret_state>"];
  c_init_global := ["<t>"; "<dt>"]
|}.

(* The property at full strength: presenting the same statements in another order gives the
   same outcome (both runs fail, or both return equal tables), fuel exhaustion aside.
   Inputs: no empty product in a flattened right-hand side (pymbolic.flatten never returns
   one), forced kinds are kinds (not None). *)
Definition full_statement (c : cfg) : Prop :=
  forall fuel fuel' forced all all',
    Permutation all all' ->
    (forall it, In it all -> wf_item it) ->
    (forall p x k, In (p, x, k) forced -> k <> None) ->
    run_queue c fuel forced all <> OOutOfFuel ->
    run_queue c fuel' forced all' <> OOutOfFuel ->
    outcome_sim (run_queue c fuel forced all) (run_queue c fuel' forced all').

Definition asg (lhs : string) (e : expr) : bstmt :=
  {| b_lhs := lhs; b_sub := false; b_loops := []; b_flat := e; b_raw := e |}.

(* ---- defect: a loop variable set by a statement that does not count as progress ----
   X: a <- i * 2        Y: c[0] <- 1  (loop variable i)
   Popping X first: X is deferred (i unknown), Y sets i and is dropped without progress,
   "no progress" => diagnostics find that X can now be inferred => AssertionError.
   Popping Y first: i is known when X is popped => a table.  Independent of the other switches. *)
Definition wX : qitem := ("p", asg "a" (EProd [EVar "i"; EConst true])).
Definition wY : qitem :=
  ("p", {| b_lhs := "c"; b_sub := true; b_loops := ["i"]; b_flat := EConst true; b_raw := EConst true |}).

Lemma full_statement_refuted : forall ui ai ic sr, ~ full_statement (mk_cfg ui ai ic sr false).
Proof.
  intros ui ai ic sr H.
  specialize (H 10 10 [] [wX; wY] [wY; wX] (perm_swap _ _ _)).
  assert (Hwf : forall it, In it [wX; wY] -> wf_item it) by (intros it [<-|[<-|[]]]; reflexivity).
  assert (Hf : forall (p x : string) (k : okind), In (p, x, k) [] -> k <> None) by (intros p x k []).
  specialize (H Hwf Hf).
  destruct ui, ai, ic, sr; vm_compute in H; apply H; discriminate.
Qed.

(* registered up front, both orders agree *)
Example loop_variable_repaired :
  outcome_sim (run_queue (mk_cfg true true true true true) 10 [] [wX; wY])
              (run_queue (mk_cfg true true true true true) 10 [] [wY; wX]).
Proof. vm_compute. intros k. reflexivity. Qed.

(* ---- defect: inserting a new name does not set the change flag ----
   z <- 1j ; y <- 1 + z   (program order; the finder pops from the end)
   y is popped first and gets Scalar(real) from the constant alone; z is inserted afterwards,
   nothing "changed", the loop stops: y stays real although it is complex. *)
Definition wZ : qitem := ("p", asg "z" (EConst false)).
Definition wS : qitem := ("p", asg "y" (ESum [EConst true; EVar "z"])).

Lemma insert_unflagged_refuted : forall sr pp,
  exists T T',
    run_queue (mk_cfg true true false sr pp) 10 [] [wZ; wS] = OTable T false /\
    run_queue (mk_cfg true true false sr pp) 10 [] [wS; wZ] = OTable T' false /\
    ~ table_equiv T T'.
Proof.
  intros sr pp. destruct sr, pp; do 2 eexists;
    (split; [vm_compute; reflexivity|split; [vm_compute; reflexivity|]]);
    intro E; specialize (E (Some "p", "y")); vm_compute in E; discriminate.
Qed.

(* ---- defect: a failing unification is printed and ignored: the first kind wins ----
   x <- <t> > 0 ; x <- <t> + 1 *)
Definition wB : qitem := ("p", asg "x" (ECmp (EVar "<t>") (EConst true))).
Definition wA : qitem := ("p", asg "x" (ESum [EVar "<t>"; EConst true])).

Lemma first_kind_wins_refuted : forall ic pp,
  exists T T',
    run_queue (mk_cfg true true ic false pp) 10 [] [wB; wA] = OTable T true /\
    run_queue (mk_cfg true true ic false pp) 10 [] [wA; wB] = OTable T' true /\
    ~ table_equiv T T'.
Proof.
  intros ic pp. destruct ic, pp; do 2 eexists;
    (split; [vm_compute; reflexivity|split; [vm_compute; reflexivity|]]);
    intro E; specialize (E (Some "p", "x")); vm_compute in E; discriminate.
Qed.

(* with the re-raise both orders fail *)
Example first_kind_wins_repaired :
  outcome_sim (run_queue (mk_cfg true true true true true) 10 [] [wB; wA])
              (run_queue (mk_cfg true true true true true) 10 [] [wA; wB]).
Proof. vm_compute. exact I. Qed.

(* ---- non-vacuity: the hypotheses of both theorems are satisfiable with a run in which a
   statement is deferred, a kind is raised from real to complex and a second pass is needed,
   with a loop variable and a subscripted assignment *)
Definition wC : qitem := ("p", asg "w" (EProd [EVar "y"; EVar "z"; EVar "i"])).
Definition wL : qitem :=
  ("p", {| b_lhs := "v"; b_sub := true; b_loops := ["i"]; b_flat := EVar "w"; b_raw := EVar "w" |}).

Example hypotheses_satisfiable :
  let c := mk_cfg true true true true true in
  let all := [wZ; wS; wC; wL] in
  let all' := [wL; wC; wS; wZ] in
  Permutation all all' /\
  (forall it, In it all -> wf_item it) /\
  (forall (p x : string) (k : okind), In (p, x, k) [("p", "z", Some KInt)] -> k <> None) /\
  exists T T',
    run_queue c 10 [("p", "z", Some KInt)] all = OTable T false /\
    run_queue c 10 [("p", "z", Some KInt)] all' = OTable T' false /\
    tfind T (Some "p", "w") = Some (Some (KScalar false)) /\
    tfind T' (Some "p", "w") = Some (Some (KScalar false)).
Proof.
  cbv zeta. split; [|split; [|split]].
  - replace [wL; wC; wS; wZ] with (rev [wZ; wS; wC; wL]) by reflexivity. apply Permutation_rev.
  - intros it [<-|[<-|[<-|[<-|[]]]]]; reflexivity.
  - intros p x k [[= <- <- <-]|[]]. discriminate.
  - do 2 eexists. repeat split; vm_compute; reflexivity.
Qed.

Lemma mk_cfg_init_ok : forall ui ai ic sr pp x,
  In x (c_init_global (mk_cfg ui ai ic sr pp)) -> c_is_state (mk_cfg ui ai ic sr pp) x = true.
Proof. intros ui ai ic sr pp x [<-|[<-|[]]]; reflexivity. Qed.

(* the theorems instantiated at the repaired shapes *)
Theorem order_independent_partial_cfg : forall sr pp fuel fuel' forced all all' T T',
  Permutation all all' ->
  (forall it, In it all -> wf_item it) ->
  (forall p x k, In (p, x, k) forced -> k <> None) ->
  run_queue (mk_cfg true true true sr pp) fuel forced all = OTable T false ->
  run_queue (mk_cfg true true true sr pp) fuel' forced all' = OTable T' false ->
  table_equiv T T'.
Proof.
  intros sr pp. apply order_independent_partial; try reflexivity. apply mk_cfg_init_ok.
Qed.

Theorem order_independent_cfg : full_statement (mk_cfg true true true true true).
Proof.
  unfold full_statement. apply order_independent; try reflexivity. apply mk_cfg_init_ok.
Qed.
