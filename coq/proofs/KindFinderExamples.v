(* Closed witnesses (vm_compute) for the kind-inference model: the full order-independence
   statement and its refutations per defect shape, and non-vacuity examples for the theorem
   order_independent_partial. *)
From Coq Require Import List String Bool Arith Permutation.
Import ListNotations.
From Dagrt Require Import Unify UnifyProofs KindOrder KindInfer KindInferProofs KindTableProofs
  KindFinderProofs.
Open Scope string_scope.

(* the configuration of the model for given shape switches; the literal lists are those of
   dagrt/utils.py is_state_variable and SymbolKindTable.__init__ (GenC14.v must agree) *)
Definition mk_cfg (ut_int arr_int ins_changed set_raises : bool) : cfg := {|
  c_ut_int := ut_int;
  c_arr_int := arr_int;
  c_ins_changed := ins_changed;
  c_set_raises := set_raises;
  c_is_state := is_state_variable ["<t>"; "<dt>"]
                  ["<state>"; "<p>"; "<ret_time_id>"; "<ret_time>"; "<ret_state>"];
  c_init_global := ["<t>"; "<dt>"]
|}.

(* The property at full strength: presenting the same statements in another order gives the
   same outcome (both runs fail, or both return equal tables), fuel exhaustion aside. *)
Definition full_statement (c : cfg) : Prop :=
  forall fuel fuel' forced all all',
    Permutation all all' ->
    run_queue c fuel forced all <> OOutOfFuel ->
    run_queue c fuel' forced all' <> OOutOfFuel ->
    outcome_sim (run_queue c fuel forced all) (run_queue c fuel' forced all').

Definition asg (lhs : string) (e : expr) : bstmt :=
  {| b_lhs := lhs; b_sub := false; b_loops := []; b_flat := e; b_raw := e |}.

(* ---- defect: a loop variable set by a statement that does not count as progress ----
   X: a <- i * 2        Y: c[0] <- 1  (loop variable i)
   Popping X first: X is deferred (i unknown), Y sets i and is dropped without progress,
   "no progress" => diagnostics find that X can now be inferred => AssertionError.
   Popping Y first: i is known when X is popped => a table.  Independent of all four switches. *)
Definition wX : qitem := ("p", asg "a" (EProd [EVar "i"; EConst true])).
Definition wY : qitem :=
  ("p", {| b_lhs := "c"; b_sub := true; b_loops := ["i"]; b_flat := EConst true; b_raw := EConst true |}).

Lemma full_statement_refuted : forall ui ai ic sr, ~ full_statement (mk_cfg ui ai ic sr).
Proof.
  intros ui ai ic sr H.
  specialize (H 10 10 [] [wX; wY] [wY; wX] (perm_swap _ _ _)).
  destruct ui, ai, ic, sr; vm_compute in H; apply H; discriminate.
Qed.

(* ---- defect: inserting a new name does not set the change flag ----
   z <- 1j ; y <- 1 + z   (program order; the finder pops from the end)
   y is popped first and gets Scalar(real) from the constant alone; z is inserted afterwards,
   nothing "changed", the loop stops: y stays real although it is complex. *)
Definition wZ : qitem := ("p", asg "z" (EConst false)).
Definition wS : qitem := ("p", asg "y" (ESum [EConst true; EVar "z"])).

Lemma insert_unflagged_refuted : forall sr,
  exists T T',
    run_queue (mk_cfg true true false sr) 10 [] [wZ; wS] = OTable T false /\
    run_queue (mk_cfg true true false sr) 10 [] [wS; wZ] = OTable T' false /\
    ~ table_equiv T T'.
Proof.
  intros sr. destruct sr; do 2 eexists; (split; [vm_compute; reflexivity|split; [vm_compute; reflexivity|]]);
    intro E; specialize (E (Some "p", "y")); vm_compute in E; discriminate.
Qed.

(* ---- defect: a failing unification is printed and ignored: the first kind wins ----
   x <- <t> > 0 ; x <- <t> + 1 *)
Definition wB : qitem := ("p", asg "x" (ECmp (EVar "<t>") (EConst true))).
Definition wA : qitem := ("p", asg "x" (ESum [EVar "<t>"; EConst true])).

Lemma first_kind_wins_refuted : forall ic,
  exists T T',
    run_queue (mk_cfg true true ic false) 10 [] [wB; wA] = OTable T true /\
    run_queue (mk_cfg true true ic false) 10 [] [wA; wB] = OTable T' true /\
    ~ table_equiv T T'.
Proof.
  intros ic. destruct ic; do 2 eexists; (split; [vm_compute; reflexivity|split; [vm_compute; reflexivity|]]);
    intro E; specialize (E (Some "p", "x")); vm_compute in E; discriminate.
Qed.

(* with the re-raise both orders fail *)
Example first_kind_wins_repaired :
  outcome_sim (run_queue (mk_cfg true true true true) 10 [] [wB; wA])
              (run_queue (mk_cfg true true true true) 10 [] [wA; wB]).
Proof. vm_compute. exact I. Qed.

(* ---- non-vacuity of order_independent_partial: hypotheses are satisfiable with a run in which
   a statement is deferred, a kind is raised from real to complex and a second pass is needed *)
Definition wC : qitem := ("p", asg "w" (EProd [EVar "y"; EVar "z"])).

Example partial_hypotheses_satisfiable :
  let c := mk_cfg true true true true in
  let all := [wZ; wS; wC] in
  let all' := [wC; wS; wZ] in
  Permutation all all' /\
  (forall it, In it all -> wf_item it) /\
  exists T T',
    run_queue c 10 [] all = OTable T false /\ run_queue c 10 [] all' = OTable T' false /\
    tfind T (Some "p", "w") = Some (Some (KScalar false)) /\
    tfind T' (Some "p", "w") = Some (Some (KScalar false)).
Proof.
  cbv zeta. split; [|split].
  - apply perm_trans with [wS; wZ; wC]; [apply perm_swap|].
    apply perm_trans with [wS; wC; wZ]; [apply perm_skip; apply perm_swap|apply perm_swap].
  - intros it [<-|[<-|[<-|[]]]]; reflexivity.
  - do 2 eexists. repeat split; vm_compute; reflexivity.
Qed.

Lemma mk_cfg_init_ok : forall ui ai ic sr x,
  In x (c_init_global (mk_cfg ui ai ic sr)) -> c_is_state (mk_cfg ui ai ic sr) x = true.
Proof. intros ui ai ic sr x [<-|[<-|[]]]; reflexivity. Qed.

(* the theorem instantiated at the repaired shapes; the re-raise switch is arbitrary *)
Theorem order_independent_partial_cfg : forall sr fuel fuel' forced all all' T T',
  Permutation all all' ->
  (forall it, In it all -> wf_item it) ->
  (forall p x k, In (p, x, k) forced -> k <> None) ->
  run_queue (mk_cfg true true true sr) fuel forced all = OTable T false ->
  run_queue (mk_cfg true true true sr) fuel' forced all' = OTable T' false ->
  table_equiv T T'.
Proof.
  intros sr. apply order_independent_partial; try reflexivity. apply mk_cfg_init_ok.
Qed.
