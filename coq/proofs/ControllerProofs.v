(* Proofs about coq/model/Controller.v (ExecutionController): C04.
   The DFS part adapts proofs/Dfs.v (visit_spec / adequacy) to the controller's
   three skip sets and its KeyError / AssertionError outcomes. *)
From Coq Require Import List Arith Bool Lia Relations Permutation.
Import ListNotations.
From Dagrt Require Import Controller.

(* ------------------------------------------------------------------ basics *)

Lemma mem_In x l : mem x l = true <-> In x l.
Proof.
  unfold mem. rewrite existsb_exists. split.
  - intros (y & Hy & E). apply Nat.eqb_eq in E. now subst.
  - intros H. exists x. split; [assumption|apply Nat.eqb_refl].
Qed.

Lemma mem_nIn x l : mem x l = false <-> ~ In x l.
Proof. rewrite <- mem_In. destruct (mem x l); split; intros H; congruence. Qed.

Lemma set_add_In y x s : In y (set_add x s) <-> y = x \/ In y s.
Proof.
  unfold set_add. destruct (mem x s) eqn:E.
  - apply mem_In in E. split; [now right|]. intros [->|H]; assumption.
  - cbn. split; intros [H|H]; auto.
Qed.

Lemma set_remove_In y x s : In y (set_remove x s) <-> In y s /\ y <> x.
Proof.
  unfold set_remove. rewrite filter_In. split; intros [H1 H2]; split; try assumption.
  - intros ->. rewrite Nat.eqb_refl in H2. discriminate.
  - destruct (Nat.eqb x y) eqn:E; [apply Nat.eqb_eq in E; congruence|reflexivity].
Qed.

Lemma set_update_In y l : forall s, In y (set_update l s) <-> In y l \/ In y s.
Proof.
  unfold set_update. induction l as [|a l IH]; intros s; cbn.
  - split; [now right|]. intros [[]|H]; assumption.
  - rewrite IH, set_add_In. split.
    + intros [H|[H|H]]; auto.
    + intros [[H|H]|H]; auto.
Qed.

Lemma lookup_Some ph i s : lookup ph i = Some s -> In s ph /\ sid s = i.
Proof.
  induction ph as [|a r IH]; cbn; [discriminate|].
  destruct (lookup r i) as [t|] eqn:E.
  - intros H. injection H as <-. destruct (IH eq_refl) as [H1 H2]. split; [now right|assumption].
  - destruct (Nat.eqb (sid a) i) eqn:Ea; [|discriminate].
    intros H. injection H as <-. apply Nat.eqb_eq in Ea. split; [now left|assumption].
Qed.

Lemma lookup_None ph i : lookup ph i = None <-> ~ In i (ids ph).
Proof.
  induction ph as [|a r IH]; cbn.
  - split; [intros _ []|reflexivity].
  - destruct (lookup r i) as [t|] eqn:E.
    + split; [discriminate|]. intros H. exfalso. apply H. right.
      destruct (lookup_Some _ _ _ E) as [H1 <-]. apply in_map. assumption.
    + destruct (Nat.eqb (sid a) i) eqn:Ea.
      * apply Nat.eqb_eq in Ea. split; [discriminate|]. intros H. exfalso. apply H. now left.
      * apply Nat.eqb_neq in Ea. split; [|reflexivity]. intros _ [H|H]; [congruence|].
        apply IH in H; [assumption|reflexivity].
Qed.

Lemma lookup_In ph i : In i (ids ph) -> exists s, lookup ph i = Some s.
Proof.
  intros H. destruct (lookup ph i) as [s|] eqn:E; [eauto|].
  apply lookup_None in E. contradiction.
Qed.

Lemma lookup_NoDup ph s : NoDup (ids ph) -> In s ph -> lookup ph (sid s) = Some s.
Proof.
  induction ph as [|a r IH]; intros ND Hin; [destruct Hin|].
  cbn in ND. inversion ND as [|? ? Hn ND']; subst. cbn.
  destruct Hin as [->|Hin].
  - assert (E : lookup r (sid s) = None) by (apply lookup_None; assumption).
    rewrite E, Nat.eqb_refl. reflexivity.
  - rewrite (IH ND' Hin). reflexivity.
Qed.

Lemma deps_of_lookup ph x s : lookup ph x = Some s -> deps_of ph x = sdeps s.
Proof. unfold deps_of. intros ->. reflexivity. Qed.

Lemma edge_reach_trans ph x y z : edge ph x y -> reach ph y z -> clos_trans nat (edge ph) x z.
Proof.
  intros Hxy Hyz. apply clos_rt_rt1n in Hyz. revert x Hxy.
  induction Hyz as [y|y w z Hyw _ IH]; intros x Hxy.
  - apply t_step; assumption.
  - eapply t_trans; [apply t_step; exact Hxy|]. apply IH. exact Hyw.
Qed.

Lemma app_snoc_split {A} (l l1 l2 : list A) (x y : A) :
  l ++ [y] = l1 ++ x :: l2 ->
  (l2 = [] /\ l = l1 /\ y = x) \/ (exists l2', l2 = l2' ++ [y] /\ l = l1 ++ x :: l2').
Proof.
  destruct (exists_last (l := x :: l2)) as (m & z & E); [discriminate|].
  intros H. rewrite E in H. rewrite app_assoc in H. apply app_inj_tail in H. destruct H as [H1 <-].
  destruct l2 as [|b l2].
  - left. destruct m as [|c m]; cbn in E.
    + injection E as ->. rewrite app_nil_r in H1. auto.
    + injection E as _ E. destruct m; discriminate.
  - right. destruct (exists_last (l := b :: l2)) as (m' & z' & E'); [discriminate|].
    rewrite E' in E. change (x :: m' ++ [z']) with ((x :: m') ++ [z']) in E.
    apply app_inj_tail in E. destruct E as [<- <-].
    exists m'. split; [assumption|]. rewrite H1. reflexivity.
Qed.

Lemma NoDup_app_l {A} (l r : list A) : NoDup (l ++ r) -> NoDup l.
Proof.
  induction l as [|a l IH]; cbn; intros H; [constructor|].
  inversion H as [|? ? Hn Hnd]; subst. constructor; [|apply IH; assumption].
  intros Hin. apply Hn. rewrite in_app_iff. now left.
Qed.

Lemma NoDup_app_intro {A} (l r : list A) :
  NoDup l -> NoDup r -> (forall x, In x l -> In x r -> False) -> NoDup (l ++ r).
Proof.
  induction l as [|a l IH]; cbn; intros Hl Hr Hd; [assumption|].
  inversion Hl as [|? ? Hn Hnd]; subst. constructor.
  - rewrite in_app_iff. intros [H|H]; [contradiction|]. apply (Hd a); [now left|assumption].
  - apply IH; auto. intros x Hx Hx'. apply (Hd x); [now right|assumption].
Qed.

(* ------------------------------------------------------------------ the DFS of update_plan *)

Section DfsSpec.
  Variable ph : phase.
  Variable ex pl : list nat.
  Hypothesis Hacyc : acyclic ph.

  Notation awd := (add_with_deps ph ex pl).
  Notation addall := (add_all ph ex pl).

  Lemma add_all_stuck_raise f xs e :
    fold_left (fun r x => match r with Ok a => awd f x a | o => o end) xs (Raise e) = Raise e.
  Proof. induction xs; cbn; auto. Qed.
  Lemma add_all_stuck_fuel f xs :
    fold_left (fun r x => match r with Ok a => awd f x a | o => o end) xs OutOfFuel = OutOfFuel.
  Proof. induction xs; cbn; auto. Qed.

  Lemma add_all_cons f x xs early :
    addall f (x :: xs) early =
    match awd f x early with Ok a => addall f xs a | Raise e => Raise e | OutOfFuel => OutOfFuel end.
  Proof.
    unfold add_all. cbn. destruct (awd f x early).
    - reflexivity.
    - apply add_all_stuck_raise.
    - apply add_all_stuck_fuel.
  Qed.

  (* what update_plan has built so far: every element is new, is a statement of the phase, and
     each of its dependencies is executed, planned or earlier in the list *)
  Inductive post : list nat -> Prop :=
  | post_nil : post []
  | post_snoc l x : post l ->
      (forall d, In d (deps_of ph x) -> In d ex \/ In d pl \/ In d l) ->
      ~ In x l -> ~ In x ex -> ~ In x pl -> In x (ids ph) -> post (l ++ [x]).

  Lemma post_facts l : post l ->
    NoDup l /\ (forall x, In x l -> ~ In x ex /\ ~ In x pl /\ In x (ids ph)) /\
    (forall l1 x l2, l = l1 ++ x :: l2 ->
       forall d, In d (deps_of ph x) -> In d ex \/ In d pl \/ In d l1).
  Proof.
    induction 1 as [|l x P (ND & Hel & Hdep) Hd Hn He Hp Hi].
    - split; [constructor|]. split; [intros x []|]. intros [|] ? ? H; discriminate.
    - split; [|split].
      + rewrite <- (rev_involutive (l ++ [x])). apply NoDup_rev. rewrite rev_app_distr. cbn.
        constructor; [rewrite <- in_rev; assumption|apply NoDup_rev; assumption].
      + intros y Hy. rewrite in_app_iff in Hy. destruct Hy as [Hy|[<-|[]]]; auto.
      + intros l1 y l2 E d Hdy. apply app_snoc_split in E.
        destruct E as [(-> & -> & ->)|(l2' & -> & ->)].
        * apply Hd. assumption.
        * eapply Hdep; [reflexivity|eassumption].
  Qed.

  Definition SpecV f := forall x early r, post early -> awd f x early = Ok r ->
    exists new, r = early ++ new /\ post r /\ (In x ex \/ In x pl \/ In x r) /\ In x (ids ph) /\
                (forall z, In z new -> reach ph x z).
  Definition SpecS f := forall xs early r, post early -> addall f xs early = Ok r ->
    exists new, r = early ++ new /\ post r /\ (forall x, In x xs -> In x ex \/ In x pl \/ In x r) /\
                incl xs (ids ph) /\ (forall z, In z new -> exists y, In y xs /\ reach ph y z).

  Lemma specS_of_specV f : SpecV f -> SpecS f.
  Proof.
    intros HV xs. induction xs as [|y ys IH]; intros early r P H.
    - cbn in H. injection H as <-. exists []. rewrite app_nil_r.
      repeat split; auto; try (intros ? []).
    - rewrite add_all_cons in H. destruct (awd f y early) as [a| |] eqn:Ea; try discriminate.
      destruct (HV _ _ _ P Ea) as (n1 & -> & Pa & Hy & Hyi & R1).
      destruct (IH _ _ Pa H) as (n2 & -> & Pr & Hall & Hincl & R2).
      exists (n1 ++ n2). rewrite app_assoc. split; [reflexivity|]. split; [assumption|].
      split; [|split].
      + intros z [<-|Hz]; [|apply Hall; assumption].
        destruct Hy as [Hy|[Hy|Hy]]; auto. right. right. rewrite in_app_iff. now left.
      + intros z [<-|Hz]; [assumption|apply Hincl; assumption].
      + intros z Hz. rewrite in_app_iff in Hz. destruct Hz as [Hz|Hz].
        * exists y. split; [now left|apply R1; assumption].
        * destruct (R2 _ Hz) as (y' & Hy' & Hr). exists y'. split; [now right|assumption].
  Qed.

  Theorem add_with_deps_spec : forall f, SpecV f.
  Proof.
    induction f as [|f IHv]; intros x early r P H; [discriminate|].
    pose proof (specS_of_specV f IHv) as IHs.
    cbn [add_with_deps] in H.
    destruct (lookup ph x) as [s|] eqn:El; [|discriminate].
    assert (Hxi : In x (ids ph)).
    { destruct (lookup_Some _ _ _ El) as [Hs <-]. apply in_map. assumption. }
    destruct (mem x ex) eqn:Eex.
    { injection H as <-. exists []. rewrite app_nil_r. apply mem_In in Eex.
      repeat split; auto. intros ? []. }
    destruct (mem x pl) eqn:Epl.
    { injection H as <-. exists []. rewrite app_nil_r. apply mem_In in Epl.
      repeat split; auto. intros ? []. }
    destruct (mem x early) eqn:Eea.
    { injection H as <-. exists []. rewrite app_nil_r. apply mem_In in Eea.
      repeat split; auto. intros ? []. }
    fold (addall f (sdeps s) early) in H.
    destruct (addall f (sdeps s) early) as [a| |] eqn:Ea; try discriminate.
    injection H as <-.
    destruct (IHs _ _ _ P Ea) as (new & -> & Pa & Hall & _ & Hreach).
    exists (new ++ [x]). rewrite app_assoc. split; [reflexivity|].
    assert (Hx : ~ In x (early ++ new)).
    { rewrite in_app_iff. intros [Hin|Hin].
      - apply mem_nIn in Eea. auto.
      - destruct (Hreach _ Hin) as (y & Hy & Hyx).
        apply (Hacyc x). eapply edge_reach_trans; [|exact Hyx].
        unfold edge. rewrite (deps_of_lookup _ _ _ El). assumption. }
    apply mem_nIn in Eex. apply mem_nIn in Epl.
    split.
    { constructor; try assumption. intros d Hd. rewrite (deps_of_lookup _ _ _ El) in Hd.
      apply Hall. assumption. }
    split; [right; right; rewrite in_app_iff; right; now left|].
    split; [assumption|].
    intros z Hz. rewrite in_app_iff in Hz. destruct Hz as [Hz|[<-|[]]].
    - destruct (Hreach _ Hz) as (y & Hy & Hyz).
      eapply rt_trans; [apply rt_step|exact Hyz].
      unfold edge. rewrite (deps_of_lookup _ _ _ El). assumption.
    - apply rt_refl.
  Qed.

  Corollary add_all_spec : forall f, SpecS f.
  Proof. intros f. apply specS_of_specV. apply add_with_deps_spec. Qed.

  (* ---- fuel adequacy and absence of KeyError / AssertionError ---- *)
  Hypothesis Hclosed : deps_closed ph.

  (* the recursion stack: x0 -> x1 -> ... stored most recent first *)
  Inductive chain : list nat -> Prop :=
  | chain_one x : chain [x]
  | chain_cons y x p : edge ph x y -> chain (x :: p) -> chain (y :: x :: p).

  Lemma chain_reach_head : forall p y, chain (y :: p) -> forall z, In z p -> clos_trans nat (edge ph) z y.
  Proof.
    intros p. induction p as [|x p IH]; intros y C z Hz; [destruct Hz|].
    inversion C as [|? ? ? Exy C']; subst.
    destruct Hz as [<-|Hz]; [apply t_step; assumption|].
    eapply t_trans; [apply IH; eassumption|apply t_step; assumption].
  Qed.

  Lemma chain_NoDup : forall p, chain p -> NoDup p.
  Proof.
    induction 1 as [x|y x p Exy C IH]; [repeat constructor; intros []|].
    constructor; [|assumption].
    intros [E|Hin].
    - subst x. apply (Hacyc y). apply t_step. exact Exy.
    - apply (Hacyc y). eapply t_trans; [|apply t_step; exact Exy].
      destruct p as [|w p]; [destruct Hin|].
      apply (chain_reach_head (w :: p) x C). exact Hin.
  Qed.

  Lemma adequacy : forall f x early p, chain (x :: p) -> incl (x :: p) (ids ph) ->
    length (x :: p) + f >= length (ids ph) + 1 -> exists r, awd f x early = Ok r.
  Proof.
    induction f as [|f IH]; intros x early p C Hin Hlen.
    - exfalso. pose proof (chain_NoDup _ C) as ND.
      pose proof (NoDup_incl_length ND Hin). lia.
    - cbn [add_with_deps].
      destruct (lookup_In ph x) as (s & El); [apply Hin; now left|]. rewrite El.
      destruct (mem x ex); [eauto|]. destruct (mem x pl); [eauto|]. destruct (mem x early); [eauto|].
      fold (addall f (sdeps s) early).
      assert (HS : forall ys acc, incl ys (sdeps s) -> exists r, addall f ys acc = Ok r).
      { induction ys as [|y ys IHys]; intros acc Hys; [cbn; eauto|].
        rewrite add_all_cons.
        assert (Ey : edge ph x y).
        { unfold edge. rewrite (deps_of_lookup _ _ _ El). apply Hys. now left. }
        destruct (IH y acc (x :: p)) as (a & Ea).
        - constructor; assumption.
        - intros z [<-|Hz]; [|apply Hin; assumption].
          destruct (lookup_Some _ _ _ El) as [Hs _].
          eapply Hclosed; [exact Hs|]. apply Hys. now left.
        - cbn in *. lia.
        - rewrite Ea. apply IHys. intros z Hz. apply Hys. now right. }
      destruct (HS (sdeps s) early (incl_refl _)) as (a & Ea). rewrite Ea. eauto.
  Qed.

  Lemma add_all_total xs : incl xs (ids ph) ->
    forall early, exists r, addall (dfs_fuel ph) xs early = Ok r.
  Proof.
    induction xs as [|x xs IH]; intros Hin early; [cbn; eauto|].
    rewrite add_all_cons.
    destruct (adequacy (dfs_fuel ph) x early []) as (a & Ea).
    - constructor.
    - intros z [<-|[]]. apply Hin. now left.
    - unfold dfs_fuel, ids. rewrite map_length. cbn. lia.
    - rewrite Ea. apply IH. intros z Hz. apply Hin. now right.
  Qed.
End DfsSpec.

(* ------------------------------------------------------------------ update_plan *)

(* partial correctness: needs only acyclicity *)
Lemma update_plan_spec ph st req early st' :
  acyclic ph -> update_plan ph st req = Ok (early, st') ->
  st' = mkState (early ++ plan st) (set_update early (planned st)) (executed st) /\
  NoDup early /\
  (forall x, In x early -> ~ In x (executed st) /\ ~ In x (planned st) /\ In x (ids ph)) /\
  (forall x, In x req -> In x (executed st) \/ In x (planned st) \/ In x early) /\
  incl req (ids ph) /\
  (forall l1 x l2, early = l1 ++ x :: l2 ->
     forall d, In d (deps_of ph x) -> In d (executed st) \/ In d (planned st) \/ In d l1) /\
  (forall z, In z early -> exists r, In r req /\ reach ph r z).
Proof.
  intros Hacyc H. unfold update_plan in H.
  destruct (add_all ph (executed st) (planned st) (dfs_fuel ph) req []) as [e| |] eqn:E; try discriminate.
  injection H as <- <-.
  destruct (add_all_spec ph (executed st) (planned st) Hacyc _ _ _ _ (post_nil _ _ _) E)
    as (new & Enew & P & Hall & Hincl & Hreach).
  cbn in Enew. subst new.
  destruct (post_facts _ _ _ _ P) as (ND & Hel & Hdep).
  repeat split; auto; apply Hel; assumption.
Qed.

Lemma update_plan_total ph st req :
  phase_wf ph -> incl req (ids ph) -> exists early st', update_plan ph st req = Ok (early, st').
Proof.
  intros (ND & Hcl & Hacyc) Hin. unfold update_plan.
  destruct (add_all_total ph (executed st) (planned st) Hacyc Hcl req Hin []) as (r & ->). eauto.
Qed.

(* C04_dynamic_general *)
Theorem update_plan_general ph st req :
  phase_wf ph -> incl req (ids ph) ->
  exists early st', update_plan ph st req = Ok (early, st') /\
    plan st' = early ++ plan st /\ executed st' = executed st /\
    (forall x, In x (planned st') <-> In x early \/ In x (planned st)) /\
    NoDup early /\
    (forall x, In x early -> ~ In x (executed st) /\ ~ In x (planned st) /\ In x (ids ph)) /\
    (forall x, In x req -> In x (executed st) \/ In x (planned st) \/ In x early) /\
    (forall l1 x l2, early = l1 ++ x :: l2 ->
       forall d, In d (deps_of ph x) -> In d (executed st) \/ In d (planned st) \/ In d l1) /\
    (forall z, In z early -> exists r, In r req /\ reach ph r z).
Proof.
  intros Hwf Hin. destruct (update_plan_total ph st req Hwf Hin) as (early & st' & E).
  exists early, st'. split; [assumption|].
  destruct Hwf as (_ & _ & Hacyc).
  destruct (update_plan_spec _ _ _ _ _ Hacyc E) as (-> & ND & Hel & Hall & _ & Hdep & Hreach).
  cbn. repeat split; auto; try (apply Hel; assumption).
  - apply set_update_In.
  - apply set_update_In.
Qed.

(* a request is a no-op once every statement of the phase is executed or planned *)
Lemma update_plan_covered ph st req :
  (forall x, In x (ids ph) -> In x (executed st) \/ In x (planned st)) ->
  (incl req (ids ph) /\
   update_plan ph st req = Ok ([], mkState (plan st) (planned st) (executed st))) \/
  (~ incl req (ids ph) /\ update_plan ph st req = Raise KeyError).
Proof.
  intros Hcov. unfold update_plan.
  assert (H : (incl req (ids ph) /\ add_all ph (executed st) (planned st) (dfs_fuel ph) req [] = Ok []) \/
              (~ incl req (ids ph) /\ add_all ph (executed st) (planned st) (dfs_fuel ph) req [] = Raise KeyError)).
  { induction req as [|x xs IH].
    - left. split; [intros ? []|reflexivity].
    - rewrite add_all_cons. unfold dfs_fuel. rewrite Nat.add_1_r. cbn [add_with_deps].
      destruct (lookup ph x) as [s|] eqn:El.
      + assert (Hx : In x (ids ph)).
        { destruct (lookup_Some _ _ _ El) as [Hs <-]. apply in_map. assumption. }
        assert (Hr : (if mem x (executed st) then Ok [] else if mem x (planned st) then Ok []
                     else @Ok (list nat) []) = Ok []) by (destruct (mem x (executed st)), (mem x (planned st)); reflexivity).
        destruct (Hcov x Hx) as [Hc|Hc]; apply mem_In in Hc; rewrite Hc.
        * unfold dfs_fuel in IH. rewrite Nat.add_1_r in IH.
          destruct IH as [[I1 I2]|[I1 I2]]; [left|right]; (split; [|assumption]).
          -- intros z [<-|Hz]; auto.
          -- intros Hc'. apply I1. intros z Hz. apply Hc'. now right.
        * unfold dfs_fuel in IH. rewrite Nat.add_1_r in IH.
          destruct (mem x (executed st));
          (destruct IH as [[I1 I2]|[I1 I2]]; [left|right]; (split; [|assumption]));
          try (intros z [<-|Hz]; auto); try (intros Hc'; apply I1; intros z Hz; apply Hc'; now right).
      + right. split; [|reflexivity]. intros Hc'. apply lookup_None in El. apply El. apply Hc'. now left. }
  destruct H as [[H1 H2]|[H1 H2]]; rewrite H2; [left|right]; split; auto.
Qed.

(* ------------------------------------------------------------------ roots reach everything *)

Section Roots.
  Variable ph : phase.
  Hypothesis Hwf : phase_wf ph.

  (* a chain of dependents: newest first, each depends on the next *)
  Inductive uchain : list nat -> Prop :=
  | uchain_one x : uchain [x]
  | uchain_cons y x p : edge ph y x -> uchain (x :: p) -> uchain (y :: x :: p).

  Lemma uchain_reach_head : forall p y, uchain (y :: p) -> forall z, In z p -> clos_trans nat (edge ph) y z.
  Proof.
    intros p. induction p as [|x p IH]; intros y C z Hz; [destruct Hz|].
    inversion C as [|? ? ? Eyx C']; subst.
    destruct Hz as [<-|Hz]; [apply t_step; assumption|].
    eapply t_trans; [apply t_step; exact Eyx|apply IH; assumption].
  Qed.

  Lemma uchain_NoDup : forall p, uchain p -> NoDup p.
  Proof.
    destruct Hwf as (_ & _ & Hacyc).
    induction 1 as [x|y x p Eyx C IH]; [repeat constructor; intros []|].
    constructor; [|assumption].
    intros [E|Hin].
    - subst x. apply (Hacyc y). apply t_step. exact Eyx.
    - apply (Hacyc y). eapply t_trans; [apply t_step; exact Eyx|].
      apply (uchain_reach_head p x C). exact Hin.
  Qed.

  Lemma climb : forall k p x, uchain (x :: p) -> incl (x :: p) (ids ph) ->
    length (x :: p) + k >= length (ids ph) + 1 -> exists r, In r (roots ph) /\ reach ph r x.
  Proof.
    induction k as [|k IH]; intros p x C Hin Hlen.
    - exfalso. pose proof (uchain_NoDup _ C) as ND.
      pose proof (NoDup_incl_length ND Hin). lia.
    - destruct (depended_on ph x) eqn:Ed.
      + unfold depended_on in Ed. apply existsb_exists in Ed. destruct Ed as (s & Hs & Hm).
        apply mem_In in Hm.
        assert (Eyx : edge ph (sid s) x).
        { unfold edge, deps_of. destruct Hwf as (ND & _ & _). rewrite (lookup_NoDup _ _ ND Hs). assumption. }
        destruct (IH (x :: p) (sid s)) as (r & Hr & Hreach).
        * constructor; assumption.
        * intros z [<-|Hz]; [apply in_map; assumption|apply Hin; assumption].
        * cbn in *. lia.
        * exists r. split; [assumption|]. eapply rt_trans; [exact Hreach|apply rt_step; exact Eyx].
      + exists x. split; [|apply rt_refl]. unfold roots. apply filter_In. split; [apply Hin; now left|].
        rewrite Ed. reflexivity.
  Qed.

  Lemma root_reaches x : In x (ids ph) -> exists r, In r (roots ph) /\ reach ph r x.
  Proof.
    intros Hx. apply (climb (length (ids ph)) [] x).
    - constructor.
    - intros z [<-|[]]. assumption.
    - cbn. lia.
  Qed.
End Roots.

(* ------------------------------------------------------------------ the initial plan of a step *)

Lemma respects_of_deps ph l :
  (forall l1 x l2, l = l1 ++ x :: l2 -> forall d, In d (deps_of ph x) -> In d [] \/ In d [] \/ In d l1) ->
  respects_deps ph l.
Proof. intros H l1 x l2 E d Hd. destruct (H _ _ _ E d Hd) as [[]|[[]|H']]. assumption. Qed.

Lemma respects_closed ph l : respects_deps ph l -> forall x z, In x l -> reach ph x z -> In z l.
Proof.
  intros R x z Hx Hr. apply clos_rt_rt1n in Hr. induction Hr as [x|x y z Exy _ IH]; [assumption|].
  apply IH. apply in_split in Hx. destruct Hx as (l1 & l2 & ->).
  rewrite in_app_iff. left. eapply R; [reflexivity|exact Exy].
Qed.

Lemma respects_prefix ph l r : respects_deps ph (l ++ r) -> respects_deps ph l.
Proof. intros R l1 x l2 ->. apply (R l1 x (l2 ++ r)). rewrite <- app_assoc. reflexivity. Qed.

Lemma initial_plan ph ro :
  phase_wf ph -> same_members ro (roots ph) ->
  exists plan0, update_plan ph (mkState [] [] []) ro
                = Ok (plan0, mkState (plan0 ++ []) (set_update plan0 []) []) /\
    NoDup plan0 /\ same_members plan0 (ids ph) /\ respects_deps ph plan0.
Proof.
  intros Hwf Hro.
  assert (Hin : incl ro (ids ph)).
  { intros x Hx. apply Hro in Hx. unfold roots in Hx. apply filter_In in Hx. tauto. }
  destruct (update_plan_total ph (mkState [] [] []) ro Hwf Hin) as (plan0 & st' & E).
  pose proof Hwf as (_ & _ & Hacyc).
  destruct (update_plan_spec _ _ _ _ _ Hacyc E) as (-> & ND & Hel & Hall & _ & Hdep & Hreach).
  cbn in *. exists plan0. split; [assumption|]. split; [assumption|].
  assert (R : respects_deps ph plan0) by (apply respects_of_deps; assumption).
  split; [|assumption].
  intros x. split; [intros Hx; apply Hel; assumption|].
  intros Hx. destruct (root_reaches ph Hwf x Hx) as (r & Hr & Hrx).
  apply (respects_closed ph plan0 R r x); [|assumption].
  apply Hro in Hr. destruct (Hall r Hr) as [[]|[[]|H]]. assumption.
Qed.

(* ------------------------------------------------------------------ the run of a whole step *)

Lemma visited_app a b : visited (a ++ b) = visited a ++ visited b.
Proof. unfold visited. apply flat_map_app. Qed.
Lemma execd_app a b : execd (a ++ b) = execd a ++ execd b.
Proof. unfold execd. apply flat_map_app. Qed.

Section StepRun.
  Variable ph : phase.
  Variable target : list nat -> nat -> response.
  Variable plan0 : list nat.
  Hypothesis ND0 : NoDup plan0.
  Hypothesis Hmem0 : same_members plan0 (ids ph).

  Definition good (hist : list nat) (o : outcome) : Prop :=
    exists rest, hist ++ visited (o_log o) ++ rest = plan0 /\ plan (o_state o) = rest /\
      (o_status o = Finished -> rest = []) /\
      (o_status o = Finished \/ o_status o = CutShort \/ o_status o = Failed KeyError) /\
      (never_stops ph target -> o_status o = Finished) /\
      (forall i e, In (LSplice i e) (o_log o) -> e = []).

  Lemma good_emit hist i l o :
    visited l = [i] -> (forall j e, In (LSplice j e) l -> e = []) ->
    good (hist ++ [i]) o -> good hist (emit l o).
  Proof.
    intros Hv Hs (rest & E & Hp & Hf & Hst & Hns & Hsp). exists rest. cbn.
    rewrite visited_app, Hv. rewrite <- app_assoc in E. cbn in E |- *.
    repeat split; auto.
    intros j e Hin. rewrite in_app_iff in Hin. destruct Hin; eauto.
  Qed.

  Lemma good_stop hist i l st1 s :
    visited l = [i] -> (forall j e, In (LSplice j e) l -> e = []) ->
    hist ++ [i] ++ plan st1 = plan0 -> (s = CutShort \/ s = Failed KeyError) ->
    (never_stops ph target -> False) -> good hist (mkOut l st1 s).
  Proof.
    intros Hv Hs E Hst Hns. exists (plan st1). cbn [o_log o_state o_status]. rewrite Hv.
    split; [exact E|]. split; [reflexivity|]. split; [intros ->; destruct Hst; discriminate|].
    split; [destruct Hst; auto|]. split; [intros H; destruct (Hns H)|exact Hs].
  Qed.

  Lemma run_good : forall f st hist,
    hist ++ plan st = plan0 -> same_members (planned st) (plan st) -> same_members (executed st) hist ->
    f >= length (plan st) + 1 -> good hist (run ph target f st hist).
  Proof.
    induction f as [|f IH]; intros st hist Hp Hpl Hex Hf; [lia|].
    cbn [run]. destruct (plan st) as [|i rest] eqn:Eplan.
    { exists []. cbn. rewrite !app_nil_r in *. repeat split; auto. intros ? ? []. }
    assert (Hi : In i (planned st)) by (apply Hpl; now left).
    apply mem_In in Hi. rewrite Hi. cbn [negb].
    assert (Hiids : In i (ids ph)).
    { apply Hmem0. rewrite <- Hp. rewrite in_app_iff. right. now left. }
    destruct (lookup_In _ _ Hiids) as (s & ->).
    assert (NDp : NoDup (hist ++ i :: rest)) by (rewrite Hp; exact ND0).
    assert (Hnr : ~ In i rest).
    { apply NoDup_remove_2 in NDp. intros H. apply NDp. rewrite in_app_iff. now right. }
    set (st1 := mkState rest (set_remove i (planned st)) (set_add i (executed st))).
    assert (Hp1 : (hist ++ [i]) ++ plan st1 = plan0) by (rewrite <- app_assoc; exact Hp).
    assert (Hpl1 : same_members (planned st1) (plan st1)).
    { intros x. cbn. rewrite set_remove_In. split.
      - intros [H1 H2]. apply Hpl in H1. destruct H1; congruence.
      - intros H. split; [apply Hpl; now right|]. intros ->. contradiction. }
    assert (Hex1 : same_members (executed st1) (hist ++ [i])).
    { intros x. cbn. rewrite set_add_In, in_app_iff. cbn. rewrite (Hex x). intuition. }
    assert (Hf1 : f >= length (plan st1) + 1) by (cbn in *; lia).
    assert (Hstop : hist ++ [i] ++ plan st1 = plan0) by exact Hp.
    pose proof (IH st1 (hist ++ [i]) Hp1 Hpl1 Hex1 Hf1) as IH1.
    destruct (target hist i) as [| | | |ev ab nd] eqn:Et.
    - apply (good_stop hist i); auto. { intros ? ? [H|[]]; discriminate. }
      intros NS. specialize (NS hist i). rewrite Et in NS. exact NS.
    - apply (good_emit hist i); auto. intros ? ? [H|[]]; discriminate.
    - apply (good_stop hist i); auto. { intros ? ? [H|[H|[]]]; discriminate. }
      intros NS. specialize (NS hist i). rewrite Et in NS. exact NS.
    - apply (good_emit hist i); auto. intros ? ? [H|[H|[]]]; discriminate.
    - assert (Hvpre : visited ([LCond i; LExec i] ++ (if ev then [LYield i] else [])) = [i])
        by (destruct ev; reflexivity).
      assert (Hspre : forall j e, In (LSplice j e) ([LCond i; LExec i] ++ (if ev then [LYield i] else [])) -> e = []).
      { intros j e. destruct ev; cbn; intuition discriminate. }
      destruct (ev && ab) eqn:Eab.
      { apply (good_stop hist i); auto.
        intros NS. specialize (NS hist i). rewrite Et in NS. destruct NS as [NS _]. congruence. }
      destruct nd as [req|]; [|apply (good_emit hist i); auto].
      destruct (update_plan_covered ph st1 req) as [[Hin ->]|[Hin ->]].
      + intros x Hx. apply Hmem0 in Hx. rewrite <- Hp1 in Hx. rewrite in_app_iff in Hx.
        destruct Hx as [Hx|Hx]; [left; apply Hex1; assumption|right; apply Hpl1; assumption].
      + apply (good_emit hist i).
        * rewrite visited_app, Hvpre. reflexivity.
        * intros j e Hin'. rewrite in_app_iff in Hin'. destruct Hin' as [H|[H|[]]]; [eauto|].
          injection H as _ <-. reflexivity.
        * apply IH; assumption.
      + apply (good_stop hist i); auto.
        intros NS. specialize (NS hist i). rewrite Et in NS. destruct NS as [_ NS].
        apply Hin. apply NS. reflexivity.
  Qed.
End StepRun.

(* the whole step *)
Theorem step_prefix ph ro target st :
  phase_wf ph -> same_members ro (roots ph) ->
  let o := run_single_step st ph ro target in
  exists rest,
    Permutation (visited (o_log o) ++ rest) (ids ph) /\ NoDup (visited (o_log o) ++ rest) /\
    respects_deps ph (visited (o_log o) ++ rest) /\
    plan (o_state o) = rest /\ (o_status o = Finished -> rest = []) /\
    (o_status o = Finished \/ o_status o = CutShort \/ o_status o = Failed KeyError) /\
    (never_stops ph target -> o_status o = Finished) /\
    (forall i e, In (LSplice i e) (o_log o) -> e = []).
Proof.
  intros Hwf Hro. destruct (initial_plan ph ro Hwf Hro) as (plan0 & E & ND & Hmem & R).
  cbv zeta. unfold run_single_step, reset. rewrite E.
  set (st1 := mkState (plan0 ++ []) (set_update plan0 []) []).
  destruct (run_good ph target plan0 ND Hmem (run_fuel ph st1) st1 [])
    as (rest & Hp & Hpl & Hf & Hst & Hns & Hsp).
  - cbn. apply app_nil_r.
  - intros x. cbn [planned plan st1]. rewrite set_update_In, app_nil_r. split; [intros [H|[]]; exact H|intros H; now left].
  - intros x. cbn. tauto.
  - unfold run_fuel. lia.
  - cbn [app] in Hp. exists rest. rewrite Hp.
    split; [apply NoDup_Permutation; auto; destruct Hwf; assumption|].
    repeat split; auto.
Qed.

Theorem step_visits ph ro target st :
  phase_wf ph -> same_members ro (roots ph) -> never_stops ph target ->
  let o := run_single_step st ph ro target in
  o_status o = Finished /\ Permutation (visited (o_log o)) (ids ph) /\ NoDup (visited (o_log o)) /\
  respects_deps ph (visited (o_log o)).
Proof.
  intros Hwf Hro NS o.
  destruct (step_prefix ph ro target st Hwf Hro) as (rest & P & ND & R & _ & Hf & _ & Hns & _).
  fold o in P, ND, R, Hf, Hns. specialize (Hns NS). specialize (Hf Hns). subst rest.
  rewrite app_nil_r in *. auto.
Qed.

Theorem step_cut_short ph ro target st :
  phase_wf ph -> same_members ro (roots ph) ->
  let o := run_single_step st ph ro target in
  NoDup (visited (o_log o)) /\ respects_deps ph (visited (o_log o)) /\ incl (visited (o_log o)) (ids ph) /\
  (o_status o = Finished \/ o_status o = CutShort \/ o_status o = Failed KeyError).
Proof.
  intros Hwf Hro o.
  destruct (step_prefix ph ro target st Hwf Hro) as (rest & P & ND & R & _ & _ & Hst & _).
  fold o in P, ND, R, Hst.
  split; [eapply NoDup_app_l; exact ND|]. split; [eapply respects_prefix; exact R|].
  split; [|assumption].
  intros x Hx. eapply Permutation_in; [exact P|]. rewrite in_app_iff. now left.
Qed.

Theorem step_dynamic_noop ph ro target st :
  phase_wf ph -> same_members ro (roots ph) ->
  forall i early, In (LSplice i early) (o_log (run_single_step st ph ro target)) -> early = [].
Proof.
  intros Hwf Hro. destruct (step_prefix ph ro target st Hwf Hro) as (rest & _ & _ & _ & _ & _ & _ & _ & H).
  exact H.
Qed.

Theorem step_fuel_adequate ph ro target st :
  phase_wf ph -> same_members ro (roots ph) ->
  let s := o_status (run_single_step st ph ro target) in
  s <> LoopOutOfFuel /\ s <> DfsOutOfFuel /\ s <> Failed AssertionError.
Proof.
  intros Hwf Hro s. destruct (step_prefix ph ro target st Hwf Hro) as (rest & _ & _ & _ & _ & _ & H & _).
  fold s in H. repeat split; intros E; rewrite E in H; destruct H as [H|[H|H]]; discriminate.
Qed.

Theorem step_stale_state ph ro target st st' :
  run_single_step st ph ro target = run_single_step st' ph ro target.
Proof. reflexivity. Qed.

(* ------------------------------------------------------------------ guards *)

Lemma run_guarded ph target : forall f st hist,
  execd (o_log (run ph target f st hist)) = guarded target hist (visited (o_log (run ph target f st hist))).
Proof.
  induction f as [|f IH]; intros st hist; [reflexivity|].
  cbn [run]. destruct (plan st) as [|i rest]; [reflexivity|].
  destruct (negb (mem i (planned st))); [reflexivity|].
  destruct (lookup ph i); [|reflexivity].
  destruct (target hist i) as [| | | |ev ab nd] eqn:Et.
  - cbn. unfold guard_holds. rewrite Et. reflexivity.
  - cbn [emit o_log]. rewrite execd_app, visited_app. cbn. unfold guard_holds at 1. rewrite Et. cbn. apply IH.
  - cbn. unfold guard_holds. rewrite Et. reflexivity.
  - cbn [emit o_log]. rewrite execd_app, visited_app. cbn. unfold guard_holds at 1. rewrite Et. cbn.
    f_equal. apply IH.
  - assert (Hv : forall l, visited (([LCond i; LExec i] ++ (if ev then [LYield i] else [])) ++ l) = i :: visited l)
      by (intros l; destruct ev; reflexivity).
    assert (He : forall l, execd (([LCond i; LExec i] ++ (if ev then [LYield i] else [])) ++ l) = i :: execd l)
      by (intros l; destruct ev; reflexivity).
    assert (G : forall v, guarded target hist (i :: v) = i :: guarded target (hist ++ [i]) v).
    { intros v. cbn. unfold guard_holds. rewrite Et. reflexivity. }
    destruct (ev && ab).
    { cbn [o_log]. rewrite <- (app_nil_r (_ ++ _)). rewrite Hv, He, G. reflexivity. }
    destruct nd as [req|].
    + destruct (update_plan ph _ req) as [[early st2]| |].
      * cbn [emit o_log]. rewrite <- app_assoc, Hv, He, G. cbn. f_equal. apply IH.
      * cbn [o_log]. rewrite <- (app_nil_r (_ ++ _)). rewrite Hv, He, G. reflexivity.
      * cbn [o_log]. rewrite <- (app_nil_r (_ ++ _)). rewrite Hv, He, G. reflexivity.
    + cbn [emit o_log]. rewrite Hv, He, G. f_equal. apply IH.
Qed.

Theorem step_guard_false_counts ph ro target st :
  let o := run_single_step st ph ro target in
  execd (o_log o) = guarded target [] (visited (o_log o)).
Proof.
  unfold run_single_step. destruct (update_plan ph (reset st) ro) as [[e st1]| |]; try reflexivity.
  apply run_guarded.
Qed.

(* ------------------------------------------------------------------ nothing twice, from any consistent state *)

Definition state_ok (st : cstate) : Prop :=
  NoDup (plan st) /\ same_members (planned st) (plan st) /\ (forall x, In x (plan st) -> ~ In x (executed st)).

Lemma run_nothing_twice ph target : acyclic ph -> forall f st hist, state_ok st ->
  let o := run ph target f st hist in
  NoDup (visited (o_log o)) /\ (forall x, In x (visited (o_log o)) -> ~ In x (executed st)).
Proof.
  intros Hacyc. induction f as [|f IH]; intros st hist (NDp & Hpl & Hdis).
  { cbn. split; [constructor|intros ? []]. }
  cbn [run]. destruct (plan st) as [|i rest] eqn:Eplan.
  { cbn. split; [constructor|intros ? []]. }
  destruct (negb (mem i (planned st))). { cbn. split; [constructor|intros ? []]. }
  destruct (lookup ph i). 2:{ cbn. split; [constructor|intros ? []]. }
  inversion NDp as [|? ? Hnr NDr]; subst.
  set (st1 := mkState rest (set_remove i (planned st)) (set_add i (executed st))).
  assert (Hiex : ~ In i (executed st)) by (apply Hdis; now left).
  assert (Hok1 : state_ok st1).
  { split; [exact NDr|]. split.
    - intros x. cbn. rewrite set_remove_In. split.
      + intros [H1 H2]. apply Hpl in H1. destruct H1; congruence.
      + intros H. split; [apply Hpl; now right|]. intros ->. contradiction.
    - intros x Hx. cbn. rewrite set_add_In. intros [->|H]; [contradiction|].
      apply (Hdis x); [now right|assumption]. }
  assert (Hone : NoDup [i] /\ (forall x, In x [i] -> ~ In x (executed st))).
  { split; [repeat constructor; intros []|]. intros x [<-|[]]. assumption. }
  assert (Hcont : forall st2 l, state_ok st2 -> (forall x, In x (executed st1) -> In x (executed st2)) ->
            visited l = [i] ->
            let o := emit l (run ph target f st2 (hist ++ [i])) in
            NoDup (visited (o_log o)) /\ (forall x, In x (visited (o_log o)) -> ~ In x (executed st))).
  { intros st2 l Hok2 Hsub Hv. cbn. rewrite visited_app, Hv. cbn.
    destruct (IH st2 (hist ++ [i]) Hok2) as [ND2 Hd2]. split.
    - constructor; [|assumption]. intros Hin. apply (Hd2 i Hin). apply Hsub. cbn. apply set_add_In. now left.
    - intros x [<-|Hx]; [assumption|]. intros Hxe. apply (Hd2 x Hx). apply Hsub. cbn. apply set_add_In. now right. }
  destruct (target hist i) as [| | | |ev ab nd] eqn:Et; try exact Hone.
  - apply Hcont; auto.
  - apply Hcont; auto.
  - assert (Hvpre : visited ([LCond i; LExec i] ++ (if ev then [LYield i] else [])) = [i])
      by (destruct ev; reflexivity).
    destruct (ev && ab). { cbn [o_log]. rewrite Hvpre. exact Hone. }
    destruct nd as [req|]; [|apply Hcont; auto].
    destruct (update_plan ph st1 req) as [[early st2]| |] eqn:Eu;
      try (cbn [o_log]; rewrite Hvpre; exact Hone).
    destruct (update_plan_spec _ _ _ _ _ Hacyc Eu) as (-> & NDe & Hel & _).
    destruct Hok1 as (ND1 & Hpl1 & Hdis1).
    apply Hcont.
    + split; [|split]; cbn [plan planned executed].
      * apply NoDup_app_intro; [assumption|exact ND1|].
        intros x Hx Hx'. apply (Hel x Hx). apply Hpl1. exact Hx'.
      * intros x. rewrite set_update_In, in_app_iff. rewrite (Hpl1 x). reflexivity.
      * intros x Hx. rewrite in_app_iff in Hx. destruct Hx as [Hx|Hx]; [apply Hel; assumption|apply Hdis1; assumption].
    + cbn. auto.
    + rewrite visited_app, Hvpre. reflexivity.
Qed.

(* ------------------------------------------------------------------ a decidable sufficient condition for phase_wf *)

Lemma nodupb_NoDup l : nodupb l = true -> NoDup l.
Proof.
  induction l as [|x r IH]; cbn; [constructor|].
  intros H. apply andb_true_iff in H. destruct H as [H1 H2]. constructor; [|auto].
  apply negb_true_iff in H1. apply mem_nIn. assumption.
Qed.

Lemma wf_decreasing_sound ph : wf_decreasing ph = true -> phase_wf ph.
Proof.
  unfold wf_decreasing. intros H. apply andb_true_iff in H. destruct H as [H1 H2].
  assert (Hd : forall s d, In s ph -> In d (sdeps s) -> d < sid s /\ In d (ids ph)).
  { intros s d Hs Hd. rewrite forallb_forall in H2. specialize (H2 s Hs).
    rewrite forallb_forall in H2. specialize (H2 d Hd). apply andb_true_iff in H2.
    destruct H2 as [H2 H3]. apply Nat.ltb_lt in H2. apply mem_In in H3. auto. }
  split; [apply nodupb_NoDup; assumption|]. split.
  - intros s d Hs Hdd. apply (Hd s d Hs Hdd).
  - assert (He : forall a b, edge ph a b -> b < a).
    { intros a b. unfold edge, deps_of. destruct (lookup ph a) as [s|] eqn:E; [|intros []].
      destruct (lookup_Some _ _ _ E) as [Hs <-]. intros Hb. apply (Hd s b Hs Hb). }
    assert (Ht : forall a b, clos_trans nat (edge ph) a b -> b < a).
    { induction 1 as [a b E|a b c _ IH1 _ IH2]; [apply He; assumption|lia]. }
    intros x Hx. apply Ht in Hx. lia.
Qed.

(* ------------------------------------------------------------------ examples: the hypotheses are satisfiable *)

Definition ex_ph : phase := [mkStmt 0 []; mkStmt 1 [0]; mkStmt 2 [1; 0]; mkStmt 3 [1]; mkStmt 4 []].
(* statement 1 has a false guard, statement 3 yields an event and requests 2 and 0 *)
Definition ex_target : list nat -> nat -> response :=
  fun _ i => if Nat.eqb i 1 then RGuardFalse
             else if Nat.eqb i 3 then RExec true false (Some [2; 0]) else RExecNone.
(* statement 3 raises (FailStep / SwitchPhase / Raise) *)
Definition ex_target_stop : list nat -> nat -> response :=
  fun _ i => if Nat.eqb i 3 then RExecRaise else RExecNone.

Example ex_wf : phase_wf ex_ph.
Proof. apply wf_decreasing_sound. reflexivity. Qed.

Example ex_roots : same_members [4; 3; 2] (roots ex_ph).
Proof. replace (roots ex_ph) with [2; 3; 4] by reflexivity. intros x. cbn. tauto. Qed.

Example ex_never_stops : never_stops ex_ph ex_target.
Proof.
  intros h i. unfold ex_target. destruct (Nat.eqb i 1); [exact I|].
  destruct (Nat.eqb i 3); [|exact I]. split; [reflexivity|].
  intros req H. injection H as <-. intros x [<-|[<-|[]]]; cbn; tauto.
Qed.

(* C04_visits / C04_guard_false_counts / C04_dynamic_noop / C04_stale_state on a concrete step *)
Example ex_step :
  run_single_step (mkState [9] [9] [7]) ex_ph [4; 3; 2] ex_target =
  mkOut [LCond 4; LExec 4; LCond 0; LExec 0; LCond 1; LCond 3; LExec 3; LYield 3; LSplice 3 [];
         LCond 2; LExec 2]
        (mkState [] [] [2; 3; 1; 0; 4]) Finished.
Proof. vm_compute. reflexivity. Qed.

(* C04_prefix on steps that are cut short *)
Example ex_step_cut :
  run_single_step (mkState [] [] []) ex_ph [2; 4; 3] ex_target_stop =
  mkOut [LCond 0; LExec 0; LCond 1; LExec 1; LCond 2; LExec 2; LCond 4; LExec 4; LCond 3; LExec 3]
        (mkState [] [] [3; 4; 2; 1; 0]) CutShort.
Proof. vm_compute. reflexivity. Qed.

Example ex_step_cut2 :
  let o := run_single_step (mkState [] [] []) ex_ph [3; 2; 4] ex_target_stop in
  visited (o_log o) = [0; 1; 3] /\ plan (o_state o) = [2; 4] /\ o_status o = CutShort.
Proof. vm_compute. auto. Qed.

(* C04_dynamic_general: a partial plan [1;3] with 0 executed; requesting 2 and 4 puts exactly
   [2;4] in front (1 and 0 are planned / executed already) *)
Example ex_general :
  update_plan ex_ph (mkState [1; 3] [1; 3] [0]) [2; 4] =
  Ok ([2; 4], mkState [2; 4; 1; 3] [4; 2; 1; 3] [0]).
Proof. vm_compute. reflexivity. Qed.

Example ex_state_ok : state_ok (mkState [1; 3] [3; 1] [0]).
Proof.
  split; [repeat constructor; cbn; intuition discriminate|]. split.
  - intros x. cbn. tauto.
  - intros x. cbn. intuition; subst; discriminate.
Qed.

(* Observation (outside a step, i.e. outside the property): with a partial plan made through
   update_plan directly, a requested statement is placed before a dependency that is already
   planned -- here 2 (which depends on 1) runs before 1.  C04_dynamic_general says exactly this:
   dependencies of the spliced statements are executed, spliced earlier, or *planned*. *)
Example ex_partial_plan_dep_after :
  visited (o_log (run ex_ph (fun _ i => if Nat.eqb i 0 then RExec false false (Some [2]) else RExecNone)
                      10 (mkState [0; 1; 3] [0; 1; 3] []) [])) = [0; 2; 1; 3].
Proof. vm_compute. reflexivity. Qed.
