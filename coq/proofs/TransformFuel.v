(* C07 proofs: the search for an unused name never runs out of fuel (pytools' generator always
   terminates): there are more candidates than existing names and the candidates are pairwise
   distinct. *)
From Coq Require Import List ZArith NArith String Ascii Bool Arith Lia DecimalString DecimalN DecimalPos.
Import ListNotations.
From Dagrt Require Import Lang Transform TransformBasics.

Lemma append_cancel_l (p a b : string) : (p ++ a)%string = (p ++ b)%string -> a = b.
Proof. induction p as [|c p IH]; cbn; intros H; [exact H|]. inversion H. auto. Qed.

Lemma string_of_uint_inj d d' :
  d <> Decimal.Nil -> d' <> Decimal.Nil -> NilZero.string_of_uint d = NilZero.string_of_uint d' -> d = d'.
Proof.
  intros Hd Hd' H. pose proof (NilZero.usu d Hd) as H1. pose proof (NilZero.usu d' Hd') as H2.
  rewrite H in H1. rewrite H1 in H2. now inversion H2.
Qed.

Lemma N_to_uint_nonnil n : N.to_uint n <> Decimal.Nil.
Proof. destruct n; [discriminate|apply DecimalPos.Unsigned.to_uint_nonnil]. Qed.

Lemma decN_inj a b : decN a = decN b -> a = b.
Proof.
  unfold decN. intros H. apply string_of_uint_inj in H; try apply N_to_uint_nonnil.
  now apply DecimalN.Unsigned.to_uint_inj.
Qed.

Definition cand (p : string) (n : N) : string := (p ++ "_" ++ decN n)%string.

Lemma cand_inj p a b : cand p a = cand p b -> a = b.
Proof. unfold cand. intros H. apply append_cancel_l in H. apply (append_cancel_l "_") in H. now apply decN_inj. Qed.

Lemma smem_remove x y l : x <> y -> smem x (remove string_dec y l) = smem x l.
Proof.
  intros Hxy. destruct (smem x l) eqn:E.
  - apply smem_In. apply smem_In in E. now apply in_in_remove.
  - apply smem_false. apply smem_false in E. intros H. apply E. eapply in_remove. exact H.
Qed.

Lemma search_remove fuel : forall e p n m,
  (m < n)%N -> search fuel (remove string_dec (cand p m) e) p n = search fuel e p n.
Proof.
  induction fuel as [|f IH]; intros e p n m Hm; [reflexivity|]. cbn [search]. fold (cand p n).
  rewrite smem_remove by (intros H; apply cand_inj in H; lia).
  destruct (smem (cand p n) e); [|reflexivity]. apply IH. lia.
Qed.

Lemma remove_shorter (x : string) l : In x l -> (List.length (remove string_dec x l) < List.length l)%nat.
Proof.
  induction l as [|y l IH]; cbn; [tauto|]. intros [->|H].
  - destruct (string_dec x x) as [_|n]; [|contradiction].
    pose proof (remove_length_le string_dec l x). lia.
  - destruct (string_dec x y); cbn; [pose proof (remove_length_le string_dec l x); lia|].
    specialize (IH H). lia.
Qed.

Lemma search_total fuel : forall e p n,
  (List.length e < fuel)%nat -> exists c nm, search fuel e p n = Some (c, nm).
Proof.
  induction fuel as [|f IH]; intros e p n H; [lia|]. cbn [search]. fold (cand p n).
  destruct (smem (cand p n) e) eqn:E; [|eauto].
  apply smem_In in E. rewrite <- (search_remove f e p (N.succ n) n) by lia.
  apply IH. pose proof (remove_shorter _ _ E). lia.
Qed.

Lemma search0_total e p c : exists c' nm, search0 e p c = Some (c', nm).
Proof.
  unfold search0. destruct c as [n|].
  - apply search_total. lia.
  - destruct (smem p e); [apply search_total; lia|eauto].
Qed.

(* UniqueNameGenerator.__call__ always returns *)
Theorem gen_total g b : exists n g', gen g b = Some (n, g').
Proof.
  unfold gen.
  destruct (assoc b (ctr g)) as [c|].
  - destruct (search0_total (ex g) b (Some c)) as (c' & nm & ->). eauto.
  - destruct (counter_match b) as [[b' c]|].
    + destruct (search0_total (ex g) b' (Some c)) as (c' & nm & ->). eauto.
    + destruct (search0_total (ex g) b None) as (c' & nm & ->). eauto.
Qed.

Corollary genv_total b st : exists n st', genv b st = TOk (n, st').
Proof. unfold genv. destruct (gen_total (gvars st) b) as (n & g' & ->). eauto. Qed.

Corollary geni_total b st : exists n st', geni b st = TOk (n, st').
Proof. unfold geni. destruct (gen_total (gids st) b) as (n & g' & ->). eauto. Qed.
