(* Dfs.v -- reusable proof library (DESIGN.md appendix); closed under the global context *)
From Coq Require Import List Arith Lia Bool Relations.
Import ListNotations.

Section Dfs.
  Variable succ : nat -> list nat.     (* deps of a node *)
  Definition edge (a b : nat) : Prop := In b (succ a).
  Definition reach : nat -> nat -> Prop := clos_refl_trans nat edge.
  Hypothesis acyclic : forall x, ~ clos_trans nat edge x x.

  Definition memb (x : nat) (l : list nat) : bool := existsb (Nat.eqb x) l.
  Lemma memb_In x l : memb x l = true <-> In x l.
  Proof. unfold memb. rewrite existsb_exists. split.
    - intros (y & Hy & E). apply Nat.eqb_eq in E. now subst.
    - intros H. exists x. split; [assumption|apply Nat.eqb_refl]. Qed.
  Lemma memb_nIn x l : memb x l = false <-> ~ In x l.
  Proof. rewrite <- memb_In. destruct (memb x l); split; intros H; try congruence; try discriminate. Qed.

  Fixpoint visit (fuel : nat) (x : nat) (acc : list nat) : option (list nat) :=
    match fuel with
    | 0 => None
    | S f =>
      if memb x acc then Some acc else
      match fold_left (fun r y => match r with Some a => visit f y a | None => None end)
                      (succ x) (Some acc) with
      | Some a => Some (a ++ [x])
      | None => None
      end
    end.

  Definition visits (fuel : nat) (ys : list nat) (acc : list nat) : option (list nat) :=
    fold_left (fun r y => match r with Some a => visit fuel y a | None => None end) ys (Some acc).

  Lemma fold_none f ys : fold_left (fun r y => match r with Some a => visit f y a | None => None end) ys None = None.
  Proof. induction ys; cbn; auto. Qed.
  Lemma visits_cons f y ys acc :
    visits f (y :: ys) acc = match visit f y acc with Some a => visits f ys a | None => None end.
  Proof. unfold visits. cbn. destruct (visit f y acc); [reflexivity|apply fold_none]. Qed.

  Inductive post : list nat -> Prop :=
  | post_nil : post []
  | post_snoc l x : post l -> incl (succ x) l -> ~ In x l -> post (l ++ [x]).

  Lemma post_NoDup l : post l -> NoDup l.
  Proof. induction 1 as [|l x _ IH _ Hn]; [constructor|].
    rewrite <- (rev_involutive (l ++ [x])). apply NoDup_rev. rewrite rev_app_distr. cbn.
    constructor; [rewrite <- in_rev; assumption | apply NoDup_rev; assumption]. Qed.

  Lemma edge_reach_trans x y z : edge x y -> reach y z -> clos_trans nat edge x z.
  Proof. intros Hxy Hyz. apply clos_rt_rt1n in Hyz. revert x Hxy.
    induction Hyz as [y|y w z Hyw _ IH]; intros x Hxy.
    - apply t_step; assumption.
    - eapply t_trans; [apply t_step; exact Hxy|]. apply IH. exact Hyw. Qed.

  Definition SpecV f := forall x acc r, post acc -> visit f x acc = Some r ->
        exists new, r = acc ++ new /\ post r /\ In x r /\ (forall z, In z new -> reach x z).
  Definition SpecS f := forall ys acc r, post acc -> visits f ys acc = Some r ->
        exists new, r = acc ++ new /\ post r /\ incl ys r /\
                    (forall z, In z new -> exists y, In y ys /\ reach y z).

  Lemma specS_of_specV f : SpecV f -> SpecS f.
  Proof.
    intros HV ys. induction ys as [|y ys IH]; intros acc r P H.
    - cbn in H. injection H as <-. exists []. rewrite app_nil_r.
      repeat split; auto; intros z Hz; destruct Hz.
    - rewrite visits_cons in H. destruct (visit f y acc) as [a|] eqn:Ea; [|discriminate].
      destruct (HV _ _ _ P Ea) as (n1 & -> & Pa & Hy & R1).
      destruct (IH _ _ Pa H) as (n2 & -> & Pr & Hincl & R2).
      exists (n1 ++ n2). rewrite app_assoc. split; [reflexivity|]. split; [assumption|]. split.
      + intros z [<-|Hz]; [rewrite in_app_iff; now left|apply Hincl; assumption].
      + intros z Hz. rewrite in_app_iff in Hz. destruct Hz as [Hz|Hz].
        * exists y. split; [now left|apply R1; assumption].
        * destruct (R2 _ Hz) as (y' & Hy' & Hr). exists y'. split; [now right|assumption].
  Qed.

  Theorem visit_spec : forall f, SpecV f.
  Proof.
    induction f as [|f IHv]; intros x acc r P H; [discriminate|].
    pose proof (specS_of_specV f IHv) as IHs.
    cbn [visit] in H. destruct (memb x acc) eqn:Em.
    - injection H as <-. exists []. rewrite app_nil_r. apply memb_In in Em.
      repeat split; auto. intros z Hz; destruct Hz.
    - fold (visits f (succ x) acc) in H.
      destruct (visits f (succ x) acc) as [a|] eqn:Ea; [|discriminate]. injection H as <-.
      destruct (IHs _ _ _ P Ea) as (new & -> & Pa & Hincl & Hreach).
      exists (new ++ [x]). rewrite app_assoc. split; [reflexivity|].
      assert (Hx : ~ In x (acc ++ new)).
      { rewrite in_app_iff. intros [Hin|Hin].
        - apply memb_nIn in Em. auto.
        - destruct (Hreach _ Hin) as (y & Hy & Hyx).
          apply (acyclic x). eapply edge_reach_trans; eassumption. }
      split; [constructor; assumption|].
      split; [rewrite in_app_iff; right; now left|].
      intros z Hz. rewrite in_app_iff in Hz. destruct Hz as [Hz|[<-|[]]].
      + destruct (Hreach _ Hz) as (y & Hy & Hyz).
        eapply rt_trans; [apply rt_step; exact Hy|exact Hyz].
      + apply rt_refl.
  Qed.

  (* ---- fuel adequacy: a finite universe U closed under succ; acyclic => depth <= |U| ---- *)
  Variable U : list nat.
  Hypothesis U_closed : forall a b, In a U -> edge a b -> In b U.

  (* path: a chain x0 -> x1 -> ... -> xk, stored most recent first *)
  Inductive chain : list nat -> Prop :=
  | chain_one x : chain [x]
  | chain_cons y x p : edge x y -> chain (x :: p) -> chain (y :: x :: p).

  Lemma chain_reach_head : forall p y, chain (y :: p) -> forall z, In z p -> clos_trans nat edge z y.
  Proof.
    intros p. induction p as [|x p IH]; intros y C z Hz; [destruct Hz|].
    inversion C as [|? ? ? Exy C']; subst.
    destruct Hz as [<-|Hz]; [apply t_step; assumption|].
    eapply t_trans; [apply IH; eassumption|apply t_step; assumption].
  Qed.

  Lemma chain_NoDup : forall p, chain p -> NoDup p.
  Proof.
    induction 1 as [x|y x p Exy C IH]; [repeat constructor; intros []|].
    constructor; [|assumption].
    intros [E|Hin].
    - subst x. apply (acyclic y). apply t_step. exact Exy.
    - apply (acyclic y). eapply t_trans; [|apply t_step; exact Exy].
      destruct p as [|w p]; [destruct Hin|].
      apply (chain_reach_head (w :: p) x C). exact Hin.
  Qed.

  Lemma adequacy : forall f x acc p, chain (x :: p) -> incl (x :: p) U ->
    length (x :: p) + f >= length U + 1 -> visit f x acc <> None.
  Proof.
    induction f as [|f IH]; intros x acc p C Hin Hlen.
    - exfalso. pose proof (chain_NoDup _ C) as ND.
      pose proof (NoDup_incl_length ND Hin). lia.
    - cbn [visit]. destruct (memb x acc); [discriminate|].
      fold (visits f (succ x) acc).
      assert (HS : forall ys acc', incl ys (succ x) -> visits f ys acc' <> None).
      { induction ys as [|y ys IHys]; intros acc' Hys; [discriminate|].
        rewrite visits_cons.
        assert (Ey : edge x y) by (apply Hys; now left).
        destruct (visit f y acc') as [a|] eqn:Ea.
        - apply IHys. intros z Hz. apply Hys. now right.
        - exfalso. revert Ea. apply (IH y acc' (x :: p)).
          + constructor; assumption.
          + intros z [<-|Hz]; [|apply Hin; assumption].
            eapply U_closed; [apply Hin; now left|exact Ey].
          + cbn in *. lia. }
      specialize (HS (succ x) acc (incl_refl _)).
      destruct (visits f (succ x) acc); [discriminate|congruence].
  Qed.

  Corollary visit_total x acc : In x U -> visit (length U + 1) x acc <> None.
  Proof. intros Hx. apply (adequacy _ x acc []); [constructor| |cbn; lia].
    intros z [<-|[]]. assumption. Qed.
End Dfs.
Print Assumptions visit_spec.
Print Assumptions visit_total.
